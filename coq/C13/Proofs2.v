(* C13 - lemmas, part 2: the canonical form is unique (a trie in canonical form
   is determined by its lookups), hence history independence. *)
From VF.C13 Require Import Model Proofs.
From Coq Require Import Lia ZifyBool ZifyN ZifyNat.
Local Open Scope N_scope.

Definition geq (n1 n2 : node) : Prop := forall key, tkey key -> get n1 key = get n2 key.

Lemma get_short_some : forall k c key, get (Short k c) key <> None -> exists r, key = k ++ r.
Proof.
  intros k c key H. destruct (key_mismatch k key) eqn:Em.
  - apply key_mismatch_true in Em. rewrite get_short_mismatch in H by exact Em. congruence.
  - apply key_mismatch_false in Em. exact Em.
Qed.

(* every canonical sub-trie stores at least one key *)
Lemma canon_witness : forall n, canon n -> exists key, tkey key /\ get n key <> None.
Proof.
  induction n as [|vv|k c IH|cs IH|hh] using node_ind'; intro Hc; try discriminate.
  - destruct (canon_short_inv _ _ Hc) as [[Htk Hv]|[Hnk [Hne [Hf Hcc]]]].
    + exists k. split; [exact Htk|]. destruct (is_valne_inv _ Hv) as [v [-> _]].
      rewrite <- (app_nil_r k) at 2. rewrite get_short_app. discriminate.
    + destruct (IH Hcc) as [key [Hk Hg]]. exists (k ++ key). split; [apply tkey_app_nibs; assumption|].
      rewrite get_short_app. exact Hg.
  - destruct (canon_full_inv _ Hc) as [Hl [Hs Hcnt]].
    destruct (count_ne_two cs Hcnt) as [i [j [Hij [Hi [Hj [Hni Hnj]]]]]].
    pose proof (Hs i ltac:(lia)) as Si. unfold slot_ok in Si. destruct (i <? 16)%nat eqn:E.
    + apply Nat.ltb_lt in E. destruct Si as [Si|Si]; [congruence|].
      rewrite Forall_forall in IH. destruct (IH (nth i cs Empty) ltac:(apply nth_In; lia) Si) as [key [Hk Hg]].
      exists (N.of_nat i :: key). split; [apply tkey_cons_lt; [lia|exact Hk]|].
      rewrite get_full by (try assumption; lia). unfold child. rewrite Nat2N.id. exact Hg.
    + apply Nat.ltb_ge in E. assert (i = 16%nat) as -> by lia. destruct Si as [Si|Si]; [congruence|].
      exists [16]. split; [apply tkey_16|]. rewrite get_full by (try assumption; lia). unfold child.
      change (N.to_nat 16) with 16%nat. destruct (is_valne_inv _ Si) as [v [-> _]]. discriminate.
Qed.

(* a non-empty slot of a branch stores a key that starts with its index *)
Lemma slot_witness : forall i c, (i <= 16)%nat -> slot_ok i c -> c <> Empty ->
  exists r, tkey (N.of_nat i :: r) /\ get c r <> None.
Proof.
  intros i c Hi Si Hne. unfold slot_ok in Si. destruct (i <? 16)%nat eqn:E.
  - apply Nat.ltb_lt in E. destruct Si as [Si|Si]; [congruence|].
    destruct (canon_witness _ Si) as [key [Hk Hg]]. exists key. split; [apply tkey_cons_lt; [lia|exact Hk]|exact Hg].
  - apply Nat.ltb_ge in E. assert (i = 16%nat) as -> by lia. destruct Si as [Si|Si]; [congruence|].
    exists []. split; [apply tkey_16|]. destruct (is_valne_inv _ Si) as [v [-> _]]. discriminate.
Qed.

(* a canonical branch stores two keys with different first nibbles *)
Lemma full_two_witnesses : forall cs, canon (Full cs) ->
  exists i j ri rj, i <> j /\ tkey (i :: ri) /\ tkey (j :: rj) /\
                    get (Full cs) (i :: ri) <> None /\ get (Full cs) (j :: rj) <> None.
Proof.
  intros cs Hc. destruct (canon_full_inv _ Hc) as [Hl [Hs Hcnt]].
  destruct (count_ne_two cs Hcnt) as [i [j [Hij [Hi [Hj [Hni Hnj]]]]]].
  destruct (slot_witness i _ ltac:(lia) (Hs i ltac:(lia)) Hni) as [ri [Hti Hgi]].
  destruct (slot_witness j _ ltac:(lia) (Hs j ltac:(lia)) Hnj) as [rj [Htj Hgj]].
  exists (N.of_nat i), (N.of_nat j), ri, rj. repeat split; try assumption; try lia.
  - rewrite get_full by (try assumption; lia). unfold child. rewrite Nat2N.id. exact Hgi.
  - rewrite get_full by (try assumption; lia). unfold child. rewrite Nat2N.id. exact Hgj.
Qed.

(* a short node and a branch never have the same lookups *)
Lemma short_full_differ : forall k c cs, canon (Short k c) -> canon (Full cs) ->
  (forall key, tkey key -> get (Full cs) key <> None -> get (Short k c) key <> None) -> False.
Proof.
  intros k c cs Hs Hf Hsub.
  destruct (full_two_witnesses cs Hf) as [i [j [ri [rj [Hij [Hti [Htj [Hgi Hgj]]]]]]]].
  apply Hsub in Hgi; [|exact Hti]. apply Hsub in Hgj; [|exact Htj].
  apply get_short_some in Hgi. apply get_short_some in Hgj. destruct Hgi as [r1 E1]. destruct Hgj as [r2 E2].
  destruct k as [|x k].
  - destruct (canon_short_inv _ _ Hs) as [[Htk _]|[_ [Hne _]]]; [apply tkey_nonempty in Htk|]; congruence.
  - cbn in E1, E2. congruence.
Qed.

(* if two canonical short nodes have the same lookups, the key of one does not properly extend the other's *)
Lemma short_no_proper_ext : forall k1 c1 d c2, canon (Short k1 c1) -> canon (Short (k1 ++ d) c2) ->
  (forall key, tkey key -> get (Short k1 c1) key <> None -> get (Short (k1 ++ d) c2) key <> None) -> d = [].
Proof.
  intros k1 c1 d c2 H1 H2 Hsub.
  destruct (canon_short_inv _ _ H1) as [[Htk1 _]|[Hnk1 [_ [Hf1 Hc1]]]].
  - destruct (canon_short_inv _ _ H2) as [[Htk2 _]|[Hnk2 _]].
    + apply (tkey_prefix_eq k1); assumption.
    + apply nibs_app in Hnk2. destruct Hnk2 as [Hn _]. exfalso. exact (tkey_not_nibs _ Htk1 Hn).
  - destruct c1 as [| | |cs1|]; try discriminate.
    destruct (full_two_witnesses cs1 Hc1) as [i [j [ri [rj [Hij [Hti [Htj [Hgi Hgj]]]]]]]].
    assert (forall z rz, tkey (z :: rz) -> get (Full cs1) (z :: rz) <> None -> exists r, z :: rz = d ++ r) as Hz.
    { intros z rz Htz Hgz.
      assert (get (Short k1 (Full cs1)) (k1 ++ z :: rz) <> None) as G by (rewrite get_short_app; exact Hgz).
      apply Hsub in G; [|apply tkey_app_nibs; assumption].
      apply get_short_some in G. destruct G as [r Er]. rewrite <- app_assoc in Er. apply app_inv_head in Er. exists r. exact Er. }
    destruct (Hz i ri Hti Hgi) as [r1 E1]. destruct (Hz j rj Htj Hgj) as [r2 E2].
    destruct d as [|x d]; [reflexivity|]. cbn in E1, E2. congruence.
Qed.

Lemma app_comparable : forall (a b c d : nibbles), a ++ b = c ++ d -> (exists e, c = a ++ e) \/ (exists e, a = c ++ e).
Proof.
  induction a as [|x a IH]; intros b c d E.
  - left. exists c. reflexivity.
  - destruct c as [|y c].
    + right. exists (x :: a). reflexivity.
    + cbn in E. injection E as -> E. destruct (IH _ _ _ E) as [[e ->]|[e ->]]; [left|right]; exists e; reflexivity.
Qed.

(* uniqueness: two canonical sub-tries with the same lookups are equal *)
Lemma canon_unique : forall n1 n2, canon n1 -> canon n2 -> geq n1 n2 -> n1 = n2.
Proof.
  induction n1 as [|vv|k1 c1 IH|cs1 IH|hh] using node_ind'; intros n2 H1 H2 G; try discriminate.
  - (* Short *)
    destruct n2 as [| |k2 c2|cs2|]; try discriminate.
    + (* Short / Short *)
      assert (k1 = k2) as ->.
      { destruct (canon_witness _ H1) as [key [Hk Hg]].
        pose proof Hg as Hg2. rewrite (G key Hk) in Hg2.
        apply get_short_some in Hg. apply get_short_some in Hg2. destruct Hg as [r1 E1]. destruct Hg2 as [r2 E2].
        rewrite E1 in E2. destruct (app_comparable _ _ _ _ E2) as [[e ->]|[e ->]].
        - rewrite (short_no_proper_ext k1 c1 e c2 H1 H2); [symmetry; apply app_nil_r|].
          intros key' Hk' Hg'. rewrite <- (G key' Hk'). exact Hg'.
        - rewrite (short_no_proper_ext k2 c2 e c1 H2 H1); [apply app_nil_r|].
          intros key' Hk' Hg'. rewrite (G key' Hk'). exact Hg'. }
      f_equal.
      destruct (canon_short_inv _ _ H1) as [[Htk Hv1]|[Hnk [_ [Hf1 Hc1]]]];
        destruct (canon_short_inv _ _ H2) as [[Htk' Hv2]|[Hnk' [_ [Hf2 Hc2]]]];
        try (exfalso; eapply tkey_not_nibs; eassumption).
      * destruct (is_valne_inv _ Hv1) as [v1 [-> _]]. destruct (is_valne_inv _ Hv2) as [v2 [-> _]].
        pose proof (G k2 Htk) as E. rewrite <- (app_nil_r k2) in E at 2 4. rewrite !get_short_app in E. cbn in E. congruence.
      * apply IH; [exact Hc1|exact Hc2|]. intros r Hr.
        pose proof (G (k2 ++ r) (tkey_app_nibs _ _ Hnk Hr)) as E. rewrite !get_short_app in E. exact E.
    + (* Short / Full *)
      exfalso. apply (short_full_differ k1 c1 cs2 H1 H2). intros key Hk Hg. rewrite (G key Hk). exact Hg.
  - (* Full *)
    destruct n2 as [| |k2 c2|cs2|]; try discriminate.
    + exfalso. apply (short_full_differ k2 c2 cs1 H2 H1). intros key Hk Hg. rewrite <- (G key Hk). exact Hg.
    + f_equal. destruct (canon_full_inv _ H1) as [Hl1 [Hs1 _]]. destruct (canon_full_inv _ H2) as [Hl2 [Hs2 _]].
      apply (nth_ext _ _ Empty Empty); [congruence|]. intros i Hi. rewrite Hl1 in Hi.
      pose proof (Hs1 i ltac:(lia)) as S1. pose proof (Hs2 i ltac:(lia)) as S2.
      assert (forall r, tkey (N.of_nat i :: r) -> get (nth i cs1 Empty) r = get (nth i cs2 Empty) r) as Gi.
      { intros r Hr. pose proof (G _ Hr) as E. rewrite !get_full in E by (try assumption; lia).
        unfold child in E. rewrite Nat2N.id in E. exact E. }
      destruct (is_empty (nth i cs1 Empty)) eqn:E1; destruct (is_empty (nth i cs2 Empty)) eqn:E2.
      * destruct (nth i cs1 Empty); try discriminate. destruct (nth i cs2 Empty); try discriminate. reflexivity.
      * exfalso. destruct (slot_witness i _ ltac:(lia) S2 ltac:(intro F; rewrite F in E2; discriminate)) as [r [Hr Hg]].
        rewrite <- (Gi r Hr) in Hg. destruct (nth i cs1 Empty); try discriminate. apply Hg. reflexivity.
      * exfalso. destruct (slot_witness i _ ltac:(lia) S1 ltac:(intro F; rewrite F in E1; discriminate)) as [r [Hr Hg]].
        rewrite (Gi r Hr) in Hg. destruct (nth i cs2 Empty); try discriminate. apply Hg. reflexivity.
      * unfold slot_ok in S1, S2. destruct (i <? 16)%nat eqn:E.
        -- apply Nat.ltb_lt in E.
           destruct S1 as [S1|S1]; [rewrite S1 in E1; discriminate|]. destruct S2 as [S2|S2]; [rewrite S2 in E2; discriminate|].
           rewrite Forall_forall in IH. apply (IH (nth i cs1 Empty) ltac:(apply nth_In; lia) _ S1 S2).
           intros r Hr. apply Gi. apply tkey_cons_lt; [lia|exact Hr].
        -- apply Nat.ltb_ge in E. assert (i = 16%nat) as -> by lia.
           destruct S1 as [S1|S1]; [rewrite S1 in E1; discriminate|]. destruct S2 as [S2|S2]; [rewrite S2 in E2; discriminate|].
           destruct (is_valne_inv _ S1) as [v1 [Ev1 _]]. destruct (is_valne_inv _ S2) as [v2 [Ev2 _]].
           pose proof (Gi [] tkey_16) as E'. rewrite Ev1, Ev2 in *. cbn in E'. congruence.
Qed.

Lemma canon_root_unique : forall t1 t2, canon_root t1 -> canon_root t2 -> geq t1 t2 -> t1 = t2.
Proof.
  intros t1 t2 [->|H1] [->|H2] G; [reflexivity| | |apply canon_unique; assumption]; exfalso.
  - destruct (canon_witness _ H2) as [key [Hk Hg]]. rewrite <- (G key Hk) in Hg. apply Hg. reflexivity.
  - destruct (canon_witness _ H1) as [key [Hk Hg]]. rewrite (G key Hk) in Hg. apply Hg. reflexivity.
Qed.

(* geq only speaks about terminated keys; byte keys give all of them *)
Lemma tkey_is_hex : forall key, tkey key -> Nat.even (length key) = false ->
  exists bs, bytes_ok bs /\ key = keybytes_to_hex bs.
Proof.
  intros key. remember (length key) as n eqn:En. revert key En.
  induction n as [n IH] using lt_wf_ind. intros key En Hk Hev.
  destruct key as [|x [|y r]].
  - apply tkey_nonempty in Hk. congruence.
  - apply tkey_cons in Hk. destruct Hk as [[-> _]|[_ Hk]]; [|apply tkey_nonempty in Hk; congruence].
    exists []. split; [constructor|reflexivity].
  - apply tkey_cons in Hk. destruct Hk as [[_ ?]|[Hx Hk]]; [discriminate|].
    apply tkey_cons in Hk. destruct Hk as [[-> ->]|[Hy Hk]].
    + cbn in En. subst n. discriminate.
    + cbn [length] in En. destruct (IH (length r) ltac:(lia) r eq_refl Hk) as [bs [Hb ->]].
      { subst n. cbn in Hev. exact Hev. }
      exists ((16 * x + y) :: bs). split; [constructor; [lia|exact Hb]|].
      cbn [keybytes_to_hex]. f_equal; [|f_equal].
      * apply (N.div_unique _ 16 x y); lia.
      * apply (N.mod_unique _ 16 x y); lia.
Qed.

(* a trie built from byte keys stores no key with an odd number of nibbles *)
Definition only_hex (t : node) : Prop :=
  forall key, tkey key -> Nat.even (length key) = true -> get t key = None.

Lemma hex_length_odd : forall bs, Nat.even (length (keybytes_to_hex bs)) = false.
Proof. induction bs as [|b r IH]; [reflexivity|]. cbn [keybytes_to_hex length]. exact IH. Qed.

Lemma apply_op_only_hex : forall t o, canon_root t -> op_ok o -> only_hex t -> only_hex (apply_op t o).
Proof.
  intros t o Hc Ho Hh key Hk Hev.
  assert (forall k, list_eqb (keybytes_to_hex k) key = false) as Hne.
  { intro k. apply list_eqb_neq. intro E. subst key. rewrite hex_length_odd in Hev. discriminate. }
  destruct o as [k v|k]; cbn [op_ok] in Ho; cbn [apply_op].
  - unfold t_update. destruct v as [|b v].
    + destruct (root_delete_spec t _ Hc (tkey_hex k Ho)) as [_ D2]. rewrite D2 by exact Hk. rewrite Hne. apply Hh; assumption.
    + destruct (root_insert_spec t _ (b :: v) Hc (tkey_hex k Ho) ltac:(discriminate)) as [_ I2].
      rewrite I2 by exact Hk. rewrite Hne. apply Hh; assumption.
  - unfold t_delete. destruct (root_delete_spec t _ Hc (tkey_hex k Ho)) as [_ D2]. rewrite D2 by exact Hk. rewrite Hne. apply Hh; assumption.
Qed.

Lemma run_only_hex : forall ops, Forall op_ok ops -> only_hex (run ops).
Proof.
  intros ops Ho. unfold run.
  assert (forall t, canon_root t -> only_hex t -> only_hex (fold_left apply_op ops t)) as Hgen.
  { induction ops as [|o ops IH]; intros t Hc Hh; cbn [fold_left]; [exact Hh|].
    inversion Ho; subst. apply IH; [assumption| |apply apply_op_only_hex; assumption].
    apply apply_op_spec; assumption. }
  apply Hgen; [left; reflexivity|]. intros key _ _. reflexivity.
Qed.

(* history independence: two histories with the same final content build the same trie *)
Lemma history_independent : forall ops1 ops2, Forall op_ok ops1 -> Forall op_ok ops2 ->
  (forall k, bytes_ok k -> m_run ops1 k = m_run ops2 k) ->
  run ops1 = run ops2.
Proof.
  intros ops1 ops2 H1 H2 Hm.
  apply canon_root_unique; [apply run_canon; exact H1|apply run_canon; exact H2|].
  intros key Hk. destruct (Nat.even (length key)) eqn:Ev.
  - rewrite (run_only_hex ops1 H1 key Hk Ev), (run_only_hex ops2 H2 key Hk Ev). reflexivity.
  - destruct (tkey_is_hex key Hk Ev) as [bs [Hb ->]].
    pose proof (run_refines ops1 H1 bs Hb) as E1. pose proof (run_refines ops2 H2 bs Hb) as E2.
    unfold t_get in E1, E2. rewrite E1, E2. apply Hm. exact Hb.
Qed.
