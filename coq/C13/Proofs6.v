(* C13 - lemmas, part 6: Merkle proofs.  A proof produced by [prove] verifies
   to the stored value or to absence (completeness); whatever node set
   verifies against the root to another answer exhibits a hash collision
   (soundness). *)
From VF.C13 Require Import Model Proofs Proofs4 Proofs5.
From Coq Require Import Lia ZifyBool ZifyN ZifyNat.
Local Open Scope N_scope.

Definition ans (o : option bytes) : vres := match o with Some v => VVal v | None => VAbsent end.

Section Merkle.
Variable H : bytes -> bytes.
Hypothesis Hlen : forall x, length (H x) = 32%nat.

Notation enc := (enc H).
Notation emb := (emb H).
Notation dview := (dview H).
Notation dref := (dref H).

Definition hashed (m : node) : bool := negb (emb m).

(* what VerifyProof does after decoding a node *)
Definition cont (fuel : nat) (pdb : list (bytes * bytes)) (p : nibbles * node) : vres :=
  match p with
  | (_, Empty) => VAbsent
  | (rest, HashN h) => verify_proof_db fuel pdb h rest
  | (_, Val v) => VVal v
  | _ => VErr
  end.

Lemma verify_unfold : forall f pdb want key,
  verify_proof_db (S f) pdb want key =
  match assoc pdb want with
  | None => VErr
  | Some buf =>
    match decode_node decode_fuel buf with
    | DErr => VErr
    | DPanic => VPanic
    | DOk n => cont f pdb (pget n key)
    end
  end.
Proof.
  intros. cbn [verify_proof_db]. destruct (assoc pdb want) as [buf|]; [|reflexivity].
  destruct (decode_node decode_fuel buf); reflexivity.
Qed.

(* ---- the nodes on a path ---------------------------------------------------- *)

Lemma path_nodes_short_app : forall k c r, k ++ r <> [] ->
  path_nodes (Short k c) (k ++ r) = Short k c :: path_nodes c r.
Proof.
  intros k c r Hne. destruct (k ++ r) as [|k0 kr] eqn:E; [congruence|]. cbn [path_nodes]. rewrite <- E.
  assert (key_mismatch k (k ++ r) = false) as -> by (apply key_mismatch_false; eexists; reflexivity).
  rewrite skipn_app_exact. reflexivity.
Qed.

Lemma path_nodes_short_mismatch : forall k c key, key <> [] -> (~ exists r, key = k ++ r) ->
  path_nodes (Short k c) key = [Short k c].
Proof.
  intros k c key Hne Hm. destruct key as [|k0 kr]; [congruence|]. cbn [path_nodes].
  apply key_mismatch_true in Hm. rewrite Hm. reflexivity.
Qed.

Lemma path_nodes_full : forall cs i r, length cs = 17%nat -> i <= 16 ->
  path_nodes (Full cs) (i :: r) = Full cs :: path_nodes (nth (N.to_nat i) cs Empty) r.
Proof.
  intros cs i r Hl Hi. cbn [path_nodes]. f_equal.
  rewrite (nth_apply_nth _ _ (fun c => path_nodes c r) [] cs (N.to_nat i) Empty) by lia. reflexivity.
Qed.

Lemma path_nodes_hd : forall c r, is_node c -> r <> [] -> exists t, path_nodes c r = c :: t.
Proof.
  intros c r Hc Hr. destruct r as [|r0 rr]; [congruence|]. destruct c; try contradiction; cbn [path_nodes].
  - destruct (key_mismatch k (r0 :: rr)); eexists; reflexivity.
  - eexists; reflexivity.
Qed.

Lemma nth_map_first : forall (f : node -> node) k cs i, (i < length cs)%nat ->
  nth i (map_first f k cs) Empty = if (i <? k)%nat then f (nth i cs Empty) else nth i cs Empty.
Proof.
  intros f k cs. revert k. induction cs as [|c cs IH]; intros k i Hi; cbn in Hi; [lia|].
  destruct k as [|k]; [cbn [map_first]; destruct (i <? 0)%nat eqn:E; [apply Nat.ltb_lt in E; lia|reflexivity]|].
  cbn [map_first]. destruct i as [|i]; [reflexivity|]. cbn [nth]. rewrite IH by lia.
  change (S i <? S k)%nat with (i <? k)%nat. reflexivity.
Qed.

Lemma map_first_length : forall (f : node -> node) k cs, length (map_first f k cs) = length cs.
Proof.
  intros f k cs. revert k. induction cs as [|c cs IH]; intro k; destruct k; cbn; try reflexivity. rewrite IH. reflexivity.
Qed.

(* ---- walking down the honest path ------------------------------------------ *)

(* the proof database either lacks the encoding of m or has exactly it under its hash *)
Definition agrees_at (pdb : list (bytes * bytes)) (m : node) : Prop :=
  match assoc pdb (H (enc m)) with None => True | Some b => b = enc m end.

Definition present_at (pdb : list (bytes * bytes)) (m : node) : Prop :=
  assoc pdb (H (enc m)) = Some (enc m).

Definition walk_prop (n : node) : Prop :=
  forall key, tkey key -> forall fuel pdb,
    (forall m, In m (tl (path_nodes n key)) -> hashed m = true -> agrees_at pdb m) ->
    let r := cont fuel pdb (pget (dview n) key) in
    (r = ans (get n key) \/ r = VErr) /\
    ((forall m, In m (tl (path_nodes n key)) -> hashed m = true -> present_at pdb m) ->
     (length (filter hashed (tl (path_nodes n key))) <= fuel)%nat -> r = ans (get n key)).

(* stepping from a parent into the reference of a child *)
Lemma child_step : forall c, canon c -> small c -> walk_prop c ->
  forall r, tkey r -> forall fuel pdb,
    (forall m, In m (path_nodes c r) -> hashed m = true -> agrees_at pdb m) ->
    let res := cont fuel pdb (pget (dref c) r) in
    (res = ans (get c r) \/ res = VErr) /\
    ((forall m, In m (path_nodes c r) -> hashed m = true -> present_at pdb m) ->
     (length (filter hashed (path_nodes c r)) <= fuel)%nat -> res = ans (get c r)).
Proof.
  intros c Hc Hs Hw r Hr fuel pdb Hag.
  assert (is_node c) as Hnc by (destruct c; try discriminate; exact I).
  destruct (path_nodes_hd c r Hnc (tkey_nonempty _ Hr)) as [t Et].
  assert (dref c = if emb c then dview c else HashN (H (enc c))) as Edref by (destruct c; try contradiction; reflexivity).
  rewrite Edref. destruct (emb c) eqn:E.
  - (* embedded: same decoded node *)
    destruct (Hw r Hr fuel pdb) as [W1 W2].
    { intros m Hin Hh. apply Hag; [|exact Hh]. rewrite Et. right. rewrite Et in Hin. exact Hin. }
    cbv zeta. split; [exact W1|]. intros Hp Hf. apply W2.
    + intros m Hin Hh. apply Hp; [|exact Hh]. rewrite Et. right. rewrite Et in Hin. exact Hin.
    + rewrite Et in Hf |- *. cbn [filter tl] in *. unfold hashed at 1 in Hf. rewrite E in Hf. exact Hf.
  - (* hashed: one more lookup *)
    assert (pget (HashN (H (enc c))) r = (r, HashN (H (enc c)))) as -> by (destruct r; reflexivity).
    cbv zeta. change (cont fuel pdb (r, HashN (H (enc c)))) with (verify_proof_db fuel pdb (H (enc c)) r).
    assert (hashed c = true) as Hhc by (unfold hashed; rewrite E; reflexivity).
    pose proof (Hag c ltac:(rewrite Et; left; reflexivity) Hhc) as Ag. unfold agrees_at in Ag.
    split.
    + destruct fuel as [|f]; [right; reflexivity|]. rewrite verify_unfold.
      destruct (assoc pdb (H (enc c))) as [b|]; [|right; reflexivity]. subst b.
      rewrite <- (app_nil_r (enc c)). rewrite (decode_canon H Hlen c [] Hc Hs).
      apply (Hw r Hr f pdb). intros m Hin Hh. apply Hag; [|exact Hh]. rewrite Et. right. rewrite Et in Hin. exact Hin.
    + intros Hp Hf. rewrite Et in Hf. cbn [filter] in Hf. rewrite Hhc in Hf. cbn [length] in Hf.
      destruct fuel as [|f]; [lia|]. rewrite verify_unfold.
      rewrite (Hp c ltac:(rewrite Et; left; reflexivity) Hhc).
      rewrite <- (app_nil_r (enc c)). rewrite (decode_canon H Hlen c [] Hc Hs).
      apply (Hw r Hr f pdb).
      * intros m Hin Hh. apply Hag; [|exact Hh]. rewrite Et. right. rewrite Et in Hin. exact Hin.
      * intros m Hin Hh. apply Hp; [|exact Hh]. rewrite Et. right. rewrite Et in Hin. exact Hin.
      * rewrite Et. cbn [tl]. lia.
Qed.

Lemma walk_ok : forall n, canon n -> small n -> walk_prop n.
Proof.
  induction n as [|vv|k c IH|cs IH|hh] using node_ind'; intros Hc Hs; try discriminate.
  - (* Short *)
    intros key Hk fuel pdb Hag. cbn [small] in Hs. destruct Hs as [_ Hsc].
    destruct (key_mismatch k key) eqn:Em.
    + (* the key leaves the trie here: absence *)
      assert (pget (dview (Short k c)) key = ([], Empty)) as Ep by (cbn [Proofs5.dview pget]; rewrite Em; reflexivity).
      apply key_mismatch_true in Em. cbv zeta. rewrite Ep, (get_short_mismatch k c key Em). cbn.
      split; [left; reflexivity|reflexivity].
    + apply key_mismatch_false in Em. destruct Em as [r ->].
      assert (forall c', pget (Short k c') (k ++ r) = pget c' r) as Epg.
      { intro c'. cbn [pget]. assert (key_mismatch k (k ++ r) = false) as -> by (apply key_mismatch_false; eexists; reflexivity).
        rewrite skipn_app_exact. reflexivity. }
      rewrite path_nodes_short_app in * by (apply tkey_nonempty; exact Hk). cbn [tl] in *.
      rewrite get_short_app. cbn [Proofs5.dview]. rewrite Epg.
      destruct (canon_short_inv _ _ Hc) as [[Htk Hv]|[Hnk [Hne [Hfc Hcc]]]].
      * destruct (is_valne_inv _ Hv) as [v [-> _]].
        assert (r = []) as -> by (apply (tkey_prefix_eq k); assumption).
        cbn. split; [left; reflexivity|reflexivity].
      * destruct (tkey_split _ _ Hk) as [[_ Htk]|[_ Hr]]; [exfalso; exact (tkey_not_nibs _ Htk Hnk)|].
        assert ((match c with Short _ _ | Full _ => if emb c then dview c else HashN (H (enc c)) | _ => c end) = dref c) as -> by reflexivity.
        apply (child_step c Hcc Hsc (IH Hcc Hsc) r Hr fuel pdb Hag).
  - (* Full *)
    intros key Hk fuel pdb Hag.
    destruct (canon_full_inv _ Hc) as [Hl [Hslots _]]. apply small_full in Hs.
    destruct key as [|i r]; [apply tkey_nonempty in Hk; congruence|].
    assert (i <= 16) as Hi by (apply tkey_cons in Hk; lia).
    rewrite path_nodes_full in * by assumption. cbn [tl] in *.
    rewrite get_full by assumption. unfold child.
    set (c := nth (N.to_nat i) cs Empty) in *.
    assert (pget (dview (Full cs)) (i :: r) =
            pget (if (N.to_nat i <? 16)%nat then dref c else c) r) as Ep.
    { cbn [Proofs5.dview pget].
      rewrite (nth_apply_nth _ _ (fun c0 => pget c0 r) _ _ (N.to_nat i) Empty) by (rewrite map_first_length; lia).
      rewrite nth_map_first by lia. reflexivity. }
    cbv zeta. rewrite Ep.
    pose proof (Hslots (N.to_nat i) ltac:(lia)) as Si. fold c in Si. unfold slot_ok in Si.
    destruct (N.to_nat i <? 16)%nat eqn:E16.
    + destruct Si as [Ec|Hcc].
      * rewrite Ec. cbn. destruct r; cbn; (split; [left; reflexivity|reflexivity]).
      * apply tkey_cons in Hk. destruct Hk as [[-> _]|[_ Hr]]; [discriminate|].
        rewrite Forall_forall in IH, Hs.
        assert (In c cs) as Hin by (apply nth_In; lia).
        apply (child_step c Hcc (Hs c Hin) (IH c Hin Hcc (Hs c Hin)) r Hr fuel pdb Hag).
    + apply Nat.ltb_ge in E16. apply tkey_cons in Hk. destruct Hk as [[-> ->]|[? _]]; [|lia].
      destruct Si as [Ec|Hv].
      * rewrite Ec. cbn. split; [left; reflexivity|reflexivity].
      * destruct (is_valne_inv _ Hv) as [v [Ev _]]. rewrite Ev. cbn. split; [left; reflexivity|reflexivity].
Qed.

(* ---- prove ------------------------------------------------------------------- *)

Lemma path_nodes_are_nodes : forall n key, Forall is_node (path_nodes n key).
Proof.
  induction n as [|vv|k c IH|cs IH|hh] using node_ind'; intro key; destruct key as [|k0 kr]; cbn [path_nodes]; try constructor.
  - destruct (key_mismatch k (k0 :: kr)); repeat constructor. apply IH.
  - exact I.
  - revert IH. generalize (N.to_nat k0). induction cs as [|c cs IHcs]; intros j IH; cbn [nth_apply]; [constructor|].
    inversion IH; subst. destruct j; [auto|]. apply IHcs. assumption.
Qed.

Lemma store_hashed : forall m, is_node m ->
  (match store H (collapse H m) false with HashN _ => true | _ => false end) = hashed m.
Proof.
  intros m Hm. rewrite (store_node H m Hm). unfold hashed. destruct (emb m) eqn:E; [|reflexivity].
  destruct m; try contradiction; reflexivity.
Qed.

Lemma prove_nodes_succ : forall ns i, Forall is_node ns ->
  prove_nodes H (S i) ns = map enc (filter hashed ns).
Proof.
  induction ns as [|m ns IH]; intros i Hn; [reflexivity|]. inversion Hn; subst.
  cbn [prove_nodes filter]. rewrite <- (store_hashed m H2).
  destruct (store H (collapse H m) false); cbn [map]; rewrite IH by assumption; reflexivity.
Qed.

Lemma prove_nodes_zero : forall m ns, Forall is_node ns ->
  prove_nodes H 0 (m :: ns) = enc m :: map enc (filter hashed ns).
Proof.
  intros m ns Hn. cbn [prove_nodes].
  destruct (store H (collapse H m) false); rewrite prove_nodes_succ by assumption; reflexivity.
Qed.

(* ---- content-addressed proof sets ------------------------------------------- *)

Lemma assoc_content_hash : forall proof h e, assoc (content_db H proof) h = Some e -> H e = h /\ In e proof.
Proof.
  induction proof as [|x proof IH]; intros h e E; cbn in E; [discriminate|].
  destruct (list_eqb (H x) h) eqn:Eh.
  - injection E as <-. apply list_eqb_eq in Eh. split; [exact Eh|left; reflexivity].
  - destruct (IH _ _ E) as [A B]. split; [exact A|right; exact B].
Qed.

Lemma assoc_content_in : forall proof e, In e proof -> exists e', assoc (content_db H proof) (H e) = Some e'.
Proof.
  induction proof as [|x proof IH]; intros e Hin; [destruct Hin|]. cbn.
  destruct (list_eqb (H x) (H e)) eqn:Eh; [eexists; reflexivity|].
  destruct Hin as [->|Hin]; [rewrite list_eqb_refl in Eh; discriminate|]. apply IH. exact Hin.
Qed.

Definition collision : Prop := exists a b : bytes, a <> b /\ H a = H b.

Lemma root_hash_node : forall t, is_node t -> root_hash H t = H (enc t).
Proof.
  intros t Ht. destruct t; try contradiction; unfold root_hash, hash_node; cbn [collapse store negb];
    rewrite andb_false_r; reflexivity.
Qed.

(* completeness: the proof produced for a key verifies to the stored value or
   to absence, provided the proof's own elements do not collide under H *)
Lemma proof_complete : forall t k, canon t -> small t -> bytes_ok k ->
  (forall a b, In a (prove H t k 0) -> In b (prove H t k 0) -> H a = H b -> a = b) ->
  verify_proof H (root_hash H t) k (prove H t k 0) = ans (t_get t k).
Proof.
  intros t k Hc Hs Hk Hinj.
  assert (is_node t) as Hnt by (destruct t; try discriminate; exact I).
  pose proof (tkey_hex k Hk) as Htk. set (key := keybytes_to_hex k) in *.
  destruct (path_nodes_hd t key Hnt (tkey_nonempty _ Htk)) as [rest Epath].
  pose proof (path_nodes_are_nodes t key) as Hnodes. rewrite Epath in Hnodes. inversion Hnodes as [|? ? _ Hrest]; subst.
  assert (prove H t k 0 = enc t :: map enc (filter hashed rest)) as Eproof.
  { unfold prove. fold key. rewrite Epath. cbn [skipn]. apply prove_nodes_zero. exact Hrest. }
  rewrite Eproof in *. set (proof := enc t :: map enc (filter hashed rest)) in *.
  assert (forall e, In e proof -> assoc (content_db H proof) (H e) = Some e) as Hfind.
  { intros e Hin. destruct (assoc_content_in proof e Hin) as [e' E]. rewrite E. f_equal.
    destruct (assoc_content_hash _ _ _ E) as [Eh Hin']. apply Hinj; assumption. }
  unfold verify_proof. fold key. rewrite (root_hash_node t Hnt). rewrite verify_unfold.
  rewrite (Hfind (enc t)) by (left; reflexivity).
  rewrite <- (app_nil_r (enc t)). rewrite (decode_canon H Hlen t [] Hc Hs).
  unfold t_get. fold key.
  destruct (walk_ok t Hc Hs key Htk (length proof) (content_db H proof)) as [_ W2].
  - intros m Hin Hh. unfold agrees_at. rewrite Epath in Hin. cbn [tl] in Hin.
    rewrite Hfind; [reflexivity|]. right. apply in_map. apply filter_In. split; assumption.
  - apply W2.
    + intros m Hin Hh. unfold present_at. rewrite Epath in Hin. cbn [tl] in Hin.
      apply Hfind. right. apply in_map. apply filter_In. split; assumption.
    + rewrite Epath. cbn [tl]. unfold proof. cbn [length]. rewrite map_length. lia.
Qed.

(* soundness: any node set that verifies against the root to an answer other
   than the trie's exhibits two different byte strings with the same hash *)
Lemma agrees_dec : forall pdb ms,
  (forall m, In m ms -> agrees_at pdb m) \/
  (exists m b, In m ms /\ assoc pdb (H (enc m)) = Some b /\ b <> enc m).
Proof.
  intros pdb ms. induction ms as [|m ms IH]; [left; intros ? []|].
  destruct IH as [IH|[m' [b [Hin [E Hne]]]]]; [|right; exists m', b; repeat split; [right; exact Hin|exact E|exact Hne]].
  destruct (assoc pdb (H (enc m))) as [b|] eqn:E.
  - destruct (list_eqb b (enc m)) eqn:Eb.
    + apply list_eqb_eq in Eb. left. intros m0 [<-|Hin]; [unfold agrees_at; rewrite E; exact Eb|apply IH; exact Hin].
    + apply list_eqb_neq in Eb. right. exists m, b. repeat split; [left; reflexivity|exact E|exact Eb].
  - left. intros m0 [<-|Hin]; [unfold agrees_at; rewrite E; exact I|apply IH; exact Hin].
Qed.

Lemma proof_sound : forall t k proof, canon t -> small t -> bytes_ok k ->
  let r := verify_proof H (root_hash H t) k proof in
  r = ans (t_get t k) \/ r = VErr \/ collision.
Proof.
  intros t k proof Hc Hs Hk. cbv zeta.
  assert (is_node t) as Hnt by (destruct t; try discriminate; exact I).
  pose proof (tkey_hex k Hk) as Htk. set (key := keybytes_to_hex k) in *.
  set (pdb := content_db H proof).
  destruct (agrees_dec pdb (path_nodes t key)) as [Hag|[m [b [Hin [E Hne]]]]].
  - unfold verify_proof. fold key. fold pdb. rewrite (root_hash_node t Hnt). rewrite verify_unfold.
    destruct (path_nodes_hd t key Hnt (tkey_nonempty _ Htk)) as [rest Epath].
    pose proof (Hag t ltac:(rewrite Epath; left; reflexivity)) as Ag. unfold agrees_at in Ag.
    destruct (assoc pdb (H (enc t))) as [b|]; [|right; left; reflexivity]. subst b.
    rewrite <- (app_nil_r (enc t)). rewrite (decode_canon H Hlen t [] Hc Hs).
    destruct (walk_ok t Hc Hs key Htk (length proof) pdb) as [[W|W] _].
    + intros m Hin _. apply Hag. rewrite Epath in *. right. exact Hin.
    + left. exact W.
    + right. left. exact W.
  - right. right. exists b, (enc m). split; [exact Hne|].
    apply assoc_content_hash in E. tauto.
Qed.

End Merkle.
