(* C13 - lemmas, part 13: the Database.insert sequence that Trie.Commit issues
   (commit_seq) satisfies the hypotheses of the garbage-collection theorem:
   every inserted node names exactly the children its content has, and these
   are cached or on disk at the time of the insert (children come first). *)
From VF.C13 Require Import Model Proofs Proofs4 Proofs5 Proofs6 Proofs8 Proofs9 Proofs10 Proofs12.
From Coq Require Import Lia ZifyBool ZifyN ZifyNat.
Local Open Scope N_scope.

Lemma db_insert_hashes : forall s h b,
  In h (hashes (db_nodes (db_insert s (h, b)))) /\
  (forall k, In k (hashes (db_nodes s)) -> In k (hashes (db_nodes (db_insert s (h, b))))) /\
  db_disk (db_insert s (h, b)) = db_disk s.
Proof.
  intros s h b. unfold db_insert. generalize (blob_kids b). intro kids.
  destruct (find_node (db_nodes s) h) as [n|] eqn:E.
  - split; [|split; [tauto|reflexivity]]. destruct (find_node_some _ _ _ E) as [A B]. rewrite <- B. apply in_map. exact A.
  - cbn [db_nodes db_disk]. unfold hashes. rewrite map_app. fold (hashes (fold_left (fun l k => update_node l k (bump 1)) kids (db_nodes s))).
    rewrite bump_fold_hashes. cbn [map cn_hash]. split; [apply in_or_app; right; left; reflexivity|]. split; [|reflexivity].
    intros k Hk. apply in_or_app. left. exact Hk.
Qed.

Lemma db_insert_avail : forall s hb k, avail s k -> avail (db_insert s hb) k.
Proof.
  intros s [h b] k [A|A]; [left; exact (proj1 (proj2 (db_insert_hashes s h b)) k A)|right].
  destruct (db_insert_hashes s h b) as [_ [_ E]]. rewrite E. exact A.
Qed.

Section CommitSeq.
Variable H : bytes -> bytes.
Hypothesis Hlen : forall x, length (H x) = 32%nat.
Variable kidsof : bytes -> list bytes.
Variable rank : bytes -> nat.
Variable db : list (bytes * bytes).

Notation enc := (enc H).
Notation dview := (dview H).
Notation dref := (dref H).
Notation hashed := (hashed H).
Notation reachable := (full_reach kidsof rank).

(* the children function is what the content of the trie's nodes says *)
Definition agrees (t : node) : Prop :=
  forall m, m = t \/ In m (desc t) -> kidsof (H (enc m)) = gather (dview m).

Lemma blob_kids_enc : forall n, canon n -> small n -> blob_kids (enc n) = gather (dview n).
Proof.
  intros n Hc Hs. unfold blob_kids. rewrite <- (app_nil_r (enc n)). rewrite (decode_canon H Hlen n [] Hc Hs). reflexivity.
Qed.

Lemma hash_nonempty : forall x, H x <> [].
Proof. intros x E. pose proof (Hlen x) as L. rewrite E in L. discriminate. Qed.

(* inserting a node all of whose content children are available *)
Lemma insert_node_ok : forall s n, reachable s -> canon n -> small n -> kidsof (H (enc n)) = gather (dview n) ->
  (forall k, In k (gather (dview n)) -> avail s k) ->
  let s' := db_insert s (H (enc n), enc n) in
  reachable s' /\ (forall k, avail s k -> avail s' k) /\ avail s' (H (enc n)).
Proof.
  intros s n Hr Hc Hs Hk Hav. cbv zeta. split; [|split].
  - assert (blob_kids (enc n) = kidsof (H (enc n))) as E1 by (rewrite Hk; apply blob_kids_enc; assumption).
    assert (forall k, In k (kidsof (H (enc n))) -> avail s k) as E2 by (intros k Hin; apply Hav; rewrite <- Hk; exact Hin).
    exact (fur_step kidsof rank s _ Hr (st_insert kidsof rank s (H (enc n)) (enc n) (hash_nonempty _) E1 E2)).
  - intros k. apply db_insert_avail.
  - left. exact (proj1 (db_insert_hashes s (H (enc n)) (enc n))).
Qed.

Definition post (t : node) (s s' : dbstate) : Prop :=
  reachable s' /\ (forall k, avail s k -> avail s' k) /\ (forall k, In k (gather (dref t)) -> avail s' k).

Lemma self_entry_lz : forall lt t, canon t -> lz H db lt t -> (match lt with HashN _ => False | _ => True end) ->
  self_entry H lt = if hashed t then [(H (enc t), enc t)] else [].
Proof.
  intros lt t Hc Hl Hnh. destruct (lz_store H db t lt Hc Hl) as [_ E]. destruct lt; try contradiction.
  - cbn in Hl. subst. discriminate.
  - cbn in Hl. subst. discriminate.
  - unfold self_entry. rewrite E.
    assert (is_node t) as Hn by (destruct t; try discriminate; exact I).
    rewrite (store_node H t Hn). unfold Proofs6.hashed. destruct (Proofs5.emb H t) eqn:Ee; [|reflexivity].
    destruct t; try contradiction; reflexivity.
  - unfold self_entry. rewrite E.
    assert (is_node t) as Hn by (destruct t; try discriminate; exact I).
    rewrite (store_node H t Hn). unfold Proofs6.hashed. destruct (Proofs5.emb H t) eqn:Ee; [|reflexivity].
    destruct t; try contradiction; reflexivity.
Qed.

Lemma dref_node : forall t, is_node t -> dref t = if hashed t then HashN (H (enc t)) else dview t.
Proof. intros t Hn. unfold Proofs6.hashed. destruct t; try contradiction; cbn [Proofs5.dref]; destruct (Proofs5.emb H _); reflexivity. Qed.

Lemma in_fmf : forall (A B : Type) (g : A -> list B) k l x c,
  In c (firstn k l) -> In x (g c) -> In x (flat_map_first g k l).
Proof.
  intros A B g k l. revert k. induction l as [|y l IH]; intros k x c Hin Hx; destruct k; cbn in Hin; try contradiction.
  cbn [flat_map_first]. apply in_or_app. destruct Hin as [->|Hin]; [left; exact Hx|right; eapply IH; eassumption].
Qed.

Lemma in_fmf_inv : forall (A B : Type) (g : A -> list B) k l x,
  In x (flat_map_first g k l) -> exists c, In c (firstn k l) /\ In x (g c).
Proof.
  intros A B g k l. revert k. induction l as [|y l IH]; intros k x Hin; destruct k; cbn in Hin; try contradiction.
  apply in_app_or in Hin. destruct Hin as [Hin|Hin].
  - exists y. split; [left; reflexivity|exact Hin].
  - destruct (IH _ _ Hin) as [c [Hc Hx]]. exists c. split; [right; exact Hc|exact Hx].
Qed.

Lemma firstn_map_first : forall (g : node -> node) k l c, In c (firstn k (map_first g k l)) -> exists c0, In c0 (firstn k l) /\ c = g c0.
Proof.
  intros g k l. revert k. induction l as [|y l IH]; intros k c Hin; destruct k; cbn in Hin; try contradiction.
  destruct Hin as [<-|Hin]; [exists y; split; [left; reflexivity|reflexivity]|].
  destruct (IH _ _ Hin) as [c0 [A B]]. exists c0. split; [right; exact A|exact B].
Qed.

(* t is a slot content: nothing, a value, or a canonical sub-trie we know everything about *)
Definition goodt (t : node) : Prop := t = Empty \/ (exists v, t = Val v) \/ (canon t /\ small t /\ agrees t).

Lemma agrees_short_child : forall k c, is_node c -> agrees (Short k c) -> agrees c.
Proof.
  intros k c Hn Ha m Hm. apply Ha. right. cbn [desc]. destruct c; try contradiction; destruct Hm as [->|Hm]; [left; reflexivity|right; exact Hm|left; reflexivity|right; exact Hm].
Qed.

Lemma agrees_full_child : forall cs c, is_node c -> In c (firstn 16 cs) -> agrees (Full cs) -> agrees c.
Proof.
  intros cs c Hn Hin Ha m Hm. apply Ha. right. cbn [desc]. apply (in_fmf _ _ _ 16 cs m c Hin).
  destruct c; try contradiction; destruct Hm as [->|Hm]; [left; reflexivity|right; exact Hm|left; reflexivity|right; exact Hm].
Qed.

Lemma post_refl_nil : forall t s, reachable s -> gather (dref t) = [] -> post t s s.
Proof. intros t s Hr E. split; [exact Hr|]. split; [tauto|]. intros k Hk. rewrite E in Hk. destruct Hk. Qed.

(* finishing a node after its children: the self entry *)
Lemma self_step : forall t lt s0 s1, canon t -> small t -> agrees t -> lz H db lt t ->
  (match lt with HashN _ => False | _ => True end) ->
  reachable s1 -> (forall k, avail s0 k -> avail s1 k) ->
  (forall k, In k (gather (dview t)) -> avail s1 k) ->
  post t s0 (fold_left db_insert (self_entry H lt) s1).
Proof.
  intros t lt s0 s1 Hc Hs Ha Hl Hnh Hr Hmono Hkids.
  assert (is_node t) as Hn by (destruct t; try discriminate; exact I).
  unfold post. rewrite (self_entry_lz lt t Hc Hl Hnh). rewrite (dref_node t Hn). destruct (hashed t).
  - cbn [fold_left]. destruct (insert_node_ok s1 t Hr Hc Hs (Ha t (or_introl eq_refl)) Hkids) as [A [B C]].
    split; [exact A|]. split; [intros k Hk; apply B; apply Hmono; exact Hk|]. intros k [<-|[]]. exact C.
  - cbn [fold_left]. split; [exact Hr|]. split; [exact Hmono|exact Hkids].
Qed.

Definition stored_ok_at (t : node) : Prop :=
  forall lt, lz H db lt t -> goodt t -> forall s, reachable s ->
    (forall h, In h (gather lt) -> avail s h) -> post t s (fold_left db_insert (stored H lt) s).

Lemma stored_list_ok : forall k lcs' cs' s0, Forall2 (lz H db) lcs' cs' -> reachable s0 ->
  (forall c, In c cs' -> stored_ok_at c) ->
  (forall c, In c (firstn k cs') -> goodt c) ->
  (forall lc h, In lc (firstn k lcs') -> In h (gather lc) -> avail s0 h) ->
  let s1 := fold_left db_insert (flat_map_first (stored H) k lcs') s0 in
  reachable s1 /\ (forall x, avail s0 x -> avail s1 x) /\
  (forall c x, In c (firstn k cs') -> In x (gather (dref c)) -> avail s1 x).
Proof.
  intros k0 lcs' cs' s0 F. revert k0 s0. induction F as [|lc0 c0 lr cr Hlc0 Fr IHF]; intros k0 s0 Hr0 Hsub Hgood Hlv; destruct k0; cbn [flat_map_first fold_left firstn].
  - split; [exact Hr0|]. split; [tauto|intros ? ? []].
  - split; [exact Hr0|]. split; [tauto|intros ? ? []].
  - split; [exact Hr0|]. split; [tauto|intros ? ? []].
  - rewrite fold_left_app.
    destruct (Hsub c0 (or_introl eq_refl) lc0 Hlc0 (Hgood c0 (or_introl eq_refl)) s0 Hr0) as [A [B C]].
    { intros h Hh. apply (Hlv lc0 h); [left; reflexivity|exact Hh]. }
    destruct (IHF k0 _ A) as [A2 [B2 C2]].
    { intros c Hc0. apply Hsub. right. exact Hc0. }
    { intros c Hc0. apply Hgood. right. exact Hc0. }
    { intros lc h Hlc Hh. apply B. apply (Hlv lc h); [right; exact Hlc|exact Hh]. }
    cbv zeta in *. split; [exact A2|]. split; [intros x Hx; apply B2; apply B; exact Hx|].
    intros c x [<-|Hc0] Hx; [apply B2; apply C; exact Hx|apply (C2 c x Hc0 Hx)].
Qed.

Lemma full_slots_good : forall cs, canon (Full cs) -> small (Full cs) -> agrees (Full cs) ->
  forall c, In c (firstn 16 cs) -> goodt c.
Proof.
  intros cs Hc Hs Ha c Hin. destruct (canon_full_inv _ Hc) as [Hlen17 [Hslots _]]. apply small_full in Hs.
  assert (In c cs) as Hincs by (rewrite <- (firstn_skipn 16 cs); apply in_or_app; left; exact Hin).
  destruct (In_nth _ _ Empty Hin) as [i [Hi Ei]]. rewrite firstn_length in Hi.
  assert (nth i cs Empty = c) as Ec. { rewrite <- Ei. rewrite <- (firstn_skipn 16 cs) at 1. rewrite app_nth1 by (rewrite firstn_length; lia). reflexivity. }
  pose proof (Hslots i ltac:(lia)) as Si. unfold slot_ok in Si. replace (i <? 16)%nat with true in Si by (symmetry; apply Nat.ltb_lt; lia).
  rewrite Ec in Si. destruct Si as [->|Hcc]; [left; reflexivity|right; right].
  rewrite Forall_forall in Hs. split; [exact Hcc|]. split; [apply Hs; exact Hincs|].
  apply (agrees_full_child cs c); [destruct c; try discriminate; exact I|exact Hin|exact Ha].
Qed.

Lemma short_child_good : forall k c, canon (Short k c) -> small (Short k c) -> agrees (Short k c) -> goodt c.
Proof.
  intros k c Hc [_ Hsc] Ha. destruct (canon_short_inv _ _ Hc) as [[_ Hv]|[_ [_ [Hfc Hcc]]]].
  - right. left. destruct (is_valne_inv _ Hv) as [v [E _]]. exists v. exact E.
  - right. right. split; [exact Hcc|]. split; [exact Hsc|]. apply (agrees_short_child k c); [destruct c; try discriminate; exact I|exact Ha].
Qed.

(* after the children of a node have been stored, everything its content names is available *)
Lemma children_ok : forall t lt, (forall c, In c (match t with Short _ c => [c] | Full cs => cs | _ => [] end) -> stored_ok_at c) ->
  lz H db lt t -> canon t -> small t -> agrees t -> (match lt with HashN _ => False | _ => True end) ->
  forall s, reachable s -> (forall h, In h (gather lt) -> avail s h) ->
  let s1 := fold_left db_insert (stored_children H lt) s in
  reachable s1 /\ (forall x, avail s x -> avail s1 x) /\ (forall x, In x (gather (dview t)) -> avail s1 x).
Proof.
  intros t lt Hsub Hl Hc Hs Ha Hnh s Hr Hleaves.
  destruct t as [|v|k c|cs|hh]; try discriminate.
  - destruct lt as [| |k2 lc|lcs|h]; cbn [lz] in Hl; try discriminate; try contradiction. destruct Hl as [-> Hlc].
    cbn [stored_children]. destruct (Hsub c (or_introl eq_refl) lc Hlc (short_child_good k c Hc Hs Ha) s Hr Hleaves) as [A [B C]].
    split; [exact A|]. split; [exact B|exact C].
  - destruct lt as [| |k2 lc|lcs|h]; try (cbn [lz] in Hl; try discriminate; contradiction).
    apply lz_full in Hl. cbn [stored_children].
    destruct (stored_list_ok 16 lcs cs s Hl Hr Hsub (full_slots_good cs Hc Hs Ha)) as [A [B C]].
    { intros lc h Hlc Hh. apply Hleaves. cbn [gather]. apply (in_fmf _ _ _ 16 lcs h lc Hlc Hh). }
    cbv zeta in *. split; [exact A|]. split; [exact B|].
    intros x Hx. cbn [Proofs5.dview gather] in Hx. apply in_fmf_inv in Hx. destruct Hx as [c' [Hc' Hx]].
    apply firstn_map_first in Hc'. destruct Hc' as [c0 [Hc0 ->]]. apply (C c0 x Hc0). exact Hx.
Qed.

Lemma stored_ok : forall t, stored_ok_at t.
Proof.
  induction t as [|vv|k c IH|cs IH|hh] using node_ind'; intros lt Hl Hg s Hr Hleaves.
  - apply lz_empty_r in Hl. subst lt. cbn. apply post_refl_nil; [exact Hr|reflexivity].
  - apply lz_val_r in Hl. subst lt. cbn. apply post_refl_nil; [exact Hr|reflexivity].
  - destruct Hg as [E|[[v E]|[Hc [Hs Ha]]]]; try discriminate.
    destruct lt as [| |k2 lc|lcs|h] eqn:Elt; cbn [lz] in Hl; try discriminate; try contradiction.
    + assert (stored H (Short k2 lc) = stored_children H (Short k2 lc) ++ self_entry H (Short k2 lc)) as -> by reflexivity.
      rewrite fold_left_app.
      destruct (children_ok (Short k c) (Short k2 lc)) with (s := s) as [A [B C]]; try assumption; try exact I.
      { intros c0 [<-|[]]. exact IH. }
      apply (self_step (Short k c) (Short k2 lc) s _ Hc Hs Ha Hl I A B C).
    + destruct Hl as [-> [_ [_ [Hh _]]]]. cbn [stored fold_left].
      split; [exact Hr|]. split; [tauto|]. rewrite (dref_node (Short k c) I), Hh. intros x [<-|[]]. apply Hleaves. left. reflexivity.
  - destruct Hg as [E|[[v E]|[Hc [Hs Ha]]]]; try discriminate.
    destruct lt as [| |k2 lc|lcs|h] eqn:Elt; try (cbn [lz] in Hl; try discriminate; contradiction).
    + assert (stored H (Full lcs) = stored_children H (Full lcs) ++ self_entry H (Full lcs)) as -> by reflexivity.
      rewrite fold_left_app.
      destruct (children_ok (Full cs) (Full lcs)) with (s := s) as [A [B C]]; try assumption; try exact I.
      { intros c0 Hc0. rewrite Forall_forall in IH. apply IH. exact Hc0. }
      apply (self_step (Full cs) (Full lcs) s _ Hc Hs Ha Hl I A B C).
    + cbn [lz] in Hl. destruct Hl as [-> [_ [_ [Hh _]]]]. cbn [stored fold_left].
      split; [exact Hr|]. split; [tauto|]. rewrite (dref_node (Full cs) I), Hh. intros x [<-|[]]. apply Hleaves. left. reflexivity.
  - exfalso. exact (lz_hash_absurd H db _ _ Hl).
Qed.

(* Trie.Commit: the whole insert sequence keeps the cache within the
   reachable states of the garbage-collection theorem, and leaves the root available *)
Lemma commit_seq_ok : forall t lt dirty, lz H db lt t -> canon t -> small t -> agrees t ->
  (match lt with HashN _ => False | _ => True end) ->
  forall s, reachable s -> (forall h, In h (gather lt) -> avail s h) ->
  let s' := fold_left db_insert (commit_seq H lt dirty) s in
  reachable s' /\ (forall x, avail s x -> avail s' x) /\ (dirty = true -> avail s' (root_hash H t)).
Proof.
  intros t lt dirty Hl Hc Hs Ha Hnh s Hr Hleaves. unfold commit_seq. destruct dirty.
  2:{ cbn [fold_left]. split; [exact Hr|]. split; [tauto|discriminate]. }
  assert (is_node t) as Hn by (destruct t; try discriminate; exact I).
  assert (commit H lt = stored_children H lt ++ [(H (enc t), enc t)]) as ->.
  { assert (root_hash H lt = H (enc t)) as E1 by (rewrite (lz_root_hash H db lt t (or_intror Hc) Hl); apply root_hash_node; exact Hn).
    destruct (lz_store H db t lt Hc Hl) as [_ E2].
    unfold commit. rewrite E1. destruct lt; try contradiction.
    - cbn in Hl. subst. contradiction.
    - cbn in Hl. subst. contradiction.
    - rewrite E2. reflexivity.
    - rewrite E2. reflexivity. }
  rewrite fold_left_app.
  destruct (children_ok t lt) with (s := s) as [A [B C]]; try assumption.
  { intros c _. apply stored_ok. }
  cbn [fold_left]. destruct (insert_node_ok _ t A Hc Hs (Ha t (or_introl eq_refl)) C) as [A2 [B2 C2]].
  rewrite (root_hash_node H t Hn). split; [exact A2|]. split; [intros x Hx; apply B2; apply B; exact Hx|intros _; exact C2].
Qed.

End CommitSeq.
