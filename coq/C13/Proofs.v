(* C13 - lemmas, part 1: keys, list helpers, the canonical-form invariant and
   its preservation by insert / delete, the map refinement. *)
From VF.C13 Require Import Model.
From Coq Require Import Lia ZifyBool ZifyN ZifyNat Sorted.
Local Open Scope N_scope.

(* ---- induction principle for the nested node type ------------------------ *)

Section NodeInd.
Variable P : node -> Prop.
Hypothesis HE : P Empty.
Hypothesis HV : forall v, P (Val v).
Hypothesis HS : forall k c, P c -> P (Short k c).
Hypothesis HF : forall cs, Forall P cs -> P (Full cs).
Hypothesis HH : forall h, P (HashN h).

Fixpoint node_ind' (n : node) : P n :=
  match n with
  | Empty => HE
  | Val v => HV v
  | Short k c => HS k c (node_ind' c)
  | Full cs =>
    HF cs ((fix go (l : list node) : Forall P l :=
              match l with
              | [] => Forall_nil P
              | c :: r => Forall_cons c (node_ind' c) (go r)
              end) cs)
  | HashN h => HH h
  end.
End NodeInd.

(* ---- list_eqb ------------------------------------------------------------ *)

Lemma list_eqb_refl : forall a, list_eqb a a = true.
Proof. induction a as [|x a IH]; cbn; [reflexivity|]. rewrite N.eqb_refl, IH. reflexivity. Qed.

Lemma list_eqb_eq : forall a b, list_eqb a b = true <-> a = b.
Proof.
  induction a as [|x a IH]; destruct b as [|y b]; cbn; split; intro E; try reflexivity; try discriminate.
  - apply andb_true_iff in E. destruct E as [E1 E2]. apply N.eqb_eq in E1. apply IH in E2. congruence.
  - injection E as -> ->. rewrite N.eqb_refl. apply list_eqb_refl.
Qed.

Lemma list_eqb_neq : forall a b, list_eqb a b = false <-> a <> b.
Proof.
  intros a b. split.
  - intros E F. apply list_eqb_eq in F. congruence.
  - intro F. destruct (list_eqb a b) eqn:E; [|reflexivity]. apply list_eqb_eq in E. contradiction.
Qed.

(* ---- terminated keys ----------------------------------------------------- *)

(* all nibbles below 16 *)
Definition nibs (k : nibbles) : Prop := Forall (fun x => x < 16) k.

(* a hex key with terminator: nibbles below 16 followed by 16 *)
Definition tkey (k : nibbles) : Prop := exists ns, k = ns ++ [16] /\ nibs ns.

Lemma tkey_hex : forall bs, Forall (fun b => b < 256) bs -> tkey (keybytes_to_hex bs).
Proof.
  induction bs as [|b r IH]; intro F.
  - exists []. split; [reflexivity|constructor].
  - inversion F as [|? ? Hb Fr]; subst. destruct (IH Fr) as [ns [E Hn]].
    exists (b / 16 :: b mod 16 :: ns). cbn [keybytes_to_hex]. rewrite E. split; [reflexivity|].
    constructor; [|constructor; [|exact Hn]].
    + apply N.div_lt_upper_bound; lia.
    + apply N.mod_lt. lia.
Qed.

Lemma tkey_nonempty : forall k, tkey k -> k <> [].
Proof. intros k [ns [-> _]]. destruct ns; discriminate. Qed.

Lemma tkey_cons : forall x r, tkey (x :: r) -> (x = 16 /\ r = []) \/ (x < 16 /\ tkey r).
Proof.
  intros x r [ns [E Hn]]. destruct ns as [|y ns]; cbn in E.
  - injection E as -> ->. left. split; reflexivity.
  - injection E as -> ->. inversion Hn; subst. right. split; [assumption|]. exists ns. split; [reflexivity|assumption].
Qed.

Lemma tkey_cons_lt : forall x r, x < 16 -> tkey r -> tkey (x :: r).
Proof. intros x r Hx [ns [-> Hn]]. exists (x :: ns). split; [reflexivity|constructor; assumption]. Qed.

Lemma tkey_16 : tkey [16].
Proof. exists []. split; [reflexivity|constructor]. Qed.

Lemma nibs_app : forall a b, nibs (a ++ b) <-> nibs a /\ nibs b.
Proof. intros. unfold nibs. apply Forall_app. Qed.

Lemma nibs_no16 : forall k, nibs k -> ~ In 16 k.
Proof. intros k Hn Hi. unfold nibs in Hn. rewrite Forall_forall in Hn. apply Hn in Hi. lia. Qed.

Lemma tkey_app_nibs : forall p k, nibs p -> tkey k -> tkey (p ++ k).
Proof.
  induction p as [|x p IH]; intros k Hp Hk; [exact Hk|].
  inversion Hp; subst. cbn. apply tkey_cons_lt; [assumption|]. apply IH; assumption.
Qed.

(* splitting a terminated key: the prefix is below 16 and the rest is a terminated key, or the rest is empty *)
Lemma tkey_split : forall p r, tkey (p ++ r) -> (r = [] /\ tkey p) \/ (nibs p /\ tkey r).
Proof.
  induction p as [|x p IH]; intros r H; cbn in H.
  - right. split; [constructor|exact H].
  - apply tkey_cons in H. destruct H as [[-> E]|[Hx Ht]].
    + apply app_eq_nil in E. destruct E as [-> ->]. left. split; [reflexivity|apply tkey_16].
    + destruct (IH r Ht) as [[-> Hp]|[Hp Hr]].
      * left. split; [reflexivity|]. apply tkey_cons_lt; assumption.
      * right. split; [constructor; assumption|exact Hr].
Qed.

Lemma tkey_not_nibs : forall k, tkey k -> nibs k -> False.
Proof.
  intros k [ns [-> Hn]] H. apply nibs_app in H. destruct H as [_ H]. inversion H; subst. lia.
Qed.

(* no terminated key is a proper prefix of another *)
Lemma tkey_prefix_eq : forall a r, tkey a -> tkey (a ++ r) -> r = [].
Proof.
  intros a r Ha Har. destruct (tkey_split a r Har) as [[E _]|[Hn _]]; [exact E|].
  exfalso. exact (tkey_not_nibs _ Ha Hn).
Qed.

Lemma has_term_tkey : forall k, tkey k -> has_term k = true.
Proof.
  intros k [ns [-> _]]. unfold has_term. destruct (ns ++ [16]) eqn:E.
  - apply app_eq_nil in E. destruct E; discriminate.
  - rewrite <- E. rewrite last_last. reflexivity.
Qed.

Lemma has_term_nibs : forall k, nibs k -> has_term k = false.
Proof.
  intros k Hn. unfold has_term. destruct k as [|x k]; [reflexivity|].
  apply N.eqb_neq. intro E.
  assert (In (last (x :: k) 0) (x :: k)) as Hi.
  { clear. generalize x. induction k as [|y k IH]; intro x0; [left; reflexivity|].
    right. apply (IH y). }
  rewrite E in Hi. eapply nibs_no16; eassumption.
Qed.

(* ---- common prefix view -------------------------------------------------- *)

Definition diverge (a b : nibbles) : Prop :=
  match a, b with x :: _, y :: _ => x <> y | _, _ => True end.

Lemma prefix_view : forall a b, exists p a' b',
  a = p ++ a' /\ b = p ++ b' /\ prefix_len a b = length p /\ diverge a' b'.
Proof.
  induction a as [|x a IH]; intro b.
  - exists [], [], b. repeat split.
  - destruct b as [|y b].
    + exists [], (x :: a), []. repeat split.
    + cbn [prefix_len]. destruct (N.eqb x y) eqn:E.
      * apply N.eqb_eq in E. subst y. destruct (IH b) as [p [a' [b' [Ea [Eb [El D]]]]]].
        exists (x :: p), a', b'. cbn. rewrite <- Ea, <- Eb, El. repeat split. exact D.
      * apply N.eqb_neq in E. exists [], (x :: a), (y :: b). repeat split. exact E.
Qed.

Lemma key_mismatch_false : forall k key, key_mismatch k key = false <-> exists r, key = k ++ r.
Proof.
  intros k key. unfold key_mismatch. split.
  - intro H. apply orb_false_iff in H. destruct H as [H1 H2].
    apply negb_false_iff in H2. apply list_eqb_eq in H2.
    exists (skipn (length k) key). rewrite H2 at 1. symmetry. apply firstn_skipn.
  - intros [r ->]. apply orb_false_iff. split.
    + rewrite app_length. apply Nat.ltb_ge. lia.
    + apply negb_false_iff. apply list_eqb_eq. rewrite firstn_app, Nat.sub_diag, firstn_all. cbn. rewrite app_nil_r. reflexivity.
Qed.

Lemma key_mismatch_true : forall k key, key_mismatch k key = true <-> ~ exists r, key = k ++ r.
Proof.
  intros. split.
  - intros H F. apply key_mismatch_false in F. congruence.
  - intro F. destruct (key_mismatch k key) eqn:E; [reflexivity|]. apply key_mismatch_false in E. contradiction.
Qed.

Lemma skipn_app_exact : forall (A : Type) (a b : list A), skipn (length a) (a ++ b) = b.
Proof. intros. rewrite skipn_app, Nat.sub_diag, skipn_all. reflexivity. Qed.

Lemma firstn_app_exact : forall (A : Type) (a b : list A), firstn (length a) (a ++ b) = a.
Proof. intros. rewrite firstn_app, Nat.sub_diag, firstn_all. cbn. apply app_nil_r. Qed.

(* ---- nth_apply / set_nth / counting -------------------------------------- *)

Lemma nth_apply_nth : forall A B (f : A -> B) d (l : list A) j dflt,
  (j < length l)%nat -> nth_apply f d l j = f (nth j l dflt).
Proof.
  intros A B f d l. induction l as [|c l IH]; intros j dflt H; cbn in H; [lia|].
  destruct j; cbn; [reflexivity|]. apply IH. lia.
Qed.

Lemma nth_apply_default : forall A B (f : A -> B) d (l : list A) j,
  (length l <= j)%nat -> nth_apply f d l j = d.
Proof.
  intros A B f d l. induction l as [|c l IH]; intros j H; cbn; [reflexivity|].
  destruct j; cbn in H; [lia|]. apply IH. lia.
Qed.

Lemma set_nth_length : forall A (l : list A) j x, length (set_nth l j x) = length l.
Proof. intros A l. induction l as [|c l IH]; intros j x; [reflexivity|]. destruct j; cbn; [reflexivity|]. rewrite IH. reflexivity. Qed.

Lemma nth_set_nth_eq : forall A (l : list A) j x d, (j < length l)%nat -> nth j (set_nth l j x) d = x.
Proof. intros A l. induction l as [|c l IH]; intros j x d H; cbn in H; [lia|]. destruct j; cbn; [reflexivity|]. apply IH. lia. Qed.

Lemma nth_set_nth_neq : forall A (l : list A) i j x d, i <> j -> nth i (set_nth l j x) d = nth i l d.
Proof.
  intros A l. induction l as [|c l IH]; intros i j x d H; [reflexivity|].
  destruct j, i; cbn; try reflexivity; try lia. apply IH. lia.
Qed.

Definition count_ne (cs : list node) : nat := length (filter (fun c => negb (is_empty c)) cs).

Lemma nonempty_from_spec : forall cs s i,
  In i (nonempty_from s cs) <-> (s <= i /\ i < s + length cs /\ nth (i - s) cs Empty <> Empty)%nat.
Proof.
  induction cs as [|c cs IH]; intros s i; cbn [nonempty_from length].
  - split; [intros []|lia].
  - destruct (is_empty c) eqn:E.
    + rewrite IH. destruct c; try discriminate. split.
      * intros [H1 [H2 H3]]. repeat split; try lia. replace (i - s)%nat with (S (i - S s)) by lia. exact H3.
      * intros [H1 [H2 H3]]. destruct (Nat.eq_dec i s) as [->|Hne].
        -- rewrite Nat.sub_diag in H3. cbn in H3. congruence.
        -- repeat split; try lia. replace (i - s)%nat with (S (i - S s)) in H3 by lia. exact H3.
    + cbn [In]. rewrite IH. split.
      * intros [<-|[H1 [H2 H3]]].
        -- repeat split; try lia. rewrite Nat.sub_diag. cbn. destruct c; discriminate.
        -- repeat split; try lia. replace (i - s)%nat with (S (i - S s)) by lia. exact H3.
      * intros [H1 [H2 H3]]. destruct (Nat.eq_dec i s) as [->|Hne]; [left; reflexivity|right].
        repeat split; try lia. replace (i - s)%nat with (S (i - S s)) in H3 by lia. exact H3.
Qed.

Lemma nonempty_idx_spec : forall cs i,
  In i (nonempty_idx cs) <-> (i < length cs /\ nth i cs Empty <> Empty)%nat.
Proof.
  intros. unfold nonempty_idx. rewrite nonempty_from_spec. rewrite Nat.sub_0_r. cbn. split; intros; repeat split; try tauto; lia.
Qed.

Lemma nonempty_from_length : forall cs s, length (nonempty_from s cs) = count_ne cs.
Proof.
  induction cs as [|c cs IH]; intro s; [reflexivity|]. unfold count_ne in *. cbn.
  destruct (is_empty c); cbn; rewrite IH; reflexivity.
Qed.

Lemma nonempty_idx_length : forall cs, length (nonempty_idx cs) = count_ne cs.
Proof. intros. apply nonempty_from_length. Qed.

Lemma count_ne_set_nth : forall cs j x, (j < length cs)%nat ->
  (count_ne (set_nth cs j x) + (if is_empty (nth j cs Empty) then 0 else 1)
   = count_ne cs + (if is_empty x then 0 else 1))%nat.
Proof.
  induction cs as [|c cs IH]; intros j x H; cbn in H; [lia|].
  destruct j; unfold count_ne in *; cbn.
  - destruct (is_empty c), (is_empty x); cbn; lia.
  - specialize (IH j x ltac:(lia)). destruct (is_empty c); cbn; lia.
Qed.

(* a list with exactly one non-empty element: its index *)
Lemma nonempty_idx_single : forall cs pos, nonempty_idx cs = [pos] ->
  (pos < length cs)%nat /\ nth pos cs Empty <> Empty /\
  forall i, i <> pos -> nth i cs Empty = Empty.
Proof.
  intros cs pos E.
  assert (In pos (nonempty_idx cs)) as Hin by (rewrite E; left; reflexivity).
  apply nonempty_idx_spec in Hin. destruct Hin as [H1 H2]. repeat split; try assumption.
  intros i Hi. destruct (Nat.lt_ge_cases i (length cs)) as [Hl|Hl].
  - destruct (nth i cs Empty) eqn:En; try reflexivity;
      (assert (In i (nonempty_idx cs)) as Hi2 by (apply nonempty_idx_spec; split; [exact Hl|rewrite En; discriminate]);
       rewrite E in Hi2; destruct Hi2 as [->|[]]; congruence).
  - apply nth_overflow. exact Hl.
Qed.

Lemma count_ne_two : forall cs, (2 <= count_ne cs)%nat ->
  exists i j, i <> j /\ (i < length cs)%nat /\ (j < length cs)%nat /\
              nth i cs Empty <> Empty /\ nth j cs Empty <> Empty.
Proof.
  intros cs H. rewrite <- nonempty_idx_length in H.
  destruct (nonempty_idx cs) as [|i [|j r]] eqn:E; cbn in H; try lia.
  assert (In i (nonempty_idx cs)) as Hi by (rewrite E; left; reflexivity).
  assert (In j (nonempty_idx cs)) as Hj by (rewrite E; right; left; reflexivity).
  apply nonempty_idx_spec in Hi. apply nonempty_idx_spec in Hj.
  exists i, j. repeat split; try tauto.
  (* i <> j: the index list is strictly increasing *)
  assert (forall cs s, StronglySorted lt (nonempty_from s cs) /\ Forall (fun x => s <= x)%nat (nonempty_from s cs)) as Hs.
  { clear. induction cs as [|c cs IH]; intro s; cbn; [split; constructor|].
    destruct (IH (S s)) as [I1 I2]. destruct (is_empty c).
    - split; [exact I1|]. eapply Forall_impl; [|exact I2]. cbn. intros. lia.
    - split.
      + constructor; [exact I1|]. eapply Forall_impl; [|exact I2]. cbn. intros. lia.
      + constructor; [lia|]. eapply Forall_impl; [|exact I2]. cbn. intros. lia. }
  destruct (Hs cs 0%nat) as [S1 _]. unfold nonempty_idx in E. rewrite E in S1.
  inversion S1 as [|? ? _ F]; subst. inversion F; subst. lia.
Qed.

Lemma count_ne_ge2_of : forall cs i j, i <> j -> (i < length cs)%nat -> (j < length cs)%nat ->
  nth i cs Empty <> Empty -> nth j cs Empty <> Empty -> (2 <= count_ne cs)%nat.
Proof.
  intros cs i j Hij Hi Hj Ni Nj. rewrite <- nonempty_idx_length.
  assert (In i (nonempty_idx cs)) as A by (apply nonempty_idx_spec; tauto).
  assert (In j (nonempty_idx cs)) as B by (apply nonempty_idx_spec; tauto).
  destruct (nonempty_idx cs) as [|a [|b r]]; cbn in *; try tauto; try lia.
Qed.

Lemma empty17_nth : forall i, nth i empty17 Empty = Empty.
Proof. intro i. unfold empty17. do 18 (destruct i as [|i]; [reflexivity|]). reflexivity. Qed.

Lemma empty17_length : length empty17 = 17%nat.
Proof. reflexivity. Qed.

(* ---- the canonical form --------------------------------------------------- *)

Definition is_val (n : node) : bool := match n with Val _ => true | _ => false end.
Definition is_valne (n : node) : bool := match n with Val (_ :: _) => true | _ => false end.
Definition is_full (n : node) : bool := match n with Full _ => true | _ => false end.

Fixpoint nibsb (k : nibbles) : bool :=
  match k with [] => true | x :: r => (x <? 16) && nibsb r end.

Fixpoint tkeyb (k : nibbles) : bool :=
  match k with
  | [] => false
  | x :: r => match r with [] => N.eqb x 16 | _ => (x <? 16) && tkeyb r end
  end.

Lemma nibsb_spec : forall k, nibsb k = true <-> nibs k.
Proof.
  induction k as [|x k IH]; cbn; split; intro H; try reflexivity; try constructor.
  - apply andb_true_iff in H. destruct H as [H _]. lia.
  - apply andb_true_iff in H. apply IH. tauto.
  - inversion H; subst. apply andb_true_iff. split; [lia|]. apply IH. assumption.
Qed.

Lemma tkeyb_spec : forall k, tkeyb k = true <-> tkey k.
Proof.
  induction k as [|x k IH]; split; intro H.
  - discriminate.
  - apply tkey_nonempty in H. congruence.
  - cbn in H. destruct k as [|y k].
    + apply N.eqb_eq in H. subst. apply tkey_16.
    + apply andb_true_iff in H. destruct H as [H1 H2]. apply tkey_cons_lt; [lia|]. apply IH. exact H2.
  - apply tkey_cons in H. destruct H as [[-> ->]|[Hx Ht]]; [reflexivity|].
    cbn. destruct k as [|y k]; [apply tkey_nonempty in Ht; congruence|].
    apply andb_true_iff. split; [lia|]. apply IH. exact Ht.
Qed.

(* canonical sub-trie hanging below a nibble path (never Empty, never a bare value):
   - leaf  = Short with a terminated key and a non-empty value
   - extension = Short with a non-empty key of plain nibbles and a Full child
   - branch = Full with 17 children: 0..15 Empty or canonical, 16 Empty or a
     non-empty value, at least two non-empty *)
Fixpoint canonb (n : node) : bool :=
  match n with
  | Short k c =>
    if has_term k then tkeyb k && is_valne c
    else negb (match k with [] => true | _ => false end) && nibsb k && is_full c && canonb c
  | Full cs =>
    Nat.eqb (length cs) 17
    && forallb (fun c => is_empty c || is_valne c || canonb c) cs
    && forallb (fun c => negb (is_val c)) (firstn 16 cs)
    && (is_empty (nth 16 cs Empty) || is_valne (nth 16 cs Empty))
    && (2 <=? count_ne cs)%nat
  | _ => false
  end.

Definition canon (n : node) : Prop := canonb n = true.
Definition canon_root (t : node) : Prop := t = Empty \/ canon t.

(* what may sit at child position i of a branch *)
Definition slot_ok (i : nat) (c : node) : Prop :=
  if (i <? 16)%nat then c = Empty \/ canon c else c = Empty \/ is_valne c = true.

Lemma canon_short_leaf : forall k c, tkey k -> canon (Short k c) <-> is_valne c = true.
Proof.
  intros k c Hk. unfold canon. cbn [canonb]. rewrite (has_term_tkey k Hk).
  apply tkeyb_spec in Hk. rewrite Hk. cbn. tauto.
Qed.

Lemma canon_short_ext : forall k c, nibs k -> canon (Short k c) <-> (k <> [] /\ is_full c = true /\ canon c).
Proof.
  intros k c Hk. unfold canon. cbn [canonb]. rewrite (has_term_nibs k Hk).
  apply nibsb_spec in Hk. rewrite Hk. destruct k; cbn.
  - split; [discriminate|intros [H _]; congruence].
  - rewrite andb_true_iff. split; [intros [? ?]; repeat split; [discriminate|assumption..]|tauto].
Qed.

Lemma canon_short_inv : forall k c, canon (Short k c) ->
  (tkey k /\ is_valne c = true) \/ (nibs k /\ k <> [] /\ is_full c = true /\ canon c).
Proof.
  intros k c H. unfold canon in H. cbn [canonb] in H. destruct (has_term k).
  - apply andb_true_iff in H. destruct H as [H1 H2]. left. split; [apply tkeyb_spec; exact H1|exact H2].
  - repeat (apply andb_true_iff in H; destruct H as [H ?]). right.
    repeat split; try assumption; [apply nibsb_spec; assumption|]. destruct k; [discriminate|discriminate].
Qed.

Lemma forallb_nth : forall (f : node -> bool) cs i, forallb f cs = true -> (i < length cs)%nat -> f (nth i cs Empty) = true.
Proof. intros f cs i H Hi. rewrite forallb_forall in H. apply H. apply nth_In. exact Hi. Qed.

Lemma canon_full_inv : forall cs, canon (Full cs) ->
  length cs = 17%nat /\ (forall i, (i <= 16)%nat -> slot_ok i (nth i cs Empty)) /\ (2 <= count_ne cs)%nat.
Proof.
  intros cs H. unfold canon in H. cbn [canonb] in H.
  apply andb_true_iff in H. destruct H as [H Hcnt].
  apply andb_true_iff in H. destruct H as [H H16].
  apply andb_true_iff in H. destruct H as [H Hnv].
  apply andb_true_iff in H. destruct H as [H Hall].
  apply Nat.eqb_eq in H. repeat split; [exact H| |lia].
  intros i Hi. unfold slot_ok. destruct (i <? 16)%nat eqn:E.
  - apply Nat.ltb_lt in E. pose proof (forallb_nth _ cs i Hall ltac:(lia)) as A.
    assert (nth i (firstn 16 cs) Empty = nth i cs Empty) as Efn.
    { rewrite <- (firstn_skipn 16 cs) at 2. rewrite app_nth1; [reflexivity|]. rewrite firstn_length. lia. }
    pose proof (forallb_nth _ (firstn 16 cs) i Hnv ltac:(rewrite firstn_length; lia)) as Bv. rewrite Efn in Bv.
    cbn in A. destruct (nth i cs Empty); cbn in *; try discriminate; try (left; reflexivity); right; exact A.
  - apply Nat.ltb_ge in E. assert (i = 16%nat) as -> by lia.
    destruct (nth 16 cs Empty); cbn in *; try discriminate; [left; reflexivity|right; assumption].
Qed.

Lemma canon_full_intro : forall cs, length cs = 17%nat ->
  (forall i, (i <= 16)%nat -> slot_ok i (nth i cs Empty)) -> (2 <= count_ne cs)%nat -> canon (Full cs).
Proof.
  intros cs Hl Hs Hc. unfold canon. cbn [canonb].
  repeat (apply andb_true_iff; split).
  - apply Nat.eqb_eq. exact Hl.
  - apply forallb_forall. intros c Hin. destruct (In_nth _ _ Empty Hin) as [i [Hi <-]].
    specialize (Hs i ltac:(lia)). unfold slot_ok in Hs. destruct (i <? 16)%nat.
    + destruct Hs as [->|Hc']; [reflexivity|]. unfold canon in Hc'. rewrite Hc'. apply orb_true_r.
    + destruct Hs as [->|Hv]; [reflexivity|]. rewrite Hv. rewrite orb_true_r. reflexivity.
  - apply forallb_forall. intros c Hin. destruct (In_nth _ _ Empty Hin) as [i [Hi <-]].
    rewrite firstn_length in Hi.
    assert (nth i (firstn 16 cs) Empty = nth i cs Empty) as Efn.
    { rewrite <- (firstn_skipn 16 cs) at 2. rewrite app_nth1; [reflexivity|]. rewrite firstn_length. lia. }
    rewrite Efn. specialize (Hs i ltac:(lia)). unfold slot_ok in Hs.
    replace (i <? 16)%nat with true in Hs by (symmetry; apply Nat.ltb_lt; lia).
    destruct Hs as [->|Hc']; [reflexivity|]. destruct (nth i cs Empty); try reflexivity. discriminate.
  - specialize (Hs 16%nat ltac:(lia)). unfold slot_ok in Hs. cbn in Hs. destruct Hs as [->|Hv]; [reflexivity|]. rewrite Hv. apply orb_true_r.
  - apply Nat.leb_le. exact Hc.
Qed.

Lemma canon_not_empty : forall n, canon n -> n <> Empty.
Proof. intros n H E. subst. discriminate. Qed.

Lemma canon_not_val : forall n v, canon n -> n <> Val v.
Proof. intros n v H E. subst. discriminate. Qed.

Lemma is_valne_inv : forall n, is_valne n = true -> exists v, n = Val v /\ v <> [].
Proof. intros n H. destruct n as [|[|x v]| | |]; try discriminate. exists (x :: v). split; [reflexivity|discriminate]. Qed.

(* ---- get on branches ------------------------------------------------------ *)

Lemma get_full : forall cs i r, length cs = 17%nat -> i <= 16 ->
  get (Full cs) (i :: r) = get (child cs i) r.
Proof.
  intros cs i r Hl Hi. cbn [get]. unfold child.
  rewrite (nth_apply_nth _ _ (fun c => get c r) None cs (N.to_nat i) Empty) by lia. reflexivity.
Qed.

Lemma get_short_app : forall k c r, get (Short k c) (k ++ r) = get c r.
Proof.
  intros. cbn [get]. assert (key_mismatch k (k ++ r) = false) as -> by (apply key_mismatch_false; eexists; reflexivity).
  rewrite skipn_app_exact. reflexivity.
Qed.

Lemma get_short_mismatch : forall k c key, (~ exists r, key = k ++ r) -> get (Short k c) key = None.
Proof. intros. cbn [get]. apply key_mismatch_true in H. rewrite H. reflexivity. Qed.

(* ---- insert: canonical form and lookup ------------------------------------ *)

(* what insert_nil produces at a branch slot *)
Lemma insert_nil_slot : forall x key c,
  (tkey (x :: key) /\ is_valne c = true) \/ (nibs (x :: key) /\ is_full c = true /\ canon c) ->
  slot_ok (N.to_nat x) (insert_nil key c) /\ insert_nil key c <> Empty /\ x <= 16.
Proof.
  intros x key c [[Hk Hv]|[Hk [Hf Hc]]].
  - apply tkey_cons in Hk. destruct Hk as [[-> ->]|[Hx Ht]].
    + cbn. split; [right; exact Hv|]. split; [|lia]. destruct c; discriminate.
    + unfold slot_ok. replace (N.to_nat x <? 16)%nat with true by (symmetry; apply Nat.ltb_lt; lia).
      destruct key as [|y key]; [apply tkey_nonempty in Ht; congruence|].
      cbn [insert_nil]. split; [right; apply canon_short_leaf; assumption|]. split; [discriminate|lia].
  - inversion Hk as [|? ? Hx Hn]; subst. unfold slot_ok.
    replace (N.to_nat x <? 16)%nat with true by (symmetry; apply Nat.ltb_lt; lia).
    destruct key as [|y key]; cbn [insert_nil].
    + split; [right; exact Hc|]. split; [|lia]. destruct c; discriminate.
    + split; [right; apply canon_short_ext; [exact Hn|]; repeat split; [discriminate|assumption..]|]. split; [discriminate|lia].
Qed.

Lemma get_insert_nil : forall key c r, insert_nil key c <> Empty \/ True ->
  get (insert_nil key c) (key ++ r) = get c r.
Proof.
  intros key c r _. destruct key as [|y key]; [reflexivity|]. cbn [insert_nil]. apply get_short_app.
Qed.

Definition key_eqb := list_eqb.

Lemma insert_nonempty : forall n key v, snd (insert n key (Val v)) <> Empty.
Proof.
  intros n key v. destruct key as [|k0 kr].
  - destruct n; cbn; discriminate.
  - destruct n; cbn [insert]; try discriminate.
    + destruct (Nat.eqb (prefix_len (k0 :: kr) k) (length k)).
      * destruct (insert n (skipn (prefix_len (k0 :: kr) k) (k0 :: kr)) (Val v)) as [d nn]. destruct d; discriminate.
      * destruct (Nat.eqb (prefix_len (k0 :: kr) k) 0); discriminate.
    + destruct (nth_apply (fun c => insert c kr (Val v)) (true, insert_nil kr (Val v)) cs (N.to_nat k0)) as [d nn].
      destruct d; discriminate.
Qed.


Lemma insert_clean : forall n key v nn, insert n key (Val v) = (false, nn) -> nn = n.
Proof.
  induction n as [| |k1 c1 IH1|cs1 IH1|] using node_ind'; intros key v0 nn Ei; destruct key as [|z r]; cbn [insert] in Ei;
    try (injection Ei as <-; reflexivity); try discriminate.
  - injection Ei as E E2. apply negb_false_iff in E. cbn in E. apply list_eqb_eq in E. congruence.
  - destruct (Nat.eqb (prefix_len (z :: r) k1) (length k1)).
    + destruct (insert c1 _ _) as [d1 n1]. destruct d1; [discriminate|]. injection Ei as <-. reflexivity.
    + destruct (Nat.eqb (prefix_len (z :: r) k1) 0); discriminate.
  - destruct (nth_apply _ _ _ _) as [d1 n1]. destruct d1; [discriminate|]. injection Ei as <-. reflexivity.
Qed.

Lemma set_nth_same : forall cs j, (j < length cs)%nat -> set_nth cs j (nth j cs Empty) = cs.
Proof.
  induction cs as [|c cs IHc]; intros j Hj; cbn in Hj; [lia|]. destruct j; cbn; [reflexivity|]. rewrite IHc by lia. reflexivity.
Qed.

Lemma list_eqb_app_head : forall p a b, list_eqb (p ++ a) (p ++ b) = list_eqb a b.
Proof.
  intros. destruct (list_eqb a b) eqn:E.
  - apply list_eqb_eq in E. subst. apply list_eqb_refl.
  - apply list_eqb_neq in E. apply list_eqb_neq. intro F. apply app_inv_head in F. congruence.
Qed.

Lemma is_valne_val : forall v, v <> [] -> is_valne (Val v) = true.
Proof. intros v H. destruct v; [congruence|reflexivity]. Qed.

(* lookups below a prefix: a Short over n behaves like n on the rest of the key *)
Lemma get_under_prefix : forall p n n' (f : nibbles -> option bytes),
  nibs p -> p <> [] ->
  (forall key2, tkey key2 -> get n key2 = f key2) ->
  forall g : nibbles -> option bytes,
  (forall r, g (p ++ r) = f r) -> (forall key2, (~ exists r, key2 = p ++ r) -> g key2 = None) ->
  n' = Short p n ->
  forall key2, tkey key2 -> get n' key2 = g key2.
Proof.
  intros p n n' f Hp Hne Hf g Hg1 Hg2 -> key2 Hk2.
  destruct (key_mismatch p key2) eqn:Em.
  - apply key_mismatch_true in Em. rewrite get_short_mismatch by exact Em. symmetry. apply Hg2. exact Em.
  - apply key_mismatch_false in Em. destruct Em as [r ->]. rewrite get_short_app, Hg1.
    destruct (tkey_split _ _ Hk2) as [[-> Htp]|[_ Hr]]; [exfalso; exact (tkey_not_nibs _ Htp Hp)|].
    apply Hf. exact Hr.
Qed.

(* the branch built when a key diverges inside a short node's key *)
Lemma branch_spec : forall p x k2 c y key2 v,
  nibs p -> x <> y ->
  ((tkey (x :: k2) /\ is_valne c = true) \/ (nibs (x :: k2) /\ is_full c = true /\ canon c)) ->
  tkey (y :: key2) -> v <> [] ->
  let b2 := set_nth (set_nth empty17 (N.to_nat x) (insert_nil k2 c)) (N.to_nat y) (insert_nil key2 (Val v)) in
  let res := if Nat.eqb (length p) 0 then Full b2 else Short p (Full b2) in
  canon res /\
  forall key', tkey key' ->
    get res key' = if list_eqb (p ++ y :: key2) key' then Some v else get (Short (p ++ x :: k2) c) key'.
Proof.
  intros p x k'' c y key'' v Hnp D Hx Hty Hv b2 res.
  destruct (insert_nil_slot x k'' c Hx) as [Sx [Nx Lx]].
  destruct (insert_nil_slot y key'' (Val v) (or_introl (conj Hty (is_valne_val v Hv)))) as [Sy [Ny Ly]].
  set (b1 := set_nth empty17 (N.to_nat x) (insert_nil k'' c)) in *.
  assert (N.to_nat x <> N.to_nat y) as Hxy by lia.
  assert (length b1 = 17%nat) as Lb1 by (unfold b1; rewrite set_nth_length; reflexivity).
  assert (length b2 = 17%nat) as Lb2 by (unfold b2; rewrite set_nth_length; exact Lb1).
  assert (nth (N.to_nat y) b2 Empty = insert_nil key'' (Val v)) as Ey by (unfold b2; apply nth_set_nth_eq; lia).
  assert (nth (N.to_nat x) b2 Empty = insert_nil k'' c) as Ex.
  { unfold b2. rewrite nth_set_nth_neq by lia. unfold b1. apply nth_set_nth_eq. rewrite empty17_length. lia. }
  assert (forall i, i <> N.to_nat x -> i <> N.to_nat y -> nth i b2 Empty = Empty) as Eo.
  { intros i H1 H2. unfold b2, b1. rewrite !nth_set_nth_neq by lia. apply empty17_nth. }
  assert (canon (Full b2)) as Cb.
  { apply canon_full_intro; [exact Lb2| |].
    - intros i Hi. destruct (Nat.eq_dec i (N.to_nat x)) as [->|H1]; [rewrite Ex; exact Sx|].
      destruct (Nat.eq_dec i (N.to_nat y)) as [->|H2]; [rewrite Ey; exact Sy|].
      rewrite Eo by assumption. unfold slot_ok. destruct (i <? 16)%nat; left; reflexivity.
    - apply (count_ne_ge2_of b2 (N.to_nat x) (N.to_nat y)); try lia; [rewrite Ex|rewrite Ey]; assumption. }
  assert (forall key', tkey key' ->
            get (Full b2) key' = if list_eqb (y :: key'') key' then Some v else get (Short (x :: k'') c) key') as Gb.
  { intros key' Hk'. destruct key' as [|z r2]; [apply tkey_nonempty in Hk'; congruence|].
    assert (z <= 16) as Hz by (apply tkey_cons in Hk'; lia).
    rewrite get_full by assumption. unfold child.
    destruct (N.eq_dec z y) as [->|Hzy].
    - rewrite Ey. rewrite (get_short_mismatch (x :: k'')) by (intros [r Er]; cbn in Er; congruence).
      destruct (list_eqb (y :: key'') (y :: r2)) eqn:E2.
      + apply list_eqb_eq in E2. injection E2 as E2. rewrite <- E2.
        rewrite <- (app_nil_r key'') at 2. rewrite get_insert_nil by (right; exact I). reflexivity.
      + apply list_eqb_neq in E2.
        destruct key'' as [|w key3]; cbn [insert_nil].
        * apply tkey_cons in Hty. apply tkey_cons in Hk'.
          destruct Hty as [[-> _]|[_ Hn]]; [|apply tkey_nonempty in Hn; congruence].
          destruct Hk' as [[_ ->]|[? _]]; [congruence|lia].
        * apply get_short_mismatch. intros [r Er]. subst r2.
          apply tkey_cons in Hty. apply tkey_cons in Hk'.
          destruct Hty as [[_ ?]|[_ Hty]]; [discriminate|]. destruct Hk' as [[_ ?]|[_ Hk']]; [discriminate|].
          apply (tkey_prefix_eq _ _ Hty) in Hk'. subst r. rewrite app_nil_r in E2. congruence.
    - assert (list_eqb (y :: key'') (z :: r2) = false) as -> by (apply list_eqb_neq; congruence).
      destruct (N.eq_dec z x) as [->|Hzx].
      + rewrite Ex. destruct (key_mismatch k'' r2) eqn:Em.
        * rewrite (get_short_mismatch (x :: k'')).
          2:{ intros [r Er]. cbn in Er. injection Er as Er. apply key_mismatch_true in Em. apply Em. eexists. exact Er. }
          destruct k'' as [|w k3]; cbn [insert_nil].
          -- exfalso. apply key_mismatch_true in Em. apply Em. exists r2. reflexivity.
          -- apply get_short_mismatch. apply key_mismatch_true. exact Em.
        * apply key_mismatch_false in Em. destruct Em as [r ->].
          rewrite get_insert_nil by (right; exact I).
          replace (x :: k'' ++ r) with ((x :: k'') ++ r) by reflexivity. rewrite get_short_app. reflexivity.
      + rewrite Eo by lia. rewrite (get_short_mismatch (x :: k'')) by (intros [r Er]; cbn in Er; congruence). reflexivity. }
  unfold res. destruct (Nat.eqb (length p) 0) eqn:Ep.
  - apply Nat.eqb_eq in Ep. destruct p; [|discriminate]. cbn [app].
    split; [exact Cb|]. exact Gb.
  - apply Nat.eqb_neq in Ep.
    assert (p <> []) as Hpne by (destruct p; [cbn in Ep; congruence|discriminate]).
    split; [apply canon_short_ext; [exact Hnp|]; repeat split; [exact Hpne|exact Cb]|].
    apply (get_under_prefix p (Full b2) _ _ Hnp Hpne Gb); [| |reflexivity].
    + intro r. rewrite list_eqb_app_head. destruct (list_eqb (y :: key'') r); [reflexivity|].
      destruct (key_mismatch (x :: k'') r) eqn:Em2.
      * apply key_mismatch_true in Em2. rewrite (get_short_mismatch (x :: k'')) by exact Em2.
        apply get_short_mismatch. intros [r3 Er]. rewrite <- app_assoc in Er. apply app_inv_head in Er.
        apply Em2. eexists. exact Er.
      * apply key_mismatch_false in Em2. destruct Em2 as [r3 ->].
        rewrite get_short_app. rewrite app_assoc. rewrite get_short_app. reflexivity.
    + intros key' Hm.
      assert (list_eqb (p ++ y :: key'') key' = false) as ->.
      { apply list_eqb_neq. intro E. subst key'. apply Hm. eexists. reflexivity. }
      apply get_short_mismatch. intros [r Er]. subst key'. apply Hm. exists (x :: k'' ++ r). rewrite <- app_assoc. reflexivity.
Qed.

Lemma skipn_S_app : forall (p : nibbles) x r, skipn (S (length p)) (p ++ x :: r) = r.
Proof.
  intros. replace (S (length p)) with (length (p ++ [x])) by (rewrite app_length; cbn; lia).
  replace (p ++ x :: r) with ((p ++ [x]) ++ r) by (rewrite <- app_assoc; reflexivity). apply skipn_app_exact.
Qed.

Lemma nth_app_exact : forall (p : nibbles) x r d, nth (length p) (p ++ x :: r) d = x.
Proof. intros. rewrite app_nth2, Nat.sub_diag; [reflexivity|lia]. Qed.

(* the unfolded Short case of insert *)
Lemma insert_short_eq : forall k c key value, key <> [] ->
  insert (Short k c) key value =
  let m := prefix_len key k in
  if Nat.eqb m (length k) then
    let (dirty, nn) := insert c (skipn m key) value in
    if dirty then (true, Short k nn) else (false, Short k c)
  else
    let b1 := set_nth empty17 (N.to_nat (nth m k 0)) (insert_nil (skipn (S m) k) c) in
    let b2 := set_nth b1 (N.to_nat (nth m key 0)) (insert_nil (skipn (S m) key) value) in
    if Nat.eqb m 0 then (true, Full b2) else (true, Short (firstn m key) (Full b2)).
Proof. intros k c key value H. destruct key; [congruence|reflexivity]. Qed.

(* the main lemma about insert: it keeps the canonical form and implements
   the map update, for a canonical sub-trie, a terminated key and a non-empty value *)
Lemma insert_spec : forall n key v, canon n -> tkey key -> v <> [] ->
  canon (snd (insert n key (Val v))) /\
  (forall key', tkey key' ->
     get (snd (insert n key (Val v))) key' = if list_eqb key key' then Some v else get n key').
Proof.
  induction n as [|vv|k c IH|cs IH|hh] using node_ind'; intros key v Hc Hk Hv; try discriminate.
  - (* Short *)
    rewrite insert_short_eq by (apply tkey_nonempty; exact Hk).
    destruct (prefix_view key k) as [p [key' [k' [Ekey [Ek [El D]]]]]].
    cbv zeta. rewrite El.
    destruct k' as [|x k''].
    + (* the whole short key matches *)
      rewrite app_nil_r in Ek. subst p. rewrite Nat.eqb_refl. rewrite Ekey, skipn_app_exact. rewrite Ekey in Hk.
      destruct (canon_short_inv _ _ Hc) as [[Htk Hvc]|[Hnk [Hne [Hfc Hcc]]]].
      * (* leaf with the same key: overwrite *)
        assert (key' = []) as -> by (apply (tkey_prefix_eq k); assumption).
        rewrite app_nil_r in *. destruct (is_valne_inv _ Hvc) as [v0 [-> Hv0]].
        assert (forall vv key2, tkey key2 -> get (Short k (Val vv)) key2 = if list_eqb k key2 then Some vv else None) as G.
        { intros vv key2 Hk2. destruct (list_eqb k key2) eqn:E2.
          - apply list_eqb_eq in E2. subst key2. rewrite <- (app_nil_r k) at 2. rewrite get_short_app. reflexivity.
          - apply list_eqb_neq in E2. apply get_short_mismatch. intros [r Er]. subst key2.
            apply (tkey_prefix_eq k) in Hk2; [|assumption]. subst r. rewrite app_nil_r in E2. congruence. }
        cbn [insert]. destruct (negb (val_eqb (Val v0) (Val v))) eqn:Ed; cbn [snd].
        -- split; [apply canon_short_leaf; [exact Htk|apply is_valne_val; exact Hv]|].
           intros key2 Hk2. rewrite !G by exact Hk2. destruct (list_eqb k key2); reflexivity.
        -- apply negb_false_iff in Ed. cbn in Ed. apply list_eqb_eq in Ed. subst v0.
           split; [exact Hc|]. intros key2 Hk2. rewrite !G by exact Hk2. destruct (list_eqb k key2); reflexivity.
      * (* extension: recurse *)
        destruct (tkey_split _ _ Hk) as [[_ Htk]|[_ Hk']]; [exfalso; exact (tkey_not_nibs _ Htk Hnk)|].
        destruct (IH key' v Hcc Hk' Hv) as [IC IG].
        assert (is_full (snd (insert c key' (Val v))) = true) as Hfull.
        { destruct c; try discriminate. destruct key' as [|z r]; [apply tkey_nonempty in Hk'; congruence|].
          cbn [insert]. destruct (nth_apply _ _ _ _) as [d nn]. destruct d; reflexivity. }
        destruct (insert c key' (Val v)) as [d nn] eqn:Ei. cbn [snd] in *.
        assert (canon (Short k nn) /\ forall key2, tkey key2 -> get (Short k nn) key2 = if list_eqb (k ++ key') key2 then Some v else get (Short k c) key2) as [R1 R2].
        { split; [apply canon_short_ext; [exact Hnk|]; repeat split; assumption|].
          apply (get_under_prefix k nn _ _ Hnk Hne IG); [| |reflexivity].
          - intro r. rewrite list_eqb_app_head, get_short_app. reflexivity.
          - intros key2 Hm. rewrite get_short_mismatch by exact Hm.
            assert (list_eqb (k ++ key') key2 = false) as ->; [|reflexivity].
            apply list_eqb_neq. intro E. subst key2. apply Hm. eexists. reflexivity. }
        destruct d; cbn [snd]; [split; assumption|].
        apply insert_clean in Ei. subst nn. split; [exact Hc|exact R2].
    + (* diverges inside the short key *)
      assert (length p <> length k) as Hlen by (rewrite Ek, app_length; cbn; lia).
      apply Nat.eqb_neq in Hlen. rewrite Hlen.
      assert (exists y key'', key' = y :: key'' /\ x <> y /\ nibs p /\ tkey (y :: key'') /\
              ((tkey (x :: k'') /\ is_valne c = true) \/ (nibs (x :: k'') /\ is_full c = true /\ canon c))) as [y [key'' [-> [Dxy [Hnp [Hty Hx]]]]]].
      { rewrite Ekey in Hk. destruct (canon_short_inv _ _ Hc) as [[Htk Hvc]|[Hnk [Hne [Hfc Hcc]]]].
        - rewrite Ek in Htk.
          destruct key' as [|y key''].
          + rewrite app_nil_r in Hk. apply (tkey_prefix_eq p) in Htk; [discriminate|exact Hk].
          + exists y, key''. cbn in D. destruct (tkey_split _ _ Htk) as [[? _]|[Hnp Htx]]; [discriminate|].
            destruct (tkey_split _ _ Hk) as [[? _]|[_ Hty]]; [discriminate|].
            repeat split; try assumption; try congruence. left. split; assumption.
        - rewrite Ek in Hnk. apply nibs_app in Hnk. destruct Hnk as [Hnp Hnx].
          destruct key' as [|y key''].
          + rewrite app_nil_r in Hk. exfalso. exact (tkey_not_nibs _ Hk Hnp).
          + exists y, key''. cbn in D. destruct (tkey_split _ _ Hk) as [[? _]|[_ Hty]]; [discriminate|].
            repeat split; try assumption; try congruence. right. repeat split; assumption. }
      rewrite Ek, Ekey. rewrite !nth_app_exact, !skipn_S_app, firstn_app_exact.
      pose proof (branch_spec p x k'' c y key'' v Hnp Dxy Hx Hty Hv) as B. cbv zeta in B.
      destruct (Nat.eqb (length p) 0); cbn [snd]; exact B.
  - (* Full *)
    destruct (canon_full_inv _ Hc) as [Hl [Hs Hcnt]].
    destruct key as [|k0 kr]; [apply tkey_nonempty in Hk; congruence|].
    assert (k0 <= 16) as Hk0 by (apply tkey_cons in Hk; lia).
    cbn [insert].
    rewrite (nth_apply_nth _ _ (fun c => insert c kr (Val v)) _ cs (N.to_nat k0) Empty) by lia.
    set (c0 := nth (N.to_nat k0) cs Empty).
    (* new child: either a recursive insert into a canonical child, or a fresh leaf / value *)
    assert (slot_ok (N.to_nat k0) (snd (insert c0 kr (Val v))) /\
            (forall r2, tkey (k0 :: r2) -> get (snd (insert c0 kr (Val v))) r2 = if list_eqb kr r2 then Some v else get c0 r2)) as [Sn Gn].
    { pose proof (Hs (N.to_nat k0) ltac:(lia)) as S0. fold c0 in S0. unfold slot_ok in *.
      pose proof (is_valne_val v Hv) as Hvv.
      apply tkey_cons in Hk. destruct Hk as [[-> ->]|[Hlt Hkr]].
      - change (N.to_nat 16 <? 16)%nat with false in *.
        assert (forall r2, tkey (16 :: r2) -> r2 = []) as R16 by (intros r2 Hr2; apply tkey_cons in Hr2; destruct Hr2 as [[_ ->]|[? _]]; [reflexivity|lia]).
        destruct S0 as [->|Hv0].
        + cbn. split; [right; exact Hvv|]. intros r2 Hr2. rewrite (R16 r2 Hr2). reflexivity.
        + destruct (is_valne_inv _ Hv0) as [v0 [-> _]]. cbn [insert snd]. split; [right; exact Hvv|].
          intros r2 Hr2. rewrite (R16 r2 Hr2). reflexivity.
      - replace (N.to_nat k0 <? 16)%nat with true in * by (symmetry; apply Nat.ltb_lt; lia).
        destruct S0 as [->|Hc0].
        + destruct kr as [|z r]; [apply tkey_nonempty in Hkr; congruence|]. cbn [insert snd].
          split; [right; apply canon_short_leaf; assumption|].
          intros r2 Hr2. apply tkey_cons in Hr2. destruct Hr2 as [[? _]|[_ Hr2]]; [lia|].
          destruct (list_eqb (z :: r) r2) eqn:E2.
          * apply list_eqb_eq in E2. subst r2. rewrite <- (app_nil_r (z :: r)) at 2. rewrite get_short_app. reflexivity.
          * apply list_eqb_neq in E2. apply get_short_mismatch. intros [r3 Er]. subst r2.
            apply (tkey_prefix_eq _ _ Hkr) in Hr2. subst r3. rewrite app_nil_r in E2. congruence.
        + rewrite Forall_forall in IH. destruct (IH c0 ltac:(apply nth_In; lia) kr v Hc0 Hkr Hv) as [I1 I2].
          split; [right; exact I1|]. intros r2 Hr2. apply tkey_cons in Hr2. destruct Hr2 as [[? _]|[_ Hr2]]; [lia|].
          apply I2. exact Hr2. }
    destruct (insert c0 kr (Val v)) as [d nn] eqn:Ei. cbn [snd] in Sn, Gn.
    assert (nn <> Empty) as Hnn by (pose proof (insert_nonempty c0 kr v) as X; rewrite Ei in X; exact X).
    assert (canon (Full (set_nth cs (N.to_nat k0) nn)) /\
            forall key2, tkey key2 -> get (Full (set_nth cs (N.to_nat k0) nn)) key2 =
                                      if list_eqb (k0 :: kr) key2 then Some v else get (Full cs) key2) as [R1 R2].
    { split.
      - apply canon_full_intro.
        + rewrite set_nth_length. exact Hl.
        + intros i Hi. destruct (Nat.eq_dec i (N.to_nat k0)) as [->|Hne].
          * rewrite nth_set_nth_eq by lia. exact Sn.
          * rewrite nth_set_nth_neq by lia. apply Hs. exact Hi.
        + pose proof (count_ne_set_nth cs (N.to_nat k0) nn ltac:(lia)) as Hcn.
          destruct nn; try congruence; cbn [is_empty] in Hcn; destruct (is_empty (nth (N.to_nat k0) cs Empty)); lia.
      - intros key2 Hk2. destruct key2 as [|z r2]; [apply tkey_nonempty in Hk2; congruence|].
        assert (z <= 16) as Hz by (apply tkey_cons in Hk2; lia).
        rewrite !get_full by (rewrite ?set_nth_length; assumption). unfold child.
        destruct (N.eq_dec z k0) as [->|Hzk].
        + rewrite nth_set_nth_eq by lia. rewrite Gn by exact Hk2. fold c0.
          change (k0 :: kr) with ([k0] ++ kr). change (k0 :: r2) with ([k0] ++ r2). rewrite list_eqb_app_head. reflexivity.
        + rewrite nth_set_nth_neq by lia.
          assert (list_eqb (k0 :: kr) (z :: r2) = false) as ->; [|reflexivity]. apply list_eqb_neq. congruence. }
    destruct d; cbn [snd]; [split; assumption|].
    apply insert_clean in Ei. subst nn. unfold c0 in R2. rewrite set_nth_same in R2 by lia.
    split; [exact Hc|exact R2].
Qed.

(* ---- delete ---------------------------------------------------------------- *)

Lemma collapse_full_spec : forall cs, length cs = 17%nat ->
  (forall i, (i <= 16)%nat -> slot_ok i (nth i cs Empty)) -> (1 <= count_ne cs)%nat ->
  canon (collapse_full cs) /\
  forall key', tkey key' -> get (collapse_full cs) key' = get (Full cs) key'.
Proof.
  intros cs Hl Hs Hcnt. unfold collapse_full.
  destruct (nonempty_idx cs) as [|pos [|q r]] eqn:E.
  - rewrite <- nonempty_idx_length, E in Hcnt. cbn in Hcnt. lia.
  - destruct (nonempty_idx_single cs pos E) as [Hp [Hne Hoth]].
    pose proof (Hs pos ltac:(lia)) as Sp. unfold slot_ok in Sp.
    assert (forall z r2, z <= 16 -> z <> N.of_nat pos -> get (Full cs) (z :: r2) = None) as Gother.
    { intros z r2 Hz Hzp. rewrite get_full by assumption. unfold child. rewrite Hoth by lia. reflexivity. }
    destruct (Nat.eqb pos 16) eqn:E16.
    + apply Nat.eqb_eq in E16. subst pos. cbn in Sp. destruct Sp as [Sp|Sp]; [congruence|].
      split; [apply canon_short_leaf; [apply tkey_16|exact Sp]|].
      intros key' Hk'. destruct key' as [|z r2]; [apply tkey_nonempty in Hk'; congruence|].
      apply tkey_cons in Hk'. destruct Hk' as [[-> ->]|[Hz Hr2]].
      * rewrite get_full by (try assumption; lia). change [16] with ([16] ++ []) at 2. rewrite get_short_app. reflexivity.
      * rewrite Gother by (cbn; lia). apply get_short_mismatch. intros [r3 Er]. cbn in Er. injection Er as Er _. lia.
    + apply Nat.eqb_neq in E16. assert (pos < 16)%nat as Hp16 by lia.
      replace (pos <? 16)%nat with true in Sp by (symmetry; apply Nat.ltb_lt; exact Hp16).
      destruct Sp as [Sp|Sp]; [congruence|].
      assert (N.of_nat pos < 16) as HpN by lia.
      assert (forall kk cc, nth pos cs Empty = Short kk cc \/ (kk = [] /\ cc = nth pos cs Empty /\ is_full cc = true) ->
                canon (Short (N.of_nat pos :: kk) cc) /\
                forall key', tkey key' -> get (Short (N.of_nat pos :: kk) cc) key' = get (Full cs) key') as Hgen.
      { intros kk cc Hcase. split.
        - destruct Hcase as [Ec|[-> [-> Hf]]].
          + rewrite Ec in Sp. destruct (canon_short_inv _ _ Sp) as [[Htk Hv]|[Hnk [Hnek [Hf Hc]]]].
            * apply canon_short_leaf; [apply tkey_cons_lt; assumption|exact Hv].
            * apply canon_short_ext; [constructor; assumption|]. repeat split; [discriminate|assumption..].
          + apply canon_short_ext; [constructor; [assumption|constructor]|]. repeat split; [discriminate|assumption..].
        - intros key' Hk'. destruct key' as [|z r2]; [apply tkey_nonempty in Hk'; congruence|].
          assert (z <= 16) as Hz by (apply tkey_cons in Hk'; lia).
          destruct (N.eq_dec z (N.of_nat pos)) as [->|Hzp].
          + rewrite get_full by assumption. unfold child. rewrite Nat2N.id.
            destruct Hcase as [Ec|[-> [-> Hf]]].
            * rewrite Ec. destruct (key_mismatch kk r2) eqn:Em.
              -- apply key_mismatch_true in Em. rewrite (get_short_mismatch kk) by exact Em.
                 apply get_short_mismatch. intros [r3 Er]. cbn in Er. injection Er as Er. apply Em. eexists. exact Er.
              -- apply key_mismatch_false in Em. destruct Em as [r3 ->]. rewrite get_short_app.
                 change (N.of_nat pos :: kk ++ r3) with ((N.of_nat pos :: kk) ++ r3). apply get_short_app.
            * change (N.of_nat pos :: r2) with ([N.of_nat pos] ++ r2). apply get_short_app.
          + rewrite Gother by assumption. apply get_short_mismatch. intros [r3 Er]. cbn in Er. congruence. }
      destruct (nth pos cs Empty) as [| |kk cc|cs2|] eqn:Ec; try discriminate.
      * apply Hgen. left. reflexivity.
      * apply Hgen. right. repeat split.
  - assert (2 <= count_ne cs)%nat as H2 by (rewrite <- nonempty_idx_length, E; cbn; lia).
    split; [apply canon_full_intro; assumption|reflexivity].
Qed.

Lemma delete_full_eq : forall cs k0 kr,
  delete (Full cs) (k0 :: kr) =
  let (dirty, nn) := nth_apply (fun c => delete c kr) (false, Empty) cs (N.to_nat k0) in
  if negb dirty then (false, Full cs) else (true, collapse_full (set_nth cs (N.to_nat k0) nn)).
Proof. reflexivity. Qed.

Lemma delete_spec : forall n key, canon n -> tkey key ->
  let r := delete n key in
  (snd r = Empty \/ canon (snd r)) /\
  (is_full n = true -> snd r <> Empty) /\
  (fst r = false -> snd r = n) /\
  (forall key', tkey key' -> get (snd r) key' = if list_eqb key key' then None else get n key').
Proof.
  induction n as [|vv|k c IH|cs IH|hh] using node_ind'; intros key Hc Hk; try discriminate.
  - (* Short *)
    cbn [delete].
    destruct (prefix_view key k) as [p [key' [k' [Ekey [Ek [El D]]]]]]. rewrite El.
    destruct k' as [|x k''].
    + rewrite app_nil_r in Ek. subst p. rewrite Nat.ltb_irrefl.
      destruct (canon_short_inv _ _ Hc) as [[Htk Hvc]|[Hnk [Hne [Hfc Hcc]]]].
      * (* leaf with exactly this key *)
        rewrite Ekey in Hk. assert (key' = []) as -> by (apply (tkey_prefix_eq k); assumption).
        rewrite app_nil_r in Ekey. subst key. rewrite Nat.eqb_refl. cbn [fst snd].
        repeat split; [left; reflexivity|discriminate|discriminate|].
        intros key2 Hk2. destruct (list_eqb k key2) eqn:E2; [reflexivity|].
        apply list_eqb_neq in E2. symmetry. apply get_short_mismatch. intros [r Er]. subst key2.
        apply (tkey_prefix_eq k) in Hk2; [|assumption]. subst r. rewrite app_nil_r in E2. congruence.
      * (* extension *)
        rewrite Ekey in Hk. destruct (tkey_split _ _ Hk) as [[_ Htk]|[_ Hk']]; [exfalso; exact (tkey_not_nibs _ Htk Hnk)|].
        assert (length k <> length key) as Hlk by (rewrite Ekey, app_length; pose proof (tkey_nonempty _ Hk'); destruct key'; [congruence|cbn; lia]).
        apply Nat.eqb_neq in Hlk. rewrite Hlk. rewrite Ekey, skipn_app_exact.
        destruct (IH key' Hcc Hk') as [I1 [I2 [I3 I4]]].
        destruct (delete c key') as [d ch] eqn:Ed. cbn [fst snd] in *.
        destruct d; cbn [negb].
        2:{ cbn [fst snd]. rewrite (I3 eq_refl) in I4. repeat split; [right; exact Hc|discriminate|].
            intros key2 Hk2. destruct (key_mismatch k key2) eqn:Em.
            - apply key_mismatch_true in Em.
              assert (list_eqb (k ++ key') key2 = false) as ->; [|reflexivity].
              apply list_eqb_neq. intro E. subst key2. apply Em. eexists. reflexivity.
            - apply key_mismatch_false in Em. destruct Em as [r2 ->]. rewrite list_eqb_app_head, get_short_app.
              destruct (tkey_split _ _ Hk2) as [[_ Htk]|[_ Hr2]]; [exfalso; exact (tkey_not_nibs _ Htk Hnk)|].
              rewrite <- I4 by exact Hr2. reflexivity. }
        specialize (I2 Hfc). destruct I1 as [I1|I1]; [congruence|].
        assert (forall res, (forall r2, get res (k ++ r2) = get ch r2) ->
                            (forall key2, (~ exists r2, key2 = k ++ r2) -> get res key2 = None) ->
                            forall key2, tkey key2 -> get res key2 = if list_eqb (k ++ key') key2 then None else get (Short k c) key2) as Hres.
        { intros res G1 G2 key2 Hk2. destruct (key_mismatch k key2) eqn:Em.
          - apply key_mismatch_true in Em. rewrite G2 by exact Em. rewrite get_short_mismatch by exact Em.
            destruct (list_eqb (k ++ key') key2); reflexivity.
          - apply key_mismatch_false in Em. destruct Em as [r2 ->]. rewrite list_eqb_app_head, get_short_app, G1.
            destruct (tkey_split _ _ Hk2) as [[_ Htk]|[_ Hr2]]; [exfalso; exact (tkey_not_nibs _ Htk Hnk)|].
            apply I4. exact Hr2. }
        destruct ch as [| |k2 c2|cs2|]; try discriminate; cbn [fst snd].
        -- (* merge with the short child *)
           repeat split; try discriminate.
           ++ right. destruct (canon_short_inv _ _ I1) as [[Htk2 Hv2]|[Hnk2 [Hne2 [Hf2 Hc2]]]].
              ** apply canon_short_leaf; [apply tkey_app_nibs; assumption|exact Hv2].
              ** apply canon_short_ext; [apply nibs_app; split; assumption|]. repeat split; try assumption.
                 intro E. apply app_eq_nil in E. tauto.
           ++ apply Hres.
              ** intro r2. destruct (key_mismatch k2 r2) eqn:Em.
                 --- apply key_mismatch_true in Em. rewrite (get_short_mismatch k2) by exact Em.
                     apply get_short_mismatch. intros [r3 Er]. rewrite <- app_assoc in Er. apply app_inv_head in Er. apply Em. eexists. exact Er.
                 --- apply key_mismatch_false in Em. destruct Em as [r3 ->]. rewrite get_short_app, app_assoc. apply get_short_app.
              ** intros key2 Hm. apply get_short_mismatch. intros [r3 Er]. apply Hm. exists (k2 ++ r3). rewrite app_assoc. exact Er.
        -- repeat split; try discriminate.
           ++ right. apply canon_short_ext; [exact Hnk|]. repeat split; assumption.
           ++ apply Hres; [intro r2; apply get_short_app|intros key2 Hm; apply get_short_mismatch; exact Hm].
    + (* the key leaves the short key: nothing to delete *)
      assert (length p < length k)%nat as Hlt by (rewrite Ek, app_length; cbn; lia).
      apply Nat.ltb_lt in Hlt. rewrite Hlt. cbn [fst snd].
      repeat split; [right; exact Hc|discriminate|].
      intros key2 Hk2. destruct (list_eqb key key2) eqn:E2; [|reflexivity].
      apply list_eqb_eq in E2. subst key2. apply get_short_mismatch. intros [r Er].
      rewrite Ek, Ekey in Er. rewrite <- app_assoc in Er. apply app_inv_head in Er.
      destruct key' as [|y key'']; cbn in Er; [discriminate|]. cbn in D. congruence.
  - (* Full *)
    destruct (canon_full_inv _ Hc) as [Hl [Hs Hcnt]].
    destruct key as [|k0 kr]; [apply tkey_nonempty in Hk; congruence|].
    assert (k0 <= 16) as Hk0 by (apply tkey_cons in Hk; lia).
    rewrite delete_full_eq.
    rewrite (nth_apply_nth _ _ (fun c => delete c kr) _ cs (N.to_nat k0) Empty) by lia.
    set (c0 := nth (N.to_nat k0) cs Empty).
    assert (let r := delete c0 kr in
            slot_ok (N.to_nat k0) (snd r) /\ (fst r = false -> snd r = c0) /\ (fst r = true -> c0 <> Empty) /\
            (forall r2, tkey (k0 :: r2) -> get (snd r) r2 = if list_eqb kr r2 then None else get c0 r2)) as Hch.
    { pose proof (Hs (N.to_nat k0) ltac:(lia)) as S0. fold c0 in S0. unfold slot_ok in *.
      apply tkey_cons in Hk. destruct Hk as [[-> ->]|[Hlt Hkr]].
      - change (N.to_nat 16 <? 16)%nat with false in *.
        assert (forall r2, tkey (16 :: r2) -> r2 = []) as R16 by (intros r2 Hr2; apply tkey_cons in Hr2; destruct Hr2 as [[_ ->]|[? _]]; [reflexivity|lia]).
        destruct S0 as [->|Hv0].
        + cbn. repeat split; [left; reflexivity|discriminate|]. intros r2 Hr2. rewrite (R16 r2 Hr2). reflexivity.
        + destruct (is_valne_inv _ Hv0) as [v0 [-> _]]. cbn. repeat split; [left; reflexivity|discriminate|discriminate|].
          intros r2 Hr2. rewrite (R16 r2 Hr2). reflexivity.
      - replace (N.to_nat k0 <? 16)%nat with true in * by (symmetry; apply Nat.ltb_lt; lia).
        destruct S0 as [->|Hc0].
        + cbn. repeat split; [left; reflexivity|discriminate|]. intros r2 _. destruct (list_eqb kr r2); reflexivity.
        + rewrite Forall_forall in IH. destruct (IH c0 ltac:(apply nth_In; lia) kr Hc0 Hkr) as [I1 [I2 [I3 I4]]].
          cbv zeta. repeat split; [exact I1|exact I3|intros _; apply canon_not_empty; exact Hc0|].
          intros r2 Hr2. apply tkey_cons in Hr2. destruct Hr2 as [[? _]|[_ Hr2]]; [lia|]. apply I4. exact Hr2. }
    cbv zeta in Hch. destruct (delete c0 kr) as [d nn] eqn:Ed. cbn [fst snd] in Hch. destruct Hch as [Sn [Cl [Dn Gn]]].
    destruct d; cbn [negb fst snd].
    2:{ repeat split; [right; exact Hc|discriminate|].
        intros key2 Hk2. destruct (list_eqb (k0 :: kr) key2) eqn:E2; [|reflexivity].
        apply list_eqb_eq in E2. subst key2. rewrite get_full by assumption. unfold child. fold c0.
        rewrite <- (Cl eq_refl). rewrite Gn by exact Hk. rewrite list_eqb_refl. reflexivity. }
    specialize (Dn eq_refl).
    set (cs' := set_nth cs (N.to_nat k0) nn).
    assert (length cs' = 17%nat) as Hl' by (unfold cs'; rewrite set_nth_length; exact Hl).
    assert (forall i, (i <= 16)%nat -> slot_ok i (nth i cs' Empty)) as Hs'.
    { intros i Hi. unfold cs'. destruct (Nat.eq_dec i (N.to_nat k0)) as [->|Hne].
      - rewrite nth_set_nth_eq by lia. exact Sn.
      - rewrite nth_set_nth_neq by lia. apply Hs. exact Hi. }
    assert (1 <= count_ne cs')%nat as Hcnt'.
    { pose proof (count_ne_set_nth cs (N.to_nat k0) nn ltac:(lia)) as Hcn. fold cs' in Hcn. fold c0 in Hcn.
      destruct c0; try congruence; cbn [is_empty] in Hcn; destruct (is_empty nn); lia. }
    destruct (collapse_full_spec cs' Hl' Hs' Hcnt') as [CC CG].
    repeat split; [right; exact CC|intros _; apply canon_not_empty; exact CC|discriminate|].
    intros key2 Hk2. rewrite CG by exact Hk2.
    destruct key2 as [|z r2]; [apply tkey_nonempty in Hk2; congruence|].
    assert (z <= 16) as Hz by (apply tkey_cons in Hk2; lia).
    rewrite !get_full by assumption. unfold child, cs'.
    destruct (N.eq_dec z k0) as [->|Hzk].
    + rewrite nth_set_nth_eq by lia. rewrite Gn by exact Hk2. fold c0.
      change (k0 :: kr) with ([k0] ++ kr). change (k0 :: r2) with ([k0] ++ r2). rewrite list_eqb_app_head. reflexivity.
    + rewrite nth_set_nth_neq by lia.
      assert (list_eqb (k0 :: kr) (z :: r2) = false) as ->; [|reflexivity]. apply list_eqb_neq. congruence.
Qed.

(* ---- the whole trie: root level, histories ------------------------------- *)

Definition bytes_ok (b : bytes) : Prop := Forall (fun x => x < 256) b.
Definition op_ok (o : kvop) : Prop :=
  match o with KUpdate k _ => bytes_ok k | KDelete k => bytes_ok k end.

Lemma hex_inj : forall a b, bytes_ok a -> bytes_ok b -> keybytes_to_hex a = keybytes_to_hex b -> a = b.
Proof.
  induction a as [|x a IH]; intros b Ha Hb E; destruct b as [|y b]; cbn in E; try reflexivity; try discriminate.
  injection E as E1 E2 E3. inversion Ha as [|? ? Hx Ha']; subst. inversion Hb as [|? ? Hy Hb']; subst.
  f_equal; [|apply IH; assumption].
  rewrite (N.div_mod x 16), (N.div_mod y 16) by lia. rewrite E1, E2. reflexivity.
Qed.

Lemma hex_eqb : forall a b, bytes_ok a -> bytes_ok b ->
  list_eqb (keybytes_to_hex a) (keybytes_to_hex b) = list_eqb a b.
Proof.
  intros a b Ha Hb. destruct (list_eqb a b) eqn:E.
  - apply list_eqb_eq in E. subst. apply list_eqb_refl.
  - apply list_eqb_neq in E. apply list_eqb_neq. intro F. apply E. apply hex_inj; assumption.
Qed.

Lemma root_insert_spec : forall t key v, canon_root t -> tkey key -> v <> [] ->
  canon (snd (insert t key (Val v))) /\
  (forall key', tkey key' ->
     get (snd (insert t key (Val v))) key' = if list_eqb key key' then Some v else get t key').
Proof.
  intros t key v [->|Hc] Hk Hv; [|apply insert_spec; assumption].
  destruct key as [|k0 kr] eqn:E; [apply tkey_nonempty in Hk; congruence|]. rewrite <- E in *.
  assert (insert Empty key (Val v) = (true, Short key (Val v))) as -> by (rewrite E; reflexivity).
  cbn [snd]. split; [apply canon_short_leaf; [exact Hk|apply is_valne_val; exact Hv]|].
  intros key2 Hk2. destruct (list_eqb key key2) eqn:E2.
  - apply list_eqb_eq in E2. subst key2. rewrite <- (app_nil_r key) at 2. rewrite get_short_app. reflexivity.
  - apply list_eqb_neq in E2. apply get_short_mismatch. intros [r Er]. subst key2.
    apply (tkey_prefix_eq key) in Hk2; [|exact Hk]. subst r. rewrite app_nil_r in E2. congruence.
Qed.

Lemma root_delete_spec : forall t key, canon_root t -> tkey key ->
  canon_root (snd (delete t key)) /\
  (forall key', tkey key' ->
     get (snd (delete t key)) key' = if list_eqb key key' then None else get t key').
Proof.
  intros t key [->|Hc] Hk.
  - cbn. split; [left; reflexivity|]. intros key2 _. destruct (list_eqb key key2); reflexivity.
  - destruct (delete_spec t key Hc Hk) as [D1 [_ [_ D4]]]. split; [exact D1|exact D4].
Qed.

Lemma apply_op_spec : forall t o, canon_root t -> op_ok o ->
  canon_root (apply_op t o) /\
  forall m, (forall k, bytes_ok k -> t_get t k = m k) ->
            forall k, bytes_ok k -> t_get (apply_op t o) k = m_apply m o k.
Proof.
  intros t o Hc Ho. destruct o as [k v|k]; cbn [op_ok] in Ho; cbn [apply_op].
  - unfold t_update. destruct v as [|b v].
    + destruct (root_delete_spec t _ Hc (tkey_hex k Ho)) as [D1 D2]. split; [exact D1|].
      intros m Hm k' Hk'. unfold t_get. rewrite D2 by (apply tkey_hex; exact Hk').
      cbn [m_apply]. rewrite hex_eqb by assumption. destruct (list_eqb k k'); [reflexivity|]. apply Hm. exact Hk'.
    + destruct (root_insert_spec t _ (b :: v) Hc (tkey_hex k Ho) ltac:(discriminate)) as [I1 I2]. split; [right; exact I1|].
      intros m Hm k' Hk'. unfold t_get. rewrite I2 by (apply tkey_hex; exact Hk').
      cbn [m_apply]. rewrite hex_eqb by assumption. destruct (list_eqb k k'); [reflexivity|]. apply Hm. exact Hk'.
  - unfold t_delete. destruct (root_delete_spec t _ Hc (tkey_hex k Ho)) as [D1 D2]. split; [exact D1|].
    intros m Hm k' Hk'. unfold t_get. rewrite D2 by (apply tkey_hex; exact Hk').
    cbn [m_apply]. rewrite hex_eqb by assumption. destruct (list_eqb k k'); [reflexivity|]. apply Hm. exact Hk'.
Qed.

Lemma run_spec_from : forall ops t m, Forall op_ok ops -> canon_root t ->
  (forall k, bytes_ok k -> t_get t k = m k) ->
  canon_root (fold_left apply_op ops t) /\
  forall k, bytes_ok k -> t_get (fold_left apply_op ops t) k = fold_left m_apply ops m k.
Proof.
  induction ops as [|o ops IH]; intros t m Ho Hc Hm; cbn [fold_left].
  - split; assumption.
  - inversion Ho; subst. destruct (apply_op_spec t o Hc H1) as [A1 A2].
    apply IH; [assumption|exact A1|]. apply A2. exact Hm.
Qed.

(* refinement: after any history, lookups agree with the reference map; and
   every reachable trie is in canonical form *)
Lemma run_refines : forall ops, Forall op_ok ops ->
  forall k, bytes_ok k -> t_get (run ops) k = m_run ops k.
Proof.
  intros ops Ho. apply (run_spec_from ops Empty (fun _ => None) Ho); [left; reflexivity|reflexivity].
Qed.

Lemma run_canon : forall ops, Forall op_ok ops -> canon_root (run ops).
Proof.
  intros ops Ho. apply (run_spec_from ops Empty (fun _ => None) Ho); [left; reflexivity|reflexivity].
Qed.
