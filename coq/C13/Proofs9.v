(* C13 - lemmas, part 9: the reference-counting node cache (database.go),
   memory-only fragment: insert / Reference(root, meta) / Dereference(root).
   Invariant: every cached node's parent count is at least the number of
   references to it from live cached nodes plus the meta root; consequence:
   a dereference cascade never removes a node that a live cached node or the
   meta root still references. *)
From VF.C13 Require Import Model Proofs.
From Coq Require Import Lia ZifyBool ZifyN ZifyNat.
Local Open Scope N_scope.

(* ---- small helpers ---------------------------------------------------------- *)

Definition hashes (l : list cnode) : list bytes := map cn_hash l.

Definition inD (D : list bytes) (h : bytes) : bool := existsb (list_eqb h) D.

Fixpoint cnt (y : bytes) (l : list bytes) : nat :=
  match l with
  | [] => 0%nat
  | k :: r => ((if list_eqb k y then 1 else 0) + cnt y r)%nat
  end.

(* references to y from the cached nodes that are not in D *)
Fixpoint refsD (D : list bytes) (l : list cnode) (y : bytes) : nat :=
  match l with
  | [] => 0%nat
  | x :: r => ((if inD D (cn_hash x) then 0 else cnt y (cn_kids x)) + refsD D r y)%nat
  end.

Lemma inD_spec : forall D h, inD D h = true <-> In h D.
Proof.
  intros D h. unfold inD. rewrite existsb_exists. split.
  - intros [x [Hin E]]. apply list_eqb_eq in E. subst. exact Hin.
  - intro Hin. exists h. split; [exact Hin|apply list_eqb_refl].
Qed.

Lemma inD_false : forall D h, inD D h = false <-> ~ In h D.
Proof.
  intros. split.
  - intros E Hin. apply inD_spec in Hin. congruence.
  - intro Hn. destruct (inD D h) eqn:E; [apply inD_spec in E; contradiction|reflexivity].
Qed.

Lemma cnt_pos_in : forall y l, (1 <= cnt y l)%nat <-> In y l.
Proof.
  intros y l. induction l as [|k r IH]; cbn [cnt In]; [split; [lia|tauto]|].
  destruct (list_eqb k y) eqn:E.
  - apply list_eqb_eq in E. subst. split; [left; reflexivity|lia].
  - apply list_eqb_neq in E. rewrite <- IH. split; [intro H; right; lia|intros [F|H]; [congruence|lia]].
Qed.

Lemma find_node_some : forall l h n, find_node l h = Some n -> In n l /\ cn_hash n = h.
Proof.
  induction l as [|c r IH]; intros h n E; cbn in E; [discriminate|].
  destruct (list_eqb (cn_hash c) h) eqn:Eh.
  - injection E as <-. apply list_eqb_eq in Eh. split; [left; reflexivity|exact Eh].
  - destruct (IH _ _ E) as [A B]. split; [right; exact A|exact B].
Qed.

Lemma find_node_in : forall l h, In h (hashes l) -> exists n, find_node l h = Some n.
Proof.
  induction l as [|c r IH]; intros h Hin; [destruct Hin|]. cbn.
  destruct (list_eqb (cn_hash c) h) eqn:Eh; [eexists; reflexivity|].
  destruct Hin as [E|Hin]; [rewrite E, list_eqb_refl in Eh; discriminate|apply IH; exact Hin].
Qed.

Lemma find_node_none : forall l h, find_node l h = None -> ~ In h (hashes l).
Proof.
  intros l h E Hin. destruct (find_node_in l h Hin) as [n F]. congruence.
Qed.

(* updates that keep hash and kids *)
Definition keeps (g : cnode -> cnode) : Prop := forall c, cn_hash (g c) = cn_hash c /\ cn_kids (g c) = cn_kids c.

Lemma update_hashes : forall l h g, keeps g -> hashes (update_node l h g) = hashes l.
Proof.
  induction l as [|c r IH]; intros h g Hg; [reflexivity|]. cbn.
  destruct (list_eqb (cn_hash c) h); cbn; [destruct (Hg c) as [-> _]; reflexivity|rewrite IH by exact Hg; reflexivity].
Qed.

Lemma update_refsD : forall D l h g y, keeps g -> refsD D (update_node l h g) y = refsD D l y.
Proof.
  induction l as [|c r IH]; intros h g y Hg; [reflexivity|]. cbn.
  destruct (list_eqb (cn_hash c) h); cbn; [destruct (Hg c) as [-> ->]; reflexivity|rewrite IH by exact Hg; reflexivity].
Qed.

Lemma update_length : forall l h g, length (update_node l h g) = length l.
Proof. induction l as [|c r IH]; intros; [reflexivity|]. cbn. destruct (list_eqb _ _); cbn; [reflexivity|rewrite IH; reflexivity]. Qed.

Lemma find_update_same : forall l h g n, keeps g -> find_node l h = Some n -> find_node (update_node l h g) h = Some (g n).
Proof.
  induction l as [|c r IH]; intros h g n Hg E; cbn in *; [discriminate|].
  destruct (list_eqb (cn_hash c) h) eqn:Eh.
  - injection E as <-. cbn. destruct (Hg c) as [-> _]. rewrite Eh. reflexivity.
  - cbn. rewrite Eh. apply IH; assumption.
Qed.

Lemma find_update_other : forall l h h' g, keeps g -> h <> h' -> find_node (update_node l h g) h' = find_node l h'.
Proof.
  induction l as [|c r IH]; intros h h' g Hg Hne; [reflexivity|]. cbn.
  destruct (list_eqb (cn_hash c) h) eqn:Eh.
  - cbn. destruct (Hg c) as [-> _]. apply list_eqb_eq in Eh. rewrite Eh.
    assert (list_eqb h h' = false) as -> by (apply list_eqb_neq; exact Hne). reflexivity.
  - cbn. destruct (list_eqb (cn_hash c) h'); [reflexivity|apply IH; assumption].
Qed.

Lemma in_update : forall l h g x, In x (update_node l h g) -> In x l \/ exists n, In n l /\ x = g n.
Proof.
  induction l as [|c r IH]; intros h g x Hin; [destruct Hin|]. cbn in Hin.
  destruct (list_eqb (cn_hash c) h).
  - destruct Hin as [<-|Hin]; [right; exists c; split; [left; reflexivity|reflexivity]|left; right; exact Hin].
  - destruct Hin as [<-|Hin]; [left; left; reflexivity|].
    destruct (IH _ _ _ Hin) as [A|[n [A B]]]; [left; right; exact A|right; exists n; split; [right; exact A|exact B]].
Qed.

Lemma remove_hashes_in : forall l h y, In y (hashes (remove_node l h)) -> In y (hashes l).
Proof.
  induction l as [|c r IH]; intros h y Hin; [destruct Hin|]. cbn in Hin.
  destruct (list_eqb (cn_hash c) h); [right; exact Hin|].
  destruct Hin as [E|Hin]; [left; exact E|right; eapply IH; exact Hin].
Qed.

Lemma remove_hashes_keep : forall l h y, In y (hashes l) -> y <> h -> In y (hashes (remove_node l h)).
Proof.
  induction l as [|c r IH]; intros h y Hin Hne; [destruct Hin|]. cbn.
  destruct (list_eqb (cn_hash c) h) eqn:Eh.
  - apply list_eqb_eq in Eh. destruct Hin as [E|Hin]; [congruence|exact Hin].
  - destruct Hin as [E|Hin]; [left; exact E|right; apply IH; assumption].
Qed.

Lemma remove_nodup : forall l h, NoDup (hashes l) -> NoDup (hashes (remove_node l h)) /\ ~ In h (hashes (remove_node l h)).
Proof.
  induction l as [|c r IH]; intros h Hn; [split; [constructor|intros []]|]. cbn in Hn. inversion Hn as [|? ? Hnot Hr]; subst. cbn.
  destruct (list_eqb (cn_hash c) h) eqn:Eh.
  - apply list_eqb_eq in Eh. subst h. split; assumption.
  - apply list_eqb_neq in Eh. destruct (IH h Hr) as [A B]. split.
    + cbn. constructor; [|exact A]. intro Hin. apply Hnot. eapply remove_hashes_in. exact Hin.
    + intros [E|Hin]; [congruence|contradiction].
Qed.

Lemma in_remove : forall l h x, In x (remove_node l h) -> In x l.
Proof.
  induction l as [|c r IH]; intros h x Hin; [destruct Hin|]. cbn in Hin.
  destruct (list_eqb (cn_hash c) h); [right; exact Hin|destruct Hin as [<-|Hin]; [left; reflexivity|right; eapply IH; exact Hin]].
Qed.

Lemma remove_length : forall l h, (length (remove_node l h) <= length l)%nat.
Proof. induction l as [|c r IH]; intro h; [cbn; lia|]. cbn. destruct (list_eqb _ _); cbn; [lia|specialize (IH h); lia]. Qed.

(* removing a node that is in D does not change the references counted outside D *)
Lemma remove_refsD : forall D l h y, In h D -> refsD D (remove_node l h) y = refsD D l y.
Proof.
  induction l as [|c r IH]; intros h y Hin; [reflexivity|]. cbn.
  destruct (list_eqb (cn_hash c) h) eqn:Eh.
  - apply list_eqb_eq in Eh. subst h. apply inD_spec in Hin. rewrite Hin. reflexivity.
  - cbn. rewrite IH by exact Hin. reflexivity.
Qed.

(* moving one live node c into D removes exactly its references *)
Lemma refsD_add : forall D l c n y, NoDup (hashes l) -> find_node l c = Some n -> inD D c = false ->
  (refsD (c :: D) l y + cnt y (cn_kids n) = refsD D l y)%nat.
Proof.
  induction l as [|x r IH]; intros c n y Hn Hf HD; cbn in Hf; [discriminate|].
  cbn in Hn. inversion Hn as [|? ? Hnot Hr]; subst. cbn [refsD]. unfold inD at 1. cbn [existsb].
  destruct (list_eqb (cn_hash x) c) eqn:Eh.
  - injection Hf as <-. apply list_eqb_eq in Eh. subst c. cbn [orb]. rewrite HD.
    assert (refsD (cn_hash x :: D) r y = refsD D r y) as ->; [|lia].
    clear -Hnot. induction r as [|z r IHr]; [reflexivity|]. cbn [refsD]. unfold inD at 1. cbn [existsb].
    assert (list_eqb (cn_hash z) (cn_hash x) = false) as ->.
    { apply list_eqb_neq. intro E. apply Hnot. left. exact E. }
    cbn [orb]. fold (inD D (cn_hash z)). rewrite IHr; [reflexivity|]. intro Hin. apply Hnot. right. exact Hin.
  - cbn [orb]. fold (inD D (cn_hash x)). specialize (IH c n y Hr Hf HD). lia.
Qed.

Lemma refsD_mono : forall D l c y, (refsD (c :: D) l y <= refsD D l y)%nat.
Proof.
  induction l as [|x r IH]; intros c y; [cbn; lia|]. cbn [refsD]. unfold inD at 1. cbn [existsb].
  specialize (IH c y). destruct (list_eqb (cn_hash x) c); cbn [orb]; fold (inD D (cn_hash x)); destruct (inD D (cn_hash x)); lia.
Qed.

Lemma refsD_ge_cnt : forall D l n y, In n l -> inD D (cn_hash n) = false -> (cnt y (cn_kids n) <= refsD D l y)%nat.
Proof.
  induction l as [|x r IH]; intros n y Hin HD; [destruct Hin|]. cbn [refsD].
  destruct Hin as [->|Hin]; [rewrite HD; lia|]. specialize (IH n y Hin HD). lia.
Qed.

(* ---- the explicit-children map of the meta root -------------------------------- *)

Lemma ext_get_notin : forall l h, ~ In h (map fst l) -> ext_get l h = 0.
Proof.
  induction l as [|[k c0] r IH]; intros h Hn; [reflexivity|]. cbn in *.
  destruct (list_eqb k h) eqn:E; [apply list_eqb_eq in E; subst; tauto|apply IH; tauto].
Qed.

Lemma ext_set_keys : forall l h c y, In y (map fst (ext_set l h c)) -> y = h \/ In y (map fst l).
Proof.
  induction l as [|[k c0] r IH]; intros h c y Hin; cbn in Hin.
  - destruct (N.eqb c 0); cbn in Hin; [destruct Hin|destruct Hin as [<-|[]]; left; reflexivity].
  - destruct (list_eqb k h) eqn:E.
    + apply list_eqb_eq in E. subst k. destruct (N.eqb c 0); cbn in *.
      * right. right. exact Hin.
      * destruct Hin as [<-|Hin]; [left; reflexivity|right; right; exact Hin].
    + cbn in *. destruct Hin as [<-|Hin]; [right; left; reflexivity|].
      destruct (IH _ _ _ Hin) as [A|A]; [left; exact A|right; right; exact A].
Qed.

Lemma ext_set_nodup : forall l h c, NoDup (map fst l) -> NoDup (map fst (ext_set l h c)).
Proof.
  induction l as [|[k c0] r IH]; intros h c Hn; cbn.
  - destruct (N.eqb c 0); cbn; [constructor|constructor; [intros []|constructor]].
  - cbn in Hn. inversion Hn as [|? ? Hnot Hr]; subst. destruct (list_eqb k h) eqn:E.
    + destruct (N.eqb c 0); cbn; [exact Hr|constructor; assumption].
    + cbn. constructor; [|apply IH; exact Hr]. intro Hin. apply ext_set_keys in Hin.
      destruct Hin as [->|Hin]; [rewrite list_eqb_refl in E; discriminate|contradiction].
Qed.

Lemma ext_get_set_same : forall l h c, NoDup (map fst l) -> ext_get (ext_set l h c) h = c.
Proof.
  induction l as [|[k c0] r IH]; intros h c Hn; cbn.
  - destruct (N.eqb c 0) eqn:E; cbn; [apply N.eqb_eq in E; congruence|rewrite list_eqb_refl; reflexivity].
  - cbn in Hn. inversion Hn as [|? ? Hnot Hr]; subst. destruct (list_eqb k h) eqn:Eh.
    + apply list_eqb_eq in Eh. subst k. destruct (N.eqb c 0) eqn:E.
      * apply N.eqb_eq in E. subst c. apply ext_get_notin. exact Hnot.
      * cbn. rewrite list_eqb_refl. reflexivity.
    + cbn. rewrite Eh. apply IH. exact Hr.
Qed.

Lemma ext_get_set_other : forall l h c y, y <> h -> ext_get (ext_set l h c) y = ext_get l y.
Proof.
  induction l as [|[k c0] r IH]; intros h c y Hne; cbn.
  - destruct (N.eqb c 0); cbn; [reflexivity|].
    assert (list_eqb h y = false) as -> by (apply list_eqb_neq; congruence). reflexivity.
  - destruct (list_eqb k h) eqn:Eh.
    + apply list_eqb_eq in Eh. subst k.
      assert (list_eqb h y = false) as Ehy by (apply list_eqb_neq; congruence).
      destruct (N.eqb c 0); cbn; rewrite ?Ehy; reflexivity.
    + cbn. destruct (list_eqb k y); [reflexivity|apply IH; exact Hne].
Qed.


Lemma find_remove_same : forall l h, NoDup (hashes l) -> find_node (remove_node l h) h = None.
Proof.
  intros l h Hn. destruct (find_node (remove_node l h) h) eqn:E; [|reflexivity].
  apply find_node_some in E. destruct E as [A B]. exfalso.
  destruct (remove_nodup l h Hn) as [_ Hnot]. apply Hnot. subst h. apply in_map. exact A.
Qed.

Lemma find_remove_other : forall l h y, y <> h -> find_node (remove_node l h) y = find_node l y.
Proof.
  induction l as [|c r IH]; intros h y Hne; [reflexivity|]. cbn.
  destruct (list_eqb (cn_hash c) h) eqn:Eh.
  - apply list_eqb_eq in Eh. assert (list_eqb (cn_hash c) y = false) as -> by (apply list_eqb_neq; congruence). reflexivity.
  - cbn. destruct (list_eqb (cn_hash c) y); [reflexivity|apply IH; exact Hne].
Qed.

Lemma refsD_ge_cnt_find : forall D l y n z, find_node l y = Some n -> inD D y = false -> (cnt z (cn_kids n) <= refsD D l z)%nat.
Proof.
  intros D l y n z Hf HD. destruct (find_node_some _ _ _ Hf) as [A B]. apply refsD_ge_cnt; [exact A|rewrite B; exact HD].
Qed.

Lemma refsD_cons_notin : forall D l c y, ~ In c (hashes l) -> refsD (c :: D) l y = refsD D l y.
Proof.
  induction l as [|z r IH]; intros c y Hnot; [reflexivity|]. cbn [refsD]. unfold inD at 1. cbn [existsb].
  assert (list_eqb (cn_hash z) c = false) as ->.
  { apply list_eqb_neq. intro E. apply Hnot. left. exact E. }
  cbn [orb]. fold (inD D (cn_hash z)). rewrite IH; [reflexivity|]. intro Hin. apply Hnot. right. exact Hin.
Qed.

(* ---- the invariant ------------------------------------------------------------- *)

(* D: nodes whose deletion is in progress (parents = 0, cascade running);
   pend y: releases of y that the running cascades still owe *)
Record Inv (D : list bytes) (pend : bytes -> nat) (s : dbstate) : Prop := mkInv {
  i_nodup : NoDup (hashes (db_nodes s));
  i_shape : forall y n, find_node (db_nodes s) y = Some n -> cn_ext n = [] /\ y <> [];
  i_meta_nodup : NoDup (map fst (db_meta s));
  i_D_nodup : NoDup D;
  i_D_in : forall d, In d D -> In d (hashes (db_nodes s));
  i_count : forall y n, find_node (db_nodes s) y = Some n -> inD D y = false ->
            (refsD D (db_nodes s) y + N.to_nat (ext_get (db_meta s) y) + pend y <= N.to_nat (cn_parents n))%nat;
  i_dying : forall d, In d D -> refsD D (db_nodes s) d = 0%nat /\ ext_get (db_meta s) d = 0 /\ pend d = 0%nat;
  i_closed : forall y n k, find_node (db_nodes s) y = Some n -> inD D y = false -> In k (cn_kids n) ->
             In k (hashes (db_nodes s));
  i_pend : forall y, (1 <= pend y)%nat -> In y (hashes (db_nodes s));
  i_meta : forall y, 0 < ext_get (db_meta s) y -> In y (hashes (db_nodes s))
}.

Lemma Inv_ext : forall D p p' s, (forall y, p y = p' y) -> Inv D p s -> Inv D p' s.
Proof.
  intros D p p' s E [A B C D1 D2 F G H1 I1 J]. constructor; try assumption.
  - intros y n Hf Hd. rewrite <- E. apply F; assumption.
  - intros d Hd. rewrite <- E. apply G. exact Hd.
  - intros y Hy. rewrite <- E in Hy. apply I1. exact Hy.
Qed.

(* the pending function after releasing y once / after owing the kids of a node *)
Definition pdec (p : bytes -> nat) (y : bytes) : bytes -> nat :=
  fun z => if list_eqb y z then (p z - 1)%nat else p z.
Definition padd (p : bytes -> nat) (ks : list bytes) : bytes -> nat :=
  fun z => (p z + cnt z ks)%nat.

(* the part of db_deref after the explicit reference has been dropped *)
Definition deref_rest (f : nat) (s1 : dbstate) (child : bytes) : dbstate :=
  match find_node (db_nodes s1) child with
  | None => s1
  | Some n =>
    let p' := if N.ltb 0 (cn_parents n) then cn_parents n - 1 else 0 in
    let s2 := mkDb (update_node (db_nodes s1) child (fun x => mkC (cn_hash x) (cn_kids x) (cn_size x) p' (cn_ext x)))
                   (db_meta s1) (db_disk s1) in
    if N.eqb p' 0 then
      let s3 := fold_left (fun st k => db_deref f st k child) (map fst (cn_ext n) ++ cn_kids n) s2 in
      mkDb (remove_node (db_nodes s3) child) (db_meta s3) (db_disk s3)
    else s2
  end.

Lemma db_deref_nested : forall f s child parent pn,
  parent <> [] -> find_node (db_nodes s) parent = Some pn -> cn_ext pn = [] ->
  db_deref (S f) s child parent = deref_rest f s child.
Proof.
  intros f s child parent pn Hne Hf He. cbn [db_deref]. destruct parent as [|b parent]; [congruence|].
  rewrite Hf, He. reflexivity.
Qed.

Definition spec_at (f : nat) : Prop :=
  forall D pend s child, Inv D pend s -> (1 <= pend child)%nat -> inD D child = false ->
    (length (db_nodes s) <= f + length D)%nat ->
    let s' := deref_rest f s child in
    Inv D (pdec pend child) s' /\ db_meta s' = db_meta s /\ (length (db_nodes s') <= length (db_nodes s))%nat /\
    (forall d, In d D -> find_node (db_nodes s') d = find_node (db_nodes s) d).

Lemma keeps_parents : forall p', keeps (fun x => mkC (cn_hash x) (cn_kids x) (cn_size x) p' (cn_ext x)).
Proof. intros p' c. split; reflexivity. Qed.

(* releasing the kids of a dying node one after the other *)
Lemma fold_spec : forall f, spec_at f -> forall ks D pend s c cn,
  Inv D (padd pend ks) s -> In c D -> find_node (db_nodes s) c = Some cn ->
  (length (db_nodes s) <= f + length D)%nat ->
  let s' := fold_left (fun st k => db_deref (S f) st k c) ks s in
  Inv D pend s' /\ db_meta s' = db_meta s /\ (length (db_nodes s') <= length (db_nodes s))%nat /\
  (forall d, In d D -> find_node (db_nodes s') d = find_node (db_nodes s) d).
Proof.
  intros f Hspec ks. induction ks as [|k ks IH]; intros D pend s c cn HI Hc Hfc Hlen; cbn [fold_left].
  - split; [apply (Inv_ext D (padd pend [])); [intro y; unfold padd; cbn; lia|exact HI]|]. split; [reflexivity|]. split; [lia|reflexivity].
  - destruct (i_shape _ _ _ HI c cn Hfc) as [Hext Hcne].
    rewrite (db_deref_nested f s k c cn Hcne Hfc Hext).
    assert (1 <= padd pend (k :: ks) k)%nat as Hpk by (unfold padd; cbn [cnt]; rewrite list_eqb_refl; lia).
    assert (inD D k = false) as HDk.
    { apply inD_false. intro Hin. destruct (i_dying _ _ _ HI k Hin) as [_ [_ Hz]]. lia. }
    destruct (Hspec D (padd pend (k :: ks)) s k HI Hpk HDk Hlen) as [HI1 [Hm1 [Hl1 Hd1]]]. cbv zeta in *.
    set (s1 := deref_rest f s k) in *.
    assert (Inv D (padd pend ks) s1) as HI1'.
    { apply (Inv_ext D (pdec (padd pend (k :: ks)) k)); [|exact HI1]. intro y. unfold pdec, padd. cbn [cnt].
      destruct (list_eqb k y); lia. }
    destruct (IH D pend s1 c cn HI1') as [HI2 [Hm2 [Hl2 Hd2]]]; [exact Hc|rewrite (Hd1 c Hc); exact Hfc|lia|].
    cbv zeta in *. split; [exact HI2|]. split; [congruence|]. split; [lia|].
    intros d Hd. rewrite (Hd2 d Hd). apply Hd1. exact Hd.
Qed.

Lemma spec_zero : spec_at 0.
Proof.
  intros D pend s child HI Hp HD Hlen. exfalso.
  assert (NoDup (child :: D)) as Hn by (constructor; [apply inD_false; exact HD|exact (i_D_nodup _ _ _ HI)]).
  assert (incl (child :: D) (hashes (db_nodes s))) as Hi.
  { intros d [<-|Hd]; [apply (i_pend _ _ _ HI); exact Hp|apply (i_D_in _ _ _ HI); exact Hd]. }
  pose proof (NoDup_incl_length Hn Hi) as Hle. unfold hashes in Hle. rewrite map_length in Hle. cbn [length] in Hle. lia.
Qed.

Lemma spec_step : forall f, spec_at f -> spec_at (S f).
Proof.
  intros f IHf D pend s child HI Hp HD Hlen. cbv zeta. unfold deref_rest.
  pose proof HI as [Hnd Hshape Hmnd HDnd HDin Hcount Hdying Hclosed Hpend Hmeta].
  destruct (find_node_in _ _ (Hpend child Hp)) as [n Hfind]. rewrite Hfind.
  pose proof (Hcount child n Hfind HD) as Hc.
  destruct (Hshape child n Hfind) as [Hnext Hchne].
  assert (N.ltb 0 (cn_parents n) = true) as -> by lia.
  set (p' := cn_parents n - 1).
  set (g := fun x => mkC (cn_hash x) (cn_kids x) (cn_size x) p' (cn_ext x)).
  assert (keeps g) as Hg by (apply keeps_parents).
  set (nodes2 := update_node (db_nodes s) child g).
  assert (hashes nodes2 = hashes (db_nodes s)) as Hh2 by (apply update_hashes; exact Hg).
  assert (forall E y, refsD E nodes2 y = refsD E (db_nodes s) y) as Hr2 by (intros E y; apply update_refsD; exact Hg).
  assert (find_node nodes2 child = Some (g n)) as Hf2 by (apply find_update_same; assumption).
  assert (forall y, y <> child -> find_node nodes2 y = find_node (db_nodes s) y) as Hf2o.
  { intros y Hne. apply find_update_other; [exact Hg|congruence]. }
  assert (forall d, In d D -> d <> child) as HDne by (intros d Hd E; subst d; apply inD_false in HD; contradiction).
  (* the state after the decrement, for any set E of dying nodes and pending function q that agree on the facts below *)
  destruct (N.eqb p' 0) eqn:Ep.
  - (* the count reached zero: cascade *)
    apply N.eqb_eq in Ep.
    assert (refsD D (db_nodes s) child = 0%nat /\ ext_get (db_meta s) child = 0 /\ pend child = 1%nat) as [Hr0 [Hm0 Hp1]] by (unfold p' in Ep; lia).
    rewrite Hnext. cbn [map app].
    set (D' := child :: D).
    set (s2 := mkDb nodes2 (db_meta s) (db_disk s)).
    assert (forall y, refsD D' nodes2 y + cnt y (cn_kids n) = refsD D (db_nodes s) y)%nat as Hadd.
    { intro y. rewrite Hr2. apply refsD_add; assumption. }
    assert (Inv D' (padd (pdec pend child) (cn_kids n)) s2) as HI2.
    { constructor; cbn [db_nodes db_meta s2].
      - rewrite Hh2. exact Hnd.
      - intros y m Hfm. destruct (list_eq_dec N.eq_dec y child) as [->|Hne].
        + rewrite Hf2 in Hfm. injection Hfm as <-. cbn. split; assumption.
        + rewrite Hf2o in Hfm by exact Hne. apply (Hshape y m Hfm).
      - exact Hmnd.
      - constructor; [apply inD_false; exact HD|exact HDnd].
      - intros d [<-|Hd]; rewrite Hh2; [apply Hpend; exact Hp|apply HDin; exact Hd].
      - intros y m Hfm HDy. unfold D' in HDy. apply inD_false in HDy.
        assert (y <> child) as Hne by (intro E; apply HDy; left; symmetry; exact E).
        assert (inD D y = false) as HDy' by (apply inD_false; intro Hin; apply HDy; right; exact Hin).
        rewrite Hf2o in Hfm by exact Hne. pose proof (Hcount y m Hfm HDy') as Hcy.
        pose proof (Hadd y). unfold padd, pdec.
        assert (list_eqb child y = false) as -> by (apply list_eqb_neq; congruence). lia.
      - intros d Hd. unfold padd, pdec. destruct Hd as [<-|Hd].
        + rewrite list_eqb_refl. pose proof (Hadd child). repeat split; lia.
        + destruct (Hdying d Hd) as [A [B C]]. pose proof (Hadd d).
          assert (list_eqb child d = false) as -> by (apply list_eqb_neq; intro E; apply (HDne d Hd); symmetry; exact E).
          repeat split; [lia|exact B|lia].
      - intros y m k Hfm HDy Hk. unfold D' in HDy. apply inD_false in HDy.
        assert (y <> child) as Hne by (intro E; apply HDy; left; symmetry; exact E).
        assert (inD D y = false) as HDy' by (apply inD_false; intro Hin; apply HDy; right; exact Hin).
        rewrite Hf2o in Hfm by exact Hne. rewrite Hh2. apply (Hclosed y m k Hfm HDy' Hk).
      - intros y Hy. rewrite Hh2. unfold padd, pdec in Hy.
        destruct (Nat.eq_dec (cnt y (cn_kids n)) 0) as [Ez|Ez].
        + apply Hpend. destruct (list_eqb child y); lia.
        + apply (Hclosed child n y Hfind HD). apply cnt_pos_in. lia.
      - intros y Hy. rewrite Hh2. apply Hmeta. exact Hy. }
    assert (length (db_nodes s2) <= f + length D')%nat as Hlen2.
    { cbn [db_nodes s2 length D']. unfold nodes2. rewrite update_length. lia. }
    destruct (fold_spec f IHf (cn_kids n) D' (pdec pend child) s2 child (g n) HI2 ltac:(left; reflexivity) Hf2 Hlen2)
      as [HI3 [Hm3 [Hl3 Hd3]]]. cbv zeta in *.
    set (s3 := fold_left (fun st k => db_deref (S f) st k child) (cn_kids n) s2) in *.
    pose proof HI3 as [Hnd3 Hshape3 Hmnd3 HDnd3 HDin3 Hcount3 Hdying3 Hclosed3 Hpend3 Hmeta3].
    assert (forall y, refsD D (remove_node (db_nodes s3) child) y = refsD D' (db_nodes s3) y) as Hrr.
    { intro y. destruct (remove_nodup (db_nodes s3) child Hnd3) as [_ Hnot].
      rewrite <- (refsD_cons_notin D _ child y Hnot). apply remove_refsD. left. reflexivity. }
    assert (find_node (db_nodes s3) child = Some (g n)) as Hf3 by (rewrite (Hd3 child ltac:(left; reflexivity)); exact Hf2).
    split; [|split; [|split]].
    + constructor; cbn [db_nodes db_meta].
      * apply remove_nodup. exact Hnd3.
      * intros y m Hfm. destruct (list_eq_dec N.eq_dec y child) as [->|Hne].
        -- rewrite find_remove_same in Hfm by exact Hnd3. discriminate.
        -- rewrite find_remove_other in Hfm by exact Hne. apply (Hshape3 y m Hfm).
      * exact Hmnd3.
      * exact HDnd.
      * intros d Hd. apply remove_hashes_keep; [apply HDin3; right; exact Hd|apply HDne; exact Hd].
      * intros y m Hfm HDy. destruct (list_eq_dec N.eq_dec y child) as [->|Hne].
        -- rewrite find_remove_same in Hfm by exact Hnd3. discriminate.
        -- rewrite find_remove_other in Hfm by exact Hne. rewrite Hrr.
           apply (Hcount3 y m Hfm). apply inD_false. intros [E|Hin]; [congruence|]. apply inD_false in HDy. contradiction.
      * intros d Hd. rewrite Hrr. apply Hdying3. right. exact Hd.
      * intros y m k Hfm HDy Hk. destruct (list_eq_dec N.eq_dec y child) as [->|Hne].
        -- rewrite find_remove_same in Hfm by exact Hnd3. discriminate.
        -- rewrite find_remove_other in Hfm by exact Hne.
           assert (inD D' y = false) as HDy' by (apply inD_false; intros [E|Hin]; [congruence|]; apply inD_false in HDy; contradiction).
           apply remove_hashes_keep; [apply (Hclosed3 y m k Hfm HDy' Hk)|].
           intro E. subst k. destruct (Hdying3 child ltac:(left; reflexivity)) as [Hz _].
           pose proof (refsD_ge_cnt_find D' _ y m child Hfm HDy') as Hge. apply cnt_pos_in in Hk. lia.
      * intros y Hy. apply remove_hashes_keep; [apply Hpend3; exact Hy|].
        intro E. subst y. destruct (Hdying3 child ltac:(left; reflexivity)) as [_ [_ Hz]]. lia.
      * intros y Hy. apply remove_hashes_keep; [apply Hmeta3; exact Hy|].
        intro E. subst y. destruct (Hdying3 child ltac:(left; reflexivity)) as [_ [Hz _]]. lia.
    + cbn [db_meta]. rewrite Hm3. reflexivity.
    + cbn [db_nodes]. pose proof (remove_length (db_nodes s3) child). cbn [db_nodes s2] in Hl3. unfold nodes2 in Hl3. rewrite update_length in Hl3. lia.
    + intros d Hd. cbn [db_nodes]. rewrite find_remove_other by (apply HDne; exact Hd).
      rewrite (Hd3 d ltac:(right; exact Hd)). cbn [db_nodes s2]. apply Hf2o. apply HDne. exact Hd.
  - (* still referenced: only the count changes *)
    apply N.eqb_neq in Ep. split; [|split; [|split]].
    + constructor; cbn [db_nodes db_meta].
      * rewrite Hh2. exact Hnd.
      * intros y m Hfm. destruct (list_eq_dec N.eq_dec y child) as [->|Hne].
        -- rewrite Hf2 in Hfm. injection Hfm as <-. cbn. split; assumption.
        -- rewrite Hf2o in Hfm by exact Hne. apply (Hshape y m Hfm).
      * exact Hmnd.
      * exact HDnd.
      * intros d Hd. rewrite Hh2. apply HDin. exact Hd.
      * intros y m Hfm HDy. rewrite Hr2. unfold pdec. destruct (list_eq_dec N.eq_dec y child) as [->|Hne].
        -- rewrite Hf2 in Hfm. injection Hfm as <-. cbn [cn_parents g]. rewrite list_eqb_refl. unfold p'. lia.
        -- rewrite Hf2o in Hfm by exact Hne. assert (list_eqb child y = false) as -> by (apply list_eqb_neq; congruence).
           apply (Hcount y m Hfm HDy).
      * intros d Hd. rewrite Hr2. unfold pdec.
        assert (list_eqb child d = false) as -> by (apply list_eqb_neq; intro E; apply (HDne d Hd); symmetry; exact E).
        apply Hdying. exact Hd.
      * intros y m k Hfm HDy Hk. rewrite Hh2. destruct (list_eq_dec N.eq_dec y child) as [->|Hne].
        -- rewrite Hf2 in Hfm. injection Hfm as <-. cbn in Hk. apply (Hclosed child n k Hfind HDy Hk).
        -- rewrite Hf2o in Hfm by exact Hne. apply (Hclosed y m k Hfm HDy Hk).
      * intros y Hy. rewrite Hh2. apply Hpend. unfold pdec in Hy. destruct (list_eqb child y); lia.
      * intros y Hy. rewrite Hh2. apply Hmeta. exact Hy.
    + reflexivity.
    + cbn [db_nodes]. unfold nodes2. rewrite update_length. lia.
    + intros d Hd. cbn [db_nodes]. apply Hf2o. apply HDne. exact Hd.
Qed.

Lemma spec_all : forall f, spec_at f.
Proof. induction f as [|f IH]; [apply spec_zero|apply spec_step; exact IH]. Qed.

(* ---- the operations of the memory-only fragment --------------------------------- *)

Definition zero_pend : bytes -> nat := fun _ => 0%nat.
Definition Inv0 (s : dbstate) : Prop := Inv [] zero_pend s.

Lemma Inv0_empty : Inv0 db_empty.
Proof.
  constructor; cbn; try (intros; contradiction); try constructor; try discriminate.
  all: intros y Hy; unfold zero_pend in *; lia.
Qed.

Lemma db_deref_meta : forall f s root,
  db_deref (S f) s root [] =
  deref_rest f (let c := ext_get (db_meta s) root in
                if N.ltb 0 c then mkDb (db_nodes s) (ext_set (db_meta s) root (c - 1)) (db_disk s) else s) root.
Proof. reflexivity. Qed.

Lemma deref_top : forall s root, Inv0 s -> root <> [] -> 0 < ext_get (db_meta s) root -> Inv0 (db_dereference s root).
Proof.
  intros s root HI Hne Hm. unfold db_dereference. destruct root as [|b r] eqn:Er; [congruence|]. rewrite <- Er in *. clear Er b r.
  rewrite db_deref_meta. cbv zeta. assert (N.ltb 0 (ext_get (db_meta s) root) = true) as -> by lia.
  set (c := ext_get (db_meta s) root) in *.
  set (s1 := mkDb (db_nodes s) (ext_set (db_meta s) root (c - 1)) (db_disk s)).
  set (pend1 := fun z : bytes => if list_eqb root z then 1%nat else 0%nat).
  pose proof HI as [Hnd Hshape Hmnd HDnd HDin Hcount Hdying Hclosed Hpend Hmeta].
  assert (Inv [] pend1 s1) as HI1.
  { constructor; cbn [db_nodes db_meta s1]; try assumption.
    - apply ext_set_nodup. exact Hmnd.
    - intros y n Hf HD. unfold pend1. destruct (list_eqb root y) eqn:E.
      + apply list_eqb_eq in E. subst y. rewrite ext_get_set_same by exact Hmnd.
        pose proof (Hcount root n Hf HD). unfold zero_pend in *. fold c in H. lia.
      + apply list_eqb_neq in E. rewrite ext_get_set_other by congruence. pose proof (Hcount y n Hf HD). unfold zero_pend in *. lia.
    - intros d [].
    - intros y Hy. unfold pend1 in Hy. destruct (list_eqb root y) eqn:E; [|lia]. apply list_eqb_eq in E. subst y. apply Hmeta. exact Hm.
    - intros y Hy. destruct (list_eq_dec N.eq_dec y root) as [->|E].
      + apply Hmeta. exact Hm.
      + rewrite ext_get_set_other in Hy by exact E. apply Hmeta. exact Hy. }
  destruct (spec_all (length (db_nodes s)) [] pend1 s1 root HI1) as [HI2 _].
  - unfold pend1. rewrite list_eqb_refl. lia.
  - reflexivity.
  - cbn. lia.
  - apply (Inv_ext [] (pdec pend1 root)); [|exact HI2]. intro y. unfold pdec, pend1, zero_pend. destruct (list_eqb root y); reflexivity.
Qed.

Lemma keeps_bump : forall d, keeps (bump d).
Proof. intros d c. split; reflexivity. Qed.

Lemma reference_top : forall s child, Inv0 s -> Inv0 (db_reference s child []).
Proof.
  intros s child HI. unfold db_reference. destruct (find_node (db_nodes s) child) as [n|] eqn:Hf; [|exact HI].
  pose proof HI as [Hnd Hshape Hmnd HDnd HDin Hcount Hdying Hclosed Hpend Hmeta].
  assert (hashes (update_node (db_nodes s) child (bump 1)) = hashes (db_nodes s)) as Hh by (apply update_hashes, keeps_bump).
  constructor; cbn [db_nodes db_meta].
  - rewrite Hh. exact Hnd.
  - intros y m Hfm. destruct (list_eq_dec N.eq_dec y child) as [->|Hne].
    + rewrite (find_update_same _ _ _ n (keeps_bump 1) Hf) in Hfm. injection Hfm as <-. cbn. apply (Hshape child n Hf).
    + rewrite find_update_other in Hfm by (try apply keeps_bump; congruence). apply (Hshape y m Hfm).
  - apply ext_set_nodup. exact Hmnd.
  - constructor.
  - intros d [].
  - intros y m Hfm HD. rewrite update_refsD by apply keeps_bump. destruct (list_eq_dec N.eq_dec y child) as [->|Hne].
    + rewrite (find_update_same _ _ _ n (keeps_bump 1) Hf) in Hfm. injection Hfm as <-. cbn [bump cn_parents].
      rewrite ext_get_set_same by exact Hmnd. pose proof (Hcount child n Hf HD). lia.
    + rewrite find_update_other in Hfm by (try apply keeps_bump; congruence). rewrite ext_get_set_other by exact Hne. apply (Hcount y m Hfm HD).
  - intros d [].
  - intros y m k Hfm HD Hk. rewrite Hh. destruct (list_eq_dec N.eq_dec y child) as [->|Hne].
    + rewrite (find_update_same _ _ _ n (keeps_bump 1) Hf) in Hfm. injection Hfm as <-. cbn in Hk. apply (Hclosed child n k Hf HD Hk).
    + rewrite find_update_other in Hfm by (try apply keeps_bump; congruence). apply (Hclosed y m k Hfm HD Hk).
  - intros y Hy. unfold zero_pend in Hy. lia.
  - intros y Hy. rewrite Hh. destruct (list_eq_dec N.eq_dec y child) as [->|Hne].
    + destruct (find_node_some _ _ _ Hf) as [A B]. rewrite <- B. apply in_map. exact A.
    + rewrite ext_get_set_other in Hy by exact Hne. apply Hmeta. exact Hy.
Qed.

(* bumping the parents of every kid occurrence *)
Lemma bump_fold_hashes : forall kids l, hashes (fold_left (fun l k => update_node l k (bump 1)) kids l) = hashes l.
Proof. induction kids as [|k r IH]; intro l; cbn [fold_left]; [reflexivity|]. rewrite IH. apply update_hashes, keeps_bump. Qed.

Lemma bump_fold_refs : forall D kids l y, refsD D (fold_left (fun l k => update_node l k (bump 1)) kids l) y = refsD D l y.
Proof. intros D kids. induction kids as [|k r IH]; intros l y; cbn [fold_left]; [reflexivity|]. rewrite IH. apply update_refsD, keeps_bump. Qed.

Lemma bump_fold_find : forall kids l y n, find_node l y = Some n ->
  exists n', find_node (fold_left (fun l k => update_node l k (bump 1)) kids l) y = Some n' /\
             cn_kids n' = cn_kids n /\ cn_ext n' = cn_ext n /\ cn_parents n' = cn_parents n + N.of_nat (cnt y kids).
Proof.
  induction kids as [|k r IH]; intros l y n Hf; cbn [fold_left].
  - exists n. repeat split; [exact Hf|cbn; lia].
  - destruct (list_eq_dec N.eq_dec k y) as [->|Hne].
    + destruct (IH (update_node l y (bump 1)) y (bump 1 n) (find_update_same _ _ _ n (keeps_bump 1) Hf)) as [n' [A [B [C E]]]].
      exists n'. repeat split; try assumption. cbn [cnt]. rewrite list_eqb_refl. rewrite E. cbn. lia.
    + destruct (IH (update_node l k (bump 1)) y n) as [n' [A [B [C E]]]].
      { rewrite find_update_other by (try apply keeps_bump; exact Hne). exact Hf. }
      exists n'. repeat split; try assumption. cbn [cnt].
      assert (list_eqb k y = false) as -> by (apply list_eqb_neq; exact Hne). rewrite E. lia.
Qed.

Lemma refsD_app : forall D l1 l2 y, refsD D (l1 ++ l2) y = (refsD D l1 y + refsD D l2 y)%nat.
Proof. induction l1 as [|x r IH]; intros; cbn [app refsD]; [reflexivity|]. rewrite IH. lia. Qed.

Lemma find_app_new : forall l x y, ~ In (cn_hash x) (hashes l) ->
  find_node (l ++ [x]) y = match find_node l y with Some n => Some n | None => if list_eqb (cn_hash x) y then Some x else None end.
Proof.
  induction l as [|c r IH]; intros x y Hn; cbn.
  - reflexivity.
  - destruct (list_eqb (cn_hash c) y); [reflexivity|]. apply IH. intro Hin. apply Hn. right. exact Hin.
Qed.

Lemma refs_zero_of_closed : forall s h, Inv0 s -> ~ In h (hashes (db_nodes s)) -> refsD [] (db_nodes s) h = 0%nat.
Proof.
  intros s h HI Hn. destruct (Nat.eq_dec (refsD [] (db_nodes s) h) 0) as [E|E]; [exact E|exfalso].
  (* some node has h among its kids *)
  assert (exists x, In x (db_nodes s) /\ In h (cn_kids x)) as [x [Hx Hk]].
  { clear -E. induction (db_nodes s) as [|c r IH]; cbn in E; [congruence|].
    destruct (Nat.eq_dec (cnt h (cn_kids c)) 0) as [Ez|Ez].
    - destruct IH as [x [A B]]; [lia|]. exists x. split; [right; exact A|exact B].
    - exists c. split; [left; reflexivity|]. apply cnt_pos_in. lia. }
  pose proof (i_nodup _ _ _ HI) as Hnd.
  assert (find_node (db_nodes s) (cn_hash x) = Some x) as Hf.
  { clear -Hx Hnd. induction (db_nodes s) as [|c r IH]; [destruct Hx|]. cbn in *. inversion Hnd as [|? ? Hnot Hr]; subst.
    destruct Hx as [->|Hx]; [rewrite list_eqb_refl; reflexivity|].
    assert (list_eqb (cn_hash c) (cn_hash x) = false) as ->; [|apply IH; assumption].
    apply list_eqb_neq. intro E. apply Hnot. rewrite E. apply in_map. exact Hx. }
  apply Hn. apply (i_closed _ _ _ HI (cn_hash x) x h Hf eq_refl Hk).
Qed.

Lemma nodup_snoc : forall (l : list bytes) h, NoDup l -> ~ In h l -> NoDup (l ++ [h]).
Proof.
  induction l as [|a r IH]; intros h Hn Hnot; cbn.
  - constructor; [intros []|constructor].
  - inversion Hn as [|? ? Ha Hr]; subst. constructor.
    + intro Hin. apply in_app_or in Hin. destruct Hin as [Hin|[E|[]]]; [contradiction|]. apply Hnot. left. symmetry. exact E.
    + apply IH; [exact Hr|]. intro Hin. apply Hnot. right. exact Hin.
Qed.

Lemma insert_top : forall s h blob, Inv0 s -> h <> [] ->
  (forall k, In k (blob_kids blob) -> In k (hashes (db_nodes s))) -> Inv0 (db_insert s (h, blob)).
Proof.
  intros s h blob HI Hne Hkids. unfold db_insert. destruct (find_node (db_nodes s) h) eqn:Hfh; [exact HI|].
  pose proof (find_node_none _ _ Hfh) as Hnew.
  generalize dependent (blob_kids blob). intros kids Hkids.
  set (l' := fold_left (fun l k => update_node l k (bump 1)) kids (db_nodes s)).
  set (x := mkC h kids (len blob) 0 []).
  pose proof HI as [Hnd Hshape Hmnd HDnd HDin Hcount Hdying Hclosed Hpend Hmeta].
  assert (hashes l' = hashes (db_nodes s)) as Hh by apply bump_fold_hashes.
  assert (~ In (cn_hash x) (hashes l')) as Hnew' by (rewrite Hh; exact Hnew).
  assert (hashes (l' ++ [x]) = hashes (db_nodes s) ++ [h]) as Hh2.
  { unfold hashes. rewrite map_app. fold (hashes l'). rewrite Hh. reflexivity. }
  assert (cnt h kids = 0%nat) as Hself.
  { destruct (Nat.eq_dec (cnt h kids) 0) as [E|E]; [exact E|exfalso]. apply Hnew. apply Hkids. apply cnt_pos_in. lia. }
  assert (forall y, refsD [] (l' ++ [x]) y = (refsD [] (db_nodes s) y + cnt y kids)%nat) as Hrefs.
  { intro y. rewrite refsD_app. unfold l'. rewrite bump_fold_refs. cbn. lia. }
  assert (ext_get (db_meta s) h = 0) as Hmh.
  { destruct (N.eq_dec (ext_get (db_meta s) h) 0) as [E|E]; [exact E|exfalso]. apply Hnew. apply Hmeta. lia. }
  constructor; cbn [db_nodes db_meta].
  - rewrite Hh2. apply nodup_snoc; assumption.
  - intros y m Hfm. rewrite find_app_new in Hfm by exact Hnew'.
    destruct (find_node l' y) as [m'|] eqn:Hfl.
    + injection Hfm as <-.
      destruct (find_node (db_nodes s) y) as [n|] eqn:Hfs.
      * destruct (bump_fold_find kids _ y n Hfs) as [n' [A [B [C E]]]]. fold l' in A. rewrite Hfl in A. injection A as <-.
        rewrite C. apply (Hshape y n Hfs).
      * exfalso. apply find_node_none in Hfs. apply Hfs. rewrite <- Hh. destruct (find_node_some _ _ _ Hfl) as [A B]. rewrite <- B. apply in_map. exact A.
    + cbn [cn_hash x] in Hfm. destruct (list_eqb h y) eqn:E; [|discriminate]. injection Hfm as <-. apply list_eqb_eq in E. subst y.
      split; [reflexivity|exact Hne].
  - exact Hmnd.
  - constructor.
  - intros d [].
  - intros y m Hfm _. rewrite Hrefs. rewrite find_app_new in Hfm by exact Hnew'. unfold zero_pend.
    destruct (find_node l' y) as [m'|] eqn:Hfl.
    + injection Hfm as <-.
      destruct (find_node (db_nodes s) y) as [n|] eqn:Hfs.
      * destruct (bump_fold_find kids _ y n Hfs) as [n' [A [B [C E]]]]. fold l' in A. rewrite Hfl in A. injection A as <-.
        rewrite E. pose proof (Hcount y n Hfs eq_refl). unfold zero_pend in *. lia.
      * exfalso. apply find_node_none in Hfs. apply Hfs. rewrite <- Hh. destruct (find_node_some _ _ _ Hfl) as [A B]. rewrite <- B. apply in_map. exact A.
    + cbn [cn_hash x] in Hfm. destruct (list_eqb h y) eqn:E; [|discriminate]. injection Hfm as <-. apply list_eqb_eq in E. subst y.
      rewrite (refs_zero_of_closed s h HI Hnew), Hself, Hmh. cbn. lia.
  - intros d [].
  - intros y m k Hfm _ Hk. rewrite Hh2. apply in_or_app. left. rewrite find_app_new in Hfm by exact Hnew'.
    destruct (find_node l' y) as [m'|] eqn:Hfl.
    + injection Hfm as <-.
      destruct (find_node (db_nodes s) y) as [n|] eqn:Hfs.
      * destruct (bump_fold_find kids _ y n Hfs) as [n' [A [B [C E]]]]. fold l' in A. rewrite Hfl in A. injection A as <-.
        rewrite B in Hk. apply (Hclosed y n k Hfs eq_refl Hk).
      * exfalso. apply find_node_none in Hfs. apply Hfs. rewrite <- Hh. destruct (find_node_some _ _ _ Hfl) as [A B]. rewrite <- B. apply in_map. exact A.
    + cbn [cn_hash x] in Hfm. destruct (list_eqb h y) eqn:E; [|discriminate]. injection Hfm as <-. cbn in Hk. apply Hkids. exact Hk.
  - intros y Hy. unfold zero_pend in Hy. lia.
  - intros y Hy. rewrite Hh2. apply in_or_app. left. apply Hmeta. exact Hy.
Qed.

(* ---- the fragment as a transition system ------------------------------------------ *)

Inductive frag_step : dbstate -> dbstate -> Prop :=
| fs_insert : forall s h blob, h <> [] ->
    (forall k, In k (blob_kids blob) -> In k (hashes (db_nodes s))) -> frag_step s (db_insert s (h, blob))
| fs_reference : forall s c, frag_step s (db_reference s c [])
| fs_dereference : forall s r, r <> [] -> 0 < ext_get (db_meta s) r -> frag_step s (db_dereference s r).

Inductive frag_reach : dbstate -> Prop :=
| fr_empty : frag_reach db_empty
| fr_step : forall s s', frag_reach s -> frag_step s s' -> frag_reach s'.

Lemma frag_inv : forall s, frag_reach s -> Inv0 s.
Proof.
  induction 1 as [|s s' _ IH Hstep]; [apply Inv0_empty|].
  destruct Hstep; [apply insert_top|apply reference_top|apply deref_top]; assumption.
Qed.

(* y is reachable from x through children of cached nodes *)
Inductive reaches (s : dbstate) : bytes -> bytes -> Prop :=
| r_refl : forall x, reaches s x x
| r_step : forall x n k y, find_node (db_nodes s) x = Some n -> In k (cn_kids n) -> reaches s k y -> reaches s x y.

(* garbage collection is safe in the fragment: whatever the schedule of
   inserts, references and dereferences of referenced roots, every root the
   meta root still references is cached together with everything reachable
   from it, and its parent count is positive *)
Lemma gc_safe_fragment : forall s, frag_reach s ->
  forall root, 0 < ext_get (db_meta s) root ->
  (exists n, find_node (db_nodes s) root = Some n /\ 0 < cn_parents n) /\
  forall y, reaches s root y -> In y (hashes (db_nodes s)).
Proof.
  intros s Hr root Hm. pose proof (frag_inv s Hr) as HI. split.
  - destruct (find_node_in _ _ (i_meta _ _ _ HI root Hm)) as [n Hf]. exists n. split; [exact Hf|].
    pose proof (i_count _ _ _ HI root n Hf eq_refl). lia.
  - intros y Hreach. assert (In root (hashes (db_nodes s))) as Hin by (apply (i_meta _ _ _ HI); exact Hm).
    clear Hm. induction Hreach as [x|x n k y Hf Hk _ IH]; [exact Hin|].
    apply IH. apply (i_closed _ _ _ HI x n k Hf eq_refl Hk).
Qed.

(* an executable run of the fragment (side conditions checked), for examples *)
Inductive fop := FInsert (h blob : bytes) | FRef (c : bytes) | FDeref (r : bytes).

Definition nonempty (b : bytes) : bool := match b with [] => false | _ => true end.

Fixpoint frag_run (ops : list fop) (s : dbstate) : option dbstate :=
  match ops with
  | [] => Some s
  | FInsert h b :: r =>
    if nonempty h && forallb (fun k => existsb (list_eqb k) (hashes (db_nodes s))) (blob_kids b)
    then frag_run r (db_insert s (h, b)) else None
  | FRef c :: r => frag_run r (db_reference s c [])
  | FDeref root :: r =>
    if nonempty root && N.ltb 0 (ext_get (db_meta s) root) then frag_run r (db_dereference s root) else None
  end.

Lemma frag_run_sound : forall ops s s', frag_reach s -> frag_run ops s = Some s' -> frag_reach s'.
Proof.
  induction ops as [|o ops IH]; intros s s' Hr E; cbn [frag_run] in E; [injection E as <-; exact Hr|].
  destruct o as [h b|c|root].
  - destruct (nonempty h && forallb (fun k => existsb (list_eqb k) (hashes (db_nodes s))) (blob_kids b)) eqn:C; [|discriminate].
    apply andb_true_iff in C. destruct C as [C1 C2].
    assert (h <> []) as Hne by (destruct h; discriminate).
    assert (forall k, In k (blob_kids b) -> In k (hashes (db_nodes s))) as Hk.
    { intros k Hk. rewrite forallb_forall in C2. specialize (C2 k Hk). apply existsb_exists in C2.
      destruct C2 as [x [Hx Ex]]. apply list_eqb_eq in Ex. subst x. exact Hx. }
    apply (IH _ _ (fr_step _ _ Hr (fs_insert s h b Hne Hk)) E).
  - apply (IH _ _ (fr_step _ _ Hr (fs_reference s c)) E).
  - destruct (nonempty root && N.ltb 0 (ext_get (db_meta s) root)) eqn:C; [|discriminate].
    apply andb_true_iff in C. destruct C as [C1 C2].
    assert (root <> []) as Hne by (destruct root; discriminate).
    apply (IH _ _ (fr_step _ _ Hr (fs_dereference s root Hne ltac:(lia))) E).
Qed.
