(* C13 - lemmas, part 7: tries reachable from histories whose keys and values
   are shorter than 2^30 / 2^32 bytes are [small], so the proof theorems apply
   to every reachable trie. *)
From VF.C13 Require Import Model Proofs Proofs2 Proofs4 Proofs5 Proofs6.
From Coq Require Import Lia ZifyBool ZifyN ZifyNat.
Local Open Scope N_scope.

Definition op_small (o : kvop) : Prop :=
  match o with
  | KUpdate k v => len k < 1073741824 /\ len v < B32
  | KDelete _ => True
  end.

Lemma m_run_in_from : forall ops (m : fmap) k v, fold_left m_apply ops m k = Some v ->
  m k = Some v \/ In (KUpdate k v) ops.
Proof.
  induction ops as [|o ops IH]; intros m k v E; cbn [fold_left] in E; [left; exact E|].
  destruct (IH _ _ _ E) as [A|A]; [|right; right; exact A].
  unfold m_apply in A. destruct o as [k0 v0|k0].
  - destruct (list_eqb k0 k) eqn:Ek; [|left; exact A]. apply list_eqb_eq in Ek. subst k0.
    destruct v0; [discriminate|]. injection A as <-. right. left. reflexivity.
  - destruct (list_eqb k0 k); [discriminate|left; exact A].
Qed.

Lemma m_run_in : forall ops k v, m_run ops k = Some v -> In (KUpdate k v) ops.
Proof. intros ops k v E. destruct (m_run_in_from ops _ k v E) as [A|A]; [discriminate|exact A]. Qed.

(* a canonical sub-trie all of whose stored keys (below a path of length d) and values are short is small *)
Lemma small_of_gets : forall n d, canon n ->
  (forall r v, tkey r -> get n r = Some v -> N.of_nat d + len r < B32 /\ len v < B32) -> small n.
Proof.
  induction n as [|vv|k c IH|cs IH|hh] using node_ind'; intros d Hc Hg; try discriminate.
  - cbn [small]. destruct (canon_short_inv _ _ Hc) as [[Htk Hv]|[Hnk [Hne [Hfc Hcc]]]].
    + destruct (is_valne_inv _ Hv) as [v [-> _]].
      destruct (Hg k v Htk) as [G1 G2]. { rewrite <- (app_nil_r k) at 2. rewrite get_short_app. reflexivity. }
      split; [lia|exact G2].
    + destruct (canon_witness _ Hcc) as [r [Hr Hgr]]. destruct (get c r) as [v|] eqn:Eg; [|congruence].
      destruct (Hg (k ++ r) v (tkey_app_nibs _ _ Hnk Hr)) as [G1 _]. { rewrite get_short_app. exact Eg. }
      rewrite len_app in G1. split; [lia|].
      apply (IH (d + length k)%nat Hcc). intros r' v' Hr' Hg'.
      destruct (Hg (k ++ r') v' (tkey_app_nibs _ _ Hnk Hr')) as [G1' G2']. { rewrite get_short_app. exact Hg'. }
      rewrite len_app in G1'. unfold len in *. split; [lia|exact G2'].
  - apply small_full. destruct (canon_full_inv _ Hc) as [Hl [Hs _]].
    apply Forall_forall. intros c Hin. destruct (In_nth _ _ Empty Hin) as [i [Hi <-]].
    pose proof (Hs i ltac:(lia)) as Si. unfold slot_ok in Si.
    assert (forall r v, tkey (N.of_nat i :: r) -> get (nth i cs Empty) r = Some v -> N.of_nat (S d) + len r < B32 /\ len v < B32) as Hgi.
    { intros r v Hr Hgr. destruct (Hg (N.of_nat i :: r) v Hr) as [G1 G2].
      - rewrite get_full by (try assumption; lia). unfold child. rewrite Nat2N.id. exact Hgr.
      - unfold len in *. cbn [length] in G1. split; [lia|exact G2]. }
    destruct (i <? 16)%nat eqn:E.
    + apply Nat.ltb_lt in E. destruct Si as [->|Hcc]; [exact I|].
      rewrite Forall_forall in IH. apply (IH (nth i cs Empty) Hin (S d) Hcc).
      intros r v Hr Hgr. apply Hgi; [apply tkey_cons_lt; [lia|exact Hr]|exact Hgr].
    + apply Nat.ltb_ge in E. assert (i = 16%nat) as -> by lia. destruct Si as [->|Hv]; [exact I|].
      destruct (is_valne_inv _ Hv) as [v [Ev _]]. rewrite Ev. cbn [small].
      apply (Hgi [] v tkey_16). rewrite Ev. reflexivity.
Qed.

Lemma hex_len : forall bs, len (keybytes_to_hex bs) = 2 * len bs + 1.
Proof.
  induction bs as [|b r IH]; [reflexivity|]. cbn [keybytes_to_hex]. unfold len in *. cbn [length]. lia.
Qed.

Lemma run_small : forall ops, Forall op_ok ops -> Forall op_small ops ->
  run ops = Empty \/ (canon (run ops) /\ small (run ops)).
Proof.
  intros ops Ho Hsm. destruct (run_canon ops Ho) as [E|Hc]; [left; exact E|right]. split; [exact Hc|].
  apply (small_of_gets (run ops) 0 Hc). intros r v Hr Hg.
  destruct (Nat.even (length r)) eqn:Ev; [rewrite (run_only_hex ops Ho r Hr Ev) in Hg; discriminate|].
  destruct (tkey_is_hex r Hr Ev) as [bs [Hb ->]].
  pose proof (run_refines ops Ho bs Hb) as E. unfold t_get in E. rewrite Hg in E. symmetry in E.
  apply m_run_in in E. rewrite Forall_forall in Hsm. specialize (Hsm _ E). cbn in Hsm.
  rewrite hex_len. unfold B32 in *. lia.
Qed.

Section Reach.
Variable H : bytes -> bytes.
Hypothesis Hlen : forall x, length (H x) = 32%nat.

Lemma proof_complete_reachable : forall ops k, Forall op_ok ops -> Forall op_small ops -> bytes_ok k ->
  run ops <> Empty ->
  (forall a b, In a (prove H (run ops) k 0) -> In b (prove H (run ops) k 0) -> H a = H b -> a = b) ->
  verify_proof H (root_hash H (run ops)) k (prove H (run ops) k 0) = ans (m_run ops k).
Proof.
  intros ops k Ho Hsm Hk Hne Hinj. destruct (run_small ops Ho Hsm) as [E|[Hc Hs]]; [congruence|].
  rewrite <- (run_refines ops Ho k Hk). apply proof_complete; assumption.
Qed.

Lemma proof_sound_reachable : forall ops k proof, Forall op_ok ops -> Forall op_small ops -> bytes_ok k ->
  run ops <> Empty ->
  let r := verify_proof H (root_hash H (run ops)) k proof in
  r = ans (m_run ops k) \/ r = VErr \/ collision H.
Proof.
  intros ops k proof Ho Hsm Hk Hne. destruct (run_small ops Ho Hsm) as [E|[Hc Hs]]; [congruence|].
  rewrite <- (run_refines ops Ho k Hk). apply proof_sound; assumption.
Qed.

End Reach.
