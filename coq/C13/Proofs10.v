(* C13 - lemmas, part 10: the reference-counting node cache (database.go),
   full schedule alphabet: insert, Reference (meta root or a cached parent),
   Dereference, Cap, Commit.  Whatever the schedule, every root that the meta
   root references or that is on disk keeps everything reachable from it in
   the cache or on disk. *)
From VF.C13 Require Import Model Proofs Proofs9.
From Coq Require Import Lia ZifyBool ZifyN ZifyNat.
Local Open Scope N_scope.

(* ---- outgoing references of a cached node: explicit children, then implicit ones (childs()) -- *)

Definition extkeys (x : cnode) : list bytes := map fst (cn_ext x).
Definition outs (x : cnode) : list bytes := extkeys x ++ cn_kids x.

Fixpoint refsE (D : list bytes) (l : list cnode) (y : bytes) : nat :=
  match l with
  | [] => 0%nat
  | x :: r => ((if inD D (cn_hash x) then 0 else cnt y (outs x)) + refsE D r y)%nat
  end.

Lemma cnt_app : forall y a b, cnt y (a ++ b) = (cnt y a + cnt y b)%nat.
Proof. induction a as [|k r IH]; intro b; cbn [app cnt]; [reflexivity|]. rewrite IH. lia. Qed.

(* updates that keep the hash and the outgoing references *)
Definition keeps_outs (g : cnode -> cnode) : Prop := forall c, cn_hash (g c) = cn_hash c /\ outs (g c) = outs c.
Definition keeps_hash (g : cnode -> cnode) : Prop := forall c, cn_hash (g c) = cn_hash c.

Lemma updE_same : forall D l h g y, keeps_outs g -> refsE D (update_node l h g) y = refsE D l y.
Proof.
  induction l as [|c r IH]; intros h g y Hg; [reflexivity|]. cbn.
  destruct (list_eqb (cn_hash c) h); cbn; [destruct (Hg c) as [-> ->]; reflexivity|rewrite IH by exact Hg; reflexivity].
Qed.

Lemma updE_D : forall D l h g y, inD D h = true -> keeps_hash g -> refsE D (update_node l h g) y = refsE D l y.
Proof.
  induction l as [|c r IH]; intros h g y HD Hg; [reflexivity|]. cbn.
  destruct (list_eqb (cn_hash c) h) eqn:E; cbn.
  - rewrite (Hg c). apply list_eqb_eq in E. rewrite E, HD. reflexivity.
  - rewrite IH by assumption. reflexivity.
Qed.

Lemma removeE_D : forall D l h y, In h D -> refsE D (remove_node l h) y = refsE D l y.
Proof.
  induction l as [|c r IH]; intros h y Hin; [reflexivity|]. cbn.
  destruct (list_eqb (cn_hash c) h) eqn:Eh.
  - apply list_eqb_eq in Eh. subst h. apply inD_spec in Hin. rewrite Hin. reflexivity.
  - cbn. rewrite IH by exact Hin. reflexivity.
Qed.

Lemma refsE_cons_notin : forall D l c y, ~ In c (hashes l) -> refsE (c :: D) l y = refsE D l y.
Proof.
  induction l as [|z r IH]; intros c y Hnot; [reflexivity|]. cbn [refsE]. unfold inD at 1. cbn [existsb].
  assert (list_eqb (cn_hash z) c = false) as ->.
  { apply list_eqb_neq. intro E. apply Hnot. left. exact E. }
  cbn [orb]. fold (inD D (cn_hash z)). rewrite IH; [reflexivity|]. intro Hin. apply Hnot. right. exact Hin.
Qed.

Lemma refsE_add : forall D l c n y, NoDup (hashes l) -> find_node l c = Some n -> inD D c = false ->
  (refsE (c :: D) l y + cnt y (outs n) = refsE D l y)%nat.
Proof.
  induction l as [|x r IH]; intros c n y Hn Hf HD; cbn in Hf; [discriminate|].
  cbn in Hn. inversion Hn as [|? ? Hnot Hr]; subst. cbn [refsE]. unfold inD at 1. cbn [existsb].
  destruct (list_eqb (cn_hash x) c) eqn:Eh.
  - injection Hf as <-. apply list_eqb_eq in Eh. subst c. cbn [orb]. rewrite HD.
    rewrite refsE_cons_notin by exact Hnot. lia.
  - cbn [orb]. fold (inD D (cn_hash x)). specialize (IH c n y Hr Hf HD). lia.
Qed.

Lemma refsE_mono : forall D l c y, (refsE (c :: D) l y <= refsE D l y)%nat.
Proof.
  induction l as [|x r IH]; intros c y; [cbn; lia|]. cbn [refsE]. unfold inD at 1. cbn [existsb].
  specialize (IH c y). destruct (list_eqb (cn_hash x) c); cbn [orb]; fold (inD D (cn_hash x)); destruct (inD D (cn_hash x)); lia.
Qed.

Lemma refsE_ge : forall D l y n z, find_node l y = Some n -> inD D y = false -> (cnt z (outs n) <= refsE D l z)%nat.
Proof.
  induction l as [|x r IH]; intros y n z Hf HD; cbn in Hf; [discriminate|]. cbn [refsE].
  destruct (list_eqb (cn_hash x) y) eqn:E.
  - injection Hf as <-. apply list_eqb_eq in E. rewrite E, HD. lia.
  - specialize (IH y n z Hf HD). lia.
Qed.

Lemma refsE_app : forall D l1 l2 y, refsE D (l1 ++ l2) y = (refsE D l1 y + refsE D l2 y)%nat.
Proof. induction l1 as [|x r IH]; intros; cbn [app refsE]; [reflexivity|]. rewrite IH. lia. Qed.

(* removing nodes / dropping a prefix only lowers the count *)
Lemma refsE_remove_le : forall D l h y, (refsE D (remove_node l h) y <= refsE D l y)%nat.
Proof.
  induction l as [|c r IH]; intros h y; [cbn; lia|]. cbn. destruct (list_eqb (cn_hash c) h); cbn; [lia|specialize (IH h y); lia].
Qed.

(* ---- the order of the flush-list -------------------------------------------------- *)

(* every live node's implicit children are on disk or earlier in the list *)
Fixpoint ord (D disk seen : list bytes) (l : list cnode) : Prop :=
  match l with
  | [] => True
  | x :: r => (inD D (cn_hash x) = false -> forall k, In k (cn_kids x) -> In k disk \/ In k seen) /\
              ord D disk (cn_hash x :: seen) r
  end.

Lemma ord_mono : forall D D' disk disk' l seen seen',
  (forall x, In x l -> inD D' (cn_hash x) = false -> inD D (cn_hash x) = false) ->
  (forall k, In k disk -> In k disk') ->
  (forall k, In k seen -> In k disk' \/ In k seen') ->
  ord D disk seen l -> ord D' disk' seen' l.
Proof.
  intros D D' disk disk'. induction l as [|x r IH]; intros seen seen' HD Hd Hs H; [exact I|].
  cbn in *. destruct H as [H1 H2]. split.
  - intros HDx k Hk. destruct (H1 (HD x (or_introl eq_refl) HDx) k Hk) as [A|A]; [left; apply Hd; exact A|apply Hs; exact A].
  - apply (IH (cn_hash x :: seen)); try assumption.
    + intros y Hy. apply HD. right. exact Hy.
    + intros k [<-|Hk]; [right; left; reflexivity|].
      destruct (Hs k Hk) as [A|A]; [left; exact A|right; right; exact A].
Qed.

Lemma ord_update : forall D disk l seen h g, keeps g -> ord D disk seen l -> ord D disk seen (update_node l h g).
Proof.
  intros D disk. induction l as [|x r IH]; intros seen h g Hg H; [exact I|]. cbn in *. destruct H as [H1 H2].
  destruct (list_eqb (cn_hash x) h); cbn.
  - destruct (Hg x) as [-> ->]. split; assumption.
  - split; [exact H1|apply IH; assumption].
Qed.

(* c may be dropped from the nodes seen so far when every live node that needs it finds it on disk *)
Lemma ord_seen_drop : forall D disk c l seen seen',
  (forall k, In k seen -> k = c \/ In k seen') ->
  (forall x, In x l -> inD D (cn_hash x) = false -> In c (cn_kids x) -> In c disk) ->
  ord D disk seen l -> ord D disk seen' l.
Proof.
  intros D disk c. induction l as [|x r IH]; intros seen seen' Hs Hc H; [exact I|]. cbn in *. destruct H as [H1 H2]. split.
  - intros HDx k Hk. destruct (H1 HDx k Hk) as [A|A]; [left; exact A|].
    destruct (Hs k A) as [->|B]; [left; apply (Hc x); [left; reflexivity|exact HDx|exact Hk]|right; exact B].
  - apply (IH (cn_hash x :: seen)); [| |exact H2].
    + intros k [<-|Hk]; [right; left; reflexivity|]. destruct (Hs k Hk) as [A|A]; [left; exact A|right; right; exact A].
    + intros y Hy. apply Hc. right. exact Hy.
Qed.

Lemma ord_remove : forall D disk l seen c, NoDup (hashes l) ->
  (forall x, In x l -> cn_hash x <> c -> inD D (cn_hash x) = false -> In c (cn_kids x) -> In c disk) ->
  ord D disk seen l -> ord D disk seen (remove_node l c).
Proof.
  intros D disk. induction l as [|x r IH]; intros seen c Hn Hc H; [exact I|]. cbn in *. destruct H as [H1 H2].
  inversion Hn as [|? ? Hnot Hr]; subst.
  destruct (list_eqb (cn_hash x) c) eqn:E.
  - apply list_eqb_eq in E. apply (ord_seen_drop D disk c r (cn_hash x :: seen) seen); [| |exact H2].
    + intros k [<-|Hk]; [left; exact E|right; exact Hk].
    + intros y Hy HDy Hk. apply (Hc y); [right; exact Hy| |exact HDy|exact Hk].
      intro Ey. apply Hnot. rewrite E, <- Ey. apply in_map. exact Hy.
  - apply list_eqb_neq in E. cbn. split; [exact H1|]. apply IH; [exact Hr| |exact H2].
    intros y Hy. apply Hc. right. exact Hy.
Qed.

Lemma ord_app : forall D disk l1 l2 seen, ord D disk seen (l1 ++ l2) <-> ord D disk seen l1 /\ ord D disk (rev (hashes l1) ++ seen) l2.
Proof.
  intros D disk. induction l1 as [|x r IH]; intros l2 seen; cbn.
  - tauto.
  - rewrite IH. rewrite <- app_assoc. cbn. tauto.
Qed.

Lemma ext_set_zero_notin : forall l h, NoDup (map fst l) -> ~ In h (map fst (ext_set l h 0)).
Proof.
  induction l as [|[k c0] r IH]; intros h Hn; cbn; [intros []|].
  cbn in Hn. inversion Hn as [|? ? Hnot Hr]; subst.
  destruct (list_eqb k h) eqn:E.
  - apply list_eqb_eq in E. subst k. cbn. exact Hnot.
  - apply list_eqb_neq in E. cbn. intros [F|F]; [congruence|]. exact (IH h Hr F).
Qed.

Lemma ext_get_pos_key : forall l h, 0 < ext_get l h -> In h (map fst l).
Proof.
  intros l h Hp. destruct (in_dec (list_eq_dec N.eq_dec) h (map fst l)) as [A|A]; [exact A|].
  rewrite (ext_get_notin l h A) in Hp. lia.
Qed.

Lemma ext_set_absent : forall l h c, ~ In h (map fst l) -> c <> 0 -> ext_set l h c = l ++ [(h, c)].
Proof.
  induction l as [|[k c0] r IH]; intros h c Hn Hc; cbn.
  - apply N.eqb_neq in Hc. rewrite Hc. reflexivity.
  - cbn in Hn. assert (list_eqb k h = false) as -> by (apply list_eqb_neq; intro E; apply Hn; left; exact E).
    rewrite IH; [reflexivity| |exact Hc]. intro F. apply Hn. right. exact F.
Qed.

Lemma updE_grow : forall D l p pn g y, find_node l p = Some pn -> inD D p = false -> keeps_hash g ->
  (refsE D (update_node l p g) y + cnt y (outs pn) = refsE D l y + cnt y (outs (g pn)))%nat.
Proof.
  induction l as [|c r IH]; intros p pn g y Hf HD Hg; cbn in Hf; [discriminate|]. cbn [update_node].
  destruct (list_eqb (cn_hash c) p) eqn:E.
  - injection Hf as <-. apply list_eqb_eq in E. cbn [refsE]. rewrite (Hg c), E, HD. lia.
  - cbn [refsE]. specialize (IH p pn g y Hf HD Hg). lia.
Qed.

Lemma nodup_app_r : forall (a b : list bytes), NoDup (a ++ b) -> NoDup b.
Proof. induction a as [|x a IH]; intros b H; [exact H|]. cbn in H. inversion H; subst. apply IH. assumption. Qed.

Lemma find_suffix : forall pre suf y n, NoDup (hashes (pre ++ suf)) -> find_node suf y = Some n ->
  find_node (pre ++ suf) y = Some n.
Proof.
  induction pre as [|c r IH]; intros suf y n Hn Hf; [exact Hf|]. cbn in *. inversion Hn as [|? ? Hnot Hr]; subst.
  assert (list_eqb (cn_hash c) y = false) as ->; [|apply IH; assumption].
  apply list_eqb_neq. intro E. apply Hnot. unfold hashes. rewrite map_app. apply in_or_app. right.
  destruct (find_node_some _ _ _ Hf) as [A B]. rewrite E, <- B. apply in_map. exact A.
Qed.

(* what the order says about one node of the list *)
Lemma ord_in : forall D disk l seen x k, ord D disk seen l -> In x l -> inD D (cn_hash x) = false ->
  In k (cn_kids x) -> In k disk \/ In k seen \/ In k (hashes l).
Proof.
  intros D disk. induction l as [|c r IH]; intros seen x k H Hx HD Hk; [destruct Hx|]. cbn in H. destruct H as [H1 H2].
  destruct Hx as [->|Hx].
  - destruct (H1 HD k Hk) as [A|A]; [left; exact A|right; left; exact A].
  - destruct (IH _ x k H2 Hx HD Hk) as [A|[[<-|A]|A]]; [left; exact A|right; right; left; reflexivity|right; left; exact A|right; right; right; exact A].
Qed.

Lemma add_disk_in : forall d h k, In k (add_disk d h) <-> k = h \/ In k d.
Proof.
  intros d h k. unfold add_disk. destruct (existsb (list_eqb h) d) eqn:E.
  - apply existsb_exists in E. destruct E as [x [Hx Ex]]. apply list_eqb_eq in Ex. subst x.
    split; [intro H; right; exact H|intros [->|H]; assumption].
  - rewrite in_app_iff. cbn. split; [intros [H|[<-|[]]]; [right; exact H|left; reflexivity]|intros [->|H]; [right; left; reflexivity|left; exact H]].
Qed.

Lemma cap_loop_split : forall nodes size limit disk, exists pre suf,
  nodes = pre ++ suf /\ fst (cap_loop nodes size limit disk) = suf /\
  (forall k, In k (snd (cap_loop nodes size limit disk)) <-> In k disk \/ In k (hashes pre)).
Proof.
  induction nodes as [|c r IH]; intros size limit disk.
  - exists [], []. cbn. repeat split; try reflexivity; tauto.
  - cbn [cap_loop]. destruct (N.ltb limit size).
    + destruct (IH (size - (96 + cn_size c)) limit (add_disk disk (cn_hash c))) as [pre [suf [E1 [E2 E3]]]].
      exists (c :: pre), suf. split; [cbn; rewrite E1; reflexivity|]. split; [exact E2|].
      intro k. rewrite E3, add_disk_in. cbn. intuition (subst; auto).
    + exists [], (c :: r). cbn. repeat split; try reflexivity; tauto.
Qed.

(* ---- the invariant ------------------------------------------------------------------ *)

Section Full.
Variable kidsof : bytes -> list bytes.
Variable rank : bytes -> nat.
Hypothesis Hrank : forall h k, In k (kidsof h) -> (rank k < rank h)%nat.

Definition avail (s : dbstate) (k : bytes) : Prop := In k (hashes (db_nodes s)) \/ In k (db_disk s).

Definition node_ok (y : bytes) (n : cnode) : Prop :=
  y <> [] /\ cn_kids n = kidsof y /\ NoDup (extkeys n) /\
  (forall k, In k (extkeys n) -> 0 < ext_get (cn_ext n) k /\ (rank k < rank y)%nat).

Record InvF (D : list bytes) (pend : bytes -> nat) (s : dbstate) : Prop := mkInvF {
  f_nodup : NoDup (hashes (db_nodes s));
  f_shape : forall y n, find_node (db_nodes s) y = Some n -> node_ok y n;
  f_meta_nodup : NoDup (map fst (db_meta s));
  f_D_nodup : NoDup D;
  f_D_in : forall d, In d D -> In d (hashes (db_nodes s));
  f_count : forall y n, find_node (db_nodes s) y = Some n -> inD D y = false -> ~ In y (db_disk s) ->
            (refsE D (db_nodes s) y + N.to_nat (ext_get (db_meta s) y) + pend y <= N.to_nat (cn_parents n))%nat;
  f_dying : forall d, In d D -> In d (db_disk s) \/ (refsE D (db_nodes s) d = 0%nat /\ ext_get (db_meta s) d = 0);
  f_closed : forall y n k, find_node (db_nodes s) y = Some n -> inD D y = false -> In k (outs n) -> avail s k;
  f_ord : ord D (db_disk s) [] (db_nodes s);
  f_disk : forall x k, In x (db_disk s) -> In k (kidsof x) -> In k (db_disk s);
  f_meta : forall y, 0 < ext_get (db_meta s) y -> avail s y
}.

Lemma InvF_pend_le : forall D p p' s, (forall y, (p' y <= p y)%nat) -> InvF D p s -> InvF D p' s.
Proof.
  intros D p p' s E [A B C D1 D2 F G H1 I1 J K]. constructor; try assumption.
  intros y n Hf Hd Hk. specialize (F y n Hf Hd Hk). specialize (E y). lia.
Qed.

(* dropping the explicit reference parent -> child (first step of dereference) *)
Definition drop_ext (s : dbstate) (parent child : bytes) : dbstate :=
  match find_node (db_nodes s) parent with
  | None => s
  | Some p => let c := ext_get (cn_ext p) child in
              if N.ltb 0 c
              then mkDb (update_node (db_nodes s) parent
                           (fun x => mkC (cn_hash x) (cn_kids x) (cn_size x) (cn_parents x) (ext_set (cn_ext x) child (c - 1))))
                        (db_meta s) (db_disk s)
              else s
  end.

Lemma db_deref_unfold : forall f s child parent, parent <> [] ->
  db_deref (S f) s child parent = deref_rest f (drop_ext s parent child) child.
Proof. intros f s child parent Hne. destruct parent as [|b r]; [congruence|]. reflexivity. Qed.

Lemma keeps_extset : forall child c,
  keeps (fun x => mkC (cn_hash x) (cn_kids x) (cn_size x) (cn_parents x) (ext_set (cn_ext x) child c)).
Proof. intros child c x. split; reflexivity. Qed.

Lemma drop_ext_inv : forall D pend s parent child, InvF D pend s -> In parent D -> InvF D pend (drop_ext s parent child).
Proof.
  intros D pend s parent child HI HpD. unfold drop_ext.
  destruct (find_node (db_nodes s) parent) as [p|] eqn:Hfp; [|exact HI].
  destruct (N.ltb 0 (ext_get (cn_ext p) child)) eqn:Hc; [|exact HI].
  set (c := ext_get (cn_ext p) child) in *.
  set (g := fun x => mkC (cn_hash x) (cn_kids x) (cn_size x) (cn_parents x) (ext_set (cn_ext x) child (c - 1))).
  assert (keeps g) as Hg by apply keeps_extset.
  assert (keeps_hash g) as Hgh by (intro x; reflexivity).
  pose proof HI as [Hnd Hshape Hmnd HDnd HDin Hcount Hdying Hclosed Hord Hdisk Hmeta].
  assert (inD D parent = true) as HpD' by (apply inD_spec; exact HpD).
  assert (hashes (update_node (db_nodes s) parent g) = hashes (db_nodes s)) as Hh by (apply update_hashes; exact Hg).
  assert (forall y, y <> parent -> find_node (update_node (db_nodes s) parent g) y = find_node (db_nodes s) y) as Hfo.
  { intros y Hne. apply find_update_other; [exact Hg|congruence]. }
  constructor; cbn [db_nodes db_meta db_disk]; try assumption.
  - rewrite Hh. exact Hnd.
  - intros y n Hf. destruct (list_eq_dec N.eq_dec y parent) as [->|Hne].
    + rewrite (find_update_same _ _ _ p Hg Hfp) in Hf. injection Hf as <-.
      destruct (Hshape parent p Hfp) as [S1 [S2 [S3 S4]]]. unfold node_ok, extkeys in *. cbn [g cn_kids cn_ext].
      split; [exact S1|]. split; [exact S2|]. split; [apply ext_set_nodup; exact S3|].
      intros k Hk. destruct (ext_set_keys _ _ _ _ Hk) as [->|Hk'].
      * rewrite ext_get_set_same by exact S3. split.
        -- destruct (N.eq_dec (c - 1) 0) as [E|E]; [|lia]. rewrite E in Hk. exfalso. exact (ext_set_zero_notin _ _ S3 Hk).
        -- apply S4. apply ext_get_pos_key. fold c. lia.
      * destruct (list_eq_dec N.eq_dec k child) as [->|Hkc].
        -- rewrite ext_get_set_same by exact S3. split.
           ++ destruct (N.eq_dec (c - 1) 0) as [E|E]; [|lia]. rewrite E in Hk. exfalso. exact (ext_set_zero_notin _ _ S3 Hk).
           ++ apply S4. exact Hk'.
        -- rewrite ext_get_set_other by exact Hkc. apply S4. exact Hk'.
    + rewrite Hfo in Hf by exact Hne. apply (Hshape y n Hf).
  - intros d Hd. rewrite Hh. apply HDin. exact Hd.
  - intros y n Hf HD Hk. rewrite updE_D by assumption.
    assert (y <> parent) as Hne by (intro E; subst y; congruence).
    rewrite Hfo in Hf by exact Hne. apply (Hcount y n Hf HD Hk).
  - intros d Hd. rewrite updE_D by assumption. apply Hdying. exact Hd.
  - intros y n k Hf HD Hk. assert (y <> parent) as Hne by (intro E; subst y; congruence).
    rewrite Hfo in Hf by exact Hne. destruct (Hclosed y n k Hf HD Hk) as [A|A]; [left; cbn [db_nodes]; rewrite Hh; exact A|right; exact A].
  - apply ord_update; assumption.
  - intros y Hy. destruct (Hmeta y Hy) as [A|A]; [left; cbn [db_nodes]; rewrite Hh; exact A|right; exact A].
Qed.

(* ---- the dereference cascade --------------------------------------------------------- *)

Definition specF (f : nat) : Prop :=
  forall D pend s child, InvF D pend s -> (1 <= pend child)%nat ->
    (forall d, In d D -> (rank child < rank d)%nat) ->
    (length (db_nodes s) <= f + length D)%nat ->
    let s' := deref_rest f s child in
    InvF D (pdec pend child) s' /\ db_meta s' = db_meta s /\ db_disk s' = db_disk s /\
    (length (db_nodes s') <= length (db_nodes s))%nat.

Lemma drop_ext_same : forall s parent child,
  db_meta (drop_ext s parent child) = db_meta s /\ db_disk (drop_ext s parent child) = db_disk s /\
  length (db_nodes (drop_ext s parent child)) = length (db_nodes s).
Proof.
  intros. unfold drop_ext. destruct (find_node _ _); [|auto]. destruct (N.ltb _ _); [|auto].
  cbn. rewrite update_length. auto.
Qed.

Lemma fold_specF : forall f, specF f -> forall ks D pend s c,
  InvF D (padd pend ks) s -> In c D -> c <> [] ->
  (forall d, In d D -> (rank c <= rank d)%nat) -> (forall k, In k ks -> (rank k < rank c)%nat) ->
  (length (db_nodes s) <= f + length D)%nat ->
  let s' := fold_left (fun st k => db_deref (S f) st k c) ks s in
  InvF D pend s' /\ db_meta s' = db_meta s /\ db_disk s' = db_disk s /\
  (length (db_nodes s') <= length (db_nodes s))%nat.
Proof.
  intros f Hspec ks. induction ks as [|k ks IH]; intros D pend s c HI Hc Hcne HrD Hrk Hlen; cbn [fold_left].
  - split; [apply (InvF_pend_le D (padd pend [])); [intro y; unfold padd; cbn; lia|exact HI]|]. split; [reflexivity|]. split; [reflexivity|lia].
  - rewrite (db_deref_unfold f s k c Hcne).
    pose proof (drop_ext_inv D _ s c k HI Hc) as HIa. destruct (drop_ext_same s c k) as [Ma [Da La]].
    set (sa := drop_ext s c k) in *.
    assert (1 <= padd pend (k :: ks) k)%nat as Hpk by (unfold padd; cbn [cnt]; rewrite list_eqb_refl; lia).
    assert (forall d, In d D -> (rank k < rank d)%nat) as Hrkd.
    { intros d Hd. specialize (HrD d Hd). specialize (Hrk k (or_introl eq_refl)). lia. }
    destruct (Hspec D (padd pend (k :: ks)) sa k HIa Hpk Hrkd ltac:(lia)) as [HI1 [Hm1 [Hd1 Hl1]]]. cbv zeta in *.
    set (s1 := deref_rest f sa k) in *.
    assert (InvF D (padd pend ks) s1) as HI1'.
    { apply (InvF_pend_le D (pdec (padd pend (k :: ks)) k)); [|exact HI1]. intro y. unfold pdec, padd. cbn [cnt].
      destruct (list_eqb k y); lia. }
    assert (forall k', In k' ks -> (rank k' < rank c)%nat) as Hrk' by (intros k' Hk'; apply Hrk; right; exact Hk').
    assert (length (db_nodes s1) <= f + length D)%nat as Hlen1 by lia.
    destruct (IH D pend s1 c HI1' Hc Hcne HrD Hrk' Hlen1) as [HI2 [Hm2 [Hd2 Hl2]]].
    cbv zeta in *. split; [exact HI2|]. split; [congruence|]. split; [congruence|lia].
Qed.

Lemma specF_zero : specF 0.
Proof.
  intros D pend s child HI Hp HrD Hlen. cbv zeta. unfold deref_rest.
  destruct (find_node (db_nodes s) child) as [n|] eqn:Hf.
  - exfalso. assert (~ In child D) as HnD by (intro Hin; specialize (HrD child Hin); lia).
    assert (NoDup (child :: D)) as Hn by (constructor; [exact HnD|exact (f_D_nodup _ _ _ HI)]).
    assert (incl (child :: D) (hashes (db_nodes s))) as Hi.
    { intros d [<-|Hd]; [|apply (f_D_in _ _ _ HI); exact Hd]. destruct (find_node_some _ _ _ Hf) as [A B]. rewrite <- B. apply in_map. exact A. }
    pose proof (NoDup_incl_length Hn Hi) as Hle. unfold hashes in Hle. rewrite map_length in Hle. cbn [length] in Hle. lia.
  - split; [apply (InvF_pend_le D pend); [intro y; unfold pdec; destruct (list_eqb child y); lia|exact HI]|].
    split; [reflexivity|]. split; [reflexivity|lia].
Qed.

Lemma specF_step : forall f, specF f -> specF (S f).
Proof.
  intros f IHf D pend s child HI Hp HrD Hlen. cbv zeta. unfold deref_rest.
  assert (InvF D (pdec pend child) s) as HIdec.
  { apply (InvF_pend_le D pend); [intro y; unfold pdec; destruct (list_eqb child y); lia|exact HI]. }
  destruct (find_node (db_nodes s) child) as [n|] eqn:Hfind.
  2:{ split; [exact HIdec|]. split; [reflexivity|]. split; [reflexivity|lia]. }
  pose proof HI as [Hnd Hshape Hmnd HDnd HDin Hcount Hdying Hclosed Hord Hdisk Hmeta].
  assert (~ In child D) as HnD by (intro Hin; specialize (HrD child Hin); lia).
  assert (inD D child = false) as HD by (apply inD_false; exact HnD).
  destruct (Hshape child n Hfind) as [Hchne [Hkids [Hextnd Hextk]]].
  set (p' := if N.ltb 0 (cn_parents n) then cn_parents n - 1 else 0).
  set (g := fun x => mkC (cn_hash x) (cn_kids x) (cn_size x) p' (cn_ext x)).
  assert (keeps g) as Hg by (apply keeps_parents).
  assert (keeps_outs g) as Hgo by (intro x; split; reflexivity).
  set (nodes2 := update_node (db_nodes s) child g).
  assert (hashes nodes2 = hashes (db_nodes s)) as Hh2 by (apply update_hashes; exact Hg).
  assert (forall E y, refsE E nodes2 y = refsE E (db_nodes s) y) as Hr2 by (intros E y; apply updE_same; exact Hgo).
  assert (find_node nodes2 child = Some (g n)) as Hf2 by (apply find_update_same; assumption).
  assert (forall y, y <> child -> find_node nodes2 y = find_node (db_nodes s) y) as Hf2o.
  { intros y Hne. apply find_update_other; [exact Hg|congruence]. }
  assert (forall d, In d D -> d <> child) as HDne by (intros d Hd E; subst d; contradiction).
  (* what the count invariant says about the released node, unless it is on disk *)
  assert (~ In child (db_disk s) ->
          (refsE D (db_nodes s) child + N.to_nat (ext_get (db_meta s) child) + pend child <= N.to_nat (cn_parents n))%nat) as Hc
    by (intro Hnd'; apply (Hcount child n Hfind HD Hnd')).
  assert (forall y m, find_node nodes2 y = Some m -> node_ok y m) as Hshape2.
  { intros y m Hfm. destruct (list_eq_dec N.eq_dec y child) as [->|Hne].
    - rewrite Hf2 in Hfm. injection Hfm as <-. exact (Hshape child n Hfind).
    - rewrite Hf2o in Hfm by exact Hne. apply (Hshape y m Hfm). }
  assert (forall k, avail s k -> avail (mkDb nodes2 (db_meta s) (db_disk s)) k) as Hav2.
  { intros k [A|A]; [left; cbn [db_nodes]; rewrite Hh2; exact A|right; exact A]. }
  destruct (N.eqb p' 0) eqn:Ep.
  - (* the count reached zero: cascade over childs() *)
    apply N.eqb_eq in Ep.
    assert (In child (db_disk s) \/ (refsE D (db_nodes s) child = 0%nat /\ ext_get (db_meta s) child = 0)) as Hz.
    { destruct (in_dec (list_eq_dec N.eq_dec) child (db_disk s)) as [A|A]; [left; exact A|right].
      specialize (Hc A). unfold p' in Ep. destruct (N.ltb 0 (cn_parents n)) eqn:El; lia. }
    change (map fst (cn_ext n) ++ cn_kids n) with (outs n).
    set (D' := child :: D).
    set (s2 := mkDb nodes2 (db_meta s) (db_disk s)).
    assert (forall y, refsE D' nodes2 y + cnt y (outs n) = refsE D (db_nodes s) y)%nat as Hadd.
    { intro y. rewrite Hr2. apply refsE_add; assumption. }
    assert (InvF D' (padd (pdec pend child) (outs n)) s2) as HI2.
    { constructor; cbn [db_nodes db_meta db_disk s2].
      - rewrite Hh2. exact Hnd.
      - exact Hshape2.
      - exact Hmnd.
      - constructor; assumption.
      - intros d [<-|Hd]; rewrite Hh2; [|apply HDin; exact Hd].
        destruct (find_node_some _ _ _ Hfind) as [A B]. rewrite <- B. apply in_map. exact A.
      - intros y m Hfm HDy Hnk. unfold D' in HDy. apply inD_false in HDy.
        assert (y <> child) as Hne by (intro E; apply HDy; left; symmetry; exact E).
        assert (inD D y = false) as HDy' by (apply inD_false; intro Hin; apply HDy; right; exact Hin).
        rewrite Hf2o in Hfm by exact Hne. pose proof (Hcount y m Hfm HDy' Hnk) as Hcy.
        pose proof (Hadd y). unfold padd, pdec.
        assert (list_eqb child y = false) as -> by (apply list_eqb_neq; congruence). lia.
      - intros d Hd. destruct Hd as [<-|Hd].
        + destruct Hz as [A|[A B]]; [left; exact A|right]. pose proof (Hadd child). split; [lia|exact B].
        + destruct (Hdying d Hd) as [A|[A B]]; [left; exact A|right]. pose proof (Hadd d). split; [lia|exact B].
      - intros y m k Hfm HDy Hk. unfold D' in HDy. apply inD_false in HDy.
        assert (y <> child) as Hne by (intro E; apply HDy; left; symmetry; exact E).
        assert (inD D y = false) as HDy' by (apply inD_false; intro Hin; apply HDy; right; exact Hin).
        rewrite Hf2o in Hfm by exact Hne. apply Hav2. apply (Hclosed y m k Hfm HDy' Hk).
      - apply ord_update; [exact Hg|]. apply (ord_mono D D' (db_disk s) (db_disk s) _ [] []); [|intros k Hk; exact Hk|intros k []|exact Hord].
        intros x _ Hx. unfold D' in Hx. apply inD_false in Hx. apply inD_false. intro Hin. apply Hx. right. exact Hin.
      - exact Hdisk.
      - intros y Hy. apply Hav2. apply Hmeta. exact Hy. }
    assert (length (db_nodes s2) <= f + length D')%nat as Hlen2.
    { cbn [db_nodes s2 length D']. unfold nodes2. rewrite update_length. lia. }
    assert (forall d, In d D' -> (rank child <= rank d)%nat) as HrD'.
    { intros d [<-|Hd]; [lia|]. specialize (HrD d Hd). lia. }
    assert (forall k, In k (outs n) -> (rank k < rank child)%nat) as Hrko.
    { intros k Hk. unfold outs in Hk. apply in_app_or in Hk. destruct Hk as [Hk|Hk]; [apply Hextk; exact Hk|].
      apply Hrank. rewrite <- Hkids. exact Hk. }
    destruct (fold_specF f IHf (outs n) D' (pdec pend child) s2 child HI2 (or_introl eq_refl) Hchne HrD' Hrko Hlen2) as [HI3 [Hm3 [Hd3 Hl3]]].
    cbv zeta in *.
    set (s3 := fold_left (fun st k => db_deref (S f) st k child) (outs n) s2) in *.
    pose proof HI3 as [Hnd3 Hshape3 Hmnd3 HDnd3 HDin3 Hcount3 Hdying3 Hclosed3 Hord3 Hdisk3 Hmeta3].
    assert (forall y, refsE D (remove_node (db_nodes s3) child) y = refsE D' (db_nodes s3) y) as Hrr.
    { intro y. destruct (remove_nodup (db_nodes s3) child Hnd3) as [_ Hnot].
      rewrite <- (refsE_cons_notin D _ child y Hnot). apply removeE_D. left. reflexivity. }
    (* nobody live still points to the removed node, unless it is on disk *)
    assert (forall y m, find_node (db_nodes s3) y = Some m -> inD D' y = false -> In child (outs m) -> In child (db_disk s3)) as Hnoref.
    { intros y m Hfm HDy Hk. destruct (Hdying3 child ltac:(left; reflexivity)) as [A|[A _]]; [exact A|exfalso].
      pose proof (refsE_ge D' _ y m child Hfm HDy) as Hge. apply cnt_pos_in in Hk. lia. }
    assert (forall y, inD D y = false -> y <> child -> inD D' y = false) as HliveD'.
    { intros y HDy Hne. apply inD_false. intros [E|Hin]; [congruence|]. apply inD_false in HDy. contradiction. }
    split; [|split; [|split]].
    + constructor; cbn [db_nodes db_meta db_disk].
      * apply remove_nodup. exact Hnd3.
      * intros y m Hfm. destruct (list_eq_dec N.eq_dec y child) as [->|Hne].
        -- rewrite find_remove_same in Hfm by exact Hnd3. discriminate.
        -- rewrite find_remove_other in Hfm by exact Hne. apply (Hshape3 y m Hfm).
      * exact Hmnd3.
      * exact HDnd.
      * intros d Hd. apply remove_hashes_keep; [apply HDin3; right; exact Hd|apply HDne; exact Hd].
      * intros y m Hfm HDy Hnk. destruct (list_eq_dec N.eq_dec y child) as [->|Hne].
        -- rewrite find_remove_same in Hfm by exact Hnd3. discriminate.
        -- rewrite find_remove_other in Hfm by exact Hne. rewrite Hrr.
           apply (Hcount3 y m Hfm (HliveD' y HDy Hne) Hnk).
      * intros d Hd. rewrite Hrr. apply Hdying3. right. exact Hd.
      * intros y m k Hfm HDy Hk. destruct (list_eq_dec N.eq_dec y child) as [->|Hne].
        -- rewrite find_remove_same in Hfm by exact Hnd3. discriminate.
        -- rewrite find_remove_other in Hfm by exact Hne.
           destruct (Hclosed3 y m k Hfm (HliveD' y HDy Hne) Hk) as [A|A]; [|right; exact A].
           destruct (list_eq_dec N.eq_dec k child) as [->|Hkc].
           ++ right. apply (Hnoref y m Hfm (HliveD' y HDy Hne) Hk).
           ++ left. apply remove_hashes_keep; assumption.
      * apply (ord_mono D' D (db_disk s3) (db_disk s3) _ [] []); [|intros k Hk; exact Hk|intros k []|].
        -- intros x Hx HDx. assert (cn_hash x <> child) as Hxc.
           { intro E. destruct (remove_nodup (db_nodes s3) child Hnd3) as [_ Hnot]. apply Hnot. subst child. apply in_map. exact Hx. }
           apply HliveD'; assumption.
        -- apply ord_remove; [exact Hnd3| |exact Hord3].
           intros x Hx Hxc HDx Hk.
           assert (find_node (db_nodes s3) (cn_hash x) = Some x) as Hfx.
           { clear -Hx Hnd3. induction (db_nodes s3) as [|c r IHr]; [destruct Hx|]. cbn in *. inversion Hnd3 as [|? ? Hnot Hr]; subst.
             destruct Hx as [->|Hx]; [rewrite list_eqb_refl; reflexivity|].
             assert (list_eqb (cn_hash c) (cn_hash x) = false) as ->; [|apply IHr; assumption].
             apply list_eqb_neq. intro E. apply Hnot. rewrite E. apply in_map. exact Hx. }
           apply (Hnoref (cn_hash x) x Hfx HDx). unfold outs. apply in_or_app. right. exact Hk.
      * exact Hdisk3.
      * intros y Hy. destruct (Hmeta3 y Hy) as [A|A]; [|right; exact A].
        destruct (list_eq_dec N.eq_dec y child) as [->|Hne]; [|left; apply remove_hashes_keep; assumption].
        destruct (Hdying3 child ltac:(left; reflexivity)) as [B|[_ B]]; [right; exact B|lia].
    + cbn [db_meta]. rewrite Hm3. reflexivity.
    + cbn [db_disk]. rewrite Hd3. reflexivity.
    + cbn [db_nodes]. pose proof (remove_length (db_nodes s3) child). cbn [db_nodes s2] in Hl3. unfold nodes2 in Hl3. rewrite update_length in Hl3. lia.
  - (* still referenced: only the count changes *)
    apply N.eqb_neq in Ep. split; [|split; [|split]].
    + constructor; cbn [db_nodes db_meta db_disk].
      * rewrite Hh2. exact Hnd.
      * exact Hshape2.
      * exact Hmnd.
      * exact HDnd.
      * intros d Hd. rewrite Hh2. apply HDin. exact Hd.
      * intros y m Hfm HDy Hnk. rewrite Hr2. unfold pdec. destruct (list_eq_dec N.eq_dec y child) as [->|Hne].
        -- rewrite Hf2 in Hfm. injection Hfm as <-. cbn [cn_parents g]. rewrite list_eqb_refl. specialize (Hc Hnk).
           unfold p'. destruct (N.ltb 0 (cn_parents n)) eqn:El; lia.
        -- rewrite Hf2o in Hfm by exact Hne. assert (list_eqb child y = false) as -> by (apply list_eqb_neq; congruence).
           apply (Hcount y m Hfm HDy Hnk).
      * intros d Hd. rewrite Hr2. apply Hdying. exact Hd.
      * intros y m k Hfm HDy Hk. apply Hav2. destruct (list_eq_dec N.eq_dec y child) as [->|Hne].
        -- rewrite Hf2 in Hfm. injection Hfm as <-. apply (Hclosed child n k Hfind HDy Hk).
        -- rewrite Hf2o in Hfm by exact Hne. apply (Hclosed y m k Hfm HDy Hk).
      * apply ord_update; assumption.
      * exact Hdisk.
      * intros y Hy. apply Hav2. apply Hmeta. exact Hy.
    + reflexivity.
    + reflexivity.
    + cbn [db_nodes]. unfold nodes2. rewrite update_length. lia.
Qed.

Lemma specF_all : forall f, specF f.
Proof. induction f as [|f IH]; [apply specF_zero|apply specF_step; exact IH]. Qed.

(* ---- the operations at top level -------------------------------------------------------- *)

Definition InvF0 (s : dbstate) : Prop := InvF [] zero_pend s.

Lemma find_self : forall l x, NoDup (hashes l) -> In x l -> find_node l (cn_hash x) = Some x.
Proof.
  induction l as [|c r IH]; intros x Hn Hx; [destruct Hx|]. cbn in *. inversion Hn as [|? ? Hnot Hr]; subst.
  destruct Hx as [->|Hx]; [rewrite list_eqb_refl; reflexivity|].
  assert (list_eqb (cn_hash c) (cn_hash x) = false) as ->; [|apply IH; assumption].
  apply list_eqb_neq. intro E. apply Hnot. rewrite E. apply in_map. exact Hx.
Qed.

Lemma in_hashes_find : forall l y, In y (hashes l) -> exists n, find_node l y = Some n.
Proof. exact find_node_in. Qed.

(* no live cached node points to a hash that is neither cached nor on disk *)
Lemma refsE_zero_unavail : forall s h, InvF0 s -> ~ avail s h -> refsE [] (db_nodes s) h = 0%nat.
Proof.
  intros s h HI Hn. destruct (Nat.eq_dec (refsE [] (db_nodes s) h) 0) as [E|E]; [exact E|exfalso].
  assert (exists x, In x (db_nodes s) /\ In h (outs x)) as [x [Hx Hk]].
  { clear -E. induction (db_nodes s) as [|c r IH]; cbn in E; [congruence|].
    destruct (Nat.eq_dec (cnt h (outs c)) 0) as [Ez|Ez].
    - destruct IH as [x [A B]]; [lia|]. exists x. split; [right; exact A|exact B].
    - exists c. split; [left; reflexivity|]. apply cnt_pos_in. lia. }
  apply Hn. apply (f_closed _ _ _ HI (cn_hash x) x h (find_self _ _ (f_nodup _ _ _ HI) Hx) eq_refl Hk).
Qed.

Lemma deref_topF : forall s root, InvF0 s -> root <> [] -> 0 < ext_get (db_meta s) root -> InvF0 (db_dereference s root).
Proof.
  intros s root HI Hne Hm. unfold db_dereference. destruct root as [|b r] eqn:Er; [congruence|]. rewrite <- Er in *. clear Er b r.
  rewrite db_deref_meta. cbv zeta. assert (N.ltb 0 (ext_get (db_meta s) root) = true) as -> by lia.
  set (c := ext_get (db_meta s) root) in *.
  set (s1 := mkDb (db_nodes s) (ext_set (db_meta s) root (c - 1)) (db_disk s)).
  set (pend1 := fun z : bytes => if list_eqb root z then 1%nat else 0%nat).
  pose proof HI as [Hnd Hshape Hmnd HDnd HDin Hcount Hdying Hclosed Hord Hdisk Hmeta].
  assert (InvF [] pend1 s1) as HI1.
  { constructor; cbn [db_nodes db_meta db_disk s1]; try assumption.
    - apply ext_set_nodup. exact Hmnd.
    - intros y n Hf HD Hnk. unfold pend1. destruct (list_eqb root y) eqn:E.
      + apply list_eqb_eq in E. subst y. rewrite ext_get_set_same by exact Hmnd.
        pose proof (Hcount root n Hf HD Hnk). unfold zero_pend in *. fold c in H. lia.
      + apply list_eqb_neq in E. rewrite ext_get_set_other by congruence. pose proof (Hcount y n Hf HD Hnk). unfold zero_pend in *. lia.
    - intros d [].
    - intros y Hy. destruct (list_eq_dec N.eq_dec y root) as [->|E].
      + apply Hmeta. exact Hm.
      + rewrite ext_get_set_other in Hy by exact E. apply Hmeta. exact Hy. }
  destruct (specF_all (length (db_nodes s)) [] pend1 s1 root HI1) as [HI2 _].
  - unfold pend1. rewrite list_eqb_refl. lia.
  - intros d [].
  - cbn. lia.
  - apply (InvF_pend_le [] (pdec pend1 root)); [|exact HI2]. intro y. unfold zero_pend. lia.
Qed.

Lemma keeps_bump_outs : forall d, keeps_outs (bump d).
Proof. intros d c. split; reflexivity. Qed.

Lemma reference_metaF : forall s child, InvF0 s -> InvF0 (db_reference s child []).
Proof.
  intros s child HI. unfold db_reference. destruct (find_node (db_nodes s) child) as [n|] eqn:Hf; [|exact HI].
  pose proof HI as [Hnd Hshape Hmnd HDnd HDin Hcount Hdying Hclosed Hord Hdisk Hmeta].
  assert (hashes (update_node (db_nodes s) child (bump 1)) = hashes (db_nodes s)) as Hh by (apply update_hashes, keeps_bump).
  assert (forall k, avail s k -> avail (mkDb (update_node (db_nodes s) child (bump 1)) (ext_set (db_meta s) child (ext_get (db_meta s) child + 1)) (db_disk s)) k) as Hav.
  { intros k [A|A]; [left; cbn [db_nodes]; rewrite Hh; exact A|right; exact A]. }
  constructor; cbn [db_nodes db_meta db_disk].
  - rewrite Hh. exact Hnd.
  - intros y m Hfm. destruct (list_eq_dec N.eq_dec y child) as [->|Hne].
    + rewrite (find_update_same _ _ _ n (keeps_bump 1) Hf) in Hfm. injection Hfm as <-. exact (Hshape child n Hf).
    + rewrite find_update_other in Hfm by (try apply keeps_bump; congruence). apply (Hshape y m Hfm).
  - apply ext_set_nodup. exact Hmnd.
  - constructor.
  - intros d [].
  - intros y m Hfm HD Hnk. rewrite updE_same by apply keeps_bump_outs. destruct (list_eq_dec N.eq_dec y child) as [->|Hne].
    + rewrite (find_update_same _ _ _ n (keeps_bump 1) Hf) in Hfm. injection Hfm as <-. cbn [bump cn_parents].
      rewrite ext_get_set_same by exact Hmnd. pose proof (Hcount child n Hf HD Hnk). lia.
    + rewrite find_update_other in Hfm by (try apply keeps_bump; congruence). rewrite ext_get_set_other by exact Hne. apply (Hcount y m Hfm HD Hnk).
  - intros d [].
  - intros y m k Hfm HD Hk. apply Hav. destruct (list_eq_dec N.eq_dec y child) as [->|Hne].
    + rewrite (find_update_same _ _ _ n (keeps_bump 1) Hf) in Hfm. injection Hfm as <-. apply (Hclosed child n k Hf HD Hk).
    + rewrite find_update_other in Hfm by (try apply keeps_bump; congruence). apply (Hclosed y m k Hfm HD Hk).
  - apply ord_update; [apply keeps_bump|exact Hord].
  - exact Hdisk.
  - intros y Hy. apply Hav. destruct (list_eq_dec N.eq_dec y child) as [->|Hne].
    + left. destruct (find_node_some _ _ _ Hf) as [A B]. rewrite <- B. apply in_map. exact A.
    + rewrite ext_get_set_other in Hy by exact Hne. apply Hmeta. exact Hy.
Qed.

(* Reference(child, parent) for a cached parent: the explicit account -> storage reference *)
Lemma reference_nodeF : forall s child parent pn, InvF0 s -> parent <> [] ->
  find_node (db_nodes s) parent = Some pn -> (rank child < rank parent)%nat ->
  InvF0 (db_reference s child parent).
Proof.
  intros s child parent pn HI Hpne Hfp Hrk. unfold db_reference.
  destruct (find_node (db_nodes s) child) as [n|] eqn:Hf; [|exact HI].
  destruct parent as [|pb pr] eqn:Ep; [congruence|]. rewrite <- Ep in *. clear Ep pb pr.
  rewrite Hfp. destruct (N.ltb 0 (ext_get (cn_ext pn) child)) eqn:Hex; [exact HI|].
  pose proof HI as [Hnd Hshape Hmnd HDnd HDin Hcount Hdying Hclosed Hord Hdisk Hmeta].
  assert (child <> parent) as Hcp by (intro E; subst; lia).
  destruct (Hshape parent pn Hfp) as [S1 [S2 [S3 S4]]].
  assert (~ In child (extkeys pn)) as Hnk by (intro Hin; destruct (S4 child Hin) as [A _]; lia).
  set (g := fun c => mkC (cn_hash c) (cn_kids c) (cn_size c) (cn_parents c) (ext_set (cn_ext c) child 1)).
  assert (keeps g) as Hg by apply keeps_extset.
  assert (keeps_hash g) as Hgh by (intro x; reflexivity).
  set (nodes1 := update_node (db_nodes s) child (bump 1)).
  set (nodes2 := update_node nodes1 parent g).
  assert (hashes nodes1 = hashes (db_nodes s)) as Hh1 by (apply update_hashes, keeps_bump).
  assert (hashes nodes2 = hashes (db_nodes s)) as Hh2 by (unfold nodes2; rewrite update_hashes by exact Hg; exact Hh1).
  assert (find_node nodes1 parent = Some pn) as Hfp1.
  { unfold nodes1. rewrite find_update_other by (try apply keeps_bump; exact Hcp). exact Hfp. }
  assert (cn_ext (g pn) = cn_ext pn ++ [(child, 1)]) as Hext' by (cbn; apply ext_set_absent; [exact Hnk|discriminate]).
  assert (forall y, cnt y (outs (g pn)) = (cnt y (outs pn) + (if list_eqb child y then 1 else 0))%nat) as Hcnt.
  { intro y. unfold outs, extkeys. rewrite Hext'. cbn [g cn_kids]. rewrite map_app. cbn [map fst]. rewrite !cnt_app. cbn [cnt]. lia. }
  assert (forall y, refsE [] nodes2 y = (refsE [] (db_nodes s) y + (if list_eqb child y then 1 else 0))%nat) as Hrefs.
  { intro y. pose proof (updE_grow [] nodes1 parent pn g y Hfp1 eq_refl Hgh) as H1. fold nodes2 in H1.
    assert (refsE [] nodes1 y = refsE [] (db_nodes s) y) as E1 by (apply updE_same, keeps_bump_outs).
    rewrite E1, Hcnt in H1. lia. }
  assert (forall y m, find_node nodes2 y = Some m ->
            (y = parent /\ m = g pn) \/
            (y = child /\ m = bump 1 n) \/
            (y <> parent /\ y <> child /\ find_node (db_nodes s) y = Some m)) as Hcases.
  { intros y m Hfm. unfold nodes2 in Hfm. destruct (list_eq_dec N.eq_dec y parent) as [->|Hyp].
    - rewrite (find_update_same _ _ _ pn Hg Hfp1) in Hfm. injection Hfm as <-. left. split; reflexivity.
    - rewrite find_update_other in Hfm by (try exact Hg; congruence). unfold nodes1 in Hfm.
      destruct (list_eq_dec N.eq_dec y child) as [->|Hyc].
      + rewrite (find_update_same _ _ _ n (keeps_bump 1) Hf) in Hfm. injection Hfm as <-. right. left. split; reflexivity.
      + rewrite find_update_other in Hfm by (try apply keeps_bump; congruence). right. right. repeat split; assumption. }
  assert (forall k, avail s k -> avail (mkDb nodes2 (db_meta s) (db_disk s)) k) as Hav.
  { intros k [A|A]; [left; cbn [db_nodes]; rewrite Hh2; exact A|right; exact A]. }
  constructor; cbn [db_nodes db_meta db_disk].
  - rewrite Hh2. exact Hnd.
  - intros y m Hfm. destruct (Hcases y m Hfm) as [[-> ->]|[[-> ->]|[_ [_ Hfo]]]].
    + unfold node_ok, extkeys. rewrite Hext'. cbn [g cn_kids]. split; [exact S1|]. split; [exact S2|]. rewrite map_app. cbn [map fst]. split.
      * apply nodup_snoc; assumption.
      * intros k Hk. apply in_app_or in Hk. destruct Hk as [Hk|[<-|[]]].
        -- destruct (S4 k Hk) as [A B]. split; [|exact B].
           change (cn_ext pn ++ [(child, 1)]) with (cn_ext pn ++ [(child, 1)]).
           rewrite <- Hext'. cbn [g cn_ext]. rewrite ext_get_set_other; [exact A|]. intro E. subst k. contradiction.
        -- rewrite <- Hext'. cbn [g cn_ext]. rewrite ext_get_set_same by exact S3. split; [lia|exact Hrk].
    + exact (Hshape child n Hf).
    + exact (Hshape y m Hfo).
  - exact Hmnd.
  - constructor.
  - intros d [].
  - intros y m Hfm _ Hnd'. rewrite Hrefs. unfold zero_pend. destruct (Hcases y m Hfm) as [[-> ->]|[[-> ->]|[Hyp [Hyc Hfo]]]].
    + assert (list_eqb child parent = false) as -> by (apply list_eqb_neq; exact Hcp).
      pose proof (Hcount parent pn Hfp eq_refl Hnd'). unfold zero_pend in *. cbn [g cn_parents]. lia.
    + rewrite list_eqb_refl. pose proof (Hcount child n Hf eq_refl Hnd'). unfold zero_pend in *. cbn [bump cn_parents]. lia.
    + assert (list_eqb child y = false) as -> by (apply list_eqb_neq; congruence).
      pose proof (Hcount y m Hfo eq_refl Hnd'). unfold zero_pend in *. lia.
  - intros d [].
  - intros y m k Hfm _ Hk. apply Hav. destruct (Hcases y m Hfm) as [[-> ->]|[[-> ->]|[Hyp [Hyc Hfo]]]].
    + unfold outs, extkeys in Hk. rewrite Hext' in Hk. cbn [g cn_kids] in Hk. rewrite map_app in Hk. cbn [map fst] in Hk.
      apply in_app_or in Hk. destruct Hk as [Hk|Hk].
      * apply in_app_or in Hk. destruct Hk as [Hk|[<-|[]]].
        -- apply (Hclosed parent pn k Hfp eq_refl). unfold outs. apply in_or_app. left. exact Hk.
        -- left. destruct (find_node_some _ _ _ Hf) as [A B]. rewrite <- B. apply in_map. exact A.
      * apply (Hclosed parent pn k Hfp eq_refl). unfold outs. apply in_or_app. right. exact Hk.
    + apply (Hclosed child n k Hf eq_refl Hk).
    + apply (Hclosed y m k Hfo eq_refl Hk).
  - unfold nodes2, nodes1. apply ord_update; [exact Hg|]. apply ord_update; [apply keeps_bump|exact Hord].
  - exact Hdisk.
  - intros y Hy. apply Hav. apply Hmeta. exact Hy.
Qed.

Lemma bump_fold_refsE : forall D kids l y, refsE D (fold_left (fun l k => update_node l k (bump 1)) kids l) y = refsE D l y.
Proof. intros D kids. induction kids as [|k r IH]; intros l y; cbn [fold_left]; [reflexivity|]. rewrite IH. apply updE_same, keeps_bump_outs. Qed.

Lemma bump_fold_ord : forall D disk kids l seen, ord D disk seen l -> ord D disk seen (fold_left (fun l k => update_node l k (bump 1)) kids l).
Proof. intros D disk kids. induction kids as [|k r IH]; intros l seen H; cbn [fold_left]; [exact H|]. apply IH. apply ord_update; [apply keeps_bump|exact H]. Qed.

Lemma insertF : forall s h blob, InvF0 s -> h <> [] -> blob_kids blob = kidsof h ->
  (forall k, In k (kidsof h) -> avail s k) -> InvF0 (db_insert s (h, blob)).
Proof.
  intros s h blob HI Hne Hbk Hkids. unfold db_insert. destruct (find_node (db_nodes s) h) eqn:Hfh; [exact HI|].
  pose proof (find_node_none _ _ Hfh) as Hnew. rewrite Hbk.
  set (kids := kidsof h) in *.
  set (l' := fold_left (fun l k => update_node l k (bump 1)) kids (db_nodes s)).
  set (x := mkC h kids (len blob) 0 []).
  pose proof HI as [Hnd Hshape Hmnd HDnd HDin Hcount Hdying Hclosed Hord Hdisk Hmeta].
  assert (hashes l' = hashes (db_nodes s)) as Hh by apply bump_fold_hashes.
  assert (~ In (cn_hash x) (hashes l')) as Hnew' by (rewrite Hh; exact Hnew).
  assert (hashes (l' ++ [x]) = hashes (db_nodes s) ++ [h]) as Hh2.
  { unfold hashes. rewrite map_app. fold (hashes l'). rewrite Hh. reflexivity. }
  assert (cnt h kids = 0%nat) as Hself.
  { destruct (Nat.eq_dec (cnt h kids) 0) as [E|E]; [exact E|exfalso].
    assert (In h kids) as Hin by (apply cnt_pos_in; lia). apply Hrank in Hin. lia. }
  assert (forall y, refsE [] (l' ++ [x]) y = (refsE [] (db_nodes s) y + cnt y kids)%nat) as Hrefs.
  { intro y. rewrite refsE_app. unfold l'. rewrite bump_fold_refsE. cbn. lia. }
  assert (forall k, avail s k -> avail (mkDb (l' ++ [x]) (db_meta s) (db_disk s)) k) as Hav.
  { intros k [A|A]; [left; cbn [db_nodes]; rewrite Hh2; apply in_or_app; left; exact A|right; exact A]. }
  assert (forall y m, find_node (l' ++ [x]) y = Some m ->
            (exists n, find_node (db_nodes s) y = Some n /\ cn_kids m = cn_kids n /\ cn_ext m = cn_ext n /\
                       cn_parents m = cn_parents n + N.of_nat (cnt y kids)) \/ (y = h /\ m = x)) as Hcases.
  { intros y m Hfm. rewrite find_app_new in Hfm by exact Hnew'.
    destruct (find_node l' y) as [m'|] eqn:Hfl.
    - injection Hfm as <-. left.
      destruct (find_node (db_nodes s) y) as [n|] eqn:Hfs.
      + destruct (bump_fold_find kids _ y n Hfs) as [n' [A [B [C E]]]]. fold l' in A. rewrite Hfl in A. injection A as <-.
        exists n. repeat split; assumption.
      + exfalso. apply find_node_none in Hfs. apply Hfs. rewrite <- Hh. destruct (find_node_some _ _ _ Hfl) as [A B]. rewrite <- B. apply in_map. exact A.
    - cbn [cn_hash x] in Hfm. destruct (list_eqb h y) eqn:E; [|discriminate]. injection Hfm as <-. apply list_eqb_eq in E. right. split; [symmetry; exact E|reflexivity]. }
  constructor; cbn [db_nodes db_meta db_disk].
  - rewrite Hh2. apply nodup_snoc; assumption.
  - intros y m Hfm. destruct (Hcases y m Hfm) as [[n [Hfo [Ek [Ee _]]]]|[-> ->]].
    + destruct (Hshape y n Hfo) as [S1 [S2 [S3 S4]]]. unfold node_ok, extkeys in *. rewrite Ek, Ee. split; [exact S1|split; [exact S2|split; [exact S3|exact S4]]].
    + unfold node_ok, extkeys. cbn. split; [exact Hne|split; [reflexivity|split; [constructor|intros k []]]].
  - exact Hmnd.
  - constructor.
  - intros d [].
  - intros y m Hfm _ Hnd'. rewrite Hrefs. unfold zero_pend. destruct (Hcases y m Hfm) as [[n [Hfo [Ek [Ee Ep]]]]|[-> ->]].
    + pose proof (Hcount y n Hfo eq_refl Hnd'). unfold zero_pend in *. rewrite Ep. lia.
    + assert (~ avail s h) as Hna by (intros [A|A]; contradiction).
      rewrite (refsE_zero_unavail s h HI Hna), Hself.
      assert (ext_get (db_meta s) h = 0) as ->.
      { destruct (N.eq_dec (ext_get (db_meta s) h) 0) as [E|E]; [exact E|exfalso]. apply Hna. apply Hmeta. lia. }
      cbn. lia.
  - intros d [].
  - intros y m k Hfm _ Hk. apply Hav. destruct (Hcases y m Hfm) as [[n [Hfo [Ek [Ee _]]]]|[-> ->]].
    + apply (Hclosed y n k Hfo eq_refl). unfold outs, extkeys in *. rewrite <- Ek, <- Ee. exact Hk.
    + unfold outs, extkeys in Hk. cbn in Hk. apply Hkids. exact Hk.
  - apply ord_app. split; [apply bump_fold_ord; exact Hord|]. cbn. split; [|exact I].
    intros _ k Hk. destruct (Hkids k Hk) as [A|A]; [right|left; exact A].
    rewrite app_nil_r. apply (proj1 (in_rev _ _)). rewrite Hh. exact A.
  - exact Hdisk.
  - intros y Hy. apply Hav. apply Hmeta. exact Hy.
Qed.

(* flushing a prefix of the flush-list to disk (what Cap does) *)
Lemma flush_prefixF : forall s pre suf disk', InvF0 s -> db_nodes s = pre ++ suf ->
  (forall k, In k disk' <-> In k (db_disk s) \/ In k (hashes pre)) ->
  InvF0 (mkDb suf (db_meta s) disk').
Proof.
  intros s pre suf disk' HI Es Hd'.
  pose proof HI as [Hnd Hshape Hmnd HDnd HDin Hcount Hdying Hclosed Hord Hdisk Hmeta]. rewrite Es in *.
  assert (forall y n, find_node suf y = Some n -> find_node (pre ++ suf) y = Some n) as Hfs by (intros y n; apply find_suffix; exact Hnd).
  assert (forall k, avail s k -> avail (mkDb suf (db_meta s) disk') k) as Hav.
  { intros k [A|A]; [|right; apply Hd'; left; exact A]. rewrite Es in A. unfold hashes in A. rewrite map_app in A.
    apply in_app_or in A. destruct A as [A|A]; [right; apply Hd'; right; exact A|left; exact A]. }
  constructor; cbn [db_nodes db_meta db_disk].
  - unfold hashes in Hnd. rewrite map_app in Hnd. apply nodup_app_r in Hnd. exact Hnd.
  - intros y n Hf. apply (Hshape y n (Hfs y n Hf)).
  - exact Hmnd.
  - constructor.
  - intros d [].
  - intros y n Hf _ Hnk. pose proof (Hcount y n (Hfs y n Hf) eq_refl ltac:(intro A; apply Hnk; apply Hd'; left; exact A)) as Hc.
    rewrite refsE_app in Hc. lia.
  - intros d [].
  - intros y n k Hf _ Hk. apply Hav. apply (Hclosed y n k (Hfs y n Hf) eq_refl Hk).
  - apply ord_app in Hord. destruct Hord as [_ Ho]. rewrite app_nil_r in Ho.
    apply (ord_mono [] [] (db_disk s) disk' suf (rev (hashes pre)) []); [tauto|intros k Hk; apply Hd'; left; exact Hk| |exact Ho].
    intros k Hk. left. apply Hd'. right. apply in_rev. exact Hk.
  - intros x k Hx Hk. apply Hd' in Hx. apply Hd'. destruct Hx as [Hx|Hx]; [left; apply (Hdisk x k Hx Hk)|].
    unfold hashes in Hx. apply in_map_iff in Hx. destruct Hx as [xn [Ex Hxn]].
    apply ord_app in Hord. destruct Hord as [Ho _].
    assert (find_node (pre ++ suf) x = Some xn) as Hfx.
    { rewrite <- Ex. apply find_self; [exact Hnd|apply in_or_app; left; exact Hxn]. }
    destruct (Hshape x xn Hfx) as [_ [Ek _]].
    destruct (ord_in [] (db_disk s) pre [] xn k Ho Hxn eq_refl ltac:(rewrite Ek; exact Hk)) as [A|[[]|A]]; [left; exact A|right; exact A].
  - intros y Hy. apply Hav. apply Hmeta. exact Hy.
Qed.

Lemma capF : forall s limit, InvF0 s -> InvF0 (db_cap s limit).
Proof.
  intros s limit HI. unfold db_cap.
  destruct (cap_loop_split (db_nodes s) (db_size s) limit (db_disk s)) as [pre [suf [E1 [E2 E3]]]].
  destruct (cap_loop (db_nodes s) (db_size s) limit (db_disk s)) as [nodes disk] eqn:Ec. cbn [fst snd] in *. subst nodes.
  apply (flush_prefixF s pre suf disk HI E1 E3).
Qed.

(* ---- Commit: everything cached below the root moves to disk ----------------------------- *)

(* the invariant while uncache is running: nodes already written may still have
   cached children, all of which are scheduled in T *)
Record InvU (T : list bytes) (s : dbstate) : Prop := mkInvU {
  u_nodup : NoDup (hashes (db_nodes s));
  u_shape : forall y n, find_node (db_nodes s) y = Some n -> node_ok y n;
  u_meta_nodup : NoDup (map fst (db_meta s));
  u_count : forall y n, find_node (db_nodes s) y = Some n -> ~ In y (db_disk s) ->
            (refsE [] (db_nodes s) y + N.to_nat (ext_get (db_meta s) y) <= N.to_nat (cn_parents n))%nat;
  u_closed : forall y n k, find_node (db_nodes s) y = Some n -> In k (outs n) -> avail s k;
  u_ord : ord [] (db_disk s) [] (db_nodes s);
  u_disk : forall x k, In x (db_disk s) -> In k (kidsof x) ->
           In k (db_disk s) \/ (In k T /\ In k (hashes (db_nodes s)));
  u_meta : forall y, 0 < ext_get (db_meta s) y -> avail s y
}.

Lemma InvF0_U : forall s, InvF0 s -> InvU [] s.
Proof.
  intros s [A B C D1 D2 F G H1 I1 J K]. constructor; try assumption.
  - intros y n Hf Hk. specialize (F y n Hf eq_refl Hk). unfold zero_pend in F. lia.
  - intros y n k Hf Hk. apply (H1 y n k Hf eq_refl Hk).
  - intros x k Hx Hk. left. apply (J x k Hx Hk).
Qed.

Lemma InvU_F0 : forall s, InvU [] s -> InvF0 s.
Proof.
  intros s [A B C F H1 I1 J K]. constructor; try assumption.
  - constructor.
  - intros d [].
  - intros y n Hf _ Hk. specialize (F y n Hf Hk). unfold zero_pend. lia.
  - intros d [].
  - intros y n k Hf _ Hk. apply (H1 y n k Hf Hk).
  - intros x k Hx Hk. destruct (J x k Hx Hk) as [E|[[] _]]. exact E.
Qed.

Lemma InvU_mono : forall T T' s, (forall k, In k T -> In k (hashes (db_nodes s)) -> In k T') -> InvU T s -> InvU T' s.
Proof.
  intros T T' s HT [A B C F H1 I1 J K]. constructor; try assumption.
  intros x k Hx Hk. destruct (J x k Hx Hk) as [E|[E1 E2]]; [left; exact E|right; split; [apply HT; assumption|exact E2]].
Qed.

Lemma uncache_step : forall T s h n, InvU (h :: T) s -> find_node (db_nodes s) h = Some n ->
  InvU (outs n ++ T) (mkDb (remove_node (db_nodes s) h) (db_meta s) (add_disk (db_disk s) h)).
Proof.
  intros T s h n [Hnd Hshape Hmnd Hcount Hclosed Hord Hdisk Hmeta] Hf.
  assert (forall k, avail s k -> avail (mkDb (remove_node (db_nodes s) h) (db_meta s) (add_disk (db_disk s) h)) k) as Hav.
  { intros k [A|A]; [|right; apply add_disk_in; right; exact A].
    destruct (list_eq_dec N.eq_dec k h) as [->|Hne]; [right; apply add_disk_in; left; reflexivity|left; apply remove_hashes_keep; assumption]. }
  destruct (Hshape h n Hf) as [_ [Ekids [_ Hext]]].
  constructor; cbn [db_nodes db_meta db_disk].
  - apply remove_nodup. exact Hnd.
  - intros y m Hfm. destruct (list_eq_dec N.eq_dec y h) as [->|Hne].
    + rewrite find_remove_same in Hfm by exact Hnd. discriminate.
    + rewrite find_remove_other in Hfm by exact Hne. apply (Hshape y m Hfm).
  - exact Hmnd.
  - intros y m Hfm Hnk. destruct (list_eq_dec N.eq_dec y h) as [->|Hne].
    + rewrite find_remove_same in Hfm by exact Hnd. discriminate.
    + rewrite find_remove_other in Hfm by exact Hne.
      pose proof (Hcount y m Hfm ltac:(intro A; apply Hnk; apply add_disk_in; right; exact A)).
      pose proof (refsE_remove_le [] (db_nodes s) h y). lia.
  - intros y m k Hfm Hk. destruct (list_eq_dec N.eq_dec y h) as [->|Hne].
    + rewrite find_remove_same in Hfm by exact Hnd. discriminate.
    + rewrite find_remove_other in Hfm by exact Hne. apply Hav. apply (Hclosed y m k Hfm Hk).
  - apply ord_remove; [exact Hnd|intros; apply add_disk_in; left; reflexivity|].
    apply (ord_mono [] [] (db_disk s) (add_disk (db_disk s) h) _ [] []); [tauto|intros k Hk; apply add_disk_in; right; exact Hk|intros k []|exact Hord].
  - intros x k Hx Hk. apply add_disk_in in Hx.
    assert (forall k', In k' (hashes (db_nodes s)) -> k' <> h -> In k' (hashes (remove_node (db_nodes s) h))) as Hkeep
      by (intros; apply remove_hashes_keep; assumption).
    destruct Hx as [->|Hx].
    + assert (In k (outs n)) as Hko by (unfold outs; apply in_or_app; right; rewrite Ekids; exact Hk).
      destruct (Hclosed h n k Hf Hko) as [A|A]; [|left; apply add_disk_in; right; exact A].
      right. split; [apply in_or_app; left; exact Hko|]. apply Hkeep; [exact A|]. intro E. subst k. apply Hrank in Hk. lia.
    + destruct (Hdisk x k Hx Hk) as [A|[[<-|A] B]].
      * left. apply add_disk_in. right. exact A.
      * left. apply add_disk_in. left. reflexivity.
      * destruct (list_eq_dec N.eq_dec k h) as [->|Hne]; [left; apply add_disk_in; left; reflexivity|].
        right. split; [apply in_or_app; right; exact A|apply Hkeep; assumption].
  - intros y Hy. apply Hav. apply Hmeta. exact Hy.
Qed.

Definition uspec (f : nat) : Prop :=
  forall T s h, InvU (h :: T) s -> (length (db_nodes s) <= f)%nat ->
    InvU T (db_uncache f s h) /\ (length (db_nodes (db_uncache f s h)) <= length (db_nodes s))%nat /\
    db_meta (db_uncache f s h) = db_meta s.

Lemma uncache_fold : forall f, uspec f -> forall ks T s, InvU (ks ++ T) s -> (length (db_nodes s) <= f)%nat ->
  let s' := fold_left (fun st k => db_uncache f st k) ks s in
  InvU T s' /\ (length (db_nodes s') <= length (db_nodes s))%nat /\ db_meta s' = db_meta s.
Proof.
  intros f Hf ks. induction ks as [|k ks IH]; intros T s HI Hl; cbn [fold_left].
  - split; [exact HI|]. split; [lia|reflexivity].
  - destruct (Hf (ks ++ T) s k HI Hl) as [H1 [H2 H3]].
    destruct (IH T _ H1 ltac:(lia)) as [H4 [H5 H6]]. cbv zeta in *. split; [exact H4|]. split; [lia|congruence].
Qed.

Lemma uspec_all : forall f, uspec f.
Proof.
  induction f as [|f IH]; intros T s h HI Hl.
  - cbn [db_uncache]. split; [|split; [lia|reflexivity]].
    apply (InvU_mono (h :: T) T); [|exact HI]. intros k _ Hk. destruct (db_nodes s); [destruct Hk|cbn in Hl; lia].
  - cbn [db_uncache]. destruct (find_node (db_nodes s) h) as [n|] eqn:Hfind.
    + pose proof (uncache_step T s h n HI Hfind) as HI1.
      set (s1 := mkDb (remove_node (db_nodes s) h) (db_meta s) (add_disk (db_disk s) h)) in *.
      assert (length (db_nodes s1) < length (db_nodes s))%nat as Hlt.
      { cbn [db_nodes s1]. clear -Hfind. revert Hfind. induction (db_nodes s) as [|c r IHr]; intro Hf; cbn in *; [discriminate|].
        destruct (list_eqb (cn_hash c) h); [lia|]. cbn. specialize (IHr Hf). lia. }
      change (map fst (cn_ext n) ++ cn_kids n) with (outs n).
      destruct (uncache_fold f IH (outs n) T s1 HI1 ltac:(lia)) as [H1 [H2 H3]]. cbv zeta in *.
      split; [exact H1|]. split; [lia|]. rewrite H3. reflexivity.
    + split; [|split; [lia|reflexivity]].
      apply (InvU_mono (h :: T) T); [|exact HI]. intros k [<-|Hk] Hin; [|exact Hk].
      exfalso. apply (find_node_none _ _ Hfind). exact Hin.
Qed.

Lemma commitF : forall s root, InvF0 s -> InvF0 (db_commit s root).
Proof.
  intros s root HI. unfold db_commit. apply InvU_F0.
  apply (uspec_all (S (length (db_nodes s))) [] s root); [|lia].
  apply (InvU_mono [] [root]); [intros k []|]. apply InvF0_U. exact HI.
Qed.

(* ---- the whole alphabet as a transition system -------------------------------------------- *)

Inductive full_step : dbstate -> dbstate -> Prop :=
| st_insert : forall s h blob, h <> [] -> blob_kids blob = kidsof h ->
    (forall k, In k (kidsof h) -> avail s k) -> full_step s (db_insert s (h, blob))
| st_ref_meta : forall s c, full_step s (db_reference s c [])
| st_ref_node : forall s c p pn, p <> [] -> find_node (db_nodes s) p = Some pn -> (rank c < rank p)%nat ->
    full_step s (db_reference s c p)
| st_deref : forall s r, r <> [] -> 0 < ext_get (db_meta s) r -> full_step s (db_dereference s r)
| st_cap : forall s limit, full_step s (db_cap s limit)
| st_commit : forall s r, full_step s (db_commit s r).

Inductive full_reach : dbstate -> Prop :=
| fur_empty : full_reach db_empty
| fur_step : forall s s', full_reach s -> full_step s s' -> full_reach s'.

Lemma InvF0_empty : InvF0 db_empty.
Proof.
  constructor; cbn; try (intros; contradiction); try constructor; try discriminate.
  all: try (intros y Hy; unfold zero_pend in *; lia).
Qed.

Lemma full_inv : forall s, full_reach s -> InvF0 s.
Proof.
  induction 1 as [|s s' _ IH Hstep]; [apply InvF0_empty|].
  destruct Hstep.
  - apply insertF; assumption.
  - apply reference_metaF; assumption.
  - eapply reference_nodeF; eassumption.
  - apply deref_topF; assumption.
  - apply capF; assumption.
  - apply commitF; assumption.
Qed.

(* y is reachable from x: through the children the content of a node names
   (kidsof), and through the explicit children of cached nodes *)
Inductive reachF (s : dbstate) : bytes -> bytes -> Prop :=
| rf_refl : forall x, reachF s x x
| rf_kid : forall x k y, In k (kidsof x) -> reachF s k y -> reachF s x y
| rf_ext : forall x n k y, find_node (db_nodes s) x = Some n -> In k (extkeys n) -> reachF s k y -> reachF s x y.

Lemma gc_safe_full : forall s, full_reach s ->
  forall root, 0 < ext_get (db_meta s) root \/ In root (db_disk s) ->
  forall y, reachF s root y -> avail s y.
Proof.
  intros s Hr root Hroot y Hreach. pose proof (full_inv s Hr) as HI.
  assert (avail s root) as Hav by (destruct Hroot as [A|A]; [apply (f_meta _ _ _ HI); exact A|right; exact A]).
  clear Hroot. induction Hreach as [x|x k y Hk _ IH|x n k y Hf Hk _ IH]; [exact Hav| |].
  - apply IH. destruct Hav as [A|A].
    + destruct (find_node_in _ _ A) as [n Hf]. destruct (f_shape _ _ _ HI x n Hf) as [_ [Ek _]].
      apply (f_closed _ _ _ HI x n k Hf eq_refl). unfold outs. apply in_or_app. right. rewrite Ek. exact Hk.
    + right. apply (f_disk _ _ _ HI x k A Hk).
  - apply IH. apply (f_closed _ _ _ HI x n k Hf eq_refl). unfold outs. apply in_or_app. left. exact Hk.
Qed.

End Full.

(* Commit(root) of a cached root puts it on disk *)
Lemma uncache_disk_mono : forall f s h k, In k (db_disk s) -> In k (db_disk (db_uncache f s h)).
Proof.
  induction f as [|f IH]; intros s h k Hk; [exact Hk|]. cbn [db_uncache].
  destruct (find_node (db_nodes s) h) as [n|]; [|exact Hk].
  assert (forall ks st, In k (db_disk st) -> In k (db_disk (fold_left (fun st k0 => db_uncache f st k0) ks st))) as Hfold.
  { induction ks as [|a ks IHk]; intros st Hst; cbn [fold_left]; [exact Hst|]. apply IHk. apply IH. exact Hst. }
  apply Hfold. cbn [db_disk]. apply add_disk_in. right. exact Hk.
Qed.

Lemma commit_root_on_disk : forall s root n, find_node (db_nodes s) root = Some n -> In root (db_disk (db_commit s root)).
Proof.
  intros s root n Hf. unfold db_commit. cbn [db_uncache]. rewrite Hf.
  assert (forall f ks st, In root (db_disk st) -> In root (db_disk (fold_left (fun st k0 => db_uncache f st k0) ks st))) as Hfold.
  { intros f ks. induction ks as [|a ks IHk]; intros st Hst; cbn [fold_left]; [exact Hst|]. apply IHk. apply uncache_disk_mono. exact Hst. }
  apply Hfold. cbn [db_disk]. apply add_disk_in. left. reflexivity.
Qed.

(* ---- an executable instance, for examples -------------------------------------------------- *)

(* content table: hash -> blob, children before parents *)
Fixpoint idx (l : list bytes) (h : bytes) : nat :=
  match l with
  | [] => 0%nat
  | k :: r => if list_eqb k h then 0%nat else S (idx r h)
  end.

Definition kidsof_tbl (tbl : list (bytes * bytes)) (h : bytes) : list bytes :=
  match assoc tbl h with Some b => blob_kids b | None => [] end.
Definition rank_tbl (tbl : list (bytes * bytes)) (h : bytes) : nat := idx (map fst tbl) h.

Definition tbl_ok (tbl : list (bytes * bytes)) : bool :=
  forallb (fun p => forallb (fun k => Nat.ltb (rank_tbl tbl k) (rank_tbl tbl (fst p))) (blob_kids (snd p))) tbl.

Lemma assoc_in : forall (l : list (bytes * bytes)) k v, assoc l k = Some v -> In (k, v) l.
Proof.
  induction l as [|[k0 v0] r IH]; intros k v E; cbn in E; [discriminate|].
  destruct (list_eqb k0 k) eqn:Ek; [apply list_eqb_eq in Ek; injection E as <-; subst; left; reflexivity|right; apply IH; exact E].
Qed.

Lemma tbl_ok_rank : forall tbl, tbl_ok tbl = true ->
  forall h k, In k (kidsof_tbl tbl h) -> (rank_tbl tbl k < rank_tbl tbl h)%nat.
Proof.
  intros tbl Hok h k Hk. unfold kidsof_tbl in Hk. destruct (assoc tbl h) as [b|] eqn:E; [|destruct Hk].
  apply assoc_in in E. unfold tbl_ok in Hok. rewrite forallb_forall in Hok. specialize (Hok _ E). cbn [fst snd] in Hok.
  rewrite forallb_forall in Hok. specialize (Hok k Hk). apply Nat.ltb_lt in Hok. exact Hok.
Qed.

Inductive xop :=
| XInsert (h blob : bytes) | XRefMeta (c : bytes) | XRefNode (c p : bytes)
| XDeref (r : bytes) | XCap (limit : N) | XCommit (r : bytes).

Definition availb (s : dbstate) (k : bytes) : bool :=
  existsb (list_eqb k) (hashes (db_nodes s)) || existsb (list_eqb k) (db_disk s).

Lemma availb_spec : forall s k, availb s k = true -> avail s k.
Proof.
  intros s k H. unfold availb in H. apply orb_true_iff in H. destruct H as [H|H]; apply existsb_exists in H;
    destruct H as [x [Hx Ex]]; apply list_eqb_eq in Ex; subst x; [left|right]; exact Hx.
Qed.

Lemma list_eqb_by_eq : forall a b : list bytes, list_eqb_by list_eqb a b = true -> a = b.
Proof.
  induction a as [|x a IH]; destruct b as [|y b]; cbn; intro H; try reflexivity; try discriminate.
  apply andb_true_iff in H. destruct H as [H1 H2]. apply list_eqb_eq in H1. rewrite H1, (IH b H2). reflexivity.
Qed.

Section Run.
Variable tbl : list (bytes * bytes).

Fixpoint full_run (ops : list xop) (s : dbstate) : option dbstate :=
  match ops with
  | [] => Some s
  | XInsert h b :: r =>
    if nonempty h && list_eqb_by list_eqb (blob_kids b) (kidsof_tbl tbl h) && forallb (availb s) (kidsof_tbl tbl h)
    then full_run r (db_insert s (h, b)) else None
  | XRefMeta c :: r => full_run r (db_reference s c [])
  | XRefNode c p :: r =>
    match find_node (db_nodes s) p with
    | Some _ => if nonempty p && Nat.ltb (rank_tbl tbl c) (rank_tbl tbl p) then full_run r (db_reference s c p) else None
    | None => None
    end
  | XDeref root :: r =>
    if nonempty root && N.ltb 0 (ext_get (db_meta s) root) then full_run r (db_dereference s root) else None
  | XCap l :: r => full_run r (db_cap s l)
  | XCommit root :: r => full_run r (db_commit s root)
  end.

Lemma full_run_sound : forall ops s s', full_reach (kidsof_tbl tbl) (rank_tbl tbl) s -> full_run ops s = Some s' ->
  full_reach (kidsof_tbl tbl) (rank_tbl tbl) s'.
Proof.
  induction ops as [|o ops IH]; intros s s' Hr E; cbn [full_run] in E; [injection E as <-; exact Hr|].
  destruct o as [h b|c|c p|root|l|root].
  - destruct (nonempty h && list_eqb_by list_eqb (blob_kids b) (kidsof_tbl tbl h) && forallb (availb s) (kidsof_tbl tbl h)) eqn:C; [|discriminate].
    apply andb_true_iff in C. destruct C as [C C3]. apply andb_true_iff in C. destruct C as [C1 C2].
    assert (h <> []) as Hne by (destruct h; discriminate).
    apply list_eqb_by_eq in C2.
    assert (forall k, In k (kidsof_tbl tbl h) -> avail s k) as Hk.
    { intros k Hk. rewrite forallb_forall in C3. apply availb_spec. apply C3. exact Hk. }
    apply (IH _ _ (fur_step _ _ _ _ Hr (st_insert _ _ s h b Hne C2 Hk)) E).
  - apply (IH _ _ (fur_step _ _ _ _ Hr (st_ref_meta _ _ s c)) E).
  - destruct (find_node (db_nodes s) p) as [pn|] eqn:Hf; [|discriminate].
    destruct (nonempty p && Nat.ltb (rank_tbl tbl c) (rank_tbl tbl p)) eqn:C; [|discriminate].
    apply andb_true_iff in C. destruct C as [C1 C2]. apply Nat.ltb_lt in C2.
    assert (p <> []) as Hne by (destruct p; discriminate).
    apply (IH _ _ (fur_step _ _ _ _ Hr (st_ref_node _ _ s c p pn Hne Hf C2)) E).
  - destruct (nonempty root && N.ltb 0 (ext_get (db_meta s) root)) eqn:C; [|discriminate].
    apply andb_true_iff in C. destruct C as [C1 C2].
    assert (root <> []) as Hne by (destruct root; discriminate).
    apply (IH _ _ (fur_step _ _ _ _ Hr (st_deref _ _ s root Hne ltac:(lia))) E).
  - apply (IH _ _ (fur_step _ _ _ _ Hr (st_cap _ _ s l)) E).
  - apply (IH _ _ (fur_step _ _ _ _ Hr (st_commit _ _ s root)) E).
Qed.

End Run.
