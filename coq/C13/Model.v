(* C13 - executable model of the Merkle-Patricia trie of /repo/trie
   (trie.go, encoding.go, hasher.go, node.go, proof.go, iterator.go,
   database.go) and core/types/derive_sha.go.  No proofs in this file.

   Conventions
   - bytes and nibbles are lists of N; a hex key is a nibble list that ends
     with the terminator 16 (keybytesToHex).
   - [node] is the in-memory node of node.go without the cache flags.  The
     collapsed form used for hashing re-uses the same type (as the Go code
     does) with the compact key stored in the key slot of [Short].
   - the hash function is a parameter [H] of every definition that hashes;
     the correspondence runner instantiates it with the executable
     Keccak-256 (VF.Lib.Keccak), theorems quantify over it.
   - not modelled: cache generations / unloading of clean nodes, lazy
     loading (re-opening a trie expands it eagerly from the node store, so
     MissingNodeError paths do not exist in the model; an unresolved
     [HashN] inside an in-memory trie is left untouched by the operations),
     Go panics on inputs that cannot arise from terminated keys (noted at
     each place). *)
From Coq Require Export List NArith Bool Arith.
Export ListNotations.
Open Scope N_scope.

Definition bytes := list N.
Definition nibbles := list N.

Fixpoint list_eqb (a b : list N) : bool :=
  match a, b with
  | [], [] => true
  | x :: a', y :: b' => N.eqb x y && list_eqb a' b'
  | _, _ => false
  end.

Definition len (l : list N) : N := N.of_nat (length l).

(* ---- encoding.go ------------------------------------------------------- *)

Fixpoint keybytes_to_hex (bs : bytes) : nibbles :=
  match bs with
  | [] => [16]
  | b :: r => (b / 16) :: (b mod 16) :: keybytes_to_hex r
  end.

Definition has_term (k : nibbles) : bool :=
  match k with
  | [] => false
  | _ => N.eqb (last k 0) 16
  end.

(* decodeNibbles: two nibbles per byte (nibbles are < 16 wherever this is used) *)
Fixpoint decode_nibbles (hex : nibbles) : bytes :=
  match hex with
  | a :: b :: r => (16 * a + b) :: decode_nibbles r
  | _ => []
  end.

Definition hex_to_compact (hex : nibbles) : bytes :=
  let term := has_term hex in
  let hex := if term then removelast hex else hex in
  let flag := if term then 32 else 0 in
  if Nat.odd (length hex)
  then (flag + 16 + hd 0 hex) :: decode_nibbles (tl hex)
  else flag :: decode_nibbles hex.

(* compactToHex.  Go panics (slice bounds) on an empty compact key; the model
   returns [] there and [decode_short] reports the panic. *)
Definition compact_to_hex (c : bytes) : nibbles :=
  let base := keybytes_to_hex c in
  let base := if hd 0 base <? 2 then removelast base else base in
  let chop := 2 - (hd 0 base) mod 2 in
  skipn (N.to_nat chop) base.

Fixpoint prefix_len (a b : nibbles) : nat :=
  match a, b with
  | x :: a', y :: b' => if N.eqb x y then S (prefix_len a' b') else O
  | _, _ => O
  end.

(* hexToKeybytes (terminator dropped, even length expected) *)
Definition hex_to_keybytes (hex : nibbles) : bytes :=
  decode_nibbles (if has_term hex then removelast hex else hex).

(* ---- node.go ----------------------------------------------------------- *)

Inductive node :=
| Empty                               (* nil *)
| Val (v : bytes)                     (* valueNode *)
| Short (k : nibbles) (c : node)      (* shortNode *)
| Full (cs : list node)               (* fullNode: 17 children *)
| HashN (h : bytes).                  (* hashNode *)

Definition is_empty (n : node) : bool := match n with Empty => true | _ => false end.

(* apply [f] to the j-th element of a list (default [d]); written as a local
   fix so that recursive calls through it are guarded *)
Definition nth_apply {A B} (f : A -> B) (d : B) : list A -> nat -> B :=
  fix go (l : list A) (j : nat) : B :=
    match l with
    | [] => d
    | c :: l' => match j with O => f c | S j' => go l' j' end
    end.

Fixpoint set_nth {A} (l : list A) (j : nat) (x : A) : list A :=
  match l with
  | [] => []
  | c :: l' => match j with O => x :: l' | S j' => c :: set_nth l' j' x end
  end.

Definition child (cs : list node) (i : N) : node := nth (N.to_nat i) cs Empty.

Definition empty17 : list node := repeat Empty 17.

(* ---- trie.go: tryGet / insert / delete --------------------------------- *)

Definition key_mismatch (k key : nibbles) : bool :=
  (length key <? length k)%nat || negb (list_eqb k (firstn (length k) key)).

(* tryGet; None = nil result *)
Fixpoint get (n : node) (key : nibbles) : option bytes :=
  match n with
  | Empty => None
  | Val v => Some v
  | Short k c => if key_mismatch k key then None else get c (skipn (length k) key)
  | Full cs =>
    match key with
    | [] => None            (* Go: index out of range; unreachable with terminated keys *)
    | i :: r => nth_apply (fun c => get c r) None cs (N.to_nat i)
    end
  | HashN _ => None          (* unresolved node: MissingNodeError in Go *)
  end.

(* insert(nil, _, key, value) *)
Definition insert_nil (key : nibbles) (value : node) : node :=
  match key with [] => value | _ => Short key value end.

Definition val_eqb (a b : node) : bool :=
  match a, b with Val x, Val y => list_eqb x y | _, _ => false end.

(* insert: returns (dirty, new node) *)
Fixpoint insert (n : node) (key : nibbles) (value : node) : bool * node :=
  match key with
  | [] => match n with
          | Val _ => (negb (val_eqb n value), value)
          | _ => (true, value)
          end
  | k0 :: krest =>
    match n with
    | Short k c =>
      let m := prefix_len key k in
      if Nat.eqb m (length k) then
        let (dirty, nn) := insert c (skipn m key) value in
        if dirty then (true, Short k nn) else (false, n)
      else
        let b1 := set_nth empty17 (N.to_nat (nth m k 0)) (insert_nil (skipn (S m) k) c) in
        let b2 := set_nth b1 (N.to_nat (nth m key 0)) (insert_nil (skipn (S m) key) value) in
        if Nat.eqb m 0 then (true, Full b2) else (true, Short (firstn m key) (Full b2))
    | Full cs =>
      let (dirty, nn) := nth_apply (fun c => insert c krest value) (true, insert_nil krest value) cs (N.to_nat k0) in
      if dirty then (true, Full (set_nth cs (N.to_nat k0) nn)) else (false, n)
    | Empty => (true, Short key value)
    | Val _ => (false, n)      (* Go panics ("invalid node"); unreachable with terminated keys *)
    | HashN _ => (false, n)    (* unresolved: not modelled *)
    end
  end.

(* indexes of the non-nil children *)
Fixpoint nonempty_from (i : nat) (cs : list node) : list nat :=
  match cs with
  | [] => []
  | c :: r => if is_empty c then nonempty_from (S i) r else i :: nonempty_from (S i) r
  end.
Definition nonempty_idx := nonempty_from 0.

(* the reduction of a full node that has one child left *)
Definition collapse_full (cs : list node) : node :=
  match nonempty_idx cs with
  | [pos] =>
    let c := nth pos cs Empty in
    if Nat.eqb pos 16 then Short [16] c
    else match c with
         | Short k2 c2 => Short (N.of_nat pos :: k2) c2
         | _ => Short [N.of_nat pos] c
         end
  | _ => Full cs
  end.

Fixpoint delete (n : node) (key : nibbles) : bool * node :=
  match n with
  | Short k c =>
    let m := prefix_len key k in
    if (m <? length k)%nat then (false, n)
    else if Nat.eqb m (length key) then (true, Empty)
    else
      let (dirty, ch) := delete c (skipn (length k) key) in
      if negb dirty then (false, n)
      else match ch with
           | Short k2 c2 => (true, Short (k ++ k2) c2)
           | _ => (true, Short k ch)
           end
  | Full cs =>
    match key with
    | [] => (false, n)       (* Go: index out of range; unreachable *)
    | k0 :: krest =>
      let (dirty, nn) := nth_apply (fun c => delete c krest) (false, Empty) cs (N.to_nat k0) in
      if negb dirty then (false, n)
      else (true, collapse_full (set_nth cs (N.to_nat k0) nn))
    end
  | Val _ => (true, Empty)
  | Empty => (false, Empty)
  | HashN _ => (false, n)    (* unresolved: not modelled *)
  end.

(* Trie.TryUpdate / TryDelete / TryGet on byte keys *)
Definition t_update (t : node) (key value : bytes) : node :=
  let k := keybytes_to_hex key in
  match value with
  | [] => snd (delete t k)
  | _ => snd (insert t k (Val value))
  end.
Definition t_delete (t : node) (key : bytes) : node := snd (delete t (keybytes_to_hex key)).
Definition t_get (t : node) (key : bytes) : option bytes := get t (keybytes_to_hex key).

(* ---- RLP (the part the trie needs) ------------------------------------- *)

Inductive item := Str (b : bytes) | Lst (l : list item).

Fixpoint be_bytes_fuel (fuel : nat) (n : N) (acc : bytes) : bytes :=
  match fuel with
  | O => acc
  | S f => if N.eqb n 0 then acc else be_bytes_fuel f (n / 256) ((n mod 256) :: acc)
  end.
Definition be_bytes (n : N) : bytes := be_bytes_fuel 9 n [].

Definition enc_len (off n : N) : bytes :=
  if n <? 56 then [off + n]
  else let b := be_bytes n in (off + 55 + len b) :: b.

Fixpoint rlp (i : item) : bytes :=
  match i with
  | Str bs =>
    match bs with
    | [b] => if b <? 128 then [b] else [129; b]
    | _ => enc_len 128 (len bs) ++ bs
    end
  | Lst l => let body := flat_map rlp l in enc_len 192 (len body) ++ body
  end.

(* rlp/raw.go: readKind / Split.  None = error. *)
Inductive kind := KByte | KString | KList.

Fixpoint be_to_N (bs : bytes) (acc : N) : N :=
  match bs with [] => acc | b :: r => be_to_N r (acc * 256 + b) end.

Definition read_size (b : bytes) (slen : N) : option N :=
  if (length b <? N.to_nat slen)%nat then None
  else let s := be_to_N (firstn (N.to_nat slen) b) 0 in
       if (s <? 56) || N.eqb (hd 0 b) 0 then None else Some s.

(* (kind, tagsize, contentsize) *)
Definition read_kind (buf : bytes) : option (kind * N * N) :=
  match buf with
  | [] => None
  | b :: r =>
    let res :=
      if b <? 128 then Some (KByte, 0, 1)
      else if b <? 184 then
        let cs := b - 128 in
        if N.eqb cs 1 && match r with b1 :: _ => b1 <? 128 | [] => false end then None
        else Some (KString, 1, cs)
      else if b <? 192 then
        match read_size r (b - 183) with None => None | Some s => Some (KString, b - 183 + 1, s) end
      else if b <? 248 then Some (KList, 1, b - 192)
      else match read_size r (b - 247) with None => None | Some s => Some (KList, b - 247 + 1, s) end in
    match res with
    | None => None
    | Some (k, ts, cs) => if len buf - ts <? cs then None else Some (k, ts, cs)
    end
  end.

(* (kind, content, rest) *)
Definition split (b : bytes) : option (kind * bytes * bytes) :=
  match read_kind b with
  | None => None
  | Some (k, ts, cs) =>
    let after := skipn (N.to_nat ts) b in
    Some (k, firstn (N.to_nat cs) after, skipn (N.to_nat cs) after)
  end.

Definition split_string (b : bytes) : option (bytes * bytes) :=
  match split b with
  | Some (KList, _, _) => None
  | Some (_, c, r) => Some (c, r)
  | None => None
  end.

Definition split_list (b : bytes) : option (bytes * bytes) :=
  match split b with
  | Some (KList, c, r) => Some (c, r)
  | _ => None
  end.

(* CountValues; None = error (decodeNode then sees a count of 0) *)
Fixpoint count_values (fuel : nat) (b : bytes) : option nat :=
  match fuel with
  | O => Some O
  | S f =>
    match b with
    | [] => Some O
    | _ => match read_kind b with
           | None => None
           | Some (_, ts, cs) =>
             match count_values f (skipn (N.to_nat (ts + cs)) b) with
             | Some c => Some (S c)
             | None => None
             end
           end
    end
  end.

(* ---- node.go: decodeNode ----------------------------------------------- *)

Inductive dres := DOk (n : node) | DErr | DPanic.

(* decodeRef's result carries the rest of the buffer *)
Inductive rres := ROk (n : node) (rest : bytes) | RErr | RPanic.

(* decodeRef, given the decoder for embedded nodes *)
Definition decode_ref_with (dn : bytes -> dres) (buf : bytes) : rres :=
  match split buf with
  | None => RErr
  | Some (KList, _, rest) =>
    if (32 <? length buf - length rest)%nat then RErr
    else match dn buf with
         | DOk n => ROk n rest
         | DErr => RErr
         | DPanic => RPanic
         end
  | Some (KString, v, rest) =>
    match length v with
    | O => ROk Empty rest
    | 32%nat => ROk (HashN v) rest
    | _ => RErr
    end
  | Some (KByte, _, _) => RErr
  end.

(* decodeFull: k more child references, then the value slot *)
Fixpoint decode_children (dr : bytes -> rres) (k : nat) (elems : bytes) (acc : list node) : dres :=
  match k with
  | O =>
    match split_string elems with
    | None => DErr
    | Some (v, _) => DOk (Full (rev acc ++ [match v with [] => Empty | _ => Val v end]))
    end
  | S k' =>
    match dr elems with
    | ROk cld rest => decode_children dr k' rest (cld :: acc)
    | RErr => DErr
    | RPanic => DPanic
    end
  end.

(* decodeShort *)
Definition decode_short (dr : bytes -> rres) (elems : bytes) : dres :=
  match split_string elems with
  | None => DErr
  | Some (kbuf, rest) =>
    match kbuf with
    | [] => DPanic                      (* compactToHex: slice bounds out of range *)
    | _ =>
      let key := compact_to_hex kbuf in
      if has_term key then
        match split_string rest with
        | None => DErr
        | Some (v, _) => DOk (Short key (Val v))
        end
      else
        match dr rest with
        | ROk r _ => DOk (Short key r)
        | RErr => DErr
        | RPanic => DPanic
        end
    end
  end.

(* fuel bounds the nesting of embedded nodes; an embedded node is at most 32
   bytes and each level loses at least one byte, so 40 is never exhausted *)
Fixpoint decode_node (fuel : nat) (buf : bytes) : dres :=
  match fuel with
  | O => DErr
  | S f =>
    match buf with
    | [] => DErr
    | _ =>
      match split_list buf with
      | None => DErr
      | Some (elems, _) =>
        let c := match count_values (S (length elems)) elems with Some c => c | None => O end in
        if Nat.eqb c 2 then decode_short (decode_ref_with (decode_node f)) elems
        else if Nat.eqb c 17 then decode_children (decode_ref_with (decode_node f)) 16 elems []
        else DErr
      end
    end
  end.

Definition decode_fuel : nat := 40.

(* ---- hasher.go ---------------------------------------------------------- *)

(* rlp.Encode of a collapsed node *)
Fixpoint enc_item (n : node) : item :=
  match n with
  | Empty => Str []                 (* nilValueNode *)
  | Val v => Str v
  | HashN h => Str h
  | Short k c => Lst [Str k; enc_item c]
  | Full cs => Lst (map enc_item cs)
  end.

Definition encode (n : node) : bytes := rlp (enc_item n).

(* apply f to the first k elements only *)
Definition map_first {A} (f : A -> A) : nat -> list A -> list A :=
  fix go (k : nat) (l : list A) : list A :=
    match k, l with
    | S k', c :: l' => f c :: go k' l'
    | _, _ => l
    end.

(* known root hash of the empty trie (trie.go: emptyRoot) *)
Definition empty_root : bytes :=
  [86; 232; 31; 23; 27; 204; 85; 166; 255; 131; 69; 230; 146; 192; 248; 110;
   91; 72; 224; 27; 153; 108; 173; 192; 1; 98; 47; 181; 227; 99; 180; 33].

Section Hashing.
Variable H : bytes -> bytes.

(* hasher.store with db = nil *)
Definition store (n : node) (force : bool) : node :=
  match n with
  | Empty | HashN _ => n
  | _ => let e := encode n in
         if (length e <? 32)%nat && negb force then n else HashN (H e)
  end.

(* hasher.hashChildren: the collapsed node *)
Fixpoint collapse (n : node) : node :=
  match n with
  | Short k c =>
    Short (hex_to_compact k)
          (match c with Val _ => c | _ => store (collapse c) false end)
  | Full cs =>
    Full (map_first (fun c => match c with Empty => Empty | _ => store (collapse c) false end) 16 cs)
  | _ => n
  end.

(* hasher.hash(n, nil, force): the hashed node (hashNode or small node itself) *)
Definition hash_node (n : node) (force : bool) : node := store (collapse n) force.

(* Trie.Hash *)
Definition root_hash (t : node) : bytes :=
  match t with
  | Empty => empty_root
  | _ => match hash_node t true with HashN h => h | _ => [] end
  end.

(* the hash cached in a node's flags after Trie.Hash(): nil for embedded nodes *)
Definition cached_hash (n : node) : bytes :=
  match n with
  | Short _ _ | Full _ => match hash_node n false with HashN h => h | _ => [] end
  | HashN h => h
  | _ => []
  end.

(* ---- proof.go ----------------------------------------------------------- *)

(* the nodes Prove collects on the path of key *)
Fixpoint path_nodes (n : node) (key : nibbles) : list node :=
  match key with
  | [] => []
  | k0 :: krest =>
    match n with
    | Short k c =>
      if key_mismatch k key then [n] else n :: path_nodes c (skipn (length k) key)
    | Full cs => n :: nth_apply (fun c => path_nodes c krest) [] cs (N.to_nat k0)
    | _ => []                 (* nil ends the loop; valueNode with key left: Go panics, unreachable *)
    end
  end.

Fixpoint prove_nodes (i : nat) (ns : list node) : list bytes :=
  match ns with
  | [] => []
  | n :: r =>
    let c := collapse n in
    match store c false, i with
    | HashN _, _ | _, O => encode c :: prove_nodes (S i) r
    | _, _ => prove_nodes (S i) r
    end
  end.

(* Trie.Prove(key, fromLevel, db): the encodings put into db, in order *)
Definition prove (t : node) (key : bytes) (from_level : nat) : list bytes :=
  skipn from_level (prove_nodes 0 (path_nodes t (keybytes_to_hex key))).

(* proof.go: get *)
Fixpoint pget (n : node) (key : nibbles) : nibbles * node :=
  match n with
  | Short k c => if key_mismatch k key then ([], Empty) else pget c (skipn (length k) key)
  | Full cs =>
    match key with
    | [] => ([], Empty)      (* Go: index out of range; unreachable *)
    | k0 :: krest => nth_apply (fun c => pget c krest) (krest, Empty) cs (N.to_nat k0)
    end
  | HashN _ => (key, n)
  | Empty => (key, Empty)
  | Val _ => ([], n)
  end.

(* VerifyProof result *)
Inductive vres := VVal (v : bytes) | VAbsent | VErr | VPanic.

Fixpoint assoc (l : list (bytes * bytes)) (k : bytes) : option bytes :=
  match l with
  | [] => None
  | (k', v) :: r => if list_eqb k' k then Some v else assoc r k
  end.

(* VerifyProof over a proof database given as an association list *)
Fixpoint verify_proof_db (fuel : nat) (pdb : list (bytes * bytes)) (want : bytes) (key : nibbles) : vres :=
  match fuel with
  | O => VErr
  | S f =>
    match assoc pdb want with
    | None => VErr
    | Some buf =>
      match decode_node decode_fuel buf with
      | DErr => VErr
      | DPanic => VPanic
      | DOk n =>
        match pget n key with
        | (_, Empty) => VAbsent
        | (rest, HashN h) => verify_proof_db f pdb h rest
        | (_, Val v) => VVal v
        | _ => VErr
        end
      end
    end
  end.

(* a proof as a list of node encodings, addressed by content *)
Definition content_db (proof : list bytes) : list (bytes * bytes) :=
  map (fun e => (H e, e)) proof.

Definition verify_proof (root : bytes) (key : bytes) (proof : list bytes) : vres :=
  verify_proof_db (S (length proof)) (content_db proof) root (keybytes_to_hex key).

(* ---- iterator.go -------------------------------------------------------- *)

(* one entry per node visited by NodeIterator.Next(true): path, Hash(), leaf blob *)
Definition it_entry := (nibbles * bytes * option bytes)%type.

Definition flat_mapi {A B} (f : nat -> A -> list B) : nat -> list A -> list B :=
  fix go (i : nat) (l : list A) : list B :=
    match l with
    | [] => []
    | c :: r => f i c ++ go (S i) r
    end.

Fixpoint walk (n : node) (path : nibbles) (h : bytes) : list it_entry :=
  match n with
  | Val v => [(path, [], Some v)]
  | Short k c => (path, h, None) :: walk c (path ++ k) (cached_hash c)
  | Full cs =>
    (path, h, None) ::
    flat_mapi (fun i c => match c with
                          | Empty => []
                          | _ => walk c (path ++ [N.of_nat i]) (cached_hash c)
                          end) 0 cs
  | Empty => [(path, h, None)]
  | HashN _ => [(path, h, None)]
  end.

(* all nodes from the start: the root state carries the root hash unless the trie is empty *)
Definition node_iter (t : node) : list it_entry :=
  walk t [] (match t with Empty => [] | _ => root_hash t end).

End Hashing.

(* key/value iteration (trie.Iterator): the leaves in NodeIterator order;
   keys in hex form with terminator *)
Fixpoint leaves (n : node) (path : nibbles) : list (nibbles * bytes) :=
  match n with
  | Val v => [(path, v)]
  | Short k c => leaves c (path ++ k)
  | Full cs => flat_mapi (fun i c => leaves c (path ++ [N.of_nat i])) 0 cs
  | _ => []
  end.

Definition iterate (t : node) : list (bytes * bytes) :=
  map (fun kv => (hex_to_keybytes (fst kv), snd kv)) (leaves t []).

(* lexicographic comparison of paths (bytes.Compare) *)
Fixpoint lex_ltb (a b : list N) : bool :=
  match a, b with
  | [], [] => false
  | [], _ :: _ => true
  | _ :: _, [] => false
  | x :: a', y :: b' => if x <? y then true else if y <? x then false else lex_ltb a' b'
  end.

Fixpoint drop_while {A} (f : A -> bool) (l : list A) : list A :=
  match l with
  | [] => []
  | x :: r => if f x then drop_while f r else l
  end.

(* NodeIterator(start): seek stops before the first node whose path is >= the
   hex start key without terminator *)
Definition node_iter_from (H : bytes -> bytes) (t : node) (start : bytes) : list it_entry :=
  let key := removelast (keybytes_to_hex start) in
  drop_while (fun e => lex_ltb (fst (fst e)) key) (node_iter H t).

(* ---- commit / re-open --------------------------------------------------- *)

Section Store.
Variable H : bytes -> bytes.

(* the (hash, blob) pairs Trie.Commit inserts into the Database, children first *)
Definition flat_map_first {A B} (f : A -> list B) : nat -> list A -> list B :=
  fix go (k : nat) (l : list A) : list B :=
    match k, l with
    | S k', c :: l' => f c ++ go k' l'
    | _, _ => []
    end.

Definition self_entry (n : node) : list (bytes * bytes) :=
  match store H (collapse H n) false with
  | HashN h => [(h, encode (collapse H n))]
  | _ => []
  end.

Fixpoint stored (n : node) : list (bytes * bytes) :=
  match n with
  | Short k c => stored c ++ self_entry n
  | Full cs => flat_map_first stored 16 cs ++ self_entry n
  | _ => []
  end.

Definition stored_children (n : node) : list (bytes * bytes) :=
  match n with
  | Short k c => stored c
  | Full cs => flat_map_first stored 16 cs
  | _ => []
  end.

(* Trie.Commit: the root is always stored (force) *)
Definition commit (t : node) : list (bytes * bytes) :=
  match t with
  | Empty => []
  | _ => stored_children t ++ [(root_hash H t, encode (collapse H t))]
  end.

(* eager expansion of a decoded node through a node store *)
Fixpoint expand (fuel : nat) (db : list (bytes * bytes)) (n : node) : node :=
  match fuel with
  | O => n
  | S f =>
    match n with
    | HashN h =>
      match assoc db h with
      | None => n
      | Some blob =>
        match decode_node decode_fuel blob with
        | DOk n' => expand f db n'
        | _ => n
        end
      end
    | Short k c => Short k (expand f db c)
    | Full cs => Full (map (expand f db) cs)
    | _ => n
    end
  end.

(* trie.New(root, db) followed by loading everything *)
Definition reopen (fuel : nat) (db : list (bytes * bytes)) (root : bytes) : node :=
  if list_eqb root empty_root then Empty else expand fuel db (HashN root).

End Store.

(* ---- lazy loading: the operations on a trie with unloaded (hash) nodes ------- *)

(* Trie.resolveHash: Database.node + mustDecodeNode; None = MissingNodeError *)
Definition resolve (db : list (bytes * bytes)) (h : bytes) : option node :=
  match assoc db h with
  | Some blob => match decode_node decode_fuel blob with DOk n => Some n | _ => None end
  | None => None
  end.

(* tryGet with the hashNode case; outer None = MissingNodeError / out of fuel *)
Fixpoint lget (fuel : nat) (db : list (bytes * bytes)) (n : node) (key : nibbles) : option (option bytes) :=
  match fuel with
  | O => None
  | S f =>
    match n with
    | Empty => Some None
    | Val v => Some (Some v)
    | Short k c => if key_mismatch k key then Some None else lget f db c (skipn (length k) key)
    | Full cs =>
      match key with
      | [] => Some None
      | i :: r => lget f db (nth (N.to_nat i) cs Empty) r
      end
    | HashN h => match resolve db h with None => None | Some rn => lget f db rn key end
    end
  end.

(* insert with the hashNode case *)
Fixpoint linsert (fuel : nat) (db : list (bytes * bytes)) (n : node) (key : nibbles) (value : node)
  : option (bool * node) :=
  match fuel with
  | O => None
  | S f =>
    match key with
    | [] => Some (match n with
                  | Val _ => (negb (val_eqb n value), value)
                  | _ => (true, value)
                  end)
    | k0 :: krest =>
      match n with
      | Short k c =>
        let m := prefix_len key k in
        if Nat.eqb m (length k) then
          match linsert f db c (skipn m key) value with
          | None => None
          | Some (dirty, nn) => Some (if dirty then (true, Short k nn) else (false, n))
          end
        else
          let b1 := set_nth empty17 (N.to_nat (nth m k 0)) (insert_nil (skipn (S m) k) c) in
          let b2 := set_nth b1 (N.to_nat (nth m key 0)) (insert_nil (skipn (S m) key) value) in
          Some (if Nat.eqb m 0 then (true, Full b2) else (true, Short (firstn m key) (Full b2)))
      | Full cs =>
        match linsert f db (nth (N.to_nat k0) cs Empty) krest value with
        | None => None
        | Some (dirty, nn) => Some (if dirty then (true, Full (set_nth cs (N.to_nat k0) nn)) else (false, n))
        end
      | Empty => Some (true, Short key value)
      | Val _ => Some (false, n)
      | HashN h =>
        match resolve db h with
        | None => None
        | Some rn =>
          match linsert f db rn key value with
          | None => None
          | Some (dirty, nn) => Some (if dirty then (true, nn) else (false, rn))
          end
        end
      end
    end
  end.

(* the reduction of a full node with one child left; the child is resolved to see whether it is a short node *)
Definition lcollapse (db : list (bytes * bytes)) (cs : list node) : option node :=
  match nonempty_idx cs with
  | [pos] =>
    let c := nth pos cs Empty in
    if Nat.eqb pos 16 then Some (Short [16] c)
    else match (match c with HashN h => resolve db h | _ => Some c end) with
         | None => None
         | Some (Short k2 c2) => Some (Short (N.of_nat pos :: k2) c2)
         | Some _ => Some (Short [N.of_nat pos] c)
         end
  | _ => Some (Full cs)
  end.

Fixpoint ldelete (fuel : nat) (db : list (bytes * bytes)) (n : node) (key : nibbles) : option (bool * node) :=
  match fuel with
  | O => None
  | S f =>
    match n with
    | Short k c =>
      let m := prefix_len key k in
      if (m <? length k)%nat then Some (false, n)
      else if Nat.eqb m (length key) then Some (true, Empty)
      else
        match ldelete f db c (skipn (length k) key) with
        | None => None
        | Some (dirty, ch) =>
          Some (if negb dirty then (false, n)
                else match ch with
                     | Short k2 c2 => (true, Short (k ++ k2) c2)
                     | _ => (true, Short k ch)
                     end)
        end
    | Full cs =>
      match key with
      | [] => Some (false, n)
      | k0 :: krest =>
        match ldelete f db (nth (N.to_nat k0) cs Empty) krest with
        | None => None
        | Some (dirty, nn) =>
          if negb dirty then Some (false, n)
          else match lcollapse db (set_nth cs (N.to_nat k0) nn) with
               | None => None
               | Some r => Some (true, r)
               end
        end
      end
    | Val _ => Some (true, Empty)
    | Empty => Some (false, Empty)
    | HashN h =>
      match resolve db h with
      | None => None
      | Some rn =>
        match ldelete f db rn key with
        | None => None
        | Some (dirty, nn) => Some (if dirty then (true, nn) else (false, rn))
        end
      end
    end
  end.

(* Trie.TryUpdate / TryDelete / TryGet on a lazily loaded trie *)
Definition l_update (fuel : nat) (db : list (bytes * bytes)) (t : node) (key value : bytes) : option node :=
  let k := keybytes_to_hex key in
  match value with
  | [] => match ldelete fuel db t k with Some (_, n) => Some n | None => None end
  | _ => match linsert fuel db t k (Val value) with Some (_, n) => Some n | None => None end
  end.
Definition l_delete (fuel : nat) (db : list (bytes * bytes)) (t : node) (key : bytes) : option node :=
  match ldelete fuel db t (keybytes_to_hex key) with Some (_, n) => Some n | None => None end.
Definition l_get (fuel : nat) (db : list (bytes * bytes)) (t : node) (key : bytes) : option (option bytes) :=
  lget fuel db t (keybytes_to_hex key).

(* trie.New(root, db): only the root node is loaded *)
Definition l_open (db : list (bytes * bytes)) (root : bytes) : option node :=
  if list_eqb root empty_root then Some Empty else resolve db root.

(* ---- core/types/derive_sha.go ------------------------------------------- *)

(* rlp.Encode(uint) *)
Definition rlp_uint (n : N) : bytes :=
  if N.eqb n 0 then [128] else rlp (Str (be_bytes n)).

Fixpoint derive_trie (i : N) (items : list bytes) (t : node) : node :=
  match items with
  | [] => t
  | x :: r => derive_trie (i + 1) r (t_update t (rlp_uint i) x)
  end.

Definition derive_sha (H : bytes -> bytes) (items : list bytes) : bytes :=
  root_hash H (derive_trie 0 items Empty).

(* ---- database.go: the reference-counting node cache ----------------------- *)

(* cachedNode: hash, implicit children (gatherChildren: hash references inside
   the collapsed node, with multiplicity), blob size, parents, explicit
   children (the children map: child -> count) *)
Record cnode := mkC {
  cn_hash : bytes; cn_kids : list bytes; cn_size : N; cn_parents : N; cn_ext : list (bytes * N)
}.

(* Database: the in-memory nodes in flush-list order (oldest first), the
   explicit children of the meta root (hash {}), the disk keys *)
Record dbstate := mkDb { db_nodes : list cnode; db_meta : list (bytes * N); db_disk : list bytes }.

Definition db_empty : dbstate := mkDb [] [] [].

Fixpoint find_node (l : list cnode) (h : bytes) : option cnode :=
  match l with
  | [] => None
  | c :: r => if list_eqb (cn_hash c) h then Some c else find_node r h
  end.

Fixpoint update_node (l : list cnode) (h : bytes) (f : cnode -> cnode) : list cnode :=
  match l with
  | [] => []
  | c :: r => if list_eqb (cn_hash c) h then f c :: r else c :: update_node r h f
  end.

Fixpoint remove_node (l : list cnode) (h : bytes) : list cnode :=
  match l with
  | [] => []
  | c :: r => if list_eqb (cn_hash c) h then r else c :: remove_node r h
  end.

(* gatherChildren on a decoded collapsed node *)
Fixpoint gather (n : node) : list bytes :=
  match n with
  | Short _ c => gather c
  | Full cs => flat_map_first gather 16 cs
  | HashN h => [h]
  | _ => []
  end.

Definition blob_kids (blob : bytes) : list bytes :=
  match decode_node decode_fuel blob with DOk n => gather n | _ => [] end.

Definition bump (d : N) (c : cnode) : cnode :=
  mkC (cn_hash c) (cn_kids c) (cn_size c) (cn_parents c + d) (cn_ext c).

(* Database.insert *)
Definition db_insert (s : dbstate) (hb : bytes * bytes) : dbstate :=
  let (h, blob) := hb in
  match find_node (db_nodes s) h with
  | Some _ => s
  | None =>
    let kids := blob_kids blob in
    let nodes := fold_left (fun l k => update_node l k (bump 1)) kids (db_nodes s) in
    mkDb (nodes ++ [mkC h kids (len blob) 0 []]) (db_meta s) (db_disk s)
  end.

Fixpoint ext_get (l : list (bytes * N)) (h : bytes) : N :=
  match l with
  | [] => 0
  | (k, c) :: r => if list_eqb k h then c else ext_get r h
  end.

Fixpoint ext_set (l : list (bytes * N)) (h : bytes) (c : N) : list (bytes * N) :=
  match l with
  | [] => if N.eqb c 0 then [] else [(h, c)]
  | (k, c0) :: r => if list_eqb k h then (if N.eqb c 0 then r else (k, c) :: r) else (k, c0) :: ext_set r h c
  end.

(* Database.reference; the meta root is the parent [] *)
Definition db_reference (s : dbstate) (child parent : bytes) : dbstate :=
  match find_node (db_nodes s) child with
  | None => s
  | Some _ =>
    match parent with
    | [] =>
      mkDb (update_node (db_nodes s) child (bump 1)) (ext_set (db_meta s) child (ext_get (db_meta s) child + 1)) (db_disk s)
    | _ =>
      match find_node (db_nodes s) parent with
      | None => s                                    (* Go: nil dereference; the harness never does this *)
      | Some p =>
        if N.ltb 0 (ext_get (cn_ext p) child) then s
        else
          let nodes := update_node (db_nodes s) child (bump 1) in
          mkDb (update_node nodes parent (fun c => mkC (cn_hash c) (cn_kids c) (cn_size c) (cn_parents c) (ext_set (cn_ext c) child 1)))
               (db_meta s) (db_disk s)
      end
    end
  end.

(* Database.dereference(child, parent); fuel bounds the recursion depth *)
Fixpoint db_deref (fuel : nat) (s : dbstate) (child parent : bytes) : dbstate :=
  match fuel with
  | O => s
  | S f =>
    (* drop the explicit parent->child reference *)
    let s1 :=
      match parent with
      | [] => let c := ext_get (db_meta s) child in
              if N.ltb 0 c then mkDb (db_nodes s) (ext_set (db_meta s) child (c - 1)) (db_disk s) else s
      | _ => match find_node (db_nodes s) parent with
             | None => s
             | Some p => let c := ext_get (cn_ext p) child in
                         if N.ltb 0 c
                         then mkDb (update_node (db_nodes s) parent
                                      (fun x => mkC (cn_hash x) (cn_kids x) (cn_size x) (cn_parents x) (ext_set (cn_ext x) child (c - 1))))
                                   (db_meta s) (db_disk s)
                         else s
             end
      end in
    match find_node (db_nodes s1) child with
    | None => s1
    | Some n =>
      let p' := if N.ltb 0 (cn_parents n) then cn_parents n - 1 else 0 in
      let s2 := mkDb (update_node (db_nodes s1) child (fun x => mkC (cn_hash x) (cn_kids x) (cn_size x) p' (cn_ext x)))
                     (db_meta s1) (db_disk s1) in
      if N.eqb p' 0 then
        (* cascade over childs(): explicit children, then implicit ones *)
        let s3 := fold_left (fun st k => db_deref f st k child) (map fst (cn_ext n) ++ cn_kids n) s2 in
        mkDb (remove_node (db_nodes s3) child) (db_meta s3) (db_disk s3)
      else s2
    end
  end.

Definition db_dereference (s : dbstate) (root : bytes) : dbstate :=
  match root with
  | [] => s
  | _ => db_deref (S (length (db_nodes s))) s root []
  end.

Definition add_disk (d : list bytes) (h : bytes) : list bytes :=
  if existsb (list_eqb h) d then d else d ++ [h].

(* Database.Cap(limit): flush the oldest nodes until the size is at most limit *)
Fixpoint cap_loop (nodes : list cnode) (size limit : N) (disk : list bytes) : list cnode * list bytes :=
  match nodes with
  | [] => ([], disk)
  | c :: r =>
    if N.ltb limit size
    then cap_loop r (size - (96 + cn_size c)) limit (add_disk disk (cn_hash c))
    else (nodes, disk)
  end.

Definition db_size (s : dbstate) : N :=
  fold_left (fun a c => a + 32 + cn_size c) (db_nodes s) 0 + 64 * len (map cn_size (db_nodes s)).

Definition db_cap (s : dbstate) (limit : N) : dbstate :=
  let (nodes, disk) := cap_loop (db_nodes s) (db_size s) limit (db_disk s) in
  mkDb nodes (db_meta s) disk.

(* Database.commit + uncache: everything in memory reachable from the node goes to disk *)
Fixpoint db_uncache (fuel : nat) (s : dbstate) (h : bytes) : dbstate :=
  match fuel with
  | O => s
  | S f =>
    match find_node (db_nodes s) h with
    | None => s
    | Some n =>
      let s1 := mkDb (remove_node (db_nodes s) h) (db_meta s) (add_disk (db_disk s) h) in
      fold_left (fun st k => db_uncache f st k) (map fst (cn_ext n) ++ cn_kids n) s1
    end
  end.

Definition db_commit (s : dbstate) (root : bytes) : dbstate :=
  db_uncache (S (length (db_nodes s))) s root.

(* ---- histories and the reference map ------------------------------------- *)

Inductive kvop := KUpdate (k v : bytes) | KDelete (k : bytes).

Definition apply_op (t : node) (o : kvop) : node :=
  match o with
  | KUpdate k v => t_update t k v
  | KDelete k => t_delete t k
  end.

(* the trie after a history, starting from the empty trie *)
Definition run (ops : list kvop) : node := fold_left apply_op ops Empty.

(* the reference: a finite map as a function; an update with an empty value removes the key *)
Definition fmap := bytes -> option bytes.
Definition m_apply (m : fmap) (o : kvop) : fmap :=
  fun k' =>
    match o with
    | KUpdate k v => if list_eqb k k' then (match v with [] => None | _ => Some v end) else m k'
    | KDelete k => if list_eqb k k' then None else m k'
    end.
Definition m_run (ops : list kvop) : fmap := fold_left m_apply ops (fun _ => None).

(* ---- copies of a trie (cpy := *t, SecureTrie.Copy): handles with value semantics ---- *)

Inductive hop := HOp (h : nat) (o : kvop) | HCopy (src : nat).

Definition h_apply (hs : list node) (o : hop) : list node :=
  match o with
  | HOp j op => set_nth hs j (apply_op (nth j hs Empty) op)
  | HCopy j => hs ++ [nth j hs Empty]
  end.

Definition h_run (ops : list hop) : list node := fold_left h_apply ops [Empty].

(* ---- secure_trie.go: every key is hashed first ------------------------------ *)

Section Secure.
Variable H : bytes -> bytes.
Definition s_update (t : node) (key value : bytes) : node := t_update t (H key) value.   (* SecureTrie.TryUpdate *)
Definition s_delete (t : node) (key : bytes) : node := t_delete t (H key).               (* SecureTrie.TryDelete *)
Definition s_get (t : node) (key : bytes) : option bytes := t_get t (H key).             (* SecureTrie.TryGet *)
Definition s_apply (t : node) (o : kvop) : node :=
  match o with
  | KUpdate k v => s_update t k v
  | KDelete k => s_delete t k
  end.
Definition s_run (ops : list kvop) : node := fold_left s_apply ops Empty.
End Secure.

(* a history on a lazily loaded trie; None = a node was missing (or the fuel ran out) *)
Definition l_apply (fuel : nat) (db : list (bytes * bytes)) (t : node) (o : kvop) : option node :=
  match o with
  | KUpdate k v => l_update fuel db t k v
  | KDelete k => l_delete fuel db t k
  end.

Fixpoint l_run (fuel : nat) (db : list (bytes * bytes)) (ops : list kvop) (t : node) : option node :=
  match ops with
  | [] => Some t
  | o :: r => match l_apply fuel db t o with Some t' => l_run fuel db r t' | None => None end
  end.

(* the same with the dirty flag of the trie (was any node rebuilt?) *)
Definition l_apply_d (fuel : nat) (db : list (bytes * bytes)) (st : bool * node) (o : kvop) : option (bool * node) :=
  let (d, t) := st in
  let r := match o with
           | KUpdate k [] => ldelete fuel db t (keybytes_to_hex k)
           | KUpdate k v => linsert fuel db t (keybytes_to_hex k) (Val v)
           | KDelete k => ldelete fuel db t (keybytes_to_hex k)
           end in
  match r with Some (d', t') => Some (d || d', t') | None => None end.

Fixpoint l_run_d (fuel : nat) (db : list (bytes * bytes)) (ops : list kvop) (st : bool * node) : option (bool * node) :=
  match ops with
  | [] => Some st
  | o :: r => match l_apply_d fuel db st o with Some st' => l_run_d fuel db r st' | None => None end
  end.

(* Trie.Commit: the Database.insert calls it issues, in order (children before
   parents, the root last and always); a trie none of whose nodes was rebuilt
   since it was opened inserts nothing; unloaded (hash) nodes are skipped *)
Definition commit_seq (H : bytes -> bytes) (lt : node) (dirty : bool) : list (bytes * bytes) :=
  if dirty then commit H lt else [].

(* trie.New(base) ; updates ; Commit : the new root and the insert sequence *)
Definition trie_build (H : bytes -> bytes) (fuel : nat) (blobs : list (bytes * bytes)) (base : bytes) (ops : list kvop)
  : option (bytes * list (bytes * bytes)) :=
  match (match base with [] => Some Empty | _ => l_open blobs base end) with
  | None => None
  | Some lt0 =>
    match l_run_d fuel blobs ops (false, lt0) with
    | None => None
    | Some (d, lt) => Some (root_hash H lt, commit_seq H lt d)
    end
  end.

(* the entries of an insert sequence that Database.insert does not skip *)
Fixpoint fresh_entries (known : list bytes) (seq : list (bytes * bytes)) : list (bytes * bytes) :=
  match seq with
  | [] => []
  | (h, b) :: r => if existsb (list_eqb h) known then fresh_entries known r else (h, b) :: fresh_entries (h :: known) r
  end.

(* DeriveSha as a history: item i is stored under rlp(i) *)
Fixpoint derive_ops (i : N) (items : list bytes) : list kvop :=
  match items with
  | [] => []
  | x :: r => KUpdate (rlp_uint i) x :: derive_ops (i + 1) r
  end.

(* ---- correspondence runner ---------------------------------------------- *)
From VF.Lib Require Import Keccak.
From Coq Require Import Uint63 ZArith.

(* byte strings are written by the harness as 7-byte big-endian machine words
   (primitive integers parse fast): [B len words] *)
Fixpoint word_bytes (k : nat) (w : int) : bytes :=
  match k with
  | O => []
  | S k' => Z.to_N (Uint63.to_Z (Uint63.land (Uint63.lsr w (Uint63.of_Z (8 * Z.of_nat k'))) 255%uint63)) :: word_bytes k' w
  end.

Fixpoint unpack (n : nat) (ws : list int) : bytes :=
  match ws with
  | [] => []
  | w :: r => if (n <=? 7)%nat then word_bytes n w else word_bytes 7 w ++ unpack (n - 7) r
  end.

Definition B (n : int) (ws : list int) : bytes := unpack (Z.to_nat (Uint63.to_Z n)) ws.

Fixpoint node_eqb (a b : node) : bool :=
  match a, b with
  | Empty, Empty => true
  | Val x, Val y => list_eqb x y
  | HashN x, HashN y => list_eqb x y
  | Short k c, Short k' c' => list_eqb k k' && node_eqb c c'
  | Full cs, Full cs' =>
    (fix go (l l' : list node) : bool :=
       match l, l' with
       | [], [] => true
       | x :: r, y :: r' => node_eqb x y && go r r'
       | _, _ => false
       end) cs cs'
  | _, _ => false
  end.

Definition obytes_eqb (a b : option bytes) : bool :=
  match a, b with
  | None, None => true
  | Some x, Some y => list_eqb x y
  | _, _ => false
  end.

Fixpoint list_eqb_by {A} (f : A -> A -> bool) (a b : list A) : bool :=
  match a, b with
  | [], [] => true
  | x :: a', y :: b' => f x y && list_eqb_by f a' b'
  | _, _ => false
  end.

Definition kv_eqb (a b : bytes * bytes) : bool := list_eqb (fst a) (fst b) && list_eqb (snd a) (snd b).
Definition entry_eqb (a b : it_entry) : bool :=
  list_eqb (fst (fst a)) (fst (fst b)) && list_eqb (snd (fst a)) (snd (fst b)) && obytes_eqb (snd a) (snd b).

Definition vres_eqb (a b : vres) : bool :=
  match a, b with
  | VVal x, VVal y => list_eqb x y
  | VAbsent, VAbsent | VErr, VErr | VPanic, VPanic => true
  | _, _ => false
  end.

(* the 32-byte zero hash is printed as [] by the harness *)

Inductive op :=
| OUpdate (k v : bytes)
| ODelete (k : bytes)
| OGet (k : bytes) (r : option bytes)
| OHash (root : bytes)
| OIter (kvs : list (bytes * bytes))
| ONodeIter (start : bytes) (entries : list it_entry)
| OProve (k : bytes) (from_level : nat) (proof : list bytes) (r : vres)
| OVerify (root k : bytes) (proof : list bytes) (r : vres)            (* content-addressed proof set *)
| OVerifyDb (root k : bytes) (pdb : list (bytes * bytes)) (r : vres)  (* arbitrary (lying) proof database *)
| OCommit (root : bytes) (nodes : list (bytes * bytes))               (* Trie.Commit; all nodes held by the Database afterwards *)
| OReopen                                                              (* trie.New(root, db) *)
| ODerive (items : list bytes) (root : bytes)                          (* types.DeriveSha *)
| OKeccak (data h : bytes)                                             (* the table's hash really is Keccak-256 *)
| OReset.                                                              (* next handle of a history with copies: start again from the empty trie *)

(* merge node stores, first occurrence of a hash wins (Database.insert skips known hashes) *)
Fixpoint db_merge (db add : list (bytes * bytes)) : list (bytes * bytes) :=
  match add with
  | [] => db
  | (h, b) :: r => match assoc db h with
                   | Some _ => db_merge db r
                   | None => db_merge (db ++ [(h, b)]) r
                   end
  end.

(* database schedules *)
Inductive gop :=
| GInsert (nodes : list (bytes * bytes))       (* raw Database.insert calls *)
| GBuild (base : bytes) (ops : list kvop) (root : bytes) (inserted : list (bytes * bytes))
                                               (* trie.New(base), updates, Trie.Commit: observed root and the nodes the
                                                  real Database.insert calls appended to the flush-list, in order *)
| GReference (child parent : bytes)
| GDereference (root : bytes)
| GCap (limit : N)
| GCommit (root : bytes)
| GObserve (flush : list (bytes * N)) (meta : list (bytes * N)) (disk : list bytes).
                                               (* flush-list (hash, parents) oldest first; meta root children; disk keys *)

Record gstate := mkG { g_db : dbstate; g_blobs : list (bytes * bytes); g_ok : bool }.

Definition gstep (H : bytes -> bytes) (s : gstate) (o : gop) : gstate :=
  let st := g_db s in
  let ok := g_ok s in
  let same (st' : dbstate) := mkG st' (g_blobs s) ok in
  match o with
  | GInsert nodes => mkG (fold_left db_insert nodes st) (db_merge (g_blobs s) nodes) ok
  | GBuild base ops root inserted =>
    match trie_build H 400 (g_blobs s) base ops with
    | None => mkG st (g_blobs s) false
    | Some (r, seq) =>
      mkG (fold_left db_insert seq st) (db_merge (g_blobs s) seq)
          (ok && list_eqb r root
              && list_eqb_by (fun a b => list_eqb (fst a) (fst b) && list_eqb (snd a) (snd b))
                             (fresh_entries (map cn_hash (db_nodes st)) seq) inserted)
    end
  | GReference c p => same (db_reference st c p)
  | GDereference r => same (db_dereference st r)
  | GCap l => same (db_cap st l)
  | GCommit r => same (db_commit st r)
  | GObserve flush meta disk =>
    mkG st (g_blobs s)
        (ok
         && list_eqb_by (fun a b => list_eqb (fst a) (fst b) && N.eqb (snd a) (snd b))
                        (map (fun c => (cn_hash c, cn_parents c)) (db_nodes st)) flush
         && forallb (fun p => N.eqb (ext_get meta (fst p)) (snd p)) (db_meta st)
         && forallb (fun p => N.eqb (ext_get (db_meta st) (fst p)) (snd p)) meta
         && forallb (fun h => existsb (list_eqb h) disk) (db_disk st)
         && forallb (fun h => existsb (list_eqb h) (db_disk st)) disk)
  end.

Record case := mkCase {
  c_secure : bool;                      (* SecureTrie: keys are hashed first *)
  c_tab : list (bytes * bytes);         (* memo of Keccak-256 (data, hash) computed by the implementation's library *)
  c_ops : list op;
  c_gops : list gop                     (* database schedule (empty for trie histories) *)
}.

Definition tab_hash (tab : list (bytes * bytes)) (e : bytes) : bytes :=
  match assoc tab e with Some h => h | None => keccak256 e end.

Definition db_subset (a b : list (bytes * bytes)) : bool :=
  forallb (fun p => obytes_eqb (assoc b (fst p)) (Some (snd p))) a.

Record rstate := mkR { r_trie : node; r_db : list (bytes * bytes); r_ok : bool }.

Definition lazy_fuel : nat := 400.

(* the trie of the runner is lazy: after a re-open only the nodes the
   operations touch are loaded; observations that walk the whole trie
   (iteration, proofs, commit) expand it first *)
Definition run_op (H : bytes -> bytes) (secure : bool) (s : rstate) (o : op) : rstate :=
  let lt := r_trie s in
  let db := r_db s in
  let hk (k : bytes) := if secure then H k else k in
  let ex := fun _ : unit => expand lazy_fuel db lt in
  let chk (b : bool) := mkR lt db (r_ok s && b) in
  match o with
  | OUpdate k v =>
    match l_update lazy_fuel db lt (hk k) v with
    | Some lt' => mkR lt' db (r_ok s)
    | None => mkR lt db false
    end
  | ODelete k =>
    match l_delete lazy_fuel db lt (hk k) with
    | Some lt' => mkR lt' db (r_ok s)
    | None => mkR lt db false
    end
  | OGet k r => chk (match l_get lazy_fuel db lt (hk k) with Some g => obytes_eqb g r | None => false end)
  | OHash root => chk (list_eqb (root_hash H lt) root)
  | OIter kvs => chk (list_eqb_by kv_eqb (iterate (ex tt)) kvs)
  | ONodeIter start es => chk (list_eqb_by entry_eqb (node_iter_from H (ex tt) start) es)
  | OProve k fl proof r =>
    chk (list_eqb_by list_eqb (prove H (ex tt) k fl) proof
         && vres_eqb (verify_proof H (root_hash H lt) k proof) r)
  | OVerify root k proof r => chk (vres_eqb (verify_proof H root k proof) r)
  | OVerifyDb root k pdb r =>
    chk (vres_eqb (verify_proof_db (S (length pdb)) pdb root (keybytes_to_hex k)) r)
  | OCommit root nodes =>
    let t := ex tt in
    let db' := db_merge db (commit H t) in
    mkR lt db' (r_ok s && list_eqb (root_hash H lt) root && list_eqb (root_hash H t) root
                && db_subset db' nodes && db_subset nodes db')
  | OReopen =>
    match l_open db (root_hash H lt) with
    | Some lt' => let t := ex tt in
                  mkR lt' db (r_ok s && node_eqb (expand lazy_fuel db lt') t
                               && node_eqb (reopen lazy_fuel db (root_hash H lt)) t)
    | None => mkR lt db false
    end
  | ODerive items root => chk (list_eqb (derive_sha H items) root)
  | OKeccak data h => chk (list_eqb (keccak256 data) h)
  | OReset => mkR Empty db (r_ok s)
  end.

Definition case_ok (c : case) : bool :=
  r_ok (fold_left (run_op (tab_hash (c_tab c)) (c_secure c)) (c_ops c) (mkR Empty [] true))
  && g_ok (fold_left (gstep (tab_hash (c_tab c))) (c_gops c) (mkG db_empty [] true)).

Fixpoint mismatches_from (i : N) (l : list case) : list N :=
  match l with
  | [] => []
  | c :: r => if case_ok c then mismatches_from (i + 1) r else i :: mismatches_from (i + 1) r
  end.
Definition mismatches := mismatches_from 0.
