(* C13 - lemmas, part 12: lazy loading.  The operations on a trie whose
   unloaded parts are hash nodes (resolved from the node store on demand)
   refine the operations on the fully loaded trie. *)
From VF.C13 Require Import Model Proofs Proofs4 Proofs5 Proofs6 Proofs8.
From Coq Require Import Lia ZifyBool ZifyN ZifyNat.
Local Open Scope N_scope.

Section Lazy.
Variable H : bytes -> bytes.
Hypothesis Hlen : forall x, length (H x) = 32%nat.
Variable db : list (bytes * bytes).

Notation enc := (enc H).
Notation emb := (emb H).
Notation dview := (dview H).
Notation dref := (dref H).
Notation hashed := (hashed H).
Notation has_node := (has_node H db).

(* an unloaded sub-trie: canonical, stored under its hash, with all its hashed descendants *)
Definition lzh (n : node) : Prop :=
  canon n /\ small n /\ hashed n = true /\ has_node n /\
  (forall m, In m (desc n) -> hashed m = true -> has_node m).

(* the lazy node l stands for the loaded node n *)
Fixpoint lz (l n : node) : Prop :=
  match l with
  | HashN h => h = H (enc n) /\ lzh n
  | Empty => n = Empty
  | Val v => n = Val v
  | Short k c => match n with Short k' c' => k = k' /\ lz c c' | _ => False end
  | Full cs =>
    match n with
    | Full cs' =>
      (fix go (cs cs' : list node) : Prop :=
         match cs, cs' with
         | [], [] => True
         | c :: r, c' :: r' => lz c c' /\ go r r'
         | _, _ => False
         end) cs cs'
    | _ => False
    end
  end.

Lemma lz_full : forall cs cs', lz (Full cs) (Full cs') <-> Forall2 lz cs cs'.
Proof.
  induction cs as [|c r IH]; intros cs'; destruct cs' as [|c' r'].
  - cbn. split; [constructor|trivial].
  - cbn. split; [intros []|intro F; inversion F].
  - cbn. split; [intros []|intro F; inversion F].
  - split.
    + intros [A B]. constructor; [exact A|]. apply IH. exact B.
    + intro F. inversion F; subst. split; [assumption|]. apply IH. assumption.
Qed.

Lemma forall2_length : forall (A B : Type) (R : A -> B -> Prop) l l', Forall2 R l l' -> length l = length l'.
Proof. induction 1; cbn; congruence. Qed.

Lemma forall2_nth : forall (R : node -> node -> Prop) l l' i, Forall2 R l l' -> (i < length l)%nat -> R (nth i l Empty) (nth i l' Empty).
Proof. intros R l l' i F. revert i. induction F as [|a b la lb Hab _ IH]; intros i Hi; [cbn in Hi; lia|]. destruct i; [exact Hab|]. apply IH. cbn in Hi. lia. Qed.

Lemma lz_refl_loaded : forall n, canon n -> lz n n.
Proof.
  induction n as [|vv|k c IH|cs IH|hh] using node_ind'; intro Hc; try discriminate.
  - cbn. split; [reflexivity|]. destruct (canon_short_inv _ _ Hc) as [[_ Hv]|[_ [_ [_ Hcc]]]].
    + destruct (is_valne_inv _ Hv) as [v [-> _]]. reflexivity.
    + apply IH. exact Hcc.
  - apply lz_full. destruct (canon_full_inv _ Hc) as [Hl [Hs _]].
    assert (forall i, (i < length cs)%nat -> lz (nth i cs Empty) (nth i cs Empty)) as Hi.
    { intros i Hi. pose proof (Hs i ltac:(lia)) as Si. unfold slot_ok in Si. rewrite Forall_forall in IH.
      destruct (i <? 16)%nat.
      - destruct Si as [->|Hcc]; [reflexivity|]. apply IH; [apply nth_In; exact Hi|exact Hcc].
      - destruct Si as [->|Hv]; [reflexivity|]. destruct (is_valne_inv _ Hv) as [v [-> _]]. reflexivity. }
    clear -Hi. induction cs as [|c r IHr]; [constructor|]. constructor.
    + apply (Hi 0%nat). cbn. lia.
    + apply IHr. intros i Hlt. apply (Hi (S i)). cbn. lia.
Qed.

(* what a slot of a canonical branch / the child of a canonical short node can be *)
Lemma lz_empty_r : forall l, lz l Empty -> l = Empty.
Proof. intros l Hl. destruct l; cbn in Hl; try contradiction; try discriminate; [reflexivity|]. destruct Hl as [_ [Hc _]]. discriminate. Qed.

Lemma lz_val_r : forall l v, lz l (Val v) -> l = Val v.
Proof. intros l v Hl. destruct l; cbn in Hl; try contradiction; try discriminate; [symmetry; exact Hl|]. destruct Hl as [_ [Hc _]]. discriminate. Qed.

(* the decoded view of a stored node is a lazy form of it *)
Lemma dview_lz : forall n, canon n -> small n ->
  (forall m, In m (desc n) -> hashed m = true -> has_node m) -> lz (dview n) n.
Proof.
  induction n as [|vv|k c IH|cs IH|hh] using node_ind'; intros Hc Hs Hdb; try discriminate.
  - cbn [Proofs5.dview lz]. split; [reflexivity|]. cbn [small] in Hs. destruct Hs as [_ Hsc].
    destruct (canon_short_inv _ _ Hc) as [[_ Hv]|[_ [_ [Hfc Hcc]]]].
    + destruct (is_valne_inv _ Hv) as [v [-> _]]. reflexivity.
    + destruct c as [| | |cs2|]; try discriminate.
      assert (forall m, In m (desc (Full cs2)) -> hashed m = true -> has_node m) as Hdbc.
      { intros m Hm Hh. apply Hdb; [|exact Hh]. cbn [desc]. right. exact Hm. }
      destruct (emb (Full cs2)) eqn:E.
      * apply IH; assumption.
      * cbn [lz]. split; [reflexivity|]. repeat split; try assumption.
        -- unfold Proofs6.hashed. rewrite E. reflexivity.
        -- apply Hdb; [cbn [desc]; left; reflexivity|unfold Proofs6.hashed; rewrite E; reflexivity].
  - destruct (canon_full_inv _ Hc) as [Hl [Hslots _]]. apply small_full in Hs.
    cbn [Proofs5.dview]. apply lz_full.
    assert (forall i, (i < length cs)%nat ->
              lz (nth i (map_first (fun c => match c with
                                            | Short _ _ | Full _ => if emb c then dview c else HashN (H (enc c))
                                            | _ => c end) 16 cs) Empty) (nth i cs Empty)) as Hi.
    { intros i Hi. rewrite nth_map_first by exact Hi.
      pose proof (Hslots i ltac:(lia)) as Si. unfold slot_ok in Si.
      set (c := nth i cs Empty) in *. assert (In c cs) as Hin by (apply nth_In; exact Hi).
      destruct (i <? 16)%nat eqn:E16.
      - destruct Si as [Ec|Hcc]; [rewrite Ec; reflexivity|].
        assert (is_node c) as Hnc by (destruct c; try discriminate; exact I).
        rewrite Forall_forall in IH, Hs.
        assert (In c (firstn 16 cs)) as Hfn.
        { apply Nat.ltb_lt in E16. unfold c. rewrite <- (firstn_skipn 16 cs) at 1. rewrite app_nth1 by (rewrite firstn_length; lia).
          apply nth_In. rewrite firstn_length. lia. }
        assert (forall m, In m (desc c) -> hashed m = true -> has_node m) as Hdbc.
        { intros m Hm Hh. apply Hdb; [|exact Hh]. cbn [desc]. apply (in_flat_map_first _ 16 cs m c Hfn).
          destruct c; try contradiction; right; exact Hm. }
        assert ((match c with Short _ _ | Full _ => if emb c then dview c else HashN (H (enc c)) | _ => c end)
                = if emb c then dview c else HashN (H (enc c))) as -> by (destruct c; try contradiction; reflexivity).
        destruct (emb c) eqn:E.
        + apply (IH c Hin Hcc (Hs c Hin) Hdbc).
        + cbn [lz]. split; [reflexivity|]. repeat split; try assumption; [apply Hs; exact Hin|unfold Proofs6.hashed; rewrite E; reflexivity|].
          apply Hdb; [|unfold Proofs6.hashed; rewrite E; reflexivity]. cbn [desc]. apply (in_flat_map_first _ 16 cs c c Hfn).
          destruct c; try contradiction; left; reflexivity.
      - destruct Si as [Ec|Hv]; [rewrite Ec; reflexivity|]. destruct (is_valne_inv _ Hv) as [v [Ev _]]. rewrite Ev. reflexivity. }
    set (g := fun c => match c with Short _ _ | Full _ => if emb c then dview c else HashN (H (enc c)) | _ => c end) in *.
    assert (length (map_first g 16 cs) = length cs) as Hlm by apply map_first_length.
    clear -Hi Hlm. revert Hi Hlm. generalize (map_first g 16 cs). intro l. revert l.
    induction cs as [|c r IHr]; intros l Hi Hlm; destruct l as [|x l]; try discriminate; [constructor|].
    constructor.
    + apply (Hi 0%nat). cbn. lia.
    + apply IHr; [|cbn in Hlm; lia]. intros i Hlt. apply (Hi (S i)). cbn. lia.
Qed.

Lemma resolve_lz : forall n, lzh n -> resolve db (H (enc n)) = Some (dview n) /\ lz (dview n) n.
Proof.
  intros n [Hc [Hs [Hh [Hn Hd]]]]. split; [|apply dview_lz; assumption].
  unfold resolve. unfold Proofs8.has_node in Hn. rewrite Hn.
  rewrite <- (app_nil_r (enc n)). rewrite (decode_canon H Hlen n [] Hc Hs). reflexivity.
Qed.

(* ---- hashing a lazy trie gives the hash of the loaded one ------------------------ *)

Lemma store_hash : forall h f, store H (HashN h) f = HashN h.
Proof. reflexivity. Qed.

Lemma lz_store : forall n l, canon n -> lz l n ->
  store H (collapse H l) false = store H (collapse H n) false /\
  (match l with HashN _ => True | _ => collapse H l = collapse H n end).
Proof.
  induction n as [|vv|k c IH|cs IH|hh] using node_ind'; intros l Hc Hl; try discriminate.
  - (* Short *)
    destruct l as [| |k2 lc|lcs|h]; cbn [lz] in Hl; try discriminate; try contradiction.
    + destruct Hl as [-> Hlc].
      assert (collapse H (Short k lc) = collapse H (Short k c)) as E.
      { cbn [collapse]. f_equal. destruct (canon_short_inv _ _ Hc) as [[_ Hv]|[_ [_ [Hfc Hcc]]]].
        - destruct (is_valne_inv _ Hv) as [v [-> _]]. apply lz_val_r in Hlc. subst lc. reflexivity.
        - destruct (IH lc Hcc Hlc) as [E1 _].
          destruct c; try discriminate. destruct lc as [| | | |h]; cbn [lz] in Hlc; try discriminate; try contradiction; exact E1. }
      split; [rewrite E; reflexivity|exact E].
    + destruct Hl as [-> [_ [_ [Hh _]]]]. split; [|exact I].
      change (collapse H (HashN (H (enc (Short k c))))) with (HashN (H (enc (Short k c)))). rewrite store_hash. rewrite (store_node H (Short k c) I).
      unfold Proofs6.hashed in Hh. apply negb_true_iff in Hh. rewrite Hh. reflexivity.
  - (* Full *)
    destruct l as [| |k2 lc|lcs|h]; try (cbn [lz] in Hl; try discriminate; contradiction).
    + apply lz_full in Hl. destruct (canon_full_inv _ Hc) as [Hlen17 [Hslots _]].
      assert (collapse H (Full lcs) = collapse H (Full cs)) as E.
      { cbn [collapse]. f_equal.
        assert (length lcs = length cs) as Hll by (apply (forall2_length _ _ _ _ _ Hl)).
        apply (nth_ext _ _ Empty Empty); [rewrite !map_first_length; exact Hll|].
        intros i Hi. rewrite map_first_length in Hi. rewrite !nth_map_first by lia.
        assert (lz (nth i lcs Empty) (nth i cs Empty)) as Hli by (apply forall2_nth; [exact Hl|lia]).
        pose proof (Hslots i ltac:(lia)) as Si. unfold slot_ok in Si.
        destruct (i <? 16)%nat.
        - destruct Si as [Ec|Hcc].
          + rewrite Ec in *. apply lz_empty_r in Hli. rewrite Hli. reflexivity.
          + rewrite Forall_forall in IH. assert (In (nth i cs Empty) cs) as Hinc by (apply nth_In; lia).
            destruct (IH (nth i cs Empty) Hinc _ Hcc Hli) as [E1 _].
            destruct (nth i cs Empty) eqn:Ec; try discriminate;
              destruct (nth i lcs Empty) eqn:El; cbn [lz] in Hli; try discriminate; try contradiction; exact E1.
        - destruct Si as [Ec|Hv].
          + rewrite Ec in *. apply lz_empty_r in Hli. exact Hli.
          + destruct (is_valne_inv _ Hv) as [v [Ev _]]. rewrite Ev in *. apply lz_val_r in Hli. exact Hli. }
      split; [rewrite E; reflexivity|exact E].
    + cbn [lz] in Hl. destruct Hl as [-> [_ [_ [Hh _]]]]. split; [|exact I].
      change (collapse H (HashN (H (enc (Full cs))))) with (HashN (H (enc (Full cs)))). rewrite store_hash. rewrite (store_node H (Full cs) I).
      unfold Proofs6.hashed in Hh. apply negb_true_iff in Hh. rewrite Hh. reflexivity.
Qed.

Lemma lz_root_hash : forall l n, canon_root n -> lz l n -> root_hash H l = root_hash H n.
Proof.
  intros l n [->|Hc] Hl.
  - apply lz_empty_r in Hl. subst. reflexivity.
  - assert (is_node n) as Hn by (destruct n; try discriminate; exact I).
    destruct (lz_store n l Hc Hl) as [_ E].
    destruct l as [| |k lc|lcs|h].
    + cbn in Hl. subst. contradiction.
    + cbn in Hl. subst. contradiction.
    + unfold root_hash, hash_node. rewrite E. destruct n; try contradiction; reflexivity.
    + unfold root_hash, hash_node. rewrite E. destruct n; try contradiction; reflexivity.
    + cbn [lz] in Hl. destruct Hl as [-> _]. rewrite (root_hash_node H n Hn). reflexivity.
Qed.

(* ---- lookups ------------------------------------------------------------------------ *)

Definition okn (n : node) : Prop := n = Empty \/ (exists v, n = Val v) \/ canon n.

Lemma get_full_nth : forall cs i r, get (Full cs) (i :: r) = get (nth (N.to_nat i) cs Empty) r.
Proof.
  intros cs i r. cbn [get]. destruct (Nat.lt_ge_cases (N.to_nat i) (length cs)) as [Hl|Hl].
  - apply (nth_apply_nth _ _ (fun c => get c r) None cs (N.to_nat i) Empty Hl).
  - rewrite nth_apply_default by exact Hl. rewrite nth_overflow by exact Hl. reflexivity.
Qed.

Lemma okn_slot : forall cs i, canon (Full cs) -> okn (nth i cs Empty).
Proof.
  intros cs i Hc. destruct (canon_full_inv _ Hc) as [Hl [Hs _]].
  destruct (Nat.lt_ge_cases i 17) as [Hi|Hi]; [|left; apply nth_overflow; lia].
  pose proof (Hs i ltac:(lia)) as Si. unfold slot_ok in Si. destruct (i <? 16)%nat.
  - destruct Si as [E|Hcc]; [left; exact E|right; right; exact Hcc].
  - destruct Si as [E|Hv]; [left; exact E|right; left]. destruct (is_valne_inv _ Hv) as [v [E _]]. exists v. exact E.
Qed.

Lemma okn_short_child : forall k c, canon (Short k c) -> okn c.
Proof.
  intros k c Hc. destruct (canon_short_inv _ _ Hc) as [[_ Hv]|[_ [_ [_ Hcc]]]].
  - right. left. destruct (is_valne_inv _ Hv) as [v [E _]]. exists v. exact E.
  - right. right. exact Hcc.
Qed.

Lemma lget_refines : forall n l, okn n -> lz l n ->
  forall f key, (2 * height n + 2 <= f)%nat -> lget f db l key = Some (get n key).
Proof.
  induction n as [|vv|k c IH|cs IH|hh] using node_ind'; intros l Hok Hl f key Hf.
  - apply lz_empty_r in Hl. subst l. destruct f; [lia|reflexivity].
  - apply lz_val_r in Hl. subst l. destruct f; [lia|reflexivity].
  - (* Short *)
    assert (canon (Short k c)) as Hc by (destruct Hok as [E|[[v E]|Hc]]; [discriminate|discriminate|exact Hc]).
    assert (forall lc f', lz lc c -> (2 * height (Short k c) + 1 <= f')%nat ->
              lget f' db (Short k lc) key = Some (get (Short k c) key)) as Hstruct.
    { intros lc f' Hlc Hf'. cbn [height] in Hf'. destruct f' as [|f'']; [lia|]. cbn [lget get].
      destruct (key_mismatch k key); [reflexivity|]. apply IH; [apply (okn_short_child k c Hc)|exact Hlc|lia]. }
    destruct l as [| |k2 lc|lcs|h]; cbn [lz] in Hl; try discriminate; try contradiction.
    + destruct Hl as [-> Hlc]. apply Hstruct; [exact Hlc|lia].
    + destruct Hl as [-> Hh]. destruct (resolve_lz _ Hh) as [Er Hd].
      destruct f as [|f']; [lia|]. cbn [lget]. rewrite Er.
      cbn [Proofs5.dview] in *. cbn [lz] in Hd. destruct Hd as [_ Hd]. apply Hstruct; [exact Hd|lia].
  - (* Full *)
    assert (canon (Full cs)) as Hc by (destruct Hok as [E|[[v E]|Hc]]; [discriminate|discriminate|exact Hc]).
    assert (forall lcs f', Forall2 lz lcs cs -> (2 * height (Full cs) + 1 <= f')%nat ->
              lget f' db (Full lcs) key = Some (get (Full cs) key)) as Hstruct.
    { intros lcs f' Hlcs Hf'. destruct f' as [|f'']; [lia|]. cbn [lget]. destruct key as [|i r]; [reflexivity|].
      rewrite get_full_nth.
      destruct (Nat.lt_ge_cases (N.to_nat i) (length cs)) as [Hi|Hi].
      - rewrite Forall_forall in IH. apply (IH (nth (N.to_nat i) cs Empty) (nth_In _ _ Hi)).
        + apply okn_slot. exact Hc.
        + apply forall2_nth; [exact Hlcs|]. rewrite (forall2_length _ _ _ _ _ Hlcs). exact Hi.
        + pose proof (height_child_full cs _ (nth_In _ Empty Hi)). lia.
      - rewrite (nth_overflow cs) by exact Hi. rewrite nth_overflow by (rewrite (forall2_length _ _ _ _ _ Hlcs); exact Hi).
        destruct f''; [cbn [height] in Hf'; lia|reflexivity]. }
    destruct l as [| |k2 lc|lcs|h]; try (cbn [lz] in Hl; try discriminate; contradiction).
    + apply lz_full in Hl. apply Hstruct; [exact Hl|lia].
    + cbn [lz] in Hl. destruct Hl as [-> Hh]. destruct (resolve_lz _ Hh) as [Er Hd].
      destruct f as [|f']; [lia|]. cbn [lget]. rewrite Er.
      cbn [Proofs5.dview] in *. apply lz_full in Hd. apply Hstruct; [exact Hd|lia].
  - destruct Hok as [E|[[v E]|Hc]]; discriminate.
Qed.

(* ---- insert ---------------------------------------------------------------------------- *)

Lemma forall2_set_nth : forall (R : node -> node -> Prop) l l' j x x', Forall2 R l l' -> R x x' ->
  Forall2 R (set_nth l j x) (set_nth l' j x').
Proof.
  intros R l l' j x x' F Hx. revert j. induction F as [|a b la lb Hab Hl IH]; intro j; [constructor|].
  destruct j; cbn; constructor; try assumption. apply IH.
Qed.

Lemma insert_empty_eq : forall krest value, insert Empty krest value = (true, insert_nil krest value).
Proof. intros [|k r] value; reflexivity. Qed.

Lemma insert_full_nth : forall cs k0 krest value,
  nth_apply (fun c => insert c krest value) (true, insert_nil krest value) cs (N.to_nat k0) =
  insert (nth (N.to_nat k0) cs Empty) krest value.
Proof.
  intros cs k0 krest value. destruct (Nat.lt_ge_cases (N.to_nat k0) (length cs)) as [Hl|Hl].
  - apply (nth_apply_nth _ _ (fun c => insert c krest value) _ cs (N.to_nat k0) Empty Hl).
  - rewrite nth_apply_default by exact Hl. rewrite nth_overflow by exact Hl. symmetry. apply insert_empty_eq.
Qed.

Lemma lz_insert_nil : forall ks lc c, lz lc c -> lz (insert_nil ks lc) (insert_nil ks c).
Proof. intros [|k r] lc c Hl; [exact Hl|]. cbn. split; [reflexivity|exact Hl]. Qed.

Lemma lz_empty17 : Forall2 lz empty17 empty17.
Proof. unfold empty17. cbn. repeat constructor. Qed.

Lemma lz_hash_absurd : forall l hh, lz l (HashN hh) -> False.
Proof. intros l hh Hl. destruct l; cbn in Hl; try discriminate; try contradiction. destruct Hl as [_ [Hc _]]. discriminate. Qed.

Lemma linsert_refines : forall n l, lz l n -> forall key v f, (2 * height n + 2 <= f)%nat ->
  exists l', linsert f db l key (Val v) = Some (fst (insert n key (Val v)), l') /\ lz l' (snd (insert n key (Val v))).
Proof.
  induction n as [|vv|k c IH|cs IH|hh] using node_ind'; intros l Hl key v f Hf.
  - (* Empty *)
    apply lz_empty_r in Hl. subst l. destruct f as [|f']; [lia|]. destruct key as [|k0 kr]; cbn.
    + eexists. split; [reflexivity|reflexivity].
    + eexists. split; [reflexivity|]. cbn. split; reflexivity.
  - (* Val *)
    apply lz_val_r in Hl. subst l. destruct f as [|f']; [lia|]. destruct key as [|k0 kr]; cbn.
    + eexists. split; [reflexivity|reflexivity].
    + eexists. split; [reflexivity|reflexivity].
  - (* Short *)
    assert (forall lc f', lz lc c -> (2 * height (Short k c) + 1 <= f')%nat ->
              exists l', linsert f' db (Short k lc) key (Val v) = Some (fst (insert (Short k c) key (Val v)), l') /\
                         lz l' (snd (insert (Short k c) key (Val v)))) as Hstruct.
    { intros lc f' Hlc Hf'. cbn [height] in Hf'. destruct f' as [|f'']; [lia|].
      destruct key as [|k0 kr]; [cbn; eexists; split; reflexivity|].
      cbn [linsert insert]. set (key := k0 :: kr) in *. set (m := prefix_len key k).
      destruct (Nat.eqb m (length k)).
      - destruct (IH lc Hlc (skipn m key) v f'' ltac:(lia)) as [l'' [E1 E2]]. rewrite E1.
        destruct (insert c (skipn m key) (Val v)) as [d nn]. cbn [fst snd] in *.
        destruct d; cbn [fst snd]; eexists; (split; [reflexivity|]); cbn [lz]; split; try reflexivity; assumption.
      - assert (Forall2 lz
                  (set_nth (set_nth empty17 (N.to_nat (nth m k 0)) (insert_nil (skipn (S m) k) lc)) (N.to_nat (nth m key 0)) (insert_nil (skipn (S m) key) (Val v)))
                  (set_nth (set_nth empty17 (N.to_nat (nth m k 0)) (insert_nil (skipn (S m) k) c)) (N.to_nat (nth m key 0)) (insert_nil (skipn (S m) key) (Val v)))) as Hb.
        { apply forall2_set_nth; [apply forall2_set_nth; [apply lz_empty17|apply lz_insert_nil; exact Hlc]|apply lz_insert_nil; reflexivity]. }
        destruct (Nat.eqb m 0); cbn [fst snd]; eexists; (split; [reflexivity|]).
        + apply lz_full. exact Hb.
        + cbn [lz]. split; [reflexivity|]. apply lz_full. exact Hb. }
    destruct l as [| |k2 lc|lcs|h]; cbn [lz] in Hl; try discriminate; try contradiction.
    + destruct Hl as [-> Hlc]. apply Hstruct; [exact Hlc|lia].
    + destruct Hl as [-> Hh]. destruct (resolve_lz _ Hh) as [Er Hd].
      destruct f as [|f']; [lia|].
      cbn [Proofs5.dview] in *. pose proof Hd as Hd0. cbn [lz] in Hd. destruct Hd as [_ Hd].
      destruct (Hstruct _ f' Hd ltac:(lia)) as [l'' [E1 E2]].
      destruct key as [|k0 kr].
      * cbn. eexists. split; reflexivity.
      * cbn [linsert]. rewrite Er. rewrite E1.
        destruct (insert (Short k c) (k0 :: kr) (Val v)) as [d nn] eqn:Ei. cbn [fst snd] in *.
        destruct d; eexists; (split; [reflexivity|]); [exact E2|].
        apply insert_clean in Ei. subst nn. exact Hd0.
  - (* Full *)
    assert (forall lcs f', Forall2 lz lcs cs -> (2 * height (Full cs) + 1 <= f')%nat ->
              exists l', linsert f' db (Full lcs) key (Val v) = Some (fst (insert (Full cs) key (Val v)), l') /\
                         lz l' (snd (insert (Full cs) key (Val v)))) as Hstruct.
    { intros lcs f' Hlcs Hf'. destruct f' as [|f'']; [lia|].
      destruct key as [|k0 kr]; [cbn; eexists; split; reflexivity|].
      cbn [linsert insert]. rewrite insert_full_nth.
      assert (exists l'', linsert f'' db (nth (N.to_nat k0) lcs Empty) kr (Val v) =
                Some (fst (insert (nth (N.to_nat k0) cs Empty) kr (Val v)), l'') /\
                lz l'' (snd (insert (nth (N.to_nat k0) cs Empty) kr (Val v)))) as [l'' [E1 E2]].
      { destruct (Nat.lt_ge_cases (N.to_nat k0) (length cs)) as [Hi|Hi].
        - rewrite Forall_forall in IH. apply (IH (nth (N.to_nat k0) cs Empty) (nth_In _ _ Hi)).
          + apply forall2_nth; [exact Hlcs|]. rewrite (forall2_length _ _ _ _ _ Hlcs). exact Hi.
          + pose proof (height_child_full cs _ (nth_In _ Empty Hi)). lia.
        - rewrite (nth_overflow cs) by exact Hi. rewrite nth_overflow by (rewrite (forall2_length _ _ _ _ _ Hlcs); exact Hi).
          destruct f'' as [|f3]; [cbn [height] in Hf'; lia|]. destruct kr as [|k1 kr']; cbn; eexists; (split; [reflexivity|]); cbn; try split; reflexivity. }
      rewrite E1. destruct (insert (nth (N.to_nat k0) cs Empty) kr (Val v)) as [d nn]. cbn [fst snd] in *.
      destruct d; cbn [fst snd]; eexists; (split; [reflexivity|]); apply lz_full; [apply forall2_set_nth; assumption|exact Hlcs]. }
    destruct l as [| |k2 lc|lcs|h]; try (cbn [lz] in Hl; try discriminate; contradiction).
    + apply lz_full in Hl. apply Hstruct; [exact Hl|lia].
    + cbn [lz] in Hl. destruct Hl as [-> Hh]. destruct (resolve_lz _ Hh) as [Er Hd].
      destruct f as [|f']; [lia|].
      cbn [Proofs5.dview] in *. pose proof Hd as Hd0. apply lz_full in Hd.
      destruct (Hstruct _ f' Hd ltac:(lia)) as [l'' [E1 E2]].
      destruct key as [|k0 kr].
      * cbn. eexists. split; reflexivity.
      * cbn [linsert]. rewrite Er. rewrite E1.
        destruct (insert (Full cs) (k0 :: kr) (Val v)) as [d nn] eqn:Ei. cbn [fst snd] in *.
        destruct d; eexists; (split; [reflexivity|]); [exact E2|].
        apply insert_clean in Ei. subst nn. exact Hd0.
  - exfalso. exact (lz_hash_absurd _ _ Hl).
Qed.

(* ---- delete ---------------------------------------------------------------------------- *)

Definition not_hash (l : node) : Prop := match l with HashN _ => False | _ => True end.

Lemma lz_is_empty : forall l n, lz l n -> is_empty l = is_empty n.
Proof.
  intros l n Hl. destruct n as [|v|k c|cs|hh].
  - apply lz_empty_r in Hl. subst. reflexivity.
  - apply lz_val_r in Hl. subst. reflexivity.
  - destruct l; cbn in Hl; try discriminate; try contradiction; reflexivity.
  - destruct l; cbn in Hl; try discriminate; try contradiction; reflexivity.
  - exfalso. exact (lz_hash_absurd _ _ Hl).
Qed.

Lemma lz_nonempty_from : forall lcs cs s, Forall2 lz lcs cs -> nonempty_from s lcs = nonempty_from s cs.
Proof.
  intros lcs cs s F. revert s. induction F as [|a b la lb Hab _ IH]; intro s; [reflexivity|]. cbn.
  rewrite (lz_is_empty _ _ Hab), IH. reflexivity.
Qed.

Lemma dview_short : forall k c, exists lc, dview (Short k c) = Short k lc.
Proof. intros. eexists. reflexivity. Qed.

Lemma lcollapse_refines : forall lcs cs, Forall2 lz lcs cs ->
  exists l', lcollapse db lcs = Some l' /\ lz l' (collapse_full cs) /\ not_hash l'.
Proof.
  intros lcs cs F. unfold lcollapse, collapse_full, nonempty_idx. rewrite (lz_nonempty_from lcs cs 0 F).
  destruct (nonempty_from 0 cs) as [|pos [|q r]] eqn:E.
  - eexists. split; [reflexivity|]. split; [apply lz_full; exact F|exact I].
  - assert (lz (nth pos lcs Empty) (nth pos cs Empty)) as Hp.
    { destruct (Nat.lt_ge_cases pos (length lcs)) as [Hi|Hi]; [apply forall2_nth; assumption|].
      rewrite nth_overflow by exact Hi. rewrite nth_overflow by (rewrite <- (forall2_length _ _ _ _ _ F); exact Hi). reflexivity. }
    set (c := nth pos lcs Empty) in *. set (c' := nth pos cs Empty) in *.
    destruct (Nat.eqb pos 16).
    + eexists. split; [reflexivity|]. split; [cbn; split; [reflexivity|exact Hp]|exact I].
    + destruct c as [| |k2 lc2|lcs2|h] eqn:Ec.
      * apply lz_is_empty in Hp. destruct c'; try discriminate. eexists. split; [reflexivity|]. split; [cbn; split; reflexivity|exact I].
      * cbn in Hp. rewrite Hp. eexists. split; [reflexivity|]. split; [cbn; split; reflexivity|exact I].
      * destruct c' as [| |k2' c2'|cs2'|hh]; cbn [lz] in Hp; try contradiction. destruct Hp as [<- Hp].
        eexists. split; [reflexivity|]. split; [cbn; split; [reflexivity|exact Hp]|exact I].
      * destruct c' as [| |k2' c2'|cs2'|hh]; try (cbn [lz] in Hp; contradiction).
        eexists. split; [reflexivity|]. split; [cbn [lz]; split; [reflexivity|exact Hp]|exact I].
      * cbn [lz] in Hp. destruct Hp as [-> Hh]. destruct (resolve_lz _ Hh) as [Er Hd]. rewrite Er.
        assert (canon c') as Hcc by (destruct Hh as [X _]; exact X).
        destruct c' as [| |k2' c2'|cs2'|hh]; try discriminate.
        -- cbn [Proofs5.dview] in *. cbn [lz] in Hd. destruct Hd as [_ Hd].
           eexists. split; [reflexivity|]. split; [cbn [lz]; split; [reflexivity|exact Hd]|exact I].
        -- cbn [Proofs5.dview] in *. eexists. split; [reflexivity|]. split; [|exact I].
           cbn [lz]. split; [reflexivity|]. split; [reflexivity|exact Hh].
  - eexists. split; [reflexivity|]. split; [apply lz_full; exact F|exact I].
Qed.

Lemma delete_full_nth : forall cs k0 krest,
  nth_apply (fun c => delete c krest) (false, Empty) cs (N.to_nat k0) = delete (nth (N.to_nat k0) cs Empty) krest.
Proof.
  intros cs k0 krest. destruct (Nat.lt_ge_cases (N.to_nat k0) (length cs)) as [Hl|Hl].
  - apply (nth_apply_nth _ _ (fun c => delete c krest) _ cs (N.to_nat k0) Empty Hl).
  - rewrite nth_apply_default by exact Hl. rewrite nth_overflow by exact Hl. reflexivity.
Qed.

Lemma delete_clean : forall n key nn, delete n key = (false, nn) -> nn = n.
Proof.
  induction n as [|vv|k c IH|cs IH|hh] using node_ind'; intros key nn E; cbn [delete] in E; try (injection E as <-; reflexivity); try discriminate.
  - destruct (prefix_len key k <? length k)%nat; [injection E as <-; reflexivity|].
    destruct (Nat.eqb (prefix_len key k) (length key)); [discriminate|].
    destruct (delete c (skipn (length k) key)) as [d ch]. destruct d; cbn [negb] in E; [destruct ch; discriminate|injection E as <-; reflexivity].
  - destruct key as [|k0 kr]; [injection E as <-; reflexivity|].
    destruct (nth_apply _ _ _ _) as [d nn']. destruct d; cbn [negb] in E; [discriminate|injection E as <-; reflexivity].
Qed.

Lemma ldelete_refines : forall n l, lz l n -> forall key f, (2 * height n + 2 <= f)%nat ->
  exists l', ldelete f db l key = Some (fst (delete n key), l') /\ lz l' (snd (delete n key)) /\
             (fst (delete n key) = true -> not_hash l').
Proof.
  induction n as [|vv|k c IH|cs IH|hh] using node_ind'; intros l Hl key f Hf.
  - apply lz_empty_r in Hl. subst l. destruct f as [|f']; [lia|]. cbn. eexists. split; [reflexivity|]. split; [reflexivity|discriminate].
  - apply lz_val_r in Hl. subst l. destruct f as [|f']; [lia|]. cbn. eexists. split; [reflexivity|]. split; [reflexivity|intros _; exact I].
  - (* Short *)
    assert (forall lc f', lz lc c -> (2 * height (Short k c) + 1 <= f')%nat ->
              exists l', ldelete f' db (Short k lc) key = Some (fst (delete (Short k c) key), l') /\
                         lz l' (snd (delete (Short k c) key)) /\ not_hash l') as Hstruct.
    { intros lc f' Hlc Hf'. cbn [height] in Hf'. destruct f' as [|f'']; [lia|].
      cbn [ldelete delete]. set (m := prefix_len key k).
      destruct (m <? length k)%nat.
      - eexists. split; [reflexivity|]. split; [cbn [snd lz]; split; [reflexivity|exact Hlc]|exact I].
      - destruct (Nat.eqb m (length key)).
        + eexists. split; [reflexivity|]. split; [reflexivity|exact I].
        + destruct (IH lc Hlc (skipn (length k) key) f'' ltac:(lia)) as [ch_l [E1 [E2 E3]]]. rewrite E1.
          destruct (delete c (skipn (length k) key)) as [d ch]. cbn [fst snd] in *.
          destruct d; cbn [negb fst snd].
          * specialize (E3 eq_refl).
            destruct ch_l as [| |k2 lc2|lcs2|h]; try contradiction.
            -- apply lz_is_empty in E2. destruct ch; try discriminate. eexists. split; [reflexivity|]. split; [cbn; split; reflexivity|exact I].
            -- cbn in E2. subst ch. eexists. split; [reflexivity|]. split; [cbn; split; reflexivity|exact I].
            -- destruct ch as [| |k2' c2'|cs2'|hh']; cbn [lz] in E2; try contradiction. destruct E2 as [<- E2].
               eexists. split; [reflexivity|]. split; [cbn [snd lz]; split; [reflexivity|exact E2]|exact I].
            -- destruct ch as [| |k2' c2'|cs2'|hh']; try (cbn [lz] in E2; contradiction).
               eexists. split; [reflexivity|]. split; [cbn [snd lz]; split; [reflexivity|exact E2]|exact I].
          * eexists. split; [reflexivity|]. split; [cbn [snd lz]; split; [reflexivity|exact Hlc]|exact I]. }
    destruct l as [| |k2 lc|lcs|h]; cbn [lz] in Hl; try discriminate; try contradiction.
    + destruct Hl as [-> Hlc]. destruct (Hstruct lc f Hlc ltac:(lia)) as [l' [E1 [E2 E3]]].
      exists l'. split; [exact E1|]. split; [exact E2|intros _; exact E3].
    + destruct Hl as [-> Hh]. destruct (resolve_lz _ Hh) as [Er Hd].
      destruct f as [|f']; [lia|].
      cbn [Proofs5.dview] in *. pose proof Hd as Hd0. cbn [lz] in Hd. destruct Hd as [_ Hd].
      destruct (Hstruct _ f' Hd ltac:(lia)) as [l'' [E1 [E2 E3]]].
      cbn [ldelete]. rewrite Er. rewrite E1.
      destruct (delete (Short k c) key) as [d nn] eqn:Ei. cbn [fst snd] in *.
      destruct d; eexists; (split; [reflexivity|]).
      * split; [exact E2|intros _; exact E3].
      * apply delete_clean in Ei. subst nn. split; [exact Hd0|discriminate].
  - (* Full *)
    assert (forall lcs f', Forall2 lz lcs cs -> (2 * height (Full cs) + 1 <= f')%nat ->
              exists l', ldelete f' db (Full lcs) key = Some (fst (delete (Full cs) key), l') /\
                         lz l' (snd (delete (Full cs) key)) /\ not_hash l') as Hstruct.
    { intros lcs f' Hlcs Hf'. destruct f' as [|f'']; [lia|].
      destruct key as [|k0 kr].
      - cbn. eexists. split; [reflexivity|]. split; [apply lz_full; exact Hlcs|exact I].
      - rewrite delete_full_eq. cbn [ldelete]. rewrite delete_full_nth.
        assert (exists l'', ldelete f'' db (nth (N.to_nat k0) lcs Empty) kr =
                  Some (fst (delete (nth (N.to_nat k0) cs Empty) kr), l'') /\
                  lz l'' (snd (delete (nth (N.to_nat k0) cs Empty) kr))) as [l'' [E1 E2]].
        { destruct (Nat.lt_ge_cases (N.to_nat k0) (length cs)) as [Hi|Hi].
          - rewrite Forall_forall in IH.
            destruct (IH (nth (N.to_nat k0) cs Empty) (nth_In _ _ Hi) (nth (N.to_nat k0) lcs Empty)) with (key := kr) (f := f'') as [x [A [B _]]].
            + apply forall2_nth; [exact Hlcs|]. rewrite (forall2_length _ _ _ _ _ Hlcs). exact Hi.
            + pose proof (height_child_full cs _ (nth_In _ Empty Hi)). lia.
            + exists x. split; assumption.
          - rewrite (nth_overflow cs) by exact Hi. rewrite nth_overflow by (rewrite (forall2_length _ _ _ _ _ Hlcs); exact Hi).
            destruct f'' as [|f3]; [cbn [height] in Hf'; lia|]. cbn. eexists. split; reflexivity. }
        rewrite E1. destruct (delete (nth (N.to_nat k0) cs Empty) kr) as [d nn]. cbn [fst snd] in *.
        destruct d; cbn [negb fst snd].
        + destruct (lcollapse_refines (set_nth lcs (N.to_nat k0) l'') (set_nth cs (N.to_nat k0) nn)) as [r [R1 [R2 R3]]];
            [apply forall2_set_nth; assumption|].
          rewrite R1. eexists. split; [reflexivity|]. split; [exact R2|exact R3].
        + eexists. split; [reflexivity|]. split; [apply lz_full; exact Hlcs|exact I]. }
    destruct l as [| |k2 lc|lcs|h]; try (cbn [lz] in Hl; try discriminate; contradiction).
    + apply lz_full in Hl. destruct (Hstruct lcs f Hl ltac:(lia)) as [l' [E1 [E2 E3]]].
      exists l'. split; [exact E1|]. split; [exact E2|intros _; exact E3].
    + cbn [lz] in Hl. destruct Hl as [-> Hh]. destruct (resolve_lz _ Hh) as [Er Hd].
      destruct f as [|f']; [lia|].
      cbn [Proofs5.dview] in *. pose proof Hd as Hd0. apply lz_full in Hd.
      destruct (Hstruct _ f' Hd ltac:(lia)) as [l'' [E1 [E2 E3]]].
      cbn [ldelete]. rewrite Er. rewrite E1.
      destruct (delete (Full cs) key) as [d nn] eqn:Ei. cbn [fst snd] in *.
      destruct d; eexists; (split; [reflexivity|]).
      * split; [exact E2|intros _; exact E3].
      * apply delete_clean in Ei. subst nn. split; [exact Hd0|discriminate].
  - exfalso. exact (lz_hash_absurd _ _ Hl).
Qed.

End Lazy.

(* ---- histories on a lazily re-opened trie ---------------------------------------------- *)

Section LazyRun.
Variable H : bytes -> bytes.
Hypothesis Hlen : forall x, length (H x) = 32%nat.
Variable db : list (bytes * bytes).

Lemma l_apply_refines : forall t lt o f, lz H db lt t -> (2 * height t + 2 <= f)%nat ->
  exists lt', l_apply f db lt o = Some lt' /\ lz H db lt' (apply_op t o).
Proof.
  intros t lt o f Hl Hf. destruct o as [k v|k]; cbn [l_apply apply_op].
  - unfold l_update, t_update. destruct v as [|b v].
    + destruct (ldelete_refines H Hlen db t lt Hl (keybytes_to_hex k) f Hf) as [l' [E1 [E2 _]]]. rewrite E1. exists l'. split; [reflexivity|exact E2].
    + destruct (linsert_refines H Hlen db t lt Hl (keybytes_to_hex k) (b :: v) f Hf) as [l' [E1 E2]]. rewrite E1. exists l'. split; [reflexivity|exact E2].
  - unfold l_delete, t_delete.
    destruct (ldelete_refines H Hlen db t lt Hl (keybytes_to_hex k) f Hf) as [l' [E1 [E2 _]]]. rewrite E1. exists l'. split; [reflexivity|exact E2].
Qed.

Lemma fold_canon : forall ops t, canon_root t -> Forall op_ok ops -> canon_root (fold_left apply_op ops t).
Proof.
  intros ops t Hc Ho. apply (run_spec_from ops t (fun k => t_get t k) Ho Hc). intros. reflexivity.
Qed.

(* the lazy history follows the loaded one step by step *)
Lemma l_run_refines : forall ops t lt f, lz H db lt t -> canon_root t -> Forall op_ok ops ->
  (forall i, (2 * height (fold_left apply_op (firstn i ops) t) + 2 <= f)%nat) ->
  exists lt', l_run f db ops lt = Some lt' /\ lz H db lt' (fold_left apply_op ops t) /\
              root_hash H lt' = root_hash H (fold_left apply_op ops t) /\
              forall k, l_get f db lt' k = Some (t_get (fold_left apply_op ops t) k).
Proof.
  induction ops as [|o ops IH]; intros t lt f Hl Hc Ho Hf.
  - cbn [l_run fold_left]. exists lt. split; [reflexivity|]. split; [exact Hl|]. split; [eapply lz_root_hash; eassumption|].
    intro k. unfold l_get, t_get. apply (lget_refines H Hlen db t lt); [|exact Hl|exact (Hf 0%nat)].
    destruct Hc as [->|Hc]; [left; reflexivity|right; right; exact Hc].
  - inversion Ho as [|? ? Ho1 Ho2]; subst. cbn [l_run fold_left].
    destruct (l_apply_refines t lt o f Hl (Hf 0%nat)) as [lt1 [E1 E2]]. rewrite E1.
    apply IH; [exact E2| |exact Ho2|].
    + apply (apply_op_spec t o Hc Ho1).
    + intro i. exact (Hf (S i)).
Qed.

(* opening: only the root node is loaded, the rest stays hash nodes *)
Lemma l_open_lz : forall t, canon t -> small t -> has_node H db t ->
  (forall m, In m (desc t) -> hashed H m = true -> has_node H db m) ->
  root_hash H t <> empty_root ->
  l_open db (root_hash H t) = Some (dview H t) /\ lz H db (dview H t) t.
Proof.
  intros t Hc Hs Hn Hd Hne. split; [|apply dview_lz; assumption].
  unfold l_open. assert (list_eqb (root_hash H t) empty_root = false) as -> by (apply list_eqb_neq; exact Hne).
  assert (is_node t) as Hnt by (destruct t; try discriminate; exact I).
  rewrite (root_hash_node H t Hnt). unfold resolve. unfold Proofs8.has_node in Hn. rewrite Hn.
  rewrite <- (app_nil_r (enc H t)). rewrite (decode_canon H Hlen t [] Hc Hs). reflexivity.
Qed.

End LazyRun.

(* commit, open lazily, then run any history: same trie, same root, same lookups as
   running the history on the loaded trie *)
Lemma lazy_reopen : forall (H : bytes -> bytes), (forall x, length (H x) = 32%nat) ->
  forall t ops f, canon t -> small t -> Forall op_ok ops ->
  (forall h b1 b2, In (h, b1) (commit H t) -> In (h, b2) (commit H t) -> b1 = b2) ->
  root_hash H t <> empty_root ->
  (forall i, (2 * height (fold_left apply_op (firstn i ops) t) + 2 <= f)%nat) ->
  exists lt0 lt', l_open (commit H t) (root_hash H t) = Some lt0 /\
    l_run f (commit H t) ops lt0 = Some lt' /\
    root_hash H lt' = root_hash H (fold_left apply_op ops t) /\
    forall k, l_get f (commit H t) lt' k = Some (t_get (fold_left apply_op ops t) k).
Proof.
  intros H Hlen t ops f Hc Hs Ho Hfun Hne Hf.
  assert (is_node t) as Hnt by (destruct t; try discriminate; exact I).
  assert (commit H t = stored_children H t ++ [(H (enc H t), enc H t)]) as Ec.
  { unfold commit. rewrite (root_hash_node H t Hnt). destruct t; try contradiction; reflexivity. }
  assert (has_node H (commit H t) t) as Hroot.
  { unfold has_node. apply assoc_functional; [|exact Hfun]. rewrite Ec. apply in_or_app. right. left. reflexivity. }
  assert (forall m, In m (desc t) -> hashed H m = true -> has_node H (commit H t) m) as Hdesc.
  { intros m Hin Hh. unfold has_node. apply assoc_functional; [|exact Hfun]. rewrite Ec. apply in_or_app. left.
    apply stored_desc; assumption. }
  destruct (l_open_lz H Hlen (commit H t) t Hc Hs Hroot Hdesc Hne) as [Eo Hl].
  destruct (l_run_refines H Hlen (commit H t) ops t (dview H t) f Hl (or_intror Hc) Ho Hf) as [lt' [E1 [_ [E3 E4]]]].
  exists (dview H t), lt'. repeat split; assumption.
Qed.
