(* C13 - lemmas, part 11: the secure trie is the plain trie over hashed keys;
   DeriveSha is the root of the trie of rlp(index) -> item. *)
From VF.C13 Require Import Model Proofs Proofs2 Proofs4.
From Coq Require Import Lia ZifyBool ZifyN ZifyNat.
Local Open Scope N_scope.

(* ---- SecureTrie --------------------------------------------------------------- *)

Definition hash_op (H : bytes -> bytes) (o : kvop) : kvop :=
  match o with
  | KUpdate k v => KUpdate (H k) v
  | KDelete k => KDelete (H k)
  end.

Definition op_key (o : kvop) : bytes := match o with KUpdate k _ => k | KDelete k => k end.

Lemma s_run_plain : forall H ops, s_run H ops = run (map (hash_op H) ops).
Proof.
  intros H ops. unfold s_run, run. generalize Empty. induction ops as [|o ops IH]; intro t; [reflexivity|].
  cbn [fold_left map]. rewrite IH. destruct o; reflexivity.
Qed.

Lemma m_run_hashed : forall H ops k (m m' : fmap),
  (forall o, In o ops -> H (op_key o) = H k -> op_key o = k) ->
  m' (H k) = m k ->
  fold_left m_apply (map (hash_op H) ops) m' (H k) = fold_left m_apply ops m k.
Proof.
  intros H ops k. induction ops as [|o ops IH]; intros m m' Hinj Hm; [exact Hm|]. cbn [fold_left map].
  apply IH; [intros o' Ho'; apply Hinj; right; exact Ho'|].
  assert (list_eqb (H (op_key o)) (H k) = list_eqb (op_key o) k) as E.
  { destruct (list_eqb (op_key o) k) eqn:E1.
    - apply list_eqb_eq in E1. rewrite E1. apply list_eqb_refl.
    - apply list_eqb_neq in E1. apply list_eqb_neq. intro F. apply E1. apply (Hinj o (or_introl eq_refl) F). }
  destruct o as [k0 v|k0]; cbn [hash_op m_apply op_key] in *; rewrite E; destruct (list_eqb k0 k); try reflexivity; exact Hm.
Qed.

(* all plain-trie facts transfer: lookups of the secure trie follow the
   reference map over the ORIGINAL keys as long as the key hash does not
   confuse the queried key with a key of the history *)
Lemma secure_refines : forall H ops k, (forall x, bytes_ok (H x)) ->
  (forall o, In o ops -> H (op_key o) = H k -> op_key o = k) ->
  s_get H (s_run H ops) k = m_run ops k.
Proof.
  intros H ops k Hb Hinj. unfold s_get. rewrite s_run_plain.
  rewrite run_refines; [| |apply Hb].
  - unfold m_run. apply m_run_hashed; [exact Hinj|reflexivity].
  - apply Forall_forall. intros o Ho. apply in_map_iff in Ho. destruct Ho as [o' [<- _]]. destruct o'; cbn; apply Hb.
Qed.

Lemma secure_canonical : forall H ops, (forall x, bytes_ok (H x)) -> canon_root (s_run H ops).
Proof.
  intros H ops Hb. rewrite s_run_plain. apply run_canon.
  apply Forall_forall. intros o Ho. apply in_map_iff in Ho. destruct Ho as [o' [<- _]]. destruct o'; cbn; apply Hb.
Qed.

(* ---- DeriveSha ------------------------------------------------------------------ *)

Lemma derive_trie_ops : forall items i t, derive_trie i items t = fold_left apply_op (derive_ops i items) t.
Proof. induction items as [|x r IH]; intros i t; [reflexivity|]. cbn [derive_trie derive_ops fold_left]. apply IH. Qed.

Lemma derive_sha_run : forall H items, derive_sha H items = root_hash H (run (derive_ops 0 items)).
Proof. intros. unfold derive_sha, run. rewrite derive_trie_ops. reflexivity. Qed.

Lemma rlp_uint_str : forall n, rlp_uint n = rlp (Str (be_bytes n)).
Proof. intro n. unfold rlp_uint. destruct (N.eqb n 0) eqn:E; [apply N.eqb_eq in E; subst; reflexivity|reflexivity]. Qed.

Lemma be_fuel_bytes_ok : forall f n acc, bytes_ok acc -> bytes_ok (be_bytes_fuel f n acc).
Proof.
  induction f as [|f IH]; intros n acc Ha; [exact Ha|]. cbn [be_bytes_fuel]. destruct (N.eqb n 0); [exact Ha|].
  apply IH. constructor; [apply N.mod_lt; lia|exact Ha].
Qed.

Definition two64' : N := two64.

Lemma be_bytes_small : forall n, n < two64 -> (length (be_bytes n) <= 8)%nat.
Proof. intros n Hn. unfold be_bytes. apply (be_length 9 8). cbn. unfold two64 in Hn. lia. Qed.

Lemma rlp_uint_ok : forall n, n < two64 -> bytes_ok (rlp_uint n).
Proof.
  intros n Hn. rewrite rlp_uint_str. pose proof (be_bytes_small n Hn) as L.
  assert (bytes_ok (be_bytes n)) as Hb by (apply be_fuel_bytes_ok; constructor).
  destruct (be_bytes n) as [|x [|y r]] eqn:E.
  - cbn. repeat constructor.
  - cbn [rlp]. inversion Hb; subst. destruct (x <? 128); repeat constructor; assumption.
  - rewrite <- E in *. assert (rlp (Str (be_bytes n)) = enc_len 128 (len (be_bytes n)) ++ be_bytes n) as -> by (rewrite E; reflexivity).
    unfold enc_len. assert (len (be_bytes n) <? 56 = true) as -> by (unfold len; lia).
    apply Forall_app. split; [|exact Hb]. constructor; [unfold len; lia|constructor].
Qed.

Lemma rlp_uint_inj : forall a b, a < two64 -> b < two64 -> rlp_uint a = rlp_uint b -> a = b.
Proof.
  intros a b Ha Hb E. rewrite !rlp_uint_str in E.
  assert (str_small (be_bytes a)) as Sa by (unfold str_small, len, two64; pose proof (be_bytes_small a Ha); lia).
  assert (str_small (be_bytes b)) as Sb by (unfold str_small, len, two64; pose proof (be_bytes_small b Hb); lia).
  destruct (split_str (be_bytes a) [] Sa) as [A _]. destruct (split_str (be_bytes b) [] Sb) as [B _].
  rewrite E in A. rewrite A in B. injection B as B.
  assert (forall n, n < two64 -> be_to_N (be_bytes n) 0 = n) as Rt.
  { intros n Hn. unfold be_bytes. apply be_roundtrip. cbn. unfold two64 in Hn. lia. }
  rewrite <- (Rt a Ha), <- (Rt b Hb), B. reflexivity.
Qed.

Lemma derive_ops_ok : forall items i, i + N.of_nat (length items) <= two64 -> Forall op_ok (derive_ops i items).
Proof.
  induction items as [|x r IH]; intros i Hi; [constructor|]. cbn [derive_ops]. cbn [length] in Hi.
  constructor; [cbn; apply rlp_uint_ok; lia|apply IH; lia].
Qed.

(* the reference map of the DeriveSha history: index j holds item j (unless it is empty) *)
Lemma derive_ops_map : forall items i (m : fmap) j, i + N.of_nat (length items) <= two64 -> j < two64 ->
  fold_left m_apply (derive_ops i items) m (rlp_uint j) =
  if (i <=? j) && (j <? i + N.of_nat (length items))
  then match nth (N.to_nat (j - i)) items [] with [] => None | v => Some v end
  else m (rlp_uint j).
Proof.
  induction items as [|x r IH]; intros i m j Hi Hj.
  - cbn [derive_ops fold_left]. cbn [length]. replace ((i <=? j) && (j <? i + N.of_nat 0)) with false by lia. reflexivity.
  - cbn [derive_ops fold_left]. cbn [length] in *. rewrite IH by lia.
    destruct (N.eq_dec i j) as [->|Hne].
    + replace ((j + 1 <=? j) && (j <? j + 1 + N.of_nat (length r))) with false by lia.
      replace ((j <=? j) && (j <? j + N.of_nat (S (length r)))) with true by lia.
      rewrite N.sub_diag. cbn [N.to_nat nth m_apply]. rewrite list_eqb_refl. destruct x; reflexivity.
    + assert (list_eqb (rlp_uint i) (rlp_uint j) = false) as Eij.
      { apply list_eqb_neq. intro E. apply Hne. apply rlp_uint_inj; [lia|exact Hj|exact E]. }
      destruct ((i + 1 <=? j) && (j <? i + 1 + N.of_nat (length r))) eqn:C.
      * replace ((i <=? j) && (j <? i + N.of_nat (S (length r)))) with true by lia.
        replace (N.to_nat (j - i)) with (S (N.to_nat (j - (i + 1)))) by lia. reflexivity.
      * replace ((i <=? j) && (j <? i + N.of_nat (S (length r)))) with false by lia.
        cbn [m_apply]. rewrite Eij. reflexivity.
Qed.

Lemma derive_sha_spec : forall H items, N.of_nat (length items) <= two64 ->
  derive_sha H items = root_hash H (run (derive_ops 0 items)) /\
  Forall op_ok (derive_ops 0 items) /\
  (forall j, j < N.of_nat (length items) ->
     t_get (run (derive_ops 0 items)) (rlp_uint j) =
     match nth (N.to_nat j) items [] with [] => None | v => Some v end) /\
  (forall k, bytes_ok k -> (forall j, j < N.of_nat (length items) -> k <> rlp_uint j) -> t_get (run (derive_ops 0 items)) k = None).
Proof.
  intros H items Hl. pose proof (derive_ops_ok items 0 ltac:(lia)) as Hok.
  split; [apply derive_sha_run|]. split; [exact Hok|]. split.
  - intros j Hj. rewrite run_refines; [|exact Hok|apply rlp_uint_ok; lia]. unfold m_run.
    rewrite derive_ops_map by lia. replace ((0 <=? j) && (j <? 0 + N.of_nat (length items))) with true by lia. rewrite N.sub_0_r. reflexivity.
  - intros k Hk Hne. rewrite run_refines by assumption. unfold m_run.
    assert (forall items i (m : fmap), (forall j, i <= j -> j < i + N.of_nat (length items) -> k <> rlp_uint j) ->
              fold_left m_apply (derive_ops i items) m k = m k) as Gen.
    { clear. induction items as [|x r IH]; intros i m Hd; [reflexivity|]. cbn [derive_ops fold_left]. cbn [length] in *.
      rewrite IH by (intros j H1 H2; apply Hd; lia). cbn [m_apply].
      assert (list_eqb (rlp_uint i) k = false) as ->; [|reflexivity]. apply list_eqb_neq. intro E. apply (Hd i); [lia|lia|symmetry; exact E]. }
    rewrite Gen; [reflexivity|]. intros j _ Hj. apply Hne. lia.
Qed.

(* ---- copies ------------------------------------------------------------------------ *)

(* an operation on one handle leaves every other handle as it was; a copy starts
   as its source and leaves all existing handles as they were *)
Lemma copies_independent :
  (forall hs j op i, i <> j -> nth i (h_apply hs (HOp j op)) Empty = nth i hs Empty) /\
  (forall hs j i, (i < length hs)%nat -> nth i (h_apply hs (HCopy j)) Empty = nth i hs Empty) /\
  (forall hs j, nth (length hs) (h_apply hs (HCopy j)) Empty = nth j hs Empty) /\
  (forall hs j op, (j < length hs)%nat -> nth j (h_apply hs (HOp j op)) Empty = apply_op (nth j hs Empty) op).
Proof.
  repeat split.
  - intros hs j op i Hne. cbn [h_apply]. apply nth_set_nth_neq. exact Hne.
  - intros hs j i Hi. cbn [h_apply]. apply app_nth1. exact Hi.
  - intros hs j. cbn [h_apply]. rewrite app_nth2 by lia. rewrite Nat.sub_diag. reflexivity.
  - intros hs j op Hj. cbn [h_apply]. apply nth_set_nth_eq. exact Hj.
Qed.
