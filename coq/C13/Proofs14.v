(* C13 - lemmas, part 14: the width of the reference counters.  The Go code
   keeps parents and children counts in uint16; the model counts in N.  The
   16-bit semantics is the model followed by reduction mod 2^16 after the
   steps that increment (insert, Reference); the other steps only decrement
   under a guard or do not touch counters. *)
From VF.C13 Require Import Model Proofs Proofs9 Proofs10.
From Coq Require Import Lia ZifyBool ZifyN ZifyNat.
Local Open Scope N_scope.

(* counters reduced modulo M (M = 2^w for w-bit unsigned counters) *)
Definition wM (M x : N) : N := x mod M.

Definition wrap_nodeM (M : N) (c : cnode) : cnode :=
  mkC (cn_hash c) (cn_kids c) (cn_size c) (wM M (cn_parents c)) (map (fun p => (fst p, wM M (snd p))) (cn_ext c)).

Definition wrapM (M : N) (s : dbstate) : dbstate :=
  mkDb (map (wrap_nodeM M) (db_nodes s)) (map (fun p => (fst p, wM M (snd p))) (db_meta s)) (db_disk s).

(* one step of a schedule, exact counters / counters modulo M *)
Definition xstep (s : dbstate) (o : xop) : dbstate :=
  match o with
  | XInsert h b => db_insert s (h, b)
  | XRefMeta c => db_reference s c []
  | XRefNode c p => db_reference s c p
  | XDeref r => db_dereference s r
  | XCap l => db_cap s l
  | XCommit r => db_commit s r
  end.

Definition xstepM (M : N) (s : dbstate) (o : xop) : dbstate :=
  match o with
  | XInsert _ _ | XRefMeta _ | XRefNode _ _ => wrapM M (xstep s o)
  | _ => xstep s o
  end.

Definition runM (M : N) (ops : list xop) : dbstate := fold_left (xstepM M) ops db_empty.
Definition runN (ops : list xop) : dbstate := fold_left xstep ops db_empty.

(* w-bit counters *)
Definition runW (w : N) (ops : list xop) : dbstate := runM (2 ^ w) ops.

(* the 16-bit instance (the counters before the repair 8fe169d) *)
Definition w16 : N -> N := wM 65536.
Definition wrap16 : dbstate -> dbstate := wrapM 65536.
Definition xstep16 : dbstate -> xop -> dbstate := xstepM 65536.
Definition run16 : list xop -> dbstate := runM 65536.

Lemma runW_16 : forall ops, runW 16 ops = run16 ops.
Proof. reflexivity. Qed.

(* all counters of a state are below M *)
Definition fitsM (M : N) (s : dbstate) : Prop :=
  (forall x, In x (db_nodes s) -> cn_parents x < M /\ forall p, In p (cn_ext x) -> snd p < M) /\
  (forall p, In p (db_meta s) -> snd p < M).

Lemma wrapM_id : forall M s, fitsM M s -> wrapM M s = s.
Proof.
  intros M [nodes meta disk] [Hn Hm]. unfold wrapM. cbn [db_nodes db_meta db_disk] in *. f_equal.
  - rewrite <- (map_id nodes) at 2. apply map_ext_in. intros x Hx. destruct (Hn x Hx) as [Hp He].
    destruct x as [h k sz p e]. unfold wrap_nodeM. cbn [cn_hash cn_kids cn_size cn_parents cn_ext] in *. f_equal.
    + unfold wM. apply N.mod_small. exact Hp.
    + rewrite <- (map_id e) at 2. apply map_ext_in. intros [a c] Ha. cbn [fst snd]. f_equal. unfold wM. apply N.mod_small. apply (He _ Ha).
  - rewrite <- (map_id meta) at 2. apply map_ext_in. intros [a c] Ha. cbn [fst snd]. f_equal. unfold wM. apply N.mod_small. apply (Hm _ Ha).
Qed.

(* ---- the wrap-around, concretely --------------------------------------------------- *)

Section Wrap.
Variable r : bytes.          (* the hash of a node without children, e.g. a leaf that is a root *)
Variable blob : bytes.
Hypothesis Hr : r <> [].
Hypothesis Hleaf : blob_kids blob = [].

Definition one (p : N) (meta : list (bytes * N)) : dbstate :=
  mkDb [mkC r [] (len blob) p []] meta [].

Lemma insert_one : xstep db_empty (XInsert r blob) = one 0 [].
Proof. cbn [xstep]. unfold db_insert. rewrite Hleaf. reflexivity. Qed.

Lemma ref_one : forall p meta, (meta = [] \/ exists c, meta = [(r, c)]) ->
  xstep (one p meta) (XRefMeta r) = one (p + 1) [(r, ext_get meta r + 1)].
Proof.
  intros p meta Hm. cbn [xstep]. unfold db_reference, one. cbn [db_nodes find_node cn_hash]. rewrite list_eqb_refl.
  cbn [update_node cn_hash db_meta db_disk]. rewrite list_eqb_refl. unfold bump. cbn [cn_hash cn_kids cn_size cn_parents cn_ext].
  f_equal. destruct Hm as [->|[c ->]].
  - cbn. reflexivity.
  - cbn [ext_get ext_set]. rewrite list_eqb_refl. replace (N.eqb (c + 1) 0) with false by lia. reflexivity.
Qed.

(* k references: the unbounded counters / the uint16 counters *)
Lemma refs_N : forall k, fold_left xstep (repeat (XRefMeta r) (S k)) (one 0 []) = one (N.of_nat (S k)) [(r, N.of_nat (S k))].
Proof.
  induction k as [|k IH].
  - cbn [repeat fold_left]. rewrite ref_one by (left; reflexivity). reflexivity.
  - change (repeat (XRefMeta r) (S (S k))) with (XRefMeta r :: repeat (XRefMeta r) (S k)).
    rewrite (repeat_cons (S k) (XRefMeta r)). rewrite fold_left_app. rewrite IH. cbn [fold_left].
    rewrite ref_one by (right; eexists; reflexivity). cbn [ext_get]. rewrite list_eqb_refl.
    replace (N.of_nat (S k) + 1) with (N.of_nat (S (S k))) by lia. reflexivity.
Qed.

Lemma wrap_one : forall p c, wrap16 (one p [(r, c)]) = one (w16 p) [(r, w16 c)].
Proof. reflexivity. Qed.

Lemma refs_16 : forall k, fold_left xstep16 (repeat (XRefMeta r) (S k)) (one 0 []) = one (w16 (N.of_nat (S k))) [(r, w16 (N.of_nat (S k)))].
Proof.
  induction k as [|k IH].
  - change (fold_left xstep16 (repeat (XRefMeta r) 1) (one 0 [])) with (wrap16 (xstep (one 0 []) (XRefMeta r))).
    rewrite ref_one by (left; reflexivity). reflexivity.
  - change (repeat (XRefMeta r) (S (S k))) with (XRefMeta r :: repeat (XRefMeta r) (S k)).
    rewrite (repeat_cons (S k) (XRefMeta r)). rewrite fold_left_app. rewrite IH.
    match goal with |- fold_left xstep16 [XRefMeta r] ?st = _ => change (fold_left xstep16 [XRefMeta r] st) with (wrap16 (xstep st (XRefMeta r))) end.
    rewrite ref_one by (right; eexists; reflexivity). cbn [ext_get]. rewrite list_eqb_refl. rewrite wrap_one.
    assert (forall x, w16 (w16 x + 1) = w16 (x + 1)) as Hw by (intro x; unfold w16, wM; rewrite N.add_mod_idemp_l by lia; reflexivity).
    rewrite !Hw. replace (N.of_nat (S k) + 1) with (N.of_nat (S (S k))) by lia. reflexivity.
Qed.

(* with both counters at 0 one Dereference removes the node *)
Lemma deref_zero : xstep (one 0 [(r, 0)]) (XDeref r) = mkDb [] [(r, 0)] [].
Proof.
  cbn [xstep]. unfold db_dereference. destruct r as [|b0 r0] eqn:Er; [congruence|]. rewrite <- Er.
  unfold one. cbn [db_nodes length db_deref db_meta ext_get]. rewrite list_eqb_refl. cbn [N.ltb N.compare].
  cbn [db_nodes find_node cn_hash]. rewrite list_eqb_refl. cbn [cn_parents N.ltb N.compare N.eqb update_node cn_hash db_nodes db_meta db_disk].
  rewrite list_eqb_refl. cbn [cn_ext cn_kids map app fold_left db_nodes remove_node cn_hash db_meta db_disk cn_size].
  rewrite list_eqb_refl. reflexivity.
Qed.

(* with positive counters one Dereference only decrements *)
Lemma deref_pos : forall p c, p <> 0 -> c <> 0 -> xstep (one (p + 1) [(r, c + 1)]) (XDeref r) = one p [(r, c)].
Proof.
  intros p c Hp Hc. cbn [xstep]. unfold db_dereference. destruct r as [|b0 r0] eqn:Er; [congruence|]. rewrite <- Er.
  unfold one. cbn [db_nodes length db_deref db_meta ext_get]. rewrite list_eqb_refl.
  replace (N.ltb 0 (c + 1)) with true by lia. cbn [db_nodes db_meta db_disk ext_set]. rewrite list_eqb_refl.
  replace (c + 1 - 1) with c by lia. replace (N.eqb c 0) with false by lia.
  cbn [find_node cn_hash]. rewrite list_eqb_refl. cbn [cn_parents]. replace (N.ltb 0 (p + 1)) with true by lia.
  replace (p + 1 - 1) with p by lia. replace (N.eqb p 0) with false by lia.
  cbn [update_node cn_hash db_nodes db_meta db_disk]. rewrite list_eqb_refl. reflexivity.
Qed.

Definition wrap_schedule : list xop := XInsert r blob :: repeat (XRefMeta r) (N.to_nat 65536) ++ [XDeref r].

(* 65536 references and one dereference: under uint16 counters the node is gone
   (not cached, not on disk); with exact counters 65535 references are left and it is cached *)
Lemma fl_cons : forall (f : dbstate -> xop -> dbstate) x l a, fold_left f (x :: l) a = fold_left f l (f a x).
Proof. reflexivity. Qed.
Lemma fl_one : forall (f : dbstate -> xop -> dbstate) x a, fold_left f [x] a = f a x.
Proof. reflexivity. Qed.

Lemma runN_wrap : forall k, N.of_nat (S k) = 65536 ->
  fold_left xstep (XInsert r blob :: repeat (XRefMeta r) (S k) ++ [XDeref r]) db_empty = one 65535 [(r, 65535)].
Proof.
  intros k Ek2. rewrite fl_cons. rewrite insert_one. rewrite fold_left_app. rewrite refs_N. rewrite Ek2. rewrite fl_one.
  apply (deref_pos 65535 65535); discriminate.
Qed.

Lemma run16_wrap : forall k, N.of_nat (S k) = 65536 ->
  fold_left xstep16 (XInsert r blob :: repeat (XRefMeta r) (S k) ++ [XDeref r]) db_empty = mkDb [] [(r, 0)] [].
Proof.
  intros k Ek2. rewrite fl_cons. change (xstep16 db_empty (XInsert r blob)) with (wrap16 (xstep db_empty (XInsert r blob))).
  rewrite insert_one. change (wrap16 (one 0 [])) with (one 0 []).
  rewrite fold_left_app. rewrite refs_16. rewrite Ek2.
  assert (w16 65536 = 0) as -> by reflexivity.
  rewrite fl_one. apply deref_zero.
Qed.

Lemma uint16_wrap_loses_node :
  ~ avail (run16 wrap_schedule) r /\
  ext_get (db_meta (runN wrap_schedule)) r = 65535 /\ avail (runN wrap_schedule) r.
Proof.
  unfold run16, runM, runN, wrap_schedule. change (xstepM 65536) with xstep16.
  assert (exists k, N.to_nat 65536 = S k /\ N.of_nat (S k) = 65536) as [k [Ek Ek2]].
  { exists (N.to_nat 65535). split; lia. }
  rewrite Ek. rewrite (run16_wrap k Ek2), (runN_wrap k Ek2). split; [|split].
  - intros [A|A]; destruct A.
  - cbn [db_meta one ext_get]. rewrite list_eqb_refl. reflexivity.
  - left. left. reflexivity.
Qed.

End Wrap.

(* ---- the guard: counters never exceed the number of reference events -------------------- *)

Fixpoint lmax (l : list N) : N := match l with [] => 0 | x :: r => N.max x (lmax r) end.
Definition nctr (c : cnode) : N := N.max (cn_parents c) (lmax (map snd (cn_ext c))).
Definition maxctr (s : dbstate) : N := N.max (lmax (map nctr (db_nodes s))) (lmax (map snd (db_meta s))).

Lemma lmax_in : forall l x, In x l -> x <= lmax l.
Proof. induction l as [|y l IH]; intros x Hx; [destruct Hx|]. cbn. destruct Hx as [->|Hx]; [lia|specialize (IH x Hx); lia]. Qed.

Lemma lmax_le : forall l b, (forall x, In x l -> x <= b) -> lmax l <= b.
Proof. induction l as [|y l IH]; intros b Hb; cbn; [lia|]. pose proof (Hb y (or_introl eq_refl)). specialize (IH b (fun x Hx => Hb x (or_intror Hx))). lia. Qed.

Lemma lmax_app : forall a b, lmax (a ++ b) = N.max (lmax a) (lmax b).
Proof. induction a as [|x a IH]; intro b; cbn; [lia|]. rewrite IH. lia. Qed.

Lemma fitsM_of_max : forall M s, maxctr s < M -> fitsM M s.
Proof.
  intros M s Hm. unfold maxctr in Hm. split.
  - intros x Hx. pose proof (lmax_in _ _ (in_map nctr _ _ Hx)) as Hn.
    assert (cn_parents x <= nctr x) as H1 by (unfold nctr; lia).
    assert (lmax (map snd (cn_ext x)) <= nctr x) as H2 by (unfold nctr; lia).
    split; [lia|]. intros p Hp. pose proof (lmax_in _ _ (in_map snd _ _ Hp)). lia.
  - intros p Hp. pose proof (lmax_in _ _ (in_map snd _ _ Hp)). lia.
Qed.

Lemma ext_set_max : forall l h c, lmax (map snd (ext_set l h c)) <= N.max c (lmax (map snd l)).
Proof.
  induction l as [|[k c0] r IH]; intros h c; cbn [ext_set].
  - destruct (N.eqb c 0); cbn; lia.
  - destruct (list_eqb k h).
    + destruct (N.eqb c 0); cbn; lia.
    + cbn. specialize (IH h c). lia.
Qed.

Lemma ext_get_le : forall l h, ext_get l h <= lmax (map snd l).
Proof. induction l as [|[k c0] r IH]; intro h; cbn; [lia|]. destruct (list_eqb k h); [lia|specialize (IH h); lia]. Qed.

(* updating one node *)
Lemma update_max : forall l h g b, (forall c, In c l -> nctr (g c) <= b) ->
  lmax (map nctr (update_node l h g)) <= N.max b (lmax (map nctr l)).
Proof.
  induction l as [|c r IH]; intros h g b Hg; cbn; [lia|].
  destruct (list_eqb (cn_hash c) h); cbn; [specialize (Hg c (or_introl eq_refl)); lia|].
  specialize (IH h g b (fun c0 Hc0 => Hg c0 (or_intror Hc0))). lia.
Qed.

Lemma update_max_dec : forall l h g, (forall c, nctr (g c) <= nctr c) ->
  lmax (map nctr (update_node l h g)) <= lmax (map nctr l).
Proof.
  induction l as [|c r IH]; intros h g Hg; cbn; [lia|].
  destruct (list_eqb (cn_hash c) h); cbn; [specialize (Hg c); lia|specialize (IH h g Hg); lia].
Qed.

Lemma remove_max : forall l h, lmax (map nctr (remove_node l h)) <= lmax (map nctr l).
Proof. induction l as [|c r IH]; intro h; cbn; [lia|]. destruct (list_eqb (cn_hash c) h); cbn; [lia|specialize (IH h); lia]. Qed.

Lemma bump_max : forall l k, lmax (map nctr (update_node l k (bump 1))) <= lmax (map nctr l) + 1.
Proof.
  intros l k. pose proof (update_max l k (bump 1) (lmax (map nctr l) + 1)) as U.
  assert (forall c, In c l -> nctr (bump 1 c) <= lmax (map nctr l) + 1) as Hb.
  { intros c Hc. pose proof (lmax_in _ _ (in_map nctr _ _ Hc)) as Hle.
    assert (cn_parents c <= nctr c) as Q1 by (unfold nctr; lia).
    assert (lmax (map snd (cn_ext c)) <= nctr c) as Q2 by (unfold nctr; lia).
    unfold nctr at 1, bump. cbn [cn_parents cn_ext]. lia. }
  specialize (U Hb). lia.
Qed.

Lemma insert_max : forall s h b, maxctr (db_insert s (h, b)) <= maxctr s + N.of_nat (length (blob_kids b)).
Proof.
  intros s h b. unfold db_insert. generalize (blob_kids b). intro kids.
  destruct (find_node (db_nodes s) h); [lia|]. unfold maxctr. cbn [db_nodes db_meta].
  rewrite map_app, lmax_app.
  assert (lmax (map nctr [mkC h kids (len b) 0 []]) = 0) as -> by reflexivity.
  assert (forall l, lmax (map nctr (fold_left (fun l k => update_node l k (bump 1)) kids l)) <= lmax (map nctr l) + N.of_nat (length kids)) as Hk.
  { induction kids as [|k r IH]; intro l; cbn [fold_left]; [cbn; lia|].
    specialize (IH (update_node l k (bump 1))). pose proof (bump_max l k). cbn [length]. lia. }
  specialize (Hk (db_nodes s)). lia.
Qed.

Lemma reference_max : forall s c p, maxctr (db_reference s c p) <= maxctr s + 1.
Proof.
  intros s c p. unfold db_reference. destruct (find_node (db_nodes s) c); [|lia].
  destruct p as [|pb pr].
  - unfold maxctr. cbn [db_nodes db_meta]. pose proof (bump_max (db_nodes s) c).
    pose proof (ext_set_max (db_meta s) c (ext_get (db_meta s) c + 1)). pose proof (ext_get_le (db_meta s) c). lia.
  - destruct (find_node (db_nodes s) (pb :: pr)) as [pn|]; [|lia].
    destruct (N.ltb 0 (ext_get (cn_ext pn) c)); [lia|].
    unfold maxctr. cbn [db_nodes db_meta]. pose proof (bump_max (db_nodes s) c) as B1.
    set (l1 := update_node (db_nodes s) c (bump 1)) in *.
    pose proof (update_max l1 (pb :: pr) (fun z => mkC (cn_hash z) (cn_kids z) (cn_size z) (cn_parents z) (ext_set (cn_ext z) c 1)) (N.max 1 (lmax (map nctr l1)))) as U.
    assert (forall z, In z l1 -> nctr (mkC (cn_hash z) (cn_kids z) (cn_size z) (cn_parents z) (ext_set (cn_ext z) c 1)) <= N.max 1 (lmax (map nctr l1))) as Hg.
    { intros z Hz. pose proof (lmax_in _ _ (in_map nctr _ _ Hz)) as Hle.
      assert (cn_parents z <= nctr z) as Q1 by (unfold nctr; lia).
      assert (lmax (map snd (cn_ext z)) <= nctr z) as Q2 by (unfold nctr; lia).
      unfold nctr at 1. cbn [cn_parents cn_ext]. pose proof (ext_set_max (cn_ext z) c 1). lia. }
    specialize (U Hg). lia.
Qed.

Lemma cap_loop_max : forall nodes size limit disk, lmax (map nctr (fst (cap_loop nodes size limit disk))) <= lmax (map nctr nodes).
Proof.
  induction nodes as [|c r IH]; intros size limit disk; cbn [cap_loop]; [cbn; lia|].
  destruct (N.ltb limit size); [|cbn; lia]. specialize (IH (size - (96 + cn_size c)) limit (add_disk disk (cn_hash c))). cbn [map lmax fold_right]. lia.
Qed.

Lemma cap_max : forall s limit, maxctr (db_cap s limit) <= maxctr s.
Proof.
  intros s limit. unfold db_cap. pose proof (cap_loop_max (db_nodes s) (db_size s) limit (db_disk s)) as Hc.
  destruct (cap_loop (db_nodes s) (db_size s) limit (db_disk s)) as [nodes disk]. cbn [fst] in Hc. unfold maxctr. cbn [db_nodes db_meta]. lia.
Qed.

Lemma uncache_max : forall f s h, maxctr (db_uncache f s h) <= maxctr s.
Proof.
  induction f as [|f IH]; intros s h; cbn [db_uncache]; [lia|].
  destruct (find_node (db_nodes s) h) as [n|]; [|lia].
  assert (forall ks st, maxctr (fold_left (fun st k => db_uncache f st k) ks st) <= maxctr st) as Hfold.
  { induction ks as [|k ks IHk]; intro st; cbn [fold_left]; [lia|]. specialize (IHk (db_uncache f st k)). specialize (IH st k). lia. }
  specialize (Hfold (map fst (cn_ext n) ++ cn_kids n) (mkDb (remove_node (db_nodes s) h) (db_meta s) (add_disk (db_disk s) h))).
  unfold maxctr in *. cbn [db_nodes db_meta] in *. pose proof (remove_max (db_nodes s) h). lia.
Qed.

Lemma find_nctr_le : forall l h n, find_node l h = Some n -> nctr n <= lmax (map nctr l).
Proof. intros l h n Hf. destruct (find_node_some _ _ _ Hf) as [A _]. apply lmax_in. apply in_map. exact A. Qed.

Lemma deref_max : forall f s c p, maxctr (db_deref f s c p) <= maxctr s.
Proof.
  induction f as [|f IH]; intros s c p; cbn [db_deref]; [lia|].
  set (s1 := match p with
             | [] => let c0 := ext_get (db_meta s) c in
                     if N.ltb 0 c0 then mkDb (db_nodes s) (ext_set (db_meta s) c (c0 - 1)) (db_disk s) else s
             | _ => match find_node (db_nodes s) p with
                    | None => s
                    | Some p0 => let c0 := ext_get (cn_ext p0) c in
                                 if N.ltb 0 c0
                                 then mkDb (update_node (db_nodes s) p
                                              (fun x => mkC (cn_hash x) (cn_kids x) (cn_size x) (cn_parents x) (ext_set (cn_ext x) c (c0 - 1))))
                                           (db_meta s) (db_disk s)
                                 else s
                    end
             end).
  assert (maxctr s1 <= maxctr s) as H1.
  { unfold s1. destruct p as [|pb pr].
    - cbv zeta. destruct (N.ltb 0 (ext_get (db_meta s) c)) eqn:E; [|lia]. unfold maxctr. cbn [db_nodes db_meta].
      pose proof (ext_set_max (db_meta s) c (ext_get (db_meta s) c - 1)). pose proof (ext_get_le (db_meta s) c). lia.
    - destruct (find_node (db_nodes s) (pb :: pr)) as [p0|] eqn:Ef; [|lia]. cbv zeta.
      destruct (N.ltb 0 (ext_get (cn_ext p0) c)) eqn:E; [|lia]. unfold maxctr. cbn [db_nodes db_meta].
      pose proof (update_max (db_nodes s) (pb :: pr) (fun x => mkC (cn_hash x) (cn_kids x) (cn_size x) (cn_parents x) (ext_set (cn_ext x) c (ext_get (cn_ext p0) c - 1))) (lmax (map nctr (db_nodes s)))) as U.
      assert (forall x, In x (db_nodes s) -> nctr (mkC (cn_hash x) (cn_kids x) (cn_size x) (cn_parents x) (ext_set (cn_ext x) c (ext_get (cn_ext p0) c - 1))) <= lmax (map nctr (db_nodes s))) as Hg.
      { intros x Hx. pose proof (lmax_in _ _ (in_map nctr _ _ Hx)) as Hle. pose proof (find_nctr_le _ _ _ Ef) as Hp0.
        assert (cn_parents x <= nctr x) as Q1 by (unfold nctr; lia).
        assert (lmax (map snd (cn_ext x)) <= nctr x) as Q2 by (unfold nctr; lia).
        assert (lmax (map snd (cn_ext p0)) <= nctr p0) as Q3 by (unfold nctr; lia).
        unfold nctr at 1. cbn [cn_parents cn_ext].
        pose proof (ext_set_max (cn_ext x) c (ext_get (cn_ext p0) c - 1)). pose proof (ext_get_le (cn_ext p0) c). lia. }
      specialize (U Hg). lia. }
  fold s1. destruct (find_node (db_nodes s1) c) as [n|] eqn:Efc; [|exact H1].
  set (p' := if N.ltb 0 (cn_parents n) then cn_parents n - 1 else 0).
  set (s2 := mkDb (update_node (db_nodes s1) c (fun x => mkC (cn_hash x) (cn_kids x) (cn_size x) p' (cn_ext x))) (db_meta s1) (db_disk s1)).
  assert (maxctr s2 <= maxctr s1) as H2.
  { unfold s2, maxctr. cbn [db_nodes db_meta].
    pose proof (update_max (db_nodes s1) c (fun x => mkC (cn_hash x) (cn_kids x) (cn_size x) p' (cn_ext x)) (lmax (map nctr (db_nodes s1)))) as U.
    assert (forall x, In x (db_nodes s1) -> nctr (mkC (cn_hash x) (cn_kids x) (cn_size x) p' (cn_ext x)) <= lmax (map nctr (db_nodes s1))) as Hg.
    { intros x Hx. pose proof (lmax_in _ _ (in_map nctr _ _ Hx)) as Hle. pose proof (find_nctr_le _ _ _ Efc) as Hn.
      assert (lmax (map snd (cn_ext x)) <= nctr x) as Q2 by (unfold nctr; lia).
      assert (cn_parents n <= nctr n) as Q3 by (unfold nctr; lia).
      unfold nctr at 1. cbn [cn_parents cn_ext]. unfold p'. destruct (N.ltb 0 (cn_parents n)); lia. }
    specialize (U Hg). lia. }
  destruct (N.eqb p' 0); [|lia].
  assert (forall ks st, maxctr (fold_left (fun st k => db_deref f st k c) ks st) <= maxctr st) as Hfold.
  { induction ks as [|k ks IHk]; intro st; cbn [fold_left]; [lia|]. specialize (IHk (db_deref f st k c)). specialize (IH st k c). lia. }
  specialize (Hfold (map fst (cn_ext n) ++ cn_kids n) s2).
  set (s3 := fold_left (fun st k => db_deref f st k c) (map fst (cn_ext n) ++ cn_kids n) s2) in *.
  unfold maxctr in *. cbn [db_nodes db_meta] in *. pose proof (remove_max (db_nodes s3) c). lia.
Qed.

Lemma dereference_max : forall s r, maxctr (db_dereference s r) <= maxctr s.
Proof. intros s r. unfold db_dereference. destruct r; [lia|apply deref_max]. Qed.

(* the number of reference events of a schedule: the children named by the inserted blobs, and the Reference calls *)
Definition xcost (o : xop) : N :=
  match o with
  | XInsert _ b => N.of_nat (length (blob_kids b))
  | XRefMeta _ | XRefNode _ _ => 1
  | _ => 0
  end.
Fixpoint events (ops : list xop) : N := match ops with [] => 0 | o :: r => xcost o + events r end.

Lemma xstep_max : forall s o, maxctr (xstep s o) <= maxctr s + xcost o.
Proof.
  intros s o. destruct o; cbn [xstep xcost].
  - apply insert_max.
  - apply reference_max.
  - apply reference_max.
  - pose proof (dereference_max s r). lia.
  - pose proof (cap_max s limit). lia.
  - unfold db_commit. pose proof (uncache_max (S (length (db_nodes s))) s r). lia.
Qed.

Lemma runN_max : forall ops s, maxctr (fold_left xstep ops s) <= maxctr s + events ops.
Proof.
  induction ops as [|o ops IH]; intro s; cbn [fold_left events]; [lia|].
  specialize (IH (xstep s o)). pose proof (xstep_max s o). lia.
Qed.

(* below 2^16 reference events the uint16 code and the exact model run in lock step *)
Lemma xstepM_eq : forall M s o, maxctr s + xcost o < M -> xstepM M s o = xstep s o.
Proof.
  intros M s o Hb. pose proof (xstep_max s o) as Hm. destruct o; try reflexivity; apply wrapM_id, fitsM_of_max; lia.
Qed.

Lemma runM_eq : forall M ops s, maxctr s + events ops < M ->
  fold_left (xstepM M) ops s = fold_left xstep ops s.
Proof.
  intros M. induction ops as [|o ops IH]; intros s Hb; [reflexivity|].
  change (events (o :: ops)) with (xcost o + events ops) in Hb.
  change (fold_left (xstepM M) (o :: ops) s) with (fold_left (xstepM M) ops (xstepM M s o)).
  change (fold_left xstep (o :: ops) s) with (fold_left xstep ops (xstep s o)).
  pose proof (xstep_max s o) as Hm. rewrite xstepM_eq by lia. apply IH. lia.
Qed.

(* below M reference events the counters modulo M and the exact model run in lock step *)
Lemma counter_guard : forall M ops, events ops < M ->
  runM M ops = runN ops /\ maxctr (runN ops) <= events ops.
Proof.
  intros M ops Hb. unfold runM, runN. split.
  - apply runM_eq. change (maxctr db_empty) with 0. lia.
  - pose proof (runN_max ops db_empty) as Hm. change (maxctr db_empty) with 0 in Hm. lia.
Qed.

Lemma uint16_guard : forall ops, events ops < 65536 ->
  run16 ops = runN ops /\ maxctr (runN ops) <= events ops.
Proof. intros ops Hb. apply (counter_guard 65536 ops Hb). Qed.

(* the width the repaired code uses *)
Lemma uint32_guard : forall ops, events ops < 4294967296 ->
  runW 32 ops = runN ops /\ maxctr (runN ops) <= events ops.
Proof. intros ops Hb. unfold runW. change (2 ^ 32) with 4294967296. apply (counter_guard 4294967296 ops Hb). Qed.
