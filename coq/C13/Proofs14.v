(* C13 - lemmas, part 14: the width of the reference counters.  The Go code
   keeps parents and children counts in uint16; the model counts in N.  The
   16-bit semantics is the model followed by reduction mod 2^16 after the
   steps that increment (insert, Reference); the other steps only decrement
   under a guard or do not touch counters. *)
From VF.C13 Require Import Model Proofs Proofs9 Proofs10.
From Coq Require Import Lia ZifyBool ZifyN ZifyNat.
Local Open Scope N_scope.

Definition w16 (x : N) : N := x mod 65536.

Definition wrap_node (c : cnode) : cnode :=
  mkC (cn_hash c) (cn_kids c) (cn_size c) (w16 (cn_parents c)) (map (fun p => (fst p, w16 (snd p))) (cn_ext c)).

Definition wrap16 (s : dbstate) : dbstate :=
  mkDb (map wrap_node (db_nodes s)) (map (fun p => (fst p, w16 (snd p))) (db_meta s)) (db_disk s).

(* one step of a schedule, unbounded counters / uint16 counters *)
Definition xstep (s : dbstate) (o : xop) : dbstate :=
  match o with
  | XInsert h b => db_insert s (h, b)
  | XRefMeta c => db_reference s c []
  | XRefNode c p => db_reference s c p
  | XDeref r => db_dereference s r
  | XCap l => db_cap s l
  | XCommit r => db_commit s r
  end.

Definition xstep16 (s : dbstate) (o : xop) : dbstate :=
  match o with
  | XInsert _ _ | XRefMeta _ | XRefNode _ _ => wrap16 (xstep s o)
  | _ => xstep s o
  end.

Definition run16 (ops : list xop) : dbstate := fold_left xstep16 ops db_empty.
Definition runN (ops : list xop) : dbstate := fold_left xstep ops db_empty.

(* all counters of a state are below 2^16 *)
Definition fits16 (s : dbstate) : Prop :=
  (forall x, In x (db_nodes s) -> cn_parents x < 65536 /\ forall p, In p (cn_ext x) -> snd p < 65536) /\
  (forall p, In p (db_meta s) -> snd p < 65536).

Lemma wrap16_id : forall s, fits16 s -> wrap16 s = s.
Proof.
  intros [nodes meta disk] [Hn Hm]. unfold wrap16. cbn [db_nodes db_meta db_disk] in *. f_equal.
  - rewrite <- (map_id nodes) at 2. apply map_ext_in. intros x Hx. destruct (Hn x Hx) as [Hp He].
    destruct x as [h k sz p e]. unfold wrap_node. cbn [cn_hash cn_kids cn_size cn_parents cn_ext] in *. f_equal.
    + unfold w16. apply N.mod_small. exact Hp.
    + rewrite <- (map_id e) at 2. apply map_ext_in. intros [a c] Ha. cbn. f_equal. unfold w16. apply N.mod_small. apply (He _ Ha).
  - rewrite <- (map_id meta) at 2. apply map_ext_in. intros [a c] Ha. cbn. f_equal. unfold w16. apply N.mod_small. apply (Hm _ Ha).
Qed.
