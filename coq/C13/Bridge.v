(* C13 - facts about files regenerated from /repo: the width of the node
   cache's reference counters (coq/gen/C13Counters.v, written by "c13 counters"). *)
From VF.C13 Require Import Model Proofs10 Proofs14.
From VF.gen Require Import C13Counters.
Local Open Scope N_scope.

(* the repaired code (8fe169d) counts in 32 bits; narrowing the declared types
   again makes this lemma fail *)
Lemma code_counter_width : parents_bits = 32 /\ children_bits = 32.
Proof. split; reflexivity. Qed.

(* so the guard that speaks about the code as written is the 32-bit one *)
Lemma code_counter_guard : forall ops, events ops < 2 ^ parents_bits ->
  runW parents_bits ops = runN ops /\ maxctr (runN ops) <= events ops.
Proof.
  intros ops Hb. destruct code_counter_width as [E _]. rewrite E in *. apply uint32_guard.
  change (2 ^ 32) with 4294967296 in Hb. exact Hb.
Qed.
