(* C13 - lemmas, part 8: committing a trie and re-opening it from the node
   store gives the same trie back. *)
From VF.C13 Require Import Model Proofs Proofs2 Proofs4 Proofs5 Proofs6 Proofs7.
From Coq Require Import Lia ZifyBool ZifyN ZifyNat.
Local Open Scope N_scope.

Fixpoint height (n : node) : nat :=
  match n with
  | Short _ c => S (height c)
  | Full cs => S (fold_right (fun c acc => Nat.max (height c) acc) 0%nat cs)
  | _ => 0%nat
  end.

(* proper descendants that are nodes *)
Fixpoint desc (n : node) : list node :=
  match n with
  | Short _ c => match c with Short _ _ | Full _ => c :: desc c | _ => [] end
  | Full cs => flat_map_first (fun c => match c with Short _ _ | Full _ => c :: desc c | _ => [] end) 16 cs
  | _ => []
  end.

Section Reopen.
Variable H : bytes -> bytes.
Hypothesis Hlen : forall x, length (H x) = 32%nat.

Notation enc := (enc H).
Notation emb := (emb H).
Notation dview := (dview H).
Notation dref := (dref H).
Notation hashed := (hashed H).

Definition has_node (db : list (bytes * bytes)) (m : node) : Prop :=
  assoc db (H (enc m)) = Some (enc m).

Lemma height_child_full : forall cs c, In c cs -> (height c < height (Full cs))%nat.
Proof.
  intros cs c Hin. cbn [height]. induction cs as [|x cs IH]; [destruct Hin|]. cbn [fold_right].
  destruct Hin as [->|Hin]; [lia|]. specialize (IH Hin). lia.
Qed.

Lemma expand_leafish : forall f db n, (match n with Empty | Val _ => True | _ => False end) -> expand f db n = n.
Proof. intros f db n Hn. destruct f; destruct n; try contradiction; reflexivity. Qed.

Lemma in_flat_map_first : forall (g : node -> list node) k cs x c,
  In c (firstn k cs) -> In x (g c) -> In x (flat_map_first g k cs).
Proof.
  intros g k cs. revert k. induction cs as [|y cs IH]; intros k x c Hin Hx; destruct k; cbn in Hin; try contradiction.
  cbn [flat_map_first]. apply in_or_app. destruct Hin as [->|Hin]; [left; exact Hx|right; eapply IH; eassumption].
Qed.

(* expanding a reference through a store that has all the hashed descendants *)
Lemma expand_ref : forall c db f, canon c -> small c ->
  (forall f', (2 * height c <= f')%nat -> expand f' db (dview c) = c) ->
  (hashed c = true -> has_node db c) ->
  (2 * height c + 1 <= f)%nat -> expand f db (dref c) = c.
Proof.
  intros c db f Hc Hs IHc Hhas Hf.
  assert (is_node c) as Hnc by (destruct c; try discriminate; exact I).
  assert (dref c = if emb c then dview c else HashN (H (enc c))) as -> by (destruct c; try contradiction; reflexivity).
  destruct (emb c) eqn:E.
  - apply IHc. lia.
  - destruct f as [|f]; [lia|]. cbn [expand].
    rewrite (Hhas ltac:(unfold Proofs6.hashed; rewrite E; reflexivity)).
    rewrite <- (app_nil_r (enc c)). rewrite (decode_canon H Hlen c [] Hc Hs). apply IHc. lia.
Qed.

Lemma expand_dview : forall n, canon n -> small n -> forall db,
  (forall m, In m (desc n) -> hashed m = true -> has_node db m) ->
  forall f, (2 * height n <= f)%nat -> expand f db (dview n) = n.
Proof.
  induction n as [|vv|k c IH|cs IH|hh] using node_ind'; intros Hc Hs db Hdb f Hf; try discriminate.
  - (* Short *)
    cbn [height] in Hf. destruct f as [|f]; [lia|]. cbn [Proofs5.dview expand]. f_equal.
    cbn [small] in Hs. destruct Hs as [_ Hsc].
    destruct (canon_short_inv _ _ Hc) as [[Htk Hv]|[Hnk [Hne [Hfc Hcc]]]].
    + destruct (is_valne_inv _ Hv) as [v [-> _]]. apply expand_leafish. exact I.
    + assert (is_node c) as Hnc by (destruct c; try discriminate; exact I).
      assert ((match c with Short _ _ | Full _ => if emb c then dview c else HashN (H (enc c)) | _ => c end) = dref c) as -> by reflexivity.
      apply (expand_ref c db f Hcc Hsc).
      * intros f' Hf'. apply IH; try assumption. intros m Hin Hh. apply Hdb; [|exact Hh].
        cbn [desc]. destruct c; try contradiction; right; exact Hin.
      * intro Hh. apply Hdb; [|exact Hh]. cbn [desc]. destruct c; try contradiction; left; reflexivity.
      * lia.
  - (* Full *)
    destruct f as [|f]; [cbn [height] in Hf; lia|]. cbn [Proofs5.dview expand]. f_equal.
    destruct (canon_full_inv _ Hc) as [Hl [Hslots _]]. apply small_full in Hs.
    apply (nth_ext _ _ Empty Empty); [rewrite map_length, map_first_length; reflexivity|].
    intros i Hi. rewrite map_length, map_first_length in Hi.
    rewrite (nth_indep _ Empty (expand f db Empty)) by (rewrite map_length, map_first_length; exact Hi).
    rewrite map_nth. rewrite nth_map_first by exact Hi.
    pose proof (Hslots i ltac:(lia)) as Si. unfold slot_ok in Si.
    set (c := nth i cs Empty) in *. assert (In c cs) as Hin by (apply nth_In; exact Hi).
    destruct (i <? 16)%nat eqn:E16.
    + destruct Si as [Ec|Hcc]; [rewrite Ec; apply expand_leafish; exact I|].
      assert (is_node c) as Hnc by (destruct c; try discriminate; exact I).
      assert ((match c with Short _ _ | Full _ => if emb c then dview c else HashN (H (enc c)) | _ => c end) = dref c) as -> by reflexivity.
      rewrite Forall_forall in IH, Hs. pose proof (height_child_full cs c Hin) as Hh.
      assert (In c (firstn 16 cs)) as Hfn.
      { apply Nat.ltb_lt in E16. unfold c. rewrite <- (firstn_skipn 16 cs) at 1. rewrite app_nth1 by (rewrite firstn_length; lia).
        apply nth_In. rewrite firstn_length. lia. }
      apply (expand_ref c db f Hcc (Hs c Hin)).
      * intros f' Hf'. apply (IH c Hin Hcc (Hs c Hin)); [|exact Hf']. intros m Hm Hhm. apply Hdb; [|exact Hhm].
        cbn [desc]. apply (in_flat_map_first _ 16 cs m c Hfn). destruct c; try contradiction; right; exact Hm.
      * intro Hhm. apply Hdb; [|exact Hhm]. cbn [desc]. apply (in_flat_map_first _ 16 cs c c Hfn).
        destruct c; try contradiction; left; reflexivity.
      * lia.
    + destruct Si as [Ec|Hv]; [rewrite Ec; apply expand_leafish; exact I|].
      destruct (is_valne_inv _ Hv) as [v [Ev _]]. rewrite Ev. apply expand_leafish. exact I.
Qed.

(* re-opening from any store that holds the root node and every hashed descendant *)
Lemma reopen_ok : forall t db f, canon t -> small t ->
  has_node db t -> (forall m, In m (desc t) -> hashed m = true -> has_node db m) ->
  root_hash H t <> empty_root -> (2 * height t + 1 <= f)%nat ->
  reopen f db (root_hash H t) = t.
Proof.
  intros t db f Hc Hs Hroot Hdb Hne Hf. unfold reopen.
  assert (list_eqb (root_hash H t) empty_root = false) as -> by (apply list_eqb_neq; exact Hne).
  assert (is_node t) as Hnt by (destruct t; try discriminate; exact I).
  rewrite (root_hash_node H t Hnt). destruct f as [|f]; [lia|]. cbn [expand]. rewrite Hroot.
  rewrite <- (app_nil_r (enc t)). rewrite (decode_canon H Hlen t [] Hc Hs).
  apply expand_dview; try assumption. lia.
Qed.

(* ---- what Commit stores ----------------------------------------------------- *)

Lemma self_entry_hashed : forall m, is_node m -> hashed m = true -> self_entry H m = [(H (enc m), enc m)].
Proof.
  intros m Hm Hh. unfold self_entry. rewrite (store_node H m Hm).
  unfold Proofs6.hashed in Hh. apply negb_true_iff in Hh. rewrite Hh. reflexivity.
Qed.

Lemma stored_self : forall m, is_node m -> hashed m = true -> In (H (enc m), enc m) (stored H m).
Proof.
  intros m Hm Hh. destruct m; try contradiction; cbn [stored]; apply in_or_app; right;
    rewrite self_entry_hashed by assumption; left; reflexivity.
Qed.

Lemma in_flat_map_first_pair : forall (g : node -> list (bytes * bytes)) k cs x c,
  In c (firstn k cs) -> In x (g c) -> In x (flat_map_first g k cs).
Proof.
  intros g k cs. revert k. induction cs as [|y cs IH]; intros k x c Hin Hx; destruct k; cbn in Hin; try contradiction.
  cbn [flat_map_first]. apply in_or_app. destruct Hin as [->|Hin]; [left; exact Hx|right; eapply IH; eassumption].
Qed.

Lemma in_flat_map_first_inv : forall (g : node -> list node) k cs x,
  In x (flat_map_first g k cs) -> exists c, In c (firstn k cs) /\ In x (g c).
Proof.
  intros g k cs. revert k. induction cs as [|y cs IH]; intros k x Hin; destruct k; cbn in Hin; try contradiction.
  apply in_app_or in Hin. destruct Hin as [Hin|Hin].
  - exists y. split; [left; reflexivity|exact Hin].
  - destruct (IH _ _ Hin) as [c [Hc Hx]]. exists c. split; [right; exact Hc|exact Hx].
Qed.

Lemma stored_desc : forall n m, In m (desc n) -> hashed m = true ->
  In (H (enc m), enc m) (stored_children H n).
Proof.
  induction n as [|vv|k c IH|cs IH|hh] using node_ind'; intros m Hin Hh; cbn [desc] in Hin; try contradiction.
  - cbn [stored_children]. destruct c as [| |k2 c2|cs2|]; try contradiction.
    + destruct Hin as [<-|Hin]; [apply stored_self; [exact I|exact Hh]|].
      cbn [stored]. apply in_or_app. left. apply (IH m Hin Hh).
    + destruct Hin as [<-|Hin]; [apply stored_self; [exact I|exact Hh]|].
      cbn [stored]. apply in_or_app. left. apply (IH m Hin Hh).
  - cbn [stored_children]. apply in_flat_map_first_inv in Hin. destruct Hin as [c [Hc Hm]].
    apply (in_flat_map_first_pair _ 16 cs _ c Hc).
    assert (In c cs) as Hcs. { rewrite <- (firstn_skipn 16 cs). apply in_or_app. left. exact Hc. }
    rewrite Forall_forall in IH. destruct c as [| |k2 c2|cs2|]; try contradiction.
    + destruct Hm as [<-|Hm]; [apply stored_self; [exact I|exact Hh]|].
      cbn [stored]. apply in_or_app. left. apply (IH _ Hcs m Hm Hh).
    + destruct Hm as [<-|Hm]; [apply stored_self; [exact I|exact Hh]|].
      cbn [stored]. apply in_or_app. left. apply (IH _ Hcs m Hm Hh).
Qed.

Lemma assoc_functional : forall l k v, In (k, v) l ->
  (forall k' v1 v2, In (k', v1) l -> In (k', v2) l -> v1 = v2) -> assoc l k = Some v.
Proof.
  induction l as [|[k0 v0] l IH]; intros k v Hin Hf; [destruct Hin|]. cbn [assoc].
  destruct (list_eqb k0 k) eqn:E.
  - apply list_eqb_eq in E. subst k0. f_equal. apply (Hf k); [left; reflexivity|exact Hin].
  - destruct Hin as [Hin|Hin]; [injection Hin as -> _; rewrite list_eqb_refl in E; discriminate|].
    apply IH; [exact Hin|]. intros k' v1 v2 H1 H2. apply (Hf k'); right; assumption.
Qed.

(* commit then re-open: nothing is lost, unless two stored blobs collide under H *)
Lemma commit_reopen : forall t f, canon t -> small t ->
  (forall h b1 b2, In (h, b1) (commit H t) -> In (h, b2) (commit H t) -> b1 = b2) ->
  root_hash H t <> empty_root -> (2 * height t + 1 <= f)%nat ->
  reopen f (commit H t) (root_hash H t) = t.
Proof.
  intros t f Hc Hs Hfun Hne Hf.
  assert (is_node t) as Hnt by (destruct t; try discriminate; exact I).
  assert (commit H t = stored_children H t ++ [(H (enc t), enc t)]) as Ec.
  { unfold commit. rewrite (root_hash_node H t Hnt). destruct t; try contradiction; reflexivity. }
  apply reopen_ok; try assumption.
  - unfold has_node. apply assoc_functional; [|exact Hfun]. rewrite Ec. apply in_or_app. right. left. reflexivity.
  - intros m Hin Hh. unfold has_node. apply assoc_functional; [|exact Hfun]. rewrite Ec. apply in_or_app. left.
    apply stored_desc; assumption.
Qed.

End Reopen.

Lemma commit_reopen_reachable : forall (H : bytes -> bytes), (forall x, length (H x) = 32%nat) ->
  forall ops f, Forall op_ok ops -> Forall op_small ops ->
  let t := run ops in
  (forall h b1 b2, In (h, b1) (commit H t) -> In (h, b2) (commit H t) -> b1 = b2) ->
  root_hash H t <> empty_root -> (2 * height t + 1 <= f)%nat ->
  reopen f (commit H t) (root_hash H t) = t /\
  forall k, bytes_ok k -> t_get (reopen f (commit H t) (root_hash H t)) k = m_run ops k.
Proof.
  intros H Hlen ops f Ho Hsm t Hfun Hne Hf.
  assert (reopen f (commit H t) (root_hash H t) = t) as E.
  { destruct (run_small ops Ho Hsm) as [E|[Hc Hs]].
    - unfold t in *. rewrite E in *. cbn in Hne. congruence.
    - apply commit_reopen; assumption. }
  split; [exact E|]. intros k Hk. rewrite E. apply run_refines; assumption.
Qed.
