(* C13 - lemmas, part 1: keys, list helpers, the canonical-form invariant and
   its preservation by insert / delete, the map refinement. *)
From VF.C13 Require Import Model.
From Coq Require Import Lia ZifyBool ZifyN ZifyNat Sorted.
Local Open Scope N_scope.

(* ---- induction principle for the nested node type ------------------------ *)

Section NodeInd.
Variable P : node -> Prop.
Hypothesis HE : P Empty.
Hypothesis HV : forall v, P (Val v).
Hypothesis HS : forall k c, P c -> P (Short k c).
Hypothesis HF : forall cs, Forall P cs -> P (Full cs).
Hypothesis HH : forall h, P (HashN h).

Fixpoint node_ind' (n : node) : P n :=
  match n with
  | Empty => HE
  | Val v => HV v
  | Short k c => HS k c (node_ind' c)
  | Full cs =>
    HF cs ((fix go (l : list node) : Forall P l :=
              match l with
              | [] => Forall_nil P
              | c :: r => Forall_cons c (node_ind' c) (go r)
              end) cs)
  | HashN h => HH h
  end.
End NodeInd.

(* ---- list_eqb ------------------------------------------------------------ *)

Lemma list_eqb_refl : forall a, list_eqb a a = true.
Proof. induction a as [|x a IH]; cbn; [reflexivity|]. rewrite N.eqb_refl, IH. reflexivity. Qed.

Lemma list_eqb_eq : forall a b, list_eqb a b = true <-> a = b.
Proof.
  induction a as [|x a IH]; destruct b as [|y b]; cbn; split; intro E; try reflexivity; try discriminate.
  - apply andb_true_iff in E. destruct E as [E1 E2]. apply N.eqb_eq in E1. apply IH in E2. congruence.
  - injection E as -> ->. rewrite N.eqb_refl. apply list_eqb_refl.
Qed.

Lemma list_eqb_neq : forall a b, list_eqb a b = false <-> a <> b.
Proof.
  intros a b. split.
  - intros E F. apply list_eqb_eq in F. congruence.
  - intro F. destruct (list_eqb a b) eqn:E; [|reflexivity]. apply list_eqb_eq in E. contradiction.
Qed.

(* ---- terminated keys ----------------------------------------------------- *)

(* all nibbles below 16 *)
Definition nibs (k : nibbles) : Prop := Forall (fun x => x < 16) k.

(* a hex key with terminator: nibbles below 16 followed by 16 *)
Definition tkey (k : nibbles) : Prop := exists ns, k = ns ++ [16] /\ nibs ns.

Lemma tkey_hex : forall bs, Forall (fun b => b < 256) bs -> tkey (keybytes_to_hex bs).
Proof.
  induction bs as [|b r IH]; intro F.
  - exists []. split; [reflexivity|constructor].
  - inversion F as [|? ? Hb Fr]; subst. destruct (IH Fr) as [ns [E Hn]].
    exists (b / 16 :: b mod 16 :: ns). cbn [keybytes_to_hex]. rewrite E. split; [reflexivity|].
    constructor; [|constructor; [|exact Hn]].
    + apply N.div_lt_upper_bound; lia.
    + apply N.mod_lt. lia.
Qed.

Lemma tkey_nonempty : forall k, tkey k -> k <> [].
Proof. intros k [ns [-> _]]. destruct ns; discriminate. Qed.

Lemma tkey_cons : forall x r, tkey (x :: r) -> (x = 16 /\ r = []) \/ (x < 16 /\ tkey r).
Proof.
  intros x r [ns [E Hn]]. destruct ns as [|y ns]; cbn in E.
  - injection E as -> ->. left. split; reflexivity.
  - injection E as -> ->. inversion Hn; subst. right. split; [assumption|]. exists ns. split; [reflexivity|assumption].
Qed.

Lemma tkey_cons_lt : forall x r, x < 16 -> tkey r -> tkey (x :: r).
Proof. intros x r Hx [ns [-> Hn]]. exists (x :: ns). split; [reflexivity|constructor; assumption]. Qed.

Lemma tkey_16 : tkey [16].
Proof. exists []. split; [reflexivity|constructor]. Qed.

Lemma nibs_app : forall a b, nibs (a ++ b) <-> nibs a /\ nibs b.
Proof. intros. unfold nibs. apply Forall_app. Qed.

Lemma nibs_no16 : forall k, nibs k -> ~ In 16 k.
Proof. intros k Hn Hi. unfold nibs in Hn. rewrite Forall_forall in Hn. apply Hn in Hi. lia. Qed.

Lemma tkey_app_nibs : forall p k, nibs p -> tkey k -> tkey (p ++ k).
Proof.
  induction p as [|x p IH]; intros k Hp Hk; [exact Hk|].
  inversion Hp; subst. cbn. apply tkey_cons_lt; [assumption|]. apply IH; assumption.
Qed.

(* splitting a terminated key: the prefix is below 16 and the rest is a terminated key, or the rest is empty *)
Lemma tkey_split : forall p r, tkey (p ++ r) -> (r = [] /\ tkey p) \/ (nibs p /\ tkey r).
Proof.
  induction p as [|x p IH]; intros r H; cbn in H.
  - right. split; [constructor|exact H].
  - apply tkey_cons in H. destruct H as [[-> E]|[Hx Ht]].
    + apply app_eq_nil in E. destruct E as [-> ->]. left. split; [reflexivity|apply tkey_16].
    + destruct (IH r Ht) as [[-> Hp]|[Hp Hr]].
      * left. split; [reflexivity|]. apply tkey_cons_lt; assumption.
      * right. split; [constructor; assumption|exact Hr].
Qed.

Lemma tkey_not_nibs : forall k, tkey k -> nibs k -> False.
Proof.
  intros k [ns [-> Hn]] H. apply nibs_app in H. destruct H as [_ H]. inversion H; subst. lia.
Qed.

(* no terminated key is a proper prefix of another *)
Lemma tkey_prefix_eq : forall a r, tkey a -> tkey (a ++ r) -> r = [].
Proof.
  intros a r Ha Har. destruct (tkey_split a r Har) as [[E _]|[Hn _]]; [exact E|].
  exfalso. exact (tkey_not_nibs _ Ha Hn).
Qed.

Lemma has_term_tkey : forall k, tkey k -> has_term k = true.
Proof.
  intros k [ns [-> _]]. unfold has_term. destruct (ns ++ [16]) eqn:E.
  - apply app_eq_nil in E. destruct E; discriminate.
  - rewrite <- E. rewrite last_last. reflexivity.
Qed.

Lemma has_term_nibs : forall k, nibs k -> has_term k = false.
Proof.
  intros k Hn. unfold has_term. destruct k as [|x k]; [reflexivity|].
  apply N.eqb_neq. intro E.
  assert (In (last (x :: k) 0) (x :: k)) as Hi.
  { clear. generalize x. induction k as [|y k IH]; intro x0; [left; reflexivity|].
    right. apply (IH y). }
  rewrite E in Hi. eapply nibs_no16; eassumption.
Qed.

(* ---- common prefix view -------------------------------------------------- *)

Definition diverge (a b : nibbles) : Prop :=
  match a, b with x :: _, y :: _ => x <> y | _, _ => True end.

Lemma prefix_view : forall a b, exists p a' b',
  a = p ++ a' /\ b = p ++ b' /\ prefix_len a b = length p /\ diverge a' b'.
Proof.
  induction a as [|x a IH]; intro b.
  - exists [], [], b. repeat split.
  - destruct b as [|y b].
    + exists [], (x :: a), []. repeat split.
    + cbn [prefix_len]. destruct (N.eqb x y) eqn:E.
      * apply N.eqb_eq in E. subst y. destruct (IH b) as [p [a' [b' [Ea [Eb [El D]]]]]].
        exists (x :: p), a', b'. cbn. rewrite <- Ea, <- Eb, El. repeat split. exact D.
      * apply N.eqb_neq in E. exists [], (x :: a), (y :: b). repeat split. exact E.
Qed.

Lemma key_mismatch_false : forall k key, key_mismatch k key = false <-> exists r, key = k ++ r.
Proof.
  intros k key. unfold key_mismatch. split.
  - intro H. apply orb_false_iff in H. destruct H as [H1 H2].
    apply negb_false_iff in H2. apply list_eqb_eq in H2.
    exists (skipn (length k) key). rewrite H2 at 1. symmetry. apply firstn_skipn.
  - intros [r ->]. apply orb_false_iff. split.
    + rewrite app_length. apply Nat.ltb_ge. lia.
    + apply negb_false_iff. apply list_eqb_eq. rewrite firstn_app, Nat.sub_diag, firstn_all. cbn. rewrite app_nil_r. reflexivity.
Qed.

Lemma key_mismatch_true : forall k key, key_mismatch k key = true <-> ~ exists r, key = k ++ r.
Proof.
  intros. split.
  - intros H F. apply key_mismatch_false in F. congruence.
  - intro F. destruct (key_mismatch k key) eqn:E; [reflexivity|]. apply key_mismatch_false in E. contradiction.
Qed.

Lemma skipn_app_exact : forall (A : Type) (a b : list A), skipn (length a) (a ++ b) = b.
Proof. intros. rewrite skipn_app, Nat.sub_diag, skipn_all. reflexivity. Qed.

Lemma firstn_app_exact : forall (A : Type) (a b : list A), firstn (length a) (a ++ b) = a.
Proof. intros. rewrite firstn_app, Nat.sub_diag, firstn_all. cbn. apply app_nil_r. Qed.

(* ---- nth_apply / set_nth / counting -------------------------------------- *)

Lemma nth_apply_nth : forall A B (f : A -> B) d (l : list A) j dflt,
  (j < length l)%nat -> nth_apply f d l j = f (nth j l dflt).
Proof.
  intros A B f d l. induction l as [|c l IH]; intros j dflt H; cbn in H; [lia|].
  destruct j; cbn; [reflexivity|]. apply IH. lia.
Qed.

Lemma nth_apply_default : forall A B (f : A -> B) d (l : list A) j,
  (length l <= j)%nat -> nth_apply f d l j = d.
Proof.
  intros A B f d l. induction l as [|c l IH]; intros j H; cbn; [reflexivity|].
  destruct j; cbn in H; [lia|]. apply IH. lia.
Qed.

Lemma set_nth_length : forall A (l : list A) j x, length (set_nth l j x) = length l.
Proof. intros A l. induction l as [|c l IH]; intros j x; [reflexivity|]. destruct j; cbn; [reflexivity|]. rewrite IH. reflexivity. Qed.

Lemma nth_set_nth_eq : forall A (l : list A) j x d, (j < length l)%nat -> nth j (set_nth l j x) d = x.
Proof. intros A l. induction l as [|c l IH]; intros j x d H; cbn in H; [lia|]. destruct j; cbn; [reflexivity|]. apply IH. lia. Qed.

Lemma nth_set_nth_neq : forall A (l : list A) i j x d, i <> j -> nth i (set_nth l j x) d = nth i l d.
Proof.
  intros A l. induction l as [|c l IH]; intros i j x d H; [reflexivity|].
  destruct j, i; cbn; try reflexivity; try lia. apply IH. lia.
Qed.

Definition count_ne (cs : list node) : nat := length (filter (fun c => negb (is_empty c)) cs).

Lemma nonempty_from_spec : forall cs s i,
  In i (nonempty_from s cs) <-> (s <= i /\ i < s + length cs /\ nth (i - s) cs Empty <> Empty)%nat.
Proof.
  induction cs as [|c cs IH]; intros s i; cbn [nonempty_from length].
  - split; [intros []|lia].
  - destruct (is_empty c) eqn:E.
    + rewrite IH. destruct c; try discriminate. split.
      * intros [H1 [H2 H3]]. repeat split; try lia. replace (i - s)%nat with (S (i - S s)) by lia. exact H3.
      * intros [H1 [H2 H3]]. destruct (Nat.eq_dec i s) as [->|Hne].
        -- rewrite Nat.sub_diag in H3. cbn in H3. congruence.
        -- repeat split; try lia. replace (i - s)%nat with (S (i - S s)) in H3 by lia. exact H3.
    + cbn [In]. rewrite IH. split.
      * intros [<-|[H1 [H2 H3]]].
        -- repeat split; try lia. rewrite Nat.sub_diag. cbn. destruct c; discriminate.
        -- repeat split; try lia. replace (i - s)%nat with (S (i - S s)) by lia. exact H3.
      * intros [H1 [H2 H3]]. destruct (Nat.eq_dec i s) as [->|Hne]; [left; reflexivity|right].
        repeat split; try lia. replace (i - s)%nat with (S (i - S s)) in H3 by lia. exact H3.
Qed.

Lemma nonempty_idx_spec : forall cs i,
  In i (nonempty_idx cs) <-> (i < length cs /\ nth i cs Empty <> Empty)%nat.
Proof.
  intros. unfold nonempty_idx. rewrite nonempty_from_spec. rewrite Nat.sub_0_r. cbn. split; intros; repeat split; try tauto; lia.
Qed.

Lemma nonempty_from_length : forall cs s, length (nonempty_from s cs) = count_ne cs.
Proof.
  induction cs as [|c cs IH]; intro s; [reflexivity|]. unfold count_ne in *. cbn.
  destruct (is_empty c); cbn; rewrite IH; reflexivity.
Qed.

Lemma nonempty_idx_length : forall cs, length (nonempty_idx cs) = count_ne cs.
Proof. intros. apply nonempty_from_length. Qed.

Lemma count_ne_set_nth : forall cs j x, (j < length cs)%nat ->
  (count_ne (set_nth cs j x) + (if is_empty (nth j cs Empty) then 0 else 1)
   = count_ne cs + (if is_empty x then 0 else 1))%nat.
Proof.
  induction cs as [|c cs IH]; intros j x H; cbn in H; [lia|].
  destruct j; unfold count_ne in *; cbn.
  - destruct (is_empty c), (is_empty x); cbn; lia.
  - specialize (IH j x ltac:(lia)). destruct (is_empty c); cbn; lia.
Qed.

(* a list with exactly one non-empty element: its index *)
Lemma nonempty_idx_single : forall cs pos, nonempty_idx cs = [pos] ->
  (pos < length cs)%nat /\ nth pos cs Empty <> Empty /\
  forall i, i <> pos -> nth i cs Empty = Empty.
Proof.
  intros cs pos E.
  assert (In pos (nonempty_idx cs)) as Hin by (rewrite E; left; reflexivity).
  apply nonempty_idx_spec in Hin. destruct Hin as [H1 H2]. repeat split; try assumption.
  intros i Hi. destruct (Nat.lt_ge_cases i (length cs)) as [Hl|Hl].
  - destruct (nth i cs Empty) eqn:En; try reflexivity;
      (assert (In i (nonempty_idx cs)) as Hi2 by (apply nonempty_idx_spec; split; [exact Hl|rewrite En; discriminate]);
       rewrite E in Hi2; destruct Hi2 as [->|[]]; congruence).
  - apply nth_overflow. exact Hl.
Qed.

Lemma count_ne_two : forall cs, (2 <= count_ne cs)%nat ->
  exists i j, i <> j /\ (i < length cs)%nat /\ (j < length cs)%nat /\
              nth i cs Empty <> Empty /\ nth j cs Empty <> Empty.
Proof.
  intros cs H. rewrite <- nonempty_idx_length in H.
  destruct (nonempty_idx cs) as [|i [|j r]] eqn:E; cbn in H; try lia.
  assert (In i (nonempty_idx cs)) as Hi by (rewrite E; left; reflexivity).
  assert (In j (nonempty_idx cs)) as Hj by (rewrite E; right; left; reflexivity).
  apply nonempty_idx_spec in Hi. apply nonempty_idx_spec in Hj.
  exists i, j. repeat split; try tauto.
  (* i <> j: the index list is strictly increasing *)
  assert (forall cs s, StronglySorted lt (nonempty_from s cs) /\ Forall (fun x => s <= x)%nat (nonempty_from s cs)) as Hs.
  { clear. induction cs as [|c cs IH]; intro s; cbn; [split; constructor|].
    destruct (IH (S s)) as [I1 I2]. destruct (is_empty c).
    - split; [exact I1|]. eapply Forall_impl; [|exact I2]. cbn. intros. lia.
    - split.
      + constructor; [exact I1|]. eapply Forall_impl; [|exact I2]. cbn. intros. lia.
      + constructor; [lia|]. eapply Forall_impl; [|exact I2]. cbn. intros. lia. }
  destruct (Hs cs 0%nat) as [S1 _]. unfold nonempty_idx in E. rewrite E in S1.
  inversion S1 as [|? ? _ F]; subst. inversion F; subst. lia.
Qed.

Lemma count_ne_ge2_of : forall cs i j, i <> j -> (i < length cs)%nat -> (j < length cs)%nat ->
  nth i cs Empty <> Empty -> nth j cs Empty <> Empty -> (2 <= count_ne cs)%nat.
Proof.
  intros cs i j Hij Hi Hj Ni Nj. rewrite <- nonempty_idx_length.
  assert (In i (nonempty_idx cs)) as A by (apply nonempty_idx_spec; tauto).
  assert (In j (nonempty_idx cs)) as B by (apply nonempty_idx_spec; tauto).
  destruct (nonempty_idx cs) as [|a [|b r]]; cbn in *; try tauto; try lia.
Show.
