(* C13 - property theorems only.  Each is closed by [exact] of a lemma of the
   Proofs files and followed by Print Assumptions. *)
From VF.C13 Require Import Model Proofs Proofs2.
From VF.Lib Require Import Keccak.
Local Open Scope N_scope.

(* Faithful map.  After any history of updates and deletes over byte keys
   (an update with an empty value deletes), starting from the empty trie, a
   lookup returns exactly what the reference map holds. *)
Theorem C13_refines_map :
  forall ops, Forall op_ok ops ->
  forall k, bytes_ok k -> t_get (run ops) k = m_run ops k.
Proof. exact run_refines. Qed.
Print Assumptions C13_refines_map.

(* Every reachable trie is in canonical form (see [canonb]: leaves carry
   terminated keys and non-empty values, extensions have non-empty nibble keys
   and a branch child, branches have 17 slots and at least two occupied). *)
Theorem C13_reachable_canonical :
  forall ops, Forall op_ok ops -> canon_root (run ops).
Proof. exact run_canon. Qed.
Print Assumptions C13_reachable_canonical.

(* The canonical form is unique: two canonical tries with the same lookups on
   all terminated keys are the same tree (so the same encoding and root hash,
   for every hash function). *)
Theorem C13_canonical_unique :
  forall t1 t2, canon_root t1 -> canon_root t2 ->
  (forall key, tkey key -> get t1 key = get t2 key) -> t1 = t2.
Proof. exact canon_root_unique. Qed.
Print Assumptions C13_canonical_unique.

(* History independence: two histories whose reference maps agree build the
   same trie, hence the same root under any hash function. *)
Theorem C13_history_independent :
  forall ops1 ops2, Forall op_ok ops1 -> Forall op_ok ops2 ->
  (forall k, bytes_ok k -> m_run ops1 k = m_run ops2 k) ->
  run ops1 = run ops2 /\ forall H, root_hash H (run ops1) = root_hash H (run ops2).
Proof.
  exact (fun ops1 ops2 H1 H2 Hm =>
           let E := history_independent ops1 ops2 H1 H2 Hm in
           conj E (fun H => f_equal (root_hash H) E)).
Qed.
Print Assumptions C13_history_independent.

(* ---- non-vacuity ---------------------------------------------------------- *)

Definition ex_ops1 : list kvop :=
  [KUpdate [100;111;101] [114;101;105;110;100;101;101;114];         (* doe -> reindeer *)
   KUpdate [100;111;103] [112;117;112;112;121];                     (* dog -> puppy *)
   KUpdate [100;111] [1];                                           (* do, a prefix of both *)
   KUpdate [100;111;103;103;108;101;115;119;111;114;116;104] [99;97;116];  (* dogglesworth -> cat *)
   KDelete [100;111];
   KUpdate [120] [7]; KUpdate [120] []].
Definition ex_ops2 : list kvop :=
  [KUpdate [100;111;103;103;108;101;115;119;111;114;116;104] [99;97;116];
   KUpdate [100;111;103] [112;117;112;112;121];
   KUpdate [100;111;101] [114;101;105;110;100;101;101;114]].

Fixpoint ops_okb (ops : list kvop) : bool :=
  match ops with
  | [] => true
  | KUpdate k _ :: r | KDelete k :: r => forallb (fun x => x <? 256) k && ops_okb r
  end.

(* a history with shared prefixes, a prefix key, deletes, a collapsing branch:
   it is well-formed, ends in a non-trivial canonical trie, equals the trie of a
   different history with the same content, and its root under Keccak-256 is the
   well-known test vector 8aad789d... *)
Example C13_nonvacuous_history :
  ops_okb ex_ops1 = true /\ ops_okb ex_ops2 = true /\
  canonb (run ex_ops1) = true /\ run ex_ops1 = run ex_ops2 /\
  t_get (run ex_ops1) [100;111;103] = Some [112;117;112;112;121] /\
  t_get (run ex_ops1) [100;111] = None /\
  root_hash keccak256 (run ex_ops1) =
    [138;173;120;157;255;47;83;139;202;93;142;165;110;138;190;16;
     244;199;186;58;93;234;149;254;164;205;110;124;58;17;104;211].
Proof. vm_compute. repeat split; reflexivity. Qed.
Print Assumptions C13_nonvacuous_history.
