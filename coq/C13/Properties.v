(* C13 - property theorems only.  Each is closed by [exact] of a lemma of the
   Proofs files and followed by Print Assumptions. *)
From VF.C13 Require Import Model Proofs Proofs2 Proofs3 Proofs5 Proofs6 Proofs7 Proofs8 Proofs9 Proofs10 Proofs11 Proofs12 Proofs13 Proofs14 Bridge.
From VF.gen Require Import C13Counters.
From VF.C13 Require Import Proofs4.
From Coq Require Import Sorted.
From VF.Lib Require Import Keccak.
Local Open Scope N_scope.

(* Faithful map.  After any history of updates and deletes over byte keys
   (an update with an empty value deletes), starting from the empty trie, a
   lookup returns exactly what the reference map holds. *)
Theorem C13_refines_map :
  forall ops, Forall op_ok ops ->
  forall k, bytes_ok k -> t_get (run ops) k = m_run ops k.
Proof. exact run_refines. Qed.
Print Assumptions C13_refines_map.

(* Every reachable trie is in canonical form (see [canonb]: leaves carry
   terminated keys and non-empty values, extensions have non-empty nibble keys
   and a branch child, branches have 17 slots and at least two occupied). *)
Theorem C13_reachable_canonical :
  forall ops, Forall op_ok ops -> canon_root (run ops).
Proof. exact run_canon. Qed.
Print Assumptions C13_reachable_canonical.

(* The canonical form is unique: two canonical tries with the same lookups on
   all terminated keys are the same tree (so the same encoding and root hash,
   for every hash function). *)
Theorem C13_canonical_unique :
  forall t1 t2, canon_root t1 -> canon_root t2 ->
  (forall key, tkey key -> get t1 key = get t2 key) -> t1 = t2.
Proof. exact canon_root_unique. Qed.
Print Assumptions C13_canonical_unique.

(* History independence: two histories whose reference maps agree build the
   same trie, hence the same root under any hash function. *)
Theorem C13_history_independent :
  forall ops1 ops2, Forall op_ok ops1 -> Forall op_ok ops2 ->
  (forall k, bytes_ok k -> m_run ops1 k = m_run ops2 k) ->
  run ops1 = run ops2 /\ forall H, root_hash H (run ops1) = root_hash H (run ops2).
Proof.
  exact (fun ops1 ops2 H1 H2 Hm =>
           let E := history_independent ops1 ops2 H1 H2 Hm in
           conj E (fun H => f_equal (root_hash H) E)).
Qed.
Print Assumptions C13_history_independent.

(* Iteration returns exactly the surviving pairs: a pair is produced iff the
   reference map holds it. *)
Theorem C13_iter_exact :
  forall ops, Forall op_ok ops ->
  forall k v, bytes_ok k -> (In (k, v) (iterate (run ops)) <-> m_run ops k = Some v).
Proof. exact iterate_exact. Qed.
Print Assumptions C13_iter_exact.

(* Order: the hex keys (nibbles followed by the terminator 16) come out strictly
   ascending for every trie (hence no key twice); and when no stored key is a
   prefix of another the byte keys themselves are strictly ascending
   (bytes.Compare). *)
Theorem C13_iter_sorted :
  (forall t, StronglySorted lex_lt (map fst (leaves t []))) /\
  (forall ops, Forall op_ok ops ->
     (forall a b, m_run ops a <> None -> m_run ops b <> None -> bytes_ok a -> bytes_ok b ->
                  a <> b -> ~ is_prefix a b) ->
     StronglySorted lex_lt (map fst (iterate (run ops)))).
Proof. exact (conj iterate_sorted iterate_bytes_sorted). Qed.
Print Assumptions C13_iter_sorted.

(* Proof completeness.  For every hash function with 32-byte output, every
   non-empty trie reachable by a history with keys < 2^30 and values < 2^32
   bytes, and every key: the node list produced by Prove verifies against the
   root to exactly the reference map's answer (value or absence) - provided the
   elements of this one proof do not collide with each other under H. *)
Theorem C13_proof_complete :
  forall (H : bytes -> bytes), (forall x, length (H x) = 32%nat) ->
  forall ops k, Forall op_ok ops -> Forall op_small ops -> bytes_ok k -> run ops <> Empty ->
  (forall a b, In a (prove H (run ops) k 0) -> In b (prove H (run ops) k 0) -> H a = H b -> a = b) ->
  verify_proof H (root_hash H (run ops)) k (prove H (run ops) k 0) = ans (m_run ops k).
Proof. exact proof_complete_reachable. Qed.
Print Assumptions C13_proof_complete.

(* Proof soundness.  Whatever list of byte strings is offered as a proof
   (corrupted, substituted, foreign ...), verification against the root of a
   reachable non-empty trie gives the reference map's answer, or an error - or
   two different byte strings with the same hash are exhibited.  In
   particular no other value, no false absence and no VPanic (the model's
   rendering of the Go panic in compactToHex) without a collision.  The proof
   set is addressed by content (each element is found under its own hash), as
   the callers of VerifyProof build it. *)
Theorem C13_proof_sound :
  forall (H : bytes -> bytes), (forall x, length (H x) = 32%nat) ->
  forall ops k proof, Forall op_ok ops -> Forall op_small ops -> bytes_ok k -> run ops <> Empty ->
  let r := verify_proof H (root_hash H (run ops)) k proof in
  r = ans (m_run ops k) \/ r = VErr \/ (exists a b : bytes, a <> b /\ H a = H b).
Proof. exact proof_sound_reachable. Qed.
Print Assumptions C13_proof_sound.

(* Commit and re-open.  Committing a reachable trie stores its root node and
   every node whose encoding is >= 32 bytes under their hashes; loading the
   root hash back from exactly that store (trie.New + resolving every hash
   node) rebuilds the same trie, so every lookup still agrees with the
   reference map - unless two stored blobs collide under H.  (The root hash
   must differ from the constant the code reserves for the empty trie.) *)
Theorem C13_commit_reopen :
  forall (H : bytes -> bytes), (forall x, length (H x) = 32%nat) ->
  forall ops f, Forall op_ok ops -> Forall op_small ops ->
  let t := run ops in
  (forall h b1 b2, In (h, b1) (commit H t) -> In (h, b2) (commit H t) -> b1 = b2) ->
  root_hash H t <> empty_root -> (2 * height t + 1 <= f)%nat ->
  reopen f (commit H t) (root_hash H t) = t /\
  forall k, bytes_ok k -> t_get (reopen f (commit H t) (root_hash H t)) k = m_run ops k.
Proof. exact commit_reopen_reachable. Qed.
Print Assumptions C13_commit_reopen.

(* Garbage collection, partial.  In the memory-only fragment of the node cache
   - Database.insert of nodes whose children are cached (what Trie.Commit
   does, children first), Reference(root, meta root), Dereference(root) of a
   root the meta root references - and for every schedule of these: a root the
   meta root still references is cached with a positive parent count together
   with everything reachable from it through the children of cached nodes.  So
   dereferencing other roots never removes a node of a referenced root.
   PARTIAL: Cap and Commit (flushing to disk) and explicit references between
   cached nodes are outside this theorem; they are mirrored in the model
   (db_cap, db_commit, db_reference) and compared with the implementation node
   by node on every generated schedule. *)
Theorem C13_gc_safe_partial :
  forall s, frag_reach s ->
  forall root, 0 < ext_get (db_meta s) root ->
  (exists n, find_node (db_nodes s) root = Some n /\ 0 < cn_parents n) /\
  forall y, reaches s root y -> In y (hashes (db_nodes s)).
Proof. exact gc_safe_fragment. Qed.
Print Assumptions C13_gc_safe_partial.

(* Garbage collection, full schedule alphabet.  Assumptions (the section
   variables of Proofs10): the content named by a hash determines its children
   ([kidsof]; no hash collisions) and children have smaller [rank] (content is
   a DAG); explicit references go from a cached parent to a child of smaller
   rank (no reference cycles, on which the Go code itself does not terminate).
   Steps: Database.insert of a node whose children are cached or on disk (what
   Trie.Commit does, children first), Reference to the meta root or to a cached
   parent, Dereference of a root the meta root references, Cap with any limit,
   Commit of any root.  Then, after ANY schedule: every root that the meta root
   still references, or that is on disk, has everything reachable from it -
   through the children its content names and through the explicit children of
   cached nodes - in the cache or on disk.  Dereferencing, capping or
   committing other roots loses nothing.  Not covered: uint16 overflow of the
   parent counter; explicit children of nodes that exist only on disk (the
   disk stores blobs only); that Trie.Commit issues exactly such inserts is
   checked by correspondence. *)
Theorem C13_gc_safe :
  forall (kidsof : bytes -> list bytes) (rank : bytes -> nat),
  (forall h k, In k (kidsof h) -> (rank k < rank h)%nat) ->
  forall s, full_reach kidsof rank s ->
  forall root, 0 < ext_get (db_meta s) root \/ In root (db_disk s) ->
  forall y, reachF kidsof s root y -> avail s y.
Proof. exact gc_safe_full. Qed.
Print Assumptions C13_gc_safe.

(* SecureTrie.  The secure trie after a history IS the plain trie after the
   history with hashed keys (so canonical form, history independence, proofs,
   iteration and commit/reopen transfer verbatim); and as long as the key hash
   (bytes out) does not send a key of the history and the queried key to the
   same hash, lookups follow the reference map over the ORIGINAL keys. *)
Theorem C13_secure_trie :
  forall (H : bytes -> bytes) ops,
  s_run H ops = run (map (hash_op H) ops) /\
  ((forall x, bytes_ok (H x)) ->
   canon_root (s_run H ops) /\
   forall k, (forall o, In o ops -> H (op_key o) = H k -> op_key o = k) ->
             s_get H (s_run H ops) k = m_run ops k).
Proof.
  exact (fun H ops => conj (s_run_plain H ops)
           (fun Hb => conj (secure_canonical H ops Hb) (fun k Hinj => secure_refines H ops k Hb Hinj))).
Qed.
Print Assumptions C13_secure_trie.

(* DeriveSha.  For a list of fewer than 2^64 items: DeriveSha is the root of the
   trie reached by the history "update rlp(i) with item i" (a well-formed
   history, so all plain-trie theorems apply); that trie holds item j under
   rlp(j) - nothing if the item is empty, as Trie.Update deletes then - and
   nothing under any other key. *)
Theorem C13_derive_sha :
  forall (H : bytes -> bytes) items, N.of_nat (length items) <= two64 ->
  derive_sha H items = root_hash H (run (derive_ops 0 items)) /\
  Forall op_ok (derive_ops 0 items) /\
  (forall j, j < N.of_nat (length items) ->
     t_get (run (derive_ops 0 items)) (rlp_uint j) =
     match nth (N.to_nat j) items [] with [] => None | v => Some v end) /\
  (forall k, bytes_ok k -> (forall j, j < N.of_nat (length items) -> k <> rlp_uint j) ->
     t_get (run (derive_ops 0 items)) k = None).
Proof. exact derive_sha_spec. Qed.
Print Assumptions C13_derive_sha.

(* Lazy loading.  Commit a canonical trie, open it the way trie.New does (only
   the root node is decoded, everything below stays a hash node) and run ANY
   history on it with the lazy operations (hash nodes are resolved from the
   node store when an operation reaches them; delete resolves the remaining
   child of a collapsing branch): no node is ever missing, and the root hash
   and every lookup afterwards are those of the same history run on the fully
   loaded trie - hence, by the theorems above, those of the reference map.
   The fuel only has to exceed twice the height of the tries passed through;
   stored blobs must not collide under H. *)
Theorem C13_lazy_reopen :
  forall (H : bytes -> bytes), (forall x, length (H x) = 32%nat) ->
  forall t ops f, canon t -> small t -> Forall op_ok ops ->
  (forall h b1 b2, In (h, b1) (commit H t) -> In (h, b2) (commit H t) -> b1 = b2) ->
  root_hash H t <> empty_root ->
  (forall i, (2 * height (fold_left apply_op (firstn i ops) t) + 2 <= f)%nat) ->
  exists lt0 lt', l_open (commit H t) (root_hash H t) = Some lt0 /\
    l_run f (commit H t) ops lt0 = Some lt' /\
    root_hash H lt' = root_hash H (fold_left apply_op ops t) /\
    forall k, l_get f (commit H t) lt' k = Some (t_get (fold_left apply_op ops t) k).
Proof. exact lazy_reopen. Qed.
Print Assumptions C13_lazy_reopen.

(* Trie.Commit feeds the cache what C13_gc_safe assumes.  [commit_seq H lt dirty]
   is the sequence of Database.insert calls Trie.Commit issues for the (lazily
   loaded) trie lt: children before parents, unloaded hash nodes skipped, the
   root last, nothing if no node was rebuilt.  If lt stands for the canonical
   trie t, the children function agrees with the content of t's nodes, and the
   unloaded parts of lt are cached or on disk, then every insert of the
   sequence meets the side conditions of the schedule alphabet (hash not
   empty, children = what the blob names, all of them cached or on disk at
   that moment - the reference counts are raised by db_insert itself), so the
   state stays within the reachable states of C13_gc_safe, nothing becomes
   unavailable, and the new root is cached afterwards.  That the real
   Trie.Commit issues exactly this sequence is checked on every database
   schedule of the harness (GBuild: the model's sequence against the nodes the
   real calls appended to the flush-list, in order, and the parent counts). *)
Theorem C13_commit_inserts_ok :
  forall (H : bytes -> bytes), (forall x, length (H x) = 32%nat) ->
  forall (kidsof : bytes -> list bytes) (rank : bytes -> nat) (db : list (bytes * bytes)),
  forall t lt dirty, lz H db lt t -> canon t -> small t -> agrees H kidsof t ->
  (match lt with HashN _ => False | _ => True end) ->
  forall s, full_reach kidsof rank s -> (forall h, In h (gather lt) -> avail s h) ->
  let s' := fold_left db_insert (commit_seq H lt dirty) s in
  full_reach kidsof rank s' /\ (forall x, avail s x -> avail s' x) /\ (dirty = true -> avail s' (root_hash H t)).
Proof. exact commit_seq_ok. Qed.
Print Assumptions C13_commit_inserts_ok.

(* The width of the counters.  The Go code keeps the parent and children counts
   in w-bit unsigned integers; [runW w] is the schedule semantics with these
   counters reduced mod 2^w after every step that increments, [runN] the exact
   one.  GUARD for w = 32, the width the code declares since the repair
   8fe169d (pinned to the source by the bridge theorem below): for a schedule
   with fewer than 2^32 reference events (children named by inserted blobs +
   Reference calls) the two coincide step for step and no counter exceeds the
   number of events - so C13_gc_safe speaks about the code as written.  (Any
   schedule of the six operations, no side conditions.) *)
Theorem C13_uint32_guard :
  forall ops, events ops < 4294967296 -> runW 32 ops = runN ops /\ maxctr (runN ops) <= events ops.
Proof. exact uint32_guard. Qed.
Print Assumptions C13_uint32_guard.

(* bridge: the widths regenerated from trie/database.go of the working tree are
   32 bits, and the guard holds for exactly that width *)
Theorem C13_code_counter_width : parents_bits = 32 /\ children_bits = 32.
Proof. exact code_counter_width. Qed.
Print Assumptions C13_code_counter_width.

Theorem C13_code_counter_guard :
  forall ops, events ops < 2 ^ parents_bits ->
  runW parents_bits ops = runN ops /\ maxctr (runN ops) <= events ops.
Proof. exact code_counter_guard. Qed.
Print Assumptions C13_code_counter_guard.

(* the same guard for w = 16: the counters before the repair (regression witness) *)
Theorem C13_uint16_guard :
  forall ops, events ops < 65536 -> run16 ops = runN ops /\ maxctr (runN ops) <= events ops.
Proof. exact uint16_guard. Qed.
Print Assumptions C13_uint16_guard.

(* REFUTED beyond the guard: insert one node without children (hash r), reference
   it 65536 times from the meta root, dereference once.  With uint16 counters the
   node is then neither cached nor on disk although 65535 references remain; with
   exact counters it is cached.  [run16 = runW 16]: this is what the code did
   before the repair 8fe169d (fixes/C13_parents_uint16_wrap.md; the schedule is
   the regression input corpus/C13/a0_parents_uint16_wrap.json). *)
Theorem C13_gc_uint16_refuted :
  forall r blob, r <> [] -> blob_kids blob = [] ->
  ~ avail (run16 (wrap_schedule r blob)) r /\
  ext_get (db_meta (runN (wrap_schedule r blob))) r = 65535 /\ avail (runN (wrap_schedule r blob)) r.
Proof. exact uint16_wrap_loses_node. Qed.
Print Assumptions C13_gc_uint16_refuted.

(* Copies.  A trie and its copies (cpy := *t, SecureTrie.Copy) are handles with
   value semantics in the model: an operation addressed to one handle leaves
   every other handle exactly as it was, and a copy starts as its source.  In
   the Go code the handles share nodes copy-on-write; that no operation on one
   handle shows through another is what the harness checks after every step of
   every history with copies (root = root of the handle's own map, every key,
   iteration, on throw-away copies so that no cached hash is left behind). *)
Theorem C13_copies_are_independent :
  (forall hs j op i, i <> j -> nth i (h_apply hs (HOp j op)) Empty = nth i hs Empty) /\
  (forall hs j i, (i < length hs)%nat -> nth i (h_apply hs (HCopy j)) Empty = nth i hs Empty) /\
  (forall hs j, nth (length hs) (h_apply hs (HCopy j)) Empty = nth j hs Empty) /\
  (forall hs j op, (j < length hs)%nat -> nth j (h_apply hs (HOp j op)) Empty = apply_op (nth j hs Empty) op).
Proof. exact copies_independent. Qed.
Print Assumptions C13_copies_are_independent.

(* ---- non-vacuity ---------------------------------------------------------- *)

Definition ex_ops1 : list kvop :=
  [KUpdate [100;111;101] [114;101;105;110;100;101;101;114];         (* doe -> reindeer *)
   KUpdate [100;111;103] [112;117;112;112;121];                     (* dog -> puppy *)
   KUpdate [100;111] [1];                                           (* do, a prefix of both *)
   KUpdate [100;111;103;103;108;101;115;119;111;114;116;104] [99;97;116];  (* dogglesworth -> cat *)
   KDelete [100;111];
   KUpdate [120] [7]; KUpdate [120] []].
Definition ex_ops2 : list kvop :=
  [KUpdate [100;111;103;103;108;101;115;119;111;114;116;104] [99;97;116];
   KUpdate [100;111;103] [112;117;112;112;121];
   KUpdate [100;111;101] [114;101;105;110;100;101;101;114]].

Fixpoint ops_okb (ops : list kvop) : bool :=
  match ops with
  | [] => true
  | KUpdate k _ :: r | KDelete k :: r => forallb (fun x => x <? 256) k && ops_okb r
  end.

(* a history with shared prefixes, a prefix key, deletes, a collapsing branch:
   it is well-formed, ends in a non-trivial canonical trie, equals the trie of a
   different history with the same content, and its root under Keccak-256 is the
   well-known test vector 8aad789d... *)
Example C13_nonvacuous_history :
  ops_okb ex_ops1 = true /\ ops_okb ex_ops2 = true /\
  canonb (run ex_ops1) = true /\ run ex_ops1 = run ex_ops2 /\
  t_get (run ex_ops1) [100;111;103] = Some [112;117;112;112;121] /\
  t_get (run ex_ops1) [100;111] = None /\
  root_hash keccak256 (run ex_ops1) =
    [138;173;120;157;255;47;83;139;202;93;142;165;110;138;190;16;
     244;199;186;58;93;234;149;254;164;205;110;124;58;17;104;211].
Proof. vm_compute. repeat split; reflexivity. Qed.
Print Assumptions C13_nonvacuous_history.

(* the proof theorems are not vacuous: Keccak-256 has 32-byte output on the
   example, the example history is small, a proof with three nodes (one of
   them embedded in its parent) verifies, and a tampered one is rejected *)
Fixpoint ops_smallb (ops : list kvop) : bool :=
  match ops with
  | [] => true
  | KUpdate k v :: r => (len k <? 1073741824) && (len v <? B32) && ops_smallb r
  | KDelete _ :: r => ops_smallb r
  end.

Example C13_nonvacuous_proofs :
  let t := run ex_ops1 in
  let dog := [100;111;103] in
  let p := prove keccak256 t dog 0 in
  ops_smallb ex_ops1 = true /\ t <> Empty /\ length p = 3%nat /\
  verify_proof keccak256 (root_hash keccak256 t) dog p = VVal [112;117;112;112;121] /\
  verify_proof keccak256 (root_hash keccak256 t) [100;111] (prove keccak256 t [100;111] 0) = VAbsent /\
  verify_proof keccak256 (root_hash keccak256 t) dog (firstn 2 p) = VErr /\
  length (commit keccak256 t) = 3%nat /\
  reopen 20 (commit keccak256 t) (root_hash keccak256 t) = t /\
  map fst (iterate t) = [[100;111;101]; [100;111;103;103;108;101;115;119;111;114;116;104]; [100;111;103]].
Proof. vm_compute. repeat split; try reflexivity. discriminate. Qed.
Print Assumptions C13_nonvacuous_proofs.

(* the fragment is inhabited by a real schedule: two tries that share nodes are
   committed and referenced, the first is dereferenced; its private nodes are
   collected, the shared ones stay *)
Definition ex_t1 : node := run [KUpdate [17] (repeat 65 40); KUpdate [34] (repeat 66 40)].
Definition ex_t2 : node := t_update ex_t1 [34] (repeat 68 40).
(* evaluated once; [ex_consts] ties them to their definitions *)
Definition ex_c1 : list (bytes * bytes) := Eval vm_compute in commit keccak256 ex_t1.
Definition ex_c2 : list (bytes * bytes) := Eval vm_compute in commit keccak256 ex_t2.
Definition ex_r1 : bytes := Eval vm_compute in root_hash keccak256 ex_t1.
Definition ex_r2 : bytes := Eval vm_compute in root_hash keccak256 ex_t2.
Lemma ex_consts : ex_c1 = commit keccak256 ex_t1 /\ ex_c2 = commit keccak256 ex_t2 /\
                  ex_r1 = root_hash keccak256 ex_t1 /\ ex_r2 = root_hash keccak256 ex_t2.
Proof. vm_compute. repeat split; reflexivity. Qed.

Definition ex_fops : list fop :=
  map (fun p => FInsert (fst p) (snd p)) ex_c1 ++ [FRef ex_r1] ++
  map (fun p => FInsert (fst p) (snd p)) ex_c2 ++ [FRef ex_r2] ++
  [FDeref ex_r1].

Definition ex_state : dbstate :=
  Eval vm_compute in (match frag_run ex_fops db_empty with Some s => s | None => db_empty end).

Lemma ex_run : frag_run ex_fops db_empty = Some ex_state.
Proof. vm_compute. reflexivity. Qed.

Example C13_nonvacuous_gc :
  frag_reach ex_state /\
  (ext_get (db_meta ex_state) ex_r2 = 1 /\ ext_get (db_meta ex_state) ex_r1 = 0 /\
   length ex_c1 = 3%nat /\ length (db_nodes ex_state) = 3%nat /\
   forallb (fun p => existsb (list_eqb (fst p)) (hashes (db_nodes ex_state))) ex_c2 = true /\
   existsb (list_eqb ex_r1) (hashes (db_nodes ex_state)) = false).
Proof.
  split; [exact (frag_run_sound _ _ _ fr_empty ex_run)|]. vm_compute. repeat split; reflexivity.
Qed.
Print Assumptions C13_nonvacuous_gc.

(* the full alphabet is inhabited: two tries sharing a leaf, an explicit
   reference between their roots, Cap, Dereference and Commit; the committed
   root is on disk and all its nodes are still available *)
Definition ex_tbl : list (bytes * bytes) := ex_c1 ++ ex_c2.
Definition ex_xops : list xop :=
  map (fun p => XInsert (fst p) (snd p)) ex_c1 ++ [XRefMeta ex_r1] ++
  map (fun p => XInsert (fst p) (snd p)) ex_c2 ++ [XRefMeta ex_r2] ++
  [XRefNode ex_r1 ex_r2; XCap 150;
   XDeref ex_r1; XCommit ex_r2; XCap 0].
Definition ex_state2 : dbstate :=
  Eval vm_compute in (match full_run ex_tbl ex_xops db_empty with Some s => s | None => db_empty end).

Lemma ex_run2 : tbl_ok ex_tbl = true /\ full_run ex_tbl ex_xops db_empty = Some ex_state2.
Proof. vm_compute. split; reflexivity. Qed.

Example C13_nonvacuous_gc_full :
  (forall h k, In k (kidsof_tbl ex_tbl h) -> (rank_tbl ex_tbl k < rank_tbl ex_tbl h)%nat) /\
  full_reach (kidsof_tbl ex_tbl) (rank_tbl ex_tbl) ex_state2 /\
  (existsb (list_eqb ex_r2) (db_disk ex_state2) = true /\
   ext_get (db_meta ex_state2) ex_r2 = 1 /\
   forallb (fun p => availb ex_state2 (fst p)) ex_c2 = true /\
   length (db_disk ex_state2) = 5%nat).
Proof.
  split; [exact (tbl_ok_rank ex_tbl (proj1 ex_run2))|].
  split; [exact (full_run_sound ex_tbl _ _ _ (fur_empty _ _) (proj2 ex_run2))|].
  vm_compute. repeat split; reflexivity.
Qed.
Print Assumptions C13_nonvacuous_gc_full.

(* lazy loading is exercised for real: after commit + lazy open the trie has
   hash nodes; a delete that collapses a branch onto an unloaded child and an
   insert give the same root as on the loaded trie *)
Definition ex_t3 : node :=
  run [KUpdate [17;17;17] (repeat 65 40); KUpdate [17;17;34] (repeat 66 40); KUpdate [17;51;51] (repeat 67 40); KUpdate [34] (repeat 68 40)].
Definition ex_c3 : list (bytes * bytes) := Eval vm_compute in commit keccak256 ex_t3.
Definition ex_r3 : bytes := Eval vm_compute in root_hash keccak256 ex_t3.
Definition ex_lops : list kvop := [KDelete [34]; KDelete [17;51;51]; KUpdate [85] [1;2;3]].
Fixpoint has_hashn (n : node) : bool :=
  match n with
  | HashN _ => true
  | Short _ c => has_hashn c
  | Full cs => existsb has_hashn cs
  | _ => false
  end.

Example C13_nonvacuous_lazy :
  canonb ex_t3 = true /\ ex_c3 = commit keccak256 ex_t3 /\ ex_r3 = root_hash keccak256 ex_t3 /\
  match l_open ex_c3 ex_r3 with
  | Some lt0 =>
    has_hashn lt0 = true /\
    match l_run 40 ex_c3 ex_lops lt0 with
    | Some lt' => has_hashn lt' = true /\
                  root_hash keccak256 lt' = root_hash keccak256 (fold_left apply_op ex_lops ex_t3)
    | None => False
    end
  | None => False
  end.
Proof. vm_compute. repeat split; reflexivity. Qed.
Print Assumptions C13_nonvacuous_lazy.

(* the refutation applies to a real node: the root of a one-key trie is a leaf
   without children; and Trie.Commit's sequence for the example tries is what the
   schedule example above inserted *)
Definition ex_leaf : node := run [KUpdate [17] (repeat 65 40)].
Example C13_nonvacuous_uint16 :
  root_hash keccak256 ex_leaf <> [] /\ blob_kids (encode (collapse keccak256 ex_leaf)) = [] /\
  commit_seq keccak256 ex_leaf true = [(root_hash keccak256 ex_leaf, encode (collapse keccak256 ex_leaf))] /\
  events (XInsert (root_hash keccak256 ex_leaf) (encode (collapse keccak256 ex_leaf)) :: [XRefMeta (root_hash keccak256 ex_leaf)]) = 1 /\
  commit_seq keccak256 ex_t2 true = ex_c2.
Proof. vm_compute. repeat split; try reflexivity. discriminate. Qed.
Print Assumptions C13_nonvacuous_uint16.
