From VF.C13 Require Import Model Proofs.
Theorem C13_placeholder : forall k, get Empty k = None.
Proof. exact placeholder_get_empty. Qed.
Print Assumptions C13_placeholder.
