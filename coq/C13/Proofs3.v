(* C13 - lemmas, part 3: iteration returns exactly the stored pairs, in
   ascending order of the hex keys. *)
From VF.C13 Require Import Model Proofs Proofs2.
From Coq Require Import Lia ZifyBool ZifyN ZifyNat Sorted.
Local Open Scope N_scope.

(* lexicographic order on nibble / byte lists (bytes.Compare < 0) *)
Inductive lex_lt : list N -> list N -> Prop :=
| lex_nil : forall y b, lex_lt [] (y :: b)
| lex_head : forall x y a b, x < y -> lex_lt (x :: a) (y :: b)
| lex_tail : forall x a b, lex_lt a b -> lex_lt (x :: a) (x :: b).

Lemma lex_lt_app_head : forall p a b, lex_lt a b -> lex_lt (p ++ a) (p ++ b).
Proof. induction p; intros; cbn; [assumption|]. apply lex_tail. apply IHp. assumption. Qed.

Lemma lex_lt_irrefl : forall a, ~ lex_lt a a.
Proof. induction a; intro H; inversion H; subst; [lia|auto]. Qed.

Lemma lex_ltb_spec : forall a b, lex_ltb a b = true <-> lex_lt a b.
Proof.
  induction a as [|x a IH]; destruct b as [|y b]; cbn [lex_ltb]; split; intro H.
  - discriminate.
  - inversion H.
  - apply lex_nil.
  - reflexivity.
  - discriminate.
  - inversion H.
  - destruct (x <? y) eqn:E1; [apply lex_head; lia|]. destruct (y <? x) eqn:E2; [discriminate|].
    assert (x = y) as -> by lia. apply lex_tail. apply IH. exact H.
  - inversion H; subst.
    + replace (x <? y) with true by lia. reflexivity.
    + rewrite N.ltb_irrefl. apply IH. assumption.
Qed.

(* ---- flat_mapi ------------------------------------------------------------ *)

Lemma flat_mapi_in : forall A B (f : nat -> A -> list B) l s x,
  In x (flat_mapi f s l) <-> exists i c, nth_error l i = Some c /\ In x (f (s + i)%nat c).
Proof.
  intros A B f l. induction l as [|c l IH]; intros s x; cbn.
  - split; [intros []|intros [i [c [E _]]]; destruct i; discriminate].
  - rewrite in_app_iff, IH. split.
    + intros [H|[i [c' [E H]]]].
      * exists 0%nat, c. rewrite Nat.add_0_r. split; [reflexivity|exact H].
      * exists (S i), c'. split; [exact E|]. replace (s + S i)%nat with (S s + i)%nat by lia. exact H.
    + intros [i [c' [E H]]]. destruct i as [|i].
      * cbn in E. injection E as <-. rewrite Nat.add_0_r in H. left. exact H.
      * right. exists i, c'. split; [exact E|]. replace (S s + i)%nat with (s + S i)%nat by lia. exact H.
Qed.

Lemma SS_app : forall (A : Type) (R : A -> A -> Prop) l1 l2,
  StronglySorted R l1 -> StronglySorted R l2 -> (forall x y, In x l1 -> In y l2 -> R x y) ->
  StronglySorted R (l1 ++ l2).
Proof.
  intros A R l1. induction l1 as [|a l1 IH]; intros l2 S1 S2 Hc; cbn; [exact S2|].
  inversion S1; subst. constructor.
  - apply IH; [assumption|assumption|]. intros x y Hx Hy. apply Hc; [right; exact Hx|exact Hy].
  - apply Forall_app. split; [assumption|]. apply Forall_forall. intros y Hy. apply Hc; [left; reflexivity|exact Hy].
Qed.

(* ---- order ---------------------------------------------------------------- *)

(* the keys under a node all extend its path, and come out strictly ascending;
   this needs no assumption on the node *)
Lemma leaves_sorted : forall n path,
  StronglySorted lex_lt (map fst (leaves n path)) /\
  (forall key, In key (map fst (leaves n path)) -> exists r, key = path ++ r).
Proof.
  induction n as [|vv|k c IH|cs IH|hh] using node_ind'; intro path; cbn [leaves map].
  - split; [constructor|intros ? []].
  - split; [repeat constructor|]. intros key [<-|[]]. exists []. symmetry. apply app_nil_r.
  - destruct (IH (path ++ k)) as [I1 I2]. split; [exact I1|].
    intros key Hin. destruct (I2 key Hin) as [r ->]. exists (k ++ r). rewrite app_assoc. reflexivity.
  - assert (forall s,
              StronglySorted lex_lt (map fst (flat_mapi (fun i c => leaves c (path ++ [N.of_nat i])) s cs)) /\
              (forall key, In key (map fst (flat_mapi (fun i c => leaves c (path ++ [N.of_nat i])) s cs)) ->
                           exists i r, (s <= i)%nat /\ key = path ++ N.of_nat i :: r)) as Hgen.
    { induction cs as [|c cs IHcs]; intros s; cbn [flat_mapi map].
      - split; [constructor|intros ? []].
      - inversion IH as [|? ? Hc Hcs]; subst. destruct (IHcs Hcs (S s)) as [J1 J2].
        destruct (Hc (path ++ [N.of_nat s])) as [K1 K2].
        rewrite map_app. split.
        + apply SS_app; [exact K1|exact J1|]. intros x y Hx Hy.
          destruct (K2 x Hx) as [r1 ->]. destruct (J2 y Hy) as [j [r2 [Hj ->]]].
          rewrite <- app_assoc. apply lex_lt_app_head. cbn. apply lex_head. lia.
        + intros key Hin. apply in_app_iff in Hin. destruct Hin as [Hin|Hin].
          * destruct (K2 key Hin) as [r ->]. exists s, r. split; [lia|]. rewrite <- app_assoc. reflexivity.
          * destruct (J2 key Hin) as [j [r [Hj ->]]]. exists j, r. split; [lia|reflexivity]. }
    destruct (Hgen 0%nat) as [G1 G2]. split; [exact G1|].
    intros key Hin. destruct (G2 key Hin) as [i [r [_ ->]]]. exists (N.of_nat i :: r). reflexivity.
  - split; [constructor|intros ? []].
Qed.

(* ---- content --------------------------------------------------------------- *)

Lemma leaves_spec : forall n path key v, canon n ->
  In (key, v) (leaves n path) <-> exists r, key = path ++ r /\ tkey r /\ get n r = Some v.
Proof.
  induction n as [|vv|k c IH|cs IH|hh] using node_ind'; intros path key v Hc; try discriminate.
  - cbn [leaves]. destruct (canon_short_inv _ _ Hc) as [[Htk Hv]|[Hnk [Hne [Hf Hcc]]]].
    + destruct (is_valne_inv _ Hv) as [v0 [-> _]]. cbn [leaves In]. split.
      * intros [E|[]]. injection E as <- <-. exists k. repeat split; [exact Htk|].
        rewrite <- (app_nil_r k) at 2. rewrite get_short_app. reflexivity.
      * intros [r [-> [Hr Hg]]]. left.
        assert (get (Short k (Val v0)) r <> None) as Hn by congruence.
        apply get_short_some in Hn. destruct Hn as [r' ->].
        pose proof (tkey_prefix_eq _ _ Htk Hr) as ->. rewrite app_nil_r in *.
        rewrite <- (app_nil_r k) in Hg at 2. rewrite get_short_app in Hg. cbn in Hg. congruence.
    + rewrite (IH (path ++ k) key v Hcc). split.
      * intros [r [-> [Hr Hg]]]. exists (k ++ r). rewrite app_assoc, get_short_app.
        repeat split; [apply tkey_app_nibs; assumption|exact Hg].
      * intros [r [-> [Hr Hg]]].
        assert (get (Short k c) r <> None) as Hn by congruence.
        apply get_short_some in Hn. destruct Hn as [r' ->]. rewrite get_short_app in Hg.
        destruct (tkey_split _ _ Hr) as [[_ Htk]|[_ Hr']]; [exfalso; exact (tkey_not_nibs _ Htk Hnk)|].
        exists r'. rewrite app_assoc. repeat split; assumption.
  - destruct (canon_full_inv _ Hc) as [Hl [Hs _]]. cbn [leaves]. rewrite flat_mapi_in. cbn [Nat.add].
    assert (forall i, (i <= 16)%nat ->
              (In (key, v) (leaves (nth i cs Empty) (path ++ [N.of_nat i])) <->
               exists r, key = path ++ N.of_nat i :: r /\ tkey (N.of_nat i :: r) /\ get (nth i cs Empty) r = Some v)) as Hslot.
    { intros i Hi. pose proof (Hs i Hi) as Si. unfold slot_ok in Si. destruct (i <? 16)%nat eqn:E.
      - apply Nat.ltb_lt in E. destruct Si as [Si|Si].
        + rewrite Si. cbn. split; [intros []|intros [r [_ [_ F]]]; discriminate].
        + rewrite Forall_forall in IH. rewrite (IH (nth i cs Empty) ltac:(apply nth_In; lia) _ key v Si). split.
          * intros [r [-> [Hr Hg]]]. exists r. rewrite <- app_assoc. repeat split; [apply tkey_cons_lt; [lia|exact Hr]|exact Hg].
          * intros [r [-> [Hr Hg]]]. exists r. rewrite <- app_assoc. repeat split; [|exact Hg].
            apply tkey_cons in Hr. destruct Hr as [[? _]|[_ Hr]]; [lia|exact Hr].
      - apply Nat.ltb_ge in E. assert (i = 16%nat) as -> by lia. change (N.of_nat 16) with 16. destruct Si as [Si|Si].
        + rewrite Si. cbn. split; [intros []|intros [r [_ [_ F]]]; discriminate].
        + destruct (is_valne_inv _ Si) as [v0 [-> _]]. cbn [leaves In]. split.
          * intros [E'|[]]. injection E' as <- <-. exists []. repeat split. apply tkey_16.
          * intros [r [-> [Hr Hg]]]. left. apply tkey_cons in Hr. destruct Hr as [[_ ->]|[? _]]; [|lia]. cbn in Hg. congruence. }
    split.
    + intros [i [c [En Hin]]].
      assert (i < length cs)%nat as Hi by (apply nth_error_Some; congruence).
      rewrite (nth_error_nth' cs Empty Hi) in En. injection En as <-.
      apply (Hslot i ltac:(lia)) in Hin. destruct Hin as [r [-> [Hr Hg]]].
      exists (N.of_nat i :: r). repeat split; [exact Hr|].
      rewrite get_full by (try assumption; lia). unfold child. rewrite Nat2N.id. exact Hg.
    + intros [r [-> [Hr Hg]]]. destruct r as [|z r]; [apply tkey_nonempty in Hr; congruence|].
      assert (z <= 16) as Hz by (apply tkey_cons in Hr; lia).
      rewrite get_full in Hg by assumption. unfold child in Hg.
      exists (N.to_nat z), (nth (N.to_nat z) cs Empty). split; [apply nth_error_nth'; lia|].
      apply (Hslot (N.to_nat z) ltac:(lia)). rewrite N2Nat.id. exists r. repeat split; assumption.
Qed.

(* ---- byte keys -------------------------------------------------------------- *)

Lemma hex_nibs_lt16 : forall bs, bytes_ok bs -> exists ns, keybytes_to_hex bs = ns ++ [16] /\ nibs ns /\ decode_nibbles ns = bs.
Proof.
  induction bs as [|b r IH]; intro Hb.
  - exists []. repeat split. constructor.
  - inversion Hb as [|? ? Hlt Hr]; subst. destruct (IH Hr) as [ns [E [Hn Hd]]].
    exists (b / 16 :: b mod 16 :: ns). cbn [keybytes_to_hex]. rewrite E. repeat split.
    + constructor; [apply N.div_lt_upper_bound; lia|]. constructor; [apply N.mod_lt; lia|exact Hn].
    + cbn [decode_nibbles]. rewrite Hd. f_equal. symmetry. rewrite N.mul_comm. rewrite N.mul_comm. apply N.div_mod. lia.
Qed.

Lemma removelast_app1 : forall (ns : list N) x, removelast (ns ++ [x]) = ns.
Proof. intros. rewrite removelast_app by discriminate. cbn. apply app_nil_r. Qed.

Lemma hex_to_keybytes_hex : forall bs, bytes_ok bs -> hex_to_keybytes (keybytes_to_hex bs) = bs.
Proof.
  intros bs Hb. destruct (hex_nibs_lt16 bs Hb) as [ns [E [Hn Hd]]]. unfold hex_to_keybytes.
  rewrite (has_term_tkey _ (tkey_hex bs Hb)). rewrite E, removelast_app1. exact Hd.
Qed.

(* iteration returns exactly the surviving pairs *)
Lemma iterate_exact : forall ops, Forall op_ok ops ->
  forall k v, bytes_ok k -> (In (k, v) (iterate (run ops)) <-> m_run ops k = Some v).
Proof.
  intros ops Ho k v Hk. pose proof (run_canon ops Ho) as [E|Hc].
  - rewrite <- (run_refines ops Ho k Hk). rewrite E. cbn. split; [intros []|discriminate].
  - unfold iterate. rewrite in_map_iff. rewrite <- (run_refines ops Ho k Hk). unfold t_get. split.
    + intros [[key v'] [E Hin]]. cbn in E. injection E as E <-.
      apply (leaves_spec _ [] key v' Hc) in Hin. destruct Hin as [r [-> [Hr Hg]]]. cbn in *.
      destruct (Nat.even (length r)) eqn:Ev.
      * rewrite (run_only_hex ops Ho r Hr Ev) in Hg. discriminate.
      * destruct (tkey_is_hex r Hr Ev) as [bs [Hb ->]]. rewrite hex_to_keybytes_hex in E by exact Hb. subst bs. exact Hg.
    + intro Hg. exists (keybytes_to_hex k, v). split; [cbn; rewrite hex_to_keybytes_hex by exact Hk; reflexivity|].
      apply (leaves_spec _ [] _ v Hc). exists (keybytes_to_hex k). repeat split; [apply tkey_hex; exact Hk|exact Hg].
Qed.

(* ... each key once, hex keys strictly ascending *)
Lemma iterate_sorted : forall t, StronglySorted lex_lt (map fst (leaves t [])).
Proof. intro t. apply (leaves_sorted t []). Qed.

(* on byte keys none of which is a prefix of another, the hex order is the byte order *)
Definition is_prefix (a b : bytes) : Prop := exists r, b = a ++ r.

Lemma hex_lex_lt : forall a b, bytes_ok a -> bytes_ok b -> ~ is_prefix a b -> ~ is_prefix b a ->
  (lex_lt (keybytes_to_hex a) (keybytes_to_hex b) <-> lex_lt a b).
Proof.
  induction a as [|x a IH]; intros b Ha Hb Hab Hba.
  - exfalso. apply Hab. exists b. reflexivity.
  - destruct b as [|y b]; [exfalso; apply Hba; exists (x :: a); reflexivity|].
    inversion Ha as [|? ? Hx Ha']; subst. inversion Hb as [|? ? Hy Hb']; subst.
    cbn [keybytes_to_hex].
    assert (x = 16 * (x / 16) + x mod 16) as Ex by (apply N.div_mod; lia).
    assert (y = 16 * (y / 16) + y mod 16) as Ey by (apply N.div_mod; lia).
    assert (x mod 16 < 16) as Mx by (apply N.mod_lt; lia). assert (y mod 16 < 16) as My by (apply N.mod_lt; lia).
    split; intro L.
    + inversion L as [| ? ? ? ? Hlt | ? ? ? L2]; subst.
      * apply lex_head. lia.
      * inversion L2 as [| ? ? ? ? Hlt | ? ? ? L3]; subst.
        -- apply lex_head. lia.
        -- assert (x = y) as -> by lia. apply lex_tail. apply IH; try assumption.
           ++ intros [r ->]. apply Hab. exists r. reflexivity.
           ++ intros [r ->]. apply Hba. exists r. reflexivity.
    + inversion L as [| ? ? ? ? Hlt | ? ? ? L2]; subst.
      * destruct (N.lt_ge_cases (x / 16) (y / 16)) as [H1|H1]; [apply lex_head; exact H1|].
        assert (x / 16 = y / 16) as E16 by (apply N.le_antisymm; [apply N.div_le_mono; lia|exact H1]).
        rewrite E16. apply lex_tail. apply lex_head. lia.
      * apply lex_tail, lex_tail. apply IH; try assumption.
        -- intros [r ->]. apply Hab. exists r. reflexivity.
        -- intros [r ->]. apply Hba. exists r. reflexivity.
Qed.

(* the byte keys of the iteration, pairwise ordered when no stored key is a prefix of another *)
Lemma iterate_bytes_sorted : forall ops, Forall op_ok ops ->
  (forall a b, m_run ops a <> None -> m_run ops b <> None -> bytes_ok a -> bytes_ok b -> a <> b -> ~ is_prefix a b) ->
  StronglySorted lex_lt (map fst (iterate (run ops))).
Proof.
  intros ops Ho Hpf. unfold iterate. rewrite map_map. cbn [fst].
  pose proof (iterate_sorted (run ops)) as SS.
  assert (forall key, In key (map fst (leaves (run ops) [])) ->
            exists bs, bytes_ok bs /\ key = keybytes_to_hex bs /\ m_run ops bs <> None) as Hkeys.
  { intros key Hin. apply in_map_iff in Hin. destruct Hin as [[key' v] [E Hin]]. cbn in E. subst key'.
    pose proof (run_canon ops Ho) as [E|Hc]; [rewrite E in Hin; destruct Hin|].
    apply (leaves_spec _ [] key v Hc) in Hin. destruct Hin as [r [-> [Hr Hg]]]. cbn in *.
    destruct (Nat.even (length r)) eqn:Ev; [rewrite (run_only_hex ops Ho r Hr Ev) in Hg; discriminate|].
    destruct (tkey_is_hex r Hr Ev) as [bs [Hb ->]]. exists bs. repeat split; [exact Hb|].
    rewrite <- (run_refines ops Ho bs Hb). unfold t_get. congruence. }
  rewrite <- (map_map fst hex_to_keybytes).
  revert SS Hkeys. generalize (map fst (leaves (run ops) [])). intro l.
  induction l as [|a l IH]; intros SS Hkeys; cbn [map]; [constructor|].
  inversion SS as [|? ? SS' Fa]; subst. constructor.
  - apply IH; [exact SS'|]. intros key Hin. apply Hkeys. right. exact Hin.
  - apply Forall_forall. intros y Hy. apply in_map_iff in Hy. destruct Hy as [b [<- Hb]].
    rewrite Forall_forall in Fa. pose proof (Fa b Hb) as Lab.
    destruct (Hkeys a ltac:(left; reflexivity)) as [ba [Hba [-> Hma]]].
    destruct (Hkeys b ltac:(right; exact Hb)) as [bb [Hbb [-> Hmb]]].
    rewrite !hex_to_keybytes_hex by assumption.
    assert (ba <> bb) as Hne by (intro E; subst bb; exact (lex_lt_irrefl _ Lab)).
    apply (hex_lex_lt ba bb Hba Hbb); [apply Hpf; assumption|apply Hpf; try assumption; congruence|exact Lab].
Qed.
