(* C13 - lemmas, part 4: the RLP encoder and the raw splitter agree
   (split / count_values on an encoded item give the item back), and the
   compact key encoding round-trips. *)
From VF.C13 Require Import Model Proofs.
From Coq Require Import Lia ZifyBool ZifyN ZifyNat ZArith.
Local Open Scope N_scope.

Ltac Zify.zify_post_hook ::= Z.to_euclidean_division_equations.

(* ---- big-endian lengths ---------------------------------------------------- *)

Lemma be_fuel_acc : forall f n acc, be_bytes_fuel f n acc = be_bytes_fuel f n [] ++ acc.
Proof.
  induction f as [|f IH]; intros n acc; cbn [be_bytes_fuel]; [reflexivity|].
  destruct (N.eqb n 0); [reflexivity|]. rewrite IH. rewrite (IH _ [_]). rewrite <- app_assoc. reflexivity.
Qed.

Lemma be_fuel_step : forall f n, n <> 0 ->
  be_bytes_fuel (S f) n [] = be_bytes_fuel f (n / 256) [] ++ [n mod 256].
Proof.
  intros f n H. cbn [be_bytes_fuel]. apply N.eqb_neq in H. rewrite H. apply be_fuel_acc.
Qed.

Lemma be_fuel_zero : forall f, be_bytes_fuel f 0 [] = [].
Proof. destruct f; reflexivity. Qed.

Lemma be_to_N_app : forall a b acc, be_to_N (a ++ b) acc = be_to_N b (be_to_N a acc).
Proof. induction a as [|x a IH]; intros; cbn; [reflexivity|apply IH]. Qed.

Lemma pow256_succ : forall f, 256 ^ N.of_nat (S f) = 256 * 256 ^ N.of_nat f.
Proof. intro f. rewrite Nat2N.inj_succ. apply N.pow_succ_r'. Qed.

Lemma be_roundtrip : forall f n, n < 256 ^ N.of_nat f -> be_to_N (be_bytes_fuel f n []) 0 = n.
Proof.
  induction f as [|f IH]; intros n Hn.
  - cbn in Hn. assert (n = 0) as -> by lia. reflexivity.
  - destruct (N.eq_dec n 0) as [->|Hz]; [reflexivity|].
    rewrite be_fuel_step by exact Hz. rewrite be_to_N_app. cbn [be_to_N].
    rewrite pow256_succ in Hn. rewrite IH by nia. lia.
Qed.

Lemma be_length : forall f k n, n < 256 ^ N.of_nat k -> (length (be_bytes_fuel f n []) <= k)%nat.
Proof.
  induction f as [|f IH]; intros k n Hn; [cbn; lia|].
  destruct (N.eq_dec n 0) as [->|Hz]; [cbn; lia|].
  rewrite be_fuel_step by exact Hz. rewrite app_length. cbn [length].
  destruct k as [|k]; [cbn in Hn; lia|]. rewrite pow256_succ in Hn.
  specialize (IH k (n / 256) ltac:(nia)). lia.
Qed.

Lemma be_hd : forall f n, n <> 0 -> n < 256 ^ N.of_nat f -> hd 0 (be_bytes_fuel f n []) <> 0.
Proof.
  induction f as [|f IH]; intros n Hz Hn; [cbn in Hn; lia|].
  rewrite be_fuel_step by exact Hz. rewrite pow256_succ in Hn.
  destruct (N.eq_dec (n / 256) 0) as [E|E].
  - rewrite E, be_fuel_zero. cbn. lia.
  - specialize (IH (n / 256) E ltac:(nia)).
    destruct (be_bytes_fuel f (n / 256) []) as [|x l]; [cbn in IH; congruence|]. cbn in *. exact IH.
Qed.

Definition two64 : N := 18446744073709551616.

Lemma be_bytes_props : forall n, 56 <= n -> n < two64 ->
  let b := be_bytes n in
  (1 <= length b <= 8)%nat /\ be_to_N b 0 = n /\ hd 0 b <> 0.
Proof.
  intros n H56 H64. unfold be_bytes. cbv zeta.
  assert (n < 256 ^ N.of_nat 9) as H9 by (cbn; unfold two64 in H64; lia).
  assert (n < 256 ^ N.of_nat 8) as H8 by (cbn; unfold two64 in H64; lia).
  pose proof (be_length 9 8 n H8) as L. pose proof (be_hd 9 n ltac:(lia) H9) as Hh.
  repeat split; try assumption; [|apply be_roundtrip; exact H9].
  destruct (be_bytes_fuel 9 n []); [cbn in Hh; congruence|cbn; lia].
Qed.

(* ---- header / read_kind ---------------------------------------------------- *)

Lemma len_app : forall a b, len (a ++ b) = len a + len b.
Proof. intros. unfold len. rewrite app_length. lia. Qed.

Lemma firstn_len_app : forall (a b : bytes), firstn (N.to_nat (len a)) (a ++ b) = a.
Proof. intros. unfold len. rewrite Nat2N.id. apply firstn_app_exact. Qed.

Lemma skipn_len_app : forall (a b : bytes), skipn (N.to_nat (len a)) (a ++ b) = b.
Proof. intros. unfold len. rewrite Nat2N.id. apply skipn_app_exact. Qed.

(* the header written by enc_len is read back by read_kind.  [str] tells strings from lists. *)
Lemma read_kind_header : forall (str : bool) c rest, len c < two64 ->
  (str = true -> match c with [x] => 128 <= x | _ => True end) ->
  let off := if str then 128 else 192 in
  let hdr := enc_len off (len c) in
  read_kind (hdr ++ c ++ rest) = Some (if str then KString else KList, len hdr, len c).
Proof.
  intros str c rest H64 Hsingle off hdr. unfold hdr, enc_len.
  destruct (len c <? 56) eqn:E56.
  - (* short header *)
    cbn [app read_kind].
    assert (len ((off + len c) :: c ++ rest) - 1 <? len c = false) as Hfit.
    { unfold len in *. cbn [length]. rewrite app_length. lia. }
    destruct str; unfold off in *.
    + replace (128 + len c <? 128) with false by lia. replace (128 + len c <? 184) with true by lia.
      replace (128 + len c - 128) with (len c) by lia.
      assert (N.eqb (len c) 1 && match c ++ rest with b1 :: _ => b1 <? 128 | [] => false end = false) as ->.
      { destruct (N.eqb (len c) 1) eqn:E1; [|reflexivity]. cbn [andb].
        destruct c as [|x [|y c]].
        - unfold len in E1. cbn in E1. discriminate.
        - specialize (Hsingle eq_refl). cbn. lia.
        - unfold len in E1. cbn [length] in E1. lia. }
      change (len [128 + len c]) with 1. rewrite Hfit. reflexivity.
    + replace (192 + len c <? 128) with false by lia. replace (192 + len c <? 184) with false by lia.
      replace (192 + len c <? 192) with false by lia. replace (192 + len c <? 248) with true by lia.
      replace (192 + len c - 192) with (len c) by lia.
      change (len [192 + len c]) with 1. rewrite Hfit. reflexivity.
  - (* long header *)
    destruct (be_bytes_props (len c) ltac:(lia) H64) as [[Lb1 Lb8] [Rt Hh]]. cbv zeta in *.
    set (b := be_bytes (len c)) in *.
    assert (len b = N.of_nat (length b)) as Elb by reflexivity.
    cbn [app read_kind].
    assert (read_size (b ++ c ++ rest) (len b) = Some (len c)) as Hrs.
    { unfold read_size. rewrite Elb, Nat2N.id.
      replace (length (b ++ c ++ rest) <? length b)%nat with false by (rewrite app_length; lia).
      rewrite firstn_app_exact, Rt. replace (len c <? 56) with false by lia.
      assert (hd 0 (b ++ c ++ rest) = hd 0 b) as -> by (destruct b; [cbn in Lb1; lia|reflexivity]).
      apply N.eqb_neq in Hh. rewrite Hh. reflexivity. }
    assert (len ((off + 55 + len b) :: b ++ c ++ rest) - (len b + 1) <? len c = false) as Hfit.
    { unfold len in *. cbn [length]. rewrite !app_length. lia. }
    assert (len ((off + 55 + len b) :: b) = len b + 1) as Elh by (unfold len; cbn [length]; lia).
    destruct str; unfold off in *.
    + replace (128 + 55 + len b <? 128) with false by lia. replace (128 + 55 + len b <? 184) with false by lia.
      replace (128 + 55 + len b <? 192) with true by lia.
      replace (128 + 55 + len b - 183) with (len b) by lia. rewrite Hrs, Hfit, Elh. reflexivity.
    + replace (192 + 55 + len b <? 128) with false by lia. replace (192 + 55 + len b <? 184) with false by lia.
      replace (192 + 55 + len b <? 192) with false by lia. replace (192 + 55 + len b <? 248) with false by lia.
      replace (192 + 55 + len b - 247) with (len b) by lia. rewrite Hrs, Hfit, Elh. reflexivity.
Qed.

(* ---- split on encoded items ------------------------------------------------- *)

Definition str_small (bs : bytes) : Prop := len bs < two64.

Lemma split_str : forall bs rest, str_small bs ->
  split_string (rlp (Str bs) ++ rest) = Some (bs, rest) /\
  (exists k ts cs, read_kind (rlp (Str bs) ++ rest) = Some (k, ts, cs) /\ ts + cs = len (rlp (Str bs)) /\ k <> KList).
Proof.
  intros bs rest Hs. unfold split_string, split.
  assert (forall x, bs = [x] -> x < 128 ->
            read_kind (rlp (Str bs) ++ rest) = Some (KByte, 0, 1)) as Hbyte.
  { intros x -> Hx. cbn [rlp]. replace (x <? 128) with true by lia. cbn [app read_kind].
    replace (x <? 128) with true by lia.
    replace (len (x :: rest) - 0 <? 1) with false by (unfold len; cbn [length]; lia). reflexivity. }
  destruct bs as [|x [|y bs']] eqn:Ebs.
  - (* empty string *)
    pose proof (read_kind_header true [] rest Hs ltac:(intros; exact I)) as R. cbv beta iota zeta in R.
    cbn [rlp]. rewrite app_nil_r. change ([] ++ rest) with rest in R. rewrite R.
    change (len (enc_len 128 (len []))) with 1. cbn. split; [reflexivity|]. eexists _, _, _. split; [reflexivity|]. split; [reflexivity|discriminate].
  - destruct (x <? 128) eqn:Ex.
    + rewrite (Hbyte x eq_refl ltac:(lia)). cbn [rlp]. rewrite Ex. cbn.
      split; [reflexivity|]. eexists _, _, _. split; [reflexivity|]. split; [reflexivity|discriminate].
    + cbn [rlp]. rewrite Ex.
      pose proof (read_kind_header true [x] rest Hs ltac:(intros; cbn; lia)) as R. cbv beta iota zeta in R.
      change (enc_len 128 (len [x])) with [129] in R. cbn [app] in R. cbn [app]. rewrite R.
      cbn. split; [reflexivity|]. eexists _, _, _. split; [reflexivity|]. split; [reflexivity|discriminate].
  - rewrite <- Ebs in *.
    assert (rlp (Str bs) = enc_len 128 (len bs) ++ bs) as Er by (rewrite Ebs; reflexivity).
    rewrite Er. rewrite <- app_assoc.
    pose proof (read_kind_header true bs rest Hs ltac:(intros; rewrite Ebs; exact I)) as R. cbv beta iota zeta in R. rewrite R.
    rewrite skipn_len_app, firstn_len_app, skipn_len_app.
    split; [reflexivity|]. eexists _, _, _. split; [reflexivity|]. split; [rewrite len_app; reflexivity|discriminate].
Qed.

Definition body (l : list item) : bytes := flat_map rlp l.

Lemma split_lst : forall l rest, len (body l) < two64 ->
  split (rlp (Lst l) ++ rest) = Some (KList, body l, rest) /\
  (exists ts cs, read_kind (rlp (Lst l) ++ rest) = Some (KList, ts, cs) /\ ts + cs = len (rlp (Lst l))).
Proof.
  intros l rest Hs. unfold split. cbn [rlp]. fold (body l). rewrite <- app_assoc.
  pose proof (read_kind_header false (body l) rest Hs ltac:(discriminate)) as R. cbv beta iota zeta in R. rewrite R.
  rewrite skipn_len_app, firstn_len_app, skipn_len_app.
  split; [reflexivity|]. eexists _, _. split; [reflexivity|]. rewrite len_app. reflexivity.
Qed.

(* an item whose top-level header can be read back *)
Definition item_small (it : item) : Prop :=
  match it with Str bs => str_small bs | Lst l => len (body l) < two64 end.

Lemma read_kind_item : forall it rest, item_small it ->
  exists k ts cs, read_kind (rlp it ++ rest) = Some (k, ts, cs) /\ ts + cs = len (rlp it).
Proof.
  intros [bs|l] rest Hs.
  - destruct (split_str bs rest Hs) as [_ [k [ts [cs [R [E _]]]]]]. eexists _, _, _. split; eassumption.
  - destruct (split_lst l rest Hs) as [_ [ts [cs [R E]]]]. eexists _, _, _. split; eassumption.
Qed.

Lemma rlp_nonempty : forall it, rlp it <> [].
Proof.
  intros [bs|l]; cbn [rlp].
  - destruct bs as [|x [|y bs]]; [discriminate| |].
    + destruct (x <? 128); discriminate.
    + unfold enc_len. destruct (_ <? 56); discriminate.
  - unfold enc_len. destruct (_ <? 56); discriminate.
Qed.

Lemma count_values_items : forall items fuel, Forall item_small items ->
  (length items <= fuel)%nat -> count_values fuel (body items) = Some (length items).
Proof.
  induction items as [|it items IH]; intros fuel Hs Hf.
  - destruct fuel; reflexivity.
  - destruct fuel as [|fuel]; [cbn in Hf; lia|]. inversion Hs; subst.
    unfold body. cbn [flat_map]. fold (body items). cbn [count_values].
    destruct (rlp it ++ body items) eqn:E; [apply app_eq_nil in E; destruct E as [E _]; apply rlp_nonempty in E; contradiction|].
    rewrite <- E. destruct (read_kind_item it (body items) H1) as [k [ts [cs [R Ets]]]]. rewrite R.
    rewrite Ets, skipn_len_app. rewrite IH; [reflexivity|assumption|cbn in Hf; lia].
Qed.

(* ---- compact keys ----------------------------------------------------------- *)

Lemma decode_nibbles_length : forall hex, length (decode_nibbles hex) = Nat.div2 (length hex).
Proof.
  fix IH 1. intros [|a [|b r]]; [reflexivity|reflexivity|]. cbn [decode_nibbles length Nat.div2]. rewrite IH. reflexivity.
Qed.

Lemma hex_of_decode : forall ns, nibs ns -> Nat.even (length ns) = true ->
  keybytes_to_hex (decode_nibbles ns) = ns ++ [16].
Proof.
  fix IH 1. intros [|a [|b r]] Hn Hev; [reflexivity|discriminate|].
  inversion Hn as [|? ? Ha Hn']; subst. inversion Hn' as [|? ? Hb Hr]; subst.
  cbn [decode_nibbles keybytes_to_hex]. rewrite IH by (try assumption; exact Hev).
  cbn [app]. f_equal; [|f_equal]; lia.
Qed.

Lemma compact_roundtrip_nibs : forall k, nibs k -> compact_to_hex (hex_to_compact k) = k.
Proof.
  intros k Hn. unfold hex_to_compact. rewrite (has_term_nibs k Hn).
  destruct (Nat.odd (length k)) eqn:Eo.
  - destruct k as [|x k]; [discriminate|]. inversion Hn as [|? ? Hx Hk]; subst. cbn [hd tl].
    assert (Nat.even (length k) = true) as Hev.
    { cbn [length] in Eo. rewrite Nat.odd_succ in Eo. exact Eo. }
    unfold compact_to_hex. cbn [keybytes_to_hex]. rewrite hex_of_decode by assumption.
    replace ((0 + 16 + x) / 16) with 1 by lia. replace ((0 + 16 + x) mod 16) with x by lia.
    cbn [hd]. replace (1 <? 2) with true by reflexivity.
    replace (1 :: x :: k ++ [16]) with ((1 :: x :: k) ++ [16]) by reflexivity. rewrite removelast_last.
    cbn [hd]. reflexivity.
  - assert (Nat.even (length k) = true) as Hev by (rewrite <- Nat.negb_odd, Eo; reflexivity).
    unfold compact_to_hex. cbn [keybytes_to_hex]. rewrite hex_of_decode by assumption.
    change (0 / 16) with 0. change (0 mod 16) with 0. cbn [hd]. replace (0 <? 2) with true by reflexivity.
    replace (0 :: 0 :: k ++ [16]) with ((0 :: 0 :: k) ++ [16]) by reflexivity. rewrite removelast_last.
    cbn [hd]. reflexivity.
Qed.

Lemma compact_roundtrip_tkey : forall k, tkey k -> compact_to_hex (hex_to_compact k) = k.
Proof.
  intros k Ht. unfold hex_to_compact. rewrite (has_term_tkey k Ht).
  destruct Ht as [ns [-> Hn]]. rewrite removelast_last.
  destruct (Nat.odd (length ns)) eqn:Eo.
  - destruct ns as [|x ns]; [discriminate|]. inversion Hn as [|? ? Hx Hk]; subst. cbn [hd tl].
    assert (Nat.even (length ns) = true) as Hev.
    { cbn [length] in Eo. rewrite Nat.odd_succ in Eo. exact Eo. }
    unfold compact_to_hex. cbn [keybytes_to_hex]. rewrite hex_of_decode by assumption.
    replace ((32 + 16 + x) / 16) with 3 by lia. replace ((32 + 16 + x) mod 16) with x by lia.
    cbn [hd]. replace (3 <? 2) with false by reflexivity. reflexivity.
  - assert (Nat.even (length ns) = true) as Hev by (rewrite <- Nat.negb_odd, Eo; reflexivity).
    unfold compact_to_hex. cbn [keybytes_to_hex]. rewrite hex_of_decode by assumption.
    change (32 / 16) with 2. change (32 mod 16) with 0. cbn [hd]. replace (2 <? 2) with false by reflexivity. reflexivity.
Qed.

Lemma hex_to_compact_nonempty : forall k, hex_to_compact k <> [].
Proof. intro k. unfold hex_to_compact. destruct (Nat.odd _); discriminate. Qed.

Lemma hex_to_compact_length : forall k, (length (hex_to_compact k) <= S (Nat.div2 (length k)))%nat.
Proof.
  intro k. unfold hex_to_compact.
  set (h := if has_term k then removelast k else k).
  assert (length h <= length k)%nat as Hl.
  { unfold h. destruct (has_term k); [|lia]. destruct k; [cbn; lia|].
    rewrite (app_removelast_last 0 (l := n :: k)) at 2 by discriminate. rewrite app_length. cbn. lia. }
  assert (forall a b, (a <= b)%nat -> (Nat.div2 a <= Nat.div2 b)%nat) as Hm.
  { intros a b Hab. rewrite !Nat.div2_div. apply Nat.div_le_mono; lia. }
  clearbody h. destruct (Nat.odd (length h)); cbn [length]; rewrite decode_nibbles_length.
  - apply le_n_S. apply Hm. destruct h; cbn [tl length] in *; lia.
  - apply le_n_S. apply Hm. exact Hl.
Qed.

(* ---- more about strings ------------------------------------------------------ *)

Lemma enc_len_length : forall off n, n < two64 -> (length (enc_len off n) <= 9)%nat.
Proof.
  intros off n Hn. unfold enc_len. destruct (n <? 56) eqn:E; [cbn; lia|].
  destruct (be_bytes_props n ltac:(lia) Hn) as [[_ L8] _]. cbn [length]. lia.
Qed.

Lemma rlp_str_len : forall bs, str_small bs -> (length (rlp (Str bs)) <= length bs + 9)%nat.
Proof.
  intros bs Hs. destruct bs as [|x [|y bs']].
  - cbn. lia.
  - cbn [rlp]. destruct (x <? 128); cbn; lia.
  - cbn [rlp]. rewrite app_length. pose proof (enc_len_length 128 _ Hs). lia.
Qed.

Lemma rlp_lst_len : forall l, len (body l) < two64 -> (length (rlp (Lst l)) <= length (body l) + 9)%nat.
Proof.
  intros l Hs. cbn [rlp]. fold (body l). rewrite app_length. pose proof (enc_len_length 192 _ Hs). lia.
Qed.

(* a string that is not a single byte below 128 is read back with kind KString *)
Lemma split_str_kind : forall bs rest, str_small bs ->
  match bs with [x] => 128 <= x | _ => True end ->
  split (rlp (Str bs) ++ rest) = Some (KString, bs, rest).
Proof.
  intros bs rest Hs Hb.
  assert (rlp (Str bs) = enc_len 128 (len bs) ++ bs) as Er.
  { destruct bs as [|x [|y bs']]; try reflexivity. cbn [rlp]. replace (x <? 128) with false by lia. reflexivity. }
  rewrite Er, <- app_assoc. unfold split.
  pose proof (read_kind_header true bs rest Hs (fun _ => Hb)) as R. cbv beta iota zeta in R. rewrite R.
  rewrite skipn_len_app, firstn_len_app, skipn_len_app. reflexivity.
Qed.

Lemma body_length_ge : forall l, (length l <= length (body l))%nat.
Proof.
  induction l as [|it l IH]; [cbn; lia|]. unfold body in *. cbn [flat_map length]. rewrite app_length.
  pose proof (rlp_nonempty it). destruct (rlp it); [congruence|cbn [length]; lia].
Qed.

Lemma body_cons : forall it l, body (it :: l) = rlp it ++ body l.
Proof. reflexivity. Qed.

Lemma body_app : forall a b, body (a ++ b) = body a ++ body b.
Proof. intros. unfold body. apply flat_map_app. Qed.
