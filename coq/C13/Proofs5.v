(* C13 - lemmas, part 5: decoding the encoding of a canonical node gives the
   node back with its large children replaced by their hashes ([dview]). *)
From VF.C13 Require Import Model Proofs Proofs4.
From Coq Require Import Lia ZifyBool ZifyN ZifyNat.
Local Open Scope N_scope.

Definition B32 : N := 4294967296.

(* keys and values shorter than 2^32 (so that every length header fits 8 bytes) *)
Fixpoint small (n : node) : Prop :=
  match n with
  | Val v => len v < B32
  | Short k c => len k < B32 /\ small c
  | Full cs => fold_right (fun c acc => small c /\ acc) True cs
  | _ => True
  end.

Lemma small_full : forall cs, small (Full cs) <-> Forall small cs.
Proof.
  intro cs. cbn [small]. induction cs as [|c cs IH]; cbn [fold_right].
  - split; [constructor|trivial].
  - rewrite IH. split; [intros [? ?]; constructor; assumption|intro F; inversion F; tauto].
Qed.

Section Decode.
Variable H : bytes -> bytes.
Hypothesis Hlen : forall x, length (H x) = 32%nat.

Definition enc (n : node) : bytes := encode (collapse H n).

(* is the node embedded in its parent (encoding shorter than a hash)? *)
Definition emb (c : node) : bool :=
  match c with
  | Short _ _ | Full _ => (length (enc c) <? 32)%nat
  | _ => false
  end.

(* what decodeNode returns for the encoding of n *)
Fixpoint dview (n : node) : node :=
  match n with
  | Short k c =>
    Short k (match c with
             | Short _ _ | Full _ => if emb c then dview c else HashN (H (enc c))
             | _ => c
             end)
  | Full cs =>
    Full (map_first (fun c => match c with
                              | Short _ _ | Full _ => if emb c then dview c else HashN (H (enc c))
                              | _ => c
                              end) 16 cs)
  | _ => n
  end.

Definition dref (c : node) : node :=
  match c with
  | Short _ _ | Full _ => if emb c then dview c else HashN (H (enc c))
  | _ => c
  end.

(* the collapsed reference stored in the parent *)
Definition cref (c : node) : node :=
  match c with Empty => Empty | _ => store H (collapse H c) false end.

(* nesting depth of embedded nodes *)
Definition max_first {A} (f : A -> nat) : nat -> list A -> nat :=
  fix go (k : nat) (l : list A) : nat :=
    match k, l with
    | S k', c :: l' => Nat.max (f c) (go k' l')
    | _, _ => O
    end.

Fixpoint edepth (n : node) : nat :=
  match n with
  | Short k c => S (if emb c then edepth c else 0%nat)
  | Full cs => S (max_first (fun c => if emb c then edepth c else 0%nat) 16 cs)
  | _ => 0%nat
  end.

(* ---- shape of the encodings ------------------------------------------------ *)

Lemma store_node : forall c, (match c with Short _ _ | Full _ => True | _ => False end) ->
  store H (collapse H c) false = if emb c then collapse H c else HashN (H (enc c)).
Proof.
  intros c Hc. destruct c; try contradiction; unfold emb, enc; cbn [collapse store];
    unfold encode; rewrite andb_true_r; reflexivity.
Qed.

Lemma enc_short_leaf : forall k v,
  enc (Short k (Val v)) = rlp (Lst [Str (hex_to_compact k); Str v]).
Proof. reflexivity. Qed.

Lemma enc_short_node : forall k c, (match c with Short _ _ | Full _ => True | _ => False end) ->
  enc (Short k c) = rlp (Lst [Str (hex_to_compact k); enc_item (cref c)]).
Proof. intros k c Hc. destruct c; try contradiction; reflexivity. Qed.

Lemma map_first_app : forall A (f : A -> A) (a b : list A),
  map_first f (length a) (a ++ b) = map f a ++ b.
Proof. intros A f a. induction a as [|x a IH]; intro b; cbn; [destruct b; reflexivity|]. rewrite IH. reflexivity. Qed.

Lemma split17 : forall cs : list node, length cs = 17%nat ->
  exists cs16 c16, cs = cs16 ++ [c16] /\ length cs16 = 16%nat /\ c16 = nth 16 cs Empty.
Proof.
  intros cs Hl. exists (firstn 16 cs), (nth 16 cs Empty). repeat split.
  - rewrite <- (firstn_skipn 16 cs) at 1. f_equal.
    do 17 (destruct cs as [|? cs]; [discriminate|]). destruct cs; [reflexivity|discriminate].
  - rewrite firstn_length. lia.
Qed.

Lemma enc_full : forall cs16 c16, length cs16 = 16%nat ->
  enc (Full (cs16 ++ [c16])) = rlp (Lst (map (fun c => enc_item (cref c)) cs16 ++ [enc_item c16])).
Proof.
  intros cs16 c16 Hl. unfold enc, encode. cbn [collapse enc_item].
  rewrite <- Hl. rewrite map_first_app. rewrite map_app, map_map. cbn [map]. reflexivity.
Qed.

(* size of a reference *)
Lemma rlp_hash : forall h, length h = 32%nat -> rlp (Str h) = 160 :: h.
Proof.
  intros h Hh. destruct h as [|a [|b h']]; try discriminate.
  cbn [rlp]. unfold len. rewrite Hh. reflexivity.
Qed.

Lemma len_body_le : forall l, (length (body l) <= length (rlp (Lst l)))%nat.
Proof. intro l. cbn [rlp]. fold (body l). rewrite app_length. lia. Qed.

Lemma cref_small : forall c, (match c with Short _ _ | Full _ | Empty => True | _ => False end) ->
  item_small (enc_item (cref c)) /\ (length (rlp (enc_item (cref c))) <= 33)%nat.
Proof.
  intros c Hc. destruct c as [| |k c'|cs|]; try contradiction.
  - cbn. unfold str_small, two64, len. cbn. split; lia.
  - unfold cref. rewrite store_node by exact I. destruct (emb (Short k c')) eqn:E.
    + unfold emb in E. apply Nat.ltb_lt in E. unfold enc, encode in E.
      destruct (collapse H (Short k c')) eqn:Ec; try discriminate. cbn [enc_item] in *.
      split; [|lia]. cbn [item_small]. pose proof (len_body_le [Str k0; enc_item n]). unfold len, two64. lia.
    + cbn [enc_item]. rewrite rlp_hash by apply Hlen. cbn [length]. rewrite Hlen. split; [|lia].
      cbn. unfold str_small, len, two64. rewrite Hlen. lia.
  - unfold cref. rewrite store_node by exact I. destruct (emb (Full cs)) eqn:E.
    + unfold emb in E. apply Nat.ltb_lt in E. unfold enc, encode in E.
      destruct (collapse H (Full cs)) eqn:Ec; try discriminate. cbn [enc_item] in *.
      split; [|lia]. cbn [item_small]. pose proof (len_body_le (map enc_item cs0)). unfold len, two64. lia.
    + cbn [enc_item]. rewrite rlp_hash by apply Hlen. cbn [length]. rewrite Hlen. split; [|lia].
      cbn. unfold str_small, len, two64. rewrite Hlen. lia.
Qed.

(* ---- decoding ---------------------------------------------------------------- *)

Definition is_node (c : node) : Prop := match c with Short _ _ | Full _ => True | _ => False end.

Lemma enc_is_lst : forall c, is_node c -> exists l, enc_item (collapse H c) = Lst l.
Proof. intros c Hc. destruct c; try contradiction; cbn [collapse enc_item]; eexists; reflexivity. Qed.

(* one child reference is decoded back *)
Lemma decode_ref_ok : forall f c rest,
  (c = Empty \/ (is_node c /\ (emb c = true -> forall rest', decode_node f (enc c ++ rest') = DOk (dview c)))) ->
  decode_ref_with (decode_node f) (rlp (enc_item (cref c)) ++ rest) = ROk (dref c) rest.
Proof.
  intros f c rest [->|[Hn Hdec]].
  - cbn [cref enc_item dref]. unfold decode_ref_with.
    rewrite (split_str_kind [] rest); [reflexivity| |exact I]. unfold str_small, len, two64. cbn. lia.
  - assert (cref c = store H (collapse H c) false) as -> by (destruct c; try contradiction; reflexivity).
    assert (dref c = if emb c then dview c else HashN (H (enc c))) as -> by (destruct c; try contradiction; reflexivity).
    rewrite store_node by exact Hn. destruct (emb c) eqn:E.
    + destruct (enc_is_lst c Hn) as [l El].
      assert (rlp (enc_item (collapse H c)) = enc c) as Ee by reflexivity.
      assert (length (enc c) < 32)%nat as Hlt.
      { destruct c; try contradiction; unfold emb in E; apply Nat.ltb_lt in E; exact E. }
      unfold decode_ref_with. rewrite Ee. rewrite <- Ee at 1. rewrite El.
      destruct (split_lst l rest) as [Sp _].
      { pose proof (len_body_le l). rewrite <- El, Ee in H0. unfold len, two64. lia. }
      rewrite Sp. rewrite app_length.
      replace (32 <? length (enc c) + length rest - length rest)%nat with false by (symmetry; apply Nat.ltb_ge; lia).
      rewrite (Hdec eq_refl rest). reflexivity.
    + cbn [enc_item]. unfold decode_ref_with.
      rewrite (split_str_kind (H (enc c)) rest).
      * rewrite Hlen. reflexivity.
      * unfold str_small, len, two64. rewrite Hlen. lia.
      * pose proof (Hlen (enc c)) as L. destruct (H (enc c)) as [|x [|y r]]; cbn in L; try lia; exact I.
Qed.

Lemma decode_node_unfold : forall f l rest, Forall item_small l -> len (body l) < two64 ->
  decode_node (S f) (rlp (Lst l) ++ rest) =
  if Nat.eqb (length l) 2 then decode_short (decode_ref_with (decode_node f)) (body l)
  else if Nat.eqb (length l) 17 then decode_children (decode_ref_with (decode_node f)) 16 (body l) []
  else DErr.
Proof.
  intros f l rest Hs Hb. cbn [decode_node].
  destruct (rlp (Lst l) ++ rest) eqn:E; [apply app_eq_nil in E; destruct E as [E _]; apply rlp_nonempty in E; contradiction|].
  rewrite <- E. unfold split_list. destruct (split_lst l rest Hb) as [Sp _]. rewrite Sp.
  rewrite (count_values_items l _ Hs) by (pose proof (body_length_ge l); lia). reflexivity.
Qed.

(* the children of a branch are decoded one after the other *)
Lemma decode_children_ok : forall f cs tail acc,
  Forall (fun c => c = Empty \/ (is_node c /\ (emb c = true -> forall rest', decode_node f (enc c ++ rest') = DOk (dview c)))) cs ->
  decode_children (decode_ref_with (decode_node f)) (length cs) (body (map (fun c => enc_item (cref c)) cs) ++ tail) acc =
  decode_children (decode_ref_with (decode_node f)) 0 tail (rev (map dref cs) ++ acc).
Proof.
  intros f cs. induction cs as [|c cs IH]; intros tail acc Hc; [reflexivity|].
  inversion Hc as [|? ? Hc1 Hcs]; subst.
  cbn [length map decode_children]. rewrite body_cons, <- app_assoc.
  rewrite (decode_ref_ok f c _ Hc1). rewrite IH by exact Hcs. cbn [rev]. rewrite <- app_assoc. reflexivity.
Qed.

Lemma emb_edepth_short : forall k c f, (edepth (Short k c) <= S f)%nat -> emb c = true -> (edepth c <= f)%nat.
Proof. intros k c f Hd He. cbn [edepth] in Hd. rewrite He in Hd. lia. Qed.

Lemma max_first_ge : forall (g : node -> nat) cs k c, In c (firstn k cs) -> (g c <= max_first g k cs)%nat.
Proof.
  intros g cs. induction cs as [|x cs IH]; intros k c Hin; destruct k; cbn in Hin; try contradiction.
  cbn [max_first]. destruct Hin as [->|Hin]; [lia|]. specialize (IH k c Hin). lia.
Qed.

Lemma decode_ok : forall n, canon n -> small n ->
  forall fuel rest, (edepth n <= fuel)%nat -> decode_node fuel (enc n ++ rest) = DOk (dview n).
Proof.
  induction n as [|vv|k c IH|cs IH|hh] using node_ind'; intros Hc Hs fuel rest Hf; try discriminate.
  - (* Short *)
    destruct fuel as [|f]; [cbn in Hf; lia|]. cbn [small] in Hs. destruct Hs as [Hk Hsc].
    pose proof (hex_to_compact_length k) as Lck.
    assert (str_small (hex_to_compact k)) as Sck.
    { unfold str_small, len, two64. unfold len, B32 in Hk. pose proof (Nat.div2_decr (length k) (length k) ltac:(lia)). lia. }
    pose proof (rlp_str_len _ Sck) as Lrck.
    destruct (canon_short_inv _ _ Hc) as [[Htk Hv]|[Hnk [Hne [Hfc Hcc]]]].
    + (* leaf *)
      destruct (is_valne_inv _ Hv) as [v [-> Hvne]]. cbn [small] in Hsc.
      assert (str_small v) as Sv by (unfold str_small, two64; unfold B32 in Hsc; lia).
      pose proof (rlp_str_len _ Sv) as Lrv.
      rewrite enc_short_leaf. rewrite decode_node_unfold.
      * cbn [length Nat.eqb]. unfold decode_short. rewrite !body_cons. unfold body. cbn [flat_map]. rewrite app_nil_r.
        destruct (split_str (hex_to_compact k) (rlp (Str v)) Sck) as [S1 _]. rewrite S1.
        destruct (hex_to_compact k) eqn:Eck; [exfalso; exact (hex_to_compact_nonempty k Eck)|]. rewrite <- Eck.
        rewrite compact_roundtrip_tkey by exact Htk. rewrite (has_term_tkey k Htk).
        rewrite <- (app_nil_r (rlp (Str v))). destruct (split_str v [] Sv) as [S2 _]. rewrite S2. reflexivity.
      * repeat constructor; assumption.
      * rewrite !body_cons. unfold body. cbn [flat_map]. rewrite app_nil_r. unfold len, two64 in *. rewrite app_length.
        unfold B32 in *. pose proof (Nat.div2_decr (length k) (length k) ltac:(lia)). lia.
    + (* extension *)
      assert (is_node c) as Hnc by (destruct c; try discriminate; exact I).
      destruct (cref_small c ltac:(destruct c; try discriminate; exact I)) as [Sref Lref].
      rewrite (enc_short_node k c Hnc). rewrite decode_node_unfold.
      * cbn [length Nat.eqb]. unfold decode_short. rewrite !body_cons. unfold body. cbn [flat_map]. rewrite app_nil_r.
        destruct (split_str (hex_to_compact k) (rlp (enc_item (cref c))) Sck) as [S1 _]. rewrite S1.
        destruct (hex_to_compact k) eqn:Eck; [exfalso; exact (hex_to_compact_nonempty k Eck)|]. rewrite <- Eck.
        rewrite compact_roundtrip_nibs by exact Hnk. rewrite (has_term_nibs k Hnk).
        rewrite <- (app_nil_r (rlp (enc_item (cref c)))).
        rewrite (decode_ref_ok f c []).
        -- cbn [dview]. unfold dref. destruct c; try contradiction; reflexivity.
        -- right. split; [exact Hnc|]. intros He rest'. apply IH; [exact Hcc|exact Hsc|].
           apply (emb_edepth_short k c f Hf He).
      * repeat constructor; assumption.
      * rewrite !body_cons. unfold body. cbn [flat_map]. rewrite app_nil_r. unfold len, two64 in *. rewrite app_length.
        unfold B32 in *. pose proof (Nat.div2_decr (length k) (length k) ltac:(lia)). lia.
  - (* Full *)
    destruct fuel as [|f]; [cbn in Hf; lia|].
    destruct (canon_full_inv _ Hc) as [Hl [Hslots _]].
    destruct (split17 cs Hl) as [cs16 [c16 [Ecs [Hl16 Ec16]]]].
    apply small_full in Hs.
    assert (Forall (fun c => c = Empty \/ (is_node c /\ (emb c = true -> forall rest', decode_node f (enc c ++ rest') = DOk (dview c)))) cs16) as Hchildren.
    { apply Forall_forall. intros c Hin. destruct (In_nth _ _ Empty Hin) as [i [Hi Enth]].
      assert (nth i cs Empty = c) as Enth' by (rewrite Ecs, app_nth1 by lia; exact Enth).
      pose proof (Hslots i ltac:(lia)) as Si. unfold slot_ok in Si.
      replace (i <? 16)%nat with true in Si by (symmetry; apply Nat.ltb_lt; lia). rewrite Enth' in Si.
      destruct Si as [->|Hcc]; [left; reflexivity|right].
      assert (is_node c) as Hnc by (destruct c; try discriminate; exact I). split; [exact Hnc|].
      intros He rest'. rewrite Forall_forall in IH, Hs.
      assert (In c cs) as Hincs by (rewrite Ecs; apply in_or_app; left; exact Hin).
      apply (IH c Hincs Hcc (Hs c Hincs)).
      cbn [edepth] in Hf.
      assert (In c (firstn 16 cs)) as Hfn by (rewrite Ecs, <- Hl16, firstn_app_exact; exact Hin).
      pose proof (max_first_ge (fun c => if emb c then edepth c else 0%nat) cs 16 c Hfn) as Hm. cbn beta in Hm. rewrite He in Hm. lia. }
    assert (c16 = Empty \/ exists v, c16 = Val v /\ v <> []) as H16.
    { pose proof (Hslots 16%nat ltac:(lia)) as S16. unfold slot_ok in S16. cbn in S16. rewrite <- Ec16 in S16.
      destruct S16 as [->|Hv]; [left; reflexivity|right; apply is_valne_inv; exact Hv]. }
    assert (exists v16, enc_item c16 = Str v16 /\ len v16 < B32 /\ (match v16 with [] => Empty | _ => Val v16 end) = c16) as [v16 [E16 [L16 R16]]].
    { destruct H16 as [->|[v [-> Hvne]]].
      - exists []. split; [reflexivity|split; [unfold len, B32; cbn; lia|reflexivity]].
      - exists v. split; [reflexivity|split].
        + rewrite Forall_forall in Hs. specialize (Hs (Val v) ltac:(rewrite Ecs; apply in_or_app; right; left; reflexivity)). exact Hs.
        + destruct v; [congruence|reflexivity]. }
    assert (str_small v16) as Sv16 by (unfold str_small, two64; unfold B32 in L16; lia).
    assert (Forall item_small (map (fun c => enc_item (cref c)) cs16)) as Hsm16.
    { apply Forall_forall. intros it Hin. apply in_map_iff in Hin. destruct Hin as [c [<- Hin]].
      rewrite Forall_forall in Hchildren. destruct (Hchildren c Hin) as [->|[Hnc _]];
        apply cref_small; [exact I|destruct c; try contradiction; exact I]. }
    assert (length (body (map (fun c => enc_item (cref c)) cs16)) <= 33 * length cs16)%nat as Lb16.
    { clear -Hchildren Hlen. induction cs16 as [|c cs16 IHc]; [cbn; lia|].
      inversion Hchildren as [|? ? Hc1 Hcs]; subst. cbn [map]. rewrite body_cons, app_length. cbn [length].
      specialize (IHc Hcs).
      assert (length (rlp (enc_item (cref c))) <= 33)%nat as L1.
      { destruct Hc1 as [->|[Hnc _]]; apply cref_small; [exact I|destruct c; try contradiction; exact I]. }
      lia. }
    rewrite Ecs. rewrite (enc_full cs16 c16 Hl16). rewrite E16.
    rewrite decode_node_unfold.
    + rewrite app_length, map_length, Hl16. cbn [length Nat.add Nat.eqb].
      rewrite body_app. rewrite <- Hl16 at 1.
      rewrite (decode_children_ok f cs16 _ [] Hchildren). cbn [decode_children].
      unfold body at 1. cbn [flat_map]. rewrite app_nil_r. rewrite <- (app_nil_r (rlp (Str v16))).
      destruct (split_str v16 [] Sv16) as [S2 _]. rewrite S2. rewrite app_nil_r, rev_involutive, R16.
      cbn [dview]. rewrite <- Hl16, map_first_app. reflexivity.
    + apply Forall_app. split; [exact Hsm16|]. repeat constructor. exact Sv16.
    + rewrite body_app, len_app. unfold body at 2. cbn [flat_map]. rewrite app_nil_r.
      pose proof (rlp_str_len _ Sv16). unfold len, two64, B32 in *. lia.
Qed.

(* the nesting of embedded nodes is bounded by their size *)
Lemma edepth_le_enc : forall n, (edepth n <= length (enc n))%nat.
Proof.
  induction n as [|vv|k c IH|cs IH|hh] using node_ind'; try (cbn; lia).
  - cbn [edepth]. destruct (emb c) eqn:E; [|unfold enc, encode; pose proof (rlp_nonempty (enc_item (collapse H (Short k c)))); destruct (rlp _); [congruence|cbn; lia]].
    assert (is_node c) as Hnc by (destruct c; try discriminate; exact I).
    rewrite (enc_short_node k c Hnc). unfold cref. assert (c <> Empty) as Hne by (destruct c; try contradiction; discriminate).
    replace (match c with Empty => Empty | _ => store H (collapse H c) false end) with (store H (collapse H c) false) by (destruct c; try contradiction; reflexivity).
    rewrite store_node by exact Hnc. rewrite E.
    cbn [rlp]. rewrite app_length. cbn [flat_map]. rewrite !app_length.
    change (rlp (enc_item (collapse H c))) with (enc c).
    pose proof (rlp_nonempty (Str (hex_to_compact k))) as N1. destruct (rlp (Str (hex_to_compact k))); [congruence|].
    unfold enc_len. destruct (_ <? 56); cbn [length]; lia.
  - cbn [edepth].
    assert (forall k, (max_first (fun c => if emb c then edepth c else 0%nat) k cs <= length (body (map enc_item (map_first (fun c => match c with Empty => Empty | _ => store H (collapse H c) false end) k cs))))%nat) as Hm.
    { induction cs as [|c cs IHcs]; intro k; destruct k; cbn [max_first]; try lia.
      inversion IH as [|? ? Hc1 Hcs]; subst. specialize (IHcs Hcs k).
      cbn [map_first map]. rewrite body_cons, app_length.
      assert ((if emb c then edepth c else 0%nat) <= length (rlp (enc_item match c with Empty => Empty | _ => store H (collapse H c) false end)))%nat.
      { destruct (emb c) eqn:E; [|lia].
        assert (is_node c) as Hnc by (destruct c; try discriminate; exact I).
        replace (match c with Empty => Empty | _ => store H (collapse H c) false end) with (store H (collapse H c) false) by (destruct c; try contradiction; reflexivity).
        rewrite store_node by exact Hnc. rewrite E. exact Hc1. }
      lia. }
    specialize (Hm 16%nat). unfold enc, encode. cbn [collapse enc_item rlp]. fold (body (map enc_item (map_first (fun c => match c with Empty => Empty | _ => store H (collapse H c) false end) 16 cs))).
    rewrite app_length. unfold enc_len. destruct (_ <? 56); cbn [length]; lia.
Qed.

Lemma edepth_bound : forall n, (edepth n <= 32)%nat.
Proof.
  destruct n as [| |k c|cs|]; cbn [edepth]; try lia.
  - destruct (emb c) eqn:E; [|lia]. pose proof (edepth_le_enc c).
    destruct c; try discriminate; unfold emb in E; apply Nat.ltb_lt in E; lia.
  - assert (forall k, (max_first (fun c => if emb c then edepth c else 0%nat) k cs <= 31)%nat) as Hm.
    { induction cs as [|c cs IHcs]; intro k; destruct k; cbn [max_first]; try lia.
      specialize (IHcs k).
      assert ((if emb c then edepth c else 0%nat) <= 31)%nat.
      { destruct (emb c) eqn:E; [|lia]. pose proof (edepth_le_enc c).
        destruct c; try discriminate; unfold emb in E; apply Nat.ltb_lt in E; lia. }
      lia. }
    specialize (Hm 16%nat). lia.
Qed.

(* decodeNode with the fuel the model uses *)
Lemma decode_canon : forall n rest, canon n -> small n ->
  decode_node decode_fuel (enc n ++ rest) = DOk (dview n).
Proof.
  intros n rest Hc Hs. apply decode_ok; try assumption. pose proof (edepth_bound n). unfold decode_fuel. lia.
Qed.

End Decode.
