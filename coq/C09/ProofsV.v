(* C09 - validator side: CreateValidator, UpdateValidator and AddWithdrawRecord
   are undone exactly by the revert of their journal entries (everything but
   the validatorsStatModified latch), under the side conditions [v_good]. *)
From VF.C09 Require Import Model ProofsMaps.
From Coq Require Import Lia ZifyBool ZifyN ZifyNat.

(* equality of validator sides up to the "statistics were modified" latch *)
Definition veq (v1 v2 : vside) : Prop :=
  vals v1 = vals v2 /\ vtrie v1 = vtrie v2 /\ vdirty v1 = vdirty v2 /\ vindex v1 = vindex v2 /\
  sv_index v1 = sv_index v2 /\ sv_stat v1 = sv_stat v2 /\ sv_queue v1 = sv_queue v2 /\
  stat v1 = stat v2 /\ queue v1 = queue v2 /\ vjr v1 = vjr v2.

Lemma veq_refl : forall v, veq v v.
Proof. unfold veq; intuition. Qed.
Lemma veq_sym : forall a b, veq a b -> veq b a.
Proof. unfold veq; intuition. Qed.
Lemma veq_trans : forall a b c, veq a b -> veq b c -> veq a c.
Proof. unfold veq; intuition congruence. Qed.

Lemma veq_inv : forall v1 v2, veq v1 v2 ->
  v2 = mkVS (vals v1) (vtrie v1) (vdirty v1) (vindex v1) (sv_index v1) (sv_stat v1) (sv_queue v1)
            (stat v1) (stat_mod v2) (queue v1) (vjr v1).
Proof.
  intros v1 v2 H. unfold veq in H. destruct v1, v2; cbn in *. intuition; subst. reflexivity.
Qed.

Lemma v_entry_revert_eq : forall fx e v1 v2 b1,
  veq v1 v2 -> v_entry_revert fx e v1 = Some b1 -> exists b2, v_entry_revert fx e v2 = Some b2 /\ veq b1 b2.
Proof.
  intros fx e v1 v2 b1 H Hr. rewrite (veq_inv _ _ H). clear H. destruct v1 as [va vt vd vi si ss sq st sm q j].
  generalize (stat_mod v2) as m2. intros m2. cbn in *.
  destruct e; cbn in *.
  - destruct (find va a); [|discriminate]. destruct (f_create fx); inversion Hr; subst; eexists; (split; [reflexivity|]); unfold veq; cbn; intuition.
  - inversion Hr; subst. destruct (stake_equal match find va a with Some x => x | None => newv end oldv);
      eexists; (split; [reflexivity|]); unfold veq; cbn; intuition.
  - inversion Hr; subst. destruct (f_journal fx); eexists; (split; [reflexivity|]); unfold veq; cbn; intuition.
  - destruct q; [inversion Hr; subst; eexists; split; [reflexivity|]; unfold veq; cbn; intuition|].
    destruct (q_delete_last (w :: q) r); [|discriminate]. inversion Hr; subst. eexists; split; [reflexivity|]. unfold veq; cbn; intuition.
  - inversion Hr; subst. eexists; split; [reflexivity|]. unfold veq; cbn; intuition.
Qed.

Lemma veq_set_vjr : forall v1 v2 j, veq v1 v2 -> veq (set_vjr j v1) (set_vjr j v2).
Proof. unfold veq; cbn; intuition. Qed.

Lemma v_revert_eq : forall fx n v1 v2 b1,
  veq v1 v2 -> v_revert fx n v1 = Some b1 -> exists b2, v_revert fx n v2 = Some b2 /\ veq b1 b2.
Proof.
  intros fx. induction n as [|n IH]; intros v1 v2 b1 H Hr; cbn in *.
  - inversion Hr; subst. eauto.
  - assert (Hj : vjr v1 = vjr v2) by (unfold veq in H; tauto). rewrite <- Hj.
    destruct (j_entries (vjr v1)) as [|e rest]; [discriminate|].
    destruct (v_entry_revert fx e v1) as [c1|] eqn:E1; [|discriminate].
    destruct (v_entry_revert_eq _ _ _ _ _ H E1) as (c2 & E2 & Hc). rewrite E2.
    assert (Hjc : vjr c1 = vjr c2) by (unfold veq in Hc; tauto). rewrite <- Hjc.
    eapply IH; [|exact Hr]. now apply veq_set_vjr.
Qed.

Lemma v_revert_add : forall fx n m v,
  v_revert fx (n + m) v = match v_revert fx n v with Some b => v_revert fx m b | None => None end.
Proof.
  intros fx. induction n as [|n IH]; intros m v; cbn; [reflexivity|].
  destruct (j_entries (vjr v)); [reflexivity|].
  destruct (v_entry_revert fx v0 v); [|reflexivity]. apply IH.
Qed.

Lemma v_revert_len : forall fx n v b,
  v_revert fx n v = Some b -> length (j_entries (vjr v)) = n + length (j_entries (vjr b)).
Proof.
  intros fx. induction n as [|n IH]; intros v b H; cbn in *.
  - now inversion H.
  - destruct (j_entries (vjr v)) as [|e rest] eqn:E; [discriminate|].
    destruct (v_entry_revert fx e v) as [c|]; [|discriminate].
    apply IH in H. cbn in H. cbn. lia.
Qed.

Definition vlen (v : vside) : nat := length (j_entries (vjr v)).

Definition vext (fx : fixes) (v0 v : vside) : Prop :=
  exists k v1, vlen v = k + vlen v0 /\ v_revert fx k v = Some v1 /\ veq v1 v0.

Lemma vext_refl : forall fx v, vext fx v v.
Proof. intros fx v. exists 0, v. cbn. auto using veq_refl. Qed.

Lemma vext_trans : forall fx a b c, vext fx a b -> vext fx b c -> vext fx a c.
Proof.
  intros fx a b c (k1 & b1 & L1 & R1 & E1) (k2 & c1 & L2 & R2 & E2).
  destruct (v_revert_eq _ _ _ _ _ (veq_sym _ _ E2) R1) as (c2 & R3 & E3).
  exists (k2 + k1), c2. unfold vlen in *. split; [lia|]. split.
  - rewrite v_revert_add, R2. exact R3.
  - eapply veq_trans; [apply veq_sym; exact E3 | exact E1].
Qed.

Lemma vext_revert : forall fx v0 v m b,
  vext fx v0 v -> v_revert fx m v = Some b -> vlen v0 <= vlen b -> vext fx v0 b.
Proof.
  intros fx v0 v m b (k & v1 & L & R & E) Hm Hle.
  pose proof (v_revert_len _ _ _ _ Hm) as Lm. unfold vlen in *.
  exists (k - m), v1. unfold vlen. split; [lia|]. split; [|exact E].
  replace k with (m + (k - m)) in R by lia. rewrite v_revert_add, Hm in R. exact R.
Qed.

Lemma vext_one : forall fx v b e b1,
  j_entries (vjr b) = e :: j_entries (vjr v) ->
  v_entry_revert fx e b = Some b1 ->
  veq (set_vjr (mkJ (j_entries (vjr v))
                    (match v_dirtied e with Some x => d_dec (j_dirties (vjr b1)) x | None => j_dirties (vjr b1) end)) b1) v ->
  vext fx v b.
Proof.
  intros fx v b e b1 He Hr Heq. eexists 1, _. unfold vlen. rewrite He. split; [reflexivity|]. split; [|exact Heq].
  cbn. rewrite He, Hr. reflexivity.
Qed.

(* ---- statistics -------------------------------------------------------- *)
Definition bucket_ok (b : bucket) : Prop :=
  (0 <= b_on_stake b)%Z /\ (0 <= b_on_token b)%Z /\ (b_on_count b < M64)%N /\
  (0 <= b_off_stake b)%Z /\ (0 <= b_off_token b)%Z /\ (b_off_count b < M64)%N.
Definition stat_ok (s : vstat) : Prop :=
  bucket_ok (k0 s) /\ bucket_ok (k1 s) /\ bucket_ok (k2 s) /\ bucket_ok (r1 s) /\ bucket_ok (r2 s) /\ bucket_ok (r3 s).
(* the bucket holds at least this validator's stake and token on its status side *)
Definition b_covers (x : validator) (b : bucket) : Prop :=
  if N.eqb (v_status x) 1 then (v_stake x <= b_on_stake b)%Z /\ (v_token x <= b_on_token b)%Z
  else (v_stake x <= b_off_stake b)%Z /\ (v_token x <= b_off_token b)%Z.
Definition covers (s : vstat) (x : validator) : Prop :=
  match v_role x with
  | 1%N => b_covers x (k0 s) /\ b_covers x (k1 s) /\ b_covers x (r1 s)
  | 2%N => b_covers x (k0 s) /\ b_covers x (k1 s) /\ b_covers x (r2 s)
  | 3%N => b_covers x (k0 s) /\ b_covers x (k2 s) /\ b_covers x (r3 s)
  | _ => True
  end.

Lemma M64_pos : (0 < M64)%N.
Proof. reflexivity. Qed.

Lemma cnt_dec_inc : forall c, (c < M64)%N -> cnt_dec (cnt_inc c) = c.
Proof.
  intros c H. unfold cnt_dec, cnt_inc.
  assert (Hp : M64 <> 0%N) by discriminate.
  destruct (N.eq_dec (c + 1) M64) as [E|E].
  - rewrite E, (N.mod_same _ Hp). replace (0 + M64 - 1)%N with c by lia. now apply N.mod_small.
  - rewrite (N.mod_small (c + 1)) by lia.
    replace (c + 1 + M64 - 1)%N with (c + 1 * M64)%N by lia.
    rewrite (N.mod_add _ _ _ Hp). now apply N.mod_small.
Qed.
Lemma cnt_inc_dec : forall c, (c < M64)%N -> cnt_inc (cnt_dec c) = c.
Proof.
  intros c H. unfold cnt_dec, cnt_inc.
  assert (Hp : M64 <> 0%N) by discriminate.
  assert (Hpos : (0 < M64)%N) by reflexivity.
  destruct (N.eq_dec c 0) as [E|E].
  - subst. replace (0 + M64 - 1)%N with (M64 - 1)%N by lia. rewrite (N.mod_small (M64 - 1)) by lia.
    replace (M64 - 1 + 1)%N with M64 by lia. now apply N.mod_same.
  - replace (c + M64 - 1)%N with ((c - 1) + 1 * M64)%N by lia.
    rewrite (N.mod_add _ _ _ Hp). rewrite (N.mod_small (c - 1)) by lia.
    replace (c - 1 + 1)%N with c by lia. now apply N.mod_small.
Qed.
Lemma cnt_dec_lt : forall c, (cnt_dec c < M64)%N.
Proof. intros. unfold cnt_dec. apply N.mod_lt. discriminate. Qed.
Lemma cnt_inc_lt : forall c, (cnt_inc c < M64)%N.
Proof. intros. unfold cnt_inc. apply N.mod_lt. discriminate. Qed.

Lemma sat_sub_add : forall s v, (0 <= s)%Z -> sat_sub (s + v) v = s.
Proof. intros. unfold sat_sub. destruct (Z.leb v (s + v)) eqn:E; lia. Qed.
Lemma sat_add_sub : forall s v, (v <= s)%Z -> (sat_sub s v + v)%Z = s.
Proof. intros. unfold sat_sub. destruct (Z.leb v s) eqn:E; lia. Qed.
Lemma sat_sub_nonneg : forall s v, (0 <= s)%Z -> (0 <= sat_sub s v)%Z.
Proof. intros. unfold sat_sub. destruct (Z.leb v s) eqn:E; lia. Qed.

Lemma b_sub_add : forall x b, bucket_ok b -> b_sub x (b_add x b) = b.
Proof.
  intros x [a1 a2 a3 a4 a5 a6] (H1 & H2 & H3 & H4 & H5 & H6). unfold b_sub, b_add; cbn in *.
  destruct (N.eqb (v_status x) 1); cbn; rewrite ?sat_sub_add, ?cnt_dec_inc by assumption; reflexivity.
Qed.
Lemma b_add_sub : forall x b, bucket_ok b -> b_covers x b -> b_add x (b_sub x b) = b.
Proof.
  intros x [a1 a2 a3 a4 a5 a6] (H1 & H2 & H3 & H4 & H5 & H6) Hc. unfold b_sub, b_add, b_covers in *; cbn in *.
  destruct (N.eqb (v_status x) 1); cbn; destruct Hc; rewrite ?sat_add_sub, ?cnt_inc_dec by assumption; reflexivity.
Qed.
Lemma b_sub_ok : forall x b, bucket_ok b -> bucket_ok (b_sub x b).
Proof.
  intros x [a1 a2 a3 a4 a5 a6] (H1 & H2 & H3 & H4 & H5 & H6). unfold b_sub, bucket_ok; cbn in *.
  destruct (N.eqb (v_status x) 1); cbn; repeat split; auto using sat_sub_nonneg, cnt_dec_lt.
Qed.

Lemma stat_sub_add : forall x s, stat_ok s -> stat_apply (b_sub x) (v_role x) (stat_apply (b_add x) (v_role x) s) = s.
Proof.
  intros x [a b c d e f] (H1 & H2 & H3 & H4 & H5 & H6). unfold stat_apply; cbn in *.
  destruct (v_role x) as [|[[|[]|]|[|[]|]|]]; cbn; rewrite ?b_sub_add by assumption; reflexivity.
Qed.
Lemma stat_add_sub : forall x s, stat_ok s -> covers s x ->
  stat_apply (b_add x) (v_role x) (stat_apply (b_sub x) (v_role x) s) = s.
Proof.
  intros x [a b c d e f] (H1 & H2 & H3 & H4 & H5 & H6) Hc. unfold stat_apply, covers in *; cbn in *.
  destruct (v_role x) as [|[[|[]|]|[|[]|]|]]; cbn; try reflexivity;
    destruct Hc as (C1 & C2 & C3); rewrite ?b_add_sub by assumption; reflexivity.
Qed.
Lemma stat_sub_ok : forall x s, stat_ok s -> stat_ok (stat_apply (b_sub x) (v_role x) s).
Proof.
  intros x [a b c d e f] (H1 & H2 & H3 & H4 & H5 & H6). unfold stat_apply, stat_ok; cbn in *.
  destruct (v_role x) as [|[[|[]|]|[|[]|]|]]; cbn; intuition auto using b_sub_ok.
Qed.

Arguments cnt_inc : simpl never.
Arguments cnt_dec : simpl never.
Arguments sat_sub : simpl never.
Arguments b_add : simpl never.
Arguments b_sub : simpl never.
Arguments stat_apply : simpl never.
Opaque stat_apply b_add b_sub cnt_inc cnt_dec sat_sub.

(* ---- side conditions under which the three journalled validator mutations
   are exactly invertible (all hold in states built through the API from an
   empty state; see Properties.v) ---- *)
Definition create_ok (fx : fixes) (v : vside) (a : N) : Prop :=
  match find (vals v) a with
  | Some x => if v_deleted x
              then f_create fx = true /\ stat_ok (stat v)   (* replaces a deleted live record: undone only by the repaired revert *)
              else True                                     (* the call is refused, nothing happens *)
  | None => find (vtrie v) a = None /\ (f_create fx = true \/ mem (vindex v) a = false) /\ stat_ok (stat v)
  end.
Definition update_ok (v : vside) (a : N) : Prop :=
  match find (vals v) a with
  | Some x => v_deleted x = true \/
              (v_addr x = a /\ mem (vindex v) a = true /\ stat_ok (stat v) /\ covers (stat v) x)
  | None => find (vtrie v) a = None
  end.
Definition get_ok (v : vside) (a : N) : Prop :=
  find (vals v) a <> None \/ find (vtrie v) a = None.

Lemma vside_eta : forall v, mkVS (vals v) (vtrie v) (vdirty v) (vindex v) (sv_index v) (sv_stat v) (sv_queue v) (stat v) (stat_mod v) (queue v) (vjr v) = v.
Proof. now destruct v. Qed.

Lemma op_get_validator : forall v a, get_ok v a -> fst (get_validator v a) = v.
Proof.
  intros v a H. unfold get_validator, get_ok in *.
  destruct (find (vals v) a) as [x|]; [destruct (v_deleted x); reflexivity|].
  destruct H as [H|H]; [congruence|]. now rewrite H.
Qed.

Lemma index_back : forall (idx : list N) a, (if mem idx a then add idx a else rem (add idx a) a) = idx.
Proof.
  intros idx a. destruct (mem idx a) eqn:E; [now apply add_mem_id | now apply rem_add_absent].
Qed.

Lemma op_create_validator : forall fx v a role status stake token,
  create_ok fx v a -> vext fx v (fst (create_validator v a role status stake token)).
Proof.
  intros fx v a role status stake token H. unfold create_validator, get_validator, create_ok in *.
  destruct (find (vals v) a) as [x0|] eqn:Hf.
  - destruct (v_deleted x0) eqn:Hd; [|cbn; apply vext_refl].
    destruct H as (Hc & Hs). cbn [fst].
    destruct v as [va vt vd vi si ss sq st sm q j]. cbn in Hf, Hs.
    set (x := mkV a role status stake token 0 false).
    eapply vext_one with (e := EValCreate a (Some x0) (mem vi a)); [cbn; rewrite Hf; reflexivity | |].
    + cbn. rewrite find_set_same, Hc. reflexivity.
    + unfold veq; cbn. rewrite set_set, (set_same_id _ _ _ Hf), index_back, d_dec_inc, journal_eta.
      repeat split; try reflexivity. exact (stat_sub_add x _ Hs).
  - destruct H as (Ht & Hi & Hs). rewrite Ht. cbn [fst].
    destruct v as [va vt vd vi si ss sq st sm q j]. cbn in Hf, Ht, Hi, Hs.
    set (x := mkV a role status stake token 0 false).
    destruct (f_create fx) eqn:Hc.
    + eapply vext_one with (e := EValCreate a None (mem vi a)); [cbn; rewrite Hf; reflexivity | |].
      * cbn. rewrite find_set_same, Hc. reflexivity.
      * unfold veq; cbn. rewrite (del_set_absent _ _ _ Hf), index_back, d_dec_inc, journal_eta.
        repeat split; try reflexivity. exact (stat_sub_add x _ Hs).
    + destruct Hi as [Hi|Hi]; [discriminate|].
      eapply vext_one with (e := EValCreate a None (mem vi a)); [cbn; rewrite Hf; reflexivity | |].
      * cbn. rewrite find_set_same, Hc. reflexivity.
      * unfold veq; cbn. rewrite (del_set_absent _ _ _ Hf), (rem_add_absent _ _ Hi), d_dec_inc, journal_eta.
        repeat split; try reflexivity. exact (stat_sub_add x _ Hs).
Qed.

Lemma op_update_val : forall fx v a role status stake token payload,
  update_ok v a -> vext fx v (fst (update_val_op v a role status stake token payload)).
Proof.
  intros fx v a role status stake token payload H. unfold update_val_op, get_validator, update_ok in *.
  destruct (find (vals v) a) as [ov|] eqn:Hf.
  - destruct (v_deleted ov) eqn:Hd; [cbn; apply vext_refl|].
    destruct H as [H|(Ha & Hi & Hs & Hc)]; [congruence|]. cbn [fst].
    destruct v as [va vt vd vi si ss sq st sm q j]. cbn in Hf, Hi, Hs, Hc.
    set (nv := mkV a role status stake token payload (v_deleted ov)).
    assert (Hset : set (set va a nv) (v_addr ov) ov = va).
    { rewrite Ha, set_set. now apply set_same_id. }
    assert (Hidx : add (add vi a) (v_addr ov) = vi).
    { rewrite Ha, (add_mem_id _ _ Hi). now apply add_mem_id. }
    unfold update_validator.
    destruct (stake_equal nv ov) eqn:Hse.
    + eapply vext_one with (e := EValUpdate a ov nv); [reflexivity | cbn; rewrite find_set_same, Hse; reflexivity |].
      unfold veq; cbn. rewrite Hset, Hidx, d_dec_inc, journal_eta. repeat split; reflexivity.
    + eapply vext_one with (e := EValUpdate a ov nv); [reflexivity | cbn; rewrite find_set_same, Hse; reflexivity |].
      unfold veq; cbn. rewrite Hset, Hidx, d_dec_inc, journal_eta.
      rewrite (stat_sub_add nv) by (apply stat_sub_ok; exact Hs).
      rewrite (stat_add_sub ov _ Hs Hc). repeat split; reflexivity.
  - rewrite H. cbn. apply vext_refl.
Qed.

Lemma q_delete_last_snoc : forall q r, q_delete_last (q ++ [r]) r = Some q.
Proof.
  induction q as [|x q IH]; intros r; cbn.
  - unfold w_match. now rewrite !N.eqb_refl.
  - now rewrite IH.
Qed.

Lemma op_add_withdraw : forall fx v r, vext fx v (add_withdraw v r).
Proof.
  intros fx v r. unfold add_withdraw.
  eapply vext_one with (e := EValAddUBD r); [reflexivity | |].
  - cbn. destruct (queue v ++ [r]) eqn:E; [destruct (queue v); discriminate|].
    rewrite <- E, q_delete_last_snoc. reflexivity.
  - cbn. rewrite journal_eta. unfold veq; cbn. repeat split; auto.
Qed.

(* ======================================================================= *)
(* The code since fix fe4c1ff (fx = true): RemoveValidator and
   RemoveWithdrawRecords are undone exactly as well.                        *)

Definition remove_ok (fx : fixes) (v : vside) (a : N) : Prop :=
  match find (vals v) a with
  | Some x => (f_remove fx = true /\ v_deleted x = true) \/     (* refused since fix 464c034 *)
              (v_addr x = a /\ mem (vindex v) a = true /\ (f_remove fx = true -> asc (vindex v)) /\
               stat_ok (stat v) /\ covers (stat v) x)
  | None => True
  end.

Lemma op_remove_validator_fixed : forall fx v a,
  f_journal fx = true -> remove_ok fx v a -> vext fx v (fst (remove_validator fx v a)).
Proof.
  intros fx v a Hfx H. unfold remove_validator, remove_ok in *. rewrite Hfx.
  destruct (find (vals v) a) as [x|] eqn:Hf; [|cbn; apply vext_refl].
  destruct H as [(Hr & Hd)|(Ha & Hi & Hasc & Hs & Hc)].
  { rewrite Hr, Hd. cbn. apply vext_refl. }
  destruct (f_remove fx && v_deleted x) eqn:Hrd; [cbn; apply vext_refl|]. cbn [fst].
  destruct v as [va vt vd vi si ss sq st sm q j]. cbn in Hf, Hi, Hs, Hc, Hasc.
  assert (Hset : set (set va a (set_v_deleted true x)) (v_addr x) x = va).
  { rewrite Ha, set_set. now apply set_same_id. }
  assert (Hidx : add (if f_remove fx then rem vi a else vi) (v_addr x) = vi).
  { rewrite Ha. destruct (f_remove fx); [apply add_rem_asc; auto | now apply add_mem_id]. }
  eapply vext_one with (e := EValDelete a x); [reflexivity | cbn; rewrite Hfx; reflexivity |].
  unfold veq; cbn. rewrite Hset, Hidx, d_dec_inc, journal_eta.
  rewrite (stat_add_sub x _ Hs Hc). repeat split; reflexivity.
Qed.

(* ---- lists: removing positions and putting the records back -------------- *)
Fixpoint remove_nth {A} (n : nat) (l : list A) {struct l} : list A :=
  match l with
  | [] => []
  | x :: r => match n with O => r | S n' => x :: remove_nth n' r end
  end.

Lemma ins_at_remove_nth {A} : forall n (l : list A) x, nth_error l n = Some x -> ins_at n x (remove_nth n l) = l.
Proof.
  induction n; destruct l; cbn; intros x H; try discriminate.
  - now inversion H.
  - f_equal. now apply IHn.
Qed.

Lemma nth_error_remove_nth_lt {A} : forall p (l : list A) r, r < p -> nth_error (remove_nth p l) r = nth_error l r.
Proof.
  induction p; intros l r H; [lia|]. destruct l; cbn; [reflexivity|].
  destruct r; cbn; [reflexivity|]. apply IHp. lia.
Qed.

Lemma existsb_eqb_false : forall i idx, (forall x, In x idx -> x < i) -> existsb (Nat.eqb i) idx = false.
Proof.
  intros i idx H. destruct (existsb (Nat.eqb i) idx) eqn:E; [|reflexivity].
  apply existsb_exists in E. destruct E as (x & Hin & He). apply Nat.eqb_eq in He. subst. specialize (H _ Hin). lia.
Qed.

Lemma drop_idx_none {A} : forall (l : list A) idx i, (forall x, In x idx -> x < i) -> drop_idx l idx i = l.
Proof.
  induction l; intros idx i H; cbn; [reflexivity|].
  rewrite (existsb_eqb_false _ _ H). f_equal. apply IHl. intros x Hx. specialize (H _ Hx). lia.
Qed.

Lemma drop_idx_max {A} : forall (l : list A) p rest i,
  (forall x, In x rest -> x < p) -> i <= p ->
  drop_idx l (p :: rest) i = drop_idx (remove_nth (p - i) l) rest i.
Proof.
  induction l; intros p rest i Hr Hi.
  - cbn. reflexivity.
  - cbn [drop_idx existsb]. destruct (Nat.eqb i p) eqn:E.
    + apply Nat.eqb_eq in E. subst i. rewrite Nat.sub_diag. cbn [orb remove_nth].
      rewrite drop_idx_none by (intros x [Hx|Hx]; [subst; lia | specialize (Hr _ Hx); lia]).
      now rewrite drop_idx_none by exact Hr.
    + apply Nat.eqb_neq in E. cbn [orb].
      replace (p - i) with (S (p - S i)) by lia. cbn [remove_nth drop_idx].
      rewrite (IHl p rest (S i)) by (auto; lia). reflexivity.
Qed.

Lemma drop_idx_ext {A} : forall (l : list A) idx1 idx2 i,
  (forall x, In x idx1 <-> In x idx2) -> drop_idx l idx1 i = drop_idx l idx2 i.
Proof.
  induction l; intros idx1 idx2 i H; cbn; [reflexivity|].
  assert (E : existsb (Nat.eqb i) idx1 = existsb (Nat.eqb i) idx2).
  { destruct (existsb (Nat.eqb i) idx1) eqn:E1; symmetry.
    - apply existsb_exists in E1. destruct E1 as (x & Hx & He). apply existsb_exists. exists x. split; [now apply H | exact He].
    - destruct (existsb (Nat.eqb i) idx2) eqn:E2; [|reflexivity].
      apply existsb_exists in E2. destruct E2 as (x & Hx & He).
      assert (existsb (Nat.eqb i) idx1 = true) by (apply existsb_exists; exists x; split; [now apply H | exact He]). congruence. }
  rewrite E. destruct (existsb (Nat.eqb i) idx2); [|f_equal]; now apply IHl.
Qed.

(* strictly descending *)
Fixpoint sdesc (l : list nat) : Prop :=
  match l with [] => True | p :: r => (forall x, In x r -> x < p) /\ sdesc r end.

Lemma insert_desc_in : forall p l x, In x (insert_desc p l) <-> x = p \/ In x l.
Proof.
  induction l as [|y r IH]; intros x; cbn.
  - intuition.
  - destruct (Nat.leb y p); cbn; [intuition|]. rewrite IH. intuition.
Qed.
Lemma insert_desc_sdesc : forall p l, sdesc l -> ~ In p l -> sdesc (insert_desc p l).
Proof.
  induction l as [|y r IH]; intros Hs Hn; cbn.
  - split; [intros x []|exact I].
  - destruct Hs as [Hy Hr]. destruct (Nat.leb y p) eqn:E.
    + apply Nat.leb_le in E. assert (y < p) by (cbn in Hn; lia).
      split; [|split; auto]. intros x [Hx|Hx]; [subst; lia | specialize (Hy _ Hx); lia].
    + apply Nat.leb_gt in E. split.
      * intros x Hx. apply insert_desc_in in Hx. destruct Hx as [->|Hx]; [lia | now apply Hy].
      * apply IH; auto. intro Hin. apply Hn. now right.
Qed.
Lemma sort_desc_in : forall l x, In x (sort_desc l) <-> In x l.
Proof.
  induction l as [|y r IH]; intros x; cbn; [tauto|]. rewrite insert_desc_in, IH. intuition.
Qed.
Lemma sort_desc_sdesc : forall l, NoDup l -> sdesc (sort_desc l).
Proof.
  induction l as [|y r IH]; intros H; cbn; [exact I|]. inversion H; subst.
  apply insert_desc_sdesc; auto. now rewrite sort_desc_in.
Qed.

Lemma nths_remove_nth {A} : forall (q : list A) p rest, (forall x, In x rest -> x < p) -> nths (remove_nth p q) rest = nths q rest.
Proof.
  induction rest as [|r rest IH]; intros H; cbn; [reflexivity|].
  rewrite nth_error_remove_nth_lt by (apply H; now left). rewrite IH by (intros x Hx; apply H; now right). reflexivity.
Qed.

Definition reins {A} (l : list A) (rp : A * nat) : list A := ins_at (snd rp) (fst rp) l.

Lemma reinsert_all {A} : forall P (q : list A) recs,
  sdesc P -> nths q P = Some recs ->
  fold_left reins (rev (combine recs P)) (drop_idx q P 0) = q.
Proof.
  induction P as [|p rest IH]; intros q recs Hs Hn; cbn in Hn.
  - inversion Hn; subst. cbn. now apply drop_idx_none.
  - destruct Hs as [Hp Hr].
    destruct (nth_error q p) as [x|] eqn:Ex; [|discriminate].
    destruct (nths q rest) as [xs|] eqn:Exs; [|discriminate]. inversion Hn; subst recs. clear Hn.
    cbn [combine rev]. rewrite fold_left_app. cbn [fold_left]. unfold reins at 1. cbn [fst snd].
    rewrite (drop_idx_max q p rest 0 Hp) by lia. rewrite Nat.sub_0_r.
    rewrite (IH (remove_nth p q) xs Hr) by (rewrite nths_remove_nth; auto).
    now apply ins_at_remove_nth.
Qed.

(* ---- the journal side ---------------------------------------------------- *)
Definition dw_entry (rp : wrec * nat) : ventry := EValDelWithdraw (fst rp) (snd rp).

Lemma fold_dw_append : forall l v,
  let b := fold_left (fun acc rp => v_append (dw_entry rp) acc) l v in
  j_entries (vjr b) = rev (map dw_entry l) ++ j_entries (vjr v) /\ j_dirties (vjr b) = j_dirties (vjr v) /\
  vals b = vals v /\ vtrie b = vtrie v /\ vdirty b = vdirty v /\ vindex b = vindex v /\ sv_index b = sv_index v /\
  sv_stat b = sv_stat v /\ sv_queue b = sv_queue v /\ stat b = stat v /\ stat_mod b = stat_mod v /\ queue b = queue v.
Proof.
  induction l as [|rp l IH]; intros v; cbn.
  - repeat split; reflexivity.
  - specialize (IH (v_append (dw_entry rp) v)). cbn in IH. destruct IH as (E & D & R).
    rewrite E, D. cbn. rewrite <- app_assoc. cbn. repeat split; try reflexivity; apply R.
Qed.

Lemma v_revert_dw : forall fx l v old,
  f_journal fx = true ->
  j_entries (vjr v) = map dw_entry l ++ old ->
  exists b, v_revert fx (length l) v = Some b /\
            j_entries (vjr b) = old /\ j_dirties (vjr b) = j_dirties (vjr v) /\
            queue b = fold_left reins l (queue v) /\
            vals b = vals v /\ vtrie b = vtrie v /\ vdirty b = vdirty v /\ vindex b = vindex v /\ sv_index b = sv_index v /\
            sv_stat b = sv_stat v /\ sv_queue b = sv_queue v /\ stat b = stat v.
Proof.
  intros fx l v old Hfx. revert v. induction l as [|rp l IH]; intros v He; cbn in *.
  - exists v. repeat split; auto.
  - rewrite He. cbn. rewrite Hfx.
    set (v1 := set_vjr (mkJ (map dw_entry l ++ old) (j_dirties (vjr (set_queue (ins_at (snd rp) (fst rp) (queue v)) v))))
                       (set_queue (ins_at (snd rp) (fst rp) (queue v)) v)).
    destruct (IH v1 eq_refl) as (b & Hb & E1 & E2 & E3 & R).
    exists b. split; [exact Hb|]. cbn in *. repeat split; try tauto; try apply R.
Qed.

Lemma op_remove_withdraws_fixed : forall fx v idx b,
  f_journal fx = true -> NoDup idx -> remove_withdraws fx v idx = Some b -> vext fx v b.
Proof.
  intros fx v idx b Hfx Hnd H. unfold remove_withdraws in H. rewrite Hfx in H. cbn in H.
  destruct (nths (queue v) (sort_desc idx)) as [removed|] eqn:En; [|discriminate]. inversion H; subst b. clear H.
  set (P := sort_desc idx) in *. set (l := combine removed P).
  set (v0 := set_queue (drop_idx (queue v) idx 0) v).
  pose proof (fold_dw_append l v0) as Hf. cbn zeta in Hf.
  change (fun acc rp => v_append (EValDelWithdraw (fst rp) (snd rp)) acc) with (fun acc rp => v_append (dw_entry rp) acc).
  set (b := fold_left (fun acc rp => v_append (dw_entry rp) acc) l v0) in *.
  destruct Hf as (E & D & F1 & F2 & F3 & F4 & F5 & F6 & F7 & F8 & F9 & F10).
  rewrite <- map_rev in E.
  destruct (v_revert_dw fx (rev l) b (j_entries (vjr v0)) Hfx E) as (c & Hc & C1 & C2 & C3 & G1 & G2 & G3 & G4 & G5 & G6 & G7 & G8).
  exists (length l), c. unfold vlen. split; [|split].
  - rewrite E, app_length, map_length, rev_length. reflexivity.
  - rewrite <- (rev_length l). exact Hc.
  - unfold veq. rewrite G1, G2, G3, G4, G5, G6, G7, G8, F1, F2, F3, F4, F5, F6, F7, F8, C3, F10.
    unfold v0; cbn. repeat split; try reflexivity.
    + unfold l. rewrite (drop_idx_ext (queue v) idx P 0) by (intros x; unfold P; now rewrite sort_desc_in).
      apply reinsert_all; [apply sort_desc_sdesc; exact Hnd | exact En].
    + destruct (vjr c) as [ce cd] eqn:Ej. cbn in C1, C2. subst ce cd. rewrite D. unfold v0. cbn. apply journal_eta.
Qed.

(* ---- Finalise / IntermediateRoot respect veq ------------------------------ *)
Lemma veq_destruct : forall v1 v2, veq v1 v2 -> exists m, v2 =
  mkVS (vals v1) (vtrie v1) (vdirty v1) (vindex v1) (sv_index v1) (sv_stat v1) (sv_queue v1) (stat v1) m (queue v1) (vjr v1).
Proof. intros v1 v2 H. exists (stat_mod v2). now apply veq_inv. Qed.

Lemma fold_veq {A} : forall (f : vside -> A -> vside) l v1 v2,
  (forall x b1 b2, veq b1 b2 -> veq (f b1 x) (f b2 x)) -> veq v1 v2 -> veq (fold_left f l v1) (fold_left f l v2).
Proof. induction l; intros; cbn; auto. Qed.

Lemma v_finalise_veq : forall v1 v2, veq v1 v2 -> veq (v_finalise v1) (v_finalise v2).
Proof.
  intros v1 v2 H. unfold v_finalise.
  assert (Hj : vjr v1 = vjr v2) by (unfold veq in H; tauto). rewrite Hj.
  apply veq_set_vjr. apply fold_veq; auto.
  intros x b1 b2 Hb. destruct (veq_destruct _ _ Hb) as (m & ->).
  destruct b1 as [va vt vd vi si ss sq st sm q j]; cbn.
  destruct (find va x); unfold veq; cbn; intuition.
Qed.

Lemma v_flush_one_veq : forall fx d x b1 b2, veq b1 b2 -> veq (v_flush_one fx d b1 x) (v_flush_one fx d b2 x).
Proof.
  intros fx d x b1 b2 Hb. destruct (veq_destruct _ _ Hb) as (m & ->).
  destruct b1 as [va vt vd vi si ss sq st sm q j]; unfold v_flush_one; cbn.
  destruct (find va x) as [y|]; [|unfold veq; cbn; intuition].
  destruct (v_deleted y || d && is_invalid y); [destruct (f_remove fx && v_deleted y)|]; unfold veq; cbn; intuition.
Qed.

Lemma v_intermediate_root_veq : forall fx d v1 v2, veq v1 v2 -> veq (v_intermediate_root fx d v1) (v_intermediate_root fx d v2).
Proof.
  intros fx d v1 v2 H. unfold v_intermediate_root.
  pose proof (v_finalise_veq _ _ H) as Hf.
  assert (Hd : vdirty (v_finalise v1) = vdirty (v_finalise v2)) by (unfold veq in Hf; tauto). rewrite Hd.
  assert (Hg : veq (fold_left (v_flush_one fx d) (vdirty (v_finalise v2)) (v_finalise v1))
                   (fold_left (v_flush_one fx d) (vdirty (v_finalise v2)) (v_finalise v2)))
    by (apply fold_veq; auto using v_flush_one_veq).
  destruct (veq_destruct _ _ Hg) as (m & ->).
  destruct (fold_left (v_flush_one fx d) (vdirty (v_finalise v2)) (v_finalise v1)); unfold veq; cbn; intuition.
Qed.
