(* C09 - account side: every journalled mutation is undone by the revert of its
   own journal entries, up to the equivalence [aeq] (equal except that a dirty
   storage map may hold an entry equal to the value below it). *)
From VF.C09 Require Import Model ProofsMaps.
From Coq Require Import Lia ZifyBool ZifyN ZifyNat.

(* ---- equivalence of objects: the three storage views and all scalars ---- *)
Definition obj_sim (o1 o2 : obj) : Prop :=
  o_nonce o1 = o_nonce o2 /\ o_balance o1 = o_balance o2 /\ o_code o1 = o_code o2 /\
  o_suicided o1 = o_suicided o2 /\ o_deleted o1 = o_deleted o2 /\
  o_dlgbal o1 = o_dlgbal o2 /\ o_dlgs o1 = o_dlgs o2 /\
  (forall k, get_state o1 k = get_state o2 k) /\
  (forall k, get_committed o1 k = get_committed o2 k) /\
  (forall k, slot (o_commit o1) k = slot (o_commit o2) k).

Lemma obj_sim_refl : forall o, obj_sim o o.
Proof. unfold obj_sim; intuition. Qed.
Lemma obj_sim_sym : forall o1 o2, obj_sim o1 o2 -> obj_sim o2 o1.
Proof. unfold obj_sim; intuition; symmetry; auto. Qed.
Lemma obj_sim_trans : forall o1 o2 o3, obj_sim o1 o2 -> obj_sim o2 o3 -> obj_sim o1 o3.
Proof. unfold obj_sim; intuition; etransitivity; eauto. Qed.

Definition pair_sim (p q : N * obj) : Prop := fst p = fst q /\ obj_sim (snd p) (snd q).
Definition objs_sim (m1 m2 : list (N * obj)) : Prop := Forall2 pair_sim m1 m2.

Lemma objs_sim_refl : forall m, objs_sim m m.
Proof. induction m; constructor; auto. split; auto using obj_sim_refl. Qed.
Lemma objs_sim_sym : forall m1 m2, objs_sim m1 m2 -> objs_sim m2 m1.
Proof.
  induction 1; constructor; auto. destruct H; split; auto using obj_sim_sym.
Qed.
Lemma objs_sim_trans : forall m1 m2 m3, objs_sim m1 m2 -> objs_sim m2 m3 -> objs_sim m1 m3.
Proof.
  intros m1 m2 m3 H; revert m3; induction H as [|p q r1 r2 Hpq Hr IH]; intros m3 H3;
    inversion H3 as [|q' s r2' r3 Hqs Hr3]; subst; constructor.
  - destruct Hpq, Hqs; split; [congruence | eauto using obj_sim_trans].
  - apply IH. exact Hr3.
Qed.

Definition opt_sim (x y : option obj) : Prop :=
  match x, y with Some o1, Some o2 => obj_sim o1 o2 | None, None => True | _, _ => False end.

Lemma objs_sim_find : forall m1 m2 k, objs_sim m1 m2 -> opt_sim (find m1 k) (find m2 k).
Proof.
  induction 1 as [|[k1 o1] [k2 o2] r1 r2 [Hk Ho] Hr IH]; cbn in *; auto. subst k2.
  destruct (N.eqb k1 k); auto.
Qed.

Lemma objs_sim_set : forall m1 m2 k o1 o2,
  objs_sim m1 m2 -> obj_sim o1 o2 -> objs_sim (set m1 k o1) (set m2 k o2).
Proof.
  unfold objs_sim.
  induction 1 as [|[k1 p1] [k2 p2] r1 r2 [Hk Ho] Hr IH]; intros Hs; cbn in *.
  - constructor; [split; cbn; auto | constructor].
  - subst k2. destruct (N.eqb k1 k); constructor; auto; split; cbn; auto.
Qed.

Lemma objs_sim_del : forall m1 m2 k, objs_sim m1 m2 -> objs_sim (del m1 k) (del m2 k).
Proof.
  unfold objs_sim.
  induction 1 as [|[k1 p1] [k2 p2] r1 r2 [Hk Ho] Hr IH]; cbn in *; [constructor|].
  subst k2. destruct (N.eqb k1 k); auto. constructor; auto. split; cbn; auto.
Qed.

(* ---- equivalence of account sides ---- *)
Definition aeq (a1 a2 : aside) : Prop :=
  objs_sim (objs a1) (objs a2) /\ pending a1 = pending a2 /\ sdirty a1 = sdirty a2 /\
  objs_sim (atrie a1) (atrie a2) /\ refund a1 = refund a2 /\ thash a1 = thash a2 /\
  txindex a1 = txindex a2 /\ logs a1 = logs a2 /\ logsize a1 = logsize a2 /\
  preimages a1 = preimages a2 /\ jr a1 = jr a2.

Lemma aeq_refl : forall a, aeq a a.
Proof. unfold aeq; intuition auto using objs_sim_refl. Qed.
Lemma aeq_sym : forall a b, aeq a b -> aeq b a.
Proof. unfold aeq; intuition auto using objs_sim_sym. Qed.
Lemma aeq_trans : forall a b c, aeq a b -> aeq b c -> aeq a c.
Proof. unfold aeq; intuition (try congruence); eauto using objs_sim_trans. Qed.

Lemma get_obj_sim : forall a1 a2 ad, aeq a1 a2 -> opt_sim (get_obj a1 ad) (get_obj a2 ad).
Proof.
  intros a1 a2 ad H. unfold get_obj. destruct H as [Ho _].
  pose proof (objs_sim_find _ _ ad Ho) as Hf.
  destruct (find (objs a1) ad) as [o1|], (find (objs a2) ad) as [o2|]; cbn in *; try tauto.
  assert (o_deleted o1 = o_deleted o2) as -> by (unfold obj_sim in Hf; tauto).
  destruct (o_deleted o2); cbn; auto.
Qed.

Lemma upd_obj_sim : forall a1 a2 ad f,
  aeq a1 a2 -> (forall o1 o2, obj_sim o1 o2 -> obj_sim (f o1) (f o2)) ->
  aeq (upd_obj a1 ad f) (upd_obj a2 ad f).
Proof.
  intros a1 a2 ad f H Hf. unfold upd_obj.
  pose proof (objs_sim_find _ _ ad (proj1 H)) as Hfd.
  destruct (find (objs a1) ad) as [o1|], (find (objs a2) ad) as [o2|]; cbn in Hfd; try tauto.
  unfold aeq in *; cbn; intuition auto using objs_sim_set.
Qed.

(* the field setters respect obj_sim *)
Ltac sim_scalar := unfold obj_sim, get_state, get_committed; cbn; intuition.
Lemma sim_set_balance : forall v o1 o2, obj_sim o1 o2 -> obj_sim (set_o_balance v o1) (set_o_balance v o2).
Proof. sim_scalar. Qed.
Lemma sim_set_nonce : forall v o1 o2, obj_sim o1 o2 -> obj_sim (set_o_nonce v o1) (set_o_nonce v o2).
Proof. sim_scalar. Qed.
Lemma sim_set_code : forall v o1 o2, obj_sim o1 o2 -> obj_sim (set_o_code v o1) (set_o_code v o2).
Proof. sim_scalar. Qed.
Lemma sim_set_dlgbal : forall v o1 o2, obj_sim o1 o2 -> obj_sim (set_o_dlgbal v o1) (set_o_dlgbal v o2).
Proof. sim_scalar. Qed.
Lemma sim_set_dlgs : forall v o1 o2, obj_sim o1 o2 -> obj_sim (set_o_dlgs v o1) (set_o_dlgs v o2).
Proof. sim_scalar. Qed.
Lemma sim_set_suicide : forall p pb o1 o2, obj_sim o1 o2 ->
  obj_sim (set_o_balance pb (set_o_suicided p o1)) (set_o_balance pb (set_o_suicided p o2)).
Proof. sim_scalar. Qed.
Lemma sim_set_dirty : forall k p o1 o2, obj_sim o1 o2 ->
  obj_sim (set_o_dirty (set (o_dirty o1) k p) o1) (set_o_dirty (set (o_dirty o2) k p) o2).
Proof.
  unfold obj_sim, get_state, get_committed; cbn; intros k p o1 o2 H.
  decompose [and] H; clear H. repeat split; auto.
  intros k'. rewrite !find_set. destruct (N.eqb k k'); auto.
Qed.

(* ---- congruence of the journal revert ---- *)
Lemma revert_field_sim : forall a1 a2 ad f b1 (none_ok : bool),
  aeq a1 a2 -> (forall o1 o2, obj_sim o1 o2 -> obj_sim (f o1) (f o2)) ->
  match get_obj a1 ad with Some _ => Some (upd_obj a1 ad f) | None => if none_ok then Some a1 else None end = Some b1 ->
  exists b2, match get_obj a2 ad with Some _ => Some (upd_obj a2 ad f) | None => if none_ok then Some a2 else None end = Some b2
             /\ aeq b1 b2.
Proof.
  intros a1 a2 ad f b1 none_ok H Hf Hr.
  pose proof (get_obj_sim _ _ ad H) as Hg.
  destruct (get_obj a1 ad) as [x1|], (get_obj a2 ad) as [x2|]; cbn in Hg; try tauto.
  - inversion Hr; subst. eexists; split; [reflexivity|]. now apply upd_obj_sim.
  - destruct none_ok; [|discriminate]. inversion Hr; subst. eauto.
Qed.

Lemma a_entry_revert_sim : forall e a1 a2 b1,
  aeq a1 a2 -> a_entry_revert e a1 = Some b1 -> exists b2, a_entry_revert e a2 = Some b2 /\ aeq b1 b2.
Proof.
  intros e a1 a2 b1 H Hr.
  pose proof H as (Ho & Hp & Hsd & Hat & Hrf & Hth & Htx & Hlg & Hls & Hpre & Hjr).
  destruct e; cbn in *.
  - (* create object *)
    inversion Hr; subst. eexists; split; [reflexivity|].
    unfold aeq; cbn. rewrite Hsd. intuition auto using objs_sim_del.
  - (* reset object *)
    inversion Hr; subst. eexists; split; [reflexivity|].
    unfold aeq; cbn. intuition auto using objs_sim_set, obj_sim_refl.
  - eapply (revert_field_sim a1 a2 a _ b1 true); eauto using sim_set_suicide.
  - eapply (revert_field_sim a1 a2 a _ b1 false); eauto using sim_set_balance.
  - eapply (revert_field_sim a1 a2 a _ b1 false); eauto using sim_set_nonce.
  - eapply (revert_field_sim a1 a2 a _ b1 false); eauto using sim_set_dirty.
  - eapply (revert_field_sim a1 a2 a _ b1 false); eauto using sim_set_code.
  - eapply (revert_field_sim a1 a2 a _ b1 false); eauto using sim_set_dlgbal.
  - eapply (revert_field_sim a1 a2 a _ b1 false); eauto using sim_set_dlgs.
  - (* refund *)
    inversion Hr; subst. eexists; split; [reflexivity|]. unfold aeq; cbn; intuition.
  - (* add log *)
    unfold loglist in *. rewrite <- Hlg.
    destruct (find (logs a1) th) as [[|l0 [|l1 lr]]|]; try discriminate;
      inversion Hr; subst; eexists; (split; [reflexivity|]); unfold aeq; cbn; rewrite <- ?Hlg, <- ?Hls; intuition.
  - (* preimage *)
    inversion Hr; subst. eexists; split; [reflexivity|]. unfold aeq; cbn; rewrite Hpre; intuition.
  - (* touch *)
    inversion Hr; subst. eexists; split; [reflexivity|]. assumption.
Qed.

Lemma aeq_set_jr : forall a1 a2 j, aeq a1 a2 -> aeq (set_jr j a1) (set_jr j a2).
Proof. unfold aeq; cbn; intuition. Qed.

Lemma a_revert_sim : forall n a1 a2 b1,
  aeq a1 a2 -> a_revert n a1 = Some b1 -> exists b2, a_revert n a2 = Some b2 /\ aeq b1 b2.
Proof.
  induction n as [|n IH]; intros a1 a2 b1 H Hr; cbn in *.
  - inversion Hr; subst. eauto.
  - assert (Hj : jr a1 = jr a2) by (unfold aeq in H; tauto). rewrite <- Hj.
    destruct (j_entries (jr a1)) as [|e rest]; [discriminate|].
    destruct (a_entry_revert e a1) as [c1|] eqn:E1; [|discriminate].
    destruct (a_entry_revert_sim _ _ _ _ H E1) as (c2 & E2 & Hc). rewrite E2.
    assert (Hjc : jr c1 = jr c2) by (unfold aeq in Hc; tauto). rewrite <- Hjc.
    eapply IH; [|exact Hr]. now apply aeq_set_jr.
Qed.

(* ---- arithmetic of journal.revert ---- *)
Lemma a_revert_add : forall n m a,
  a_revert (n + m) a = match a_revert n a with Some b => a_revert m b | None => None end.
Proof.
  induction n as [|n IH]; intros m a; cbn; [reflexivity|].
  destruct (j_entries (jr a)); [reflexivity|].
  destruct (a_entry_revert a0 a); [|reflexivity]. apply IH.
Qed.

Lemma a_revert_len : forall n a b,
  a_revert n a = Some b -> length (j_entries (jr a)) = n + length (j_entries (jr b)).
Proof.
  induction n as [|n IH]; intros a b H; cbn in *.
  - now inversion H.
  - destruct (j_entries (jr a)) as [|e rest] eqn:E; [discriminate|].
    destruct (a_entry_revert e a) as [c|]; [|discriminate].
    apply IH in H. cbn in H. cbn. lia.
Qed.

Definition alen (a : aside) : nat := length (j_entries (jr a)).

(* [aext a0 a]: a was reached from a0 by journalled changes only; undoing the
   entries added since gives back a0 (up to aeq) *)
Definition aext (a0 a : aside) : Prop :=
  exists k a1, alen a = k + alen a0 /\ a_revert k a = Some a1 /\ aeq a1 a0.

Lemma aext_refl : forall a, aext a a.
Proof. intros a. exists 0, a. cbn. auto using aeq_refl. Qed.

Lemma aext_trans : forall a b c, aext a b -> aext b c -> aext a c.
Proof.
  intros a b c (k1 & b1 & L1 & R1 & E1) (k2 & c1 & L2 & R2 & E2).
  destruct (a_revert_sim _ _ _ _ (aeq_sym _ _ E2) R1) as (c2 & R3 & E3).
  exists (k2 + k1), c2. unfold alen in *. split; [lia|]. split.
  - rewrite a_revert_add, R2. exact R3.
  - eapply aeq_trans; [apply aeq_sym; exact E3 | exact E1].
Qed.

(* an inner revert that stays above the base *)
Lemma aext_revert : forall a0 a m b,
  aext a0 a -> a_revert m a = Some b -> alen a0 <= alen b -> aext a0 b.
Proof.
  intros a0 a m b (k & a1 & L & R & E) Hm Hle.
  pose proof (a_revert_len _ _ _ Hm) as Lm. unfold alen in *.
  exists (k - m), a1. unfold alen. split; [lia|]. split; [|exact E].
  replace k with (m + (k - m)) in R by lia. rewrite a_revert_add, Hm in R. exact R.
Qed.

(* ---- well-formedness needed by the single-entry lemmas ---- *)
Definition awf (a : aside) : Prop :=
  (forall x, mem (sdirty a) x = true -> find (objs a) x <> None) /\
  (forall th l, find (logs a) th = Some l -> l <> []).

(* a change that appended exactly one entry and whose entry revert gives back the start *)
Lemma aext_one : forall a b e b1,
  j_entries (jr b) = e :: j_entries (jr a) ->
  a_entry_revert e b = Some b1 ->
  aeq (set_jr (mkJ (j_entries (jr a))
                   (match a_dirtied e with Some x => d_dec (j_dirties (jr b1)) x | None => j_dirties (jr b1) end)) b1) a ->
  aext a b.
Proof.
  intros a b e b1 He Hr Heq. eexists 1, _. unfold alen. rewrite He. split; [reflexivity|]. split; [|exact Heq].
  cbn. rewrite He, Hr. reflexivity.
Qed.

Lemma aside_eta : forall a, mkA (objs a) (pending a) (sdirty a) (atrie a) (refund a) (thash a) (txindex a) (logs a) (logsize a) (preimages a) (jr a) = a.
Proof. now destruct a. Qed.

(* a live, not deleted object at ad *)
Definition live (a : aside) (ad : N) : Prop := exists o, find (objs a) ad = Some o /\ o_deleted o = false.

Lemma live_get_obj : forall a ad, live a ad -> exists o, find (objs a) ad = Some o /\ get_obj a ad = Some o.
Proof. intros a ad (o & Hf & Hd). exists o. unfold get_obj. now rewrite Hf, Hd. Qed.

(* generic single-field step: journal the entry e, apply f to the object; the
   entry's revert applies g; g (f o) = o on every field but possibly o_dirty *)
Lemma aext_field : forall a ad o e f g,
  find (objs a) ad = Some o -> o_deleted o = false -> a_dirtied e = Some ad ->
  (forall b, live b ad -> a_entry_revert e b = Some (upd_obj b ad g)) ->
  o_deleted (f o) = false ->
  obj_sim (g (f o)) o ->
  aext a (upd_obj (a_append e a) ad f).
Proof.
  intros a ad o e f g Hf Hdl Hd Hrev Hdel Hgf.
  set (b := upd_obj (a_append e a) ad f).
  assert (Hb : b = set_objs (set (objs a) ad (f o)) (a_append e a)).
  { unfold b, upd_obj. cbn. now rewrite Hf. }
  assert (Hlb : live b ad).
  { exists (f o). rewrite Hb. cbn. rewrite find_set_same. split; auto. }
  eapply aext_one with (e := e) (b1 := upd_obj b ad g).
  - rewrite Hb. reflexivity.
  - now apply Hrev.
  - assert (Hu : upd_obj b ad g = set_objs (set (objs a) ad (g (f o))) (a_append e a)).
    { unfold upd_obj. rewrite Hb. cbn. rewrite find_set_same. cbn. now rewrite set_set. }
    rewrite Hu, Hd. unfold a_append, j_append. cbn. rewrite Hd, d_dec_inc.
    unfold aeq; cbn. repeat split; auto using objs_sim_refl.
    + clear - Hf Hgf. revert Hf. generalize (objs a) as m.
      induction m as [|[k p] r IH]; intros Hfd; cbn in *; [discriminate|].
      destruct (N.eqb k ad) eqn:E.
      * inversion Hfd; subst. apply N.eqb_eq in E; subst. constructor; [split; cbn; auto | apply objs_sim_refl].
      * constructor; [split; auto using obj_sim_refl | apply IH; exact Hfd].
    + now rewrite journal_eta.
Qed.

Lemma live_upd : forall a ad ad' f, (forall o, o_deleted (f o) = o_deleted o) -> live a ad' -> live (upd_obj a ad f) ad'.
Proof.
  intros a ad ad' f Hd (o & Hf & Ho). unfold upd_obj.
  destruct (find (objs a) ad) as [x|] eqn:E; [|exists o; auto].
  unfold live. cbn. rewrite find_set. destruct (N.eqb ad ad') eqn:E2.
  - apply N.eqb_eq in E2; subst. rewrite E in Hf; inversion Hf; subst. eexists; split; [reflexivity|]. now rewrite Hd.
  - eauto.
Qed.
Lemma live_append : forall a e ad, live a ad -> live (a_append e a) ad.
Proof. intros a e ad H. exact H. Qed.

Lemma awf_upd : forall a ad f, awf a -> awf (upd_obj a ad f).
Proof.
  intros a ad f [H1 H2]. unfold upd_obj. destruct (find (objs a) ad) eqn:E; [|split; auto].
  split; cbn; auto. intros x Hx. rewrite find_set. destruct (N.eqb ad x); [discriminate|]. auto.
Qed.
Lemma awf_append : forall a e, awf a -> awf (a_append e a).
Proof. intros a e H. exact H. Qed.

(* ---- the journalled primitives --------------------------------------- *)

Lemma awf_mem_absent : forall a ad, awf a -> find (objs a) ad = None -> mem (sdirty a) ad = false.
Proof.
  intros a ad [H _] Hf. destruct (mem (sdirty a) ad) eqn:E; auto. exfalso. now apply (H ad E).
Qed.

Lemma step_create_object : forall a ad,
  awf a ->
  aext a (fst (create_object a ad)) /\ awf (fst (create_object a ad)) /\
  find (objs (fst (create_object a ad))) ad = Some new_obj /\
  (forall x, x <> ad -> find (objs (fst (create_object a ad))) x = find (objs a) x).
Proof.
  intros a ad Hw. unfold create_object. cbn.
  destruct (find (objs a) ad) as [p|] eqn:Hf.
  - (* reset object *)
    repeat split.
    + eapply aext_one with (e := EResetObject ad p); [reflexivity | reflexivity |].
      cbn. rewrite set_set, (set_same_id _ _ _ Hf). unfold aeq; cbn.
      rewrite journal_eta. repeat split; auto using objs_sim_refl.
    + cbn. intros x Hx. rewrite find_set. destruct (N.eqb ad x); [discriminate|]. now apply (proj1 Hw).
    + apply (proj2 Hw).
    + cbn. apply find_set_same.
    + intros x Hx. cbn. now apply find_set_other.
  - (* create object *)
    repeat split.
    + eapply aext_one with (e := ECreateObject ad); [reflexivity | reflexivity |].
      cbn. rewrite (del_set_absent _ _ _ Hf), (rem_absent _ _ (awf_mem_absent _ _ Hw Hf)), d_dec_inc.
      unfold aeq; cbn. rewrite journal_eta. repeat split; auto using objs_sim_refl.
    + cbn. intros x Hx. rewrite find_set. destruct (N.eqb ad x); [discriminate|]. now apply (proj1 Hw).
    + apply (proj2 Hw).
    + cbn. apply find_set_same.
    + intros x Hx. cbn. now apply find_set_other.
Qed.

Lemma live_new : forall a ad, find (objs a) ad = Some new_obj -> live a ad.
Proof. intros a ad H. exists new_obj. auto. Qed.

Lemma get_obj_live_iff : forall a ad, (exists o, get_obj a ad = Some o) <-> live a ad.
Proof.
  intros a ad. unfold get_obj, live. split.
  - intros (o & H). destruct (find (objs a) ad) as [x|]; [|discriminate].
    destruct (o_deleted x) eqn:E; [discriminate|]. eauto.
  - intros (o & Hf & Hd). rewrite Hf, Hd. eauto.
Qed.

Lemma step_get_or_new : forall a ad,
  awf a -> aext a (get_or_new a ad) /\ awf (get_or_new a ad) /\ live (get_or_new a ad) ad.
Proof.
  intros a ad Hw. unfold get_or_new.
  destruct (get_obj a ad) as [o|] eqn:E.
  - repeat split; auto using aext_refl; try apply Hw. apply get_obj_live_iff. eauto.
  - destruct (step_create_object a ad Hw) as (H1 & H2 & H3 & _). repeat split; auto; try apply H2. now apply live_new.
Qed.

Lemma step_touch : forall a ad, ad <> ripemd -> aext a (touch a ad).
Proof.
  intros a ad Hne. unfold touch. apply N.eqb_neq in Hne. rewrite Hne.
  eapply aext_one with (e := ETouch ad); [reflexivity | reflexivity |].
  cbn. rewrite d_dec_inc, journal_eta. unfold aeq; cbn. repeat split; auto using objs_sim_refl.
Qed.

Lemma the_obj_find : forall a ad o, find (objs a) ad = Some o -> the_obj a ad = o.
Proof. intros a ad o H. unfold the_obj. now rewrite H. Qed.

Ltac revert_live :=
  let b := fresh "b" in let Hb := fresh "Hb" in
  intros b Hb; cbn; apply get_obj_live_iff in Hb; destruct Hb as (? & ->); reflexivity.
Ltac sim_back o := destruct o; unfold obj_sim, get_state, get_committed; cbn; intuition.

Lemma step_balance : forall a ad v, live a ad -> aext a (so_set_balance a ad v).
Proof.
  intros a ad v (o & Hf & Hd). unfold so_set_balance. rewrite (the_obj_find _ _ _ Hf).
  eapply aext_field with (o := o) (g := set_o_balance (o_balance o)); eauto; [revert_live | sim_back o].
Qed.
Lemma step_nonce : forall a ad n, live a ad ->
  aext a (upd_obj (a_append (ENonce ad (o_nonce (the_obj a ad))) a) ad (set_o_nonce n)).
Proof.
  intros a ad v (o & Hf & Hd). rewrite (the_obj_find _ _ _ Hf).
  eapply aext_field with (o := o) (g := set_o_nonce (o_nonce o)); eauto; [revert_live | sim_back o].
Qed.
Lemma step_code : forall a ad c, live a ad ->
  aext a (upd_obj (a_append (ECode ad (o_code (the_obj a ad))) a) ad (set_o_code c)).
Proof.
  intros a ad v (o & Hf & Hd). rewrite (the_obj_find _ _ _ Hf).
  eapply aext_field with (o := o) (g := set_o_code (o_code o)); eauto; [revert_live | sim_back o].
Qed.
Lemma step_dlgbal : forall a ad v, live a ad ->
  aext a (upd_obj (a_append (EDlgBalance ad (o_dlgbal (the_obj a ad))) a) ad (set_o_dlgbal v)).
Proof.
  intros a ad v (o & Hf & Hd). rewrite (the_obj_find _ _ _ Hf).
  eapply aext_field with (o := o) (g := set_o_dlgbal (o_dlgbal o)); eauto; [revert_live | sim_back o].
Qed.
Lemma step_dlgs : forall a ad l, live a ad -> aext a (so_update_dlgs a ad l).
Proof.
  intros a ad v (o & Hf & Hd). unfold so_update_dlgs. rewrite (the_obj_find _ _ _ Hf).
  eapply aext_field with (o := o) (g := set_o_dlgs (o_dlgs o)); eauto; [revert_live | sim_back o].
Qed.
Lemma step_suicide : forall a ad o, find (objs a) ad = Some o -> o_deleted o = false ->
  aext a (upd_obj (a_append (ESuicide ad (o_suicided o) (o_balance o)) a) ad (fun o => set_o_balance 0 (set_o_suicided true o))).
Proof.
  intros a ad o Hf Hd.
  eapply aext_field with (o := o) (g := fun x => set_o_balance (o_balance o) (set_o_suicided (o_suicided o) x)); eauto;
    [revert_live | sim_back o].
Qed.
Lemma step_storage : forall a ad k v o, find (objs a) ad = Some o -> o_deleted o = false ->
  aext a (upd_obj (a_append (EStorage ad k (get_state o k)) a) ad (fun o => set_o_dirty (set (o_dirty o) k v) o)).
Proof.
  intros a ad k v o Hf Hd.
  eapply aext_field with (o := o) (g := fun x => set_o_dirty (set (o_dirty x) k (get_state o k)) x); eauto; [revert_live|].
  destruct o; unfold obj_sim, get_state, get_committed; cbn. repeat split; auto.
  intros k'. rewrite set_set, find_set. destruct (N.eqb k k') eqn:E; [|reflexivity].
  apply N.eqb_eq in E; subst. reflexivity.
Qed.

Lemma removelast_snoc {A} : forall (l : list A) x, removelast (l ++ [x]) = l.
Proof. intros. rewrite removelast_app by discriminate. cbn. apply app_nil_r. Qed.

Lemma step_add_log : forall a id, awf a -> aext a (add_log a id) /\ awf (add_log a id).
Proof.
  intros a id Hw. unfold add_log. cbn. split.
  - unfold loglist. cbn.
    destruct (find (logs a) (thash a)) as [l|] eqn:Hf.
    + destruct l as [|x0 r]; [exfalso; eapply (proj2 Hw); eauto|].
      set (nl := (id, txindex a, logsize a)).
      assert (Hcase : exists y ys, r ++ [nl] = y :: ys) by (destruct r; cbn; eauto).
      destruct Hcase as (y & ys & Er).
      eapply aext_one with (e := EAddLog (thash a)); [reflexivity | |].
      * cbn. unfold loglist. cbn. rewrite find_set_same. cbn [app]. fold nl. rewrite Er. reflexivity.
      * cbn. rewrite set_set.
        change (x0 :: match ys with [] => [] | _ :: _ => y :: removelast ys end) with (removelast (x0 :: y :: ys)).
        rewrite <- Er. change (x0 :: r ++ [nl]) with ((x0 :: r) ++ [nl]). rewrite removelast_snoc.
        rewrite (set_same_id _ _ _ Hf), journal_eta.
        unfold aeq; cbn. repeat split; auto using objs_sim_refl. lia.
    + eapply aext_one with (e := EAddLog (thash a)); [reflexivity | |].
      * cbn. unfold loglist. cbn. rewrite find_set_same. reflexivity.
      * cbn. rewrite (del_set_absent _ _ _ Hf), journal_eta.
        unfold aeq; cbn. repeat split; auto using objs_sim_refl. lia.
  - split; cbn; [apply Hw|]. intros th l. rewrite find_set.
    destruct (N.eqb (thash a) th); [|apply Hw]. intros H; inversion H.
    intro Hnil. apply app_eq_nil in Hnil. destruct Hnil; discriminate.
Qed.

Lemma step_add_preimage : forall a h id, aext a (add_preimage a h id).
Proof.
  intros a h id. unfold add_preimage. destruct (find (preimages a) h) eqn:Hf; [apply aext_refl|].
  eapply aext_one with (e := EAddPreimage h); [reflexivity | reflexivity |].
  cbn. rewrite (del_set_absent _ _ _ Hf), journal_eta. unfold aeq; cbn. repeat split; auto using objs_sim_refl.
Qed.

Lemma step_add_refund : forall a g, aext a (add_refund a g).
Proof.
  intros a g. unfold add_refund.
  eapply aext_one with (e := ERefund (refund a)); [reflexivity | reflexivity |].
  cbn. rewrite journal_eta. unfold aeq; cbn. repeat split; auto using objs_sim_refl.
Qed.
Lemma step_sub_refund : forall a g b, sub_refund a g = Some b -> aext a b.
Proof.
  intros a g b H. unfold sub_refund in H. cbn in H. destruct (N.ltb (refund a) g); [discriminate|]. inversion H; subst.
  eapply aext_one with (e := ERefund (refund a)); [reflexivity | reflexivity |].
  cbn. rewrite journal_eta. unfold aeq; cbn. repeat split; auto using objs_sim_refl.
Qed.

(* ---- the account operations ------------------------------------------- *)

Lemma awf_touch : forall a ad, awf a -> awf (touch a ad).
Proof. intros a ad H. unfold touch. destruct (N.eqb ad ripemd); exact H. Qed.

Lemma live_find : forall a ad, live a ad -> exists o, find (objs a) ad = Some o /\ o_deleted o = false.
Proof. intros a ad H. exact H. Qed.

Lemma op_add_balance : forall a ad v,
  awf a -> (ad = ripemd -> v <> 0%Z) -> aext a (add_balance a ad v) /\ awf (add_balance a ad v).
Proof.
  intros a ad v Hw Hr. unfold add_balance.
  destruct (step_get_or_new a ad Hw) as (H1 & H2 & H3).
  destruct (Z.eqb v 0) eqn:Ev.
  - destruct (empty_obj (the_obj (get_or_new a ad) ad)); [|auto].
    split; [|now apply awf_touch]. eapply aext_trans; [exact H1|]. apply step_touch.
    intro; subst. apply Z.eqb_eq in Ev. now apply Hr.
  - split; [eapply aext_trans; [exact H1 | now apply step_balance]|].
    unfold so_set_balance. now apply awf_upd.
Qed.

Lemma op_sub_balance : forall a ad v, awf a -> aext a (sub_balance a ad v) /\ awf (sub_balance a ad v).
Proof.
  intros a ad v Hw. unfold sub_balance.
  destruct (step_get_or_new a ad Hw) as (H1 & H2 & H3).
  destruct (Z.eqb v 0); [auto|].
  split; [eapply aext_trans; [exact H1 | now apply step_balance]|]. unfold so_set_balance. now apply awf_upd.
Qed.

Lemma op_set_balance : forall a ad v, awf a -> aext a (set_balance a ad v) /\ awf (set_balance a ad v).
Proof.
  intros a ad v Hw. unfold set_balance.
  destruct (step_get_or_new a ad Hw) as (H1 & H2 & H3).
  split; [eapply aext_trans; [exact H1 | now apply step_balance]|]. unfold so_set_balance. now apply awf_upd.
Qed.

Lemma op_set_nonce : forall a ad n, awf a -> aext a (set_nonce a ad n) /\ awf (set_nonce a ad n).
Proof.
  intros a ad n Hw. unfold set_nonce.
  destruct (step_get_or_new a ad Hw) as (H1 & H2 & H3).
  split; [eapply aext_trans; [exact H1 | now apply step_nonce]|]. now apply awf_upd.
Qed.

Lemma op_set_code : forall a ad c, awf a -> aext a (set_code a ad c) /\ awf (set_code a ad c).
Proof.
  intros a ad c Hw. unfold set_code.
  destruct (step_get_or_new a ad Hw) as (H1 & H2 & H3).
  split; [eapply aext_trans; [exact H1 | now apply step_code]|]. now apply awf_upd.
Qed.

Lemma op_set_state : forall a ad k v, awf a -> aext a (set_state a ad k v) /\ awf (set_state a ad k v).
Proof.
  intros a ad k v Hw. unfold set_state.
  destruct (step_get_or_new a ad Hw) as (H1 & H2 & (o & Hf & Hd)).
  rewrite (the_obj_find _ _ _ Hf).
  destruct (N.eqb (get_state o k) v); [auto|].
  split; [eapply aext_trans; [exact H1 | now apply step_storage]|]. now apply awf_upd.
Qed.

Lemma op_suicide : forall a ad, awf a -> aext a (fst (suicide a ad)) /\ awf (fst (suicide a ad)).
Proof.
  intros a ad Hw. unfold suicide. destruct (get_obj a ad) as [o|] eqn:E; cbn.
  - assert (Hl : live a ad) by (apply get_obj_live_iff; eauto).
    destruct Hl as (o' & Hf & Hd). assert (o' = o).
    { unfold get_obj in E. rewrite Hf, Hd in E. now inversion E. } subst o'.
    split; [now apply step_suicide | now apply awf_upd].
  - auto using aext_refl.
Qed.

Lemma op_create_account : forall a ad, awf a -> aext a (create_account a ad) /\ awf (create_account a ad).
Proof.
  intros a ad Hw. unfold create_account, create_object.
  destruct (find (objs a) ad) as [p|] eqn:Hf.
  - destruct (o_deleted p).
    { pose proof (step_create_object a ad Hw) as (H1 & H2 & _). unfold create_object in H1, H2. rewrite Hf in H1, H2.
      cbn in H1, H2. auto. }
    unfold upd_obj. cbn. rewrite find_set_same. split.
    + eapply aext_one with (e := EResetObject ad p); [reflexivity | reflexivity |].
      cbn. rewrite !set_set, (set_same_id _ _ _ Hf), journal_eta.
      unfold aeq; cbn. repeat split; auto using objs_sim_refl.
    + split; cbn; [|apply Hw]. intros x Hx. rewrite set_set, find_set.
      destruct (N.eqb ad x); [discriminate|]. now apply (proj1 Hw).
  - pose proof (step_create_object a ad Hw) as (H1 & H2 & _). unfold create_object in H1, H2. rewrite Hf in H1, H2.
    cbn in H1, H2. auto.
Qed.

Lemma op_update_delegator : forall a ad tov delta dl,
  awf a -> aext a (update_delegator a ad tov delta dl) /\ awf (update_delegator a ad tov delta dl).
Proof.
  intros a ad tov delta dl Hw. unfold update_delegator.
  destruct (get_obj a ad) as [o|] eqn:E; [|auto using aext_refl].
  assert (Hl : live a ad) by (apply get_obj_live_iff; eauto).
  set (a1 := if match search_ge (o_dlgs o) tov with Some x => N.eqb x tov | None => false end
             then (if dl then so_update_dlgs a ad (del_first (o_dlgs o) tov) else a)
             else (if dl then a else so_update_dlgs a ad (ins_sorted (o_dlgs o) tov))).
  assert (H1 : aext a a1 /\ awf a1 /\ live a1 ad).
  { assert (Hs : forall l, aext a (so_update_dlgs a ad l) /\ awf (so_update_dlgs a ad l) /\ live (so_update_dlgs a ad l) ad).
    { intros l. split; [now apply step_dlgs | split; [unfold so_update_dlgs; now apply awf_upd|]].
      unfold so_update_dlgs; apply live_upd; auto; intros []; reflexivity. }
    assert (H0 : aext a a /\ awf a /\ live a ad) by (split; [apply aext_refl | split; assumption]).
    unfold a1. destruct (match search_ge (o_dlgs o) tov with Some x => N.eqb x tov | None => false end), dl; auto. }
  destruct H1 as (H1 & H2 & H3).
  split; [eapply aext_trans; [exact H1 | now apply step_dlgbal]|]. now apply awf_upd.
Qed.

(* awf survives a journal revert *)
Lemma awf_entry_revert : forall e a b, awf a -> a_entry_revert e a = Some b -> awf b.
Proof.
  intros e a b Hw Hr. destruct e; cbn in Hr;
    try (destruct (get_obj a a0); inversion Hr; subst; auto using awf_upd; fail);
    try (inversion Hr; subst; exact Hw).
  - inversion Hr; subst. split; cbn; [|apply Hw]. intros x Hx. rewrite mem_rem in Hx.
    apply andb_true_iff in Hx. destruct Hx as [Hm Hne]. apply negb_true_iff, N.eqb_neq in Hne.
    rewrite find_del_other by congruence. now apply (proj1 Hw).
  - inversion Hr; subst. split; cbn; [|apply Hw]. intros x Hx. rewrite find_set.
    destruct (N.eqb a0 x); [discriminate|]. now apply (proj1 Hw).
  - unfold loglist in Hr. destruct (find (logs a) th) as [[|l0 [|l1 lr]]|] eqn:Hf; try discriminate;
      inversion Hr; subst; (split; cbn; [apply Hw|]); intros t l Hl.
    + destruct (N.eqb_spec th t); [subst; now rewrite find_del_same in Hl|].
      rewrite find_del_other in Hl by congruence. eapply (proj2 Hw); eauto.
    + rewrite find_set in Hl. destruct (N.eqb th t); [|eapply (proj2 Hw); eauto].
      inversion Hl. discriminate.
Qed.

Lemma awf_set_jr : forall a j, awf a -> awf (set_jr j a).
Proof. intros a j H. exact H. Qed.

Lemma awf_revert : forall n a b, awf a -> a_revert n a = Some b -> awf b.
Proof.
  induction n as [|n IH]; intros a b Hw Hr; cbn in Hr.
  - now inversion Hr; subst.
  - destruct (j_entries (jr a)) as [|e rest]; [discriminate|].
    destruct (a_entry_revert e a) as [c|] eqn:E; [|discriminate].
    eapply IH; [|exact Hr]. apply awf_set_jr. eapply awf_entry_revert; eauto.
Qed.

(* ---- Finalise / IntermediateRoot respect the equivalence ------------------
   (so the tries, and with them the roots, written after a revert are those
   that would have been written at the snapshot) *)
Lemma find_merge : forall upd base k,
  find (merge base upd) k = match find upd k with Some v => Some v | None => find base k end.
Proof.
  induction upd as [|[k0 v0] r IH]; intros base k; cbn; [reflexivity|].
  rewrite find_set. destruct (N.eqb k0 k); [reflexivity | apply IH].
Qed.

Lemma get_committed_finalise : forall o k, get_committed (obj_finalise o) k = get_state o k.
Proof.
  intros o k. unfold get_committed, get_state, obj_finalise. cbn. rewrite find_merge.
  destruct (find (o_dirty o) k); reflexivity.
Qed.
Lemma get_state_finalise : forall o k, get_state (obj_finalise o) k = get_state o k.
Proof. intros o k. unfold get_state at 1. cbn. apply get_committed_finalise. Qed.

Lemma obj_finalise_sim : forall o1 o2, obj_sim o1 o2 -> obj_sim (obj_finalise o1) (obj_finalise o2).
Proof.
  intros o1 o2 (E1 & E2 & E3 & E4 & E5 & E6 & E7 & E8 & E9 & E10).
  unfold obj_sim. repeat split; auto.
  - intros k. now rewrite !get_state_finalise.
  - intros k. now rewrite !get_committed_finalise.
Qed.

Lemma slot_update_trie : forall o k, slot (o_commit (obj_update_trie o)) k = get_state o k.
Proof.
  intros o k. unfold obj_update_trie, slot. cbn. rewrite !find_merge.
  unfold get_state, get_committed, slot.
  destruct (find (o_dirty o) k); [reflexivity|]. destruct (find (o_pending o) k); reflexivity.
Qed.
Lemma obj_update_trie_sim : forall o1 o2, obj_sim o1 o2 -> obj_sim (obj_update_trie o1) (obj_update_trie o2).
Proof.
  intros o1 o2 H. pose proof H as (E1 & E2 & E3 & E4 & E5 & E6 & E7 & E8 & E9 & E10).
  assert (Hs : forall k, slot (o_commit (obj_update_trie o1)) k = slot (o_commit (obj_update_trie o2)) k)
    by (intros k; now rewrite !slot_update_trie).
  unfold obj_sim. repeat split; auto; intros k; unfold get_state, get_committed; cbn; apply Hs.
Qed.
Lemma sim_set_deleted : forall b o1 o2, obj_sim o1 o2 -> obj_sim (set_o_deleted b o1) (set_o_deleted b o2).
Proof. sim_scalar. Qed.
Lemma sim_empty : forall o1 o2, obj_sim o1 o2 -> empty_obj o1 = empty_obj o2.
Proof. intros o1 o2 (E1 & E2 & E3 & _). unfold empty_obj. now rewrite E1, E2, E3. Qed.

Lemma a_finalise_one_sim : forall d a1 a2 ad, aeq a1 a2 -> aeq (a_finalise_one d a1 ad) (a_finalise_one d a2 ad).
Proof.
  intros d a1 a2 ad H. unfold a_finalise_one.
  pose proof (objs_sim_find _ _ ad (proj1 H)) as Hf.
  destruct (find (objs a1) ad) as [o1|], (find (objs a2) ad) as [o2|]; cbn in Hf; try tauto.
  pose proof H as (Ho & Hp & Hsd & Hat & Hrf & Hth & Htx & Hlg & Hls & Hpre & Hjr).
  assert (Hc : (o_suicided o1 || d && empty_obj o1) = (o_suicided o2 || d && empty_obj o2)).
  { rewrite (sim_empty _ _ Hf). destruct Hf as (_ & _ & _ & -> & _). reflexivity. }
  rewrite Hc. unfold aeq; cbn. rewrite Hp, Hsd. repeat split; auto.
  apply objs_sim_set; auto. destruct (o_suicided o2 || d && empty_obj o2); auto using sim_set_deleted, obj_finalise_sim.
Qed.

Lemma fold_aeq {A} : forall (f : aside -> A -> aside) l a1 a2,
  (forall x b1 b2, aeq b1 b2 -> aeq (f b1 x) (f b2 x)) -> aeq a1 a2 -> aeq (fold_left f l a1) (fold_left f l a2).
Proof. induction l; intros; cbn; auto. Qed.

Lemma a_finalise_sim : forall d a1 a2, aeq a1 a2 -> aeq (a_finalise d a1) (a_finalise d a2).
Proof.
  intros d a1 a2 H. unfold a_finalise.
  assert (Hj : jr a1 = jr a2) by (unfold aeq in H; tauto). rewrite Hj.
  assert (Hf : aeq (fold_left (a_finalise_one d) (map fst (j_dirties (jr a2))) a1)
                   (fold_left (a_finalise_one d) (map fst (j_dirties (jr a2))) a2))
    by (apply fold_aeq; auto using a_finalise_one_sim).
  unfold aeq in *; cbn; intuition.
Qed.

Lemma a_flush_one_sim : forall a1 a2 ad, aeq a1 a2 -> aeq (a_flush_one a1 ad) (a_flush_one a2 ad).
Proof.
  intros a1 a2 ad H. unfold a_flush_one.
  pose proof (objs_sim_find _ _ ad (proj1 H)) as Hf.
  destruct (find (objs a1) ad) as [o1|], (find (objs a2) ad) as [o2|]; cbn in Hf; try tauto.
  pose proof H as (Ho & Hp & Hsd & Hat & Hrf & Hth & Htx & Hlg & Hls & Hpre & Hjr).
  assert (Hd : o_deleted o1 = o_deleted o2) by (destruct Hf as (_ & _ & _ & _ & E & _); exact E).
  rewrite Hd. destruct (o_deleted o2).
  - unfold aeq; cbn. repeat split; auto using objs_sim_del.
  - unfold aeq; cbn. repeat split; auto using objs_sim_set, obj_update_trie_sim.
Qed.

Lemma a_intermediate_root_sim : forall d a1 a2, aeq a1 a2 -> aeq (a_intermediate_root d a1) (a_intermediate_root d a2).
Proof.
  intros d a1 a2 H. unfold a_intermediate_root.
  pose proof (a_finalise_sim d _ _ H) as Hf.
  assert (Hp : pending (a_finalise d a1) = pending (a_finalise d a2)) by (unfold aeq in Hf; tauto). rewrite Hp.
  assert (Hg : aeq (fold_left a_flush_one (pending (a_finalise d a2)) (a_finalise d a1))
                   (fold_left a_flush_one (pending (a_finalise d a2)) (a_finalise d a2)))
    by (apply fold_aeq; auto using a_flush_one_sim).
  unfold aeq in *; cbn; intuition.
Qed.
