(* C09 - account side: every journalled mutation is undone by the revert of its
   own journal entries, up to the equivalence [aeq] (equal except that a dirty
   storage map may hold an entry equal to the value below it). *)
From VF.C09 Require Import Model ProofsMaps.
From Coq Require Import Lia ZifyBool ZifyN ZifyNat.

(* ---- equivalence of objects: the three storage views and all scalars ---- *)
Definition obj_sim (o1 o2 : obj) : Prop :=
  o_nonce o1 = o_nonce o2 /\ o_balance o1 = o_balance o2 /\ o_code o1 = o_code o2 /\
  o_suicided o1 = o_suicided o2 /\ o_deleted o1 = o_deleted o2 /\
  o_dlgbal o1 = o_dlgbal o2 /\ o_dlgs o1 = o_dlgs o2 /\
  (forall k, get_state o1 k = get_state o2 k) /\
  (forall k, get_committed o1 k = get_committed o2 k) /\
  (forall k, slot (o_commit o1) k = slot (o_commit o2) k).

Lemma obj_sim_refl : forall o, obj_sim o o.
Proof. unfold obj_sim; intuition. Qed.
Lemma obj_sim_sym : forall o1 o2, obj_sim o1 o2 -> obj_sim o2 o1.
Proof. unfold obj_sim; intuition; symmetry; auto. Qed.
Lemma obj_sim_trans : forall o1 o2 o3, obj_sim o1 o2 -> obj_sim o2 o3 -> obj_sim o1 o3.
Proof. unfold obj_sim; intuition; etransitivity; eauto. Qed.

Definition pair_sim (p q : N * obj) : Prop := fst p = fst q /\ obj_sim (snd p) (snd q).
Definition objs_sim (m1 m2 : list (N * obj)) : Prop := Forall2 pair_sim m1 m2.

Lemma objs_sim_refl : forall m, objs_sim m m.
Proof. induction m; constructor; auto. split; auto using obj_sim_refl. Qed.
Lemma objs_sim_sym : forall m1 m2, objs_sim m1 m2 -> objs_sim m2 m1.
Proof.
  induction 1; constructor; auto. destruct H; split; auto using obj_sim_sym.
Qed.
Lemma objs_sim_trans : forall m1 m2 m3, objs_sim m1 m2 -> objs_sim m2 m3 -> objs_sim m1 m3.
Proof.
  intros m1 m2 m3 H; revert m3; induction H as [|p q r1 r2 Hpq Hr IH]; intros m3 H3;
    inversion H3 as [|q' s r2' r3 Hqs Hr3]; subst; constructor.
  - destruct Hpq, Hqs; split; [congruence | eauto using obj_sim_trans].
  - auto.
Show.
