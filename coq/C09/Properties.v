(* C09 - property theorems only.  Each is closed by [exact] of a lemma of the
   proof files (or is a concrete witness checked by computation) and is
   followed by Print Assumptions. *)
From VF.C09 Require Import Model ProofsMaps ProofsA ProofsV Proofs ProofsInv ProofsDisc.
Local Open Scope N_scope.

(* The property at full strength: for every history [pre] run on a fresh
   StateDB, every snapshot taken after it and every further list of calls
   [ops] (mutations of both journals, nested snapshots, reverts) that does not
   panic and leaves the snapshot valid after each call (valid = taken since the
   last finalisation and not above a later revert target), the revert to the
   snapshot does not fail and gives back the snapshot's state: account side
   equal up to [aeq] (every getter, the journal, the dirty sets, refund, logs,
   preimages), validator side equal up to the statistics-modified latch, both
   revision lists equal. *)
Definition FX_OLD : fixes := mkFx false false false.   (* the code before fix fe4c1ff *)
Definition FX_J : fixes := mkFx true false false.      (* after fe4c1ff, before 877ecbf and 464c034 *)
Definition FX_NOW : fixes := mkFx true true true.      (* the repository as it is now *)

Definition C09_full (fx : fixes) : Prop :=
  forall pre s0 ops s,
    run fx pre init = Some s0 ->
    window_gen fx any_op (next_rev s0) ops (fst (snapshot s0)) s ->
    exists s', revert_to_snapshot fx s (next_rev s0) = Some s' /\ restored s' s0.
(* [fx] says which repairs the code carries (Model.v, record [fixes]); the
   harness finds out which behaviour the tree under test shows and evaluates the
   model with the same switches.
   As stated (any call allowed) the statement is too strong for any of them:
   Prepare is not journalled by design, the RIPEMD touch survives a revert by
   design (C09_ripemd_touch_exception); before fe4c1ff RemoveValidator and
   RemoveWithdrawRecords were not undone (C09_refuted_before_fix), before 877ecbf
   a CreateValidator over a removed validator was not
   (C09_create_over_removed_validator_before_fix). *)

(* 1. MAIN THEOREM, the code as it is now (all repairs: fe4c1ff, 877ecbf,
   464c034, 0cdbb3b, af1e035).  For every history [pre] run on a fresh StateDB,
   every snapshot taken after it and every list of calls [ops] that does not
   panic and keeps the snapshot valid, the revert to the snapshot does not fail
   and restores the state.  The only hypotheses left are the callers'
   discipline (ProofsDisc.v):
     [disciplined], everywhere: CreateValidator / UpdateValidator pass a stake
       and a token that are not negative, RemoveWithdrawRecords distinct
       positions;
     [window_op], inside the window in addition: no Prepare (it is not
       journalled by design and belongs before the transaction's snapshot) and
       no zero-value AddBalance to the RIPEMD precompile (designed exception,
       C09_ripemd_touch_exception).
   The validator side conditions of ProofsV.v (statistics non-negative and
   covering the record, record in the ascending index, no lazy trie load, ...)
   are no longer hypotheses: they follow from the invariant [VI] of ProofsInv.v,
   which holds in every state of a disciplined history, including every state a
   revert goes back to (theorem 1b). *)
Theorem C09_revert_restores :
  forall pre s0 ops s,
    run FX_NOW pre init = Some s0 -> forallb disciplined pre = true ->
    window_gen FX_NOW (fun _ o => window_op o) (next_rev s0) ops (fst (snapshot s0)) s ->
    exists s', revert_to_snapshot FX_NOW s (next_rev s0) = Some s' /\ restored s' s0.
Proof. exact revert_restores_disciplined. Qed.
Print Assumptions C09_revert_restores.

(* 1b. The invariant: in every state of a disciplined history the statistics are
   the sum of the contributions of the existing validator records, stakes and
   tokens are non-negative, the (ascending) index holds every existing
   validator, the live map has one entry per address keyed by the record's own
   address, and the validator trie agrees with the live map outside the
   addresses still marked dirty (so a read never has to load from the trie
   something the live map does not have). *)
Theorem C09_validator_invariant :
  forall ops s, run FX_NOW ops init = Some s -> forallb disciplined ops = true -> VI (sv s).
Proof. exact validator_invariant_reachable. Qed.
Print Assumptions C09_validator_invariant.

(* 1c. The statement under explicit side conditions ([good_op], Proofs.v), from
   which 1 is derived; it does not need the history before the snapshot to be
   disciplined. *)
Theorem C09_revert_restores_under_side_conditions :
  forall pre s0 ops s,
    run FX_NOW pre init = Some s0 ->
    window FX_NOW (next_rev s0) ops (fst (snapshot s0)) s ->
    exists s', revert_to_snapshot FX_NOW s (next_rev s0) = Some s' /\ restored s' s0.
Proof. exact (revert_restores_reachable FX_NOW). Qed.
Print Assumptions C09_revert_restores_under_side_conditions.

(* 1'. Regression variants: the same statement for the code before the repairs,
   with the narrower [good_op]: before fe4c1ff RemoveValidator and
   RemoveWithdrawRecords are excluded; before 877ecbf CreateValidator must hit
   an address that is new to the live map and the index. *)
Theorem C09_revert_restores_before_fix_holds_outside :
  forall pre s0 ops s,
    run FX_OLD pre init = Some s0 ->
    window FX_OLD (next_rev s0) ops (fst (snapshot s0)) s ->
    exists s', revert_to_snapshot FX_OLD s (next_rev s0) = Some s' /\ restored s' s0.
Proof. exact (revert_restores_reachable FX_OLD). Qed.
Print Assumptions C09_revert_restores_before_fix_holds_outside.

Theorem C09_revert_restores_before_create_fix_holds_outside :
  forall pre s0 ops s,
    run FX_J pre init = Some s0 ->
    window FX_J (next_rev s0) ops (fst (snapshot s0)) s ->
    exists s', revert_to_snapshot FX_J s (next_rev s0) = Some s' /\ restored s' s0.
Proof. exact (revert_restores_reachable FX_J). Qed.
Print Assumptions C09_revert_restores_before_create_fix_holds_outside.

(* 2. What "gives back" means for an observer: all account getters for every
   address and storage key, and exactly the observation vector the harness
   compares. *)
Theorem C09_restored_account_getters :
  forall a1 a2 ad k, aeq a1 a2 -> acct_view a1 ad k = acct_view a2 ad k.
Proof. exact aeq_acct_view. Qed.
Print Assumptions C09_restored_account_getters.

Theorem C09_restored_account_observation :
  forall a1 a2, aeq a1 a2 -> obs_aside a1 = obs_aside a2.
Proof. exact aeq_obs_aside. Qed.
Print Assumptions C09_restored_account_observation.

Theorem C09_restored_validator_getters :
  forall v1 v2, veq v1 v2 ->
    (forall a, peek_validator v1 a = peek_validator v2 a) /\ vindex v1 = vindex v2 /\ stat v1 = stat v2 /\
    queue v1 = queue v2 /\ vjr v1 = vjr v2 /\ vdirty v1 = vdirty v2.
Proof. exact veq_views. Qed.
Print Assumptions C09_restored_validator_getters.

(* 2'. "Resulting roots": whatever IntermediateRoot writes after the revert is
   what it would have written at the snapshot - the account trie holds the same
   accounts with the same nonce, balance, code, delegation data and storage
   (slot by slot), the validator trie the same validators, index, statistics and
   withdraw queue.  The roots are hashes of exactly this content. *)
Theorem C09_resulting_tries :
  forall fx d s1 s2, restored s1 s2 ->
    objs_sim (atrie (sa (intermediate_root fx d s1))) (atrie (sa (intermediate_root fx d s2))) /\
    vtrie (sv (intermediate_root fx d s1)) = vtrie (sv (intermediate_root fx d s2)) /\
    sv_index (sv (intermediate_root fx d s1)) = sv_index (sv (intermediate_root fx d s2)) /\
    sv_stat (sv (intermediate_root fx d s1)) = sv_stat (sv (intermediate_root fx d s2)) /\
    sv_queue (sv (intermediate_root fx d s1)) = sv_queue (sv (intermediate_root fx d s2)).
Proof. exact restored_tries. Qed.
Print Assumptions C09_resulting_tries.

(* 3. The invariant behind "reverting a valid snapshot never fails" holds in
   every state reachable through the API (after any number of transactions):
   both revision lists carry the same ids, all below the next id. *)
Theorem C09_revision_lists_agree :
  forall fx ops s, run fx ops init = Some s ->
    map fst (revs s) = map fst (vrevs s) /\ Forall (fun r => fst r < next_rev s) (revs s).
Proof. intros fx ops s H. pose proof (wf0_run fx ops init s wf0_init H) as (_ & H1 & H2). auto. Qed.
Print Assumptions C09_revision_lists_agree.

(* ---- the model of the code before fix fe4c1ff refutes the full statement:
   witnesses for the two finding classes (they are the regression histories
   corpus/C09/w2 and w3) ------------------------------------------------------ *)
Definition run_or (ops : list op) (s : state) : state := match run FX_OLD ops s with Some x => x | None => s end.
Definition run_or_t (ops : list op) (s : state) : state := match run FX_NOW ops s with Some x => x | None => s end.

(* RemoveValidator inside the window *)
Definition w1_pre : list op := [OCreateValidator 1 1 1 10 1000; OCreateValidator 2 2 1 5 500; OFinalise true].
Definition w1_s0 : state := run_or w1_pre init.
Definition w1_ops : list op := [ORemoveValidator 1].
Definition w1_s : state := run_or w1_ops (fst (snapshot w1_s0)).

Theorem C09_refuted_before_fix : ~ C09_full FX_OLD.
Proof.
  intros H.
  destruct (H w1_pre w1_s0 w1_ops w1_s) as (s' & Hr & (_ & Hv & _)).
  - vm_compute. reflexivity.
  - apply window_run_ok. vm_compute. reflexivity.
  - assert (Hs : revert_to_snapshot FX_OLD w1_s (next_rev w1_s0) = Some (run_or [ORevert 0] w1_s)) by (vm_compute; reflexivity).
    rewrite Hs in Hr. inversion Hr; subst s'. clear Hr Hs.
    destruct (veq_views _ _ Hv) as (Hp & _). specialize (Hp 1). vm_compute in Hp. discriminate.
Qed.
Print Assumptions C09_refuted_before_fix.

(* the same for the statistics *)
Example C09_before_fix_remove_validator_statistics :
  exists s', revert_to_snapshot FX_OLD w1_s (next_rev w1_s0) = Some s' /\ stat (sv s') <> stat (sv w1_s0).
Proof. eexists; split; [vm_compute; reflexivity|]. vm_compute. discriminate. Qed.
Print Assumptions C09_before_fix_remove_validator_statistics.

(* RemoveWithdrawRecords inside the window: the queue comes back reordered *)
Definition w2_pre : list op := [OAddWithdraw (mkW 1 0 4); OAddWithdraw (mkW 2 1 5); OAddWithdraw (mkW 3 2 6); OFinalise true].
Definition w2_s0 : state := run_or w2_pre init.
Definition w2_s : state := run_or [ORemoveWithdraws [0%nat]] (fst (snapshot w2_s0)).
Example C09_before_fix_withdraw_queue_order :
  window_gen FX_OLD any_op (next_rev w2_s0) [ORemoveWithdraws [0%nat]] (fst (snapshot w2_s0)) w2_s /\
  exists s', revert_to_snapshot FX_OLD w2_s (next_rev w2_s0) = Some s' /\
             queue (sv w2_s0) = [mkW 1 0 4; mkW 2 1 5; mkW 3 2 6] /\
             queue (sv s') = [mkW 2 1 5; mkW 3 2 6; mkW 1 0 4].
Proof.
  split; [apply window_run_ok; vm_compute; reflexivity|].
  eexists; split; [vm_compute; reflexivity|]. split; vm_compute; reflexivity.
Qed.
Print Assumptions C09_before_fix_withdraw_queue_order.

(* the designed exception of journal.go: a zero-value AddBalance to the RIPEMD
   precompile stays in journal.dirties after the revert *)
Definition w3_s : state := run_or_t [OAddBalance 3 0] (fst (snapshot init)).
Example C09_ripemd_touch_exception :
  exists s', revert_to_snapshot FX_NOW w3_s 0 = Some s' /\
             j_dirties (jr (sa init)) = [] /\ j_dirties (jr (sa s')) = [(3, 1%positive)].
Proof. eexists; split; [vm_compute; reflexivity|]. split; vm_compute; reflexivity. Qed.
Print Assumptions C09_ripemd_touch_exception.

(* ---- non-vacuity: a second transaction of a block, three nested frames with
   account and validator mutations on objects finalised by the first
   transaction, inner frames reverted; the window hypothesis of theorem 1 holds
   and the state really changed before the revert ---------------------------- *)
Definition nv_pre : list op :=
  [OPrepare 1 0; OSnapshot; OAddBalance 1 9; OSetState 1 1 4; OSetCode 1 [1; 2]; OAddLog 1;
   OCreateValidator 1 1 1 10 1000; OAddWithdraw (mkW 1 0 4); OSuicide 2; OFinalise true; OPrepare 2 1].
Definition nv_s0 : state := run_or_t nv_pre init.
Definition nv_ops : list op :=
  [OAddBalance 1 0; OSnapshot; OCreateAccount 2; OSetNonce 2 1; OSetState 1 1 5; OSetState 1 2 7;
   OUpdateVal 1 2 0 7 700 3; OSnapshot; OAddLog 2; OAddRefund 3; OUpdateDelegator 1 201 2 false;
   OCreateValidator 2 3 1 4 40; OAddWithdraw (mkW 2 1 5); ORevert 3; OSuicide 1; OAddPreimage 1 5; ORevert 2;
   OSetBalance 4 7; OSubBalance 1 3].
Definition nv_s : state := run_or_t nv_ops (fst (snapshot nv_s0)).
Example C09_nonvacuous_window :
  run FX_NOW nv_pre init = Some nv_s0 /\
  window FX_NOW (next_rev nv_s0) nv_ops (fst (snapshot nv_s0)) nv_s /\
  obs_aside (sa nv_s) <> obs_aside (sa nv_s0) /\
  (exists s', revert_to_snapshot FX_NOW nv_s (next_rev nv_s0) = Some s' /\ obs_aside (sa s') = obs_aside (sa nv_s0)
              /\ obs_vside (sv s') = obs_vside (sv nv_s0)).
Proof.
  split; [vm_compute; reflexivity|].
  split; [apply window_run_ok; vm_compute; reflexivity|].
  split; [vm_compute; discriminate|].
  eexists; split; [vm_compute; reflexivity|]. split; vm_compute; reflexivity.
Qed.
Print Assumptions C09_nonvacuous_window.

(* a validator mutation is really undone (the side conditions of theorem 1 are satisfiable) *)
Definition nv2_ops : list op := [OUpdateVal 1 2 0 7 700 3; OCreateValidator 2 3 1 4 40; OAddWithdraw (mkW 2 1 5)].
Definition nv2_s : state := run_or_t nv2_ops (fst (snapshot nv_s0)).
Example C09_nonvacuous_validator_window :
  window FX_NOW (next_rev nv_s0) nv2_ops (fst (snapshot nv_s0)) nv2_s /\
  stat (sv nv2_s) <> stat (sv nv_s0) /\ queue (sv nv2_s) <> queue (sv nv_s0).
Proof.
  split; [apply window_run_ok; vm_compute; reflexivity|]. split; vm_compute; discriminate.
Qed.
Print Assumptions C09_nonvacuous_validator_window.

(* RemoveValidator and RemoveWithdrawRecords (several positions, given out of
   order) inside a window are undone by the code as it is now *)
Definition nv3_pre : list op :=
  [OCreateValidator 1 1 1 10 1000; OCreateValidator 2 2 0 5 500;
   OAddWithdraw (mkW 1 0 4); OAddWithdraw (mkW 2 1 5); OAddWithdraw (mkW 3 2 6); OAddWithdraw (mkW 1 3 7); OFinalise true].
Definition nv3_s0 : state := match run FX_NOW nv3_pre init with Some x => x | None => init end.
Definition nv3_ops : list op :=
  [ORemoveWithdraws [2%nat; 0%nat]; OSnapshot; ORemoveValidator 1; OAddWithdraw (mkW 2 9 9); ORemoveWithdraws [1%nat]; ORevert 1;
   ORemoveValidator 2].
Definition nv3_s : state := match run FX_NOW nv3_ops (fst (snapshot nv3_s0)) with Some x => x | None => init end.
Example C09_nonvacuous_remove_window :
  window FX_NOW (next_rev nv3_s0) nv3_ops (fst (snapshot nv3_s0)) nv3_s /\
  queue (sv nv3_s) <> queue (sv nv3_s0) /\ peek_validator (sv nv3_s) 2 <> peek_validator (sv nv3_s0) 2 /\
  exists s', revert_to_snapshot FX_NOW nv3_s (next_rev nv3_s0) = Some s' /\ obs_vside (sv s') = obs_vside (sv nv3_s0).
Proof.
  split; [apply window_run_ok; vm_compute; reflexivity|].
  split; [vm_compute; discriminate|]. split; [vm_compute; discriminate|].
  eexists; split; vm_compute; reflexivity.
Qed.
Print Assumptions C09_nonvacuous_remove_window.

(* ---- fixed by 877ecbf: CreateValidator over a removed validator ------------
   RemoveValidator left the record in the live map (deleted flag) and in the
   index; CreateValidator then replaced it, and validatorCreateChange.revert
   deleted the live entry and the index entry instead of putting the replaced
   record back (FX_J loses the index entry).  The code as it is now (FX_NOW)
   restores the same history. *)
Definition w4_pre : list op := [OCreateValidator 1 1 1 9 13; OCreateValidator 2 2 1 5 50; ORemoveValidator 1].
Definition w4_ops : list op := [OCreateValidator 1 3 0 7 70].
Definition w4_s0 (fx : fixes) : state := match run fx w4_pre init with Some x => x | None => init end.
Definition w4_s (fx : fixes) : state := match run fx w4_ops (fst (snapshot (w4_s0 fx))) with Some x => x | None => init end.
Example C09_create_over_removed_validator_before_fix :
  window_gen FX_J any_op (next_rev (w4_s0 FX_J)) w4_ops (fst (snapshot (w4_s0 FX_J))) (w4_s FX_J) /\
  (exists s', revert_to_snapshot FX_J (w4_s FX_J) (next_rev (w4_s0 FX_J)) = Some s' /\
              vindex (sv (w4_s0 FX_J)) = [1; 2] /\ vindex (sv s') = [2] /\
              find (vals (sv (w4_s0 FX_J))) 1 <> None /\ find (vals (sv s')) 1 = None) /\
  window FX_NOW (next_rev (w4_s0 FX_NOW)) w4_ops (fst (snapshot (w4_s0 FX_NOW))) (w4_s FX_NOW) /\
  (exists s', revert_to_snapshot FX_NOW (w4_s FX_NOW) (next_rev (w4_s0 FX_NOW)) = Some s' /\
              obs_vside (sv s') = obs_vside (sv (w4_s0 FX_NOW))).
Proof.
  split; [apply window_run_ok; vm_compute; reflexivity|].
  split; [eexists; split; [vm_compute; reflexivity|]; repeat split; vm_compute; (reflexivity || discriminate)|].
  split; [apply window_run_ok; vm_compute; reflexivity|].
  eexists; split; vm_compute; reflexivity.
Qed.
Print Assumptions C09_create_over_removed_validator_before_fix.

(* ---- the three storage layers: dirtyStorage over pendingStorage (slots written
   by earlier, finalised transactions of the block) over the committed value
   (originStorage / storage trie).  An earlier transaction left slot 1 = 1
   pending over the committed 0; a later one writes 0 back, snapshots, writes 2
   and reverts: the revert must leave a dirty 0 that shadows the pending 1. *)
Definition sl_pre : list op :=
  [OPrepare 1 0; OSetNonce 1 1; OSetState 1 1 1; OFinalise true; OPrepare 2 1; OSetState 1 1 0].
Definition sl_s0 : state := run_or_t sl_pre init.
Definition sl_ops : list op := [OSetState 1 1 2].
Definition sl_s : state := run_or_t sl_ops (fst (snapshot sl_s0)).
Example C09_storage_layers_across_transactions :
  window FX_NOW (next_rev sl_s0) sl_ops (fst (snapshot sl_s0)) sl_s /\
  exists s' o, revert_to_snapshot FX_NOW sl_s (next_rev sl_s0) = Some s' /\
               get_obj (sa s') 1 = Some o /\
               find (o_pending o) 1 = Some 1 /\ slot (o_commit o) 1 = 0 /\ find (o_dirty o) 1 = Some 0 /\
               get_state o 1 = 0 /\ get_committed o 1 = 1.
Proof.
  split; [apply window_run_ok; vm_compute; reflexivity|].
  eexists; eexists; split; [vm_compute; reflexivity|]. repeat split; vm_compute; reflexivity.
Qed.
Print Assumptions C09_storage_layers_across_transactions.

(* non-vacuity of theorem 1: the histories of C09_nonvacuous_window and
   C09_nonvacuous_remove_window meet the callers' discipline alone *)
Example C09_nonvacuous_discipline :
  forallb disciplined nv_pre = true /\
  window_gen FX_NOW (fun _ o => window_op o) (next_rev nv_s0) nv_ops (fst (snapshot nv_s0)) nv_s /\
  forallb disciplined nv3_pre = true /\
  window_gen FX_NOW (fun _ o => window_op o) (next_rev nv3_s0) nv3_ops (fst (snapshot nv3_s0)) nv3_s.
Proof.
  split; [vm_compute; reflexivity|]. split; [apply window_run_ok; vm_compute; reflexivity|].
  split; [vm_compute; reflexivity|]. apply window_run_ok; vm_compute; reflexivity.
Qed.
Print Assumptions C09_nonvacuous_discipline.
