(* C09 - property theorems only.  Each is closed by [exact] of a lemma of the
   proof files (or is a concrete witness checked by computation) and is
   followed by Print Assumptions. *)
From VF.C09 Require Import Model ProofsMaps ProofsA ProofsV Proofs.
Local Open Scope N_scope.

(* The property at full strength: for every history [pre] run on a fresh
   StateDB, every snapshot taken after it and every further list of calls
   [ops] (mutations of both journals, nested snapshots, reverts) that does not
   panic and leaves the snapshot valid after each call (valid = taken since the
   last finalisation and not above a later revert target), the revert to the
   snapshot does not fail and gives back the snapshot's state: account side
   equal up to [aeq] (every getter, the journal, the dirty sets, refund, logs,
   preimages), validator side equal up to the statistics-modified latch, both
   revision lists equal. *)
Definition C09_full (fx : bool) : Prop :=
  forall pre s0 ops s,
    run fx pre init = Some s0 ->
    window_gen fx any_op (next_rev s0) ops (fst (snapshot s0)) s ->
    exists s', revert_to_snapshot fx s (next_rev s0) = Some s' /\ restored s' s0.
(* [fx] selects which code is meant: false = the repository as it is now, true =
   with /verif/fixes/C09_validator_journal_reverts.diff applied (Model.v). *)

(* 1. The statement holds for every history whose calls inside the window are
   [good_op] calls (see Proofs.v): everything except Prepare, the designed
   RIPEMD touch exception, the two finding classes (RemoveValidator,
   RemoveWithdrawRecords) and validator calls that would hit a lazily loaded,
   re-created or statistics-inconsistent record. *)
Theorem C09_revert_restores_holds_outside :
  forall fx pre s0 ops s,
    run fx pre init = Some s0 ->
    window fx (next_rev s0) ops (fst (snapshot s0)) s ->
    exists s', revert_to_snapshot fx s (next_rev s0) = Some s' /\ restored s' s0.
Proof. exact revert_restores_reachable. Qed.
Print Assumptions C09_revert_restores_holds_outside.

(* 2. What "gives back" means for an observer: all account getters for every
   address and storage key, and exactly the observation vector the harness
   compares. *)
Theorem C09_restored_account_getters :
  forall a1 a2 ad k, aeq a1 a2 -> acct_view a1 ad k = acct_view a2 ad k.
Proof. exact aeq_acct_view. Qed.
Print Assumptions C09_restored_account_getters.

Theorem C09_restored_account_observation :
  forall a1 a2, aeq a1 a2 -> obs_aside a1 = obs_aside a2.
Proof. exact aeq_obs_aside. Qed.
Print Assumptions C09_restored_account_observation.

Theorem C09_restored_validator_getters :
  forall v1 v2, veq v1 v2 ->
    (forall a, peek_validator v1 a = peek_validator v2 a) /\ vindex v1 = vindex v2 /\ stat v1 = stat v2 /\
    queue v1 = queue v2 /\ vjr v1 = vjr v2 /\ vdirty v1 = vdirty v2.
Proof. exact veq_views. Qed.
Print Assumptions C09_restored_validator_getters.

(* 3. The invariant behind "reverting a valid snapshot never fails" holds in
   every state reachable through the API (after any number of transactions):
   both revision lists carry the same ids, all below the next id. *)
Theorem C09_revision_lists_agree :
  forall fx ops s, run fx ops init = Some s ->
    map fst (revs s) = map fst (vrevs s) /\ Forall (fun r => fst r < next_rev s) (revs s).
Proof. intros fx ops s H. pose proof (wf0_run fx ops init s wf0_init H) as (_ & H1 & H2). auto. Qed.
Print Assumptions C09_revision_lists_agree.

(* ---- the faithful model of the unchanged code refutes the full statement:
   witnesses for the two finding classes ---------------------------------- *)
Definition run_or (ops : list op) (s : state) : state := match run false ops s with Some x => x | None => s end.

(* RemoveValidator inside the window *)
Definition w1_pre : list op := [OCreateValidator 1 1 1 10 1000; OCreateValidator 2 2 1 5 500; OFinalise true].
Definition w1_s0 : state := run_or w1_pre init.
Definition w1_ops : list op := [ORemoveValidator 1].
Definition w1_s : state := run_or w1_ops (fst (snapshot w1_s0)).

Theorem C09_refuted : ~ C09_full false.
Proof.
  intros H.
  destruct (H w1_pre w1_s0 w1_ops w1_s) as (s' & Hr & (_ & Hv & _)).
  - vm_compute. reflexivity.
  - apply window_run_ok. vm_compute. reflexivity.
  - assert (Hs : revert_to_snapshot false w1_s (next_rev w1_s0) = Some (run_or [ORevert 0] w1_s)) by (vm_compute; reflexivity).
    rewrite Hs in Hr. inversion Hr; subst s'. clear Hr Hs.
    destruct (veq_views _ _ Hv) as (Hp & _). specialize (Hp 1). vm_compute in Hp. discriminate.
Qed.
Print Assumptions C09_refuted.

(* the same for the statistics *)
Example C09_refuted_remove_validator_statistics :
  exists s', revert_to_snapshot false w1_s (next_rev w1_s0) = Some s' /\ stat (sv s') <> stat (sv w1_s0).
Proof. eexists; split; [vm_compute; reflexivity|]. vm_compute. discriminate. Qed.
Print Assumptions C09_refuted_remove_validator_statistics.

(* RemoveWithdrawRecords inside the window: the queue comes back reordered *)
Definition w2_pre : list op := [OAddWithdraw (mkW 1 0 4); OAddWithdraw (mkW 2 1 5); OAddWithdraw (mkW 3 2 6); OFinalise true].
Definition w2_s0 : state := run_or w2_pre init.
Definition w2_s : state := run_or [ORemoveWithdraws [0%nat]] (fst (snapshot w2_s0)).
Example C09_refuted_withdraw_queue_order :
  window_gen false any_op (next_rev w2_s0) [ORemoveWithdraws [0%nat]] (fst (snapshot w2_s0)) w2_s /\
  exists s', revert_to_snapshot false w2_s (next_rev w2_s0) = Some s' /\
             queue (sv w2_s0) = [mkW 1 0 4; mkW 2 1 5; mkW 3 2 6] /\
             queue (sv s') = [mkW 2 1 5; mkW 3 2 6; mkW 1 0 4].
Proof.
  split; [apply window_run_ok; vm_compute; reflexivity|].
  eexists; split; [vm_compute; reflexivity|]. split; vm_compute; reflexivity.
Qed.
Print Assumptions C09_refuted_withdraw_queue_order.

(* the designed exception of journal.go: a zero-value AddBalance to the RIPEMD
   precompile stays in journal.dirties after the revert *)
Definition w3_s : state := run_or [OAddBalance 3 0] (fst (snapshot init)).
Example C09_ripemd_touch_exception :
  exists s', revert_to_snapshot false w3_s 0 = Some s' /\
             j_dirties (jr (sa init)) = [] /\ j_dirties (jr (sa s')) = [(3, 1%positive)].
Proof. eexists; split; [vm_compute; reflexivity|]. split; vm_compute; reflexivity. Qed.
Print Assumptions C09_ripemd_touch_exception.

(* ---- non-vacuity: a second transaction of a block, three nested frames with
   account and validator mutations on objects finalised by the first
   transaction, inner frames reverted; the window hypothesis of theorem 1 holds
   and the state really changed before the revert ---------------------------- *)
Definition nv_pre : list op :=
  [OPrepare 1 0; OSnapshot; OAddBalance 1 9; OSetState 1 1 4; OSetCode 1 [1; 2]; OAddLog 1;
   OCreateValidator 1 1 1 10 1000; OAddWithdraw (mkW 1 0 4); OSuicide 2; OFinalise true; OPrepare 2 1].
Definition nv_s0 : state := run_or nv_pre init.
Definition nv_ops : list op :=
  [OAddBalance 1 0; OSnapshot; OCreateAccount 2; OSetNonce 2 1; OSetState 1 1 5; OSetState 1 2 7;
   OUpdateVal 1 2 0 7 700 3; OSnapshot; OAddLog 2; OAddRefund 3; OUpdateDelegator 1 201 2 false;
   OCreateValidator 2 3 1 4 40; OAddWithdraw (mkW 2 1 5); ORevert 3; OSuicide 1; OAddPreimage 1 5; ORevert 2;
   OSetBalance 4 7; OSubBalance 1 3].
Definition nv_s : state := run_or nv_ops (fst (snapshot nv_s0)).
Example C09_nonvacuous_window :
  run false nv_pre init = Some nv_s0 /\
  window false (next_rev nv_s0) nv_ops (fst (snapshot nv_s0)) nv_s /\
  obs_aside (sa nv_s) <> obs_aside (sa nv_s0) /\
  (exists s', revert_to_snapshot false nv_s (next_rev nv_s0) = Some s' /\ obs_aside (sa s') = obs_aside (sa nv_s0)
              /\ obs_vside (sv s') = obs_vside (sv nv_s0)).
Proof.
  split; [vm_compute; reflexivity|].
  split; [apply window_run_ok; vm_compute; reflexivity|].
  split; [vm_compute; discriminate|].
  eexists; split; [vm_compute; reflexivity|]. split; vm_compute; reflexivity.
Qed.
Print Assumptions C09_nonvacuous_window.

(* a validator mutation is really undone (the side conditions of theorem 1 are satisfiable) *)
Definition nv2_ops : list op := [OUpdateVal 1 2 0 7 700 3; OCreateValidator 2 3 1 4 40; OAddWithdraw (mkW 2 1 5)].
Definition nv2_s : state := run_or nv2_ops (fst (snapshot nv_s0)).
Example C09_nonvacuous_validator_window :
  window false (next_rev nv_s0) nv2_ops (fst (snapshot nv_s0)) nv2_s /\
  stat (sv nv2_s) <> stat (sv nv_s0) /\ queue (sv nv2_s) <> queue (sv nv_s0).
Proof.
  split; [apply window_run_ok; vm_compute; reflexivity|]. split; vm_compute; discriminate.
Qed.
Print Assumptions C09_nonvacuous_validator_window.
