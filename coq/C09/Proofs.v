(* C09 - the whole StateDB: a revert to a snapshot that stayed valid succeeds
   and gives back the state of the snapshot. *)
From VF.C09 Require Import Model ProofsMaps ProofsA ProofsV.
From Coq Require Import Lia ZifyBool ZifyN ZifyNat.

(* ---- executable side conditions --------------------------------------- *)
Definition bucket_okb (b : bucket) : bool :=
  Z.leb 0 (b_on_stake b) && Z.leb 0 (b_on_token b) && N.ltb (b_on_count b) M64
  && Z.leb 0 (b_off_stake b) && Z.leb 0 (b_off_token b) && N.ltb (b_off_count b) M64.
Definition stat_okb (s : vstat) : bool :=
  bucket_okb (k0 s) && bucket_okb (k1 s) && bucket_okb (k2 s) && bucket_okb (r1 s) && bucket_okb (r2 s) && bucket_okb (r3 s).
Definition b_coversb (x : validator) (b : bucket) : bool :=
  if N.eqb (v_status x) 1 then Z.leb (v_stake x) (b_on_stake b) && Z.leb (v_token x) (b_on_token b)
  else Z.leb (v_stake x) (b_off_stake b) && Z.leb (v_token x) (b_off_token b).
Definition coversb (s : vstat) (x : validator) : bool :=
  match v_role x with
  | 1%N => b_coversb x (k0 s) && b_coversb x (k1 s) && b_coversb x (r1 s)
  | 2%N => b_coversb x (k0 s) && b_coversb x (k1 s) && b_coversb x (r2 s)
  | 3%N => b_coversb x (k0 s) && b_coversb x (k2 s) && b_coversb x (r3 s)
  | _ => true
  end.
Definition isnone {A} (x : option A) : bool := match x with None => true | Some _ => false end.
Definition create_okb (fx : fixes) (v : vside) (a : N) : bool :=
  match find (vals v) a with
  | Some x => if v_deleted x then f_create fx && stat_okb (stat v) else true
  | None => isnone (find (vtrie v) a) && (f_create fx || negb (mem (vindex v) a)) && stat_okb (stat v)
  end.
Definition update_okb (v : vside) (a : N) : bool :=
  match find (vals v) a with
  | Some x => v_deleted x || (N.eqb (v_addr x) a && mem (vindex v) a && stat_okb (stat v) && coversb (stat v) x)
  | None => isnone (find (vtrie v) a)
  end.
Definition get_okb (v : vside) (a : N) : bool :=
  negb (isnone (find (vals v) a)) || isnone (find (vtrie v) a).
Definition remove_okb (fx : fixes) (v : vside) (a : N) : bool :=
  match find (vals v) a with
  | Some x => (f_remove fx && v_deleted x)
              || (N.eqb (v_addr x) a && mem (vindex v) a && (negb (f_remove fx) || ascb (vindex v))
                  && stat_okb (stat v) && coversb (stat v) x)
  | None => true
  end.

(* The calls for which the theorem is stated ([fx] as in Model.v: true = the
   code as it is now).  Excluded are
   - Prepare (not a state modification: it sets the transaction context and is
     called before the transaction's snapshot);
   - a zero-value AddBalance to the RIPEMD precompile (address 3): journal.go
     keeps that address dirty across a revert on purpose (touchChange);
   - for the code before fix fe4c1ff only: RemoveValidator and
     RemoveWithdrawRecords, whose reverts did not restore;
   and the validator calls carry the side conditions of ProofsV.v (no lazy trie
   load in the window, the address of a created validator is new, the statistics
   cover the updated / removed record, removed positions are distinct). *)
Definition good_op (fx : fixes) (s : state) (o : op) : bool :=
  match o with
  | OAddBalance a v => negb (N.eqb a ripemd && Z.eqb v 0)
  | OPrepare _ _ => false
  | ORemoveValidator a => f_journal fx && remove_okb fx (sv s) a            (* undone only since fix fe4c1ff *)
  | ORemoveWithdraws idx => f_journal fx && negb (has_dup idx)
  | OCreateValidator a _ _ _ _ => create_okb fx (sv s) a
  | OUpdateVal a _ _ _ _ _ => update_okb (sv s) a
  | OGetValidator a => get_okb (sv s) a
  | _ => true
  end.

Definition valid_id (id : N) (s : state) : bool := existsb (fun r => N.eqb (fst r) id) (revs s).

(* [window_gen good id ops s s']: running ops from s gives s'; no call panics,
   every call satisfies [good], and the snapshot id is valid after every call *)
Fixpoint window_gen (fx : fixes) (good : state -> op -> bool) (id : N) (ops : list op) (s s' : state) : Prop :=
  match ops with
  | [] => s' = s
  | o :: r => good s o = true /\
              exists s1 ret, step fx o s = Some (s1, ret) /\ valid_id id s1 = true /\ window_gen fx good id r s1 s'
  end.
Definition window (fx : fixes) := window_gen fx (good_op fx).

Lemma bucket_okb_ok : forall b, bucket_okb b = true -> bucket_ok b.
Proof.
  unfold bucket_okb, bucket_ok. intros b H. repeat (apply andb_true_iff in H; destruct H as [H ?]).
  repeat split; try (now apply Z.leb_le); now apply N.ltb_lt.
Qed.
Lemma stat_okb_ok : forall s, stat_okb s = true -> stat_ok s.
Proof.
  unfold stat_okb, stat_ok. intros s H. do 5 (apply andb_true_iff in H; destruct H as [H ?]).
  repeat split; now apply bucket_okb_ok.
Qed.
Lemma b_coversb_ok : forall x b, b_coversb x b = true -> b_covers x b.
Proof.
  unfold b_coversb, b_covers. intros x b. destruct (N.eqb (v_status x) 1); intros H;
    apply andb_true_iff in H; destruct H; split; now apply Z.leb_le.
Qed.
Lemma coversb_ok : forall s x, coversb s x = true -> covers s x.
Proof.
  unfold coversb, covers. intros s x H.
  destruct (v_role x) as [|[[|[]|]|[|[]|]|]]; auto;
    do 2 (apply andb_true_iff in H; destruct H as [H ?]); repeat split; now apply b_coversb_ok.
Qed.
Lemma isnone_ok : forall A (x : option A), isnone x = true -> x = None.
Proof. intros A [a|]; cbn; congruence. Qed.
Lemma create_okb_ok : forall fx v a, create_okb fx v a = true -> create_ok fx v a.
Proof.
  unfold create_okb, create_ok. intros fx v a H. destruct (find (vals v) a) as [x|].
  - destruct (v_deleted x); [|exact I]. apply andb_true_iff in H. destruct H. split; [assumption | now apply stat_okb_ok].
  - apply andb_true_iff in H. destruct H as [H Hst]. apply andb_true_iff in H. destruct H as [Hn Hor].
    split; [now apply isnone_ok | split; [|now apply stat_okb_ok]].
    apply orb_true_iff in Hor. destruct Hor as [Hor|Hor]; [now left | right; now apply negb_true_iff].
Qed.
Lemma update_okb_ok : forall v a, update_okb v a = true -> update_ok v a.
Proof.
  unfold update_okb, update_ok. intros v a H. destruct (find (vals v) a).
  - apply orb_true_iff in H. destruct H as [H|H]; [now left | right].
    do 3 (apply andb_true_iff in H; destruct H as [H ?]).
    split; [now apply N.eqb_eq | split; [assumption | split; [now apply stat_okb_ok | now apply coversb_ok]]].
  - now apply isnone_ok.
Qed.
Lemma remove_okb_ok : forall fx v a, remove_okb fx v a = true -> remove_ok fx v a.
Proof.
  unfold remove_okb, remove_ok. intros fx v a H. destruct (find (vals v) a) as [x|]; [|exact I].
  apply orb_true_iff in H. destruct H as [H|H].
  - left. now apply andb_true_iff in H.
  - right. apply andb_true_iff in H. destruct H as [H Hc]. apply andb_true_iff in H. destruct H as [H Hs].
    apply andb_true_iff in H. destruct H as [H Ho]. apply andb_true_iff in H. destruct H as [Ha Hi].
    split; [now apply N.eqb_eq | split; [assumption | split; [|split; [now apply stat_okb_ok | now apply coversb_ok]]]].
    intros Hr. rewrite Hr in Ho. cbn in Ho. now apply ascb_asc.
Qed.
Lemma has_dup_NoDup : forall l, has_dup l = false -> NoDup l.
Proof.
  induction l as [|x r IH]; intros H; cbn in H; constructor.
  - apply orb_false_iff in H. destruct H as [H _]. intro Hin.
    assert (existsb (Nat.eqb x) r = true) by (apply existsb_exists; exists x; split; [exact Hin | apply Nat.eqb_refl]). congruence.
  - apply IH. apply orb_false_iff in H. tauto.
Qed.
Lemma get_okb_ok : forall v a, get_okb v a = true -> get_ok v a.
Proof.
  unfold get_okb, get_ok. intros v a H. apply orb_true_iff in H. destruct H as [H|H].
  - left. destruct (find (vals v) a); [discriminate | discriminate H].
  - right. now apply isnone_ok.
Qed.

(* ---- the revision lists ------------------------------------------------- *)
Lemma rev_search_app : forall l id j R i,
  Forall (fun r => (fst r < id)%N) l -> rev_search (l ++ (id, j) :: R) id i = Some (i + length l, j).
Proof.
  induction l as [|[x jx] l IH]; intros id j R i H; cbn.
  - rewrite N.leb_refl, N.eqb_refl. f_equal. f_equal. lia.
  - inversion H as [|? ? Hx Hl]; subst. cbn in Hx.
    destruct (N.leb id x) eqn:E; [lia|]. rewrite IH by assumption. f_equal. f_equal. lia.
Qed.

Lemma rev_search_ids : forall l1 l2 id i idx j1,
  map fst l1 = map fst l2 -> rev_search l1 id i = Some (idx, j1) ->
  exists j2, rev_search l2 id i = Some (idx, j2) /\ nth_error l2 (idx - i) = Some (id, j2) /\ i <= idx.
Proof.
  induction l1 as [|[x jx] l1 IH]; intros l2 id i idx j1 Hm Hs; cbn in *; [discriminate|].
  destruct l2 as [|[y jy] l2]; [discriminate|]. cbn in Hm. inversion Hm; subst y. cbn.
  destruct (N.leb id x) eqn:E.
  - destruct (N.eqb x id) eqn:E2; [|discriminate]. inversion Hs; subst. apply N.eqb_eq in E2; subst.
    exists jy. rewrite Nat.sub_diag. cbn. auto.
  - destruct (IH l2 id (S i) idx j1 H1 Hs) as (j2 & Hr & Hn & Hle). exists j2. split; [exact Hr|]. split; [|lia].
    replace (idx - i) with (S (idx - S i)) by lia. exact Hn.
Qed.

Lemma rev_search_nth : forall l id i idx j,
  rev_search l id i = Some (idx, j) -> nth_error l (idx - i) = Some (id, j) /\ i <= idx.
Proof.
  intros l id i idx j H. destruct (rev_search_ids l l id i idx j eq_refl H) as (j2 & H2 & Hn & Hle).
  rewrite H in H2. inversion H2; subst. auto.
Qed.

(* ---- the invariant of a window ------------------------------------------ *)
Definition wf0 (s : state) : Prop :=
  awf (sa s) /\ Forall (fun r => (fst r < next_rev s)%N) (revs s) /\ map fst (revs s) = map fst (vrevs s).

Record sinv (fx : fixes) (s0 : state) (s : state) : Prop := {
  i_wf0 : wf0 s0;
  i_a : aext (sa s0) (sa s);
  i_v : vext fx (sv s0) (sv s);
  i_awf : awf (sa s);
  i_revs : exists R VR,
      revs s = revs s0 ++ (next_rev s0, jlen s0) :: R /\
      vrevs s = vrevs s0 ++ (next_rev s0, vjlen s0) :: VR /\
      map fst R = map fst VR /\
      Forall (fun r => (next_rev s0 < fst r)%N /\ jlen s0 <= snd r) R /\
      Forall (fun r => vjlen s0 <= snd r) VR;
  i_next : Forall (fun r => (fst r < next_rev s)%N) (revs s)
}.

Lemma sinv_start : forall fx s0, wf0 s0 -> sinv fx s0 (fst (snapshot s0)).
Proof.
  intros fx s0 Hwf. pose proof Hwf as (Hw & Hr & Hm). constructor; cbn; auto using aext_refl, vext_refl.
  - exists [], []. repeat split; auto.
  - apply Forall_app. split.
    + eapply Forall_impl; [|exact Hr]. cbn. intros; lia.
    + constructor; [cbn; lia | constructor].
Qed.

Lemma sinv_with_a : forall fx s0 s a', sinv fx s0 s -> aext (sa s) a' -> awf a' -> sinv fx s0 (with_a s a').
Proof.
  intros fx s0 s a' [H0 Ha Hv Hw Hr Hn] Hext Hw'. constructor; cbn; auto.
  eapply aext_trans; eauto.
Qed.
Lemma sinv_with_v : forall fx s0 s v', sinv fx s0 s -> vext fx (sv s) v' -> sinv fx s0 (with_v s v').
Proof.
  intros fx s0 s v' [H0 Ha Hv Hw Hr Hn] Hext. constructor; cbn; auto.
  eapply vext_trans; eauto.
Qed.

Lemma aext_len : forall a0 a, aext a0 a -> alen a0 <= alen a.
Proof. intros a0 a (k & a1 & L & _). lia. Qed.
Lemma vext_len : forall fx v0 v, vext fx v0 v -> vlen v0 <= vlen v.
Proof. intros fx v0 v (k & v1 & L & _). lia. Qed.

Lemma valid_id_in : forall id s, valid_id id s = true -> exists j, In (id, j) (revs s).
Proof.
  intros id s H. unfold valid_id in H. apply existsb_exists in H. destruct H as ([x j] & Hin & He).
  cbn in He. apply N.eqb_eq in He; subst. eauto.
Qed.

Lemma firstn_In {A} : forall n (l : list A) x, In x (firstn n l) -> In x l.
Proof.
  induction n; intros l x H; cbn in H; [contradiction|]. destruct l; [contradiction|].
  destruct H; [left; auto | right; auto].
Qed.

Lemma Forall_firstn' {A} : forall (P : A -> Prop) n l, Forall P l -> Forall P (firstn n l).
Proof.
  induction n; intros l H; cbn; [constructor|]. destruct l; [constructor|].
  inversion H; subst. constructor; auto.
Qed.

Lemma firstn_app_cons {A} : forall (l : list A) x R n,
  firstn (length l + S n) (l ++ x :: R) = l ++ x :: firstn n R.
Proof.
  induction l; intros; cbn; [reflexivity|]. f_equal. apply IHl.
Qed.
Lemma nth_error_app_cons {A} : forall (l : list A) x R n,
  nth_error (l ++ x :: R) (length l + S n) = nth_error R n.
Proof.
  induction l; intros; cbn; [reflexivity|]. apply IHl.
Qed.
Lemma firstn_map {A B} : forall (f : A -> B) n l, map f (firstn n l) = firstn n (map f l).
Proof.
  induction n; intros l; cbn; [reflexivity|]. destruct l; cbn; [reflexivity|]. f_equal. apply IHn.
Qed.
Lemma map_fst_length {A B C} : forall (l1 : list (A * B)) (l2 : list (A * C)),
  map fst l1 = map fst l2 -> length l1 = length l2.
Proof. intros l1 l2 H. rewrite <- (map_length fst l1), H. apply map_length. Qed.

(* a snapshot id that is still in the list after cutting at idx lies before idx *)
Lemma valid_after_cut : forall (l : list (N * nat)) id j R idx j',
  Forall (fun r => (fst r < id)%N) l ->
  In (id, j') (firstn idx (l ++ (id, j) :: R)) -> exists n, idx = length l + S n.
Proof.
  intros l id j R idx j' Hl Hin.
  destruct (le_lt_dec idx (length l)) as [Hle|Hgt].
  - exfalso. rewrite firstn_app in Hin. replace (idx - length l) with 0 in Hin by lia. cbn in Hin.
    rewrite app_nil_r in Hin. apply firstn_In in Hin.
    rewrite Forall_forall in Hl. specialize (Hl _ Hin). cbn in Hl. lia.
  - exists (idx - length l - 1). lia.
Qed.

(* one good call that keeps the snapshot valid preserves the invariant *)
(* the same conditions as propositions (what the step lemma needs) *)
Definition good_opP (fx : fixes) (s : state) (o : op) : Prop :=
  match o with
  | OAddBalance a v => a = ripemd -> v <> 0%Z
  | OPrepare _ _ => False
  | ORemoveValidator a => f_journal fx = true /\ remove_ok fx (sv s) a
  | ORemoveWithdraws idx => f_journal fx = true /\ NoDup idx
  | OCreateValidator a _ _ _ _ => create_ok fx (sv s) a
  | OUpdateVal a _ _ _ _ _ => update_ok (sv s) a
  | OGetValidator a => get_ok (sv s) a
  | _ => True
  end.

Lemma sinv_stepP : forall fx s0 s o s1 ret,
  sinv fx s0 s -> good_opP fx s o -> step fx o s = Some (s1, ret) -> valid_id (next_rev s0) s1 = true ->
  sinv fx s0 s1.
Proof.
  intros fx s0 s o s1 ret Hinv Hg Hs Hval.
  pose proof (i_awf _ _ _ Hinv) as Hw.
  destruct o; cbn in Hs, Hg; try contradiction.
  - (* AddBalance *)
    inversion Hs; subst. destruct (op_add_balance (sa s) a v Hw Hg) as [H1 H2].
    now apply sinv_with_a.
  - inversion Hs; subst. destruct (op_sub_balance (sa s) a v Hw). now apply sinv_with_a.
  - inversion Hs; subst. destruct (op_set_balance (sa s) a v Hw). now apply sinv_with_a.
  - inversion Hs; subst. destruct (op_set_nonce (sa s) a n Hw). now apply sinv_with_a.
  - inversion Hs; subst. destruct (op_set_code (sa s) a c Hw). now apply sinv_with_a.
  - inversion Hs; subst. destruct (op_set_state (sa s) a k v Hw). now apply sinv_with_a.
  - destruct (suicide (sa s) a) as [a1 r] eqn:E. inversion Hs; subst.
    destruct (op_suicide (sa s) a Hw) as [H1 H2]. rewrite E in H1, H2. now apply sinv_with_a.
  - inversion Hs; subst. destruct (op_create_account (sa s) a Hw). now apply sinv_with_a.
  - inversion Hs; subst. destruct (step_add_log (sa s) id Hw). now apply sinv_with_a.
  - inversion Hs; subst. apply sinv_with_a; auto using step_add_preimage.
    unfold add_preimage. destruct (find (preimages (sa s)) h); exact Hw.
  - inversion Hs; subst. apply sinv_with_a; auto using step_add_refund.
  - destruct (sub_refund (sa s) g) as [a1|] eqn:E; [|discriminate]. inversion Hs; subst.
    apply sinv_with_a; eauto using step_sub_refund.
    unfold sub_refund in E. destruct (N.ltb _ g); [discriminate|]. inversion E; subst. exact Hw.
  - inversion Hs; subst. destruct (op_update_delegator (sa s) a tov delta dl Hw). now apply sinv_with_a.
  - (* CreateValidator *)
    destruct (create_validator (sv s) a role status stake token) as [v1 r] eqn:E. inversion Hs; subst.
    apply sinv_with_v; auto. pose proof (op_create_validator fx (sv s) a role status stake token Hg) as H.
    now rewrite E in H.
  - destruct (update_val_op (sv s) a role status stake token payload) as [v1 r] eqn:E. inversion Hs; subst.
    apply sinv_with_v; auto. pose proof (op_update_val fx (sv s) a role status stake token payload Hg) as H.
    now rewrite E in H.
  - (* RemoveValidator: repaired code only *)
    destruct Hg as [Efj Hg].
    destruct (remove_validator fx (sv s) a) as [v1 r] eqn:E. inversion Hs; subst.
    apply sinv_with_v; auto. pose proof (op_remove_validator_fixed fx (sv s) a Efj Hg) as H.
    now rewrite E in H.
  - destruct (get_validator (sv s) a) as [v1 r] eqn:E. inversion Hs; subst.
    apply sinv_with_v; auto. pose proof (op_get_validator (sv s) a Hg) as H.
    rewrite E in H. cbn in H. subst. apply vext_refl.
  - inversion Hs; subst. apply sinv_with_v; auto using op_add_withdraw.
  - (* RemoveWithdrawRecords: repaired code only *)
    destruct Hg as [Efj Hg].
    destruct (remove_withdraws fx (sv s) idx) as [v1|] eqn:E; [|discriminate]. inversion Hs; subst.
    apply sinv_with_v; auto. eapply op_remove_withdraws_fixed; eauto.
  - (* Snapshot *)
    inversion Hs; subst. clear Hs.
    destruct Hinv as [H0 Ha Hv _ (R & VR & Hr & Hvr & Hm & HR & HVR) Hn].
    constructor; cbn; auto.
    + exists (R ++ [(next_rev s, jlen s)]), (VR ++ [(next_rev s, vjlen s)]).
      rewrite Hr, Hvr, <- !app_assoc. cbn. repeat split; auto.
      * rewrite !map_app, Hm. reflexivity.
      * apply Forall_app. split; auto. constructor; [|constructor]. cbn. split.
        -- rewrite Hr in Hn. apply Forall_app in Hn. destruct Hn as [_ Hn]. inversion Hn; subst. cbn in *. lia.
        -- apply aext_len in Ha. exact Ha.
      * apply Forall_app. split; auto. constructor; [|constructor]. cbn. apply vext_len in Hv. exact Hv.
    + apply Forall_app. split.
      * eapply Forall_impl; [|exact Hn]. cbn. intros; lia.
      * constructor; [cbn; lia | constructor].
  - (* Revert *)
    destruct (revert_to_snapshot fx s id) as [s'|] eqn:E; [|discriminate]. inversion Hs; subst. clear Hs.
    unfold revert_to_snapshot in E.
    destruct (rev_search (revs s) id 0) as [[idx ji]|] eqn:Es; [|discriminate].
    destruct (Nat.ltb (jlen s) ji) eqn:El; [discriminate|].
    destruct (a_revert (jlen s - ji) (sa s)) as [a'|] eqn:Ea; [|discriminate].
    destruct (rev_search (vrevs s) id 0) as [[vidx vji]|] eqn:Evs; [|discriminate].
    destruct (Nat.ltb (vjlen s) vji) eqn:Evl; [discriminate|].
    destruct (v_revert fx (vjlen s - vji) (sv s)) as [v'|] eqn:Ev; [|discriminate].
    inversion E; subst; clear E.
    destruct Hinv as [H0 Ha Hv _ (R & VR & Hr & Hvr & Hm & HR & HVR) Hn].
    pose proof H0 as (_ & Hlt0 & Hm0).
    assert (Hids : map fst (revs s) = map fst (vrevs s)).
    { rewrite Hr, Hvr, !map_app. cbn. now rewrite Hm, Hm0. }
    destruct (rev_search_ids _ _ _ _ _ _ Hids Es) as (j2 & Es2 & Hnv & _).
    rewrite Evs in Es2. inversion Es2; subst vidx j2. clear Es2.
    destruct (rev_search_nth _ _ _ _ _ Es) as (Hna & _).
    rewrite Nat.sub_0_r in Hna, Hnv.
    destruct (valid_id_in _ _ Hval) as (j' & Hin). cbn in Hin. rewrite Hr in Hin.
    destruct (valid_after_cut _ _ _ _ _ _ Hlt0 Hin) as (n & Hidx).
    assert (Hlen : length (vrevs s0) = length (revs s0)) by (symmetry; now apply map_fst_length).
    rewrite Hr, Hidx, nth_error_app_cons in Hna.
    rewrite Hvr, Hidx, <- Hlen, nth_error_app_cons in Hnv.
    apply nth_error_In in Hna. apply nth_error_In in Hnv.
    rewrite Forall_forall in HR, HVR. pose proof (HR _ Hna) as [_ Hji]. pose proof (HVR _ Hnv) as Hvji. cbn in Hji, Hvji.
    pose proof (a_revert_len _ _ _ Ea) as La. pose proof (v_revert_len _ _ _ _ Ev) as Lv.
    apply Nat.ltb_ge in El. apply Nat.ltb_ge in Evl. unfold jlen, vjlen in *.
    constructor; cbn; auto.
    + eapply aext_revert; eauto. unfold alen. lia.
    + eapply vext_revert; eauto. unfold vlen. lia.
    + eapply awf_revert; eauto.
    + exists (firstn n R), (firstn n VR). rewrite Hr, Hvr, Hidx. rewrite firstn_app_cons.
      rewrite <- Hlen at 1. rewrite firstn_app_cons. repeat split; auto.
      * rewrite !firstn_map. now rewrite Hm.
      * apply Forall_firstn'. now apply Forall_forall.
      * apply Forall_firstn'. now apply Forall_forall.
    + now apply Forall_firstn'.
  - inversion Hs; subst. discriminate Hval.
  - inversion Hs; subst. discriminate Hval.
  - inversion Hs; subst. discriminate Hval.
Qed.

Lemma good_op_P : forall fx s o, good_op fx s o = true -> good_opP fx s o.
Proof.
  intros fx s o H. destruct o; cbn in *; auto; try discriminate.
  - intros -> ->. now rewrite N.eqb_refl in H.
  - now apply create_okb_ok.
  - now apply update_okb_ok.
  - apply andb_true_iff in H. destruct H. split; [assumption | now apply remove_okb_ok].
  - now apply get_okb_ok.
  - apply andb_true_iff in H. destruct H as [H1 H2]. split; [assumption|]. apply has_dup_NoDup. now apply negb_true_iff.
Qed.

Lemma sinv_step : forall fx s0 s o s1 ret,
  sinv fx s0 s -> good_op fx s o = true -> step fx o s = Some (s1, ret) -> valid_id (next_rev s0) s1 = true ->
  sinv fx s0 s1.
Proof. intros. eapply sinv_stepP; eauto using good_op_P. Qed.

(* a window preserves the invariant *)
Lemma sinv_window : forall fx s0 ops s s',
  sinv fx s0 s -> window fx (next_rev s0) ops s s' -> sinv fx s0 s'.
Proof.
  unfold window. intros fx s0 ops; induction ops as [|o r IH]; intros s s' Hinv Hw; cbn in Hw.
  - now subst.
  - destruct Hw as (Hg & s1 & ret & Hs & Hv & Hw). eapply IH; [|exact Hw]. eapply sinv_step; eauto.
Qed.

(* equivalence of whole states: what a revert gives back *)
Definition restored (s' s0 : state) : Prop :=
  aeq (sa s') (sa s0) /\ veq (sv s') (sv s0) /\ revs s' = revs s0 /\ vrevs s' = vrevs s0.

(* from the invariant: the revert to the snapshot succeeds and restores *)
Lemma sinv_revert : forall fx s0 s, sinv fx s0 s ->
  exists s', revert_to_snapshot fx s (next_rev s0) = Some s' /\ restored s' s0.
Proof.
  intros fx s0 s [H0 Ha Hv _ (R & VR & Hr & Hvr & Hm & HR & HVR) Hn].
  pose proof H0 as (_ & Hlt0 & Hm0).
  destruct Ha as (k & a1 & La & Ra & Ea). destruct Hv as (kv & v1 & Lv & Rv & Ev).
  unfold revert_to_snapshot.
  rewrite Hr, (rev_search_app _ _ _ _ 0 Hlt0). cbn [Nat.add].
  assert (Hlt0v : Forall (fun r => (fst r < next_rev s0)%N) (vrevs s0)).
  { clear - Hlt0 Hm0. revert Hm0 Hlt0. generalize (revs s0) as l1, (vrevs s0) as l2.
    induction l1 as [|[x jx] l1 IH]; intros [|[y jy] l2] Hm Hl; try discriminate; constructor.
    - inversion Hm; inversion Hl; subst. cbn in *. lia.
    - inversion Hm; inversion Hl; subst. eapply IH; eauto. }
  rewrite Hvr, (rev_search_app _ _ _ _ 0 Hlt0v). cbn [Nat.add].
  unfold alen, vlen, jlen, vjlen in *.
  replace (Nat.ltb (length (j_entries (jr (sa s)))) (length (j_entries (jr (sa s0))))) with false
    by (symmetry; apply Nat.ltb_ge; lia).
  replace (length (j_entries (jr (sa s))) - length (j_entries (jr (sa s0)))) with k by lia. rewrite Ra.
  replace (Nat.ltb (length (j_entries (vjr (sv s)))) (length (j_entries (vjr (sv s0))))) with false
    by (symmetry; apply Nat.ltb_ge; lia).
  replace (length (j_entries (vjr (sv s))) - length (j_entries (vjr (sv s0)))) with kv by lia. rewrite Rv.
  eexists; split; [reflexivity|]. unfold restored; cbn.
  split; [exact Ea | split; [exact Ev | split; apply firstn_app_exact]].
Qed.

(* ---- main theorem -------------------------------------------------------- *)
Theorem revert_restores : forall fx s0 ops s,
  wf0 s0 -> window fx (next_rev s0) ops (fst (snapshot s0)) s ->
  exists s', revert_to_snapshot fx s (next_rev s0) = Some s' /\ restored s' s0.
Proof.
  intros fx s0 ops s Hwf Hw. apply sinv_revert. eapply sinv_window; [|exact Hw]. now apply sinv_start.
Qed.

(* ---- wf0 holds in every state reached through the API -------------------- *)
Lemma awf_finalise_one : forall d acc ad, awf acc -> awf (a_finalise_one d acc ad).
Proof.
  intros d acc ad Hw. unfold a_finalise_one. destruct (find (objs acc) ad) as [o|] eqn:E; [|exact Hw].
  split; cbn; [|apply Hw]. intros x Hx. rewrite find_set. destruct (N.eqb ad x) eqn:E2; [discriminate|].
  rewrite mem_add, E2, orb_false_r in Hx. now apply (proj1 Hw).
Qed.
Lemma awf_fold {A} : forall (f : aside -> A -> aside) l a, (forall acc x, awf acc -> awf (f acc x)) -> awf a -> awf (fold_left f l a).
Proof. induction l; intros a0 Hf Hw; cbn; auto. Qed.
Lemma awf_finalise : forall d a, awf a -> awf (a_finalise d a).
Proof.
  intros d a Hw. unfold a_finalise.
  assert (H : awf (fold_left (a_finalise_one d) (map fst (j_dirties (jr a))) a)) by (apply awf_fold; auto using awf_finalise_one).
  exact H.
Qed.
Lemma awf_flush_one : forall acc ad, awf acc -> awf (a_flush_one acc ad).
Proof.
  intros acc ad Hw. unfold a_flush_one. destruct (find (objs acc) ad) as [o|] eqn:E; [|exact Hw].
  destruct (o_deleted o); [exact Hw|].
  split; cbn; [|apply Hw]. intros x Hx. rewrite find_set. destruct (N.eqb ad x); [discriminate|]. now apply (proj1 Hw).
Qed.
Lemma awf_intermediate_root : forall d a, awf a -> awf (a_intermediate_root d a).
Proof.
  intros d a Hw. unfold a_intermediate_root.
  assert (H : awf (fold_left a_flush_one (pending (a_finalise d a)) (a_finalise d a)))
    by (apply awf_fold; auto using awf_flush_one, awf_finalise).
  exact H.
Qed.
Lemma awf_reopen : forall d a, awf (a_reopen d a).
Proof. intros d a. split; cbn; intros; discriminate. Qed.

Lemma wf0_init : wf0 init.
Proof. split; [split; cbn; intros; discriminate | split; [constructor | reflexivity]]. Qed.

Lemma wf0_with_a : forall s a', wf0 s -> awf a' -> wf0 (with_a s a').
Proof. intros s a' (H1 & H2 & H3) Hw. split; auto. Qed.
Lemma wf0_with_v : forall s v', wf0 s -> wf0 (with_v s v').
Proof. intros s v' (H1 & H2 & H3). split; auto. Qed.

Lemma wf0_step : forall fx o s s1 ret, wf0 s -> step fx o s = Some (s1, ret) -> wf0 s1.
Proof.
  intros fx o s s1 ret Hwf Hs. pose proof Hwf as (Hw & Hlt & Hm).
  destruct o; cbn in Hs.
  - inversion Hs; subst. apply wf0_with_a; auto.
    unfold add_balance. destruct (step_get_or_new (sa s) a Hw) as (_ & H2 & _).
    destruct (Z.eqb v 0); [destruct (empty_obj _); auto using awf_touch|]. unfold so_set_balance. now apply awf_upd.
  - inversion Hs; subst. apply wf0_with_a; auto. now apply op_sub_balance.
  - inversion Hs; subst. apply wf0_with_a; auto. now apply op_set_balance.
  - inversion Hs; subst. apply wf0_with_a; auto. now apply op_set_nonce.
  - inversion Hs; subst. apply wf0_with_a; auto. now apply op_set_code.
  - inversion Hs; subst. apply wf0_with_a; auto. now apply op_set_state.
  - destruct (suicide (sa s) a) as [a1 r] eqn:E. inversion Hs; subst. apply wf0_with_a; auto.
    pose proof (op_suicide (sa s) a Hw) as [_ H]. now rewrite E in H.
  - inversion Hs; subst. apply wf0_with_a; auto. now apply op_create_account.
  - inversion Hs; subst. apply wf0_with_a; auto. now apply step_add_log.
  - inversion Hs; subst. apply wf0_with_a; auto. unfold add_preimage. destruct (find _ h); exact Hw.
  - inversion Hs; subst. apply wf0_with_a; auto.
  - destruct (sub_refund (sa s) g) as [a1|] eqn:E; [|discriminate]. inversion Hs; subst. apply wf0_with_a; auto.
    unfold sub_refund in E. destruct (N.ltb _ g); [discriminate|]. inversion E; subst. exact Hw.
  - inversion Hs; subst. apply wf0_with_a; auto. now apply op_update_delegator.
  - inversion Hs; subst. apply wf0_with_a; auto.
  - destruct (create_validator _ _ _ _ _ _). inversion Hs; subst. now apply wf0_with_v.
  - destruct (update_val_op _ _ _ _ _ _ _). inversion Hs; subst. now apply wf0_with_v.
  - destruct (remove_validator _ _ _). inversion Hs; subst. now apply wf0_with_v.
  - destruct (get_validator _ _). inversion Hs; subst. now apply wf0_with_v.
  - inversion Hs; subst. now apply wf0_with_v.
  - destruct (remove_withdraws _ _ _); [|discriminate]. inversion Hs; subst. now apply wf0_with_v.
  - (* snapshot *)
    inversion Hs; subst. split; [exact Hw|]. cbn. split.
    + apply Forall_app. split; [eapply Forall_impl; [|exact Hlt]; cbn; intros; lia | constructor; [cbn; lia | constructor]].
    + rewrite !map_app, Hm. reflexivity.
  - (* revert *)
    destruct (revert_to_snapshot fx s id) as [s'|] eqn:E; [|discriminate]. inversion Hs; subst. clear Hs.
    unfold revert_to_snapshot in E.
    destruct (rev_search (revs s) id 0) as [[idx ji]|] eqn:Es; [|discriminate].
    destruct (Nat.ltb (jlen s) ji); [discriminate|].
    destruct (a_revert (jlen s - ji) (sa s)) as [a'|] eqn:Ea; [|discriminate].
    destruct (rev_search (vrevs s) id 0) as [[vidx vji]|] eqn:Evs; [|discriminate].
    destruct (Nat.ltb (vjlen s) vji); [discriminate|].
    destruct (v_revert fx (vjlen s - vji) (sv s)) as [v'|]; [|discriminate].
    inversion E; subst; clear E.
    destruct (rev_search_ids _ _ _ _ _ _ Hm Es) as (j2 & Es2 & _).
    rewrite Evs in Es2. inversion Es2; subst.
    split; [eapply awf_revert; eauto|]. cbn. split; [now apply Forall_firstn'|]. rewrite !firstn_map. now rewrite Hm.
  - inversion Hs; subst. split; [now apply awf_finalise | split; [constructor | reflexivity]].
  - inversion Hs; subst. split; [now apply awf_intermediate_root | split; [constructor | reflexivity]].
  - inversion Hs; subst. split; [apply awf_reopen | split; [constructor | reflexivity]].
Qed.

Lemma wf0_run : forall fx ops s s', wf0 s -> run fx ops s = Some s' -> wf0 s'.
Proof.
  intros fx. induction ops as [|o r IH]; intros s s' Hw Hr; cbn in Hr.
  - now inversion Hr; subst.
  - destruct (step fx o s) as [[s1 ret]|] eqn:E; [|discriminate]. eapply IH; [|exact Hr]. eapply wf0_step; eauto.
Qed.

(* the theorem for a snapshot taken anywhere in any history *)
Theorem revert_restores_reachable : forall fx pre s0 ops s,
  run fx pre init = Some s0 -> window fx (next_rev s0) ops (fst (snapshot s0)) s ->
  exists s', revert_to_snapshot fx s (next_rev s0) = Some s' /\ restored s' s0.
Proof.
  intros fx pre s0 ops s Hr Hw. eapply revert_restores; eauto. eapply wf0_run; eauto using wf0_init.
Qed.

(* ---- what [restored] means for an observer ------------------------------ *)
Definition acct_view (a : aside) (ad k : N) :=
  match get_obj a ad with
  | None => None
  | Some o => Some (o_nonce o, o_balance o, o_code o, o_suicided o, o_dlgbal o, o_dlgs o, empty_obj o,
                    get_state o k, get_committed o k)
  end.

Lemma aeq_acct_view : forall a1 a2 ad k, aeq a1 a2 -> acct_view a1 ad k = acct_view a2 ad k.
Proof.
  intros a1 a2 ad k H. unfold acct_view. pose proof (get_obj_sim _ _ ad H) as Hg.
  destruct (get_obj a1 ad) as [o1|], (get_obj a2 ad) as [o2|]; cbn in Hg; try tauto.
  destruct Hg as (E1 & E2 & E3 & E4 & E5 & E6 & E7 & E8 & E9 & E10).
  unfold empty_obj. now rewrite E1, E2, E3, E4, E6, E7, (E8 k), (E9 k).
Qed.

Lemma aeq_obs_acct : forall a1 a2 ad, aeq a1 a2 -> obs_acct a1 ad = obs_acct a2 ad.
Proof.
  intros a1 a2 ad H. unfold obs_acct. pose proof (get_obj_sim _ _ ad H) as Hg.
  destruct (get_obj a1 ad) as [o1|], (get_obj a2 ad) as [o2|]; cbn in Hg; try tauto.
  destruct Hg as (E1 & E2 & E3 & E4 & E5 & E6 & E7 & E8 & E9 & E10).
  unfold empty_obj. rewrite E1, E2, E3, E4, E6, E7.
  assert (Hfm : flat_map (fun k => [zn (get_state o1 k); zn (get_committed o1 k)]) U_KEY
                = flat_map (fun k => [zn (get_state o2 k); zn (get_committed o2 k)]) U_KEY)
    by (apply flat_map_ext; intros k; now rewrite (E8 k), (E9 k)).
  now rewrite Hfm.
Qed.

Lemma flat_map_ext' {A B} : forall (f g : A -> list B) l, (forall x, f x = g x) -> flat_map f l = flat_map g l.
Proof. intros. now apply flat_map_ext. Qed.

Theorem aeq_obs_aside : forall a1 a2, aeq a1 a2 -> obs_aside a1 = obs_aside a2.
Proof.
  intros a1 a2 H. pose proof H as (Ho & Hp & Hsd & Hat & Hrf & Hth & Htx & Hlg & Hls & Hpre & Hjr).
  unfold obs_aside. f_equal.
  - apply flat_map_ext'. intros ad. rewrite (aeq_obs_acct _ _ ad H). unfold obs_acct_int. now rewrite Hjr, Hp, Hsd.
  - unfold obs_amisc, loglist. now rewrite Hrf, Hls, Hjr, Hlg, Hpre.
Qed.

Theorem veq_views : forall v1 v2, veq v1 v2 ->
  (forall a, peek_validator v1 a = peek_validator v2 a) /\ vindex v1 = vindex v2 /\ stat v1 = stat v2 /\
  queue v1 = queue v2 /\ vjr v1 = vjr v2 /\ vdirty v1 = vdirty v2.
Proof.
  intros v1 v2 (H1 & H2 & H3 & H4 & H5 & H6 & H7 & H8 & H9 & H10). repeat split; auto.
  intros a. unfold peek_validator. now rewrite H1, H2.
Qed.

(* ---- an executable form of [window_gen], for concrete witnesses ---------- *)
Fixpoint window_run (fx : fixes) (good : state -> op -> bool) (id : N) (ops : list op) (s : state) : option state :=
  match ops with
  | [] => Some s
  | o :: r =>
    if good s o then
      match step fx o s with
      | Some (s1, _) => if valid_id id s1 then window_run fx good id r s1 else None
      | None => None
      end
    else None
  end.

Lemma window_run_ok : forall fx good id ops s s', window_run fx good id ops s = Some s' -> window_gen fx good id ops s s'.
Proof.
  intros fx good id ops; induction ops as [|o r IH]; intros s s' H; cbn in *.
  - now inversion H.
  - destruct (good s o); [|discriminate]. split; [reflexivity|].
    destruct (step fx o s) as [[s1 ret]|]; [|discriminate].
    destruct (valid_id id s1) eqn:Ev; [|discriminate]. exists s1, ret. auto.
Qed.

Definition any_op (_ : state) (_ : op) : bool := true.

(* ---- what is written at the end of the transaction / block is the same ---- *)
Lemma restored_finalise : forall d s1 s2, restored s1 s2 -> restored (finalise d s1) (finalise d s2).
Proof.
  intros d s1 s2 (Ha & Hv & _ & _). unfold restored, finalise; cbn.
  split; [now apply a_finalise_sim | split; [now apply v_finalise_veq | split; reflexivity]].
Qed.
Lemma restored_intermediate_root : forall fx d s1 s2, restored s1 s2 -> restored (intermediate_root fx d s1) (intermediate_root fx d s2).
Proof.
  intros fx d s1 s2 (Ha & Hv & _ & _). unfold restored, intermediate_root; cbn.
  split; [now apply a_intermediate_root_sim | split; [now apply v_intermediate_root_veq | split; reflexivity]].
Qed.

(* the content of the three tries the roots are hashes of *)
Theorem restored_tries : forall fx d s1 s2, restored s1 s2 ->
  objs_sim (atrie (sa (intermediate_root fx d s1))) (atrie (sa (intermediate_root fx d s2))) /\
  vtrie (sv (intermediate_root fx d s1)) = vtrie (sv (intermediate_root fx d s2)) /\
  sv_index (sv (intermediate_root fx d s1)) = sv_index (sv (intermediate_root fx d s2)) /\
  sv_stat (sv (intermediate_root fx d s1)) = sv_stat (sv (intermediate_root fx d s2)) /\
  sv_queue (sv (intermediate_root fx d s1)) = sv_queue (sv (intermediate_root fx d s2)).
Proof.
  intros fx d s1 s2 H. destruct (restored_intermediate_root fx d _ _ H) as (Ha & Hv & _).
  destruct Ha as (_ & _ & _ & Hat & _). destruct Hv as (_ & Hvt & _ & _ & H5 & H6 & H7 & _). auto.
Qed.
