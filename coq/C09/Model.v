(* C09 - executable model of the snapshot / revert machinery of core/state:
   statedb.go (Snapshot, RevertToSnapshot, Finalise, IntermediateRoot, Commit,
   clearJournalAndRefund, the account mutators), journal.go (every journal
   entry with its revert and its dirtied address, journal.append / revert),
   state_object.go (the object mutators, finalise, updateTrie) and
   statedb_val.go (validator / withdraw-queue mutators and their journal).
   No proofs in this file.

   Conventions
   - BOTH journals of the code are present (account journal [jr], validator
     journal [vjr]) and BOTH revision lists ([revs] = validRevisions,
     [vrevs] = valValidRevisions) with the shared [next_rev].
   - Journals are kept newest-first; a journal index is the list length.
   - An address / key / hash is an N (the harness uses small numeric
     addresses, so 3 is the RIPEMD precompile of journal.go's touch hack).
   - big.Int = Z, uint64 = N (no wrap-around except the validator counters,
     which the code decrements below zero in inconsistent states).
   - The read caches are transparent and merged away: [objs] is the live
     object map overlaid on the decoded account trie, [o_commit] is the storage
     trie overlaid by originStorage.  [atrie] is the account trie content as
     last written by IntermediateRoot (what the state root is a hash of).
   - Validators keep the two layers (live map [vals], trie [vtrie]) because
     validatorCreateChange.revert deletes the live entry and a later read falls
     through to the trie. *)
From Coq Require Export List NArith ZArith Bool PArith.
Export ListNotations.

Definition ripemd : N := 3%N.
Definition M64 : N := 18446744073709551616%N.

(* ---- finite maps and sets over N (association lists, in-place update) ---- *)
Section Maps.
  Context {V : Type}.
  Fixpoint find (m : list (N * V)) (k : N) : option V :=
    match m with
    | [] => None
    | (k', v) :: r => if N.eqb k' k then Some v else find r k
    end.
  Fixpoint set (m : list (N * V)) (k : N) (v : V) : list (N * V) :=
    match m with
    | [] => [(k, v)]
    | (k', v') :: r => if N.eqb k' k then (k, v) :: r else (k', v') :: set r k v
    end.
  Fixpoint del (m : list (N * V)) (k : N) : list (N * V) :=
    match m with
    | [] => []
    | (k', v') :: r => if N.eqb k' k then del r k else (k', v') :: del r k
    end.
End Maps.

Fixpoint mem (l : list N) (k : N) : bool :=
  match l with [] => false | x :: r => if N.eqb x k then true else mem r k end.
(* a set is kept in ascending order (Go: a map / sync.Map; the order is only the model's representation) *)
Fixpoint ins_set (l : list N) (k : N) : list N :=
  match l with [] => [k] | x :: r => if N.ltb k x then k :: l else x :: ins_set r k end.
Definition add (l : list N) (k : N) : list N := if mem l k then l else ins_set l k.
Fixpoint rem (l : list N) (k : N) : list N :=
  match l with [] => [] | x :: r => if N.eqb x k then rem r k else x :: rem r k end.

(* journal.dirties : address -> number of live entries that dirtied it *)
Fixpoint d_inc (m : list (N * positive)) (k : N) : list (N * positive) :=
  match m with
  | [] => [(k, 1%positive)]
  | (k', c) :: r => if N.eqb k' k then (k', Pos.succ c) :: r else (k', c) :: d_inc r k
  end.
Fixpoint d_dec (m : list (N * positive)) (k : N) : list (N * positive) :=
  match m with
  | [] => []
  | (k', c) :: r =>
    if N.eqb k' k then (match c with xH => r | _ => (k', Pos.pred c) :: r end)
    else (k', c) :: d_dec r k
  end.
Definition d_count (m : list (N * positive)) (k : N) : N :=
  match find m k with Some c => Npos c | None => 0%N end.

Record journal (E : Type) := mkJ { j_entries : list E; j_dirties : list (N * positive) }.
Arguments mkJ {E}. Arguments j_entries {E}. Arguments j_dirties {E}.
Definition j_empty {E} : journal E := mkJ [] [].
Definition j_append {E} (dirtied : E -> option N) (e : E) (j : journal E) : journal E :=
  mkJ (e :: j_entries j)
      (match dirtied e with Some a => d_inc (j_dirties j) a | None => j_dirties j end).

(* ======================= account side ==================================== *)

(* stateObject *)
Record obj := mkObj {
  o_nonce : N; o_balance : Z; o_code : list N;
  o_commit : list (N * N);     (* storage trie overlaid by originStorage *)
  o_pending : list (N * N);    (* pendingStorage *)
  o_dirty : list (N * N);      (* dirtyStorage *)
  o_suicided : bool; o_deleted : bool;
  o_dlgbal : Z;                (* data.DelegationBalance *)
  o_dlgs : list N              (* delegations (DelegationsHash = hash of it) *)
}.
Definition new_obj : obj := mkObj 0 0 [] [] [] [] false false 0 [].
Definition set_o_nonce x o := mkObj x (o_balance o) (o_code o) (o_commit o) (o_pending o) (o_dirty o) (o_suicided o) (o_deleted o) (o_dlgbal o) (o_dlgs o).
Definition set_o_balance x o := mkObj (o_nonce o) x (o_code o) (o_commit o) (o_pending o) (o_dirty o) (o_suicided o) (o_deleted o) (o_dlgbal o) (o_dlgs o).
Definition set_o_code x o := mkObj (o_nonce o) (o_balance o) x (o_commit o) (o_pending o) (o_dirty o) (o_suicided o) (o_deleted o) (o_dlgbal o) (o_dlgs o).
Definition set_o_commit x o := mkObj (o_nonce o) (o_balance o) (o_code o) x (o_pending o) (o_dirty o) (o_suicided o) (o_deleted o) (o_dlgbal o) (o_dlgs o).
Definition set_o_pending x o := mkObj (o_nonce o) (o_balance o) (o_code o) (o_commit o) x (o_dirty o) (o_suicided o) (o_deleted o) (o_dlgbal o) (o_dlgs o).
Definition set_o_dirty x o := mkObj (o_nonce o) (o_balance o) (o_code o) (o_commit o) (o_pending o) x (o_suicided o) (o_deleted o) (o_dlgbal o) (o_dlgs o).
Definition set_o_suicided x o := mkObj (o_nonce o) (o_balance o) (o_code o) (o_commit o) (o_pending o) (o_dirty o) x (o_deleted o) (o_dlgbal o) (o_dlgs o).
Definition set_o_deleted x o := mkObj (o_nonce o) (o_balance o) (o_code o) (o_commit o) (o_pending o) (o_dirty o) (o_suicided o) x (o_dlgbal o) (o_dlgs o).
Definition set_o_dlgbal x o := mkObj (o_nonce o) (o_balance o) (o_code o) (o_commit o) (o_pending o) (o_dirty o) (o_suicided o) (o_deleted o) x (o_dlgs o).
Definition set_o_dlgs x o := mkObj (o_nonce o) (o_balance o) (o_code o) (o_commit o) (o_pending o) (o_dirty o) (o_suicided o) (o_deleted o) (o_dlgbal o) x.

(* stateObject.empty *)
Definition empty_obj (o : obj) : bool :=
  N.eqb (o_nonce o) 0 && Z.eqb (o_balance o) 0 && (match o_code o with [] => true | _ => false end).

Definition slot (m : list (N * N)) (k : N) : N := match find m k with Some v => v | None => 0%N end.
(* stateObject.GetCommittedState / GetState *)
Definition get_committed (o : obj) (k : N) : N :=
  match find (o_pending o) k with Some v => v | None => slot (o_commit o) k end.
Definition get_state (o : obj) (k : N) : N :=
  match find (o_dirty o) k with Some v => v | None => get_committed o k end.

(* copy every entry of a Go map into another one (a Go map has one entry per
   key; with fold_right the first entry of a key in the list is the one that
   stays, as for [find]) *)
Definition merge (base upd : list (N * N)) : list (N * N) :=
  fold_right (fun kv m => set m (fst kv) (snd kv)) base upd.
(* stateObject.finalise *)
Definition obj_finalise (o : obj) : obj :=
  set_o_dirty [] (set_o_pending (merge (o_pending o) (o_dirty o)) o).
(* stateObject.updateTrie / updateRoot *)
Definition obj_update_trie (o : obj) : obj :=
  let o1 := obj_finalise o in
  set_o_pending [] (set_o_commit (merge (o_commit o1) (o_pending o1)) o1).

(* journal entries of the account journal (journal.go) *)
Inductive aentry :=
| ECreateObject (a : N)
| EResetObject (a : N) (prev : obj)
| ESuicide (a : N) (prev : bool) (prevbal : Z)
| EBalance (a : N) (prev : Z)
| ENonce (a : N) (prev : N)
| EStorage (a : N) (k : N) (prev : N)
| ECode (a : N) (prev : list N)
| EDlgBalance (a : N) (prev : Z)
| EDlgs (a : N) (prev : list N)
| ERefund (prev : N)
| EAddLog (th : N)
| EAddPreimage (h : N)
| ETouch (a : N).

(* dirtied() *)
Definition a_dirtied (e : aentry) : option N :=
  match e with
  | ECreateObject a | ESuicide a _ _ | EBalance a _ | ENonce a _ | EStorage a _ _
  | ECode a _ | EDlgBalance a _ | EDlgs a _ | ETouch a => Some a
  | EResetObject _ _ | ERefund _ | EAddLog _ | EAddPreimage _ => None
  end.

Definition logrec := (N * N * N)%type.   (* payload id, TxIndex, Index *)

Record aside := mkA {
  objs : list (N * obj);        (* stateObjects over the account trie *)
  pending : list N;             (* stateObjectsPending *)
  sdirty : list N;              (* stateObjectsDirty *)
  atrie : list (N * obj);       (* account trie content (flushed objects) *)
  refund : N; thash : N; txindex : N;
  logs : list (N * list logrec); logsize : N;
  preimages : list (N * N);
  jr : journal aentry
}.
Definition set_objs x a := mkA x (pending a) (sdirty a) (atrie a) (refund a) (thash a) (txindex a) (logs a) (logsize a) (preimages a) (jr a).
Definition set_pending x a := mkA (objs a) x (sdirty a) (atrie a) (refund a) (thash a) (txindex a) (logs a) (logsize a) (preimages a) (jr a).
Definition set_sdirty x a := mkA (objs a) (pending a) x (atrie a) (refund a) (thash a) (txindex a) (logs a) (logsize a) (preimages a) (jr a).
Definition set_atrie x a := mkA (objs a) (pending a) (sdirty a) x (refund a) (thash a) (txindex a) (logs a) (logsize a) (preimages a) (jr a).
Definition set_refund x a := mkA (objs a) (pending a) (sdirty a) (atrie a) x (thash a) (txindex a) (logs a) (logsize a) (preimages a) (jr a).
Definition set_thash x y a := mkA (objs a) (pending a) (sdirty a) (atrie a) (refund a) x y (logs a) (logsize a) (preimages a) (jr a).
Definition set_logs x y a := mkA (objs a) (pending a) (sdirty a) (atrie a) (refund a) (thash a) (txindex a) x y (preimages a) (jr a).
Definition set_preimages x a := mkA (objs a) (pending a) (sdirty a) (atrie a) (refund a) (thash a) (txindex a) (logs a) (logsize a) x (jr a).
Definition set_jr x a := mkA (objs a) (pending a) (sdirty a) (atrie a) (refund a) (thash a) (txindex a) (logs a) (logsize a) (preimages a) x.

Definition a_init : aside := mkA [] [] [] [] 0 0 0 [] 0 [] j_empty.

Definition a_append (e : aentry) (a : aside) : aside := set_jr (j_append a_dirtied e (jr a)) a.

(* getStateObject: nil for a missing or deleted object *)
Definition get_obj (a : aside) (ad : N) : option obj :=
  match find (objs a) ad with
  | Some o => if o_deleted o then None else Some o
  | None => None
  end.
Definition the_obj (a : aside) (ad : N) : obj :=
  match find (objs a) ad with Some o => o | None => new_obj end.
Definition upd_obj (a : aside) (ad : N) (f : obj -> obj) : aside :=
  match find (objs a) ad with
  | Some o => set_objs (set (objs a) ad (f o)) a
  | None => a
  end.

(* createObject: returns the new state and prev *)
Definition create_object (a : aside) (ad : N) : aside * option obj :=
  let prev := find (objs a) ad in          (* getDeletedStateObject *)
  let a1 := a_append (match prev with None => ECreateObject ad | Some p => EResetObject ad p end) a in
  (set_objs (set (objs a1) ad new_obj) a1, prev).
(* GetOrNewStateObject *)
Definition get_or_new (a : aside) (ad : N) : aside :=
  match get_obj a ad with Some _ => a | None => fst (create_object a ad) end.

(* stateObject.touch *)
Definition touch (a : aside) (ad : N) : aside :=
  let a1 := a_append (ETouch ad) a in
  if N.eqb ad ripemd then set_jr (mkJ (j_entries (jr a1)) (d_inc (j_dirties (jr a1)) ad)) a1 else a1.

(* stateObject.SetBalance on the live object at ad *)
Definition so_set_balance (a : aside) (ad : N) (v : Z) : aside :=
  upd_obj (a_append (EBalance ad (o_balance (the_obj a ad))) a) ad (set_o_balance v).

Definition add_balance (a : aside) (ad : N) (v : Z) : aside :=
  let a1 := get_or_new a ad in
  let o := the_obj a1 ad in
  if Z.eqb v 0 then (if empty_obj o then touch a1 ad else a1)
  else so_set_balance a1 ad (o_balance o + v).
Definition sub_balance (a : aside) (ad : N) (v : Z) : aside :=
  let a1 := get_or_new a ad in
  if Z.eqb v 0 then a1 else so_set_balance a1 ad (o_balance (the_obj a1 ad) - v).
Definition set_balance (a : aside) (ad : N) (v : Z) : aside :=
  so_set_balance (get_or_new a ad) ad v.
Definition set_nonce (a : aside) (ad : N) (n : N) : aside :=
  let a1 := get_or_new a ad in
  upd_obj (a_append (ENonce ad (o_nonce (the_obj a1 ad))) a1) ad (set_o_nonce n).
Definition set_code (a : aside) (ad : N) (c : list N) : aside :=
  let a1 := get_or_new a ad in
  upd_obj (a_append (ECode ad (o_code (the_obj a1 ad))) a1) ad (set_o_code c).
Definition set_state (a : aside) (ad k v : N) : aside :=
  let a1 := get_or_new a ad in
  let prev := get_state (the_obj a1 ad) k in
  if N.eqb prev v then a1
  else upd_obj (a_append (EStorage ad k prev) a1) ad (fun o => set_o_dirty (set (o_dirty o) k v) o).
Definition suicide (a : aside) (ad : N) : aside * bool :=
  match get_obj a ad with
  | None => (a, false)
  | Some o =>
    (upd_obj (a_append (ESuicide ad (o_suicided o) (o_balance o)) a) ad
             (fun o => set_o_balance 0 (set_o_suicided true o)), true)
  end.
(* createObject hands prev to its caller only if it is not an object deleted by an earlier
   Finalise of the block (fix af1e035); the journal entry keeps it either way *)
Definition create_account (a : aside) (ad : N) : aside :=
  match create_object a ad with
  | (a1, Some p) => if o_deleted p then a1 else upd_obj a1 ad (set_o_balance (o_balance p))
  | (a1, None) => a1
  end.
Definition loglist (a : aside) (th : N) : list logrec :=
  match find (logs a) th with Some l => l | None => [] end.
Definition add_log (a : aside) (id : N) : aside :=
  let a1 := a_append (EAddLog (thash a)) a in
  set_logs (set (logs a1) (thash a1) (loglist a1 (thash a1) ++ [(id, txindex a1, logsize a1)]))
           (logsize a1 + 1) a1.
Definition add_preimage (a : aside) (h id : N) : aside :=
  match find (preimages a) h with
  | Some _ => a
  | None => let a1 := a_append (EAddPreimage h) a in set_preimages (set (preimages a1) h id) a1
  end.
Definition add_refund (a : aside) (g : N) : aside :=
  set_refund (refund a + g) (a_append (ERefund (refund a)) a).
Definition sub_refund (a : aside) (g : N) : option aside :=
  let a1 := a_append (ERefund (refund a)) a in
  if N.ltb (refund a1) g then None (* panic *) else Some (set_refund (refund a1 - g) a1).

(* common.SortedAddresses.Search + the insertion / removal of UpdateDelegationTo *)
Fixpoint ins_sorted (l : list N) (v : N) : list N :=
  match l with [] => [v] | x :: r => if N.leb v x then v :: l else x :: ins_sorted r v end.
Fixpoint search_ge (l : list N) (v : N) : option N :=
  match l with [] => None | x :: r => if N.leb v x then Some x else search_ge r v end.
Fixpoint del_first (l : list N) (v : N) : list N :=
  match l with [] => [] | x :: r => if N.eqb x v then r else x :: del_first r v end.
(* stateObject.updateDelegations *)
Definition so_update_dlgs (a : aside) (ad : N) (l : list N) : aside :=
  upd_obj (a_append (EDlgs ad (o_dlgs (the_obj a ad))) a) ad (set_o_dlgs l).
(* StateDB.UpdateDelegator *)
Definition update_delegator (a : aside) (ad tov : N) (delta : Z) (dl : bool) : aside :=
  match get_obj a ad with
  | None => a
  | Some o =>
    let found := match search_ge (o_dlgs o) tov with Some x => N.eqb x tov | None => false end in
    let a1 := if found then (if dl then so_update_dlgs a ad (del_first (o_dlgs o) tov) else a)
              else (if dl then a else so_update_dlgs a ad (ins_sorted (o_dlgs o) tov)) in
    let o1 := the_obj a1 ad in
    upd_obj (a_append (EDlgBalance ad (o_dlgbal o1)) a1) ad (set_o_dlgbal (o_dlgbal o1 + delta))
  end.

(* revert of one account-journal entry; None = the code panics *)
Definition a_entry_revert (e : aentry) (a : aside) : option aside :=
  match e with
  | ECreateObject ad => Some (set_sdirty (rem (sdirty a) ad) (set_objs (del (objs a) ad) a))
  | EResetObject ad p => Some (set_objs (set (objs a) ad p) a)
  | ESuicide ad p pb =>
    match get_obj a ad with
    | Some _ => Some (upd_obj a ad (fun o => set_o_balance pb (set_o_suicided p o)))
    | None => Some a
    end
  | EBalance ad p => match get_obj a ad with Some _ => Some (upd_obj a ad (set_o_balance p)) | None => None end
  | ENonce ad p => match get_obj a ad with Some _ => Some (upd_obj a ad (set_o_nonce p)) | None => None end
  | EStorage ad k p =>
    match get_obj a ad with
    | Some _ => Some (upd_obj a ad (fun o => set_o_dirty (set (o_dirty o) k p) o))
    | None => None
    end
  | ECode ad p => match get_obj a ad with Some _ => Some (upd_obj a ad (set_o_code p)) | None => None end
  | EDlgBalance ad p => match get_obj a ad with Some _ => Some (upd_obj a ad (set_o_dlgbal p)) | None => None end
  | EDlgs ad p => match get_obj a ad with Some _ => Some (upd_obj a ad (set_o_dlgs p)) | None => None end
  | ERefund p => Some (set_refund p a)
  | EAddLog th =>
    match loglist a th with
    | [] => None
    | [_] => Some (set_logs (del (logs a) th) (N.pred (logsize a)) a)
    | l => Some (set_logs (set (logs a) th (removelast l)) (N.pred (logsize a)) a)
    end
  | EAddPreimage h => Some (set_preimages (del (preimages a) h) a)
  | ETouch _ => Some a
  end.

(* journal.revert: undo the n newest entries *)
Fixpoint a_revert (n : nat) (a : aside) : option aside :=
  match n with
  | O => Some a
  | S n' =>
    match j_entries (jr a) with
    | [] => None
    | e :: rest =>
      match a_entry_revert e a with
      | None => None
      | Some a1 =>
        a_revert n' (set_jr (mkJ rest (match a_dirtied e with
                                       | Some x => d_dec (j_dirties (jr a1)) x
                                       | None => j_dirties (jr a1) end)) a1)
      end
    end
  end.

(* Finalise, account part, then clearJournalAndRefund *)
Definition a_finalise_one (d : bool) (acc : aside) (ad : N) : aside :=
  match find (objs acc) ad with
  | None => acc
  | Some o =>
    let o' := if o_suicided o || (d && empty_obj o) then set_o_deleted true o else obj_finalise o in
    set_sdirty (add (sdirty acc) ad) (set_pending (add (pending acc) ad) (set_objs (set (objs acc) ad o') acc))
  end.
Definition a_finalise (d : bool) (a : aside) : aside :=
  let a1 := fold_left (a_finalise_one d) (map fst (j_dirties (jr a))) a in
  set_refund 0 (set_jr j_empty a1).

(* IntermediateRoot, account part *)
Definition a_flush_one (acc : aside) (ad : N) : aside :=
  match find (objs acc) ad with
  | None => acc
  | Some o =>
    if o_deleted o then set_atrie (del (atrie acc) ad) acc
    else let o' := obj_update_trie o in
         set_atrie (set (atrie acc) ad o') (set_objs (set (objs acc) ad o') acc)
  end.
Definition a_intermediate_root (d : bool) (a : aside) : aside :=
  let a1 := a_finalise d a in
  set_pending [] (fold_left a_flush_one (pending a1) a1).
(* Commit + state.New on the committed roots *)
Definition a_reopen (d : bool) (a : aside) : aside :=
  let a1 := a_intermediate_root d a in
  mkA (atrie a1) [] [] (atrie a1) 0 0 0 [] 0 [] j_empty.

(* ======================= validator side ================================== *)

Record validator := mkV {
  v_addr : N; v_role : N; v_status : N; v_stake : Z; v_token : Z;
  v_payload : N;               (* stands for the fields the state code never reads *)
  v_deleted : bool
}.
Definition set_v_deleted x v := mkV (v_addr v) (v_role v) (v_status v) (v_stake v) (v_token v) (v_payload v) x.

(* ValKindStat (the two reward fields are never touched by the journal) *)
Record bucket := mkB { b_on_stake : Z; b_on_token : Z; b_on_count : N;
                       b_off_stake : Z; b_off_token : Z; b_off_count : N }.
Definition b_zero := mkB 0 0 0 0 0 0.
Definition sat_sub (x y : Z) : Z := if Z.leb y x then x - y else x.
Definition cnt_inc (c : N) : N := N.modulo (c + 1) M64.
Definition cnt_dec (c : N) : N := N.modulo (c + M64 - 1) M64.
Definition b_add (v : validator) (b : bucket) : bucket :=
  if N.eqb (v_status v) 1
  then mkB (b_on_stake b + v_stake v) (b_on_token b + v_token v) (cnt_inc (b_on_count b))
           (b_off_stake b) (b_off_token b) (b_off_count b)
  else mkB (b_on_stake b) (b_on_token b) (b_on_count b)
           (b_off_stake b + v_stake v) (b_off_token b + v_token v) (cnt_inc (b_off_count b)).
Definition b_sub (v : validator) (b : bucket) : bucket :=
  if N.eqb (v_status v) 1
  then mkB (sat_sub (b_on_stake b) (v_stake v)) (sat_sub (b_on_token b) (v_token v)) (cnt_dec (b_on_count b))
           (b_off_stake b) (b_off_token b) (b_off_count b)
  else mkB (b_on_stake b) (b_on_token b) (b_on_count b)
           (sat_sub (b_off_stake b) (v_stake v)) (sat_sub (b_off_token b) (v_token v)) (cnt_dec (b_off_count b)).

(* ValidatorsStat: kinds 0 (all) 1 (chamber) 2 (house), roles 1 2 3 *)
Record vstat := mkS { k0 : bucket; k1 : bucket; k2 : bucket; r1 : bucket; r2 : bucket; r3 : bucket }.
Definition stat_zero := mkS b_zero b_zero b_zero b_zero b_zero b_zero.
(* applies f to the role bucket, the kind bucket and the global bucket
   (roles outside 1..3 make the code dereference nil; callers check the role) *)
Definition stat_apply (f : bucket -> bucket) (role : N) (s : vstat) : vstat :=
  match role with
  | 1%N => mkS (f (k0 s)) (f (k1 s)) (k2 s) (f (r1 s)) (r2 s) (r3 s)
  | 2%N => mkS (f (k0 s)) (f (k1 s)) (k2 s) (r1 s) (f (r2 s)) (r3 s)
  | 3%N => mkS (f (k0 s)) (k1 s) (f (k2 s)) (r1 s) (r2 s) (f (r3 s))
  | _ => s
  end.

Record wrec := mkW { w_op : N; w_nonce : N; w_payload : N }.

Inductive ventry :=
| EValCreate (a : N) (prev : option validator) (indexed : bool)   (* prev / indexed: what a repaired revert needs (fixes C09_validator_create_revert) *)
| EValUpdate (a : N) (oldv newv : validator)
| EValDelete (a : N) (oldv : validator)
| EValAddUBD (r : wrec)
| EValDelWithdraw (r : wrec) (pos : nat).   (* pos: the position the record was removed from (unused before the fix) *)
Definition v_dirtied (e : ventry) : option N :=
  match e with
  | EValCreate a _ _ | EValUpdate a _ _ | EValDelete a _ => Some a
  | EValAddUBD _ | EValDelWithdraw _ _ => None
  end.

Record vside := mkVS {
  vals : list (N * validator);     (* validatorObjects *)
  vtrie : list (N * validator);    (* valinfo- entries of the validator trie *)
  vdirty : list N;                 (* validatorObjectsDirty *)
  vindex : list N;                 (* validatorIndex *)
  sv_index : list N; sv_stat : vstat; sv_queue : list wrec;   (* valindex / valstat / valubds in the trie *)
  stat : vstat; stat_mod : bool;   (* validatorsStat, validatorsStatModified *)
  queue : list wrec;               (* withdrawQueue *)
  vjr : journal ventry
}.
Definition set_vals x y v := mkVS x (vtrie v) (vdirty v) y (sv_index v) (sv_stat v) (sv_queue v) (stat v) (stat_mod v) (queue v) (vjr v).
Definition set_vtrie x v := mkVS (vals v) x (vdirty v) (vindex v) (sv_index v) (sv_stat v) (sv_queue v) (stat v) (stat_mod v) (queue v) (vjr v).
Definition set_vdirty x v := mkVS (vals v) (vtrie v) x (vindex v) (sv_index v) (sv_stat v) (sv_queue v) (stat v) (stat_mod v) (queue v) (vjr v).
Definition set_saved x y z v := mkVS (vals v) (vtrie v) (vdirty v) (vindex v) x y z (stat v) (stat_mod v) (queue v) (vjr v).
Definition set_stat x v := mkVS (vals v) (vtrie v) (vdirty v) (vindex v) (sv_index v) (sv_stat v) (sv_queue v) x true (queue v) (vjr v).
Definition set_queue x v := mkVS (vals v) (vtrie v) (vdirty v) (vindex v) (sv_index v) (sv_stat v) (sv_queue v) (stat v) (stat_mod v) x (vjr v).
Definition set_vjr x v := mkVS (vals v) (vtrie v) (vdirty v) (vindex v) (sv_index v) (sv_stat v) (sv_queue v) (stat v) (stat_mod v) (queue v) x.

Definition v_init : vside := mkVS [] [] [] [] [] stat_zero [] stat_zero false [] j_empty.

Definition v_append (e : ventry) (v : vside) : vside := set_vjr (j_append v_dirtied e (vjr v)) v.

(* incrValidatorsStat / decrValidatorsStat *)
Definition incr_stat (x : validator) (v : vside) : vside := set_stat (stat_apply (b_add x) (v_role x) (stat v)) v.
Definition decr_stat (x : validator) (v : vside) : vside := set_stat (stat_apply (b_sub x) (v_role x) (stat v)) v.

(* setValidator *)
Definition set_validator (x : validator) (v : vside) : vside :=
  set_vals (set (vals v) (v_addr x) x) (add (vindex v) (v_addr x)) v.
(* getValidator: live object first (nil if deleted), else load from the trie *)
Definition get_validator (v : vside) (a : N) : vside * option validator :=
  match find (vals v) a with
  | Some x => if v_deleted x then (v, None) else (v, Some x)
  | None => match find (vtrie v) a with
            | Some x => (set_validator x v, Some x)
            | None => (v, None)
            end
  end.
(* the same without the load (what an observer sees) *)
Definition peek_validator (v : vside) (a : N) : option validator :=
  match find (vals v) a with
  | Some x => if v_deleted x then None else Some x
  | None => find (vtrie v) a
  end.
(* Validator.StakeEqual *)
Definition stake_equal (x y : validator) : bool :=
  N.eqb (v_role x) (v_role y) && Z.eqb (v_stake x) (v_stake y) && Z.eqb (v_token x) (v_token y)
  && N.eqb (v_status x) (v_status y).

(* CreateValidator *)
Definition create_validator (v : vside) (a role status : N) (stake token : Z) : vside * bool :=
  match get_validator v a with
  | (v1, Some _) => (v1, false)
  | (v1, None) =>
    let x := mkV a role status stake token 0 false in
    (incr_stat x (set_validator x (v_append (EValCreate a (find (vals v1) a) (mem (vindex v1) a)) v1)), true)
  end.
(* UpdateValidator(newVal, oldVal) *)
Definition update_validator (v : vside) (nv ov : validator) : vside :=
  let v1 := v_append (EValUpdate (v_addr nv) ov nv) (set_validator nv v) in
  if stake_equal nv ov then v1 else incr_stat nv (decr_stat ov v1).
(* the caller pattern old := GetValidatorByMainAddr(a); new := old.PartialCopy(); ...; UpdateValidator(new, old) *)
Definition update_val_op (v : vside) (a role status : N) (stake token : Z) (payload : N) : vside * bool :=
  match get_validator v a with
  | (v1, None) => (v1, false)
  | (v1, Some ov) => (update_validator v1 (mkV a role status stake token payload (v_deleted ov)) ov, true)
  end.
(* Which repairs of the validator journal the tree under test carries. *)
Record fixes := mkFx {
  f_journal : bool;   (* fix fe4c1ff: RemoveValidator / RemoveWithdrawRecords are undone by their entries *)
  f_create : bool;    (* fix 877ecbf: the revert of CreateValidator puts a replaced deleted record and the index
                         entry back *)
  f_remove : bool     (* fix 464c034: RemoveValidator refuses a removed record and drops the index entry at once;
                         deleteValidator does not decrement the statistics for a removed record again *)
}.

(* The switch [f_journal fx] selects the behaviour of the two validator-journal entries
   that fix fe4c1ff (/verif/fixes/C09_validator_journal_reverts.diff) repaired:
   true = the code as it is in the repository now, false = the code before that
   fix.  The harness finds out which one the tree under test shows and records
   it in every case, so a tree that falls back to the old behaviour is still
   modelled faithfully (and its property violation is reported by the oracle). *)

(* RemoveValidator.  Now: the journal entry keeps a copy taken before the live
   object is marked deleted.  Before the fix: it kept the live object itself. *)
Definition remove_validator (fx : fixes) (v : vside) (a : N) : vside * bool :=
  match find (vals v) a with
  | None => (v, false)
  | Some x =>
    if f_remove fx && v_deleted x then (v, false) else
    let x' := set_v_deleted true x in
    let v1 := v_append (EValDelete a (if f_journal fx then x else x')) v in
    (decr_stat x (set_vals (set (vals v1) a x') (if f_remove fx then rem (vindex v1) a else vindex v1) v1), true)
  end.
Definition add_withdraw (v : vside) (r : wrec) : vside :=
  v_append (EValAddUBD r) (set_queue (queue v ++ [r]) v).
(* WithdrawQueue.RemoveRecords + one journal entry per removed record *)
Fixpoint nths {A} (l : list A) (idx : list nat) : option (list A) :=
  match idx with
  | [] => Some []
  | i :: r => match nth_error l i, nths l r with Some x, Some xs => Some (x :: xs) | _, _ => None end
  end.
Fixpoint drop_idx {A} (l : list A) (idx : list nat) (i : nat) : list A :=
  match l with
  | [] => []
  | x :: r => if existsb (Nat.eqb i) idx then drop_idx r idx (S i) else x :: drop_idx r idx (S i)
  end.
Fixpoint has_dup (l : list nat) : bool :=
  match l with [] => false | x :: r => existsb (Nat.eqb x) r || has_dup r end.
Fixpoint insert_desc (p : nat) (l : list nat) : list nat :=
  match l with [] => [p] | x :: r => if Nat.leb x p then p :: l else x :: insert_desc p r end.
Definition sort_desc (l : list nat) : list nat := fold_right insert_desc [] l.
(* Now: the records are read first, highest position first, each entry remembers
   its position; then RemoveRecords.  Before the fix: RemoveRecords, then one
   entry per removed record in the caller's order (a repeated index yields a nil
   record, which the loop dereferences). *)
Definition remove_withdraws (fx : fixes) (v : vside) (idx : list nat) : option vside :=
  let order := if f_journal fx then sort_desc idx else idx in
  if negb (f_journal fx) && has_dup idx then None else
  match nths (queue v) order with
  | None => None
  | Some removed =>
    Some (fold_left (fun acc rp => v_append (EValDelWithdraw (fst rp) (snd rp)) acc) (combine removed order)
                    (set_queue (drop_idx (queue v) idx 0) v))
  end.

(* WithdrawQueue.Delete: removes the LAST record with the same operator and nonce; panics if none *)
Definition w_match (r x : wrec) : bool := N.eqb (w_op x) (w_op r) && N.eqb (w_nonce x) (w_nonce r).
Fixpoint q_delete_last (q : list wrec) (r : wrec) : option (list wrec) :=
  match q with
  | [] => None
  | x :: rest =>
    match q_delete_last rest r with
    | Some rest' => Some (x :: rest')
    | None => if w_match r x then Some rest else None
    end
  end.

(* WithdrawQueue.Insert: at position n, at the end if n is out of range *)
Fixpoint ins_at {A} (n : nat) (x : A) (l : list A) : list A :=
  match n, l with
  | O, _ => x :: l
  | S n', y :: r => y :: ins_at n' x r
  | S _, [] => [x]
  end.

Definition v_entry_revert (fx : fixes) (e : ventry) (v : vside) : option vside :=
  match e with
  | EValCreate a prev indexed =>
    match find (vals v) a with
    | None => None
    | Some x =>
      let v1 := decr_stat x v in
      if f_create fx
      then Some (set_vals (match prev with Some p => set (vals v1) a p | None => del (vals v1) a end)
                          (if indexed then vindex v1 else rem (vindex v1) a) v1)
      else Some (set_vals (del (vals v1) a) (rem (vindex v1) a) v1)
    end
  | EValDelete a ov => Some (if f_journal fx then incr_stat ov (set_validator ov v) else set_validator ov v)
  | EValUpdate a ov nv =>
    (* what the statistics count is the record stored now (fix 7813a3d; the journal's newVal is a
       pointer that an in-place caller may have written since) *)
    let counted := match find (vals v) a with Some x => x | None => nv end in
    let v1 := set_validator ov v in
    Some (if stake_equal counted ov then v1 else incr_stat ov (decr_stat counted v1))
  | EValAddUBD r =>
    match queue v with
    | [] => Some v
    | _ => match q_delete_last (queue v) r with Some q => Some (set_queue q v) | None => None end
    end
  | EValDelWithdraw r pos => Some (set_queue (if f_journal fx then ins_at pos r (queue v) else queue v ++ [r]) v)
  end.

Fixpoint v_revert (fx : fixes) (n : nat) (v : vside) : option vside :=
  match n with
  | O => Some v
  | S n' =>
    match j_entries (vjr v) with
    | [] => None
    | e :: rest =>
      match v_entry_revert fx e v with
      | None => None
      | Some v1 =>
        v_revert fx n' (set_vjr (mkJ rest (match v_dirtied e with
                                        | Some x => d_dec (j_dirties (vjr v1)) x
                                        | None => j_dirties (vjr v1) end)) v1)
      end
    end
  end.

(* Finalise, validator part *)
Definition v_finalise (v : vside) : vside :=
  let v1 := fold_left (fun acc a => match find (vals acc) a with
                                    | Some _ => set_vdirty (add (vdirty acc) a) acc
                                    | None => acc end)
                      (map fst (j_dirties (vjr v))) v in
  set_vjr j_empty v1.

(* Validator.IsInvalid: Token.Sign() <= 0 && Stake.Sign() <= 0 (since fix 0cdbb3b) *)
Definition is_invalid (x : validator) : bool := Z.leb (v_token x) 0 && Z.leb (v_stake x) 0.

(* IntermediateRoot, validator part *)
Definition v_flush_one (fx : fixes) (d : bool) (acc : vside) (a : N) : vside :=
  match find (vals acc) a with
  | None => acc
  | Some x =>
    if v_deleted x || (d && is_invalid x)
    then (* deleteValidator *)
      let x' := set_v_deleted true x in
      let acc1 := set_vtrie (del (vtrie acc) a) (set_vals (set (vals acc) a x') (rem (vindex acc) a) acc) in
      if f_remove fx && v_deleted x then acc1 (* RemoveValidator has counted it already *) else decr_stat x' acc1
    else (* updateValidator *)
      set_vtrie (set (vtrie acc) a x) (set_vals (vals acc) (add (vindex acc) a) acc)
  end.
Definition v_intermediate_root (fx : fixes) (d : bool) (v : vside) : vside :=
  let v1 := v_finalise v in
  let v2 := set_vdirty [] (fold_left (v_flush_one fx d) (vdirty v1) v1) in
  set_saved (vindex v2) (stat v2) (queue v2) v2.
(* Commit + state.New + a read of every validator of the index *)
Definition v_reopen (fx : fixes) (d : bool) (v : vside) : vside :=
  let v1 := v_intermediate_root fx d v in
  let fresh := mkVS [] (vtrie v1) [] (sv_index v1) (sv_index v1) (sv_stat v1) (sv_queue v1)
                    (sv_stat v1) false (sv_queue v1) j_empty in
  fold_left (fun acc kv => set_validator (snd kv) acc) (vtrie v1) fresh.

(* ======================= the whole StateDB =============================== *)

Record state := mkState {
  sa : aside; sv : vside;
  revs : list (N * nat);     (* validRevisions: id, journalIndex *)
  vrevs : list (N * nat);    (* valValidRevisions *)
  next_rev : N
}.
Definition init : state := mkState a_init v_init [] [] 0.

Definition jlen (s : state) : nat := length (j_entries (jr (sa s))).
Definition vjlen (s : state) : nat := length (j_entries (vjr (sv s))).

(* Snapshot *)
Definition snapshot (s : state) : state * N :=
  (mkState (sa s) (sv s) (revs s ++ [(next_rev s, jlen s)]) (vrevs s ++ [(next_rev s, vjlen s)])
           (next_rev s + 1), next_rev s).

(* sort.Search for the first id >= revid, then the equality test *)
Fixpoint rev_search (l : list (N * nat)) (revid : N) (i : nat) : option (nat * nat) :=
  match l with
  | [] => None
  | (id, ji) :: r =>
    if N.leb revid id then (if N.eqb id revid then Some (i, ji) else None)
    else rev_search r revid (S i)
  end.

(* RevertToSnapshot; None = panic *)
Definition revert_to_snapshot (fx : fixes) (s : state) (revid : N) : option state :=
  match rev_search (revs s) revid 0 with
  | None => None
  | Some (idx, ji) =>
    if Nat.ltb (jlen s) ji then None else
    match a_revert (jlen s - ji) (sa s) with
    | None => None
    | Some a' =>
      match rev_search (vrevs s) revid 0 with
      | None => None
      | Some (vidx, vji) =>
        if Nat.ltb (vjlen s) vji then None else
        match v_revert fx (vjlen s - vji) (sv s) with
        | None => None
        | Some v' => Some (mkState a' v' (firstn idx (revs s)) (firstn vidx (vrevs s)) (next_rev s))
        end
      end
    end
  end.

(* Finalise = both finalise loops + clearJournalAndRefund (which resets BOTH revision lists) *)
Definition finalise (d : bool) (s : state) : state :=
  mkState (a_finalise d (sa s)) (v_finalise (sv s)) [] [] (next_rev s).
Definition intermediate_root (fx : fixes) (d : bool) (s : state) : state :=
  mkState (a_intermediate_root d (sa s)) (v_intermediate_root fx d (sv s)) [] [] (next_rev s).
Definition reopen (fx : fixes) (d : bool) (s : state) : state :=
  mkState (a_reopen d (sa s)) (v_reopen fx d (sv s)) [] [] 0.

Inductive op :=
| OAddBalance (a : N) (v : Z) | OSubBalance (a : N) (v : Z) | OSetBalance (a : N) (v : Z)
| OSetNonce (a n : N) | OSetCode (a : N) (c : list N) | OSetState (a k v : N)
| OSuicide (a : N) | OCreateAccount (a : N) | OAddLog (id : N) | OAddPreimage (h id : N)
| OAddRefund (g : N) | OSubRefund (g : N)
| OUpdateDelegator (a tov : N) (delta : Z) (dl : bool) | OPrepare (th ti : N)
| OCreateValidator (a role status : N) (stake token : Z)
| OUpdateVal (a role status : N) (stake token : Z) (payload : N)
| ORemoveValidator (a : N) | OGetValidator (a : N)
| OAddWithdraw (r : wrec) | ORemoveWithdraws (idx : list nat)
| OSnapshot | ORevert (id : N)
| OFinalise (d : bool) | OIntermediateRoot (d : bool) | OReopen (d : bool).

Definition with_a (s : state) (a : aside) : state := mkState a (sv s) (revs s) (vrevs s) (next_rev s).
Definition with_v (s : state) (v : vside) : state := mkState (sa s) v (revs s) (vrevs s) (next_rev s).
Definition b2z (b : bool) : Z := if b then 1%Z else 0%Z.

(* one API call; the Z is the call's return value; None = panic *)
Definition step (fx : fixes) (o : op) (s : state) : option (state * Z) :=
  match o with
  | OAddBalance a v => Some (with_a s (add_balance (sa s) a v), 0%Z)
  | OSubBalance a v => Some (with_a s (sub_balance (sa s) a v), 0%Z)
  | OSetBalance a v => Some (with_a s (set_balance (sa s) a v), 0%Z)
  | OSetNonce a n => Some (with_a s (set_nonce (sa s) a n), 0%Z)
  | OSetCode a c => Some (with_a s (set_code (sa s) a c), 0%Z)
  | OSetState a k v => Some (with_a s (set_state (sa s) a k v), 0%Z)
  | OSuicide a => let (a1, r) := suicide (sa s) a in Some (with_a s a1, b2z r)
  | OCreateAccount a => Some (with_a s (create_account (sa s) a), 0%Z)
  | OAddLog id => Some (with_a s (add_log (sa s) id), 0%Z)
  | OAddPreimage h id => Some (with_a s (add_preimage (sa s) h id), 0%Z)
  | OAddRefund g => Some (with_a s (add_refund (sa s) g), 0%Z)
  | OSubRefund g => match sub_refund (sa s) g with Some a1 => Some (with_a s a1, 0%Z) | None => None end
  | OUpdateDelegator a tov delta dl => Some (with_a s (update_delegator (sa s) a tov delta dl), 0%Z)
  | OPrepare th ti => Some (with_a s (set_thash th ti (sa s)), 0%Z)
  | OCreateValidator a role status stake token =>
    let (v1, r) := create_validator (sv s) a role status stake token in Some (with_v s v1, b2z r)
  | OUpdateVal a role status stake token payload =>
    let (v1, r) := update_val_op (sv s) a role status stake token payload in Some (with_v s v1, b2z r)
  | ORemoveValidator a => let (v1, r) := remove_validator fx (sv s) a in Some (with_v s v1, b2z r)
  | OGetValidator a =>
    let (v1, r) := get_validator (sv s) a in
    Some (with_v s v1, match r with Some _ => 1%Z | None => 0%Z end)
  | OAddWithdraw r => Some (with_v s (add_withdraw (sv s) r), 1%Z)
  | ORemoveWithdraws idx =>
    match remove_withdraws fx (sv s) idx with Some v1 => Some (with_v s v1, 1%Z) | None => None end
  | OSnapshot => let (s1, id) := snapshot s in Some (s1, Z.of_N id)
  | ORevert id => match revert_to_snapshot fx s id with Some s1 => Some (s1, 0%Z) | None => None end
  | OFinalise d => Some (finalise d s, 0%Z)
  | OIntermediateRoot d => Some (intermediate_root fx d s, 0%Z)
  | OReopen d => Some (reopen fx d s, 0%Z)
  end.

(* run a history; None = some call panicked *)
Fixpoint run (fx : fixes) (ops : list op) (s : state) : option state :=
  match ops with
  | [] => Some s
  | o :: r => match step fx o s with Some (s1, _) => run fx r s1 | None => None end
  end.

(* ======================= observation ===================================== *)
(* What the harness reads from the implementation after every call, flattened
   to a list of integers in exactly this order. *)

Definition U_ADDR : list N := [1; 2; 3; 4; 5; 6]%N.
Definition U_KEY : list N := [1; 2; 3]%N.
Definition U_TH : list N := [1; 2; 3]%N.
Definition U_PRE : list N := [1; 2]%N.
Definition U_VAL : list N := [1; 2; 3; 4]%N.

Definition zn (n : N) : Z := Z.of_N n.
Definition znat (n : nat) : Z := Z.of_nat n.
Definition zlist (l : list N) : list Z := znat (length l) :: map zn l.

(* Exist, Empty, GetBalance, GetNonce, GetCode, HasSuicided, delegation balance and list,
   GetState and GetCommittedState for every key of the universe *)
Definition obs_acct (a : aside) (ad : N) : list Z :=
  match get_obj a ad with
  | None => [0; 1; 0; 0; 0; 0; 0; 0]%Z ++ flat_map (fun _ => [0; 0]%Z) U_KEY
  | Some o =>
    [1%Z; b2z (empty_obj o); o_balance o; zn (o_nonce o)] ++ zlist (o_code o)
    ++ [b2z (o_suicided o); o_dlgbal o] ++ zlist (o_dlgs o)
    ++ flat_map (fun k => [zn (get_state o k); zn (get_committed o k)]) U_KEY
  end.
Definition obs_acct_int (a : aside) (ad : N) : list Z :=
  [zn (d_count (j_dirties (jr a)) ad); b2z (mem (pending a) ad); b2z (mem (sdirty a) ad)].
Definition obs_amisc (a : aside) : list Z :=
  [zn (refund a); zn (logsize a); znat (length (j_entries (jr a)))]
  ++ flat_map (fun th => znat (length (loglist a th))
                         :: flat_map (fun l : logrec => let '(id, ti, ix) := l in [zn id; zn ti; zn ix]) (loglist a th)) U_TH
  ++ flat_map (fun h => match find (preimages a) h with Some id => [1%Z; zn id] | None => [0; 0]%Z end) U_PRE.
Definition obs_aside (a : aside) : list Z :=
  flat_map (fun ad => obs_acct a ad ++ obs_acct_int a ad) U_ADDR ++ obs_amisc a.

Definition obs_bucket (b : bucket) : list Z :=
  [b_on_stake b; b_on_token b; zn (b_on_count b); b_off_stake b; b_off_token b; zn (b_off_count b)].
Definition obs_stat (s : vstat) : list Z :=
  obs_bucket (k0 s) ++ obs_bucket (k1 s) ++ obs_bucket (k2 s) ++ obs_bucket (r1 s) ++ obs_bucket (r2 s) ++ obs_bucket (r3 s).
Definition obs_val (v : vside) (a : N) : list Z :=
  (match peek_validator v a with
   | None => [0; 0; 0; 0; 0; 0]%Z
   | Some x => [1%Z; zn (v_role x); zn (v_status x); v_stake x; v_token x; zn (v_payload x)]
   end)
  ++ (match find (vals v) a with None => [0; 0]%Z | Some x => [1%Z; b2z (v_deleted x)] end)
  ++ [b2z (mem (vindex v) a); zn (d_count (j_dirties (vjr v)) a); b2z (mem (vdirty v) a)].
Definition obs_queue (q : list wrec) : list Z :=
  znat (length q) :: flat_map (fun r => [zn (w_op r); zn (w_nonce r); zn (w_payload r)]) q.
Definition obs_vside (v : vside) : list Z :=
  flat_map (obs_val v) U_VAL ++ obs_stat (stat v) ++ [b2z (stat_mod v)] ++ obs_queue (queue v)
  ++ [znat (length (j_entries (vjr v)))].
Definition obs_revs (l : list (N * nat)) : list Z :=
  znat (length l) :: flat_map (fun r => [zn (fst r); znat (snd r)]) l.
Definition obs_full (s : state) : list Z :=
  obs_aside (sa s) ++ obs_vside (sv s) ++ obs_revs (revs s) ++ obs_revs (vrevs s) ++ [zn (next_rev s)].

(* The harness records a checksum of the full observation after every call
   (the Coq parser is too slow for the raw vectors; [trace_full] gives them). *)
Definition CK_M : Z := 2305843009213693951%Z.    (* 2^61 - 1, used as a bit mask *)
(* folds an integer of up to 305 bits and its sign into 61 bits *)
Definition ck_mix (x : Z) : Z :=
  if Z.leb 0 x && Z.ltb x CK_M then x else
  let a0 := Z.abs x in
  let a1 := Z.shiftr a0 61 in
  let a2 := Z.shiftr a1 61 in
  let a3 := Z.shiftr a2 61 in
  let a4 := Z.shiftr a3 61 in
  Z.land a0 CK_M + 3 * Z.land a1 CK_M + 5 * Z.land a2 CK_M + 7 * Z.land a3 CK_M + 11 * Z.land a4 CK_M
  + (if Z.ltb x 0 then 13 else 0).
(* h := (33 h + mix x) mod 2^61 *)
Definition cks (l : list Z) : Z :=
  fold_left (fun h x => Z.land (Z.shiftl h 5 + h + ck_mix x) CK_M) l (Z.of_nat (length l)).

(* the trace of a history: per call, the checksum of (return value :: state read
   back); -1 and stop on a panic *)
Fixpoint trace (fx : fixes) (ops : list op) (s : state) : list Z :=
  match ops with
  | [] => []
  | o :: r =>
    match step fx o s with
    | None => [(-1)%Z]
    | Some (s1, ret) => cks (ret :: obs_full s1) :: trace fx r s1
    end
  end.
Fixpoint trace_full (fx : fixes) (ops : list op) (s : state) : list (list Z) :=
  match ops with
  | [] => []
  | o :: r =>
    match step fx o s with
    | None => [[(-1)%Z]]
    | Some (s1, ret) => (ret :: obs_full s1) :: trace_full fx r s1
    end
  end.

(* ---- correspondence runner ---------------------------------------------- *)
(* c_fixed: which repairs the tree under test showed *)
Record case := mkCase { c_fixed : fixes; c_ops : list op; c_obs : list Z }.

Fixpoint zl_eqb (a b : list Z) : bool :=
  match a, b with
  | [], [] => true
  | x :: a', y :: b' => Z.eqb x y && zl_eqb a' b'
  | _, _ => false
  end.
Definition case_ok (c : case) : bool := zl_eqb (trace (c_fixed c) (c_ops c) init) (c_obs c).

Fixpoint mismatches_from (i : N) (l : list case) : list N :=
  match l with
  | [] => []
  | c :: r => if case_ok c then mismatches_from (i + 1) r else i :: mismatches_from (i + 1) r
  end.
Definition mismatches := mismatches_from 0.

(* debugging aid: index of the first call whose record differs *)
Fixpoint first_diff (a b : list Z) (i : N) : option N :=
  match a, b with
  | [], [] => None
  | x :: a', y :: b' => if Z.eqb x y then first_diff a' b' (i + 1) else Some i
  | _, _ => Some i
  end.
Definition case_diff (c : case) : option N := first_diff (trace (c_fixed c) (c_ops c) init) (c_obs c) 0.
