(* C09 - lemmas about the association lists, sets and dirty counters of Model.v *)
From VF.C09 Require Import Model.
From Coq Require Import Lia ZifyBool ZifyN ZifyNat.

Section MapLemmas.
  Context {V : Type}.
  Implicit Types (m : list (N * V)) (k : N) (v : V).

  Lemma find_set_same : forall m k v, find (set m k v) k = Some v.
  Proof.
    induction m as [|[k' v'] r IH]; intros k v; cbn.
    - now rewrite N.eqb_refl.
    - destruct (N.eqb k' k) eqn:E; cbn.
      + now rewrite N.eqb_refl.
      + rewrite E. apply IH.
  Qed.

  Lemma find_set_other : forall m k k' v, k' <> k -> find (set m k v) k' = find m k'.
  Proof.
    induction m as [|[k0 v0] r IH]; intros k k' v Hne; cbn.
    - destruct (N.eqb k k') eqn:E; [apply N.eqb_eq in E; congruence | reflexivity].
    - destruct (N.eqb k0 k) eqn:E; cbn.
      + apply N.eqb_eq in E; subst k0.
        destruct (N.eqb k k') eqn:E2; [apply N.eqb_eq in E2; congruence | reflexivity].
      + destruct (N.eqb k0 k'); [reflexivity | now apply IH].
  Qed.

  Lemma set_same_id : forall m k v, find m k = Some v -> set m k v = m.
  Proof.
    induction m as [|[k' v'] r IH]; intros k v H; cbn in *; [discriminate|].
    destruct (N.eqb k' k) eqn:E.
    - apply N.eqb_eq in E; subst. now inversion H.
    - f_equal. now apply IH.
  Qed.

  Lemma set_set : forall m k v v', set (set m k v) k v' = set m k v'.
  Proof.
    induction m as [|[k' v0] r IH]; intros k v v'; cbn.
    - now rewrite N.eqb_refl.
    - destruct (N.eqb k' k) eqn:E; cbn.
      + now rewrite N.eqb_refl.
      + rewrite E. f_equal. apply IH.
  Qed.

  Lemma del_absent : forall m k, find m k = None -> del m k = m.
  Proof.
    induction m as [|[k' v'] r IH]; intros k H; cbn in *; [reflexivity|].
    destruct (N.eqb k' k); [discriminate|]. f_equal. now apply IH.
  Qed.

  Lemma del_set_absent : forall m k v, find m k = None -> del (set m k v) k = m.
  Proof.
    induction m as [|[k' v'] r IH]; intros k v H; cbn in *.
    - now rewrite N.eqb_refl.
    - destruct (N.eqb k' k) eqn:E; [discriminate|]. cbn. rewrite E. f_equal. now apply IH.
  Qed.

  Lemma find_del_same : forall m k, find (del m k) k = None.
  Proof.
    induction m as [|[k' v'] r IH]; intros k; cbn; [reflexivity|].
    destruct (N.eqb k' k) eqn:E; [apply IH|]. cbn. rewrite E. apply IH.
  Qed.

  Lemma find_del_other : forall m k k', k' <> k -> find (del m k) k' = find m k'.
  Proof.
    induction m as [|[k0 v0] r IH]; intros k k' Hne; cbn; [reflexivity|].
    destruct (N.eqb k0 k) eqn:E.
    - apply N.eqb_eq in E; subst.
      destruct (N.eqb k k') eqn:E2; [apply N.eqb_eq in E2; congruence|]. now apply IH.
    - cbn. destruct (N.eqb k0 k'); [reflexivity|]. now apply IH.
  Qed.

  Lemma find_set : forall m k k' v, find (set m k v) k' = if N.eqb k k' then Some v else find m k'.
  Proof.
    intros. destruct (N.eqb k k') eqn:E.
    - apply N.eqb_eq in E; subst. apply find_set_same.
    - apply find_set_other. intro; subst. now rewrite N.eqb_refl in E.
  Qed.
End MapLemmas.

(* sets *)
Lemma mem_app_single : forall l k x, mem (l ++ [x]) k = mem l k || N.eqb x k.
Proof.
  induction l as [|y r IH]; intros; cbn.
  - destruct (N.eqb x k); reflexivity.
  - destruct (N.eqb y k); [reflexivity | apply IH].
Qed.

Lemma mem_add : forall l k x, mem (add l x) k = mem l k || N.eqb x k.
Proof.
  intros. unfold add. destruct (mem l x) eqn:E.
  - destruct (N.eqb x k) eqn:E2; [apply N.eqb_eq in E2; subst; rewrite E; reflexivity | now rewrite orb_false_r].
  - apply mem_app_single.
Qed.

Lemma add_mem_id : forall l k, mem l k = true -> add l k = l.
Proof. intros. unfold add. now rewrite H. Qed.

Lemma rem_absent : forall l k, mem l k = false -> rem l k = l.
Proof.
  induction l as [|x r IH]; intros k H; cbn in *; [reflexivity|].
  destruct (N.eqb x k); [discriminate|]. f_equal. now apply IH.
Qed.

Lemma rem_add_absent : forall l k, mem l k = false -> rem (add l k) k = l.
Proof.
  intros. unfold add. rewrite H.
  induction l as [|x r IH]; cbn in *.
  - now rewrite N.eqb_refl.
  - destruct (N.eqb x k) eqn:E; [discriminate|]. f_equal. now apply IH.
Qed.

Lemma mem_rem : forall l k x, mem (rem l x) k = mem l k && negb (N.eqb x k).
Proof.
  induction l as [|y r IH]; intros; cbn; [reflexivity|].
  destruct (N.eqb y x) eqn:E.
  - apply N.eqb_eq in E; subst. rewrite IH.
    destruct (N.eqb x k); cbn; [now rewrite andb_false_r | reflexivity].
  - cbn. destruct (N.eqb y k) eqn:E2.
    + apply N.eqb_eq in E2; subst. rewrite N.eqb_sym in E. now rewrite E.
    + apply IH.
Qed.

(* dirty counters: one increment followed by one decrement is the identity *)
Lemma d_dec_inc : forall m k, d_dec (d_inc m k) k = m.
Proof.
  induction m as [|[k' c] r IH]; intros k; cbn.
  - now rewrite N.eqb_refl.
  - destruct (N.eqb k' k) eqn:E; cbn; rewrite E.
    + destruct (Pos.succ c) eqn:Es; try (now rewrite <- Es, Pos.pred_succ).
      exfalso. now apply (Pos.succ_not_1 c).
    + f_equal. apply IH.
Qed.

Lemma firstn_app_exact {A} : forall (l r : list A), firstn (length l) (l ++ r) = l.
Proof. intros. rewrite firstn_app, Nat.sub_diag, firstn_all. cbn. apply app_nil_r. Qed.

Lemma journal_eta : forall E (j : journal E), mkJ (j_entries j) (j_dirties j) = j.
Proof. now destruct j. Qed.
