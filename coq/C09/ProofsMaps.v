(* C09 - lemmas about the association lists, sets and dirty counters of Model.v *)
From VF.C09 Require Import Model.
From Coq Require Import Lia ZifyBool ZifyN ZifyNat.

Section MapLemmas.
  Context {V : Type}.
  Implicit Types (m : list (N * V)) (k : N) (v : V).

  Lemma find_set_same : forall m k v, find (set m k v) k = Some v.
  Proof.
    induction m as [|[k' v'] r IH]; intros k v; cbn.
    - now rewrite N.eqb_refl.
    - destruct (N.eqb k' k) eqn:E; cbn.
      + now rewrite N.eqb_refl.
      + rewrite E. apply IH.
  Qed.

  Lemma find_set_other : forall m k k' v, k' <> k -> find (set m k v) k' = find m k'.
  Proof.
    induction m as [|[k0 v0] r IH]; intros k k' v Hne; cbn.
    - destruct (N.eqb k k') eqn:E; [apply N.eqb_eq in E; congruence | reflexivity].
    - destruct (N.eqb k0 k) eqn:E; cbn.
      + apply N.eqb_eq in E; subst k0.
        destruct (N.eqb k k') eqn:E2; [apply N.eqb_eq in E2; congruence | reflexivity].
      + destruct (N.eqb k0 k'); [reflexivity | now apply IH].
  Qed.

  Lemma set_same_id : forall m k v, find m k = Some v -> set m k v = m.
  Proof.
    induction m as [|[k' v'] r IH]; intros k v H; cbn in *; [discriminate|].
    destruct (N.eqb k' k) eqn:E.
    - apply N.eqb_eq in E; subst. now inversion H.
    - f_equal. now apply IH.
  Qed.

  Lemma set_set : forall m k v v', set (set m k v) k v' = set m k v'.
  Proof.
    induction m as [|[k' v0] r IH]; intros k v v'; cbn.
    - now rewrite N.eqb_refl.
    - destruct (N.eqb k' k) eqn:E; cbn.
      + now rewrite N.eqb_refl.
      + rewrite E. f_equal. apply IH.
  Qed.

  Lemma del_absent : forall m k, find m k = None -> del m k = m.
  Proof.
    induction m as [|[k' v'] r IH]; intros k H; cbn in *; [reflexivity|].
    destruct (N.eqb k' k); [discriminate|]. f_equal. now apply IH.
  Qed.

  Lemma del_set_absent : forall m k v, find m k = None -> del (set m k v) k = m.
  Proof.
    induction m as [|[k' v'] r IH]; intros k v H; cbn in *.
    - now rewrite N.eqb_refl.
    - destruct (N.eqb k' k) eqn:E; [discriminate|]. cbn. rewrite E. f_equal. now apply IH.
  Qed.

  Lemma find_del_same : forall m k, find (del m k) k = None.
  Proof.
    induction m as [|[k' v'] r IH]; intros k; cbn; [reflexivity|].
    destruct (N.eqb k' k) eqn:E; [apply IH|]. cbn. rewrite E. apply IH.
  Qed.

  Lemma find_del_other : forall m k k', k' <> k -> find (del m k) k' = find m k'.
  Proof.
    induction m as [|[k0 v0] r IH]; intros k k' Hne; cbn; [reflexivity|].
    destruct (N.eqb k0 k) eqn:E.
    - apply N.eqb_eq in E; subst.
      destruct (N.eqb k k') eqn:E2; [apply N.eqb_eq in E2; congruence|]. now apply IH.
    - cbn. destruct (N.eqb k0 k'); [reflexivity|]. now apply IH.
  Qed.

  Lemma find_set : forall m k k' v, find (set m k v) k' = if N.eqb k k' then Some v else find m k'.
  Proof.
    intros. destruct (N.eqb k k') eqn:E.
    - apply N.eqb_eq in E; subst. apply find_set_same.
    - apply find_set_other. intro; subst. now rewrite N.eqb_refl in E.
  Qed.
End MapLemmas.

(* sets *)
Lemma mem_ins_set : forall l k x, mem (ins_set l x) k = mem l k || N.eqb x k.
Proof.
  induction l as [|y r IH]; intros; cbn.
  - destruct (N.eqb x k); reflexivity.
  - destruct (N.ltb x y); cbn.
    + destruct (N.eqb x k), (N.eqb y k); cbn; auto using orb_comm. now rewrite orb_true_r. now rewrite orb_false_r.
    + destruct (N.eqb y k); [reflexivity | apply IH].
Qed.

Lemma mem_add : forall l k x, mem (add l x) k = mem l k || N.eqb x k.
Proof.
  intros. unfold add. destruct (mem l x) eqn:E.
  - destruct (N.eqb x k) eqn:E2; [apply N.eqb_eq in E2; subst; rewrite E; reflexivity | now rewrite orb_false_r].
  - apply mem_ins_set.
Qed.

Lemma add_mem_id : forall l k, mem l k = true -> add l k = l.
Proof. intros. unfold add. now rewrite H. Qed.

Lemma rem_absent : forall l k, mem l k = false -> rem l k = l.
Proof.
  induction l as [|x r IH]; intros k H; cbn in *; [reflexivity|].
  destruct (N.eqb x k); [discriminate|]. f_equal. now apply IH.
Qed.

Lemma rem_add_absent : forall l k, mem l k = false -> rem (add l k) k = l.
Proof.
  intros. unfold add. rewrite H.
  induction l as [|x r IH]; cbn in *.
  - now rewrite N.eqb_refl.
  - destruct (N.eqb x k) eqn:E; [discriminate|]. destruct (N.ltb k x); cbn.
    + rewrite N.eqb_refl, E. f_equal. now apply rem_absent.
    + rewrite E. f_equal. now apply IH.
Qed.

Lemma mem_rem : forall l k x, mem (rem l x) k = mem l k && negb (N.eqb x k).
Proof.
  induction l as [|y r IH]; intros; cbn; [reflexivity|].
  destruct (N.eqb y x) eqn:E.
  - apply N.eqb_eq in E; subst. rewrite IH.
    destruct (N.eqb x k); cbn; [now rewrite andb_false_r | reflexivity].
  - cbn. destruct (N.eqb y k) eqn:E2.
    + apply N.eqb_eq in E2; subst. rewrite N.eqb_sym in E. now rewrite E.
    + apply IH.
Qed.

(* dirty counters: one increment followed by one decrement is the identity *)
Lemma d_dec_inc : forall m k, d_dec (d_inc m k) k = m.
Proof.
  induction m as [|[k' c] r IH]; intros k; cbn.
  - now rewrite N.eqb_refl.
  - destruct (N.eqb k' k) eqn:E; cbn; rewrite E.
    + destruct (Pos.succ c) eqn:Es; try (now rewrite <- Es, Pos.pred_succ).
      exfalso. now apply (Pos.succ_not_1 c).
    + f_equal. apply IH.
Qed.

Lemma firstn_app_exact {A} : forall (l r : list A), firstn (length l) (l ++ r) = l.
Proof. intros. rewrite firstn_app, Nat.sub_diag, firstn_all. cbn. apply app_nil_r. Qed.

Lemma journal_eta : forall E (j : journal E), mkJ (j_entries j) (j_dirties j) = j.
Proof. now destruct j. Qed.

(* strictly ascending lists: removing a member and adding it again is the identity *)
Fixpoint asc (l : list N) : Prop :=
  match l with [] => True | x :: r => (forall y, mem r y = true -> (x < y)%N) /\ asc r end.
Fixpoint ascb (l : list N) : bool :=
  match l with [] => true | x :: r => forallb (fun y => N.ltb x y) r && ascb r end.

Lemma mem_In : forall l y, mem l y = true <-> In y l.
Proof.
  induction l as [|x r IH]; intros y; cbn; [split; [discriminate | tauto]|].
  destruct (N.eqb x y) eqn:E.
  - apply N.eqb_eq in E. subst. tauto.
  - rewrite IH. apply N.eqb_neq in E. split; [tauto | intros [H|H]; [congruence | exact H]].
Qed.
Lemma ascb_asc : forall l, ascb l = true -> asc l.
Proof.
  induction l as [|x r IH]; intros H; cbn in *; [exact I|].
  apply andb_true_iff in H. destruct H as [H1 H2]. split; [|auto].
  intros y Hy. apply mem_In in Hy. rewrite forallb_forall in H1. specialize (H1 _ Hy). now apply N.ltb_lt.
Qed.

Lemma add_rem_asc : forall l k, asc l -> mem l k = true -> add (rem l k) k = l.
Proof.
  induction l as [|x r IH]; intros k Ha Hm; cbn in *; [discriminate|].
  destruct Ha as [Hx Hr]. destruct (N.eqb x k) eqn:E.
  - apply N.eqb_eq in E. subst x.
    assert (Hnk : mem r k = false).
    { destruct (mem r k) eqn:Em; [|reflexivity]. specialize (Hx _ Em). lia. }
    rewrite (rem_absent _ _ Hnk). unfold add. rewrite Hnk.
    destruct r as [|y r']; cbn; [reflexivity|].
    assert (k < y)%N by (apply Hx; cbn; now rewrite N.eqb_refl).
    apply N.ltb_lt in H. now rewrite H.
  - unfold add. cbn. rewrite E.
    assert (Hmr : mem (rem r k) k = false) by (rewrite mem_rem, N.eqb_refl; cbn; apply andb_false_r).
    rewrite Hmr. cbn.
    assert (x < k)%N by (apply Hx; exact Hm).
    assert (N.ltb k x = false) by (apply N.ltb_ge; lia). rewrite H0. f_equal.
    specialize (IH k Hr Hm). unfold add in IH. now rewrite Hmr in IH.
Qed.

