(* C09 - an invariant of the validator side of the model (code as it is now,
   all repairs in) from which the side conditions of ProofsV.v follow: the
   statistics are the sum of the contributions of the existing (not deleted)
   validator records, all stakes and tokens are non-negative, the index holds
   every existing validator, and the validator trie agrees with the live map
   outside the addresses that are still marked dirty. *)
From VF.C09 Require Import Model ProofsMaps ProofsV.
From Coq Require Import Lia ZifyBool ZifyN ZifyNat.

Definition FXN : fixes := mkFx true true true.

Definition incr_s (x : validator) (s : vstat) : vstat := stat_apply (b_add x) (v_role x) s.
Definition decr_s (x : validator) (s : vstat) : vstat := stat_apply (b_sub x) (v_role x) s.
Fixpoint sumstat (l : list validator) : vstat :=
  match l with [] => stat_zero | x :: r => incr_s x (sumstat r) end.
Definition nonneg (x : validator) : Prop := (0 <= v_stake x)%Z /\ (0 <= v_token x)%Z.
Definition nd (x : validator) : bool := negb (v_deleted x).
Definition nds (m : list (N * validator)) : list validator := filter nd (map snd m).
Arguments nds : simpl never.

Section Algebra.
Transparent stat_apply b_add b_sub cnt_inc cnt_dec sat_sub.

Lemma b_add_comm : forall x y b, b_add x (b_add y b) = b_add y (b_add x b).
Proof.
  intros x y [a1 a2 a3 a4 a5 a6]. unfold b_add; cbn.
  destruct (N.eqb (v_status x) 1), (N.eqb (v_status y) 1); cbn; f_equal; lia.
Qed.

Lemma incr_comm : forall x y s, incr_s x (incr_s y s) = incr_s y (incr_s x s).
Proof.
  intros x y [a b c d e f]. unfold incr_s, stat_apply.
  destruct (v_role x) as [|[[|[]|]|[|[]|]|]]; destruct (v_role y) as [|[[|[]|]|[|[]|]|]]; cbn;
    try reflexivity; f_equal; apply b_add_comm.
Qed.

Lemma b_add_ok : forall x b, bucket_ok b -> nonneg x -> bucket_ok (b_add x b).
Proof.
  intros x [a1 a2 a3 a4 a5 a6] (H1 & H2 & H3 & H4 & H5 & H6) [Hs Ht]. unfold b_add, bucket_ok; cbn in *.
  destruct (N.eqb (v_status x) 1); cbn; repeat split; auto using cnt_inc_lt; lia.
Qed.

Lemma incr_ok : forall x s, stat_ok s -> nonneg x -> stat_ok (incr_s x s).
Proof.
  intros x [a b c d e f] (H1 & H2 & H3 & H4 & H5 & H6) Hn. unfold incr_s, stat_apply, stat_ok; cbn in *.
  destruct (v_role x) as [|[[|[]|]|[|[]|]|]]; cbn; intuition auto using b_add_ok.
Qed.

Lemma stat_zero_ok : stat_ok stat_zero.
Proof. unfold stat_ok, stat_zero, bucket_ok, b_zero; cbn. assert (0 < M64)%N by reflexivity. intuition lia. Qed.

Lemma b_covers_add : forall y b, bucket_ok b -> nonneg y -> b_covers y (b_add y b).
Proof.
  intros y [a1 a2 a3 a4 a5 a6] (H1 & H2 & H3 & H4 & H5 & H6) [Hs Ht]. unfold b_covers, b_add; cbn in *.
  destruct (N.eqb (v_status y) 1) eqn:E; cbn; lia.
Qed.

Lemma covers_incr : forall y s, stat_ok s -> nonneg y -> covers (incr_s y s) y.
Proof.
  intros y [a b c d e f] (H1 & H2 & H3 & H4 & H5 & H6) Hn. unfold covers, incr_s, stat_apply; cbn in *.
  destruct (v_role y) as [|[[|[]|]|[|[]|]|]]; cbn; auto; repeat split; now apply b_covers_add.
Qed.

Lemma b_add_ext : forall x y b,
  v_status x = v_status y -> v_stake x = v_stake y -> v_token x = v_token y -> b_add x b = b_add y b.
Proof. intros x y b H1 H2 H3. unfold b_add. now rewrite H1, H2, H3. Qed.
Lemma b_sub_ext : forall x y b,
  v_status x = v_status y -> v_stake x = v_stake y -> v_token x = v_token y -> b_sub x b = b_sub y b.
Proof. intros x y b H1 H2 H3. unfold b_sub. now rewrite H1, H2, H3. Qed.

Lemma stat_apply_ext : forall f g r s, (forall b, f b = g b) -> stat_apply f r s = stat_apply g r s.
Proof.
  intros f g r [a b c d e h] H. unfold stat_apply. destruct r as [|[[|[]|]|[|[]|]|]]; cbn; rewrite ?H; reflexivity.
Qed.
End Algebra.

Lemma incr_ext : forall x y s, stake_equal x y = true -> incr_s x s = incr_s y s.
Proof.
  intros x y s H. unfold stake_equal in H.
  apply andb_true_iff in H. destruct H as [H H4]. apply andb_true_iff in H. destruct H as [H H3].
  apply andb_true_iff in H. destruct H as [H1 H2].
  apply N.eqb_eq in H1. apply Z.eqb_eq in H2. apply Z.eqb_eq in H3. apply N.eqb_eq in H4.
  unfold incr_s. rewrite H1. apply stat_apply_ext. intros b. now apply b_add_ext.
Qed.

Lemma decr_deleted_copy : forall x s, decr_s (set_v_deleted true x) s = decr_s x s.
Proof. intros x s. unfold decr_s. cbn. apply stat_apply_ext. intros b. now apply b_sub_ext. Qed.

Lemma sumstat_ok : forall l, Forall nonneg l -> stat_ok (sumstat l).
Proof.
  induction 1; cbn [sumstat]; [apply stat_zero_ok | now apply incr_ok].
Qed.

Lemma sumstat_mid : forall l1 y l2, sumstat (l1 ++ y :: l2) = incr_s y (sumstat (l1 ++ l2)).
Proof.
  induction l1 as [|x l1 IH]; intros y l2; cbn; [reflexivity|]. rewrite IH. apply incr_comm.
Qed.

Lemma decr_incr : forall y s, stat_ok s -> decr_s y (incr_s y s) = s.
Proof. intros y s H. unfold decr_s, incr_s. now apply stat_sub_add. Qed.

(* ---- association lists ----------------------------------------------------- *)
Lemma NoDup_snoc {A} : forall (l : list A) a, NoDup l -> ~ In a l -> NoDup (l ++ [a]).
Proof.
  induction l as [|x r IH]; intros a Hn Hi; cbn; [constructor; [tauto | constructor]|].
  inversion Hn; subst. constructor.
  - rewrite in_app_iff. cbn. intros [H|[H|[]]]; [tauto | subst; apply Hi; now left].
  - apply IH; auto. intros H; apply Hi; now right.
Qed.

Section Assoc.
  Context {V : Type}.
  Implicit Types (m : list (N * V)).

  Lemma find_none_notin : forall m a, find m a = None <-> ~ In a (map fst m).
  Proof.
    induction m as [|[k v] r IH]; intros a; cbn; [tauto|].
    destruct (N.eqb k a) eqn:E.
    - apply N.eqb_eq in E. subst. split; [discriminate | intros H; exfalso; apply H; now left].
    - apply N.eqb_neq in E. rewrite IH. tauto.
  Qed.

  Lemma find_In : forall m a x, NoDup (map fst m) -> (In (a, x) m <-> find m a = Some x).
  Proof.
    induction m as [|[k v] r IH]; intros a x Hn; cbn; [split; [tauto | discriminate]|].
    inversion Hn as [|? ? Hk Hr]; subst. destruct (N.eqb k a) eqn:E.
    - apply N.eqb_eq in E. subst k. split.
      + intros [H|H]; [now inversion H|]. exfalso. apply Hk. change a with (fst (a, x)). now apply in_map.
      + intros H; inversion H; subst. now left.
    - apply N.eqb_neq in E. rewrite <- (IH a x Hr). split; [intros [H|H]; [inversion H; congruence | exact H] | tauto].
  Qed.

  Lemma set_none : forall m a v, find m a = None -> set m a v = m ++ [(a, v)].
  Proof.
    induction m as [|[k w] r IH]; intros a v H; cbn in *; [reflexivity|].
    destruct (N.eqb k a); [discriminate|]. f_equal. now apply IH.
  Qed.

  Lemma set_split : forall m a y, find m a = Some y ->
    exists m1 m2, m = m1 ++ (a, y) :: m2 /\ forall v, set m a v = m1 ++ (a, v) :: m2.
  Proof.
    induction m as [|[k w] r IH]; intros a y H; cbn in *; [discriminate|].
    destruct (N.eqb k a) eqn:E.
    - apply N.eqb_eq in E. subst k. inversion H; subst. exists [], r. split; [reflexivity|]. intros v. reflexivity.
    - destruct (IH a y H) as (m1 & m2 & Hm & Hs). exists ((k, w) :: m1), m2. split; [cbn; now rewrite Hm|].
      intros v. cbn. now rewrite Hs.
  Qed.

  Lemma keys_set : forall m a v,
    map fst (set m a v) = match find m a with Some _ => map fst m | None => map fst m ++ [a] end.
  Proof.
    intros m a v. destruct (find m a) as [y|] eqn:E.
    - destruct (set_split m a y E) as (m1 & m2 & Hm & Hs). rewrite Hs, Hm, !map_app. reflexivity.
    - rewrite (set_none _ _ _ E), map_app. reflexivity.
  Qed.

  Lemma NoDup_set : forall m a v, NoDup (map fst m) -> NoDup (map fst (set m a v)).
  Proof.
    intros m a v H. rewrite keys_set. destruct (find m a) eqn:E; [exact H|].
    apply find_none_notin in E. now apply NoDup_snoc.
  Qed.

  Lemma In_del : forall m a p, In p (del m a) -> In p m /\ fst p <> a.
  Proof.
    induction m as [|[k w] r IH]; intros a p H; cbn in *; [tauto|].
    destruct (N.eqb k a) eqn:E.
    - destruct (IH a p H). tauto.
    - destruct H as [H|H]; [subst; cbn; split; [now left | now apply N.eqb_neq] | destruct (IH a p H); tauto].
  Qed.
  Lemma NoDup_del : forall m a, NoDup (map fst m) -> NoDup (map fst (del m a)).
  Proof.
    induction m as [|[k w] r IH]; intros a H; cbn in *; [constructor|]. inversion H; subst.
    destruct (N.eqb k a); [auto|]. cbn. constructor; auto.
    intros Hin. apply in_map_iff in Hin. destruct Hin as (p & Hp & Hin). apply In_del in Hin. destruct Hin as [Hin _].
    apply H2. rewrite <- Hp. now apply in_map.
  Qed.

  Lemma Forall_set : forall (P : N * V -> Prop) m a v, Forall P m -> P (a, v) -> Forall P (set m a v).
  Proof.
    intros P m a v H Hp. destruct (find m a) as [y|] eqn:E.
    - destruct (set_split m a y E) as (m1 & m2 & Hm & Hs). rewrite Hs. rewrite Hm in H.
      apply Forall_app in H. destruct H as [H1 H2]. inversion H2; subst. apply Forall_app. split; auto.
    - rewrite (set_none _ _ _ E). apply Forall_app. split; auto.
  Qed.
End Assoc.

Lemma d_count_inc : forall m k k', d_count (d_inc m k) k' = if N.eqb k k' then (d_count m k' + 1)%N else d_count m k'.
Proof.
  unfold d_count. induction m as [|[x c] r IH]; intros k k'; cbn.
  - destruct (N.eqb k k'); reflexivity.
  - destruct (N.eqb x k) eqn:E; cbn.
    + apply N.eqb_eq in E. subst x. destruct (N.eqb k k'); [|reflexivity]. cbn. lia.
    + destruct (N.eqb x k') eqn:E2.
      * destruct (N.eqb k k') eqn:E3; [|reflexivity]. apply N.eqb_eq in E3. subst. congruence.
      * apply IH.
Qed.
Lemma d_count_nonzero : forall m k, d_count m k <> 0%N <-> In k (map fst m).
Proof.
  intros m k. unfold d_count. destruct (find m k) as [c|] eqn:E.
  - split; [intros _|intros _; discriminate]. destruct (in_dec N.eq_dec k (map fst m)) as [H|H]; [exact H|].
    apply find_none_notin in H. congruence.
  - apply find_none_notin in E. tauto.
Qed.

(* ---- ascending sets -------------------------------------------------------- *)
Lemma asc_ins_set : forall l a, asc l -> mem l a = false -> asc (ins_set l a).
Proof.
  induction l as [|x r IH]; intros a Ha Hm; cbn in *; [split; [intros y H; discriminate | exact I]|].
  destruct Ha as [Hx Hr]. destruct (N.eqb x a) eqn:E; [discriminate|]. apply N.eqb_neq in E.
  destruct (N.ltb a x) eqn:El.
  - apply N.ltb_lt in El. cbn. split; [|split; auto].
    intros y Hy. destruct (N.eqb x y) eqn:E2; [apply N.eqb_eq in E2; subst; exact El|]. specialize (Hx _ Hy). lia.
  - apply N.ltb_ge in El. cbn. split; [|now apply IH].
    intros y Hy. rewrite mem_ins_set in Hy. apply orb_true_iff in Hy. destruct Hy as [Hy|Hy]; [now apply Hx|].
    apply N.eqb_eq in Hy. subst. lia.
Qed.
Lemma asc_add : forall l a, asc l -> asc (add l a).
Proof. intros l a H. unfold add. destruct (mem l a) eqn:E; [exact H | now apply asc_ins_set]. Qed.
Lemma asc_rem : forall l a, asc l -> asc (rem l a).
Proof.
  induction l as [|x r IH]; intros a H; cbn in *; [exact I|]. destruct H as [Hx Hr].
  destruct (N.eqb x a); [now apply IH|]. cbn. split; [|now apply IH].
  intros y Hy. rewrite mem_rem in Hy. apply andb_true_iff in Hy. now apply Hx.
Qed.

(* ---- sums over the live map -------------------------------------------------- *)
Lemma nds_app : forall m1 m2, nds (m1 ++ m2) = nds m1 ++ nds m2.
Proof. intros. unfold nds. now rewrite map_app, filter_app. Qed.
Lemma nds_cons : forall a x m, nds ((a, x) :: m) = if nd x then x :: nds m else nds m.
Proof. intros. unfold nds. cbn. reflexivity. Qed.

Definition entry_ok (kv : N * validator) : Prop := v_addr (snd kv) = fst kv /\ nonneg (snd kv).

Lemma nds_nonneg : forall m, Forall entry_ok m -> Forall nonneg (nds m).
Proof.
  induction 1 as [|[a x] r [_ Hn] Hr IH]; [constructor|]. cbn in Hn. rewrite nds_cons. destruct (nd x); auto.
Qed.

Definition addc (x : validator) (s : vstat) : vstat := if nd x then incr_s x s else s.

(* the sum with the entry of a replaced: both the old and the new sum are that rest plus one contribution *)
Lemma sum_set_some : forall m a y, Forall entry_ok m -> find m a = Some y ->
  exists R, stat_ok R /\ sumstat (nds m) = addc y R /\ forall x, sumstat (nds (set m a x)) = addc x R.
Proof.
  intros m a y He Hf. destruct (set_split m a y Hf) as (m1 & m2 & Hm & Hs).
  exists (sumstat (nds (m1 ++ m2))). split; [|split].
  - apply sumstat_ok, nds_nonneg. rewrite Hm in He. apply Forall_app in He. destruct He as [H1 H2].
    inversion H2; subst. apply Forall_app. auto.
  - rewrite Hm, !nds_app, nds_cons. unfold addc. destruct (nd y); [apply sumstat_mid | reflexivity].
  - intros x. rewrite Hs, !nds_app, nds_cons. unfold addc. destruct (nd x); [apply sumstat_mid | reflexivity].
Qed.
Lemma sum_set_none : forall m a x, find m a = None -> sumstat (nds (set m a x)) = addc x (sumstat (nds m)).
Proof.
  intros m a x Hf. rewrite (set_none _ _ _ Hf), nds_app, nds_cons. unfold addc.
  change (nds []) with (@nil validator). destruct (nd x); [|now rewrite app_nil_r].
  rewrite sumstat_mid. now rewrite app_nil_r.
Qed.

(* ---- the invariant ------------------------------------------------------------ *)
Definition ndo (o : option validator) : option validator :=
  match o with Some x => if v_deleted x then None else Some x | None => None end.
Definition dirtyset (v : vside) (a : N) : Prop :=
  mem (vdirty v) a = true \/ d_count (j_dirties (vjr v)) a <> 0%N.

(* [ex]: the addresses exempt from trie coherence (still marked dirty) *)
Record VIx (ex : N -> Prop) (v : vside) : Prop := {
  vi_nodup : NoDup (map fst (vals v));
  vi_entries : Forall entry_ok (vals v);
  vi_index : forall a x, find (vals v) a = Some x -> v_deleted x = false -> mem (vindex v) a = true;
  vi_asc : asc (vindex v);
  vi_stat : stat v = sumstat (nds (vals v));
  vi_tnodup : NoDup (map fst (vtrie v));
  vi_coh : forall a, ex a \/ find (vtrie v) a = ndo (find (vals v) a);
  vi_dlive : forall a, ex a -> find (vals v) a <> None
}.
Definition VI (v : vside) : Prop := VIx (dirtyset v) v.

Lemma VI_veq : forall v1 v2, veq v1 v2 -> VI v1 -> VI v2.
Proof.
  intros v1 v2 (E1 & E2 & E3 & E4 & E5 & E6 & E7 & E8 & E9 & E10) [H1 H2 H3 H4 H5 H6 H7 H8].
  unfold VI, dirtyset in *. constructor; rewrite <- ?E1, <- ?E2, <- ?E3, <- ?E4, <- ?E8, <- ?E10; auto.
Qed.

Lemma VI_init : VI v_init.
Proof.
  constructor; cbn.
  - constructor.
  - constructor.
  - intros b x H; discriminate.
  - exact I.
  - reflexivity.
  - constructor.
  - intros b. now right.
  - intros b [H|H]; [discriminate | now cbn in H].
Qed.

Lemma VI_entry : forall ex v a x, VIx ex v -> find (vals v) a = Some x -> v_addr x = a /\ nonneg x.
Proof.
  intros ex v a x H Hf. apply (find_In _ _ _ (vi_nodup _ _ H)) in Hf.
  pose proof (vi_entries _ _ H) as He. rewrite Forall_forall in He. exact (He _ Hf).
Qed.
Lemma VI_stat_ok : forall ex v, VIx ex v -> stat_ok (stat v).
Proof. intros ex v H. rewrite (vi_stat _ _ H). apply sumstat_ok, nds_nonneg, (vi_entries _ _ H). Qed.
Lemma VI_trie_none : forall v a, VI v -> find (vals v) a = None -> find (vtrie v) a = None.
Proof.
  intros v a H Hf. destruct (vi_coh _ _ H a) as [Hd|Hc]; [exfalso; exact (vi_dlive _ _ H a Hd Hf) | now rewrite Hc, Hf].
Qed.
Lemma VI_covers : forall ex v a x, VIx ex v -> find (vals v) a = Some x -> v_deleted x = false -> covers (stat v) x.
Proof.
  intros ex v a x H Hf Hd. destruct (sum_set_some _ _ _ (vi_entries _ _ H) Hf) as (R & HR & Hs & _).
  rewrite (vi_stat _ _ H), Hs. unfold addc, nd. rewrite Hd. cbn. apply covers_incr; auto.
  now destruct (VI_entry _ _ _ _ H Hf).
Qed.

(* the side conditions of ProofsV.v hold in every state satisfying the invariant *)
Lemma VI_create_ok : forall v a, VI v -> create_ok FXN v a.
Proof.
  intros v a H. unfold create_ok. destruct (find (vals v) a) as [x|] eqn:Hf.
  - destruct (v_deleted x); [split; [reflexivity | exact (VI_stat_ok _ _ H)] | exact I].
  - split; [now apply VI_trie_none | split; [now left | exact (VI_stat_ok _ _ H)]].
Qed.
Lemma VI_update_ok : forall v a, VI v -> update_ok v a.
Proof.
  intros v a H. unfold update_ok. destruct (find (vals v) a) as [x|] eqn:Hf; [|now apply VI_trie_none].
  destruct (v_deleted x) eqn:Hd; [now left | right].
  destruct (VI_entry _ _ _ _ H Hf) as [Ha _].
  split; [exact Ha | split; [exact (vi_index _ _ H a x Hf Hd) | split; [exact (VI_stat_ok _ _ H) | exact (VI_covers _ _ _ _ H Hf Hd)]]].
Qed.
Lemma VI_remove_ok : forall v a, VI v -> remove_ok FXN v a.
Proof.
  intros v a H. unfold remove_ok. destruct (find (vals v) a) as [x|] eqn:Hf; [|exact I].
  destruct (v_deleted x) eqn:Hd; [left; auto | right].
  destruct (VI_entry _ _ _ _ H Hf) as [Ha _].
  split; [exact Ha | split; [exact (vi_index _ _ H a x Hf Hd) | split; [intros _; exact (vi_asc _ _ H) |
    split; [exact (VI_stat_ok _ _ H) | exact (VI_covers _ _ _ _ H Hf Hd)]]]].
Qed.
Lemma VI_get_ok : forall v a, VI v -> get_ok v a.
Proof.
  intros v a H. unfold get_ok. destruct (find (vals v) a) eqn:Hf; [left; discriminate | right; now apply VI_trie_none].
Qed.

(* ---- preservation by the journalled validator mutations ---------------------- *)
Lemma VI_touch : forall v v' a x',
  VI v ->
  vals v' = set (vals v) a x' -> entry_ok (a, x') ->
  asc (vindex v') ->
  (forall b y, find (vals v') b = Some y -> v_deleted y = false -> mem (vindex v') b = true) ->
  stat v' = sumstat (nds (vals v')) ->
  vtrie v' = vtrie v -> vdirty v' = vdirty v ->
  j_dirties (vjr v') = d_inc (j_dirties (vjr v)) a ->
  VI v'.
Proof.
  intros v v' a x' H Hv He Hasc Hidx Hst Ht Hd Hj.
  constructor.
  - rewrite Hv. apply NoDup_set, (vi_nodup _ _ H).
  - rewrite Hv. apply Forall_set; [apply (vi_entries _ _ H) | exact He].
  - exact Hidx.
  - exact Hasc.
  - exact Hst.
  - rewrite Ht. apply (vi_tnodup _ _ H).
  - intros b. unfold dirtyset. rewrite Hd, Hj, Ht, Hv, d_count_inc.
    destruct (N.eqb a b) eqn:E.
    + left. right. lia.
    + apply N.eqb_neq in E. rewrite find_set_other by congruence. destruct (vi_coh _ _ H b) as [Hx|Hx]; [left; exact Hx | now right].
  - intros b. unfold dirtyset. rewrite Hd, Hj, Hv, d_count_inc, find_set.
    destruct (N.eqb a b) eqn:E; [discriminate|]. intros Hx. apply (vi_dlive _ _ H b Hx).
Qed.

Lemma index_after_add : forall v a x' idx,
  VI v -> (forall b, mem idx b = mem (vindex v) b || N.eqb a b) ->
  forall b y, find (set (vals v) a x') b = Some y -> v_deleted y = false -> mem idx b = true.
Proof.
  intros v a x' idx H Hm b y Hf Hd. rewrite Hm. rewrite find_set in Hf. destruct (N.eqb a b) eqn:E; [apply orb_true_r|].
  rewrite orb_false_r. exact (vi_index _ _ H b y Hf Hd).
Qed.

Lemma VI_create : forall v a role status stake token,
  VI v -> (0 <= stake)%Z -> (0 <= token)%Z -> VI (fst (create_validator v a role status stake token)).
Proof.
  intros v a role status stake token H Hs Ht. unfold create_validator, get_validator.
  destruct (find (vals v) a) as [x0|] eqn:Hf; cbv beta iota.
  - destruct (v_deleted x0) eqn:Hd; [|exact H]. cbn [fst].
    set (x := mkV a role status stake token 0 false).
    destruct (sum_set_some _ _ _ (vi_entries _ _ H) Hf) as (R & HR & Hs0 & Hs1).
    eapply (VI_touch v _ a x H); cbn; try reflexivity.
    + split; [reflexivity | split; assumption].
    + apply asc_add, (vi_asc _ _ H).
    + apply (index_after_add v a x _ H). intros b. apply mem_add.
    + rewrite (Hs1 x), (vi_stat _ _ H), Hs0. unfold addc, nd. rewrite Hd. reflexivity.
  - rewrite (VI_trie_none _ _ H Hf). cbn [fst].
    set (x := mkV a role status stake token 0 false).
    eapply (VI_touch v _ a x H); cbn; try reflexivity.
    + split; [reflexivity | split; assumption].
    + apply asc_add, (vi_asc _ _ H).
    + apply (index_after_add v a x _ H). intros b. apply mem_add.
    + rewrite (sum_set_none _ _ x Hf), (vi_stat _ _ H). reflexivity.
Qed.

Lemma VI_update : forall v a role status stake token payload,
  VI v -> (0 <= stake)%Z -> (0 <= token)%Z -> VI (fst (update_val_op v a role status stake token payload)).
Proof.
  intros v a role status stake token payload H Hs Ht. unfold update_val_op, get_validator.
  destruct (find (vals v) a) as [ov|] eqn:Hf; cbv beta iota.
  - destruct (v_deleted ov) eqn:Hd; [exact H|]. cbn [fst].
    set (nv := mkV a role status stake token payload (v_deleted ov)).
    destruct (sum_set_some _ _ _ (vi_entries _ _ H) Hf) as (R & HR & Hs0 & Hs1).
    assert (Hst : stat v = incr_s ov R) by (rewrite (vi_stat _ _ H), Hs0; unfold addc, nd; now rewrite Hd).
    assert (Hnew : sumstat (nds (set (vals v) a nv)) = incr_s nv R)
      by (rewrite (Hs1 nv); unfold addc, nd; subst nv; cbn; now rewrite Hd).
    unfold update_validator. destruct (stake_equal nv ov) eqn:Hse.
    + eapply (VI_touch v _ a nv H); cbn; try reflexivity.
      * split; [reflexivity | split; assumption].
      * apply asc_add, (vi_asc _ _ H).
      * apply (index_after_add v a nv _ H). intros b. apply mem_add.
      * rewrite Hnew, Hst. symmetry. now apply incr_ext.
    + eapply (VI_touch v _ a nv H); cbn; try reflexivity.
      * split; [reflexivity | split; assumption].
      * apply asc_add, (vi_asc _ _ H).
      * apply (index_after_add v a nv _ H). intros b. apply mem_add.
      * rewrite Hnew, Hst. change (stat_apply (b_sub ov) (v_role ov) (incr_s ov R)) with (decr_s ov (incr_s ov R)).
        rewrite (decr_incr _ _ HR). reflexivity.
  - rewrite (VI_trie_none _ _ H Hf). exact H.
Qed.

Lemma VI_remove : forall v a, VI v -> VI (fst (remove_validator FXN v a)).
Proof.
  intros v a H. unfold remove_validator. cbn [f_remove f_journal FXN].
  destruct (find (vals v) a) as [x|] eqn:Hf; cbv beta iota; [|exact H].
  destruct (v_deleted x) eqn:Hd; [exact H|]. cbn [andb fst].
  destruct (sum_set_some _ _ _ (vi_entries _ _ H) Hf) as (R & HR & Hs0 & Hs1).
  destruct (VI_entry _ _ _ _ H Hf) as [Ha Hn].
  eapply (VI_touch v _ a (set_v_deleted true x) H); cbn; try reflexivity.
  - split; [exact Ha | exact Hn].
  - apply asc_rem, (vi_asc _ _ H).
  - intros b y Hfb Hdy. rewrite find_set in Hfb. rewrite mem_rem. destruct (N.eqb a b) eqn:E.
    + inversion Hfb; subst y. discriminate Hdy.
    + cbn. rewrite andb_true_r. exact (vi_index _ _ H b y Hfb Hdy).
  - rewrite (Hs1 (set_v_deleted true x)), (vi_stat _ _ H), Hs0. unfold addc, nd. cbn. rewrite Hd. cbn.
    change (stat_apply (b_sub x) (v_role x) (incr_s x R)) with (decr_s x (incr_s x R)). now apply decr_incr.
Qed.

Lemma VI_same_core : forall v v',
  VI v -> vals v' = vals v -> vtrie v' = vtrie v -> vdirty v' = vdirty v -> vindex v' = vindex v ->
  stat v' = stat v -> j_dirties (vjr v') = j_dirties (vjr v) -> VI v'.
Proof.
  intros v v' [H1 H2 H3 H4 H5 H6 H7 H8] E1 E2 E3 E4 E5 E6. unfold VI, dirtyset in *.
  constructor; rewrite ?E1, ?E2, ?E3, ?E4, ?E5, ?E6; auto.
Qed.

Lemma VI_add_withdraw : forall v r, VI v -> VI (add_withdraw v r).
Proof. intros v r H. eapply VI_same_core; eauto. Qed.

Lemma VI_remove_withdraws : forall v idx b, VI v -> remove_withdraws FXN v idx = Some b -> VI b.
Proof.
  intros v idx b H Hr. unfold remove_withdraws in Hr. cbn [f_journal FXN negb andb] in Hr.
  destruct (nths (queue v) (sort_desc idx)) as [removed|]; [|discriminate]. inversion Hr; subst b. clear Hr.
  pose proof (fold_dw_append (combine removed (sort_desc idx)) (set_queue (drop_idx (queue v) idx 0) v)) as Hf.
  cbn zeta in Hf. destruct Hf as (E & D & F1 & F2 & F3 & F4 & F5 & F6 & F7 & F8 & F9 & F10).
  eapply VI_same_core; eauto.
Qed.

Lemma VI_get : forall v a, VI v -> VI (fst (get_validator v a)).
Proof. intros v a H. now rewrite (op_get_validator v a (VI_get_ok v a H)). Qed.

(* ---- Finalise ------------------------------------------------------------------- *)
Definition fin_step (acc : vside) (a : N) : vside :=
  match find (vals acc) a with Some _ => set_vdirty (add (vdirty acc) a) acc | None => acc end.

Lemma fin_fold : forall l acc,
  let r := fold_left fin_step l acc in
  vals r = vals acc /\ vtrie r = vtrie acc /\ vindex r = vindex acc /\ stat r = stat acc /\ vjr r = vjr acc /\
  (forall b, mem (vdirty r) b = true <-> (mem (vdirty acc) b = true \/ (In b l /\ find (vals acc) b <> None))).
Proof.
  induction l as [|a l IH]; intros acc; cbn.
  - repeat split; auto; tauto.
  - specialize (IH (fin_step acc a)). cbn in IH. destruct IH as (E1 & E2 & E3 & E4 & E5 & E6).
    assert (Hs : vals (fin_step acc a) = vals acc /\ vtrie (fin_step acc a) = vtrie acc /\ vindex (fin_step acc a) = vindex acc
                 /\ stat (fin_step acc a) = stat acc /\ vjr (fin_step acc a) = vjr acc)
      by (unfold fin_step; destruct (find (vals acc) a); cbn; auto).
    destruct Hs as (S1 & S2 & S3 & S4 & S5).
    rewrite E1, E2, E3, E4, E5, S1, S2, S3, S4, S5. repeat split; auto.
    + intros Hb. apply E6 in Hb. rewrite S1 in Hb. destruct Hb as [Hb|[Hin Hl]]; [|right; split; [now right | exact Hl]].
      unfold fin_step in Hb. destruct (find (vals acc) a) eqn:Ef; [|now left]. cbn in Hb. rewrite mem_add in Hb.
      apply orb_true_iff in Hb. destruct Hb as [Hb|Hb]; [now left|]. apply N.eqb_eq in Hb. subst b.
      right. split; [now left | congruence].
    + intros Hb. apply E6. rewrite S1. destruct Hb as [Hb|[[Hin|Hin] Hl]].
      * left. unfold fin_step. destruct (find (vals acc) a); [|exact Hb]. cbn. rewrite mem_add, Hb. reflexivity.
      * subst b. left. unfold fin_step. destruct (find (vals acc) a); [|congruence]. cbn. rewrite mem_add, N.eqb_refl. apply orb_true_r.
      * right. auto.
Qed.

Lemma VI_finalise : forall v, VI v -> VI (v_finalise v).
Proof.
  intros v H. unfold v_finalise.
  change (fun acc a => match find (vals acc) a with Some _ => set_vdirty (add (vdirty acc) a) acc | None => acc end) with fin_step.
  pose proof (fin_fold (map fst (j_dirties (vjr v))) v) as Hf. cbn zeta in Hf.
  set (r := fold_left fin_step (map fst (j_dirties (vjr v))) v) in *.
  destruct Hf as (E1 & E2 & E3 & E4 & E5 & E6).
  assert (Hd : forall b, dirtyset v b -> mem (vdirty r) b = true).
  { intros b [Hb|Hb]; apply E6; [now left|]. right. split; [now apply d_count_nonzero|]. apply (vi_dlive _ _ H b). now right. }
  destruct H as [H1 H2 H3 H4 H5 H6 H7 H8].
  constructor; cbn; rewrite ?E1, ?E2, ?E3, ?E4; auto.
  - intros b. destruct (H7 b) as [Hx|Hx]; [left; left; cbn; now apply Hd | now right].
  - intros b [Hb|Hb]; [|now cbn in Hb]. cbn in Hb. apply E6 in Hb. destruct Hb as [Hb|[_ Hb]]; [apply H8; now left | exact Hb].
Qed.

(* ---- IntermediateRoot -------------------------------------------------------------- *)
Lemma set_deleted_id : forall x, v_deleted x = true -> set_v_deleted true x = x.
Proof. intros [a r s st t p d] H. cbn in H. subst. reflexivity. Qed.

Lemma VIx_weaken : forall (ex ex' : N -> Prop) v, (forall a, ex a -> ex' a) ->
  (forall a, ex' a -> find (vals v) a <> None) -> VIx ex v -> VIx ex' v.
Proof.
  intros ex ex' v Hw Hl [H1 H2 H3 H4 H5 H6 H7 H8]. constructor; auto.
  intros a. destruct (H7 a); [left; auto | now right].
Qed.

Lemma flush_vjr : forall d acc a, vjr (v_flush_one FXN d acc a) = vjr acc /\ vdirty (v_flush_one FXN d acc a) = vdirty acc.
Proof.
  intros d acc a. unfold v_flush_one. destruct (find (vals acc) a) as [x|]; [|auto].
  destruct (v_deleted x || d && is_invalid x); [destruct (f_remove FXN && v_deleted x)|]; cbn; auto.
Qed.

Lemma VI_flush : forall d acc a rest,
  VIx (fun b => In b (a :: rest)) acc -> VIx (fun b => In b rest) (v_flush_one FXN d acc a).
Proof.
  intros d acc a rest H. unfold v_flush_one.
  destruct (find (vals acc) a) as [x|] eqn:Hf; [|exfalso; exact (vi_dlive _ _ H a (or_introl eq_refl) Hf)].
  destruct (sum_set_some _ _ _ (vi_entries _ _ H) Hf) as (R & HR & Hs0 & Hs1).
  destruct (VI_entry _ _ _ _ H Hf) as [Ha Hn].
  pose proof H as [H1 H2 H3 H4 H5 H6 H7 H8].
  assert (Hcoh_other : forall (vt' : list (N * validator)) (vl' : list (N * validator)) b,
            b <> a -> find vt' b = find (vtrie acc) b -> find vl' b = find (vals acc) b ->
            In b rest \/ find vt' b = ndo (find vl' b)).
  { intros vt' vl' b Hne E1 E2. destruct (H7 b) as [[Hx|Hx]|Hx]; [congruence | now left | right; now rewrite E1, E2]. }
  destruct (v_deleted x || d && is_invalid x) eqn:Hc.
  - (* deleteValidator *)
    set (x' := set_v_deleted true x).
    assert (Hcore : forall st',
              st' = R ->
              VIx (fun b => In b rest)
                  (mkVS (set (vals acc) a x') (del (vtrie acc) a) (vdirty acc) (rem (vindex acc) a) (sv_index acc) (sv_stat acc)
                        (sv_queue acc) st' (stat_mod acc) (queue acc) (vjr acc)) ->
              True) by auto.
    assert (Hbuild : forall st' sm', st' = R ->
              VIx (fun b => In b rest)
                  (mkVS (set (vals acc) a x') (del (vtrie acc) a) (vdirty acc) (rem (vindex acc) a) (sv_index acc) (sv_stat acc)
                        (sv_queue acc) st' sm' (queue acc) (vjr acc))).
    { intros st' sm' Hst. constructor; cbn.
      - now apply NoDup_set.
      - apply Forall_set; auto. split; [exact Ha | exact Hn].
      - intros b y Hfb Hdy. rewrite find_set in Hfb. rewrite mem_rem. destruct (N.eqb a b) eqn:E.
        + inversion Hfb; subst y. discriminate Hdy.
        + cbn. rewrite andb_true_r. exact (H3 b y Hfb Hdy).
      - now apply asc_rem.
      - rewrite (Hs1 x'), Hst. unfold addc, nd. reflexivity.
      - now apply NoDup_del.
      - intros b. destruct (N.eq_dec b a) as [->|Hne].
        + right. rewrite find_del_same, find_set_same. reflexivity.
        + apply Hcoh_other; [exact Hne | now apply find_del_other | now apply find_set_other].
      - intros b Hb. rewrite find_set. destruct (N.eqb a b); [discriminate|]. apply H8. now right. }
    clear Hcore. cbn [f_remove FXN andb].
    destruct (v_deleted x) eqn:Hd.
    + destruct acc as [va vt vd vi si ss sq st sm q j]; cbn in *. apply Hbuild.
      rewrite H5, Hs0. unfold addc, nd. rewrite Hd. reflexivity.
    + destruct acc as [va vt vd vi si ss sq st sm q j]; cbn in *. apply Hbuild.
      rewrite H5, Hs0. unfold addc, nd. rewrite Hd. cbn.
      change (stat_apply (b_sub x') (v_role x) (incr_s x R)) with (decr_s x' (incr_s x R)).
      unfold x'. rewrite decr_deleted_copy. now apply decr_incr.
  - (* updateValidator *)
    apply orb_false_iff in Hc. destruct Hc as [Hd _].
    destruct acc as [va vt vd vi si ss sq st sm q j]; cbn in *.
    constructor; cbn; auto.
    + intros b y Hfb Hdy. rewrite mem_add. rewrite (H3 b y Hfb Hdy). reflexivity.
    + now apply asc_add.
    + now apply NoDup_set.
    + intros b. destruct (N.eq_dec b a) as [->|Hne].
      * right. rewrite find_set_same, Hf. cbn. now rewrite Hd.
      * apply (Hcoh_other (set vt a x) va b Hne); [now apply find_set_other | reflexivity].
Qed.

Lemma VI_flush_fold : forall d l acc,
  VIx (fun b => In b l) acc ->
  let r := fold_left (v_flush_one FXN d) l acc in
  VIx (fun _ => False) r /\ vjr r = vjr acc /\ vdirty r = vdirty acc.
Proof.
  induction l as [|a l IH]; intros acc H; cbn.
  - split; [|auto]. eapply VIx_weaken; [| |exact H]; cbn; tauto.
  - destruct (IH _ (VI_flush d acc a l H)) as (R1 & R2 & R3). destruct (flush_vjr d acc a) as [F1 F2].
    cbn in R1, R2, R3. rewrite R2, R3, F1, F2. auto.
Qed.

(* after IntermediateRoot the trie agrees with the live map everywhere *)
Lemma VI_root_strong : forall d v, VI v ->
  let r := v_intermediate_root FXN d v in
  VIx (fun _ => False) r /\ vdirty r = [] /\ j_dirties (vjr r) = [] /\ sv_index r = vindex r /\ sv_stat r = stat r /\ sv_queue r = queue r.
Proof.
  intros d v H. pose proof (VI_finalise v H) as H1. unfold v_intermediate_root.
  set (v1 := v_finalise v) in *.
  assert (Hj : j_dirties (vjr v1) = []) by reflexivity.
  assert (Hx : VIx (fun b => In b (vdirty v1)) v1).
  { eapply VIx_weaken; [| |exact H1].
    - intros a [Ha|Ha]; [now apply mem_In | rewrite Hj in Ha; now cbn in Ha].
    - intros a Ha. apply (vi_dlive _ _ H1 a). left. now apply mem_In. }
  destruct (VI_flush_fold d _ _ Hx) as (R1 & R2 & R3). cbn zeta in *.
  remember (fold_left (v_flush_one FXN d) (vdirty v1) v1) as v2 eqn:Ev2. clear Ev2.
  destruct R1 as [A1 A2 A3 A4 A5 A6 A7 A8]. destruct v2 as [va vt vd vi si ss sq st sm q j]. cbn in *.
  split; [constructor; cbn; auto|]. subst j. auto.
Qed.

Lemma VI_root : forall d v, VI v -> VI (v_intermediate_root FXN d v).
Proof.
  intros d v H. destruct (VI_root_strong d v H) as (R & _). eapply VIx_weaken; [| |exact R]; cbn; [tauto|].
  intros a [Ha|Ha].
  - destruct (VI_root_strong d v H) as (_ & Hd & _). cbn zeta in Hd. rewrite Hd in Ha. discriminate.
  - destruct (VI_root_strong d v H) as (_ & _ & Hj & _). cbn zeta in Hj. rewrite Hj in Ha. now cbn in Ha.
Qed.

(* ---- Commit + reopen ------------------------------------------------------------------ *)
From Coq Require Import Permutation.

Lemma sumstat_perm : forall l1 l2, Permutation l1 l2 -> sumstat l1 = sumstat l2.
Proof.
  induction 1; cbn [sumstat]; auto.
  - now rewrite IHPermutation.
  - apply incr_comm.
  - congruence.
Qed.

Lemma rebuild : forall l acc,
  (forall kv, In kv l -> v_addr (snd kv) = fst kv /\ mem (vindex acc) (fst kv) = true) ->
  NoDup (map fst (vals acc ++ l)) ->
  let r := fold_left (fun acc kv => set_validator (snd kv) acc) l acc in
  vals r = vals acc ++ l /\ vindex r = vindex acc /\ vtrie r = vtrie acc /\ vdirty r = vdirty acc /\
  stat r = stat acc /\ vjr r = vjr acc.
Proof.
  induction l as [|[k x] l IH]; intros acc Hl Hn; cbn.
  - rewrite app_nil_r. repeat split; reflexivity.
  - destruct (Hl (k, x) (or_introl eq_refl)) as [Hk Hi]. cbn in Hk, Hi.
    assert (Hf : find (vals acc) k = None).
    { apply find_none_notin. rewrite map_app in Hn. apply NoDup_remove_2 in Hn. cbn in Hn.
      intros Hin. apply Hn. rewrite in_app_iff. now left. }
    set (acc1 := set_validator x acc).
    assert (E1 : vals acc1 = vals acc ++ [(k, x)]) by (unfold acc1, set_validator; cbn; rewrite Hk; now apply set_none).
    assert (E2 : vindex acc1 = vindex acc) by (unfold acc1, set_validator; cbn; rewrite Hk; now apply add_mem_id).
    specialize (IH acc1). cbn zeta in IH. rewrite E1, E2, <- app_assoc in IH. cbn in IH.
    destruct IH as (R1 & R2 & R3 & R4 & R5 & R6).
    + intros kv Hin. apply Hl. now right.
    + exact Hn.
    + rewrite R1, R2, R3, R4, R5, R6. unfold acc1, set_validator; cbn. repeat split; reflexivity.
Qed.

Lemma nds_all : forall m, (forall kv, In kv m -> v_deleted (snd kv) = false) -> nds m = map snd m.
Proof.
  induction m as [|[k x] m IH]; intros H; [reflexivity|]. rewrite nds_cons. unfold nd.
  pose proof (H (k, x) (or_introl eq_refl)) as Hx. cbn in Hx. rewrite Hx. cbn. f_equal. apply IH. intros kv Hin. apply H. now right.
Qed.

Lemma In_nds : forall m x, In x (nds m) <-> exists a, In (a, x) m /\ v_deleted x = false.
Proof.
  intros m x. unfold nds. rewrite filter_In, in_map_iff. unfold nd. split.
  - intros [[[a y] [Hy Hin]] Hd]. cbn in Hy. subst y. exists a. split; [exact Hin | now apply negb_true_iff].
  - intros [a [Hin Hd]]. split; [exists (a, x); auto | now apply negb_true_iff].
Qed.

Lemma NoDup_snd : forall m, NoDup (map fst m) -> Forall entry_ok m -> NoDup (map snd m).
Proof.
  intros m Hn He. apply (NoDup_map_inv v_addr). rewrite map_map.
  replace (map (fun x => v_addr (snd x)) m) with (map fst m); [exact Hn|].
  apply map_ext_in. intros kv Hin. rewrite Forall_forall in He. now destruct (He _ Hin).
Qed.

Lemma VI_reopen : forall d v, VI v -> VI (v_reopen FXN d v).
Proof.
  intros d v H. destruct (VI_root_strong d v H) as (R & Hd & Hj & S1 & S2 & S3). cbn zeta in *.
  unfold v_reopen. remember (v_intermediate_root FXN d v) as v1 eqn:Ev1. clear Ev1.
  destruct R as [A1 A2 A3 A4 A5 A6 A7 A8].
  assert (Hcoh : forall b, find (vtrie v1) b = ndo (find (vals v1) b)) by (intros b; destruct (A7 b); tauto).
  assert (Hent : forall b x, In (b, x) (vtrie v1) -> find (vals v1) b = Some x /\ v_deleted x = false).
  { intros b x Hin. apply (find_In _ _ _ A6) in Hin. rewrite Hcoh in Hin. destruct (find (vals v1) b) as [y|]; [|discriminate].
    cbn in Hin. destruct (v_deleted y) eqn:E; [discriminate|]. inversion Hin; subst. auto. }
  assert (Hok : Forall entry_ok (vtrie v1)).
  { apply Forall_forall. intros [b x] Hin. destruct (Hent b x Hin) as [Hf _]. apply (find_In _ _ _ A1) in Hf.
    rewrite Forall_forall in A2. exact (A2 _ Hf). }
  set (fresh := mkVS [] (vtrie v1) [] (sv_index v1) (sv_index v1) (sv_stat v1) (sv_queue v1) (sv_stat v1) false (sv_queue v1) j_empty).
  destruct (rebuild (vtrie v1) fresh) as (R1 & R2 & R3 & R4 & R5 & R6).
  { intros [b x] Hin. cbn. destruct (Hent b x Hin) as [Hf Hdx]. split.
    - rewrite Forall_forall in Hok. now destruct (Hok _ Hin).
    - rewrite S1. exact (A3 b x Hf Hdx). }
  { exact A6. }
  cbn zeta in *. cbn in R1, R2, R3, R4, R5, R6.
  set (r := fold_left (fun acc kv => set_validator (snd kv) acc) (vtrie v1) fresh) in *.
  assert (Hperm : Permutation (nds (vtrie v1)) (nds (vals v1))).
  { apply NoDup_Permutation.
    - rewrite nds_all by (intros [b x] Hin; exact (proj2 (Hent b x Hin))). now apply NoDup_snd.
    - apply NoDup_filter. now apply NoDup_snd.
    - intros x. rewrite !In_nds. split.
      + intros [a [Hin Hdx]]. exists a. destruct (Hent a x Hin) as [Hf _]. split; [now apply (find_In _ _ _ A1) | exact Hdx].
      + intros [a [Hin Hdx]]. exists a. split; [|exact Hdx]. apply (find_In _ _ _ A6). rewrite Hcoh.
        apply (find_In _ _ _ A1) in Hin. rewrite Hin. cbn. now rewrite Hdx. }
  constructor; rewrite ?R1, ?R2, ?R3, ?R5; auto.
  - intros b x Hf Hdx. rewrite S1. apply (find_In _ _ _ A6) in Hf. destruct (Hent b x Hf) as [Hf' _]. exact (A3 b x Hf' Hdx).
  - rewrite S1. exact A4.
  - rewrite S2, A5. symmetry. now apply sumstat_perm.
  - intros b. right. destruct (find (vtrie v1) b) as [x|] eqn:Ef; [|reflexivity].
    apply (find_In _ _ _ A6) in Ef. destruct (Hent b x Ef) as [_ Hdx]. cbn. now rewrite Hdx.
  - intros b [Hb|Hb]; [rewrite R4 in Hb; discriminate | rewrite R6 in Hb; now cbn in Hb].
Qed.
