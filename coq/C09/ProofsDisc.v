(* C09 - the validator side conditions of the main theorem discharged from the
   invariant of ProofsInv.v: along every history of the current code whose
   validator calls pass non-negative stakes and tokens, the invariant holds in
   every state (including the states reverts go back to), so inside a window
   only the callers' discipline remains as hypothesis. *)
From VF.C09 Require Import Model ProofsMaps ProofsA ProofsV Proofs ProofsInv.
From Coq Require Import Lia ZifyBool ZifyN ZifyNat.

(* what callers must respect everywhere: stake and token of a created / updated record are not negative *)
Definition disciplined (o : op) : bool :=
  match o with
  | OCreateValidator _ _ _ stake token => Z.leb 0 stake && Z.leb 0 token
  | OUpdateVal _ _ _ stake token _ => Z.leb 0 stake && Z.leb 0 token
  | ORemoveWithdraws idx => negb (has_dup idx)        (* distinct positions *)
  | _ => true
  end.
(* ... and inside the window of a snapshot: no Prepare (it belongs before the transaction's
   snapshot) and not the designed RIPEMD touch *)
Definition window_op (o : op) : bool :=
  disciplined o &&
  match o with
  | OAddBalance a v => negb (N.eqb a ripemd && Z.eqb v 0)
  | OPrepare _ _ => false
  | _ => true
  end.

(* every snapshot of the validator revision list has a base state satisfying the
   invariant from which the current state was reached by journalled changes *)
Inductive chain : list (N * nat) -> vside -> Prop :=
| chain_nil : forall v, chain [] v
| chain_snoc : forall vr id b v, chain vr b -> VI b -> vext FXN b v -> chain (vr ++ [(id, vlen b)]) v.

Lemma chain_ext : forall vr v v', chain vr v -> vext FXN v v' -> chain vr v'.
Proof.
  intros vr v v' H Hx. inversion H; subst; [constructor|]. econstructor; eauto using vext_trans.
Qed.

Lemma vext_veq : forall b v v', vext FXN b v -> veq v' v -> vext FXN b v'.
Proof.
  intros b v v' (k & v1 & L & R & E) Hq.
  destruct (v_revert_eq FXN k v v' v1 (veq_sym _ _ Hq) R) as (v1' & R' & E').
  exists k, v1'. split; [|split; [exact R' | eapply veq_trans; [apply veq_sym; exact E' | exact E]]].
  unfold vlen in *. destruct Hq as (_ & _ & _ & _ & _ & _ & _ & _ & _ & Hj). now rewrite Hj.
Qed.

Lemma chain_veq : forall vr v v', chain vr v -> veq v' v -> chain vr v'.
Proof.
  intros vr v v' H Hq. inversion H; subst; [constructor|]. econstructor; eauto using vext_veq.
Qed.

Lemma chain_bound : forall vr v, chain vr v -> forall idx id vji, nth_error vr idx = Some (id, vji) -> vji <= vlen v.
Proof.
  induction 1 as [|vr id0 b v Hc IH Hb Hx]; intros idx id vji Hn; [destruct idx; discriminate|].
  pose proof (vext_len _ _ _ Hx) as Hl.
  destruct (lt_dec idx (length vr)) as [Hlt|Hge].
  - rewrite nth_error_app1 in Hn by exact Hlt. specialize (IH _ _ _ Hn). lia.
  - rewrite nth_error_app2 in Hn by lia. destruct (idx - length vr) as [|n]; cbn in Hn; [|destruct n; discriminate].
    inversion Hn; subst. exact Hl.
Qed.

Lemma chain_revert : forall vr v, chain vr v -> forall idx id vji v',
  nth_error vr idx = Some (id, vji) -> vji <= vlen v ->
  v_revert FXN (vlen v - vji) v = Some v' -> chain (firstn idx vr) v' /\ VI v'.
Proof.
  induction 1 as [|vr id0 b v Hc IH Hb Hx]; intros idx id vji v' Hn Hle Hr; [destruct idx; discriminate|].
  destruct Hx as (k & v1 & L & R & E).
  destruct (lt_dec idx (length vr)) as [Hlt|Hge].
  - rewrite nth_error_app1 in Hn by exact Hlt.
    pose proof (chain_bound _ _ Hc _ _ _ Hn) as Hb2.
    replace (vlen v - vji) with (k + (vlen b - vji)) in Hr by lia.
    rewrite v_revert_add, R in Hr.
    destruct (v_revert_eq FXN _ v1 b v' E Hr) as (b' & Rb & Eb).
    destruct (IH _ _ _ _ Hn Hb2 Rb) as [C1 C2].
    rewrite firstn_app. replace (idx - length vr) with 0 by lia. cbn. rewrite app_nil_r.
    split; [eapply chain_veq; eauto | eapply VI_veq; [apply veq_sym; exact Eb | exact C2]].
  - rewrite nth_error_app2 in Hn by lia. destruct (idx - length vr) as [|n] eqn:En; cbn in Hn; [|destruct n; discriminate].
    inversion Hn; subst id vji. assert (idx = length vr) by lia. subst idx.
    replace (vlen v - vlen b) with k in Hr by lia. rewrite R in Hr. inversion Hr; subst v'.
    rewrite firstn_app, Nat.sub_diag, firstn_all. cbn. rewrite app_nil_r.
    split; [eapply chain_veq; eauto | eapply VI_veq; [apply veq_sym; exact E | exact Hb]].
Qed.

(* the invariant of whole states *)
Definition G (s : state) : Prop := wf0 s /\ VI (sv s) /\ chain (vrevs s) (sv s).

Lemma G_init : G init.
Proof. split; [exact wf0_init | split; [exact VI_init | constructor]]. Qed.

Lemma G_with_a : forall s a', G s -> awf a' -> G (with_a s a').
Proof. intros s a' (H1 & H2 & H3) Hw. split; [now apply wf0_with_a | split; assumption]. Qed.
Lemma G_with_v : forall s v', G s -> VI v' -> vext FXN (sv s) v' -> G (with_v s v').
Proof.
  intros s v' (H1 & H2 & H3) Hv Hx. split; [now apply wf0_with_v | split; [exact Hv | cbn; eapply chain_ext; eauto]].
Qed.

Lemma nonneg_args : forall stake token, Z.leb 0 stake && Z.leb 0 token = true -> (0 <= stake)%Z /\ (0 <= token)%Z.
Proof. intros. lia. Qed.

Lemma G_step : forall o s s1 ret, G s -> disciplined o = true -> step FXN o s = Some (s1, ret) -> G s1.
Proof.
  intros o s s1 ret HG Hd Hs. pose proof HG as (Hwf & HV & HC).
  assert (Hwf1 : wf0 s1) by (eapply wf0_step; eauto).
  pose proof Hs as Hs0.
  destruct o; cbn in Hs, Hd;
    try (inversion Hs; subst; split; [exact Hwf1 | split; assumption]; fail).
  - destruct (suicide (sa s) a). inversion Hs; subst. split; [exact Hwf1 | split; assumption].
  - destruct (sub_refund (sa s) g); [|discriminate]. inversion Hs; subst. split; [exact Hwf1 | split; assumption].
  - (* create *)
    destruct (nonneg_args _ _ Hd) as [H1 H2].
    destruct (create_validator (sv s) a role status stake token) as [v1 r] eqn:E. inversion Hs; subst.
    apply G_with_v; auto.
    + pose proof (VI_create (sv s) a role status stake token HV H1 H2) as H. now rewrite E in H.
    + pose proof (op_create_validator FXN (sv s) a role status stake token (VI_create_ok _ _ HV)) as H. now rewrite E in H.
  - destruct (nonneg_args _ _ Hd) as [H1 H2].
    destruct (update_val_op (sv s) a role status stake token payload) as [v1 r] eqn:E. inversion Hs; subst.
    apply G_with_v; auto.
    + pose proof (VI_update (sv s) a role status stake token payload HV H1 H2) as H. now rewrite E in H.
    + pose proof (op_update_val FXN (sv s) a role status stake token payload (VI_update_ok _ _ HV)) as H. now rewrite E in H.
  - destruct (remove_validator FXN (sv s) a) as [v1 r] eqn:E. inversion Hs; subst.
    apply G_with_v; auto.
    + pose proof (VI_remove (sv s) a HV) as H. now rewrite E in H.
    + pose proof (op_remove_validator_fixed FXN (sv s) a eq_refl (VI_remove_ok _ _ HV)) as H. now rewrite E in H.
  - destruct (get_validator (sv s) a) as [v1 r] eqn:E. inversion Hs; subst.
    pose proof (op_get_validator (sv s) a (VI_get_ok _ _ HV)) as H. rewrite E in H. cbn in H. subst v1.
    apply G_with_v; auto using vext_refl.
  - inversion Hs; subst. apply G_with_v; auto using VI_add_withdraw, op_add_withdraw.
  - clear Hs. cbv beta iota delta [step] in Hs0.
    destruct (remove_withdraws FXN (sv s) idx) as [v1|] eqn:E; [|discriminate]. inversion Hs0; subst.
    apply negb_true_iff in Hd.
    apply G_with_v; auto; [eapply VI_remove_withdraws; eauto | eapply op_remove_withdraws_fixed; eauto using has_dup_NoDup].
  - (* snapshot *)
    inversion Hs; subst. split; [exact Hwf1 | split; [exact HV|]]. cbn.
    change (vjlen s) with (vlen (sv s)). econstructor; eauto using vext_refl.
  - (* revert *)
    destruct (revert_to_snapshot FXN s id) as [s'|] eqn:E; [|discriminate]. inversion Hs; subst. clear Hs.
    unfold revert_to_snapshot in E.
    destruct (rev_search (revs s) id 0) as [[idx ji]|]; [|discriminate].
    destruct (Nat.ltb (jlen s) ji); [discriminate|].
    destruct (a_revert (jlen s - ji) (sa s)) as [a'|]; [|discriminate].
    destruct (rev_search (vrevs s) id 0) as [[vidx vji]|] eqn:Evs; [|discriminate].
    destruct (Nat.ltb (vjlen s) vji) eqn:Evl; [discriminate|].
    destruct (v_revert FXN (vjlen s - vji) (sv s)) as [v'|] eqn:Ev; [|discriminate].
    inversion E; subst; clear E. apply Nat.ltb_ge in Evl.
    destruct (rev_search_nth _ _ _ _ _ Evs) as (Hn & _). rewrite Nat.sub_0_r in Hn.
    destruct (chain_revert _ _ HC _ _ _ _ Hn Evl Ev) as [C1 C2].
    split; [exact Hwf1 | split; [exact C2 | exact C1]].
  - inversion Hs; subst. split; [exact Hwf1 | split; [now apply VI_finalise | constructor]].
  - inversion Hs; subst. split; [exact Hwf1 | split; [now apply VI_root | constructor]].
  - inversion Hs; subst. split; [exact Hwf1 | split; [now apply VI_reopen | constructor]].
Qed.

Lemma G_run : forall ops s s', G s -> forallb disciplined ops = true -> run FXN ops s = Some s' -> G s'.
Proof.
  induction ops as [|o r IH]; intros s s' HG Hd Hr; cbn in *.
  - now inversion Hr; subst.
  - apply andb_true_iff in Hd. destruct Hd as [Hd1 Hd2].
    destruct (step FXN o s) as [[s1 ret]|] eqn:E; [|discriminate].
    eapply (IH s1 s'); [eapply G_step; eauto | exact Hd2 | exact Hr].
Qed.

Lemma window_op_disciplined : forall o, window_op o = true -> disciplined o = true.
Proof. intros o H. unfold window_op in H. now apply andb_true_iff in H. Qed.

(* with the invariant, the callers' discipline implies the side conditions of the step lemma *)
Lemma VI_goodP : forall s o, VI (sv s) -> window_op o = true -> good_opP FXN s o.
Proof.
  intros s o HV H. unfold window_op in H. apply andb_true_iff in H. destruct H as [Hd Hw].
  destruct o; cbn in *; auto; try discriminate.
  - intros -> ->. now rewrite N.eqb_refl in Hw.
  - now apply VI_create_ok.
  - now apply VI_update_ok.
  - split; [reflexivity | now apply VI_remove_ok].
  - now apply VI_get_ok.
  - split; [reflexivity|]. apply has_dup_NoDup. now apply negb_true_iff.
Qed.

Lemma sinv_window_disc : forall s0 ops s s',
  G s -> sinv FXN s0 s -> window_gen FXN (fun _ o => window_op o) (next_rev s0) ops s s' -> sinv FXN s0 s'.
Proof.
  intros s0 ops; induction ops as [|o r IH]; intros s s' HG Hinv Hw; cbn in Hw.
  - now subst.
  - destruct Hw as (Hg & s1 & ret & Hs & Hv & Hw). pose proof HG as (_ & HV & _).
    eapply IH; [| |exact Hw].
    + eapply G_step; eauto using window_op_disciplined.
    + eapply sinv_stepP; eauto using VI_goodP.
Qed.

(* MAIN THEOREM with the validator side conditions discharged *)
Theorem revert_restores_disciplined : forall pre s0 ops s,
  run FXN pre init = Some s0 -> forallb disciplined pre = true ->
  window_gen FXN (fun _ o => window_op o) (next_rev s0) ops (fst (snapshot s0)) s ->
  exists s', revert_to_snapshot FXN s (next_rev s0) = Some s' /\ restored s' s0.
Proof.
  intros pre s0 ops s Hr Hd Hw.
  pose proof (G_run pre init s0 G_init Hd Hr) as HG.
  assert (HG1 : G (fst (snapshot s0))) by (eapply (G_step OSnapshot s0); eauto; reflexivity).
  apply sinv_revert. eapply sinv_window_disc; [exact HG1 | | exact Hw].
  apply sinv_start. apply HG.
Qed.

(* the invariant itself, for every disciplined history *)
Theorem validator_invariant_reachable : forall ops s,
  run FXN ops init = Some s -> forallb disciplined ops = true -> VI (sv s).
Proof. intros ops s Hr Hd. exact (proj1 (proj2 (G_run ops init s G_init Hd Hr))). Qed.
