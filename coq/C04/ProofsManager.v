(* C04 - the prover-side sortition manager: whatever the order of queries and
   clears, every view it returns for (round, index, step) is the one computed
   from that round's seed, stake and threshold (fresh_proposer /
   fresh_validator are, by definition, VrfSortition on
   MakeM(seed(round), step, index) with the round's stake info). *)
From VF.C04 Require Import Model.
From Coq Require Import Lia ZifyBool.
Local Open Scope Z_scope.

Section MgrProofs.
  Variables SK Proof : Type.
  Variable evaluate : SK -> list Z -> Z * Proof.
  Variable keccak : list Z -> Z.
  Variable sk : SK.
  Variable env_stake : Z -> bool -> Z -> stake_info.
  Variable env_seed : Z -> Z -> option Z.

  Notation view := (view Proof).
  Notation mgr := (mgr Proof).
  Notation fresh_p := (fresh_proposer SK Proof evaluate keccak sk env_stake env_seed).
  Notation fresh_v := (fresh_validator SK Proof evaluate keccak sk env_stake env_seed).
  Notation mstep := (mstep SK Proof evaluate keccak sk env_stake env_seed).
  Notation mrun := (mrun SK Proof evaluate keccak sk env_stake env_seed).

  (* the only view that may sit in the cache under a key *)
  Definition fresh_for (k : Z * Z * Z) : option view :=
    match k with
    | (r, i, st) =>
      if st =? step_proposal then
        match fresh_p r i with
        | Some v => if 0 <? v_sub Proof v then Some v else None
        | None => None
        end
      else fst (fresh_v r i st (lb_of_step st))
    end.

  Definition cache_ok (s : mgr) : Prop :=
    forall k v, get_view Proof (m_views Proof s) k = Some v -> fresh_for k = Some v.

  (* Voter.vote asks for the vote steps only; step 1 is the proposer's slot *)
  Definition valid_op (o : mop) : Prop :=
    match o with OValidator _ _ st => st <> step_proposal | _ => True end.

  Lemma key_eqb_eq : forall a b, key_eqb a b = true -> a = b.
  Proof.
    intros [[r i] s] [[r' i'] s'] H. cbn in H.
    apply andb_true_iff in H. destruct H as [H H3]. apply andb_true_iff in H. destruct H as [H1 H2].
    apply Z.eqb_eq in H1, H2, H3. subst. reflexivity.
  Qed.

  Lemma put_ok : forall s k v, cache_ok s -> fresh_for k = Some v ->
    cache_ok (put_view Proof s k v).
  Proof.
    intros s k v Hs Hk k' v' H. unfold put_view in H. cbn [m_views get_view] in H.
    destruct (key_eqb k' k) eqn:E.
    - apply key_eqb_eq in E. subst k'. injection H as <-. exact Hk.
    - apply Hs. exact H.
  Qed.

  Lemma init_ok : cache_ok (mgr_init Proof).
  Proof. intros k v H. cbn in H. discriminate H. Qed.

  Lemma mstep_ok : forall s o, cache_ok s -> valid_op o -> cache_ok (fst (mstep s o)).
  Proof.
    intros s o Hs Hv. destruct o as [r|r i|r i st|r i st]; cbn [Model.mstep fst].
    - unfold clear_views. destruct (r =? m_round Proof s); [exact Hs|].
      intros k v H. cbn in H. discriminate H.
    - unfold is_proposer.
      destruct (get_view Proof (m_views Proof s) (r, i, step_proposal)) as [v|]; [exact Hs|].
      destruct (fresh_p r i) as [v|] eqn:Ef; [|exact Hs].
      destruct (0 <? v_sub Proof v) eqn:Epos; cbn [fst]; [|exact Hs].
      apply put_ok; [exact Hs|]. unfold fresh_for. rewrite Z.eqb_refl, Ef, Epos. reflexivity.
    - unfold is_validator.
      destruct (get_view Proof (m_views Proof s) (r, i, st)) as [v|]; [exact Hs|].
      destruct (fresh_v r i st (lb_of_step st)) as [[v|] out] eqn:Ef; cbn [fst]; [|exact Hs].
      apply put_ok; [exact Hs|]. unfold fresh_for.
      cbn in Hv. destruct (st =? step_proposal) eqn:E; [apply Z.eqb_eq in E; contradiction|].
      rewrite Ef. reflexivity.
    - exact Hs.
  Qed.

  Lemma mrun_ok : forall ops s, cache_ok s -> Forall valid_op ops -> cache_ok (fst (mrun s ops)).
  Proof.
    induction ops as [|o ops IH]; intros s Hs Hv; cbn [Model.mrun].
    - exact Hs.
    - inversion Hv as [|? ? Ho Hr]; subst.
      pose proof (mstep_ok s o Hs Ho) as H1.
      destruct (mstep s o) as [s' out]. cbn [fst] in H1.
      specialize (IH s' H1 Hr). destruct (mrun s' ops) as [s'' outs]. exact IH.
  Qed.

  (* the view a query is entitled to *)
  Definition view_for_query (o : mop) : option view :=
    match o with
    | OClear _ => None
    | OProposer r i => fresh_p r i
    | OValidator r i st => fst (fresh_v r i st (lb_of_step st))
    | OGet r i st => fresh_for (r, i, st)
    end.

  Lemma query_bound : forall s o flag v, cache_ok s -> valid_op o ->
    snd (mstep s o) = (flag, Some v) -> view_for_query o = Some v.
  Proof.
    intros s o flag v Hs Hv H. destruct o as [r|r i|r i st|r i st]; cbn [Model.mstep snd view_for_query] in *.
    - discriminate H.
    - unfold is_proposer in H.
      destruct (get_view Proof (m_views Proof s) (r, i, step_proposal)) as [v0|] eqn:Eg.
      + cbn [snd] in H. destruct (0 <? v_sub Proof v0) eqn:Epos; [|discriminate H].
        injection H as _ <-. specialize (Hs _ _ Eg). unfold fresh_for in Hs.
        rewrite Z.eqb_refl in Hs. destruct (fresh_p r i) as [v1|]; [|discriminate Hs].
        destruct (0 <? v_sub Proof v1); [exact Hs|discriminate Hs].
      + destruct (fresh_p r i) as [v1|]; [|cbn in H; discriminate H].
        destruct (0 <? v_sub Proof v1); cbn [snd] in H; injection H as _ <-; reflexivity.
    - unfold is_validator in H.
      destruct (get_view Proof (m_views Proof s) (r, i, st)) as [v0|] eqn:Eg.
      + cbn [snd] in H. injection H as _ <-. specialize (Hs _ _ Eg). unfold fresh_for in Hs.
        cbn in Hv. destruct (st =? step_proposal) eqn:E; [apply Z.eqb_eq in E; contradiction|].
        exact Hs.
      + unfold Model.fresh_validator in *.
        destruct ((si_status (env_stake r false (lb_of_step st)) =? 0)
                  || negb (si_kind (env_stake r false (lb_of_step st)) =? kind_chamber)).
        { cbn in H. discriminate H. }
        destruct (si_err (env_stake r false (lb_of_step st))
                  || (si_total (env_stake r false (lb_of_step st)) <=? 0)).
        { cbn in H. discriminate H. }
        destruct (env_seed r (lb_of_step st)) as [seed|]; [|cbn in H; discriminate H].
        destruct (vrf_sortition SK Proof evaluate sk seed i st
                    (si_threshold (env_stake r false (lb_of_step st)))
                    (si_stake (env_stake r false (lb_of_step st)))
                    (si_total (env_stake r false (lb_of_step st)))) as [res|]; [|cbn in H; discriminate H].
        cbn [fst snd] in *. injection H as _ <-. reflexivity.
    - injection H as _ H. apply Hs. exact H.
  Qed.

  (* C04, prover side: over all histories of queries and clears *)
  Lemma manager_views_bound : forall ops o flag v,
    Forall valid_op ops -> valid_op o ->
    snd (mstep (fst (mrun (mgr_init Proof) ops)) o) = (flag, Some v) ->
    view_for_query o = Some v.
  Proof.
    intros ops o flag v Hops Ho H.
    eapply query_bound; [|exact Ho|exact H].
    apply mrun_ok; [apply init_ok|exact Hops].
  Qed.

  (* and the proposer query is a pure function of (round, index) *)
  Definition proposer_answer (r i : Z) : bool * option view :=
    match fresh_p r i with
    | None => (false, None)
    | Some v => if 0 <? v_sub Proof v then (true, Some v) else (false, Some v)
    end.

  Lemma manager_proposer_pure : forall ops r i, Forall valid_op ops ->
    snd (mstep (fst (mrun (mgr_init Proof) ops)) (OProposer r i)) = proposer_answer r i.
  Proof.
    intros ops r i Hops.
    pose proof (mrun_ok ops (mgr_init Proof) init_ok Hops) as Hs.
    set (s := fst (mrun (mgr_init Proof) ops)) in *.
    cbn [Model.mstep]. unfold is_proposer, proposer_answer.
    destruct (get_view Proof (m_views Proof s) (r, i, step_proposal)) as [v0|] eqn:Eg.
    - specialize (Hs _ _ Eg). unfold fresh_for in Hs. rewrite Z.eqb_refl in Hs.
      destruct (fresh_p r i) as [v1|]; [|discriminate Hs].
      destruct (0 <? v_sub Proof v1) eqn:E1; [|discriminate Hs].
      injection Hs as <-. cbn [snd]. rewrite E1. reflexivity.
    - destruct (fresh_p r i) as [v1|]; [|reflexivity].
      destruct (0 <? v_sub Proof v1); reflexivity.
  Qed.
End MgrProofs.
