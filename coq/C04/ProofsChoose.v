(* C04 - choose returns the binomial quantile in all three regimes, and a value
   in [0, stake] whatever the distribution kernel is. *)
From VF.C04 Require Import Model ProofsSearch ProofsBinom.
From Coq Require Import Lia Lqa ZifyBool.
Local Open Scope Z_scope.

(* j is the least index of [0,n] whose distribution value reaches t *)
Definition is_quantile (F : Z -> Q) (t : Q) (n j : Z) : Prop :=
  0 <= j <= n /\ (t <= F j)%Q /\ forall i, 0 <= i < j -> (F i < t)%Q.

Lemma is_quantile_unique : forall F t n j j',
  is_quantile F t n j -> is_quantile F t n j' -> j = j'.
Proof.
  intros F t n j j' (A1 & A2 & A3) (B1 & B2 & B3).
  destruct (Z.lt_trichotomy j j') as [H|[H|H]]; [|exact H|].
  - specialize (B3 j ltac:(lia)). lra.
  - specialize (A3 j' ltac:(lia)). lra.
Qed.

Lemma Qlt_bool_iff : forall a b, Qlt_bool a b = true <-> (a < b)%Q.
Proof.
  intros a b. unfold Qlt_bool. rewrite negb_true_iff.
  split.
  - intro H. apply Qnot_le_lt. intro Hle. apply Qle_bool_iff in Hle. congruence.
  - intro H. destruct (Qle_bool b a) eqn:E; [|reflexivity].
    apply Qle_bool_iff in E. lra.
Qed.

Lemma Qlt_bool_false : forall a b, Qlt_bool a b = false <-> (b <= a)%Q.
Proof.
  intros a b. unfold Qlt_bool. rewrite negb_false_iff. apply Qle_bool_iff.
Qed.

Lemma Qle_bool_false : forall a b, Qle_bool a b = false <-> (b < a)%Q.
Proof.
  intros a b. split.
  - intro H. apply Qnot_le_lt. intro Hle. apply Qle_bool_iff in Hle. congruence.
  - intro H. destruct (Qle_bool a b) eqn:E; [|reflexivity].
    apply Qle_bool_iff in E. lra.
Qed.

Lemma max_hash_pos : 0 < max_hash.
Proof. reflexivity. Qed.

Lemma target_pos : forall hb, 0 < hb -> (0 < target_of hb)%Q.
Proof. intros hb H. unfold target_of, Qlt. cbn. lia. Qed.

Lemma target_lt1 : forall hb, hb < max_hash -> (target_of hb < 1)%Q.
Proof.
  intros hb H. unfold target_of, Qlt. cbn [Qnum Qden].
  rewrite Z2Pos.id by exact max_hash_pos. lia.
Qed.

Lemma target_max : (target_of max_hash == 1)%Q.
Proof.
  unfold target_of, Qeq. cbn [Qnum Qden].
  rewrite Z2Pos.id by exact max_hash_pos. lia.
Qed.

Lemma target_zero : (target_of 0 == 0)%Q.
Proof. unfold target_of, Qeq. cbn. reflexivity. Qed.

(* ---- range: whatever the kernel computes, the seat count is in [0, w] ---- *)
Lemma choose_with_range : forall cdf hb w p, 0 <= w ->
  0 <= choose_with cdf hb w p <= w.
Proof.
  intros cdf hb w p Hw. unfold choose_with.
  destruct (hb =? max_hash); [lia|].
  destruct (hb <? 1); [lia|].
  destruct (Qlt_bool (99 # 100) (target_of hb)).
  - match goal with |- context [search w ?f] => destruct (search_inv w f Hw) as (R & _) end. lia.
  - destruct (Qlt_bool (inject_Z w * p) 20).
    + match goal with |- context [scan ?fu ?f 0 w] =>
        destruct (scan_spec f w fu 0) as [(R & _)|(R & _)] end; lia.
    + match goal with |- context [search w ?f] => destruct (search_inv w f Hw) as (R & _) end. lia.
Qed.

(* ---- quantile: the three regimes ------------------------------------------ *)
Section Regimes.
  Variable cdf : Z -> Q -> Z -> Q.
  Variables (n : Z) (p : Q) (F : Z -> Q).
  Hypothesis Hn : 0 <= n.
  Hypothesis F_mono : forall i j, i <= j -> (F i <= F j)%Q.
  Hypothesis F_top : forall i, n <= i -> (F i == 1)%Q.
  Hypothesis cdf_p : forall x, (cdf n p x == F x)%Q.
  Hypothesis cdf_inv : forall x, (cdf n (1 - p) x == 1 - F (n - x - 1))%Q.

  Variable hb : Z.
  Hypothesis Hhb : 0 < hb < max_hash.

  Lemma choose_with_quantile :
    is_quantile F (target_of hb) n (choose_with cdf hb n p).
  Proof.
    pose proof (target_pos hb ltac:(lia)) as Ht0.
    pose proof (target_lt1 hb ltac:(lia)) as Ht1.
    unfold choose_with.
    destruct (hb =? max_hash) eqn:E1; [lia|].
    destruct (hb <? 1) eqn:E2; [lia|].
    set (t := target_of hb) in *.
    destruct (Qlt_bool (99 # 100) t) eqn:E3.
    - (* mirrored search on the upper tail *)
      set (f := fun h : Z => Qlt_bool (1 - t) (cdf n (1 - p) h)).
      assert (Hm : monotone_on n f).
      { intros i j Hi Hij Hj Hfi. unfold f in *.
        apply Qlt_bool_iff in Hfi. apply Qlt_bool_iff.
        rewrite cdf_inv in *.
        pose proof (F_mono (n - j - 1) (n - i - 1) ltac:(lia)). lra. }
      destruct (search_least n f Hn Hm) as (R1 & R2 & R3).
      set (k := search n f) in *.
      unfold is_quantile. split; [lia|]. split.
      + destruct (Z.eq_dec k 0) as [Hk|Hk].
        * rewrite Hk. replace (n - 0) with n by lia. rewrite F_top by lia. lra.
        * specialize (R2 (k - 1) ltac:(lia)). unfold f in R2.
          apply Qlt_bool_false in R2. rewrite cdf_inv in R2.
          replace (n - (k - 1) - 1) with (n - k) in R2 by lia. lra.
      + intros i Hi.
        specialize (R3 ltac:(lia)). unfold f in R3.
        apply Qlt_bool_iff in R3. rewrite cdf_inv in R3.
        pose proof (F_mono i (n - k - 1) ltac:(lia)). lra.
    - set (isMatch := fun h : Z => Qle_bool t (cdf n p h)).
      assert (Hlast : isMatch n = true).
      { unfold isMatch. apply Qle_bool_iff. rewrite cdf_p, F_top by lia. lra. }
      destruct (Qlt_bool (inject_Z n * p) 20) eqn:E4.
      + (* linear scan *)
        destruct (scan_spec isMatch n (Z.to_nat (n + 1)) 0) as [(S1 & S2 & S3)|(S1 & S2)].
        * set (r := scan (Z.to_nat (n + 1)) isMatch 0 n) in *.
          unfold is_quantile. split; [lia|]. split.
          -- unfold isMatch in S2. apply Qle_bool_iff in S2. rewrite cdf_p in S2. exact S2.
          -- intros i Hi. specialize (S3 i ltac:(lia)). unfold isMatch in S3.
             apply Qle_bool_false in S3. rewrite cdf_p in S3. exact S3.
        * specialize (S2 n ltac:(lia)). congruence.
      + (* binary search *)
        assert (Hm : monotone_on n isMatch).
        { intros i j Hi Hij Hj Hfi. unfold isMatch in *.
          apply Qle_bool_iff in Hfi. apply Qle_bool_iff.
          rewrite cdf_p in *. pose proof (F_mono i j Hij). lra. }
        destruct (search_least n isMatch Hn Hm) as (R1 & R2 & R3).
        set (r := search n isMatch) in *.
        unfold is_quantile. split; [lia|]. split.
        * destruct (Z.eq_dec r n) as [Hr|Hr].
          -- rewrite Hr, F_top by lia. lra.
          -- specialize (R3 ltac:(lia)). unfold isMatch in R3.
             apply Qle_bool_iff in R3. rewrite cdf_p in R3. exact R3.
        * intros i Hi. specialize (R2 i Hi). unfold isMatch in R2.
          apply Qle_bool_false in R2. rewrite cdf_p in R2. exact R2.
  Qed.
End Regimes.

Lemma bad_p_false : forall p, (0 <= p)%Q -> (p <= 1)%Q -> bad_p p = false.
Proof.
  intros p H0 H1. unfold bad_p. apply orb_false_iff. split; apply Qlt_bool_false; assumption.
Qed.

Lemma bad_p_true : forall p, bad_p p = true <-> (p < 0)%Q \/ (1 < p)%Q.
Proof.
  intros p. unfold bad_p. rewrite orb_true_iff, !Qlt_bool_iff. reflexivity.
Qed.

(* choose_with on the exact kernel: the quantile of the trial distribution *)
Lemma choose_with_binom_quantile : forall hb w p,
  0 <= hb <= max_hash -> 0 <= w -> (0 < p)%Q -> (p <= 1)%Q ->
  is_quantile (bern (Z.to_nat w) p) (target_of hb) w (choose_with binom_cdf hb w p).
Proof.
  intros hb w p Hhb Hw Hp0 Hp1.
  destruct (Z.eq_dec hb max_hash) as [Emax|Nmax].
  - (* the largest hash: all of the stake *)
    subst hb. unfold choose_with. rewrite Z.eqb_refl.
    unfold is_quantile. split; [lia|]. split.
    + rewrite target_max, bern_top by lia. lra.
    + intros i Hi. rewrite target_max. apply bern_lt1; try assumption. lia.
  - destruct (Z.eq_dec hb 0) as [E0|N0].
    + subst hb. unfold choose_with.
      destruct (0 =? max_hash) eqn:E; [apply Z.eqb_eq in E; discriminate E|].
      change (0 <? 1) with true. cbn iota.
      unfold is_quantile. split; [lia|]. split.
      * rewrite target_zero. apply bern_bounds; lra.
      * intros i Hi. lia.
    + apply choose_with_quantile; try lia.
      * intros i j Hij. apply bern_mono; try lra. exact Hij.
      * intros i Hi. apply bern_top. lia.
      * intros x. apply binom_cdf_bern; [exact Hw|]. apply Qnum_range; lra.
      * intros x. rewrite binom_cdf_bern by (try exact Hw; apply Qnum_range_inv; lra).
        rewrite bern_mirror. rewrite Z2Nat.id by exact Hw. reflexivity.
Qed.

Lemma clamp_p_range : forall p, (0 <= p)%Q -> (0 <= clamp_p p)%Q /\ (clamp_p p <= 1)%Q.
Proof.
  intros p H0. unfold clamp_p. destruct (Qlt_bool 1 p) eqn:E.
  - split; lra.
  - apply Qlt_bool_false in E. split; assumption.
Qed.

Lemma clamp_p_id : forall p, (p <= 1)%Q -> clamp_p p = p.
Proof.
  intros p H1. unfold clamp_p.
  assert (E : Qlt_bool 1 p = false) by (apply Qlt_bool_false; exact H1).
  rewrite E. reflexivity.
Qed.

Lemma clamp_p_pos : forall p, (0 < p)%Q -> (0 < clamp_p p)%Q.
Proof.
  intros p H0. unfold clamp_p. destruct (Qlt_bool 1 p); lra.
Qed.

(* C04 quantile: for every committee/total > 0 the seat count is the quantile
   of Binomial(stake, min(committee/total, 1)) *)
Lemma choose_quantile_clamped : forall hb w p,
  0 <= hb <= max_hash -> 0 <= w -> (0 < p)%Q ->
  exists j, choose hb w p = Some j /\
            is_quantile (bern (Z.to_nat w) (clamp_p p)) (target_of hb) w j.
Proof.
  intros hb w p Hhb Hw Hp. eexists. split; [reflexivity|].
  apply choose_with_binom_quantile; try assumption.
  - apply clamp_p_pos. exact Hp.
  - apply clamp_p_range. lra.
Qed.

Lemma choose_quantile : forall hb w p,
  0 <= hb <= max_hash -> 0 <= w -> (0 < p)%Q -> (p <= 1)%Q ->
  exists j, choose hb w p = Some j /\
            is_quantile (bern (Z.to_nat w) p) (target_of hb) w j.
Proof.
  intros hb w p Hhb Hw Hp0 Hp1.
  destruct (choose_quantile_clamped hb w p Hhb Hw Hp0) as (j & Hj & Hq).
  exists j. split; [exact Hj|]. rewrite (clamp_p_id p Hp1) in Hq. exact Hq.
Qed.

(* totality at full strength: every hash, stake, committee size and total *)
Lemma choose_total : forall hb w p, 0 <= w ->
  exists j, choose hb w p = Some j /\ 0 <= j <= w.
Proof.
  intros hb w p Hw. eexists. split; [reflexivity|]. apply choose_with_range. exact Hw.
Qed.

Lemma choose_range : forall hb w p j, 0 <= w -> choose hb w p = Some j -> 0 <= j <= w.
Proof.
  intros hb w p j Hw H. unfold choose in H. injection H as <-.
  apply choose_with_range. exact Hw.
Qed.

(* ---- the function before the repair (record of the finding) --------------- *)
Lemma unrepaired_some : forall hb w p, (0 <= p)%Q -> (p <= 1)%Q ->
  choose_unrepaired hb w p = Some (choose_with binom_cdf hb w p).
Proof.
  intros hb w p H0 H1. unfold choose_unrepaired. rewrite (bad_p_false p H0 H1).
  rewrite !andb_false_r. reflexivity.
Qed.

(* exactly when the unrepaired Go function panicked *)
Lemma unrepaired_none_iff : forall hb w p,
  choose_unrepaired hb w p = None <->
  (hb <> max_hash /\ 1 <= hb /\ 1 <= w /\ ((p < 0)%Q \/ (1 < p)%Q)).
Proof.
  intros hb w p. unfold choose_unrepaired.
  destruct (negb (hb =? max_hash) && (1 <=? hb) && (1 <=? w) && bad_p p) eqn:E.
  - split; [intros _|reflexivity].
    rewrite !andb_true_iff in E. destruct E as (((E1 & E2) & E3) & E4).
    apply bad_p_true in E4. apply negb_true_iff, Z.eqb_neq in E1.
    apply Z.leb_le in E2. apply Z.leb_le in E3.
    repeat split; assumption.
  - split; [discriminate|]. intros (H1 & H2 & H3 & H4).
    apply bad_p_true in H4. rewrite H4 in E.
    assert (Ha : negb (hb =? max_hash) = true) by (apply negb_true_iff, Z.eqb_neq; exact H1).
    assert (Hb : (1 <=? hb) = true) by (apply Z.leb_le; exact H2).
    assert (Hc : (1 <=? w) = true) by (apply Z.leb_le; exact H3).
    rewrite Ha, Hb, Hc in E. discriminate E.
Qed.

(* the totality clause, which the unrepaired function violated *)
Definition total_for (ch : Z -> Z -> Q -> option Z) : Prop :=
  forall hb w p, 0 <= hb <= max_hash -> 0 <= w -> (0 <= p)%Q ->
    exists j, ch hb w p = Some j /\ 0 <= j <= w.

Lemma unrepaired_total_refuted : ~ total_for choose_unrepaired.
Proof.
  intro H. destruct (H 1 1 (2 # 1)%Q) as (j & Hj & _).
  - split; [lia|]. unfold Z.le. vm_compute. discriminate.
  - lia.
  - unfold Qle. cbn. lia.
  - vm_compute in Hj. discriminate Hj.
Qed.

Lemma repaired_total : total_for choose.
Proof. intros hb w p _ Hw _. apply choose_total. exact Hw. Qed.

(* the repair changes nothing where the old function returned *)
Lemma repair_agrees : forall hb w p, (0 <= p)%Q -> (p <= 1)%Q ->
  choose hb w p = choose_unrepaired hb w p.
Proof.
  intros hb w p H0 H1. rewrite (unrepaired_some hb w p H0 H1). unfold choose.
  rewrite (clamp_p_id p H1). reflexivity.
Qed.
