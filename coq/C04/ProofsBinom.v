(* C04 - the executable distribution function [binom_cdf] (integer weights,
   multiplicative recurrence) is the binomial distribution function: it equals
   [bern], the probability of at most k successes in n independent trials of
   probability p, and [bern] is the sum of C(n,i) p^i (1-p)^(n-i).  Monotone,
   within [0,1], 1 from n on, 0 below 0, mirror law. *)
From VF.C04 Require Import Model.
From Coq Require Import Lia Lqa ZifyBool Qfield Qpower.
Local Open Scope Z_scope.

(* ---- specification: number of successes in n independent trials -------- *)
Fixpoint bern (n : nat) (p : Q) (k : Z) : Q :=
  match n with
  | O => if k <? 0 then 0%Q else 1%Q
  | S m => ((1 - p) * bern m p k + p * bern m p (k - 1))%Q
  end.

Lemma bern_comp : forall n p q k, (p == q)%Q -> (bern n p k == bern n q k)%Q.
Proof.
  induction n as [|n IH]; intros p q k E; cbn [bern].
  - reflexivity.
  - rewrite (IH p q k E), (IH p q (k - 1) E), E. reflexivity.
Qed.

Lemma bern_neg : forall n p k, k < 0 -> (bern n p k == 0)%Q.
Proof.
  induction n as [|n IH]; intros p k Hk; cbn [bern].
  - destruct (k <? 0) eqn:E; [reflexivity|lia].
  - rewrite IH by lia. rewrite IH by lia. ring.
Qed.

Lemma bern_top : forall n p k, Z.of_nat n <= k -> (bern n p k == 1)%Q.
Proof.
  induction n as [|n IH]; intros p k Hk; cbn [bern].
  - destruct (k <? 0) eqn:E; [lia|reflexivity].
  - rewrite IH by lia. rewrite IH by lia. ring.
Qed.

Lemma bern_bounds : forall n p k, (0 <= p)%Q -> (p <= 1)%Q ->
  (0 <= bern n p k)%Q /\ (bern n p k <= 1)%Q.
Proof.
  induction n as [|n IH]; intros p k H0 H1; cbn [bern].
  - destruct (k <? 0); split; lra.
  - destruct (IH p k H0 H1) as [A0 A1]. destruct (IH p (k - 1) H0 H1) as [B0 B1].
    split; nra.
Qed.

Lemma bern_step_le : forall n p k, (0 <= p)%Q -> (p <= 1)%Q ->
  (bern n p (k - 1) <= bern n p k)%Q.
Proof.
  induction n as [|n IH]; intros p k H0 H1; cbn [bern].
  - destruct (k - 1 <? 0) eqn:E1; destruct (k <? 0) eqn:E2; try lra; lia.
  - pose proof (IH p k H0 H1). pose proof (IH p (k - 1) H0 H1). nra.
Qed.

Lemma bern_mono : forall n p k k', (0 <= p)%Q -> (p <= 1)%Q -> k <= k' ->
  (bern n p k <= bern n p k')%Q.
Proof.
  intros n p k k' H0 H1 Hk.
  replace k' with (k + Z.of_nat (Z.to_nat (k' - k))) by lia.
  induction (Z.to_nat (k' - k)) as [|d IH].
  - replace (k + Z.of_nat 0) with k by lia. lra.
  - pose proof (bern_step_le n p (k + Z.of_nat (S d)) H0 H1) as Hs.
    replace (k + Z.of_nat (S d) - 1) with (k + Z.of_nat d) in Hs by lia. lra.
Qed.

(* mirror law: F(k; n, 1-p) = 1 - F(n-k-1; n, p) *)
Lemma bern_mirror : forall n p k,
  (bern n (1 - p) k == 1 - bern n p (Z.of_nat n - k - 1))%Q.
Proof.
  induction n as [|n IH]; intros p k.
  - cbn [bern]. change (Z.of_nat 0) with 0.
    destruct (k <? 0) eqn:E1; destruct (0 - k - 1 <? 0) eqn:E2; try lia; ring.
  - cbn [bern]. rewrite (IH p k), (IH p (k - 1)).
    replace (Z.of_nat (S n) - k - 1) with (Z.of_nat n - k) by lia.
    replace (Z.of_nat n - (k - 1) - 1) with (Z.of_nat n - k) by lia.
    replace (Z.of_nat n - k - 1) with (Z.of_nat n - k - 1) by lia.
    ring.
Qed.

Lemma bern_lt1 : forall n p k, (0 < p)%Q -> (p <= 1)%Q -> 0 <= k < Z.of_nat n ->
  (bern n p k < 1)%Q.
Proof.
  induction n as [|n IH]; intros p k H0 H1 Hk.
  - lia.
  - cbn [bern].
    assert (HB : (bern n p (k - 1) < 1)%Q).
    { destruct (Z.eq_dec k 0) as [->|Hne].
      - rewrite bern_neg by lia. lra.
      - apply IH; try assumption; lia. }
    destruct (bern_bounds n p k ltac:(lra) H1) as [_ A1]. nra.
Qed.

(* ---- binomial coefficients and the closed form -------------------------- *)
Fixpoint C (n k : nat) : Z :=
  match n, k with
  | _, O => 1
  | O, S _ => 0
  | S n', S k' => C n' k' + C n' k
  end.

Lemma C_gt : forall n k, (n < k)%nat -> C n k = 0.
Proof.
  induction n as [|n IH]; intros k Hk; destruct k as [|k]; cbn [C]; try lia.
  rewrite IH by lia. rewrite IH by lia. reflexivity.
Qed.

Lemma C_n_0 : forall n, C n 0 = 1.
Proof. destruct n; reflexivity. Qed.

(* (k+1) C(n,k+1) = (n-k) C(n,k) *)
Lemma C_step : forall n k, (k <= n)%nat ->
  (Z.of_nat k + 1) * C n (S k) = (Z.of_nat n - Z.of_nat k) * C n k.
Proof.
  induction n as [|n IH]; intros k Hk.
  - assert (k = 0)%nat by lia. subst k. cbn. reflexivity.
  - destruct k as [|k].
    + cbn [C]. rewrite C_n_0. pose proof (IH 0%nat ltac:(lia)) as H0.
      rewrite C_n_0 in H0. cbn [Z.of_nat] in H0. lia.
    + cbn [C]. fold (C n (S k)). fold (C n (S (S k))).
      pose proof (IH k ltac:(lia)) as Hk0.
      destruct (Nat.eq_dec k n) as [->|Hne].
      * rewrite (C_gt n (S n)) by lia. rewrite (C_gt n (S (S n))) by lia.
        rewrite (C_gt n (S n)) in Hk0 by lia. lia.
      * pose proof (IH (S k) ltac:(lia)) as Hk1.
        rewrite !Nat2Z.inj_succ in *. nia.
Qed.

(* weights with common denominator b^n, p = a/b, c = b-a *)
Definition W (a c : Z) (n k : nat) : Z :=
  C n k * a ^ Z.of_nat k * c ^ Z.of_nat (n - k).

Fixpoint SW (a c : Z) (n k : nat) : Z :=
  match k with
  | O => W a c n 0
  | S k' => SW a c n k' + W a c n k
  end.

Lemma W_S_0 : forall a c n, W a c (S n) 0 = c * W a c n 0.
Proof.
  intros. unfold W. rewrite !C_n_0. cbn [Z.of_nat]. rewrite !Z.pow_0_r.
  replace (S n - 0)%nat with (S (n - 0)) by lia.
  rewrite Nat2Z.inj_succ, Z.pow_succ_r by lia. ring.
Qed.

Lemma W_pascal : forall a c n k,
  W a c (S n) (S k) = c * W a c n (S k) + a * W a c n k.
Proof.
  intros. unfold W. cbn [C]. fold (C n k). fold (C n (S k)).
  replace (S n - S k)%nat with (n - k)%nat by lia.
  rewrite (Nat2Z.inj_succ k), Z.pow_succ_r by lia.
  destruct (Nat.le_gt_cases (S k) n) as [Hle|Hgt].
  - replace (n - k)%nat with (S (n - S k)) by lia.
    rewrite Nat2Z.inj_succ, Z.pow_succ_r by lia. ring.
  - rewrite (C_gt n (S k)) by lia. ring.
Qed.

Lemma SW_S_0 : forall a c n, SW a c (S n) 0 = c * SW a c n 0.
Proof. intros. cbn [SW]. apply W_S_0. Qed.

Lemma SW_pascal : forall a c n k,
  SW a c (S n) (S k) = c * SW a c n (S k) + a * SW a c n k.
Proof.
  intros a c n k. induction k as [|k IH].
  - cbn [SW]. rewrite W_pascal, W_S_0. ring.
  - cbn [SW] in *. rewrite IH, W_pascal. ring.
Qed.

(* index in Z: 0 below 0 *)
Definition SZ (a c : Z) (n : nat) (k : Z) : Z :=
  if k <? 0 then 0 else SW a c n (Z.to_nat k).

Lemma SZ_rec : forall a c n k,
  SZ a c (S n) k = c * SZ a c n k + a * SZ a c n (k - 1).
Proof.
  intros a c n k. unfold SZ.
  destruct (k <? 0) eqn:E1.
  - destruct (k - 1 <? 0) eqn:E2; [ring|lia].
  - destruct (k - 1 <? 0) eqn:E2.
    + assert (k = 0) by lia. subst k. cbn [Z.to_nat]. rewrite SW_S_0. ring.
    + replace (Z.to_nat k) with (S (Z.to_nat (k - 1))) by lia.
      rewrite SW_pascal. ring.
Qed.

Lemma SW_0 : forall a c k, SW a c 0 k = 1.
Proof.
  intros a c k. induction k as [|k IH]; cbn [SW].
  - unfold W. cbn. reflexivity.
  - rewrite IH. unfold W. cbn [C]. ring.
Qed.

Lemma Qnum_den : forall p : Q, (p == inject_Z (Qnum p) / inject_Z (Zpos (Qden p)))%Q.
Proof. intros [a b]. cbn [Qnum Qden]. apply Qmake_Qdiv. Qed.

(* the closed form over the common denominator is the trial distribution *)
Lemma SZ_bern : forall (p : Q) n k,
  let a := Qnum p in let b := Zpos (Qden p) in
  (inject_Z (SZ a (b - a) n k) / inject_Z (b ^ Z.of_nat n) == bern n p k)%Q.
Proof.
  intros p n. cbn zeta.
  set (a := Qnum p). set (b := Zpos (Qden p)).
  assert (Hb : ~ (inject_Z b == 0)%Q).
  { unfold b. intro H. unfold Qeq in H. cbn in H. lia. }
  assert (Hp : (p == inject_Z a / inject_Z b)%Q) by apply Qnum_den.
  induction n as [|n IH]; intros k.
  - cbn [bern]. unfold SZ. change (Z.of_nat 0) with 0. rewrite Z.pow_0_r.
    destruct (k <? 0).
    + field.
    + rewrite SW_0. field.
  - cbn [bern]. rewrite SZ_rec. rewrite <- (IH k), <- (IH (k - 1)).
    rewrite Nat2Z.inj_succ, Z.pow_succ_r by lia.
    assert (Hbn : ~ (inject_Z (b ^ Z.of_nat n) == 0)%Q).
    { intro H. unfold Qeq in H. cbn in H. assert (0 < b ^ Z.of_nat n) by (apply Z.pow_pos_nonneg; unfold b; lia). lia. }
    rewrite !inject_Z_plus, !inject_Z_mult.
    unfold Zminus. rewrite inject_Z_plus, inject_Z_opp.
    rewrite Hp. field. split; assumption.
Qed.

(* ---- the executable table ------------------------------------------------ *)
Lemma W_next : forall a c n i, 0 <= c -> (S i < n)%nat \/ (0 < c /\ (i < n)%nat) ->
  W a c n (S i) = W a c n i * ((Z.of_nat n - Z.of_nat i) * a) / ((Z.of_nat i + 1) * c).
Proof.
  intros a c n i Hc Hcase.
  destruct (Z.eq_dec c 0) as [->|Hne].
  - destruct Hcase as [Hi|[Hc0 _]]; [|lia].
    rewrite Z.mul_0_r, Zdiv_0_r. unfold W.
    replace (n - S i)%nat with (S (n - S (S i))) by lia.
    rewrite (Nat2Z.inj_succ (n - S (S i))), Z.pow_succ_r by lia. ring.
  - assert (Hi : (i < n)%nat) by (destruct Hcase as [H|[_ H]]; lia).
    assert (E : W a c n i * ((Z.of_nat n - Z.of_nat i) * a)
                = W a c n (S i) * ((Z.of_nat i + 1) * c)).
    { unfold W. pose proof (C_step n i ltac:(lia)) as Hs.
      replace (n - i)%nat with (S (n - S i)) by lia.
      rewrite (Nat2Z.inj_succ (n - S i)), Z.pow_succ_r by lia.
      rewrite (Nat2Z.inj_succ i), Z.pow_succ_r by lia.
      set (x := a ^ Z.of_nat i). set (y := c ^ Z.of_nat (n - S i)).
      transitivity (((Z.of_nat n - Z.of_nat i) * C n i) * x * a * c * y); [ring|].
      rewrite <- Hs. ring. }
    rewrite E. rewrite Z.div_mul by lia. reflexivity.
Qed.

Lemma weights_spec : forall a c n fuel i, 0 <= c -> (i + fuel <= n)%nat ->
  weights fuel (Z.of_nat n) a c (Z.of_nat i) (W a c n i) = map (W a c n) (seq i fuel).
Proof.
  intros a c n fuel. induction fuel as [|fuel IH]; intros i Hc Hle.
  - reflexivity.
  - cbn [weights seq map]. f_equal.
    destruct fuel as [|fuel'].
    + reflexivity.
    + rewrite <- (W_next a c n i Hc) by (left; lia).
      replace (Z.of_nat i + 1) with (Z.of_nat (S i)) by lia.
      apply IH; [exact Hc|lia].
Qed.

Lemma prefix_sums_spec : forall a c n fuel i acc,
  acc + W a c n i = SW a c n i ->
  prefix_sums acc (map (W a c n) (seq i fuel)) = map (SW a c n) (seq i fuel).
Proof.
  intros a c n fuel. induction fuel as [|fuel IH]; intros i acc Hacc.
  - reflexivity.
  - cbn [seq map prefix_sums]. rewrite Hacc. f_equal.
    apply IH. cbn [SW]. reflexivity.
Qed.

Lemma cdf_table_nth : forall (n : Z) (p : Q) (x : Z),
  0 <= Qnum p <= Zpos (Qden p) -> 0 <= x < n ->
  nth (Z.to_nat x) (cdf_table n p) 0%Q
  = (SW (Qnum p) (Zpos (Qden p) - Qnum p) (Z.to_nat n) (Z.to_nat x)
     # Z.to_pos (Zpos (Qden p) ^ n)).
Proof.
  intros n p x Hp Hx. unfold cdf_table.
  set (a := Qnum p). set (b := Zpos (Qden p)). set (c := b - a).
  assert (Hc : 0 <= c) by (unfold c, a, b; lia).
  set (m := Z.to_nat n).
  assert (Hn : n = Z.of_nat m) by (unfold m; lia).
  assert (Hw : weights m n a c 0 (c ^ n) = map (W a c m) (seq 0 m)).
  { assert (E0 : c ^ n = W a c m 0).
    { unfold W. rewrite C_n_0. cbn [Z.of_nat]. rewrite Z.pow_0_r.
      replace (m - 0)%nat with m by lia. rewrite Hn. ring. }
    rewrite E0. rewrite Hn. apply (weights_spec a c m m 0%nat); [exact Hc|lia]. }
  rewrite Hw.
  rewrite (prefix_sums_spec a c m m 0%nat 0) by (cbn [SW]; ring).
  rewrite map_map.
  set (g := fun k : nat => SW a c m k # Z.to_pos (b ^ n)).
  assert (Hlen : (Z.to_nat x < m)%nat) by (unfold m; lia).
  rewrite (nth_indep _ 0%Q (g 0%nat)) by (rewrite map_length, seq_length; exact Hlen).
  rewrite (map_nth g (seq 0 m) 0%nat (Z.to_nat x)).
  rewrite seq_nth by exact Hlen. reflexivity.
Qed.

(* the executable distribution function is the trial distribution *)
Lemma binom_cdf_bern : forall (n : Z) (p : Q) (x : Z),
  0 <= n -> 0 <= Qnum p <= Zpos (Qden p) ->
  (binom_cdf n p x == bern (Z.to_nat n) p x)%Q.
Proof.
  intros n p x Hn Hp. unfold binom_cdf.
  destruct (x <? 0) eqn:E1.
  - rewrite bern_neg by lia. reflexivity.
  - destruct (n <=? x) eqn:E2.
    + rewrite bern_top by lia. reflexivity.
    + rewrite cdf_table_nth by lia.
      rewrite <- SZ_bern. unfold SZ. rewrite E1.
      rewrite Z2Nat.id by lia.
      rewrite Qmake_Qdiv. rewrite Z2Pos.id by (apply Z.pow_pos_nonneg; lia).
      reflexivity.
Qed.

Lemma Qnum_range : forall p : Q, (0 <= p)%Q -> (p <= 1)%Q -> 0 <= Qnum p <= Zpos (Qden p).
Proof.
  intros [a b] H0 H1. unfold Qle in *. cbn in *. lia.
Qed.

Lemma Qnum_range_inv : forall p : Q, (0 <= p)%Q -> (p <= 1)%Q ->
  0 <= Qnum (1 - p) <= Zpos (Qden (1 - p)).
Proof.
  intros p H0 H1. apply Qnum_range; lra.
Qed.

(* ---- closed form: bern is the sum of C(n,i) p^i (1-p)^(n-i) ------------- *)
Definition pmfQ (n : nat) (p : Q) (i : nat) : Q :=
  (inject_Z (C n i) * p ^ Z.of_nat i * (1 - p) ^ Z.of_nat (n - i))%Q.

Fixpoint sumQ (f : nat -> Q) (k : nat) : Q :=
  match k with
  | O => f O
  | S k' => (sumQ f k' + f k)%Q
  end.

Lemma Qpower_succ_nat : forall (q : Q) (k : nat), (q ^ Z.of_nat (S k) == q * q ^ Z.of_nat k)%Q.
Proof.
  intros q k. rewrite Nat2Z.inj_succ. unfold Z.succ.
  rewrite Qpower_plus' by lia. change (q ^ 1)%Q with q. ring.
Qed.

Lemma pmfQ_S_0 : forall n p, (pmfQ (S n) p 0 == (1 - p) * pmfQ n p 0)%Q.
Proof.
  intros n p. unfold pmfQ. rewrite !C_n_0.
  replace (S n - 0)%nat with (S (n - 0)) by lia.
  rewrite Qpower_succ_nat. change (Z.of_nat 0) with 0. cbn [Qpower]. ring.
Qed.

Lemma pmfQ_pascal : forall n p k,
  (pmfQ (S n) p (S k) == (1 - p) * pmfQ n p (S k) + p * pmfQ n p k)%Q.
Proof.
  intros n p k. unfold pmfQ. cbn [C]. fold (C n k). fold (C n (S k)).
  replace (S n - S k)%nat with (n - k)%nat by lia.
  rewrite inject_Z_plus. rewrite (Qpower_succ_nat p k).
  destruct (Nat.le_gt_cases (S k) n) as [Hle|Hgt].
  - replace (n - k)%nat with (S (n - S k)) by lia.
    rewrite (Qpower_succ_nat (1 - p)). ring.
  - rewrite (C_gt n (S k)) by lia. ring.
Qed.

Lemma sumQ_pascal : forall n p k,
  (sumQ (pmfQ (S n) p) (S k)
   == (1 - p) * sumQ (pmfQ n p) (S k) + p * sumQ (pmfQ n p) k)%Q.
Proof.
  intros n p k. induction k as [|k IH].
  - cbn [sumQ]. rewrite pmfQ_pascal, pmfQ_S_0. ring.
  - cbn [sumQ] in *. rewrite IH, pmfQ_pascal. ring.
Qed.

Lemma sumQ_0 : forall p k, (sumQ (pmfQ 0 p) k == 1)%Q.
Proof.
  intros p k. induction k as [|k IH]; cbn [sumQ].
  - unfold pmfQ. cbn. ring.
  - rewrite IH. unfold pmfQ. cbn [C]. ring.
Qed.

Lemma bern_closed_form : forall n p k, 0 <= k ->
  (bern n p k == sumQ (pmfQ n p) (Z.to_nat k))%Q.
Proof.
  induction n as [|n IH]; intros p k Hk.
  - cbn [bern]. destruct (k <? 0) eqn:E; [lia|]. rewrite sumQ_0. reflexivity.
  - cbn [bern]. destruct (Z.eq_dec k 0) as [->|Hne].
    + rewrite (IH p 0) by lia. rewrite bern_neg by lia.
      cbn [Z.to_nat sumQ]. rewrite pmfQ_S_0. ring.
    + rewrite (IH p k) by lia. rewrite (IH p (k - 1)) by lia.
      replace (Z.to_nat k) with (S (Z.to_nat (k - 1))) by lia.
      rewrite sumQ_pascal. reflexivity.
Qed.
