(* C04 - MakeM is injective; the priority is the maximum seat hash; the
   verifiers accept exactly what the prover computes; a credential is bound to
   key, seed, round index, step and seat count. *)
From VF.C04 Require Import Model ProofsSearch ProofsBinom ProofsChoose.
From Coq Require Import Lia ZifyBool.
Local Open Scope Z_scope.

(* ---- bytes ---------------------------------------------------------------- *)
Lemma be_bytes_length : forall len x, length (be_bytes len x) = len.
Proof.
  induction len as [|len IH]; intros x; cbn [be_bytes].
  - reflexivity.
  - rewrite app_length, IH. cbn. lia.
Qed.

Lemma pow256_succ : forall len : nat, 256 ^ Z.of_nat (S len) = 256 * 256 ^ Z.of_nat len.
Proof. intro len. rewrite Nat2Z.inj_succ, Z.pow_succ_r by lia. reflexivity. Qed.

Lemma be_bytes_inj : forall len x y,
  0 <= x < 256 ^ Z.of_nat len -> 0 <= y < 256 ^ Z.of_nat len ->
  be_bytes len x = be_bytes len y -> x = y.
Proof.
  induction len as [|len IH]; intros x y Hx Hy E.
  - cbn in Hx, Hy. lia.
  - cbn [be_bytes] in E. apply app_inj_tail in E. destruct E as [E1 E2].
    rewrite pow256_succ in Hx, Hy.
    assert (x / 256 = y / 256).
    { apply IH; [| |exact E1].
      - split; [apply Z.div_pos; lia|apply Z.div_lt_upper_bound; lia].
      - split; [apply Z.div_pos; lia|apply Z.div_lt_upper_bound; lia]. }
    rewrite (Z.div_mod x 256), (Z.div_mod y 256) by lia. congruence.
Qed.

Lemma app_inj_length : forall (A : Type) (a b c d : list A),
  length a = length c -> a ++ b = c ++ d -> a = c /\ b = d.
Proof.
  intros A a. induction a as [|x a IH]; intros b c d Hl E; destruct c as [|y c]; cbn in *; try discriminate.
  - split; [reflexivity|exact E].
  - injection E as -> E. destruct (IH b c d ltac:(lia) E) as [-> ->]. split; reflexivity.
Qed.

(* MakeM is injective on its domain (32-byte seed, uint32 step and index) *)
Lemma make_m_injective : forall seed role index seed' role' index',
  0 <= seed < 2 ^ 256 -> 0 <= seed' < 2 ^ 256 ->
  0 <= role < 2 ^ 32 -> 0 <= role' < 2 ^ 32 ->
  0 <= index < 2 ^ 32 -> 0 <= index' < 2 ^ 32 ->
  make_m seed role index = make_m seed' role' index' ->
  seed = seed' /\ role = role' /\ index = index'.
Proof.
  intros seed role index seed' role' index' Hs Hs' Hr Hr' Hi Hi' E.
  unfold make_m in E.
  apply app_inj_length in E; [|rewrite !be_bytes_length; reflexivity].
  destruct E as [E1 E2].
  apply app_inj_length in E2; [|rewrite !be_bytes_length; reflexivity].
  destruct E2 as [E2 E3].
  change (2 ^ 256) with (256 ^ Z.of_nat 32) in *.
  change (2 ^ 32) with (256 ^ Z.of_nat 4) in *.
  repeat split; eapply be_bytes_inj; eassumption.
Qed.

Lemma make_m_length : forall seed role index, length (make_m seed role index) = 40%nat.
Proof. intros. unfold make_m. rewrite !app_length, !be_bytes_length. reflexivity. Qed.

(* ---- priority -------------------------------------------------------------- *)
Section Priority.
  Variable keccak : list Z -> Z.

  Definition seat_hash (hash i : Z) : Z := keccak (be_bytes 32 hash ++ min_be i).

  Lemma prio_loop_spec : forall hash fuel i mx,
    let r := prio_loop keccak fuel (be_bytes 32 hash) i mx in
    mx <= r /\
    (forall x, i <= x < i + Z.of_nat fuel -> seat_hash hash x <= r) /\
    (r = mx \/ exists x, i <= x < i + Z.of_nat fuel /\ r = seat_hash hash x).
  Proof.
    intros hash fuel. induction fuel as [|fuel IH]; intros i mx; cbn [prio_loop].
    - cbn zeta. split; [lia|]. split; [intros x Hx; lia|left; reflexivity].
    - cbn zeta. fold (seat_hash hash i).
      specialize (IH (i + 1) (if mx <? seat_hash hash i then seat_hash hash i else mx)).
      cbn zeta in IH. destruct IH as (H1 & H2 & H3).
      set (r := prio_loop keccak fuel (be_bytes 32 hash) (i + 1)
                          (if mx <? seat_hash hash i then seat_hash hash i else mx)) in *.
      split; [destruct (mx <? seat_hash hash i) eqn:E; lia|]. split.
      + intros x Hx. destruct (Z.eq_dec x i) as [->|Hne].
        * destruct (mx <? seat_hash hash i) eqn:E; lia.
        * apply H2. lia.
      + destruct H3 as [H3|(x & Hx & H3)].
        * destruct (mx <? seat_hash hash i) eqn:E.
          -- right. exists i. split; [lia|exact H3].
          -- left. exact H3.
        * right. exists x. split; [lia|exact H3].
  Qed.

  (* computePriority: the largest of the j+1 seat hashes (and of the zero hash
     it starts from) *)
  Lemma compute_priority_max : forall hash j, 0 <= j ->
    let r := compute_priority keccak hash j in
    0 <= r /\
    (forall i, 0 <= i <= j -> seat_hash hash i <= r) /\
    (r = 0 \/ exists i, 0 <= i <= j /\ r = seat_hash hash i).
  Proof.
    intros hash j Hj. unfold compute_priority.
    destruct (prio_loop_spec hash (Z.to_nat (j + 1)) 0 0) as (H1 & H2 & H3).
    cbn zeta. split; [exact H1|]. split.
    - intros i Hi. apply H2. lia.
    - destruct H3 as [H3|(x & Hx & H3)]; [left; exact H3|right; exists x; split; [lia|exact H3]].
  Qed.
End Priority.

(* ---- the verifiers --------------------------------------------------------- *)
Section Verify.
  Variables SK PK Proof : Type.
  Variable evaluate : SK -> list Z -> Z * Proof.
  Variable proof_to_hash : PK -> list Z -> Proof -> option Z.
  Variable keccak : list Z -> Z.
  Variable pk_of : SK -> PK.

  Notation verify := (vrf_verify_sortition PK Proof proof_to_hash).
  Notation verify_prio := (vrf_verify_priority PK Proof proof_to_hash keccak).
  Notation sortition := (vrf_sortition SK Proof evaluate).

  (* acceptance <=> the proof yields a hash, the recomputed seat count is
     positive and equals the claimed one *)
  Lemma verify_ok_iff : forall pk seed index role proof sub th stake total,
    verify pk seed index role proof sub th stake total = SvOk <->
    total <> 0 /\
    exists hash j, proof_to_hash pk (make_m seed role index) proof = Some hash /\
                   choose hash stake (p_of th total) = Some j /\ 0 < j /\ uint32 j = sub.
  Proof.
    intros. unfold vrf_verify_sortition, vrf_verify_sortition_with.
    destruct (total =? 0) eqn:E0.
    - split; [discriminate|]. intros [H _]. lia.
    - destruct (proof_to_hash pk (make_m seed role index) proof) as [hash|] eqn:Eh.
      + destruct (choose hash stake (p_of th total)) as [j|] eqn:Ec.
        * destruct (j <=? 0) eqn:E1.
          -- split; [discriminate|]. intros (_ & h & j' & Hh & Hj & Hp & _).
             injection Hh as <-. rewrite Ec in Hj. injection Hj as <-. lia.
          -- destruct (uint32 j =? sub) eqn:E2; cbn [negb].
             ++ split; [intros _|reflexivity]. split; [lia|].
                exists hash, j. repeat split; try reflexivity; try assumption; lia.
             ++ split; [discriminate|]. intros (_ & h & j' & Hh & Hj & _ & Hs).
                injection Hh as <-. rewrite Ec in Hj. injection Hj as <-. lia.
        * split; [discriminate|]. intros (_ & h & j' & Hh & Hj & _).
          injection Hh as <-. rewrite Ec in Hj. discriminate Hj.
      + split; [discriminate|]. intros (_ & h & j' & Hh & _). discriminate Hh.
  Qed.

  Lemma uint32_small : forall j, 0 <= j < 2 ^ 32 -> uint32 j = j.
  Proof. intros j Hj. unfold uint32. apply Z.mod_small. exact Hj. Qed.

  (* prover and verifier agree: the credential VrfSortition issues verifies
     under the issuer's key exactly when it carries at least one seat *)
  Hypothesis vrf_complete : forall sk m,
    proof_to_hash (pk_of sk) m (snd (evaluate sk m)) = Some (fst (evaluate sk m)).

  Lemma prover_verifier_agree : forall sk seed index role th stake total v proof j,
    0 <= stake < 2 ^ 32 ->
    sortition sk seed index role th stake total = Some (v, Some proof, j) ->
    (verify (pk_of sk) seed index role proof j th stake total = SvOk <-> 0 < j).
  Proof.
    intros sk seed index role th stake total v proof j Hst Hs.
    unfold vrf_sortition, vrf_sortition_with in Hs.
    destruct (total =? 0) eqn:E0; [discriminate Hs|].
    destruct (choose (fst (evaluate sk (make_m seed role index))) stake (p_of th total)) as [j0|] eqn:Ec;
      [|discriminate Hs].
    injection Hs as Hv Hp Hj.
    pose proof (choose_range _ _ _ _ (proj1 Hst) Ec) as Hr.
    rewrite uint32_small in Hj by lia. subst j0.
    rewrite verify_ok_iff. split.
    - intros (_ & h & j' & Hh & Hc & Hpos & Hu).
      rewrite <- Hp, vrf_complete in Hh. injection Hh as <-.
      rewrite Ec in Hc. injection Hc as <-. exact Hpos.
    - intros Hpos. split; [lia|].
      exists (fst (evaluate sk (make_m seed role index))), j.
      rewrite <- Hp, vrf_complete. repeat split; try assumption.
      apply uint32_small. lia.
  Qed.

  (* binding: a proof verifies for one key and one message only (stands for
     the soundness of the secp256k1 VRF; exercised by the harness on every
     single-field perturbation) *)
  Hypothesis vrf_binding : forall pk pk' m m' proof h h',
    proof_to_hash pk m proof = Some h -> proof_to_hash pk' m' proof = Some h' ->
    pk = pk' /\ m = m'.

  Lemma credential_binding :
    forall pk seed index role sub pk' seed' index' role' sub' proof th stake total,
    0 <= seed < 2 ^ 256 -> 0 <= seed' < 2 ^ 256 ->
    0 <= role < 2 ^ 32 -> 0 <= role' < 2 ^ 32 ->
    0 <= index < 2 ^ 32 -> 0 <= index' < 2 ^ 32 ->
    verify pk seed index role proof sub th stake total = SvOk ->
    verify pk' seed' index' role' proof sub' th stake total = SvOk ->
    pk = pk' /\ seed = seed' /\ index = index' /\ role = role' /\ sub = sub'.
  Proof.
    intros pk seed index role sub pk' seed' index' role' sub' proof th stake total
           Hs Hs' Hr Hr' Hi Hi' H1 H2.
    apply verify_ok_iff in H1. apply verify_ok_iff in H2.
    destruct H1 as (_ & h & j & Hh & Hc & _ & Hu).
    destruct H2 as (_ & h' & j' & Hh' & Hc' & _ & Hu').
    destruct (vrf_binding _ _ _ _ _ _ _ Hh Hh') as [Epk Em].
    destruct (make_m_injective _ _ _ _ _ _ Hs Hs' Hr Hr' Hi Hi' Em) as (E1 & E2 & E3).
    subst pk' seed' role' index'.
    rewrite Hh in Hh'. injection Hh' as <-.
    rewrite Hc in Hc'. injection Hc' as <-.
    repeat split; try reflexivity. congruence.
  Qed.

  (* a priority verifies iff the seat count matches the recomputed one and the
     priority is the computed maximum *)
  Lemma verify_prio_true_iff : forall pk seed index role proof prio sub th stake total,
    verify_prio pk seed index role proof prio sub th stake total = PvResult true <->
    total mod 2 ^ 64 <> 0 /\
    exists hash j, proof_to_hash pk (make_m seed role index) proof = Some hash /\
                   choose hash stake (p_of th total) = Some j /\ uint32 j = sub /\
                   prio = compute_priority keccak hash j.
  Proof.
    intros. unfold vrf_verify_priority, vrf_verify_priority_with.
    destruct (total mod 2 ^ 64 =? 0) eqn:E0.
    - split; [discriminate|]. intros [H _]. lia.
    - destruct (proof_to_hash pk (make_m seed role index) proof) as [hash|] eqn:Eh.
      + destruct (choose hash stake (p_of th total)) as [j|] eqn:Ec.
        * destruct (uint32 j =? sub) eqn:E2; cbn [negb].
          -- split.
             ++ intros H. injection H as H. split; [lia|].
                exists hash, j. repeat split; try reflexivity; try assumption; lia.
             ++ intros (_ & h & j' & Hh & Hj & _ & Hp).
                injection Hh as <-. rewrite Ec in Hj. injection Hj as <-. f_equal. lia.
          -- split; [discriminate|]. intros (_ & h & j' & Hh & Hj & Hs & _).
             injection Hh as <-. rewrite Ec in Hj. injection Hj as <-. lia.
        * split; [discriminate|]. intros (_ & h & j' & Hh & Hj & _).
          injection Hh as <-. rewrite Ec in Hj. discriminate Hj.
      + split; [discriminate|]. intros (_ & h & j' & Hh & _). discriminate Hh.
  Qed.

  (* ... hence: an accepted priority is the largest hash over the winner's
     seats i = 0..j *)
  Lemma accepted_priority_is_max : forall pk seed index role proof prio sub th stake total,
    0 <= stake ->
    verify_prio pk seed index role proof prio sub th stake total = PvResult true ->
    exists hash j, proof_to_hash pk (make_m seed role index) proof = Some hash /\
                   choose hash stake (p_of th total) = Some j /\ uint32 j = sub /\
                   0 <= j <= stake /\
                   (forall i, 0 <= i <= j -> seat_hash keccak hash i <= prio) /\
                   (prio = 0 \/ exists i, 0 <= i <= j /\ prio = seat_hash keccak hash i).
  Proof.
    intros pk seed index role proof prio sub th stake total Hst H.
    apply verify_prio_true_iff in H. destruct H as (_ & hash & j & Hh & Hc & Hu & Hp).
    pose proof (choose_range _ _ _ _ Hst Hc) as Hr.
    destruct (compute_priority_max keccak hash j ltac:(lia)) as (_ & M1 & M2).
    exists hash, j. rewrite Hp. repeat split; try assumption; lia.
  Qed.
End Verify.
