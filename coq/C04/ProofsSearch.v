(* C04 - search (binary) and scan (linear): both return the least index that
   satisfies the predicate. *)
From VF.C04 Require Import Model.
From Coq Require Import Lia ZifyBool.
Local Open Scope Z_scope.

Lemma shiftr1_mid : forall i j, i < j -> i <= Z.shiftr (i + j) 1 < j.
Proof.
  intros i j Hij. rewrite Z.shiftr_div_pow2 by lia. change (2 ^ 1) with 2.
  split.
  - apply Z.div_le_lower_bound; lia.
  - apply Z.div_lt_upper_bound; lia.
Qed.

Lemma pow2_succ_nat : forall n : nat, 2 ^ Z.of_nat (S n) = 2 * 2 ^ Z.of_nat n.
Proof. intro n. rewrite Nat2Z.inj_succ, Z.pow_succ_r by lia. reflexivity. Qed.

(* the invariant of sort.Search: f(i-1) = false, f(j) = true *)
Lemma search_loop_inv : forall f lo n fuel i j,
  lo <= i -> i <= j -> j <= n -> j - i < 2 ^ Z.of_nat fuel ->
  (i = lo \/ f (i - 1) = false) -> (j = n \/ f j = true) ->
  let r := search_loop fuel f i j in
  i <= r <= j /\ (r = lo \/ f (r - 1) = false) /\ (r = n \/ f r = true).
Proof.
  intros f lo n fuel. induction fuel as [|fuel IH]; intros i j Hlo Hij Hjn Hd Hi Hj.
  - cbn in Hd. assert (i = j) by lia. subst j. cbn. repeat split; try lia; assumption.
  - cbn [search_loop]. destruct (i <? j) eqn:E.
    + apply Z.ltb_lt in E.
      pose proof (shiftr1_mid i j E) as Hh.
      set (h := Z.shiftr (i + j) 1) in *.
      rewrite pow2_succ_nat in Hd.
      assert (Hdiv : 2 * h <= i + j < 2 * h + 2).
      { unfold h. rewrite Z.shiftr_div_pow2 by lia. change (2 ^ 1) with 2.
        pose proof (Z.div_mod (i + j) 2 ltac:(lia)).
        pose proof (Z.mod_pos_bound (i + j) 2 ltac:(lia)). lia. }
      destruct (f h) eqn:Fh; cbn [negb].
      * (* j := h *)
        specialize (IH i h Hlo ltac:(lia) ltac:(lia) ltac:(lia) Hi (or_intror Fh)).
        cbn zeta in IH. destruct IH as (R1 & R2 & R3). repeat split; try lia; assumption.
      * (* i := h+1 *)
        assert (Hf : h + 1 = lo \/ f (h + 1 - 1) = false).
        { right. replace (h + 1 - 1) with h by lia. exact Fh. }
        specialize (IH (h + 1) j ltac:(lia) ltac:(lia) Hjn ltac:(lia) Hf Hj).
        cbn zeta in IH. destruct IH as (R1 & R2 & R3). repeat split; try lia; assumption.
    + apply Z.ltb_ge in E. assert (i = j) by lia. subst j.
      repeat split; try lia; assumption.
Qed.

Lemma log2_fuel : forall n, 0 <= n -> n < 2 ^ Z.of_nat (S (Z.to_nat (Z.log2 n))).
Proof.
  intros n Hn. rewrite Nat2Z.inj_succ, Z2Nat.id by apply Z.log2_nonneg.
  destruct (Z.eq_dec n 0) as [->|Hz].
  - cbn. lia.
  - apply Z.log2_spec. lia.
Qed.

(* search without any assumption on f: the sort.Search post-condition *)
Lemma search_inv : forall n f, 0 <= n ->
  let r := search n f in
  0 <= r <= n /\ (r = 0 \/ f (r - 1) = false) /\ (r = n \/ f r = true).
Proof.
  intros n f Hn. unfold search.
  apply (search_loop_inv f 0 n); try lia.
  pose proof (log2_fuel n Hn). lia.
Qed.

Lemma search_nonpos : forall n f, n <= 0 -> search n f = 0.
Proof.
  intros n f Hn. unfold search. cbn [search_loop].
  destruct (0 <? n) eqn:E; [lia|reflexivity].
Qed.

Definition monotone_on (n : Z) (f : Z -> bool) : Prop :=
  forall i j, 0 <= i -> i <= j -> j < n -> f i = true -> f j = true.

(* search_least: for a monotone predicate the result is the least satisfying
   index of [0,n), or n if there is none *)
Lemma search_least : forall n f, 0 <= n -> monotone_on n f ->
  let r := search n f in
  0 <= r <= n /\ (forall i, 0 <= i < r -> f i = false) /\ (r < n -> f r = true).
Proof.
  intros n f Hn Hm. destruct (search_inv n f Hn) as (R1 & R2 & R3).
  cbn zeta. set (r := search n f) in *.
  split; [exact R1|]. split.
  - intros i Hi. destruct R2 as [R2|R2]; [lia|].
    destruct (f i) eqn:Fi; [|reflexivity].
    assert (f (r - 1) = true) by (apply (Hm i (r - 1)); try lia; exact Fi). congruence.
  - intros Hr. destruct R3 as [R3|R3]; [lia|exact R3].
Qed.

(* scan: the least index in [j, j+fuel) satisfying f, else the default *)
Lemma scan_spec : forall f d fuel j,
  let r := scan fuel f j d in
  (j <= r < j + Z.of_nat fuel /\ f r = true /\ forall x, j <= x < r -> f x = false)
  \/ (r = d /\ forall x, j <= x < j + Z.of_nat fuel -> f x = false).
Proof.
  intros f d fuel. induction fuel as [|fuel IH]; intros j; cbn [scan].
  - right. split; [reflexivity|]. intros x Hx. lia.
  - destruct (f j) eqn:Fj.
    + left. split; [lia|]. split; [exact Fj|]. intros x Hx. lia.
    + specialize (IH (j + 1)). cbn zeta in IH.
      destruct IH as [(H1 & H2 & H3)|(H1 & H2)].
      * left. split; [lia|]. split; [exact H2|].
        intros x Hx. destruct (Z.eq_dec x j) as [->|Hne]; [exact Fj|apply H3; lia].
      * right. split; [exact H1|].
        intros x Hx. destruct (Z.eq_dec x j) as [->|Hne]; [exact Fj|apply H2; lia].
Qed.
