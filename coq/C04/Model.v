(* C04 - executable model of consensus/ucon/sortition.go
   (search, choose, MakeM, computePriority, VrfSortition, VrfVerifySortition,
   VrfVerifyPriority).  No proofs in this file.

   Numbers: hashes are read as integers in [0, 2^256) (Z); stakes and seat
   counts are Z (int64 in Go; wrap-around of int64/uint32 beyond the stated
   ranges is outside the model except where a conversion is written out);
   probabilities are exact rationals Q.

   The float64 kernel (gonum distuv.Binomial.CDF = cephes.Incbet) is NOT
   modelled: [binom_cdf] is the exact binomial distribution function.  The
   correspondence runner at the end of the file therefore compares seat counts
   within a band (see [admissible]). *)
From Coq Require Export List ZArith QArith Bool.
Export ListNotations.
Open Scope Z_scope.

(* maxVrfHashValue = 2^256 - 1 (init.go) *)
Definition max_hash : Z := 2 ^ 256 - 1.

Definition Qlt_bool (a b : Q) : bool := negb (Qle_bool b a).

(* ---- search (sortition.go:227): sort.Search on int64 ------------------- *)
Fixpoint search_loop (fuel : nat) (f : Z -> bool) (i j : Z) : Z :=
  match fuel with
  | O => i
  | S fuel' =>
    if i <? j then
      let h := Z.shiftr (i + j) 1 in
      if negb (f h) then search_loop fuel' f (h + 1) j
      else search_loop fuel' f i h
    else i
  end.

(* the interval halves in every iteration: 1 + log2 n iterations suffice *)
Definition search (n : Z) (f : Z -> bool) : Z :=
  search_loop (S (Z.to_nat (Z.log2 n))) f 0 n.

(* for j := int64(0); j <= n; j++ { if isMatch(j) { return j } }; fall through *)
Fixpoint scan (fuel : nat) (f : Z -> bool) (j : Z) (dflt : Z) : Z :=
  match fuel with
  | O => dflt
  | S k => if f j then j else scan k f (j + 1) dflt
  end.

(* ---- exact binomial distribution function ------------------------------ *)
(* p = a/b, c = b-a.  Weights W_i = C(n,i) a^i c^(n-i) for i = 0 .. fuel-1,
   by W_0 = c^n, W_{i+1} = W_i * ((n-i) a) / ((i+1) c) (exact division). *)
Fixpoint weights (fuel : nat) (n a c : Z) (i : Z) (t : Z) : list Z :=
  match fuel with
  | O => []
  | S f => t :: weights f n a c (i + 1) (t * ((n - i) * a) / ((i + 1) * c))
  end.

Fixpoint prefix_sums (acc : Z) (l : list Z) : list Z :=
  match l with
  | [] => []
  | x :: r => (acc + x) :: prefix_sums (acc + x) r
  end.

(* entries k = 0 .. n-1 of  Pr[X <= k],  X ~ Binomial(n, p) *)
Definition cdf_table (n : Z) (p : Q) : list Q :=
  let a := Qnum p in
  let b := Zpos (Qden p) in
  let c := b - a in
  let d := Z.to_pos (b ^ n) in
  map (fun s => s # d) (prefix_sums 0 (weights (Z.to_nat n) n a c 0 (c ^ n))).

(* distuv.Binomial{N: n, P: p}.CDF(x):  x < 0 -> 0;  x >= N -> 1;  otherwise
   RegIncBeta(N-x, x+1, 1-P), which for 0 <= P <= 1 is Pr[X <= x].  The table
   is built once per distribution object (partial application). *)
Definition binom_cdf (n : Z) (p : Q) : Z -> Q :=
  let t := cdf_table n p in
  fun x => if x <? 0 then 0%Q else if n <=? x then 1%Q else nth (Z.to_nat x) t 0%Q.

(* cephes.Incbet panics ("parameter out of bounds") when its third argument
   1-P (or 1-(1-P)) is outside [0,1] *)
Definition bad_p (p : Q) : bool := Qlt_bool p 0 || Qlt_bool 1 p.

(* ---- choose (sortition.go:174) ------------------------------------------ *)
Definition target_of (hb : Z) : Q := hb # (Z.to_pos max_hash).

(* [cdf] stands for distuv.Binomial{N,P}.CDF *)
Definition choose_with (cdf : Z -> Q -> Z -> Q) (hb w : Z) (p : Q) : Z :=
  if hb =? max_hash then w
  else if hb <? 1 then 0
  else
    let target := target_of hb in
    let n := w in
    if Qlt_bool (99 # 100) target then
      let inv := (1 - target)%Q in
      let invp := (1 - p)%Q in
      let F := cdf n invp in
      let k := search n (fun h => Qlt_bool inv (F h)) in
      n - k
    else
      let F := cdf n p in
      let isMatch := fun h => Qle_bool target (F h) in
      if Qlt_bool (inject_Z n * p) 20 then scan (Z.to_nat (n + 1)) isMatch 0 w
      else search n isMatch.

(* committee/total above 1 is clamped ("if p > 1 { p = 1 }" at the top of
   choose, commit 839997b): every unit of stake is selected.  The result is
   kept as an option so that the unrepaired function below has the same type;
   it is always [Some]. *)
Definition clamp_p (p : Q) : Q := if Qlt_bool 1 p then 1%Q else p.

Definition choose (hb w : Z) (p : Q) : option Z :=
  Some (choose_with binom_cdf hb w (clamp_p p)).

(* the function before the repair.  None = the Go function panicked: with
   0 < hash < max and n >= 1 every regime evaluates CDF(h) for some 0 <= h < n
   first, and cephes.Incbet panics there when p is outside [0,1]
   (p = committee/total > 1 when the committee size exceeds the total stake).
   Kept for the record of the finding and so that an unrepaired tree can still
   be compared. *)
Definition choose_unrepaired (hb w : Z) (p : Q) : option Z :=
  if negb (hb =? max_hash) && (1 <=? hb) && (1 <=? w) && bad_p p then None
  else Some (choose_with binom_cdf hb w p).

(* [repaired] is what the harness observed on the working tree *)
Definition choose_gen (repaired : bool) : Z -> Z -> Q -> option Z :=
  if repaired then choose else choose_unrepaired.

(* ---- bytes --------------------------------------------------------------- *)
(* big-endian, fixed width (binary.BigEndian.PutUint32 / Hash.Bytes) *)
Fixpoint be_bytes (len : nat) (x : Z) : list Z :=
  match len with
  | O => []
  | S l => be_bytes l (x / 256) ++ [x mod 256]
  end.

(* big.Int.Bytes(): minimal big-endian, empty for 0 *)
Fixpoint min_be_fuel (fuel : nat) (x : Z) : list Z :=
  match fuel with
  | O => []
  | S f => if x <=? 0 then [] else min_be_fuel f (x / 256) ++ [x mod 256]
  end.
Definition min_be (x : Z) : list Z := min_be_fuel (S (Z.to_nat (Z.log2 x))) x.

(* MakeM(seed, role, index): 32 + 4 + 4 bytes *)
Definition make_m (seed role index : Z) : list Z :=
  be_bytes 32 seed ++ be_bytes 4 role ++ be_bytes 4 index.

Definition uint32 (x : Z) : Z := x mod 2 ^ 32.

(* pFloat = threshold / totalStake *)
Definition p_of (threshold total : Z) : Q := threshold # (Z.to_pos total).

(* ---- the protocol functions, over an abstract VRF and hash --------------- *)
Inductive sv := SvOk | SvTotalZero | SvBadProof | SvNotValidator | SvWrongSeats | SvPanic.
(* VrfVerifyPriority: (bool, error) *)
Inductive pv := PvResult (b : bool) | PvTotalZero | PvBadProof | PvWrongSeats | PvPanic.

Section Protocol.
  Variables SK PK Proof : Type.
  (* vrf.PrivateKey.Evaluate, vrf.PublicKey.ProofToHash, crypto.Keccak256Hash;
     hash values as integers *)
  Variable evaluate : SK -> list Z -> Z * Proof.
  Variable proof_to_hash : PK -> list Z -> Proof -> option Z.
  Variable keccak : list Z -> Z.
  (* the seat-count function all three entry points call: [choose] below; a
     parameter here only so that the correspondence runner can evaluate the
     same definitions for every seat count the float band admits *)
  Variable chooser : Z -> Z -> Q -> option Z.

  (* computePriority: max over i = 0..j of Keccak(hash ++ i.Bytes()), starting
     from the zero hash, strict comparison *)
  Fixpoint prio_loop (fuel : nat) (hbytes : list Z) (i mx : Z) : Z :=
    match fuel with
    | O => mx
    | S f =>
      let h := keccak (hbytes ++ min_be i) in
      prio_loop f hbytes (i + 1) (if mx <? h then h else mx)
    end.
  Definition compute_priority (hash j : Z) : Z :=
    prio_loop (Z.to_nat (j + 1)) (be_bytes 32 hash) 0 0.

  (* VrfSortition: (value, proof, seats); None = panic *)
  Definition vrf_sortition_with (sk : SK) (seed index role threshold stake total : Z)
    : option (Z * option Proof * Z) :=
    if total =? 0 then Some (0, None, 0)
    else
      let m := make_m seed role index in
      let vp := evaluate sk m in
      match chooser (fst vp) stake (p_of threshold total) with
      | None => None
      | Some j => Some (fst vp, Some (snd vp), uint32 j)
      end.

  Definition vrf_verify_sortition_with (pk : PK) (seed index role : Z) (proof : Proof)
             (subUsers threshold stake total : Z) : sv :=
    if total =? 0 then SvTotalZero
    else
      let m := make_m seed role index in
      match proof_to_hash pk m proof with
      | None => SvBadProof
      | Some hash =>
        match chooser hash stake (p_of threshold total) with
        | None => SvPanic
        | Some j =>
          if j <=? 0 then SvNotValidator
          else if negb (uint32 j =? subUsers) then SvWrongSeats
          else SvOk
        end
      end.

  (* VrfComputePriority(hash, j uint32) *)
  Definition vrf_compute_priority (hash j : Z) : Z := compute_priority hash j.

  Definition vrf_verify_priority_with (pk : PK) (seed index role : Z) (proof : Proof)
             (priority subUsers threshold stake total : Z) : pv :=
    if total mod 2 ^ 64 =? 0 then PvTotalZero      (* totalStake.Int64() == 0 *)
    else
      let m := make_m seed role index in
      match proof_to_hash pk m proof with
      | None => PvBadProof
      | Some hash =>
        match chooser hash stake (p_of threshold total) with
        | None => PvPanic
        | Some j =>
          if negb (uint32 j =? subUsers) then PvWrongSeats
          else PvResult (compute_priority hash j =? priority)
        end
      end.
End Protocol.

(* the functions of sortition.go *)
Definition vrf_sortition SK Proof ev := vrf_sortition_with SK Proof ev choose.
Definition vrf_verify_sortition PK Proof p2h := vrf_verify_sortition_with PK Proof p2h choose.
Definition vrf_verify_priority PK Proof p2h keccak :=
  vrf_verify_priority_with PK Proof p2h keccak choose.

(* ---- Server.verifyPriority (sortition_verifier.go): the gossip path ------------ *)
(* "isValid, err := VrfVerifyPriority(...); if err != nil || !isValid { log; return err }":
   the message is accepted iff the returned error is nil.  [repaired = true] is the
   code as it is (commit 14c9452: an error is returned for (false, nil) too);
   [repaired = false] is the function before that commit, which accepted a
   priority that is not the computed maximum - kept for the record of the finding
   and so that an unrepaired tree can still be compared (the harness probes). *)
Definition server_verify_priority (repaired : bool) (r : pv) : bool :=
  match r with
  | PvResult true => true
  | PvResult false => negb repaired
  | _ => false
  end.

(* ---- decoding of a VRF proof (secp256k1VRF.go: ProofToHash) ------------------- *)
(* proof = s (32 bytes) ++ t (32 bytes) ++ encoding of the VRF point (65 bytes).
   Byte-level parsing is modelled exactly; the group arithmetic is abstract:
   [on_curve] is curve.IsOnCurve, [dleq_check pk m s t x y d] is the comparison
   s == H2(G, H1(m), pk, d, [t]G + [s]pk, [t]H1(m) + [s](x,y)), [sha256] hashes the
   65 encoding bytes (the VRF output). *)
Definition secp256k1_p : Z := 2 ^ 256 - 2 ^ 32 - 977.

Definition be_val (l : list Z) : Z := fold_left (fun a b => a * 256 + b) l 0.

Section VrfDecode.
  Variable PK : Type.
  Variable field_p : Z.
  Variable on_curve : Z -> Z -> bool.
  Variable dleq_check : PK -> list Z -> Z -> Z -> Z -> Z -> list Z -> bool.
  Variable sha256 : list Z -> Z.

  (* elliptic.Unmarshal for a 32-byte field: length 65, tag 4 (uncompressed),
     both coordinates below the field prime, on the curve *)
  Definition unmarshal (d : list Z) : option (Z * Z) :=
    if negb (Z.of_nat (length d) =? 65) then None
    else match d with
         | [] => None
         | tag :: rest =>
           if negb (tag =? 4) then None
           else
             let x := be_val (firstn 32 rest) in
             let y := be_val (skipn 32 rest) in
             if (field_p <=? x) || (field_p <=? y) then None
             else if on_curve x y then Some (x, y) else None
         end.

  Definition proof_to_hash_bytes (pk : PK) (m proof : list Z) : option Z :=
    if negb (Z.of_nat (length proof) =? 129) then None
    else
      let s := firstn 32 proof in
      let t := firstn 32 (skipn 32 proof) in
      let d := skipn 64 proof in
      match unmarshal d with
      | None => None
      | Some (x, y) =>
        if dleq_check pk m (be_val s) (be_val t) x y d then Some (sha256 d) else None
      end.
End VrfDecode.

(* ---- the prover-side manager (sortition_mgr.go) --------------------------- *)
(* What the look-back providers return for a round (getLookBackStake /
   getLookBackSeed); lb: 0 = LookBackPos, 1 = LookBackStake, 2 = LookBackCert. *)
Record stake_info := mkSI {
  si_stake : Z; si_total : Z; si_threshold : Z;
  si_kind : Z;            (* params.ValidatorKind; 1 = KindChamber *)
  si_status : Z;          (* 0 = ValidatorOffline *)
  si_err : bool }.

Definition step_proposal : Z := 1.     (* UConStepProposal *)
Definition step_certificate : Z := 5.  (* Certificate *)
Definition kind_chamber : Z := 1.
Definition lb_pos : Z := 0.
Definition lb_stake : Z := 1.
Definition lb_cert : Z := 2.
(* Voter.vote: LookBackCert for the certificate step, LookBackPos otherwise *)
Definition lb_of_step (step : Z) : Z := if step =? step_certificate then lb_cert else lb_pos.

Section Manager.
  Variables SK Proof : Type.
  Variable evaluate : SK -> list Z -> Z * Proof.
  Variable keccak : list Z -> Z.
  Variable sk : SK.
  Variable env_stake : Z -> bool -> Z -> stake_info.   (* round, isProposer, lb *)
  Variable env_seed : Z -> Z -> option Z.              (* round, lb *)

  Record view := mkView {
    v_priority : Z; v_proof : option Proof; v_sub : Z; v_seedvalue : Z;
    v_kind : Z; v_threshold : Z }.

  (* stepviews: map[RoundIndexHash]StepViews, StepViews = map[step]*StepView;
     RoundIndexHash = 8 bytes round ++ 4 bytes index, so the key is the triple *)
  Record mgr := mkMgr { m_round : Z; m_views : list ((Z * Z * Z) * view) }.
  Definition mgr_init : mgr := mkMgr 0 [].

  Definition key_eqb (a b : Z * Z * Z) : bool :=
    match a, b with (r, i, s), (r', i', s') => (r =? r') && (i =? i') && (s =? s') end.
  Fixpoint get_view (l : list ((Z * Z * Z) * view)) (k : Z * Z * Z) : option view :=
    match l with
    | [] => None
    | (k', v) :: r => if key_eqb k k' then Some v else get_view r k
    end.
  (* NewStepView *)
  Definition put_view (s : mgr) (k : Z * Z * Z) (v : view) : mgr :=
    mkMgr (m_round s) ((k, v) :: m_views s).

  (* ClearStepView *)
  Definition clear_views (s : mgr) (round : Z) : mgr :=
    if round =? m_round s then s else mkMgr round [].

  (* ComputeSeed: VRF(preSeed ++ round.Bytes() ++ be32(index)) *)
  Definition seed_msg (seed round index : Z) : list Z :=
    be_bytes 32 seed ++ min_be round ++ be_bytes 4 index.

  (* the view built from VrfSortition's result *)
  Definition view_of (res : Z * option Proof * Z) (kind threshold : Z) : view :=
    match res with
    | (value, proof, sub) =>
      mkView (compute_priority keccak value sub) proof sub 0 kind threshold
    end.

  (* what isProposer computes on a cache miss: None = (false, nil) *)
  Definition fresh_proposer (round index : Z) : option view :=
    let si := env_stake round true lb_stake in
    if si_err si then None
    else if negb (si_kind si =? kind_chamber) then None
    else match env_seed round lb_pos with
         | None => None
         | Some seed =>
           match vrf_sortition SK Proof evaluate sk seed index step_proposal
                               (si_threshold si) (si_stake si) (si_total si) with
           | None => None
           | Some res =>
             let v := view_of res (si_kind si) (si_threshold si) in
             if 0 <? v_sub v then
               Some (mkView (v_priority v) (v_proof v) (v_sub v)
                            (fst (evaluate sk (seed_msg seed round index)))
                            (v_kind v) (v_threshold v))
             else Some v
           end
         end.

  Definition is_proposer (s : mgr) (round index : Z) : mgr * (bool * option view) :=
    match get_view (m_views s) (round, index, step_proposal) with
    | Some v => (s, if 0 <? v_sub v then (true, Some v) else (false, None))
    | None =>
      match fresh_proposer round index with
      | None => (s, (false, None))
      | Some v =>
        if 0 <? v_sub v then (put_view s (round, index, step_proposal) v, (true, Some v))
        else (s, (false, Some v))
      end
    end.

  (* what isValidator stores on a cache miss, and what it returns *)
  Definition fresh_validator (round index step lb : Z) : option view * (bool * option view) :=
    let si := env_stake round false lb in
    if (si_status si =? 0) || negb (si_kind si =? kind_chamber) then
      (Some (mkView 0 None 0 0 (si_kind si) (si_threshold si)), (false, None))
    else if si_err si || (si_total si <=? 0) then (None, (false, None))
    else match env_seed round lb with
         | None => (None, (false, None))
         | Some seed =>
           match vrf_sortition SK Proof evaluate sk seed index step
                               (si_threshold si) (si_stake si) (si_total si) with
           | None => (None, (false, None))
           | Some res =>
             let v := view_of res (si_kind si) (si_threshold si) in
             (Some v, (0 <? v_sub v, Some v))
           end
         end.

  Definition is_validator (s : mgr) (round index step lb : Z) : mgr * (bool * option view) :=
    match get_view (m_views s) (round, index, step) with
    | Some v => (s, (0 <? v_sub v, Some v))
    | None =>
      match fresh_validator round index step lb with
      | (Some v, out) => (put_view s (round, index, step) v, out)
      | (None, out) => (s, out)
      end
    end.

  Inductive mop :=
  | OClear (round : Z)
  | OProposer (round index : Z)
  | OValidator (round index step : Z)     (* lb = lb_of_step step, as Voter.vote does *)
  | OGet (round index step : Z).

  Definition mstep (s : mgr) (o : mop) : mgr * (bool * option view) :=
    match o with
    | OClear r => (clear_views s r, (false, None))
    | OProposer r i => is_proposer s r i
    | OValidator r i st => is_validator s r i st (lb_of_step st)
    | OGet r i st => (s, (false, get_view (m_views s) (r, i, st)))
    end.

  Fixpoint mrun (s : mgr) (ops : list mop) : mgr * list (bool * option view) :=
    match ops with
    | [] => (s, [])
    | o :: r => let '(s', out) := mstep s o in
                let '(s'', outs) := mrun s' r in (s'', out :: outs)
    end.
End Manager.

(* ---- correspondence runner ---------------------------------------------- *)
(* Seat counts are compared within a band: the implementation evaluates the
   distribution function in float64 (and forms 1-p in float64), so its j may
   differ from the exact quantile j* by one when the target lies within a
   relative distance eps of the neighbouring value of the distribution
   function, relative to min(c, 1-c):
     eps = 1e-9 + n * 2e-14 + (j*+2)/p * 2^-50. *)
Definition Qabs_diff (a b : Q) : Q := if Qle_bool a b then (b - a)%Q else (a - b)%Q.
Definition Qmin2 (a b : Q) : Q := if Qle_bool a b then a else b.

Definition eps_band (n : Z) (p : Q) (j : Z) : Q :=
  ((1 # 1000000000) + inject_Z n * (2 # 100000000000000)
   + (if Qle_bool p 0 then 0 else (inject_Z (j + 2) / p) * (1 # (2 ^ 50))))%Q.

Definition near (n : Z) (p : Q) (j : Z) (t c : Q) : bool :=
  Qle_bool (Qabs_diff t c) (eps_band n p j * Qmin2 c (1 - c))%Q.

Definition opt_Z_eqb (a b : option Z) : bool :=
  match a, b with
  | None, None => true
  | Some x, Some y => x =? y
  | _, _ => false
  end.

(* the seat counts the band admits for (hb, w, p): exact quantile first *)
Definition candidates (rep : bool) (hb w : Z) (p : Q) : list (option Z) :=
  match choose_gen rep hb w p with
  | None => [None]
  | Some js =>
    let p := if rep then clamp_p p else p in
    let t := target_of hb in
    let F := binom_cdf w p in
    Some js
    :: (if (js <? w) && near w p js t (F js) then [Some (js + 1)] else [])
    ++ (if (1 <=? js) && near w p js t (F (js - 1)) then [Some (js - 1)] else [])
  end.

(* is the implementation's answer [g] admissible for (hb, w, p)? *)
Definition admissible (rep : bool) (hb w : Z) (p : Q) (g : option Z) : bool :=
  existsb (opt_Z_eqb g) (candidates rep hb w p).

(* byte strings travel as one number: 1 followed by the bytes, base 256 *)
Definition bytes_key (l : list Z) : Z := fold_left (fun acc b => acc * 256 + b) l 1.

Fixpoint assoc_key {A} (k : Z) (l : list (Z * A)) : option A :=
  match l with
  | [] => None
  | (k', v) :: r => if k =? k' then Some v else assoc_key k r
  end.
Definition assoc_bytes {A} (k : list Z) (l : list (Z * A)) : option A :=
  assoc_key (bytes_key k) l.

Definition sv_code (v : sv) : Z :=
  match v with SvOk => 0 | SvTotalZero => 1 | SvBadProof => 2 | SvNotValidator => 3
             | SvWrongSeats => 4 | SvPanic => 5 end.
Definition pv_code (v : pv) : Z :=
  match v with PvResult true => 0 | PvResult false => 6 | PvTotalZero => 1 | PvBadProof => 2
             | PvWrongSeats => 4 | PvPanic => 5 end.

(* per round: what the stub look-back providers of the harness return *)
Inductive envrec :=
| mkEnv (stake total pth vth cth kind status : Z) (errstake : bool) (seedpos seedcert : Z) (errseed : bool).
Inductive obs :=
| mkObs (flag hasview sub threshold kind seedvalue pth : Z).

Inductive case :=
(* search(n, f) with f given by its table on 0..n-1 (anything beyond: true) *)
| CSearch (n : Z) (tbl : list bool) (got : Z)
(* choose(hash, w, float64(a/b)); got = None when the call panicked *)
| CChoose (hb w : Z) (p : Q) (got : option Z)
(* MakeM *)
| CMakeM (seed role index : Z) (got : Z)   (* got: bytes_key of the 40 bytes *)
(* computePriority(hash, j) with the Keccak values of the candidate inputs *)
| CPrio (hash j : Z) (ktbl : list (Z * Z)) (got : Z)   (* ktbl is for inputs hash ++ _ *)
(* VrfSortition: vtbl = (message, Evaluate output) observed; got_j = -1: panic *)
| CSort (seed index role threshold stake total : Z) (vtbl : list (Z * Z)) (got_value got_j : Z)
(* VrfVerifySortition: vtbl = (message, ProofToHash output) for the proof used *)
| CVerify (seed index role subUsers threshold stake total : Z) (vtbl : list (Z * Z)) (got : Z)
(* VrfVerifyPriority *)
| CVerifyPrio (seed index role priority subUsers threshold stake total : Z)
              (vtbl : list (Z * Z)) (kh : Z) (ktbl : list (Z * Z)) (got : Z)
(* a history of the prover-side manager: env per round, VRF values per message,
   ops, and per op the observed (flag, has view, seats, threshold, kind,
   SeedValue, output of ProofToHash of the returned proof against the message of
   the round ASKED for: -1 does not verify, -2 view without proof, -3 no view) *)
| CMgr (env : list (Z * envrec)) (vtbl : list (Z * Z)) (ops : list mop) (got : list obs)
(* ProofToHash on a 129-ish byte proof: oc = IsOnCurve of the two coordinates
   found at bytes 65..96 / 97..128, dl = the group-level check on them, sha =
   sha256 of bytes 64..128 (all three computed by the harness with the curve
   library), got = what ProofToHash returned *)
| CProof (proof : list Z) (oc dl : bool) (sha : Z) (got : option Z)
(* Server.verifyPriority on a message whose VrfVerifyPriority verdict is [code]
   (pv_code); repaired = what the harness' probe saw; got: 0 accepted, 1 rejected *)
| CServerPrio (repaired : bool) (code : Z) (got : Z).

Definition tbl_fun (tbl : list bool) (h : Z) : bool :=
  if h <? 0 then false else nth (Z.to_nat h) tbl true.

(* Keccak as a table: [ktbl] lists (suffix, value) for inputs kh ++ suffix,
   kh being a 32-byte hash; any other input is unknown (0) *)
Definition keccak_tbl (kh : Z) (ktbl : list (Z * Z)) (m : list Z) : Z :=
  if bytes_key (firstn 32 m) =? 2 ^ 256 + kh then
    match assoc_bytes (skipn 32 m) ktbl with Some v => v | None => 0 end
  else 0.

(* table-driven stand-ins for the VRF: keys and proofs are trivial, the value
   is whatever the implementation returned for that message *)
Definition ev_tbl (vtbl : list (Z * Z)) (_ : unit) (m : list Z) : Z * unit :=
  (match assoc_bytes m vtbl with Some v => v | None => -1 end, tt).
Definition p2h_tbl (vtbl : list (Z * Z)) (_ : unit) (m : list Z) (_ : unit) : option Z :=
  assoc_bytes m vtbl.

(* the seat count every regime of the band would give: hash value looked up
   under the model's own message *)
Definition cands_for (rep : bool) (vtbl : list (Z * Z)) (seed index role threshold stake total : Z)
  : list (option Z) :=
  if total =? 0 then [None]
  else match assoc_bytes (make_m seed role index) vtbl with
       | None => [None]
       | Some hv => candidates rep hv stake (p_of threshold total)
       end.

(* stub providers of the harness, from the per-round table *)
Fixpoint env_get (env : list (Z * envrec)) (r : Z) : option envrec :=
  match env with
  | [] => None
  | (r', e) :: t => if r =? r' then Some e else env_get t r
  end.
Definition env_stake_tbl (env : list (Z * envrec)) (r : Z) (isprop : bool) (lb : Z) : stake_info :=
  match env_get env r with
  | None => mkSI 0 0 0 0 0 true
  | Some (mkEnv stake total pth vth cth kind status errstake _ _ _) =>
    if errstake then mkSI 0 0 0 0 0 true
    else mkSI stake total (if isprop then pth else if lb =? lb_cert then cth else vth) kind status false
  end.
Definition env_seed_tbl (env : list (Z * envrec)) (r : Z) (lb : Z) : option Z :=
  match env_get env r with
  | None => None
  | Some (mkEnv _ _ _ _ _ _ _ _ seedpos seedcert errseed) =>
    if errseed then None else Some (if lb =? lb_cert then seedcert else seedpos)
  end.

(* table VRF whose proof names the message it was made for *)
Definition ev_mgr (vtbl : list (Z * Z)) (_ : unit) (m : list Z) : Z * Z :=
  (match assoc_bytes m vtbl with Some v => v | None => -1 end, bytes_key m).
Definition p2h_mgr (vtbl : list (Z * Z)) (m : list Z) (pr : Z) : Z :=
  if pr =? bytes_key m then match assoc_bytes m vtbl with Some v => v | None => -1 end else -1.

Definition obs_eqb (a b : obs) : bool :=
  match a, b with
  | mkObs a1 a2 a3 a4 a5 a6 a7, mkObs b1 b2 b3 b4 b5 b6 b7 =>
    (a1 =? b1) && (a2 =? b2) && (a3 =? b3) && (a4 =? b4) && (a5 =? b5) && (a6 =? b6) && (a7 =? b7)
  end.

(* the message a view returned for op [o] must verify against *)
Definition asked_msg (env : list (Z * envrec)) (o : mop) : option (list Z) :=
  match o with
  | OClear _ => None
  | OProposer r i =>
    match env_seed_tbl env r lb_pos with Some sd => Some (make_m sd step_proposal i) | None => None end
  | OValidator r i st | OGet r i st =>
    match env_seed_tbl env r (if st =? step_proposal then lb_pos else lb_of_step st) with
    | Some sd => Some (make_m sd st i) | None => None end
  end.

Definition obs_of (env : list (Z * envrec)) (vtbl : list (Z * Z)) (o : mop)
           (out : bool * option (view Z)) : obs :=
  match out with
  | (flag, None) => mkObs (if flag then 1 else 0) 0 0 0 0 0 (-3)
  | (flag, Some v) =>
    mkObs (if flag then 1 else 0) 1 (v_sub Z v) (v_threshold Z v) (v_kind Z v) (v_seedvalue Z v)
          (match v_proof Z v with
           | None => -2
           | Some pr => match asked_msg env o with Some m => p2h_mgr vtbl m pr | None => -1 end
           end)
  end.

Fixpoint obs_all_eqb (a b : list obs) : bool :=
  match a, b with
  | [], [] => true
  | x :: r, y :: r' => obs_eqb x y && obs_all_eqb r r'
  | _, _ => false
  end.

Definition case_ok (rep : bool) (c : case) : bool :=
  match c with
  | CSearch n tbl got => search n (tbl_fun tbl) =? got
  | CChoose hb w p got => admissible rep hb w p got
  | CMakeM seed role index got => bytes_key (make_m seed role index) =? got
  | CPrio hash j ktbl got =>
    compute_priority (keccak_tbl hash ktbl) hash j =? got
  | CSort seed index role threshold stake total vtbl got_value got_j =>
    existsb (fun cj =>
               match vrf_sortition_with unit unit (ev_tbl vtbl) (fun _ _ _ => cj) tt
                                        seed index role threshold stake total with
               | None => got_j =? -1
               | Some (v, _, j) => (v =? got_value) && (j =? got_j)
               end)
            (cands_for rep vtbl seed index role threshold stake total)
  | CVerify seed index role subUsers threshold stake total vtbl got =>
    existsb (fun cj =>
               sv_code (vrf_verify_sortition_with unit unit (p2h_tbl vtbl) (fun _ _ _ => cj)
                          tt seed index role tt subUsers threshold stake total) =? got)
            (cands_for rep vtbl seed index role threshold stake total)
  | CVerifyPrio seed index role priority subUsers threshold stake total vtbl kh ktbl got =>
    existsb (fun cj =>
               pv_code (vrf_verify_priority_with unit unit (p2h_tbl vtbl) (keccak_tbl kh ktbl)
                          (fun _ _ _ => cj) tt seed index role tt priority subUsers
                          threshold stake total) =? got)
            (cands_for rep vtbl seed index role threshold stake total)
  | CMgr env vtbl ops got =>
    (* stakes of manager histories are tiny and the hashes uniform: the exact
       seat count is used (no band) *)
    let outs := snd (mrun unit Z (ev_mgr vtbl) (fun _ => 0) tt
                          (env_stake_tbl env) (env_seed_tbl env) (mgr_init Z) ops) in
    obs_all_eqb (map (fun oo => obs_of env vtbl (fst oo) (snd oo)) (combine ops outs)) got
  | CProof proof oc dl sha got =>
    opt_Z_eqb (proof_to_hash_bytes unit secp256k1_p (fun _ _ => oc) (fun _ _ _ _ _ _ _ => dl)
                                   (fun _ => sha) tt [] proof) got
  | CServerPrio repaired code got =>
    let r := if code =? 0 then PvResult true else if code =? 6 then PvResult false
             else if code =? 1 then PvTotalZero else if code =? 2 then PvBadProof
             else if code =? 4 then PvWrongSeats else PvPanic in
    (if server_verify_priority repaired r then 0 else 1) =? got
  end.

Fixpoint mismatches_from (rep : bool) (i : N) (l : list case) : list N :=
  match l with
  | [] => []
  | c :: r => if case_ok rep c then mismatches_from rep (i + 1)%N r
              else i :: mismatches_from rep (i + 1)%N r
  end.
(* the code as it stands (repaired) / a tree without the repair (the harness
   probes choose with committee > total once and picks the matching one) *)
Definition mismatches := mismatches_from true 0%N.
Definition mismatches_unrepaired := mismatches_from false 0%N.
