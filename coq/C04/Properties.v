(* C04 - property theorems only.  Each is closed by [exact] of a lemma of the
   Proofs files and followed by Print Assumptions.

   What is modelled exactly: search, the regime structure of choose, MakeM,
   computePriority, the three Vrf* entry points.  What is NOT: the float64
   kernel distuv.Binomial.CDF (cephes.Incbet); in the model it is the exact
   binomial distribution function.  C04_quantile is therefore a statement about
   choose with exact arithmetic (label: partial with respect to float64
   rounding; the implementation is compared within a band on every run). *)
From VF.C04 Require Import Model ProofsSearch ProofsBinom ProofsChoose ProofsProtocol ProofsManager ProofsVrf.
From Coq Require Import Lia.
Local Open Scope Z_scope.

(* ---- search ---------------------------------------------------------------- *)
(* for a monotone predicate search returns the least index of [0,n) that
   satisfies it, and n if there is none *)
Theorem C04_search_least : forall n f, 0 <= n -> monotone_on n f ->
  let r := search n f in
  0 <= r <= n /\ (forall i, 0 <= i < r -> f i = false) /\ (r < n -> f r = true).
Proof. exact search_least. Qed.
Print Assumptions C04_search_least.

(* for ANY predicate: the post-condition of sort.Search *)
Theorem C04_search_postcondition : forall n f, 0 <= n ->
  let r := search n f in
  0 <= r <= n /\ (r = 0 \/ f (r - 1) = false) /\ (r = n \/ f r = true).
Proof. exact search_inv. Qed.
Print Assumptions C04_search_postcondition.

(* ---- the distribution function -------------------------------------------- *)
(* the executable distribution function the model runs (integer weights) is the
   distribution of the number of successes in n independent trials ... *)
Theorem C04_cdf_is_trial_distribution : forall (n : Z) (p : Q) (x : Z),
  0 <= n -> 0 <= Qnum p <= Zpos (Qden p) ->
  (binom_cdf n p x == bern (Z.to_nat n) p x)%Q.
Proof. exact binom_cdf_bern. Qed.
Print Assumptions C04_cdf_is_trial_distribution.

(* ... which is the binomial sum  sum_{i<=k} C(n,i) p^i (1-p)^(n-i) *)
Theorem C04_cdf_closed_form : forall n p k, 0 <= k ->
  (bern n p k == sumQ (pmfQ n p) (Z.to_nat k))%Q.
Proof. exact bern_closed_form. Qed.
Print Assumptions C04_cdf_closed_form.

(* mirror law used by the upper-tail branch *)
Theorem C04_cdf_mirror : forall n p k,
  (bern n (1 - p) k == 1 - bern n p (Z.of_nat n - k - 1))%Q.
Proof. exact bern_mirror. Qed.
Print Assumptions C04_cdf_mirror.

(* ---- seats = binomial quantile -------------------------------------------- *)
(* for every hash in [0, 2^256-1], every stake, every committee/total in (0,1]:
   choose returns the least j in [0, stake] with hash/(2^256-1) <= F(j), in all
   regimes (hash 0 / max, mirrored search above 0.99, linear scan, binary
   search).  Exact arithmetic (see header). *)
Theorem C04_quantile_partial : forall hb w p,
  0 <= hb <= max_hash -> 0 <= w -> (0 < p)%Q -> (p <= 1)%Q ->
  exists j, choose hb w p = Some j /\
            is_quantile (bern (Z.to_nat w) p) (target_of hb) w j.
Proof. exact choose_quantile. Qed.
Print Assumptions C04_quantile_partial.

(* every committee size and total stake, also committee > total: the quantile
   of Binomial(stake, min(committee/total, 1)) *)
Theorem C04_quantile_any_committee_partial : forall hb w p,
  0 <= hb <= max_hash -> 0 <= w -> (0 < p)%Q ->
  exists j, choose hb w p = Some j /\
            is_quantile (bern (Z.to_nat w) (clamp_p p)) (target_of hb) w j.
Proof. exact choose_quantile_clamped. Qed.
Print Assumptions C04_quantile_any_committee_partial.

(* the quantile is unique: whoever recomputes it gets the same seat count *)
Theorem C04_quantile_unique : forall F t n j j',
  is_quantile F t n j -> is_quantile F t n j' -> j = j'.
Proof. exact is_quantile_unique. Qed.
Print Assumptions C04_quantile_unique.

(* always between 0 and the stake: every hash, stake, committee size, total *)
Theorem C04_seats_total_in_range : forall hb w p, 0 <= w ->
  exists j, choose hb w p = Some j /\ 0 <= j <= w.
Proof. exact choose_total. Qed.
Print Assumptions C04_seats_total_in_range.

(* ... and whatever the distribution kernel computes (so also for the float64
   kernel of the implementation, as long as it returns) *)
Theorem C04_seats_in_range_any_kernel : forall cdf hb w p, 0 <= w ->
  0 <= choose_with cdf hb w p <= w.
Proof. exact choose_with_range. Qed.
Print Assumptions C04_seats_in_range_any_kernel.

(* ---- record of the finding fixed by 839997b: committee > total stake ------- *)
(* the function before the repair panicked exactly here *)
Theorem C04_unrepaired_panics_iff : forall hb w p,
  choose_unrepaired hb w p = None <->
  (hb <> max_hash /\ 1 <= hb /\ 1 <= w /\ ((p < 0)%Q \/ (1 < p)%Q)).
Proof. exact unrepaired_none_iff. Qed.
Print Assumptions C04_unrepaired_panics_iff.

(* so "always between 0 and its stake, for every committee size and total
   stake" was false for it (hash 1, stake 1, committee 2, total 1) ... *)
Theorem C04_unrepaired_total_refuted : ~ total_for choose_unrepaired.
Proof. exact unrepaired_total_refuted. Qed.
Print Assumptions C04_unrepaired_total_refuted.

(* ... holds for the code as it is now ... *)
Theorem C04_total : total_for choose.
Proof. exact repaired_total. Qed.
Print Assumptions C04_total.

(* ... and the repair changed nothing where the old function returned *)
Theorem C04_repair_agrees : forall hb w p, (0 <= p)%Q -> (p <= 1)%Q ->
  choose hb w p = choose_unrepaired hb w p.
Proof. exact repair_agrees. Qed.
Print Assumptions C04_repair_agrees.

(* ---- credentials ------------------------------------------------------------ *)
(* (seed, step, round index) -> 40 bytes is injective *)
Theorem C04_MakeM_injective : forall seed role index seed' role' index',
  0 <= seed < 2 ^ 256 -> 0 <= seed' < 2 ^ 256 ->
  0 <= role < 2 ^ 32 -> 0 <= role' < 2 ^ 32 ->
  0 <= index < 2 ^ 32 -> 0 <= index' < 2 ^ 32 ->
  make_m seed role index = make_m seed' role' index' ->
  seed = seed' /\ role = role' /\ index = index'.
Proof. exact make_m_injective. Qed.
Print Assumptions C04_MakeM_injective.

(* the verifier accepts iff the proof yields a hash for MakeM(seed, step, index)
   under the key, and the seat count it recomputes with the same [choose] is
   positive and equals the claimed one *)
Theorem C04_verifier_agrees :
  forall (PK Proof : Type) (proof_to_hash : PK -> list Z -> Proof -> option Z)
         pk seed index role proof sub th stake total,
    vrf_verify_sortition PK Proof proof_to_hash pk seed index role proof sub th stake total = SvOk <->
    total <> 0 /\
    exists hash j, proof_to_hash pk (make_m seed role index) proof = Some hash /\
                   choose hash stake (p_of th total) = Some j /\ 0 < j /\ uint32 j = sub.
Proof. exact verify_ok_iff. Qed.
Print Assumptions C04_verifier_agrees.

(* what VrfSortition issues verifies under the issuer's key exactly when it
   carries a seat (hypothesis: completeness of the VRF) *)
Theorem C04_prover_verifier_agree :
  forall (SK PK Proof : Type) (evaluate : SK -> list Z -> Z * Proof)
         (proof_to_hash : PK -> list Z -> Proof -> option Z) (pk_of : SK -> PK),
    (forall sk m, proof_to_hash (pk_of sk) m (snd (evaluate sk m)) = Some (fst (evaluate sk m))) ->
    forall sk seed index role th stake total v proof j,
      0 <= stake < 2 ^ 32 ->
      vrf_sortition SK Proof evaluate sk seed index role th stake total = Some (v, Some proof, j) ->
      (vrf_verify_sortition PK Proof proof_to_hash (pk_of sk) seed index role proof j th stake total = SvOk
       <-> 0 < j).
Proof. exact prover_verifier_agree. Qed.
Print Assumptions C04_prover_verifier_agree.

(* a credential is accepted only for the key, seed, round index, step and seat
   count it was issued for (hypothesis: a VRF proof verifies for one key and one
   message only) *)
Theorem C04_credential_binding :
  forall (PK Proof : Type) (proof_to_hash : PK -> list Z -> Proof -> option Z),
    (forall pk pk' m m' proof h h',
        proof_to_hash pk m proof = Some h -> proof_to_hash pk' m' proof = Some h' ->
        pk = pk' /\ m = m') ->
    forall pk seed index role sub pk' seed' index' role' sub' proof th stake total,
      0 <= seed < 2 ^ 256 -> 0 <= seed' < 2 ^ 256 ->
      0 <= role < 2 ^ 32 -> 0 <= role' < 2 ^ 32 ->
      0 <= index < 2 ^ 32 -> 0 <= index' < 2 ^ 32 ->
      vrf_verify_sortition PK Proof proof_to_hash pk seed index role proof sub th stake total = SvOk ->
      vrf_verify_sortition PK Proof proof_to_hash pk' seed' index' role' proof sub' th stake total = SvOk ->
      pk = pk' /\ seed = seed' /\ index = index' /\ role = role' /\ sub = sub'.
Proof. exact credential_binding. Qed.
Print Assumptions C04_credential_binding.

(* ---- priority ---------------------------------------------------------------- *)
(* a priority verifies iff the seat count matches and it equals computePriority *)
Theorem C04_priority_accept_iff :
  forall (PK Proof : Type) (proof_to_hash : PK -> list Z -> Proof -> option Z)
         (keccak : list Z -> Z) pk seed index role proof prio sub th stake total,
    vrf_verify_priority PK Proof proof_to_hash keccak pk seed index role proof prio sub th stake total
    = PvResult true <->
    total mod 2 ^ 64 <> 0 /\
    exists hash j, proof_to_hash pk (make_m seed role index) proof = Some hash /\
                   choose hash stake (p_of th total) = Some j /\ uint32 j = sub /\
                   prio = compute_priority keccak hash j.
Proof. exact verify_prio_true_iff. Qed.
Print Assumptions C04_priority_accept_iff.

(* ... and then it is the largest Keccak(hash ++ i) over the winner's seats
   i = 0..j (or the zero hash it starts from) *)
Theorem C04_priority_max :
  forall (PK Proof : Type) (proof_to_hash : PK -> list Z -> Proof -> option Z)
         (keccak : list Z -> Z) pk seed index role proof prio sub th stake total,
    0 <= stake ->
    vrf_verify_priority PK Proof proof_to_hash keccak pk seed index role proof prio sub th stake total
    = PvResult true ->
    exists hash j, proof_to_hash pk (make_m seed role index) proof = Some hash /\
                   choose hash stake (p_of th total) = Some j /\ uint32 j = sub /\
                   0 <= j <= stake /\
                   (forall i, 0 <= i <= j -> seat_hash keccak hash i <= prio) /\
                   (prio = 0 \/ exists i, 0 <= i <= j /\ prio = seat_hash keccak hash i).
Proof. exact accepted_priority_is_max. Qed.
Print Assumptions C04_priority_max.

(* ---- the pre-images of the priority ------------------------------------------------ *)
(* C04_priority_max: an accepted priority is the largest
   Keccak256(output ++ min_be i) over exactly the seats i = 0..j.  The seat number
   enters as big.Int.Bytes(): big-endian (its big-endian value is the seat),
   minimal (nothing for seat 0, no leading zero byte otherwise) ... *)
Theorem C04_seat_encoding_big_endian_minimal : forall x,
  (0 <= x -> be_val (min_be x) = x) /\
  min_be 0 = [] /\ (0 < x -> exists b l, min_be x = b :: l /\ 0 < b < 256).
Proof. intro x. split; [exact (min_be_val x)|exact (min_be_minimal x)]. Qed.
Print Assumptions C04_seat_encoding_big_endian_minimal.

(* ... and injective: distinct seats give distinct pre-images under one VRF output *)
Theorem C04_seat_preimages_distinct : forall hash i j, 0 <= i -> 0 <= j ->
  be_bytes 32 hash ++ min_be i = be_bytes 32 hash ++ min_be j -> i = j.
Proof. exact seat_preimage_inj. Qed.
Print Assumptions C04_seat_preimages_distinct.

(* ---- the gossip path: Server.verifyPriority ------------------------------------------- *)
(* the proposal / priority message handlers accept a proposer priority exactly
   when VrfVerifyPriority found it valid (code as it is, commit 14c9452) *)
Theorem C04_gossip_priority : forall r,
  server_verify_priority true r = true <-> r = PvResult true.
Proof. exact server_priority_repaired. Qed.
Print Assumptions C04_gossip_priority.

(* record of the finding fixed by 14c9452: before it the verdict (false, nil) -
   seat count right, priority not the maximum - was accepted ... *)
Theorem C04_gossip_priority_unrepaired_refuted :
  ~ (forall r, server_verify_priority false r = true -> r = PvResult true).
Proof. exact server_priority_refuted. Qed.
Print Assumptions C04_gossip_priority_unrepaired_refuted.

(* ... and nothing else was *)
Theorem C04_gossip_priority_unrepaired_holds_outside : forall r, r <> PvResult false ->
  server_verify_priority false r = true -> r = PvResult true.
Proof. exact server_priority_holds_outside. Qed.
Print Assumptions C04_gossip_priority_unrepaired_holds_outside.

(* ---- VRF uniqueness from the decoding of the proof ------------------------------ *)
(* the only encodings of the VRF point ProofToHash accepts: 65 bytes
   "04 || X || Y" with X, Y below the field prime and (X,Y) on the curve *)
Theorem C04_vrf_accepted_encodings :
  forall (field_p : Z) (on_curve : Z -> Z -> bool) d x y,
    unmarshal field_p on_curve d = Some (x, y) ->
    exists rest, d = 4 :: rest /\ length rest = 64%nat /\
                 x = be_val (firstn 32 rest) /\ y = be_val (skipn 32 rest) /\
                 x < field_p /\ y < field_p /\ on_curve x y = true.
Proof. exact unmarshal_some. Qed.
Print Assumptions C04_vrf_accepted_encodings.

(* group-level hypothesis: the discrete-log-equality check passes for one curve
   point per key and message.  Then every proof (any bytes) accepted for (key,
   message) yields the same VRF output ... *)
Theorem C04_vrf_output_unique :
  forall (PK : Type) (field_p : Z) (on_curve : Z -> Z -> bool)
         (dleq_check : PK -> list Z -> Z -> Z -> Z -> Z -> list Z -> bool) (sha256 : list Z -> Z),
    (forall pk m s t x y d s' t' x' y' d',
        on_curve x y = true -> on_curve x' y' = true ->
        dleq_check pk m s t x y d = true -> dleq_check pk m s' t' x' y' d' = true ->
        x = x' /\ y = y') ->
    forall pk m proof proof' h h',
      bytes proof -> bytes proof' ->
      proof_to_hash_bytes PK field_p on_curve dleq_check sha256 pk m proof = Some h ->
      proof_to_hash_bytes PK field_p on_curve dleq_check sha256 pk m proof' = Some h' ->
      h = h'.
Proof. exact vrf_output_unique. Qed.
Print Assumptions C04_vrf_output_unique.

(* ... so for one key, seed, round index, step, stake and thresholds the
   verifier accepts ONE seat count, whatever proofs are presented: nobody can
   claim other seats than the VRF gives ... *)
Theorem C04_seats_unique :
  forall (PK : Type) (field_p : Z) (on_curve : Z -> Z -> bool)
         (dleq_check : PK -> list Z -> Z -> Z -> Z -> Z -> list Z -> bool) (sha256 : list Z -> Z),
    (forall pk m s t x y d s' t' x' y' d',
        on_curve x y = true -> on_curve x' y' = true ->
        dleq_check pk m s t x y d = true -> dleq_check pk m s' t' x' y' d' = true ->
        x = x' /\ y = y') ->
    forall pk seed index role proof proof' sub sub' th stake total,
      bytes proof -> bytes proof' ->
      vrf_verify_sortition PK (list Z) (proof_to_hash_bytes PK field_p on_curve dleq_check sha256)
                           pk seed index role proof sub th stake total = SvOk ->
      vrf_verify_sortition PK (list Z) (proof_to_hash_bytes PK field_p on_curve dleq_check sha256)
                           pk seed index role proof' sub' th stake total = SvOk ->
      sub = sub'.
Proof. exact seats_unique. Qed.
Print Assumptions C04_seats_unique.

(* ... and ONE priority *)
Theorem C04_priority_unique :
  forall (PK : Type) (field_p : Z) (on_curve : Z -> Z -> bool)
         (dleq_check : PK -> list Z -> Z -> Z -> Z -> Z -> list Z -> bool) (sha256 : list Z -> Z),
    (forall pk m s t x y d s' t' x' y' d',
        on_curve x y = true -> on_curve x' y' = true ->
        dleq_check pk m s t x y d = true -> dleq_check pk m s' t' x' y' d' = true ->
        x = x' /\ y = y') ->
    forall keccak pk seed index role proof proof' prio prio' sub sub' th stake total,
      bytes proof -> bytes proof' ->
      vrf_verify_priority PK (list Z) (proof_to_hash_bytes PK field_p on_curve dleq_check sha256) keccak
                          pk seed index role proof prio sub th stake total = PvResult true ->
      vrf_verify_priority PK (list Z) (proof_to_hash_bytes PK field_p on_curve dleq_check sha256) keccak
                          pk seed index role proof' prio' sub' th stake total = PvResult true ->
      prio = prio' /\ sub = sub'.
Proof. exact priority_unique. Qed.
Print Assumptions C04_priority_unique.

(* ---- prover side: the sortition manager -------------------------------------- *)
(* Over all histories of ClearStepView / isProposer / isValidator / GetStepView
   (validator queries for the vote steps, as Voter.vote issues them): every view
   returned for (round, index, step) is the one computed for exactly that round -
   fresh_proposer / fresh_validator are by definition VrfSortition on
   MakeM(seed(round), step, index) with that round's stake, total and threshold
   (or the seat-less placeholder of an offline / non-chamber validator). *)
Theorem C04_manager_views_bound :
  forall (SK Proof : Type) (evaluate : SK -> list Z -> Z * Proof) (keccak : list Z -> Z) (sk : SK)
         (env_stake : Z -> bool -> Z -> stake_info) (env_seed : Z -> Z -> option Z)
         ops o flag v,
    Forall valid_op ops -> valid_op o ->
    snd (mstep SK Proof evaluate keccak sk env_stake env_seed
               (fst (mrun SK Proof evaluate keccak sk env_stake env_seed (mgr_init Proof) ops)) o)
    = (flag, Some v) ->
    view_for_query SK Proof evaluate keccak sk env_stake env_seed o = Some v.
Proof. exact manager_views_bound. Qed.
Print Assumptions C04_manager_views_bound.

(* the proposer query is a pure function of (round, index), whatever came before *)
Theorem C04_manager_proposer_pure :
  forall (SK Proof : Type) (evaluate : SK -> list Z -> Z * Proof) (keccak : list Z -> Z) (sk : SK)
         (env_stake : Z -> bool -> Z -> stake_info) (env_seed : Z -> Z -> option Z)
         ops r i,
    Forall valid_op ops ->
    snd (mstep SK Proof evaluate keccak sk env_stake env_seed
               (fst (mrun SK Proof evaluate keccak sk env_stake env_seed (mgr_init Proof) ops))
               (OProposer r i))
    = proposer_answer SK Proof evaluate keccak sk env_stake env_seed r i.
Proof. exact manager_proposer_pure. Qed.
Print Assumptions C04_manager_proposer_pure.

(* ---- non-vacuity -------------------------------------------------------------- *)
(* a monotone predicate with its least index, found by search *)
Example C04_nonvacuous_search :
  monotone_on 1000 (fun h => 617 <=? h) /\ search 1000 (fun h => 617 <=? h) = 617.
Proof. split; [intros i j _ Hij _ H; lia|vm_compute; reflexivity]. Qed.
Print Assumptions C04_nonvacuous_search.

(* one hash per regime, stake 40, committee/total = 26/50 (mean 20.8: binary
   search), 1/8 (linear scan), and the upper tail; the seat count is the
   quantile: F(j-1) < t <= F(j) on the exact distribution *)
Example C04_nonvacuous_quantile :
  let t1 := 2 ^ 255 in let t2 := max_hash - 2 ^ 250 in
  (choose t1 40 (26 # 50) = Some 21 /\
   Qle_bool (target_of t1) (binom_cdf 40 (26 # 50) 21) = true /\
   Qlt_bool (binom_cdf 40 (26 # 50) 20) (target_of t1) = true) /\
  (choose t1 40 (1 # 8) = Some 5 /\
   Qle_bool (target_of t1) (binom_cdf 40 (1 # 8) 5) = true /\
   Qlt_bool (binom_cdf 40 (1 # 8) 4) (target_of t1) = true) /\
  (choose t2 40 (26 # 50) = Some 28 /\
   Qle_bool (target_of t2) (binom_cdf 40 (26 # 50) 28) = true /\
   Qlt_bool (binom_cdf 40 (26 # 50) 27) (target_of t2) = true) /\
  choose 0 40 (26 # 50) = Some 0 /\ choose max_hash 40 (26 # 50) = Some 40.
Proof. vm_compute. repeat split; reflexivity. Qed.
Print Assumptions C04_nonvacuous_quantile.

(* the finding's witness: before and after the repair *)
Example C04_nonvacuous_finding :
  choose_unrepaired 1 1 (2 # 1) = None /\ choose 1 1 (2 # 1) = Some 1 /\
  choose_unrepaired (2 ^ 255) 10 (26 # 15) = None /\ choose (2 ^ 255) 10 (26 # 15) = Some 10.
Proof. vm_compute. repeat split; reflexivity. Qed.
Print Assumptions C04_nonvacuous_finding.

(* a toy VRF that satisfies both hypotheses (the proof names key and message),
   a credential it issues with seats, its acceptance, and the rejection of the
   same credential under another round index *)
Definition toy_eval (sk : Z) (m : list Z) : Z * (Z * list Z) :=
  ((sk * 7919 + fold_left (fun a b => a * 257 + b) m 1) * 2 ^ 200 mod 2 ^ 256, (sk, m)).
Definition toy_p2h (pk : Z) (m : list Z) (pr : Z * list Z) : option Z :=
  if (fst pr =? pk) && (if list_eq_dec Z.eq_dec (snd pr) m then true else false)
  then Some (fst (toy_eval pk m)) else None.

Lemma toy_complete : forall sk m, toy_p2h sk m (snd (toy_eval sk m)) = Some (fst (toy_eval sk m)).
Proof.
  intros sk m. unfold toy_p2h. cbn [toy_eval snd fst]. rewrite Z.eqb_refl.
  destruct (list_eq_dec Z.eq_dec m m); [reflexivity|congruence].
Qed.

Lemma toy_binding : forall pk pk' m m' proof h h',
  toy_p2h pk m proof = Some h -> toy_p2h pk' m' proof = Some h' -> pk = pk' /\ m = m'.
Proof.
  intros pk pk' m m' [k mm] h h' H1 H2. unfold toy_p2h in *. cbn [fst snd] in *.
  destruct (k =? pk) eqn:E1; [|discriminate H1].
  destruct (k =? pk') eqn:E2; [|discriminate H2].
  destruct (list_eq_dec Z.eq_dec mm m); [|discriminate H1].
  destruct (list_eq_dec Z.eq_dec mm m'); [|discriminate H2].
  split; [lia|congruence].
Qed.

Example C04_nonvacuous_credential :
  (forall sk m, toy_p2h sk m (snd (toy_eval sk m)) = Some (fst (toy_eval sk m))) /\
  (forall pk pk' m m' proof h h',
      toy_p2h pk m proof = Some h -> toy_p2h pk' m' proof = Some h' -> pk = pk' /\ m = m') /\
  match vrf_sortition Z (Z * list Z) toy_eval 5 11 1 2 26 30 50 with
  | Some (v, Some proof, j) =>
    (0 <? j) = true /\
    vrf_verify_sortition Z (Z * list Z) toy_p2h 5 11 1 2 proof j 26 30 50 = SvOk /\
    vrf_verify_sortition Z (Z * list Z) toy_p2h 5 11 2 2 proof j 26 30 50 = SvBadProof /\
    vrf_verify_sortition Z (Z * list Z) toy_p2h 5 11 1 2 proof (j + 1) 26 30 50 = SvWrongSeats
  | _ => False
  end.
Proof.
  split; [exact toy_complete|]. split; [exact toy_binding|].
  vm_compute. repeat split; reflexivity.
Qed.
Print Assumptions C04_nonvacuous_credential.

(* a priority the verifier accepts: the maximum of the seat hashes of a toy hash *)
Definition toy_keccak (m : list Z) : Z := fold_left (fun a b => (a * 31 + b * 17 + 5) mod 1009) m 7.

Example C04_nonvacuous_priority :
  match vrf_sortition Z (Z * list Z) toy_eval 5 11 1 2 26 30 50 with
  | Some (v, Some proof, j) =>
    (0 <? j) = true /\
    vrf_verify_priority Z (Z * list Z) toy_p2h toy_keccak 5 11 1 2 proof
                        (compute_priority toy_keccak v j) j 26 30 50 = PvResult true /\
    vrf_verify_priority Z (Z * list Z) toy_p2h toy_keccak 5 11 1 2 proof
                        (compute_priority toy_keccak v (j - 1) - 1) j 26 30 50 = PvResult false
  | _ => False
  end.
Proof. vm_compute. repeat split; reflexivity. Qed.
Print Assumptions C04_nonvacuous_priority.

Example C04_nonvacuous_MakeM :
  make_m 1 2 3 <> make_m 1 3 2 /\ length (make_m (2 ^ 256 - 1) (2 ^ 32 - 1) 0) = 40%nat.
Proof. split; [vm_compute; discriminate|vm_compute; reflexivity]. Qed.
Print Assumptions C04_nonvacuous_MakeM.

(* a history with a straggling older round after the clear for the next one:
   clear(8); validator(7,0,2); validator(8,0,2); proposer(7,0); proposer(8,0):
   all four queries return a view with seats, and the views of rounds 7 and 8
   differ (so a cache that forgot the round would be wrong) *)
Definition toy_env_stake (r : Z) (isprop : bool) (lb : Z) : stake_info :=
  mkSI 30 50 (if isprop then 26 else 40) kind_chamber 1 false.
Definition toy_env_seed (r lb : Z) : option Z := Some (r * 1000003 + lb).
Definition toy_hist : list mop :=
  [OClear 8; OValidator 7 0 2; OValidator 8 0 2; OProposer 7 0; OProposer 8 0].

Example C04_nonvacuous_manager :
  Forall valid_op toy_hist /\
  match snd (mrun Z (Z * list Z) toy_eval toy_keccak 5 toy_env_stake toy_env_seed
                  (mgr_init (Z * list Z)) toy_hist) with
  | [_; (true, Some v7); (true, Some v8); (true, Some p7); (true, Some p8)] =>
    v_proof _ v7 <> v_proof _ v8 /\ v_proof _ p7 <> v_proof _ p8 /\
    (0 <? v_sub _ v7) && (0 <? v_sub _ v8) && (0 <? v_sub _ p7) && (0 <? v_sub _ p8) = true
  | _ => False
  end.
Proof.
  split.
  - repeat constructor; cbn; discriminate.
  - vm_compute. repeat split; discriminate || reflexivity.
Qed.
Print Assumptions C04_nonvacuous_manager.

(* decoding: a toy group check that satisfies the uniqueness hypothesis (it
   passes for the point (7, 9) only); the canonical encoding is accepted, the
   same point under another tag byte or with a trailing byte is not *)
Definition toy_dleq (pk : unit) (m : list Z) (s t x y : Z) (d : list Z) : bool := (x =? 7) && (y =? 9).
Definition toy_point : list Z := repeat 0 31 ++ [7] ++ repeat 0 31 ++ [9].
Definition toy_proof (tag : Z) : list Z := repeat 1 64 ++ [tag] ++ toy_point.
Definition toy_p2h_bytes := proof_to_hash_bytes unit 1000 (fun _ _ => true) toy_dleq (fun d => be_val d mod 1000003).

Example C04_nonvacuous_vrf_decoding :
  (forall pk m s t x y d s' t' x' y' d',
      true = true -> true = true ->
      toy_dleq pk m s t x y d = true -> toy_dleq pk m s' t' x' y' d' = true -> x = x' /\ y = y') /\
  bytes (toy_proof 4) /\
  toy_p2h_bytes tt [] (toy_proof 4) <> None /\
  toy_p2h_bytes tt [] (toy_proof 2) = None /\ toy_p2h_bytes tt [] (toy_proof 0) = None /\
  toy_p2h_bytes tt [] (toy_proof 4 ++ [0]) = None.
Proof.
  split.
  - intros pk m s t x y d s' t' x' y' d' _ _ H H'. unfold toy_dleq in *.
    apply andb_true_iff in H. apply andb_true_iff in H'. lia.
  - split; [repeat constructor; unfold is_byte; lia|]. vm_compute. repeat split; discriminate || reflexivity.
Qed.
Print Assumptions C04_nonvacuous_vrf_decoding.

(* seats whose number takes two and three bytes: 397 = 01 8d, 65536 = 01 00 00 *)
Example C04_nonvacuous_seat_encoding :
  min_be 255 = [255] /\ min_be 256 = [1; 0] /\ min_be 397 = [1; 141] /\ min_be 65536 = [1; 0; 0] /\
  min_be 256 <> [0; 1].
Proof. vm_compute. repeat split; reflexivity || discriminate. Qed.
Print Assumptions C04_nonvacuous_seat_encoding.
