(* C04 - decoding of VRF proofs: given the group-level soundness of the
   discrete-log-equality check (one point per key and message), the set of
   accepted encodings is so small that the VRF output is unique: every proof
   ProofToHash accepts for (key, message) yields the same output, hence the same
   seat count and priority. *)
From VF.C04 Require Import Model ProofsChoose ProofsProtocol.
From Coq Require Import Lia ZifyBool.
Local Open Scope Z_scope.

Definition is_byte (b : Z) : Prop := 0 <= b < 256.
Definition bytes (l : list Z) : Prop := Forall is_byte l.

Lemma bytes_firstn : forall n l, bytes l -> bytes (firstn n l).
Proof.
  induction n as [|n IH]; intros l H; [constructor|].
  destruct l as [|x l]; [constructor|]. inversion H; subst. constructor; [assumption|apply IH; assumption].
Qed.

Lemma bytes_skipn : forall n l, bytes l -> bytes (skipn n l).
Proof.
  induction n as [|n IH]; intros l H; [exact H|].
  destruct l as [|x l]; [constructor|]. inversion H; subst. apply IH. assumption.
Qed.

Lemma fold_acc : forall l a,
  fold_left (fun a b => a * 256 + b) l a
  = a * 256 ^ Z.of_nat (length l) + fold_left (fun a b => a * 256 + b) l 0.
Proof.
  induction l as [|x l IH]; intros a; cbn [fold_left length].
  - cbn. lia.
  - rewrite (IH (a * 256 + x)), (IH (0 * 256 + x)).
    rewrite Nat2Z.inj_succ, Z.pow_succ_r by lia. ring.
Qed.

Lemma be_val_cons : forall x l, be_val (x :: l) = x * 256 ^ Z.of_nat (length l) + be_val l.
Proof. intros x l. unfold be_val. cbn [fold_left]. rewrite fold_acc. ring. Qed.

Lemma be_val_bound : forall l, bytes l -> 0 <= be_val l < 256 ^ Z.of_nat (length l).
Proof.
  induction l as [|x l IH]; intros H.
  - cbn. lia.
  - inversion H as [|? ? Hx Hl]; subst. specialize (IH Hl). rewrite be_val_cons.
    cbn [length]. rewrite Nat2Z.inj_succ, Z.pow_succ_r by lia.
    unfold is_byte in Hx. nia.
Qed.

Lemma be_val_inj : forall l l', length l = length l' -> bytes l -> bytes l' ->
  be_val l = be_val l' -> l = l'.
Proof.
  induction l as [|x l IH]; intros l' Hlen Hb Hb' E; destruct l' as [|x' l']; try discriminate Hlen.
  - reflexivity.
  - inversion Hb as [|? ? Hx Hl]; subst. inversion Hb' as [|? ? Hx' Hl']; subst.
    injection Hlen as Hlen. rewrite !be_val_cons, <- Hlen in E.
    pose proof (be_val_bound l Hl) as B. pose proof (be_val_bound l' Hl') as B'. rewrite <- Hlen in B'.
    set (K := 256 ^ Z.of_nat (length l)) in *.
    assert (HK : 0 < K) by (apply Z.pow_pos_nonneg; lia).
    assert (x = x') by nia. subst x'.
    f_equal. apply IH; try assumption. lia.
Qed.

(* ---- the seat number inside a priority pre-image: big.Int.Bytes() ------------- *)
Lemma be_val_app1 : forall l b, be_val (l ++ [b]) = be_val l * 256 + b.
Proof. intros l b. unfold be_val. rewrite fold_left_app. reflexivity. Qed.

Lemma min_be_fuel_val : forall f x, 0 <= x < 2 ^ Z.of_nat f -> be_val (min_be_fuel f x) = x.
Proof.
  induction f as [|f IH]; intros x Hx.
  - cbn in Hx. assert (x = 0) by lia. subst. reflexivity.
  - cbn [min_be_fuel]. destruct (x <=? 0) eqn:E.
    + assert (x = 0) by lia. subst. reflexivity.
    + rewrite be_val_app1, IH.
      * pose proof (Z.div_mod x 256 ltac:(lia)). lia.
      * rewrite Nat2Z.inj_succ, Z.pow_succ_r in Hx by lia.
        split; [apply Z.div_pos; lia|]. apply Z.div_lt_upper_bound; lia.
Qed.

Lemma min_be_fuel_ok : forall x, 0 <= x -> x < 2 ^ Z.of_nat (S (Z.to_nat (Z.log2 x))).
Proof.
  intros x Hx. rewrite Nat2Z.inj_succ, Z2Nat.id by apply Z.log2_nonneg.
  destruct (Z.eq_dec x 0) as [->|Hz]; [cbn; lia|]. apply Z.log2_spec. lia.
Qed.

(* big-endian value of the minimal encoding is the seat number ... *)
Lemma min_be_val : forall x, 0 <= x -> be_val (min_be x) = x.
Proof.
  intros x Hx. unfold min_be. apply min_be_fuel_val. split; [exact Hx|apply min_be_fuel_ok; exact Hx].
Qed.

(* ... so distinct seats have distinct encodings ... *)
Lemma min_be_inj : forall i j, 0 <= i -> 0 <= j -> min_be i = min_be j -> i = j.
Proof.
  intros i j Hi Hj E. rewrite <- (min_be_val i Hi), <- (min_be_val j Hj), E. reflexivity.
Qed.

(* ... and distinct pre-images under the same VRF output *)
Lemma seat_preimage_inj : forall hash i j, 0 <= i -> 0 <= j ->
  be_bytes 32 hash ++ min_be i = be_bytes 32 hash ++ min_be j -> i = j.
Proof.
  intros hash i j Hi Hj E. apply app_inv_head in E. apply min_be_inj; assumption.
Qed.

(* minimal: no leading zero byte (nothing at all for seat 0), every byte a byte *)
Lemma min_be_fuel_head : forall f x, 0 < x < 2 ^ Z.of_nat f ->
  exists b l, min_be_fuel f x = b :: l /\ 0 < b < 256.
Proof.
  induction f as [|f IH]; intros x Hx.
  - cbn in Hx. lia.
  - cbn [min_be_fuel]. destruct (x <=? 0) eqn:E; [lia|].
    destruct (Z.eq_dec (x / 256) 0) as [Hq|Hq].
    + rewrite Hq. destruct f; cbn [min_be_fuel]; cbn [Z.leb Z.compare app];
        (exists (x mod 256), []; split; [reflexivity|]);
        pose proof (Z.div_mod x 256 ltac:(lia)); pose proof (Z.mod_pos_bound x 256 ltac:(lia)); lia.
    + assert (Hq' : 0 < x / 256) by (pose proof (Z.div_pos x 256 ltac:(lia) ltac:(lia)); lia).
      rewrite Nat2Z.inj_succ, Z.pow_succ_r in Hx by lia.
      destruct (IH (x / 256)) as (b & l & El & Hb).
      { split; [exact Hq'|apply Z.div_lt_upper_bound; lia]. }
      rewrite El. exists b, (l ++ [x mod 256]). split; [reflexivity|exact Hb].
Qed.

Lemma min_be_minimal : forall x,
  min_be 0 = [] /\ (0 < x -> exists b l, min_be x = b :: l /\ 0 < b < 256).
Proof.
  intros x. split; [reflexivity|]. intros Hx. unfold min_be. apply min_be_fuel_head.
  split; [exact Hx|apply min_be_fuel_ok; lia].
Qed.

Section Unique.
  Variable PK : Type.
  Variable field_p : Z.
  Variable on_curve : Z -> Z -> bool.
  Variable dleq_check : PK -> list Z -> Z -> Z -> Z -> Z -> list Z -> bool.
  Variable sha256 : list Z -> Z.

  Notation unmarshal := (unmarshal field_p on_curve).
  Notation p2h := (proof_to_hash_bytes PK field_p on_curve dleq_check sha256).

  (* group-level hypothesis (soundness of the discrete-log-equality proof in the
     random-oracle model): for one key and one message the check can pass for
     one curve point only, the point [k]H1(m) *)
  Hypothesis dleq_unique : forall pk m s t x y d s' t' x' y' d',
    on_curve x y = true -> on_curve x' y' = true ->
    dleq_check pk m s t x y d = true -> dleq_check pk m s' t' x' y' d' = true ->
    x = x' /\ y = y'.

  (* the accepted encodings of a point: exactly "04 || X || Y" with X, Y < p *)
  Lemma unmarshal_some : forall d x y, unmarshal d = Some (x, y) ->
    exists rest, d = 4 :: rest /\ length rest = 64%nat /\
                 x = be_val (firstn 32 rest) /\ y = be_val (skipn 32 rest) /\
                 x < field_p /\ y < field_p /\ on_curve x y = true.
  Proof.
    intros d x y H. unfold Model.unmarshal in H.
    destruct (Z.of_nat (length d) =? 65) eqn:El; cbn [negb] in H; [|discriminate H].
    destruct d as [|tag rest]; [discriminate H|].
    destruct (tag =? 4) eqn:Et; cbn [negb] in H; [|discriminate H].
    destruct ((field_p <=? be_val (firstn 32 rest)) || (field_p <=? be_val (skipn 32 rest))) eqn:Ep;
      [discriminate H|].
    destruct (on_curve (be_val (firstn 32 rest)) (be_val (skipn 32 rest))) eqn:Ec; [|discriminate H].
    injection H as <- <-. apply orb_false_iff in Ep. destruct Ep as [E1 E2].
    apply Z.eqb_eq in Et. subst tag.
    apply Z.eqb_eq in El. change (length (4 :: rest)) with (S (length rest)) in El.
    apply Z.leb_gt in E1. apply Z.leb_gt in E2.
    exists rest. split; [reflexivity|]. split; [lia|]. split; [reflexivity|]. split; [reflexivity|].
    split; [exact E1|]. split; [exact E2|exact Ec].
  Qed.

  Lemma encoding_unique : forall d d' x y, bytes d -> bytes d' ->
    unmarshal d = Some (x, y) -> unmarshal d' = Some (x, y) -> d = d'.
  Proof.
    intros d d' x y Hb Hb' H H'.
    apply unmarshal_some in H. apply unmarshal_some in H'.
    destruct H as (r & -> & Hl & Hx & Hy & _). destruct H' as (r' & -> & Hl' & Hx' & Hy' & _).
    inversion Hb as [|? ? _ Hr]; subst. inversion Hb' as [|? ? _ Hr']; subst.
    f_equal. rewrite <- (firstn_skipn 32 r), <- (firstn_skipn 32 r'). f_equal.
    - apply be_val_inj; [rewrite !firstn_length; lia|apply bytes_firstn; assumption|apply bytes_firstn; assumption|congruence].
    - apply be_val_inj; [rewrite !skipn_length; lia|apply bytes_skipn; assumption|apply bytes_skipn; assumption|congruence].
  Qed.

  (* VRF uniqueness at the byte level *)
  Lemma vrf_output_unique : forall pk m proof proof' h h',
    bytes proof -> bytes proof' ->
    p2h pk m proof = Some h -> p2h pk m proof' = Some h' -> h = h'.
  Proof.
    intros pk m proof proof' h h' Hb Hb' H H'. unfold proof_to_hash_bytes in H, H'.
    destruct (Z.of_nat (length proof) =? 129); cbn [negb] in H; [|discriminate H].
    destruct (Z.of_nat (length proof') =? 129); cbn [negb] in H'; [|discriminate H'].
    destruct (unmarshal (skipn 64 proof)) as [[x y]|] eqn:U; [|discriminate H].
    destruct (unmarshal (skipn 64 proof')) as [[x' y']|] eqn:U'; [|discriminate H'].
    destruct (dleq_check pk m _ _ x y _) eqn:D; [|discriminate H].
    destruct (dleq_check pk m _ _ x' y' _) eqn:D'; [|discriminate H'].
    injection H as <-. injection H' as <-.
    pose proof (unmarshal_some _ _ _ U) as (_ & _ & _ & _ & _ & _ & _ & Oc).
    pose proof (unmarshal_some _ _ _ U') as (_ & _ & _ & _ & _ & _ & _ & Oc').
    destruct (dleq_unique _ _ _ _ _ _ _ _ _ _ _ _ Oc Oc' D D') as [-> ->].
    f_equal. apply (encoding_unique (skipn 64 proof) (skipn 64 proof') x' y');
      [apply bytes_skipn; exact Hb|apply bytes_skipn; exact Hb'|exact U|exact U'].
  Qed.

  (* hence: for one key, seed, round index, step, stake and thresholds the
     verifier accepts one seat count only, whatever proofs are presented *)
  Lemma seats_unique : forall pk seed index role proof proof' sub sub' th stake total,
    bytes proof -> bytes proof' ->
    vrf_verify_sortition PK (list Z) p2h pk seed index role proof sub th stake total = SvOk ->
    vrf_verify_sortition PK (list Z) p2h pk seed index role proof' sub' th stake total = SvOk ->
    sub = sub'.
  Proof.
    intros pk seed index role proof proof' sub sub' th stake total Hb Hb' H H'.
    apply verify_ok_iff in H. apply verify_ok_iff in H'.
    destruct H as (_ & h & j & Hh & Hc & _ & Hu). destruct H' as (_ & h' & j' & Hh' & Hc' & _ & Hu').
    assert (h = h') by (exact (vrf_output_unique pk (make_m seed role index) proof proof' h h' Hb Hb' Hh Hh')). subst h'.
    rewrite Hc in Hc'. injection Hc' as <-. congruence.
  Qed.

  (* ... and one priority only *)
  Lemma priority_unique : forall keccak pk seed index role proof proof' prio prio' sub sub' th stake total,
    bytes proof -> bytes proof' ->
    vrf_verify_priority PK (list Z) p2h keccak pk seed index role proof prio sub th stake total = PvResult true ->
    vrf_verify_priority PK (list Z) p2h keccak pk seed index role proof' prio' sub' th stake total = PvResult true ->
    prio = prio' /\ sub = sub'.
  Proof.
    intros keccak pk seed index role proof proof' prio prio' sub sub' th stake total Hb Hb' H H'.
    apply verify_prio_true_iff in H. apply verify_prio_true_iff in H'.
    destruct H as (_ & h & j & Hh & Hc & Hu & Hp). destruct H' as (_ & h' & j' & Hh' & Hc' & Hu' & Hp').
    assert (h = h') by (exact (vrf_output_unique pk (make_m seed role index) proof proof' h h' Hb Hb' Hh Hh')). subst h'.
    rewrite Hc in Hc'. injection Hc' as <-. split; congruence.
  Qed.
End Unique.

(* ---- Server.verifyPriority ------------------------------------------------------- *)
Lemma server_priority_refuted :
  ~ (forall r, server_verify_priority false r = true -> r = PvResult true).
Proof. intro H. specialize (H (PvResult false) eq_refl). discriminate H. Qed.

Lemma server_priority_holds_outside : forall r, r <> PvResult false ->
  server_verify_priority false r = true -> r = PvResult true.
Proof. intros [[|]| | | |] Hn H; try discriminate H; [reflexivity|congruence]. Qed.

Lemma server_priority_repaired : forall r,
  server_verify_priority true r = true <-> r = PvResult true.
Proof. intros [[|]| | | |]; cbn; split; intro H; try discriminate H; reflexivity. Qed.
