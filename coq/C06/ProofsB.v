(* C06 - proofs, part B: rewardsToPool / distributeRewards do not depend on the
   order in which the runtime iterates roleRewards and rewardsRecord. *)
From Coq Require Import List ZArith NArith Bool Permutation Lia RelationClasses.
Require Import ZifyBool ZifyN ZifyNat.
From VF.C06 Require Import Model ProofsA.
Import ListNotations.
Local Open Scope Z_scope.

(* a schedule is admissible when every site only re-orders the entries *)
Definition sched_valid (sc : sched) : Prop :=
  (forall l, Permutation (s_rr1 sc l) l) /\ (forall l, Permutation (s_rr2 sc l) l) /\
  (forall l, Permutation (s_rr3 sc l) l) /\ (forall l, Permutation (s_rec sc l) l).

Lemma id_sched_valid : sched_valid id_sched.
Proof. repeat split; intro l; cbn; apply Permutation_refl. Qed.

Lemma rev_sched_valid : sched_valid rev_sched.
Proof. repeat split; intro l; cbn; apply Permutation_sym; apply Permutation_rev. Qed.

(* ---- roleRewards, loop 1 ------------------------------------------------------ *)

Lemma rr_loop1_perm : forall per l l', Permutation l l' -> Permutation (rr_loop1 per l) (rr_loop1 per l').
Proof. intros. unfold rr_loop1. apply Permutation_map. assumption. Qed.

(* ---- roleRewards, loops 2 and 3 ------------------------------------------------ *)

Lemma pr_ext : forall a b, pr_ch a = pr_ch b -> pr_se a = pr_se b -> pr_ho a = pr_ho b -> a = b.
Proof. intros [] [] ? ? ?; cbn in *; subst; reflexivity. Qed.

Lemma padd_comm : forall p r x r' y, padd (padd p r x) r' y = padd (padd p r' y) r x.
Proof. intros p r x r' y. destruct r; destruct r'; apply pr_ext; cbn; lia. Qed.

Lemma rr_step_v5_comm : forall a x y, rr_step_v5 (rr_step_v5 a x) y = rr_step_v5 (rr_step_v5 a y) x.
Proof.
  intros [p q] [r1 v1] [r2 v2]. unfold rr_step_v5. cbn [fst snd].
  destruct (role_eqb r1 House); destruct (role_eqb r2 House); cbn [fst snd]; f_equal; try lia.
  apply padd_comm.
Qed.

Lemma rr_step_old_comm : forall pr a x y,
  rr_step_old pr (rr_step_old pr a x) y = rr_step_old pr (rr_step_old pr a y) x.
Proof.
  intros pr [p q] [r1 v1] [r2 v2]. unfold rr_step_old. cbn [fst snd].
  destruct (role_eqb r1 pr); destruct (role_eqb r2 pr); cbn [fst snd]; f_equal; try lia.
  apply padd_comm.
Qed.

Lemma rr_loop2_perm : forall l l' a, Permutation l l' -> fold_left rr_step_v5 l a = fold_left rr_step_v5 l' a.
Proof. intros. apply fold_left_perm_comm; auto. apply rr_step_v5_comm. Qed.

Lemma rr_loop3_perm : forall pr l l' a, Permutation l l' ->
  fold_left (rr_step_old pr) l a = fold_left (rr_step_old pr) l' a.
Proof. intros. apply fold_left_perm_comm; auto. apply rr_step_old_comm. Qed.

(* ---- rewardsToPool ---------------------------------------------------------------- *)

Lemma rewards_to_pool_sched_free :
  forall sc sc' v5 thr coeff ratios counts pb gas res pools proposer,
    sched_valid sc -> sched_valid sc' ->
    rewards_to_pool sc v5 thr coeff ratios counts pb gas res pools proposer =
    rewards_to_pool sc' v5 thr coeff ratios counts pb gas res pools proposer.
Proof.
  intros sc sc' v5 thr coeff ratios counts pb gas res pools proposer (A1 & A2 & A3 & _) (B1 & B2 & B3 & _).
  unfold rewards_to_pool.
  destruct (block_rewards thr coeff pb gas res) as [subs total].
  destruct (total <=? 0); [reflexivity|].
  destruct (sum_ratios (role_entries counts ratios) =? 0); [reflexivity|].
  destruct proposer as [prole|]; [|reflexivity].
  set (per := Z.quot total (sum_ratios (role_entries counts ratios))).
  set (E := role_entries counts ratios).
  assert (P1 : Permutation (rr_loop1 per (s_rr1 sc E)) (rr_loop1 per (s_rr1 sc' E))).
  { apply rr_loop1_perm. eapply Permutation_trans; [apply A1 | apply Permutation_sym; apply B1]. }
  destruct v5.
  - rewrite (rr_loop2_perm (s_rr2 sc (rr_loop1 per (s_rr1 sc E))) (s_rr2 sc' (rr_loop1 per (s_rr1 sc' E)))).
    + reflexivity.
    + eapply Permutation_trans; [apply A2|]. eapply Permutation_trans; [exact P1|]. apply Permutation_sym. apply B2.
  - rewrite (rr_loop3_perm prole (s_rr3 sc (rr_loop1 per (s_rr1 sc E))) (s_rr3 sc' (rr_loop1 per (s_rr1 sc' E)))).
    + reflexivity.
    + eapply Permutation_trans; [apply A3|]. eapply Permutation_trans; [exact P1|]. apply Permutation_sym. apply B3.
Qed.

(* ---- distributeRewards: the final loop over rewardsRecord --------------------------- *)

Lemma existsb_perm {A} (f : A -> bool) : forall l l', Permutation l l' -> existsb f l = existsb f l'.
Proof.
  intros l l' Hp. induction Hp; cbn.
  - reflexivity.
  - rewrite IHHp. reflexivity.
  - destruct (f x); destruct (f y); reflexivity.
  - rewrite IHHp1. assumption.
Qed.

Lemma pset_comm : forall p r x r' y, r <> r' -> pset (pset p r x) r' y = pset (pset p r' y) r x.
Proof. intros p r x r' y Hne. destruct r; destruct r'; try congruence; apply pr_ext; reflexivity. Qed.

Lemma rec_loop_perm : forall pools l l', NoDup (map fst l) -> Permutation l l' -> rec_loop pools l = rec_loop pools l'.
Proof.
  intros pools l l' Hnd Hp. unfold rec_loop.
  rewrite (existsb_perm rec_bad l l' Hp).
  destruct (existsb rec_bad l'); [reflexivity|].
  f_equal.
  apply (fold_left_perm_keyed eq (fun e : role * (Z * Z) => fst e)); auto.
  - apply eq_equivalence.
  - intros; subst; reflexivity.
  - intros a x y Hne. apply pset_comm. exact Hne.
Qed.

Lemma rec_set_keys : forall l r v, map fst (rec_set l r v) = map fst l.
Proof.
  induction l as [|[k w] t IH]; intros r v; cbn; [reflexivity|].
  destruct (role_eqb k r); cbn; [reflexivity|]. rewrite IH. reflexivity.
Qed.

Lemma dist_vals_keys : forall vals recs rs recs',
  dist_vals recs vals = Done (rs, recs') -> map fst recs' = map fst recs.
Proof.
  induction vals as [|v t IH]; intros recs rs recs' H; cbn in H.
  - inversion H; subst. reflexivity.
  - destruct (negb (d_online v)).
    + destruct (dist_vals recs t) as [[rs0 r0]|] eqn:E; [|discriminate].
      inversion H; subst. eapply IH; eassumption.
    + destruct (rec_lookup recs (d_role v)) as [[total per]|]; [|discriminate].
      destruct (total - (if role_eqb (d_role v) House then per else per * d_stake v) <? 0); [discriminate|].
      destruct (dist_vals _ t) as [[rs0 r0]|] eqn:E; [|discriminate].
      inversion H; subst. apply IH in E. rewrite E. apply rec_set_keys.
Qed.

Lemma role_filter_nodup : forall f, NoDup (filter f all_roles).
Proof.
  intro f. unfold all_roles. cbn.
  destruct (f Chancellor); destruct (f Senator); destruct (f House);
    repeat constructor; cbn; intuition discriminate.
Qed.

Lemma dist_records_keys_nodup : forall counts onstake pools, NoDup (map fst (dist_records counts onstake pools)).
Proof.
  intros. unfold dist_records. rewrite map_map.
  rewrite (map_ext _ (fun r : role => r)) by (intro; reflexivity).
  rewrite map_id. apply role_filter_nodup.
Qed.

Lemma distribute_sched_free :
  forall sc sc' counts onstake pools vals, sched_valid sc -> sched_valid sc' ->
    distribute sc counts onstake pools vals = distribute sc' counts onstake pools vals.
Proof.
  intros sc sc' counts onstake pools vals (_ & _ & _ & A4) (_ & _ & _ & B4).
  unfold distribute.
  destruct (existsb _ (dist_records counts onstake pools)); [reflexivity|].
  match goal with |- context [dist_vals ?p vals] => set (pers := p) end.
  destruct (dist_vals pers vals) as [[rews recs']|] eqn:E; [|reflexivity].
  match goal with |- context [s_rec sc ?f] => set (final := f) end.
  assert (Hk : NoDup (map fst final)).
  { unfold final. rewrite map_map.
    rewrite (map_ext _ (fun x : role * (Z * Z) => fst x)) by (intro; reflexivity).
    change (map (fun x : role * (Z * Z) => fst x) recs') with (map fst recs').
    rewrite (dist_vals_keys _ _ _ _ E). unfold pers. rewrite map_map.
    rewrite (map_ext _ (fun x : role * (Z * Z) => fst x)) by (intro; reflexivity).
    apply dist_records_keys_nodup. }
  rewrite (rec_loop_perm pools (s_rec sc final) (s_rec sc' final)).
  - reflexivity.
  - eapply Permutation_NoDup; [|exact Hk]. apply Permutation_map. apply Permutation_sym. apply A4.
  - eapply Permutation_trans; [apply A4 | apply Permutation_sym; apply B4].
Qed.
