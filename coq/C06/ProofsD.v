(* C06 - proofs, part D: the StateDB's object cache of staking records.  A
   StateDB carried over from a previous block (side-chain verification) computes
   what a fresh StateDB opened on the same tries computes, provided its cache is
   coherent with its trie; every operation keeps the cache coherent. *)
From Coq Require Import List ZArith NArith Bool Lia.
Require Import ZifyBool ZifyN ZifyNat.
From VF.C06 Require Import Model ProofsA.
Import ListNotations.
Local Open Scope Z_scope.

(* what the code reads for a key through the object: live object first *)
Definition sr_read (s : srdb) (k : N) : option Z :=
  match sr_cache s k with Some v => Some v | None => sr_trie s k end.

(* two objects that the code cannot tell apart *)
Definition sr_sim (s s' : srdb) : Prop :=
  (forall k, sr_read s k = sr_read s' k) /\
  sr_dirty s = sr_dirty s' /\
  (forall k, In k (sr_dirty s) -> sr_cache s k = sr_cache s' k /\ sr_cache s k <> None) /\
  (forall k, ~ In k (sr_dirty s) -> sr_trie s k = sr_trie s' k).

Lemma upd_eq {V} (m : gmap V) k v : upd m k v k = v.
Proof. unfold upd. rewrite N.eqb_refl. reflexivity. Qed.
Lemma upd_neq {V} (m : gmap V) k v x : x <> k -> upd m k v x = m x.
Proof. intro H. unfold upd. destruct (N.eqb x k) eqn:E; [apply N.eqb_eq in E; congruence | reflexivity]. Qed.

Lemma sim_of_coherent : forall s, sr_coherent s -> sr_dirty s = [] -> sr_sim s (sr_fresh (sr_trie s)).
Proof.
  intros s Hc Hd. unfold sr_sim. cbn. rewrite Hd. split; [|split; [reflexivity|split]].
  - intro k. unfold sr_read; cbn. destruct (sr_cache s k) as [v|] eqn:E; [|reflexivity].
    symmetry. apply Hc; [exact E | rewrite Hd; tauto].
  - intros k H. destruct H.
  - intros k _. reflexivity.
Qed.

(* ---- sr_load ----------------------------------------------------------- *)

Lemma sr_load_out : forall s k, snd (sr_load s k) = sr_read s k.
Proof.
  intros s k. unfold sr_load, sr_read. destruct (sr_cache s k); [reflexivity|].
  destruct (sr_trie s k); reflexivity.
Qed.

Lemma sr_load_read : forall s k x, sr_read (fst (sr_load s k)) x = sr_read s x.
Proof.
  intros s k x. unfold sr_load, sr_read. destruct (sr_cache s k) eqn:Ec; [reflexivity|].
  destruct (sr_trie s k) eqn:Et; [|reflexivity]. cbn.
  destruct (N.eq_dec x k) as [->|Hne].
  - rewrite upd_eq, Ec. symmetry. exact Et.
  - rewrite upd_neq by exact Hne. reflexivity.
Qed.

Lemma sr_load_trie : forall s k, sr_trie (fst (sr_load s k)) = sr_trie s.
Proof. intros s k. unfold sr_load. destruct (sr_cache s k); [reflexivity|]. destruct (sr_trie s k); reflexivity. Qed.
Lemma sr_load_dirty : forall s k, sr_dirty (fst (sr_load s k)) = sr_dirty s.
Proof. intros s k. unfold sr_load. destruct (sr_cache s k); [reflexivity|]. destruct (sr_trie s k); reflexivity. Qed.
Lemma sr_load_cache_some : forall s k x, sr_cache s x <> None -> sr_cache (fst (sr_load s k)) x = sr_cache s x.
Proof.
  intros s k x H. unfold sr_load. destruct (sr_cache s k) eqn:Ec; [reflexivity|].
  destruct (sr_trie s k); [|reflexivity]. cbn.
  destruct (N.eq_dec x k) as [->|Hne]; [congruence | apply upd_neq; exact Hne].
Qed.

Lemma sr_load_sim : forall s s' k, sr_sim s s' ->
  sr_sim (fst (sr_load s k)) (fst (sr_load s' k)) /\ snd (sr_load s k) = snd (sr_load s' k).
Proof.
  intros s s' k (H1 & H2 & H3 & H4). split.
  - unfold sr_sim. rewrite !sr_load_dirty, !sr_load_trie. split; [|split; [|split]].
    + intro x. rewrite !sr_load_read. apply H1.
    + exact H2.
    + intros x Hx. destruct (H3 x Hx) as [Ha Hb].
      rewrite !sr_load_cache_some; [split; assumption | rewrite <- Ha; exact Hb | exact Hb].
    + exact H4.
  - rewrite !sr_load_out. apply H1.
Qed.

Lemma sr_load_coherent : forall s k, sr_coherent s -> sr_coherent (fst (sr_load s k)).
Proof.
  intros s k Hc x v Hx Hd. rewrite sr_load_trie. rewrite sr_load_dirty in Hd.
  unfold sr_load in Hx. destruct (sr_cache s k) eqn:Ec; [apply Hc; assumption|].
  destruct (sr_trie s k) eqn:Et; [|apply Hc; assumption]. cbn in Hx.
  destruct (N.eq_dec x k) as [->|Hne].
  - rewrite upd_eq in Hx. congruence.
  - rewrite upd_neq in Hx by exact Hne. apply Hc; assumption.
Qed.

(* ---- sr_get / sr_add / sr_flush / sr_reset -------------------------------- *)

Lemma sr_get_sim : forall s s' k, sr_sim s s' ->
  sr_sim (fst (sr_get s k)) (fst (sr_get s' k)) /\ snd (sr_get s k) = snd (sr_get s' k).
Proof.
  intros s s' k H. destruct (sr_load_sim s s' k H) as [Ha Hb]. unfold sr_get.
  destruct (sr_load s k) as [s1 o]. destruct (sr_load s' k) as [s1' o']. cbn in *. subst o'. split; [exact Ha | reflexivity].
Qed.

Lemma sr_add_sim : forall s s' k v, sr_sim s s' -> sr_sim (sr_add s k v) (sr_add s' k v).
Proof.
  intros s s' k v Hsim. destruct (sr_load_sim s s' k Hsim) as [(H1 & H2 & H3 & H4) _]. unfold sr_add.
  destruct (sr_load s k) as [s1 o]. destruct (sr_load s' k) as [s1' o']. cbn in *.
  unfold sr_sim, sr_read; cbn. split; [|split; [|split]].
  - intro x. destruct (N.eq_dec x k) as [->|Hne].
    + rewrite !upd_eq. reflexivity.
    + rewrite !upd_neq by exact Hne. apply H1.
  - rewrite H2. reflexivity.
  - intros x Hx. destruct (N.eq_dec x k) as [->|Hne].
    + rewrite !upd_eq. split; [reflexivity | discriminate].
    + rewrite !upd_neq by exact Hne. destruct Hx as [E|Hin]; [congruence|]. apply H3. exact Hin.
  - intros x Hx. apply H4. intro Hin. apply Hx. right. exact Hin.
Qed.

Lemma sr_add_coherent : forall s k v, sr_coherent s -> sr_coherent (sr_add s k v).
Proof.
  intros s k v Hc. pose proof (sr_load_coherent s k Hc) as Hc'. unfold sr_add.
  destruct (sr_load s k) as [s1 o]. cbn in *. intros x w Hx Hd. cbn in *.
  destruct (N.eq_dec x k) as [->|Hne]; [exfalso; apply Hd; left; reflexivity|].
  rewrite upd_neq in Hx by exact Hne. apply Hc'; [exact Hx|]. intro Hin. apply Hd. right. exact Hin.
Qed.

Lemma flush_notin : forall (c : gmap Z) l t x, ~ In x l ->
  fold_left (fun t k => upd t k (c k)) l t x = t x.
Proof.
  intros c l. induction l as [|k r IH]; intros t x Hn; cbn; [reflexivity|].
  rewrite IH by (intro H; apply Hn; right; exact H).
  apply upd_neq. intro E. apply Hn. left. symmetry. exact E.
Qed.

Lemma flush_in : forall (c : gmap Z) l t x, In x l ->
  fold_left (fun t k => upd t k (c k)) l t x = c x.
Proof.
  intros c l. induction l as [|k r IH]; intros t x Hin; cbn; [destruct Hin|].
  destruct (in_dec N.eq_dec x r) as [Hr|Hr]; [apply IH; exact Hr|].
  destruct Hin as [->|Hin]; [|contradiction].
  rewrite flush_notin by exact Hr. apply upd_eq.
Qed.

Lemma sr_flush_trie : forall s s', sr_sim s s' -> forall x, sr_trie (sr_flush s) x = sr_trie (sr_flush s') x.
Proof.
  intros s s' (H1 & H2 & H3 & H4) x. unfold sr_flush; cbn. rewrite <- H2.
  destruct (in_dec N.eq_dec x (sr_dirty s)) as [Hin|Hnin].
  - rewrite !flush_in by exact Hin. apply H3. exact Hin.
  - rewrite !flush_notin by exact Hnin. apply H4. exact Hnin.
Qed.

Lemma sr_flush_sim : forall s s', sr_sim s s' -> sr_sim (sr_flush s) (sr_flush s').
Proof.
  intros s s' Hsim. pose proof (sr_flush_trie s s' Hsim) as Ht. destruct Hsim as (H1 & H2 & H3 & H4).
  unfold sr_sim. split; [|split; [|split]].
  - intro x. specialize (H1 x). specialize (Ht x). unfold sr_read in *. unfold sr_flush in *; cbn in *.
    destruct (sr_cache s x) eqn:Ec; destruct (sr_cache s' x) eqn:Ec'.
    + exact H1.
    + (* cached only in s *)
      destruct (in_dec N.eq_dec x (sr_dirty s)) as [Hin|Hnin].
      * destruct (H3 x Hin) as [Ha _]. congruence.
      * rewrite <- H2. rewrite flush_notin by exact Hnin. exact H1.
    + destruct (in_dec N.eq_dec x (sr_dirty s)) as [Hin|Hnin].
      * destruct (H3 x Hin) as [Ha _]. congruence.
      * rewrite flush_notin by exact Hnin. exact H1.
    + exact Ht.
  - reflexivity.
  - intros x Hx. destruct Hx.
  - intros x _. apply Ht.
Qed.

Lemma sr_flush_coherent : forall s, sr_coherent s -> sr_coherent (sr_flush s).
Proof.
  intros s Hc x v Hx _. unfold sr_flush in *; cbn in *.
  destruct (in_dec N.eq_dec x (sr_dirty s)) as [Hin|Hnin].
  - rewrite flush_in by exact Hin. exact Hx.
  - rewrite flush_notin by exact Hnin. apply Hc; assumption.
Qed.

Lemma sr_reset_sim : forall s s', sr_sim (sr_reset s) (sr_reset s').
Proof. intros. unfold sr_sim, sr_reset, sr_read; cbn. repeat split; tauto. Qed.

(* ---- checkAndUpdateTotalPendingStakesOfValidator --------------------------- *)

Lemma sr_check_sim : forall u m s s' k tok d, sr_sim s s' ->
  sr_sim (fst (sr_check u m s k tok d)) (fst (sr_check u m s' k tok d)) /\
  snd (sr_check u m s k tok d) = snd (sr_check u m s' k tok d).
Proof.
  intros u m s s' k tok d H. destruct (sr_get_sim s s' k H) as [Ha Hb]. unfold sr_check.
  destruct (sr_get s k) as [s1 t0]. destruct (sr_get s' k) as [s1' t0']. cbn in Ha, Hb. subst t0'.
  destruct ((0 <? d) && (0 <? m) && (m <? _ / u)); cbn; split; auto. apply sr_add_sim. exact Ha.
Qed.

Lemma sr_check_coherent : forall u m s k tok d, sr_coherent s -> sr_coherent (fst (sr_check u m s k tok d)).
Proof.
  intros u m s k tok d Hc. unfold sr_check, sr_get.
  pose proof (sr_load_coherent s k Hc) as Hc'. destruct (sr_load s k) as [s1 o]. cbn in Hc'.
  destruct ((0 <? d) && (0 <? m) && (m <? _ / u)); cbn; [exact Hc' | apply sr_add_coherent; exact Hc'].
Qed.

(* ---- whole operation sequences ------------------------------------------------ *)

Lemma sr_step_sim : forall u m a a' o, sr_sim (fst a) (fst a') -> snd a = snd a' ->
  sr_sim (fst (sr_step (sr_check u m) a o)) (fst (sr_step (sr_check u m) a' o)) /\
  snd (sr_step (sr_check u m) a o) = snd (sr_step (sr_check u m) a' o).
Proof.
  intros u m [s out] [s' out'] o Hs Ho. cbn in Hs, Ho. subst out'. destruct o; cbn.
  - destruct (sr_get_sim s s' k Hs) as [Ha Hb]. destruct (sr_get s k); destruct (sr_get s' k); cbn in *. subst. auto.
  - destruct (sr_check_sim u m s s' k val_token delta Hs) as [Ha Hb].
    destruct (sr_check u m s k val_token delta); destruct (sr_check u m s' k val_token delta); cbn in *. subst. auto.
  - split; [apply sr_add_sim; exact Hs | reflexivity].
  - split; [apply sr_flush_sim; exact Hs | reflexivity].
  - split; [apply sr_reset_sim | reflexivity].
Qed.

Lemma sr_run_sim : forall u m ops a a', sr_sim (fst a) (fst a') -> snd a = snd a' ->
  sr_sim (fst (fold_left (sr_step (sr_check u m)) ops a)) (fst (fold_left (sr_step (sr_check u m)) ops a')) /\
  snd (fold_left (sr_step (sr_check u m)) ops a) = snd (fold_left (sr_step (sr_check u m)) ops a').
Proof.
  intros u m ops. induction ops as [|o r IH]; intros a a' Hs Ho; cbn; [auto|].
  destruct (sr_step_sim u m a a' o Hs Ho) as [Ha Hb]. apply IH; assumption.
Qed.

(* a carried StateDB whose cache is coherent computes, for every sequence of
   staking-record operations, the outputs a fresh StateDB on the same trie
   computes, and leaves the same trie behind *)
Lemma object_cache_free :
  forall u m s ops, sr_coherent s -> sr_dirty s = [] ->
    snd (sr_run (sr_check u m) s ops) = snd (sr_run (sr_check u m) (sr_fresh (sr_trie s)) ops) /\
    geq (sr_trie (sr_flush (fst (sr_run (sr_check u m) s ops))))
        (sr_trie (sr_flush (fst (sr_run (sr_check u m) (sr_fresh (sr_trie s)) ops)))).
Proof.
  intros u m s ops Hc Hd. unfold sr_run.
  destruct (sr_run_sim u m ops (s, []) (sr_fresh (sr_trie s), [])) as [Ha Hb]; cbn.
  - apply sim_of_coherent; assumption.
  - reflexivity.
  - split; [exact Hb|]. intro k. apply sr_flush_trie. exact Ha.
Qed.

(* every operation keeps the cache coherent: the hypothesis of object_cache_free
   is re-established for the next block *)
Lemma sr_step_coherent : forall u m a o, sr_coherent (fst a) -> sr_coherent (fst (sr_step (sr_check u m) a o)).
Proof.
  intros u m [s out] o Hc. cbn in Hc. destruct o; cbn.
  - unfold sr_get. pose proof (sr_load_coherent s k Hc). destruct (sr_load s k); cbn in *. assumption.
  - pose proof (sr_check_coherent u m s k val_token delta Hc). destruct (sr_check u m s k val_token delta); cbn in *. assumption.
  - apply sr_add_coherent. exact Hc.
  - apply sr_flush_coherent. exact Hc.
  - intros x v Hx. cbn in Hx. discriminate.
Qed.

Lemma fold_coherent : forall u m ops a, sr_coherent (fst a) ->
  sr_coherent (fst (fold_left (sr_step (sr_check u m)) ops a)).
Proof.
  intros u m ops. induction ops as [|o r IH]; intros a Hc; cbn [fold_left]; [exact Hc|].
  apply IH. apply sr_step_coherent. exact Hc.
Qed.

Lemma coherence_preserved : forall u m ops s, sr_coherent s -> sr_coherent (fst (sr_run (sr_check u m) s ops)).
Proof. intros u m ops s Hc. unfold sr_run. apply fold_coherent. exact Hc. Qed.

Lemma fresh_coherent : forall t, sr_coherent (sr_fresh t).
Proof. intros t k v H. cbn in H. discriminate. Qed.

(* ---- the seeded variant: the live value is handed out --------------------------- *)

Module AliasWitness.
  Definition yu : Z := 1000000000000000000.
  Definition trie0 : gmap Z := fun k => if (k =? 7)%N then Some (23 * yu) else None.
  (* block 1: a delegation of 200 units above the maximum of 100: fails *)
  Definition block1 := [OpCheck 7 (20 * yu) (200 * yu); OpFlush].
  (* block 2: a delegation of 4 units *)
  Definition block2 := [OpCheck 7 (20 * yu) (4 * yu); OpFlush].

  (* with the code as it is: carried and fresh agree (and the delegation succeeds) *)
  Lemma sound_variant_agrees :
    let carried := fst (sr_run (sr_check yu 100) (sr_fresh trie0) block1) in
    snd (sr_run (sr_check yu 100) carried block2) = [1] /\
    snd (sr_run (sr_check yu 100) (sr_fresh (sr_trie carried)) block2) = [1].
  Proof. split; vm_compute; reflexivity. Qed.

  (* with the live value handed out: the failed transaction of block 1 leaves an
     inflated, non-dirty live object; the carried StateDB refuses the delegation of
     block 2 that a fresh StateDB accepts, and its cache is incoherent *)
  Lemma alias_variant_depends_on_cache :
    let carried := fst (sr_run (sr_check_alias yu 100) (sr_fresh trie0) block1) in
    snd (sr_run (sr_check_alias yu 100) carried block2) = [0] /\
    snd (sr_run (sr_check_alias yu 100) (sr_fresh (sr_trie carried)) block2) = [1] /\
    sr_cache carried 7%N = Some (223 * yu) /\ sr_trie carried 7%N = Some (23 * yu) /\ sr_dirty carried = [].
  Proof. repeat split; vm_compute; reflexivity. Qed.
End AliasWitness.
