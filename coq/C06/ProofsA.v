(* C06 - proofs, part A: order-independence of every inventoried map iteration. *)
From Coq Require Import List ZArith NArith Bool Permutation Lia Morphisms RelationClasses.
Require Import ZifyBool ZifyN ZifyNat.
From VF.C06 Require Import Model.
Import ListNotations.
Local Open Scope Z_scope.

(* ---- generic folds ---------------------------------------------------- *)

Lemma fold_left_perm_comm {A B} (f : A -> B -> A) :
  (forall a x y, f (f a x) y = f (f a y) x) ->
  forall l l', Permutation l l' -> forall a, fold_left f l a = fold_left f l' a.
Proof.
  intros Hc l l' Hp. induction Hp; intros a; cbn.
  - reflexivity.
  - apply IHHp.
  - rewrite Hc. reflexivity.
  - rewrite IHHp1. apply IHHp2.
Qed.

Lemma fold_right_perm_comm {A B} (f : B -> A -> A) :
  (forall a x y, f x (f y a) = f y (f x a)) ->
  forall l l', Permutation l l' -> forall a, fold_right f a l = fold_right f a l'.
Proof.
  intros Hc l l' Hp. induction Hp; intros a; cbn.
  - reflexivity.
  - rewrite IHHp. reflexivity.
  - apply Hc.
  - rewrite IHHp1. apply IHHp2.
Qed.

(* keyed updates: steps on distinct keys commute up to an equivalence R *)
Section Keyed.
  Context {A B K : Type} (R : A -> A -> Prop) (key : B -> K) (f : A -> B -> A).
  Hypothesis Req : Equivalence R.
  Hypothesis f_proper : forall a a' x, R a a' -> R (f a x) (f a' x).
  Hypothesis f_comm : forall a x y, key x <> key y -> R (f (f a x) y) (f (f a y) x).

  Lemma fold_left_proper : forall l a a', R a a' -> R (fold_left f l a) (fold_left f l a').
  Proof. induction l; intros a0 a0' H; cbn; auto. Qed.

  Lemma fold_left_perm_keyed :
    forall l l', Permutation l l' -> NoDup (map key l) ->
    forall a a', R a a' -> R (fold_left f l a) (fold_left f l' a').
  Proof.
    intros l l' Hp. induction Hp; intros Hnd a a' Ha; cbn.
    - exact Ha.
    - cbn in Hnd. inversion Hnd; subst. apply IHHp; auto.
    - cbn in Hnd. inversion Hnd as [|? ? Hy Hnd']; subst. inversion Hnd' as [|? ? Hx Hnd'']; subst.
      apply fold_left_proper.
      assert (key y <> key x) as Hne by (intro E; apply Hy; left; symmetry; exact E).
      etransitivity. { apply f_comm. exact Hne. }
      apply f_proper. apply f_proper. exact Ha.
    - assert (NoDup (map key l')) as Hnd'.
      { eapply Permutation_NoDup. 2: exact Hnd. apply Permutation_map. exact Hp1. }
      etransitivity. { apply IHHp1; [exact Hnd | exact Ha]. }
      apply IHHp2; [exact Hnd' | reflexivity].
  Qed.
End Keyed.

(* ---- Go maps ------------------------------------------------------------ *)

Global Instance geq_equiv {V} : Equivalence (@geq V).
Proof.
  split.
  - intros m k. reflexivity.
  - intros m m' H k. symmetry. apply H.
  - intros a b c H1 H2 k. rewrite H1. apply H2.
Qed.

Lemma upd_proper {V} (m m' : gmap V) k v : geq m m' -> geq (upd m k v) (upd m' k v).
Proof. intros H x. unfold upd. destruct (N.eqb x k); auto. Qed.

Lemma upd_comm {V} (m : gmap V) k k' v v' : k <> k' -> geq (upd (upd m k v) k' v') (upd (upd m k' v') k v).
Proof.
  intros Hne x. unfold upd.
  destruct (N.eqb x k') eqn:E1; destruct (N.eqb x k) eqn:E2; try reflexivity.
  apply N.eqb_eq in E1. apply N.eqb_eq in E2. congruence.
Qed.

Lemma upd_same {V} (m : gmap V) k v : geq (upd (upd m k v) k v) (upd m k v).
Proof. intros x. unfold upd. destruct (N.eqb x k); reflexivity. Qed.

(* ---- site: stateObject.finalise (range so.dirtyStorage) ---------------------- *)

Lemma site_finalise_storage_perm :
  forall pending dirty dirty', NoDup (keys dirty) -> Permutation dirty dirty' ->
    geq (site_finalise_storage pending dirty) (site_finalise_storage pending dirty').
Proof.
  intros p d d' Hnd Hp. unfold site_finalise_storage.
  apply (fold_left_perm_keyed geq fst); auto.
  - apply geq_equiv.
  - intros. apply upd_proper. assumption.
  - intros a x y Hne. apply upd_comm. exact Hne.
  - reflexivity.
Qed.

(* ---- site: stateObject.updateTrie (range so.pendingStorage) ------------------ *)

Definition geq2 {V W} (a b : gmap V * gmap W) : Prop := geq (fst a) (fst b) /\ geq (snd a) (snd b).
Global Instance geq2_equiv {V W} : Equivalence (@geq2 V W).
Proof.
  split.
  - intros a. split; reflexivity.
  - intros a b [H1 H2]. split; symmetry; assumption.
  - intros a b c [H1 H2] [H3 H4]. split; etransitivity; eauto.
Qed.

Lemma storage_step_proper : forall a a' x, geq2 a a' -> geq2 (storage_step a x) (storage_step a' x).
Proof.
  intros [o t] [o' t'] [k v] [Ho Ht]. cbn in Ho, Ht. unfold storage_step.
  rewrite <- (Ho k). destruct (o k) as [ov|].
  - destruct (N.eqb ov v).
    + split; assumption.
    + split; cbn.
      * apply upd_proper; assumption.
      * destruct (N.eqb v 0); apply upd_proper; assumption.
  - split; cbn.
    + apply upd_proper; assumption.
    + destruct (N.eqb v 0); apply upd_proper; assumption.
Qed.

Lemma storage_step_comm : forall a x y, fst x <> fst y ->
  geq2 (storage_step (storage_step a x) y) (storage_step (storage_step a y) x).
Proof.
  intros [o t] [k v] [k' v'] Hne. cbn in Hne.
  assert (H1 : forall w, upd o k w k' = o k').
  { intro w. unfold upd. destruct (N.eqb k' k) eqn:E; auto. apply N.eqb_eq in E. congruence. }
  assert (H2 : forall w, upd o k' w k = o k).
  { intro w. unfold upd. destruct (N.eqb k k') eqn:E; auto. apply N.eqb_eq in E. congruence. }
  unfold storage_step.
  destruct (match o k with Some o0 => N.eqb o0 v | None => false end) eqn:Ek;
  destruct (match o k' with Some o0 => N.eqb o0 v' | None => false end) eqn:Ek';
  rewrite ?H1, ?H2, ?Ek, ?Ek'; try reflexivity.
  split; cbn.
  - apply upd_comm. congruence.
  - destruct (N.eqb v 0); destruct (N.eqb v' 0); apply upd_comm; congruence.
Qed.

Lemma site_update_trie_perm :
  forall st pending pending', NoDup (keys pending) -> Permutation pending pending' ->
    geq2 (site_update_trie st pending) (site_update_trie st pending').
Proof.
  intros st p p' Hnd Hp. unfold site_update_trie.
  apply (fold_left_perm_keyed geq2 fst); auto.
  - apply geq2_equiv.
  - apply storage_step_proper.
  - apply storage_step_comm.
  - reflexivity.
Qed.

(* ---- site: StateDB.Finalise (range journal.dirties) ------------------------- *)

Definition fin_eq (a b : finst) : Prop :=
  geq (fin_objs a) (fin_objs b) /\ geq (fin_pending a) (fin_pending b) /\ geq (fin_dirty a) (fin_dirty b).
Global Instance fin_eq_equiv : Equivalence fin_eq.
Proof.
  split.
  - intros a. repeat split; reflexivity.
  - intros a b (H1 & H2 & H3). repeat split; symmetry; assumption.
  - intros a b c (H1 & H2 & H3) (H4 & H5 & H6). repeat split; etransitivity; eauto.
Qed.

Lemma site_finalise_objects_perm :
  forall dead live s l l', NoDup l -> Permutation l l' ->
    fin_eq (site_finalise_objects dead live s l) (site_finalise_objects dead live s l').
Proof.
  intros dead live s l l' Hnd Hp. unfold site_finalise_objects.
  apply (fold_left_perm_keyed fin_eq (fun a : N => a)); auto.
  - apply fin_eq_equiv.
  - intros a a' x (H1 & H2 & H3). unfold finalise_step. destruct (live x).
    + repeat split; cbn; apply upd_proper; assumption.
    + repeat split; assumption.
  - intros a x y Hne. unfold finalise_step.
    destruct (live x); destruct (live y); cbn; try reflexivity.
    repeat split; cbn; apply upd_comm; assumption.
  - rewrite map_id. exact Hnd.
  - reflexivity.
Qed.

(* ---- site: StateDB.Finalise (range validatorJournal.dirties) ------------------ *)

Lemma site_finalise_validators_perm :
  forall live dirty l l', NoDup l -> Permutation l l' ->
    geq (site_finalise_validators live dirty l) (site_finalise_validators live dirty l').
Proof.
  intros live d l l' Hnd Hp. unfold site_finalise_validators.
  apply (fold_left_perm_keyed geq (fun a : N => a)); auto.
  - apply geq_equiv.
  - intros a a' x H. destruct (live x); [apply upd_proper|]; assumption.
  - intros a x y Hne. destruct (live x); destruct (live y); try reflexivity. apply upd_comm; assumption.
  - rewrite map_id. exact Hnd.
  - reflexivity.
Qed.

(* ---- site: IntermediateRoot (range stateObjectsPending) ------------------------ *)

Lemma site_account_trie_perm :
  forall deleted enc trie l l', NoDup l -> Permutation l l' ->
    geq (site_account_trie deleted enc trie l) (site_account_trie deleted enc trie l').
Proof.
  intros del enc t l l' Hnd Hp. unfold site_account_trie.
  apply (fold_left_perm_keyed geq (fun a : N => a)); auto.
  - apply geq_equiv.
  - intros a a' x H. destruct (del x); apply upd_proper; assumption.
  - intros a x y Hne. destruct (del x); destruct (del y); apply upd_comm; assumption.
  - rewrite map_id. exact Hnd.
  - reflexivity.
Qed.

(* ---- site: IntermediateRoot (range validatorObjectsDirty) ---------------------- *)

Definition valst_eq (a b : valst) : Prop :=
  geq (vs_trie a) (vs_trie b) /\ geq (vs_index a) (vs_index b) /\ vs_stat a = vs_stat b.
Global Instance valst_eq_equiv : Equivalence valst_eq.
Proof.
  split.
  - intros a. repeat split; reflexivity.
  - intros a b (H1 & H2 & H3). repeat split; symmetry; assumption.
  - intros a b c (H1 & H2 & H3) (H4 & H5 & H6). repeat split; etransitivity; eauto.
Qed.

Lemma site_validator_trie_perm :
  forall present invalid enc stake s l l', NoDup l -> Permutation l l' ->
    valst_eq (site_validator_trie present invalid enc stake s l) (site_validator_trie present invalid enc stake s l').
Proof.
  intros pr inv enc stake s l l' Hnd Hp. unfold site_validator_trie.
  apply (fold_left_perm_keyed valst_eq (fun a : N => a)); auto.
  - apply valst_eq_equiv.
  - intros a a' x (H1 & H2 & H3). unfold val_trie_step.
    destruct (pr x); [destruct (inv x)|]; repeat split; cbn; try (apply upd_proper; assumption); try assumption; lia.
  - intros a x y Hne. unfold val_trie_step.
    destruct (pr x); destruct (pr y); try reflexivity;
    destruct (inv x); destruct (inv y); cbn; repeat split; cbn; try reflexivity; try (apply upd_comm; assumption); lia.
  - rewrite map_id. exact Hnd.
  - reflexivity.
Qed.

(* ---- site: Commit (range stateObjectsDirty) ------------------------------------ *)

Lemma site_commit_blobs_perm :
  forall deleted blobkey blob db l l',
    (forall a b, blobkey a = blobkey b -> blob a = blob b) ->   (* content addressing *)
    NoDup l -> Permutation l l' ->
    geq (site_commit_blobs deleted blobkey blob db l) (site_commit_blobs deleted blobkey blob db l').
Proof.
  intros del bk bl db l l' Hca Hnd Hp. unfold site_commit_blobs.
  apply (fold_left_perm_keyed geq (fun a : N => a)); auto.
  - apply geq_equiv.
  - intros a a' x H. destruct (del x); [|apply upd_proper]; assumption.
  - intros a x y Hne. destruct (del x); destruct (del y); try reflexivity.
    destruct (N.eq_dec (bk x) (bk y)) as [E|E].
    + rewrite E. rewrite (Hca _ _ E). reflexivity.
    + apply upd_comm. assumption.
  - rewrite map_id. exact Hnd.
  - reflexivity.
Qed.

(* ---- site: updateStakingTrie (range stakingRecordsDirty) ------------------------ *)

Lemma site_staking_trie_perm :
  forall enc trie l l', NoDup l -> Permutation l l' ->
    geq (site_staking_trie enc trie l) (site_staking_trie enc trie l').
Proof.
  intros enc t l l' Hnd Hp. unfold site_staking_trie.
  apply (fold_left_perm_keyed geq (fun a : N => a)); auto.
  - apply geq_equiv.
  - intros a a' x H. apply upd_proper; assumption.
  - intros a x y Hne. apply upd_comm; assumption.
  - rewrite map_id. exact Hnd.
  - reflexivity.
Qed.

(* ---- sites: sync.Map Range + sort ------------------------------------------------ *)

Lemma insert_comm : forall l x y, insert x (insert y l) = insert y (insert x l).
Proof.
  induction l as [|z r IH]; intros x y; cbn.
  - destruct (N.leb x y) eqn:E1; destruct (N.leb y x) eqn:E2; try reflexivity; try lia.
    assert (x = y) by lia. subst. reflexivity.
  - destruct (N.leb y z) eqn:Eyz; destruct (N.leb x z) eqn:Exz; cbn;
      rewrite ?Eyz, ?Exz;
      destruct (N.leb x y) eqn:Exy; destruct (N.leb y x) eqn:Eyx; cbn; rewrite ?Eyz, ?Exz;
      try reflexivity; try lia; try (rewrite IH; reflexivity).
    all: assert (x = y) by lia; subst; reflexivity.
Qed.

Lemma site_range_then_sort_perm :
  forall l l', Permutation l l' -> site_range_then_sort l = site_range_then_sort l'.
Proof.
  intros l l' Hp. unfold site_range_then_sort.
  apply fold_right_perm_comm; auto. intros a x y. apply insert_comm.
Qed.

Lemma site_index_copy_perm :
  forall l l', NoDup l -> Permutation l l' -> geq (site_index_copy l) (site_index_copy l').
Proof.
  intros l l' Hnd Hp. unfold site_index_copy.
  apply (fold_left_perm_keyed geq (fun a : N => a)); auto.
  - apply geq_equiv.
  - intros a a' x H. apply upd_proper; assumption.
  - intros a x y Hne. apply upd_comm; assumption.
  - rewrite map_id. exact Hnd.
  - reflexivity.
Qed.

Lemma site_index_nonempty_perm :
  forall l l', Permutation l l' -> site_index_nonempty l = site_index_nonempty l'.
Proof.
  intros l l' Hp. destruct l; destruct l'; try reflexivity.
  - apply Permutation_nil in Hp. discriminate.
  - apply Permutation_sym in Hp. apply Permutation_nil in Hp. discriminate.
Qed.
