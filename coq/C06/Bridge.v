(* C06 - bridge between the regenerated inventory of map iterations
   (coq/gen/C06MapRanges.v, written by `c06 ranges` from the working tree) and
   the order-independence lemmas.

   Every inventoried site is either
   - on the block-execution path: it is paired with the Gallina model of its
     loop body and the proved statement that the result does not depend on the
     order of the iterated entries; or
   - off the path: listed with the reason (copying, dumping, printing, dead or
     deprecated code, evidence production outside block execution).
   [inventory_covered] says the two lists together are exactly the generated
   inventory: a NEW `range` over a map (or sync.Map.Range) in
   core/state_processor.go, staking/*.go or core/state/*.go makes it fail. *)
From Coq Require Import String List ZArith NArith Bool Permutation.
From VF.C06 Require Import Model ProofsA ProofsB.
From VF.gen Require Import C06MapRanges.
Import ListNotations.
Local Open Scope string_scope.

Record site_lemma := mkSite { sl_key : string; sl_stmt : Prop; sl_proof : sl_stmt }.

Definition on_path : list site_lemma := [
  mkSite "range|staking/endblock.go|rewardsToPool|roleRewards#1"
    (forall per l l', Permutation l l' -> Permutation (rr_loop1 per l) (rr_loop1 per l'))
    rr_loop1_perm;
  mkSite "range|staking/endblock.go|rewardsToPool|roleRewards#2"
    (forall l l' a, Permutation l l' -> fold_left rr_step_v5 l a = fold_left rr_step_v5 l' a)
    rr_loop2_perm;
  mkSite "range|staking/endblock.go|rewardsToPool|roleRewards#3"
    (forall pr l l' a, Permutation l l' -> fold_left (rr_step_old pr) l a = fold_left (rr_step_old pr) l' a)
    rr_loop3_perm;
  mkSite "range|staking/endblock.go|Staking.distributeRewards|rewardsRecord#1"
    (forall pools l l', NoDup (map fst l) -> Permutation l l' -> rec_loop pools l = rec_loop pools l')
    rec_loop_perm;
  mkSite "range|core/state/state_object.go|stateObject.finalise|so.dirtyStorage#1"
    (forall pending dirty dirty', NoDup (keys dirty) -> Permutation dirty dirty' ->
       geq (site_finalise_storage pending dirty) (site_finalise_storage pending dirty'))
    site_finalise_storage_perm;
  mkSite "range|core/state/state_object.go|stateObject.updateTrie|so.pendingStorage#1"
    (forall st pending pending', NoDup (keys pending) -> Permutation pending pending' ->
       geq2 (site_update_trie st pending) (site_update_trie st pending'))
    site_update_trie_perm;
  mkSite "range|core/state/statedb.go|StateDB.Finalise|st.journal.dirties#1"
    (forall dead live s l l', NoDup l -> Permutation l l' ->
       fin_eq (site_finalise_objects dead live s l) (site_finalise_objects dead live s l'))
    site_finalise_objects_perm;
  mkSite "range|core/state/statedb.go|StateDB.Finalise|st.validatorJournal.dirties#1"
    (forall live dirty l l', NoDup l -> Permutation l l' ->
       geq (site_finalise_validators live dirty l) (site_finalise_validators live dirty l'))
    site_finalise_validators_perm;
  mkSite "range|core/state/statedb.go|StateDB.IntermediateRoot|st.stateObjectsPending#1"
    (forall deleted enc trie l l', NoDup l -> Permutation l l' ->
       geq (site_account_trie deleted enc trie l) (site_account_trie deleted enc trie l'))
    site_account_trie_perm;
  mkSite "range|core/state/statedb.go|StateDB.IntermediateRoot|st.validatorObjectsDirty#1"
    (forall present invalid enc stake s l l', NoDup l -> Permutation l l' ->
       valst_eq (site_validator_trie present invalid enc stake s l) (site_validator_trie present invalid enc stake s l'))
    site_validator_trie_perm;
  mkSite "range|core/state/statedb.go|StateDB.Commit|st.stateObjectsDirty#1"
    (forall deleted blobkey blob db l l',
       (forall a b, blobkey a = blobkey b -> blob a = blob b) -> NoDup l -> Permutation l l' ->
       geq (site_commit_blobs deleted blobkey blob db l) (site_commit_blobs deleted blobkey blob db l'))
    site_commit_blobs_perm;
  mkSite "range|core/state/statedb_staking.go|StateDB.updateStakingTrie|st.stakingRecordsDirty#1"
    (forall enc trie l l', NoDup l -> Permutation l l' ->
       geq (site_staking_trie enc trie l) (site_staking_trie enc trie l'))
    site_staking_trie_perm;
  mkSite "syncmap|core/state/statedb_val.go|StateDB.GetValidators|st.validatorObjects#1"
    (forall l l', Permutation l l' -> site_range_then_sort l = site_range_then_sort l')
    site_range_then_sort_perm;
  mkSite "syncmap|core/state/validator.go|ValidatorIndex.List|index.data#1"
    (forall l l', Permutation l l' -> site_range_then_sort l = site_range_then_sort l')
    site_range_then_sort_perm;
  mkSite "syncmap|core/state/validator.go|ValidatorIndex.EncodeRLP|index.data#1"
    (forall l l', Permutation l l' -> site_range_then_sort l = site_range_then_sort l')
    site_range_then_sort_perm;
  mkSite "syncmap|core/state/validator.go|ValidatorIndex.DeepCopy|index.data#1"
    (forall l l', NoDup l -> Permutation l l' -> geq (site_index_copy l) (site_index_copy l'))
    site_index_copy_perm;
  mkSite "syncmap|core/state/validator.go|ValidatorIndex.Empty|index.data#1"
    (forall l l', Permutation l l' -> site_index_nonempty l = site_index_nonempty l')
    site_index_nonempty_perm
].

(* sites that no block result depends on, with the reason *)
Definition off_path : list (string * string) := [
  ("range|staking/evidence.go|EvidenceDoubleSign.EncodeRLP|e.Signs#1",
   "deprecated evidence type: processEvidences ignores every type but doublesignv5 (the collected entries are sorted after the loop)");
  ("range|staking/slash.go|Staking.processDoubleSign|doubleSign.Signs#1",
   "dead code: the call in processEvidences is commented out; order-dependent");
  ("range|staking/votes.go|votesWatcher.Inactive|votes#1",
   "evidence production (event loop) and the inactive branch of replaySlashing whose result is discarded");
  ("range|staking/votes.go|votesWatcher.Inactive|votePairs#1",
   "evidence production (event loop) and the inactive branch of replaySlashing whose result is discarded");
  ("range|core/state/dump.go|StateDB.LogDump|alllogs#1", "debug dump");
  ("range|core/state/staking_record.go|pendingRelationship.DeepCopy|p.delegatorPendingCount#1", "StateDB.Copy: map to map copy");
  ("range|core/state/staking_record.go|pendingRelationship.DeepCopy|p.validatorPendingCount#1", "StateDB.Copy: map to map copy");
  ("range|core/state/state_object.go|Storage.String|s#1", "printing");
  ("range|core/state/state_object.go|Storage.Copy|s#1", "deepCopy: map to map copy");
  ("range|core/state/statedb.go|StateDB.Logs|st.logs#1", "no caller in the repository; order-dependent");
  ("range|core/state/statedb.go|StateDB.Copy|st.journal.dirties#1", "StateDB.Copy: map to map copy (pending-state snapshot)");
  ("range|core/state/statedb.go|StateDB.Copy|st.stateObjectsPending#1", "StateDB.Copy: map to map copy (pending-state snapshot)");
  ("range|core/state/statedb.go|StateDB.Copy|st.stateObjectsDirty#1", "StateDB.Copy: map to map copy (pending-state snapshot)");
  ("range|core/state/statedb.go|StateDB.Copy|st.logs#1", "StateDB.Copy: map to map copy (pending-state snapshot)");
  ("range|core/state/statedb.go|StateDB.Copy|st.preimages#1", "StateDB.Copy: map to map copy (pending-state snapshot)");
  ("range|core/state/statedb.go|StateDB.Copy|st.validatorJournal.dirties#1", "StateDB.Copy: map to map copy (pending-state snapshot)");
  ("range|core/state/statedb.go|StateDB.Copy|st.validatorObjectsDirty#1", "StateDB.Copy: map to map copy (pending-state snapshot)");
  ("range|core/state/statedb.go|StateDB.Copy|st.stakingRecords#1", "StateDB.Copy: map to map copy (pending-state snapshot)");
  ("range|core/state/statedb.go|StateDB.Copy|st.stakingRecordsDirty#1", "StateDB.Copy: map to map copy (pending-state snapshot)")
].

Definition classified : list string := map sl_key on_path ++ map fst off_path.

Definition mem (s : string) (l : list string) : bool := existsb (String.eqb s) l.
Fixpoint nodupb (l : list string) : bool :=
  match l with [] => true | x :: r => negb (mem x r) && nodupb r end.
Definition same_set (a b : list string) : bool :=
  forallb (fun x => mem x b) a && forallb (fun x => mem x a) b && nodupb a && nodupb b.

Lemma inventory_covered_b : same_set map_ranges classified = true.
Proof. vm_compute. reflexivity. Qed.

Lemma mem_In : forall s l, mem s l = true <-> In s l.
Proof.
  intros s l. unfold mem. rewrite existsb_exists. split.
  - intros (x & Hin & He). apply String.eqb_eq in He. subst. exact Hin.
  - intros Hin. exists s. split; [exact Hin | apply String.eqb_refl].
Qed.

(* every inventoried site is classified, and every classified site exists *)
Lemma inventory_covered : forall s, In s map_ranges <-> In s classified.
Proof.
  pose proof inventory_covered_b as H. unfold same_set in H.
  apply andb_prop in H. destruct H as [H _]. apply andb_prop in H. destruct H as [H _].
  apply andb_prop in H. destruct H as [H1 H2].
  rewrite forallb_forall in H1, H2.
  intro s. split; intro Hin.
  - apply mem_In. apply H1. exact Hin.
  - apply mem_In. apply H2. exact Hin.
Qed.

(* every on-path site of the inventory carries a proved order-independence statement *)
Lemma on_path_sites_proved : forall sl, In sl on_path -> sl_stmt sl.
Proof. intros sl _. exact (sl_proof sl). Qed.
