(* C06 - proofs, part G: the block context.  The result of executing a block is a
   function of the parent state, the block and the block's OWN ancestry (within
   the reach of BLOCKHASH); it does not depend on what the hash cache holds as
   long as the cache agrees with that ancestry - in particular not on which other
   blocks (siblings with the same number) the process executed before. *)
From Coq Require Import List ZArith NArith Bool Lia.
Require Import ZifyBool ZifyN ZifyNat.
From VF.C06 Require Import Model ProofsA ProofsB ProofsC.
Import ListNotations.
Local Open Scope Z_scope.

Lemma get_hash_own : forall anc anc' hm hm' number,
  hash_memo_ok anc hm -> hash_memo_ok anc' hm' ->
  (forall n, (n < number)%N -> (number <= n + 256)%N -> anc n = anc' n) ->
  forall n, get_hash anc hm number n = get_hash anc' hm' number n.
Proof.
  intros anc anc' hm hm' number Hm Hm' Hw n. unfold get_hash.
  destruct ((n <? number)%N && (number <=? n + 256)%N) eqn:E; [|reflexivity].
  assert (Ha : anc n = anc' n) by (apply Hw; lia).
  destruct (hm n) as [v|] eqn:E1; destruct (hm' n) as [v'|] eqn:E2.
  - rewrite <- (Hm n v E1), <- (Hm' n v' E2). exact Ha.
  - rewrite <- (Hm n v E1). exact Ha.
  - rewrite <- (Hm' n v' E2). exact Ha.
  - exact Ha.
Qed.

Section CtxProofs.
  Variable St tx lg : Type.
  Variable exec_c : St -> block_ctx -> tx -> option (St * Z * bool * list lg).
  Variable price : tx -> Z.
  Variable resolve : evid -> option N.
  Variable val_exists : St -> N -> bool.
  Variable penalize : St -> N -> St * Z * lg.
  Variable max_expired : N.
  Variable view : St -> N -> reward_view.
  Variable apply_rewards : St -> N -> rtp_out -> St * list lg.
  Variable v5 : bool.
  Variable threshold coeff : Z.
  Variable ratios : per_role.
  Variable freq : N.
  Variable period_end : St -> N -> list tx -> St * list lg.
  Variable commit : St -> N.
  Variable receipt_hash : list (receipt lg) -> N.
  Variable bloom : list (receipt lg) -> N.
  Variable time_of gas_limit_of : header tx -> N.

  (* the EVM only ever applies the GetHash function *)
  Definition exec_reads_hashes_pointwise : Prop :=
    forall st c c' t, c_number c = c_number c' -> c_coinbase c = c_coinbase c' -> c_time c = c_time c' ->
      c_gas_limit c = c_gas_limit c' -> (forall n, c_hash c n = c_hash c' n) -> exec_c st c t = exec_c st c' t.

  Notation process_block_ctx := (process_block_ctx St tx lg exec_c price resolve val_exists penalize max_expired view
                                  apply_rewards v5 threshold coeff ratios freq period_end commit receipt_hash bloom
                                  time_of gas_limit_of).

  (* process_block looks at its execution oracle pointwise *)
  Lemma process_block_exec_ext : forall (e e' : St -> N -> tx -> option (St * Z * bool * list lg)) sc m st h,
    (forall s cb t, e s cb t = e' s cb t) ->
    process_block St tx lg e price resolve val_exists penalize max_expired view apply_rewards
                  v5 threshold coeff ratios freq period_end commit receipt_hash bloom sc m st h =
    process_block St tx lg e' price resolve val_exists penalize max_expired view apply_rewards
                  v5 threshold coeff ratios freq period_end commit receipt_hash bloom sc m st h.
  Proof.
    intros e e' sc m st h Hext. unfold Model.process_block.
    assert (Hf : forall l a, fold_left (process_step St tx lg e price (h_coinbase h)) l a =
                             fold_left (process_step St tx lg e' price (h_coinbase h)) l a).
    { induction l as [|t r IH]; intro a; cbn; [reflexivity|].
      rewrite IH. f_equal. unfold Model.process_step. destruct a as [a|]; [|reflexivity]. rewrite Hext. reflexivity. }
    rewrite Hf. reflexivity.
  Qed.

  Hypothesis exec_ext : exec_reads_hashes_pointwise.

  Lemma execution_depends_only_on_own_ancestry :
    forall sc sc' m m' anc anc' hm hm' st h,
      sched_valid sc -> sched_valid sc' -> memo_valid resolve m -> memo_valid resolve m' ->
      hash_memo_ok anc hm -> hash_memo_ok anc' hm' ->
      (forall n, (n < h_number h)%N -> (h_number h <= n + 256)%N -> anc n = anc' n) ->
      process_block_ctx sc m anc hm st h = process_block_ctx sc' m' anc' hm' st h.
  Proof.
    intros sc sc' m m' anc anc' hm hm' st h Hs Hs' Hm Hm' Hh Hh' Hw. unfold Model.process_block_ctx.
    rewrite (process_block_exec_ext (fun s _ t => exec_c s (ctx_of tx time_of gas_limit_of anc hm h) t)
                                     (fun s _ t => exec_c s (ctx_of tx time_of gas_limit_of anc' hm' h) t)).
    - apply process_block_deterministic; assumption.
    - intros s cb t. apply exec_ext; try reflexivity. cbn. apply get_hash_own; assumption.
  Qed.
End CtxProofs.

(* a cache that was filled for a sibling (same number, other parent chain) is not
   a valid cache for this block, and the result differs *)
Module CtxWitness.
  Definition St := N.
  (* the transaction stores BLOCKHASH(number - 1) *)
  Definition exec_c (s : St) (c : block_ctx) (t : N) : option (St * Z * bool * list unit) :=
    Some (c_hash c (c_number c - t)%N, 21000, false, [tt]).
  Definition price (_ : N) : Z := 1.
  Definition resolve (_ : evid) : option N := None.
  Definition val_exists (_ : St) (_ : N) : bool := false.
  Definition penalize (s : St) (_ : N) : St * Z * unit := (s, 0, tt).
  Definition view (_ : St) (_ : N) : reward_view := mkView 100 5 (mkPR 0 0 0) (mkPR 1 0 2) (Some Chancellor).
  Definition apply_rewards (s : St) (_ : N) (_ : rtp_out) : St * list unit := (s, [tt]).
  Definition period_end (s : St) (_ : N) (_ : list N) : St * list unit := (s, []).
  Definition commit (s : St) : N := s.
  Definition rhash (l : list (receipt unit)) : N := N.of_nat (length l).
  Definition zero (_ : header N) : N := 0%N.

  (* two chains that differ at height 6 *)
  Definition anc_a : ancestry := fun n => (1000 + n)%N.
  Definition anc_b : ancestry := fun n => if (n =? 6)%N then 9999%N else (1000 + n)%N.
  (* header of block 7 on chain B, built by a clean builder: root = hash of B6 *)
  Definition hdr : header N := mkHeader 7%N 9%N 21000 21000 45 [] 9999%N 2%N 2%N [1%N].
  Definition run hm :=
    process_block_ctx St N unit exec_c price resolve val_exists penalize 5%N view apply_rewards true 9 5 (mkPR 3 3 4) 4%N
                      period_end commit rhash rhash zero zero id_sched (fun _ => None) anc_b hm 0%N hdr.

  (* the cache the process filled while it executed block 7 of chain A *)
  Definition stale : hash_memo := fun n => if (n =? 6)%N then Some (anc_a 6%N) else None.

  Lemma clean_accepts : exists recs, run (fun _ => None) = Accepted _ _ 9999%N recs.
  Proof. eexists. vm_compute. reflexivity. Qed.
  Lemma stale_cache_rejects : run stale = Rejected _ _.
  Proof. vm_compute. reflexivity. Qed.
  Lemma stale_is_not_own : ~ hash_memo_ok anc_b stale.
  Proof. intro H. specialize (H 6%N (anc_a 6%N) eq_refl). vm_compute in H. discriminate. Qed.
End CtxWitness.
