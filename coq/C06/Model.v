(* C06 - block execution is deterministic; builder and validator agree.
   Executable model, no proofs.

   Part 1  Go maps and the body of every inventoried map iteration on the
           block-execution path, each as a fold over the list of entries in the
           (arbitrary) order the runtime happens to deliver them.
   Part 2  staking/endblock.go: blockRewards, rewardsToPool, the per-role
           record computation and the final loop of distributeRewards.
   Part 3  staking/slash.go + slash_youv5.go: processEvidences /
           processDoubleSignV5 as run by the builder (slashing) and by the
           validator (replaySlashing), with the signer cache.
   Part 4  core/state_processor.go Process + core/block_validator.go
           ValidateState versus miner/worker.go commitNewWork/commit
           (= core/chain_makers.go genblock), transaction execution being an
           oracle that is a function of (state, tx).
   Part 5  correspondence runner.

   Numbers are Z (amounts, big.Int) or N (rounds, ids); uint64 wrap-around is
   outside the model. *)
From Coq Require Export List ZArith NArith Bool Permutation.
Export ListNotations.
Open Scope Z_scope.

(* ===================================================================== *)
(* Part 1: Go maps, iteration sites                                       *)
(* ===================================================================== *)

(* content of a Go map / a trie: no order, only lookups *)
Definition gmap (V : Type) := N -> option V.
Definition gempty {V} : gmap V := fun _ => None.
Definition upd {V} (m : gmap V) (k : N) (v : option V) : gmap V :=
  fun x => if N.eqb x k then v else m x.
Definition geq {V} (m m' : gmap V) : Prop := forall k, m k = m' k.

(* a Go `for k, v := range m` visits the entries of m (distinct keys) in an
   order chosen by the runtime: the loop is a fold over that list *)
Definition keys {V} (l : list (N * V)) : list N := map fst l.

(* --- core/state/state_object.go finalise: range so.dirtyStorage
       pendingStorage[key] = value *)
Definition site_finalise_storage (pending : gmap N) (dirty : list (N * N)) : gmap N :=
  fold_left (fun p kv => upd p (fst kv) (Some (snd kv))) dirty pending.

(* --- core/state/state_object.go updateTrie: range so.pendingStorage
       skip unchanged; originStorage[key]=value; delete or update the trie *)
Definition storage_step (st : gmap N * gmap N) (kv : N * N) : gmap N * gmap N :=
  let '(origin, trie) := st in
  let '(k, v) := kv in
  if (match origin k with Some o => N.eqb o v | None => false end) then st
  else (upd origin k (Some v), if N.eqb v 0 then upd trie k None else upd trie k (Some v)).
Definition site_update_trie (st : gmap N * gmap N) (pending : list (N * N)) :=
  fold_left storage_step pending st.

(* --- core/state/statedb.go Finalise: range journal.dirties
       objects: address -> (exists, suicided-or-empty);  result: per address
       deleted flag / finalised flag, and membership in pending & dirty sets *)
Record objflags := mkFlags { f_deleted : bool; f_finalised : bool }.
Record finst := mkFin { fin_objs : gmap objflags; fin_pending : gmap unit; fin_dirty : gmap unit }.
Definition finalise_step (dead : N -> bool) (live : N -> bool) (s : finst) (a : N) : finst :=
  if live a then
    mkFin (upd (fin_objs s) a (Some (if dead a then mkFlags true false else mkFlags false true)))
          (upd (fin_pending s) a (Some tt)) (upd (fin_dirty s) a (Some tt))
  else s.
Definition site_finalise_objects dead live (s : finst) (dirties : list N) : finst :=
  fold_left (finalise_step dead live) dirties s.

(* --- Finalise: range validatorJournal.dirties: mark dirty if the object exists *)
Definition site_finalise_validators (live : N -> bool) (dirty : gmap unit) (l : list N) : gmap unit :=
  fold_left (fun d a => if live a then upd d a (Some tt) else d) l dirty.

(* --- IntermediateRoot: range stateObjectsPending: delete from / write to the
       account trie; the written value is a function of the address alone
       (the object's own, already finalised, content) *)
Definition site_account_trie (deleted : N -> bool) (enc : N -> N) (trie : gmap N) (pending : list N) : gmap N :=
  fold_left (fun t a => if deleted a then upd t a None else upd t a (Some (enc a))) pending trie.

(* --- IntermediateRoot: range validatorObjectsDirty: deleteValidator (trie
       delete, index delete, statistics decrement) or updateValidator *)
Record valst := mkValst { vs_trie : gmap N; vs_index : gmap unit; vs_stat : Z }.
Definition val_trie_step (present : N -> bool) (invalid : N -> bool) (enc : N -> N) (stake : N -> Z)
           (s : valst) (a : N) : valst :=
  if present a then
    if invalid a then mkValst (upd (vs_trie s) a None) (upd (vs_index s) a None) (vs_stat s - stake a)
    else mkValst (upd (vs_trie s) a (Some (enc a))) (vs_index s) (vs_stat s)
  else s.
Definition site_validator_trie present invalid enc stake (s : valst) (dirty : list N) : valst :=
  fold_left (val_trie_step present invalid enc stake) dirty s.

(* --- Commit: range stateObjectsDirty: write code / delegation blobs (content
       addressed) for objects that are not deleted *)
Definition site_commit_blobs (deleted : N -> bool) (blobkey blob : N -> N) (db : gmap N) (dirty : list N) : gmap N :=
  fold_left (fun d a => if deleted a then d else upd d (blobkey a) (Some (blob a))) dirty db.

(* --- statedb_staking.go updateStakingTrie: range stakingRecordsDirty *)
Definition site_staking_trie (enc : N -> option N) (trie : gmap N) (dirty : list N) : gmap N :=
  fold_left (fun t k => upd t k (enc k)) dirty trie.

(* --- sync.Map Range followed by sort (ValidatorIndex.List / EncodeRLP,
       StateDB.GetValidators -> NewValidators): insertion sort on the rank *)
Fixpoint insert (x : N) (l : list N) : list N :=
  match l with
  | [] => [x]
  | y :: r => if N.leb x y then x :: l else y :: insert x r
  end.
Definition site_range_then_sort (l : list N) : list N := fold_right insert [] l.

(* --- ValidatorIndex.DeepCopy: Range, Add to a fresh index *)
Definition site_index_copy (l : list N) : gmap unit :=
  fold_left (fun m a => upd m a (Some tt)) l gempty.

(* --- ValidatorIndex.Empty: Range, count one element and stop *)
Definition site_index_nonempty (l : list N) : bool :=
  match l with [] => false | _ :: _ => true end.

(* ===================================================================== *)
(* Part 2: rewards (staking/endblock.go)                                  *)
(* ===================================================================== *)

Inductive role := Chancellor | Senator | House.
Definition role_eqb (a b : role) : bool :=
  match a, b with
  | Chancellor, Chancellor | Senator, Senator | House, House => true
  | _, _ => false
  end.
Definition role_id (r : role) : N := match r with Chancellor => 1%N | Senator => 2%N | House => 3%N end.
Definition all_roles := [Chancellor; Senator; House].

(* one value per role (ValidatorsStat.Roles[..].rewardsDistributable, ratios, counts) *)
Record per_role := mkPR { pr_ch : Z; pr_se : Z; pr_ho : Z }.
Definition pget (p : per_role) (r : role) : Z :=
  match r with Chancellor => pr_ch p | Senator => pr_se p | House => pr_ho p end.
Definition pset (p : per_role) (r : role) (x : Z) : per_role :=
  match r with
  | Chancellor => mkPR x (pr_se p) (pr_ho p)
  | Senator => mkPR (pr_ch p) x (pr_ho p)
  | House => mkPR (pr_ch p) (pr_se p) x
  end.
Definition padd (p : per_role) (r : role) (x : Z) : per_role := pset p r (pget p r + x).

Definition two64 : Z := 18446744073709551616.

(* blockRewards: (subsidy, total) *)
Definition block_rewards (threshold coeff pool_balance gas_rewards residue : Z) : Z * Z :=
  let def := gas_rewards + residue in
  let subs0 :=
    if (0 <=? def) && (def <? two64) && (def <? threshold) && (0 <? pool_balance)
    then ((threshold - def) / 10) * coeff else 0 in
  let subs := if (0 <? subs0) && (pool_balance <? subs0) then pool_balance else subs0 in
  let total := (if 0 <? gas_rewards then gas_rewards else 0)
               + (if 0 <? residue then residue else 0)
               + (if 0 <? subs then subs else 0) in
  (subs, total).

(* the iteration orders the runtime picks for the three loops over roleRewards
   and the loop over rewardsRecord: each is a re-ordering of the entries *)
Record sched := mkSched {
  s_rr1 : list (role * Z) -> list (role * Z);
  s_rr2 : list (role * Z) -> list (role * Z);
  s_rr3 : list (role * Z) -> list (role * Z);
  s_rec : list (role * (Z * Z)) -> list (role * (Z * Z))
}.
Definition id_sched : sched := mkSched (fun l => l) (fun l => l) (fun l => l) (fun l => l).
Definition rev_sched : sched := mkSched (@rev _) (@rev _) (@rev _) (@rev _).

(* roleRewards map: the roles that have online validators, with their ratio *)
Definition role_entries (counts ratios : per_role) : list (role * Z) :=
  map (fun r => (r, pget ratios r)) (filter (fun r => 0 <? pget counts r) all_roles).
Definition sum_ratios (l : list (role * Z)) : Z := fold_left (fun a e => a + snd e) l 0.

(* loop 1: info.rewards = perPortion * ratio, entry by entry *)
Definition rr_loop1 (per : Z) (l : list (role * Z)) : list (role * Z) :=
  map (fun e => (fst e, per * snd e)) l.
(* loop 2 (YouV5): house rewards to the pool, every other role to the proposer *)
Definition rr_step_v5 (acc : Z * per_role) (e : role * Z) : Z * per_role :=
  if role_eqb (fst e) House then (fst acc, padd (snd acc) House (snd e))
  else (fst acc + snd e, snd acc).
(* loop 3 (before YouV5): the proposer's own role to the proposer, the others to their pools *)
Definition rr_step_old (prole : role) (acc : Z * per_role) (e : role * Z) : Z * per_role :=
  if role_eqb (fst e) prole then (fst acc + snd e, snd acc)
  else (fst acc, padd (snd acc) (fst e) (snd e)).

Inductive outcome (A : Type) := Done (a : A) | Crash.   (* Crash: panic / logging.Crit *)
Arguments Done {A} _.
Arguments Crash {A}.

Record rtp_out := mkRtp {
  o_subsidy : Z; o_proposer : Z; o_pools : per_role; o_residue : Z; o_logged : bool
}.

(* rewardsToPool.  proposer = None: the coinbase is not a validator (Crit). *)
Definition rewards_to_pool (sc : sched) (v5 : bool) (threshold coeff : Z) (ratios counts : per_role)
           (pool_balance gas_rewards residue : Z) (pools : per_role) (proposer : option role)
  : outcome rtp_out :=
  let '(subs, total) := block_rewards threshold coeff pool_balance gas_rewards residue in
  if total <=? 0 then Done (mkRtp subs 0 pools residue false)
  else
    let entries := role_entries counts ratios in
    let sum := sum_ratios entries in
    if sum =? 0 then Crash   (* QuoRem by zero *)
    else
      let per := Z.quot total sum in
      let res := Z.rem total sum in
      let rew := rr_loop1 per (s_rr1 sc entries) in
      match proposer with
      | None => Crash
      | Some prole =>
        let '(prew, pools') :=
          if v5 then fold_left rr_step_v5 (s_rr2 sc rew) (0, pools)
          else fold_left (rr_step_old prole) (s_rr3 sc rew) (0, pools) in
        Done (mkRtp subs prew pools' res true)
      end.

(* distributeRewards: records (role, (total, count)) -> per/residue; each
   validator's share; the final loop checks and stores the residues *)
Record dval := mkDval { d_role : role; d_online : bool; d_stake : Z }.

Definition dist_records (counts onstake pools : per_role) : list (role * (Z * Z)) :=
  map (fun r => (r, (pget pools r, if role_eqb r House then pget counts r else pget onstake r)))
      (filter (fun r => 0 <? pget counts r) all_roles).

Fixpoint rec_lookup (l : list (role * (Z * Z))) (r : role) : option (Z * Z) :=
  match l with
  | [] => None
  | (k, v) :: t => if role_eqb k r then Some v else rec_lookup t r
  end.
Fixpoint rec_set (l : list (role * (Z * Z))) (r : role) (v : Z * Z) : list (role * (Z * Z)) :=
  match l with
  | [] => []
  | (k, w) :: t => if role_eqb k r then (k, v) :: t else (k, w) :: rec_set t r v
  end.

(* recs: role -> (remaining total, per).  Returns the rewards in validator order. *)
Fixpoint dist_vals (recs : list (role * (Z * Z))) (vals : list dval) : outcome (list Z * list (role * (Z * Z))) :=
  match vals with
  | [] => Done ([], recs)
  | v :: t =>
    if negb (d_online v) then
      match dist_vals recs t with Done (rs, recs') => Done (0 :: rs, recs') | Crash => Crash end
    else match rec_lookup recs (d_role v) with
         | None => Crash    (* nil record dereference *)
         | Some (total, per) =>
           let rew := if role_eqb (d_role v) House then per else per * d_stake v in
           if total - rew <? 0 then Crash
           else match dist_vals (rec_set recs (d_role v) (total - rew, per)) t with
                | Done (rs, recs') => Done (rew :: rs, recs') | Crash => Crash end
         end
  end.

(* the final loop: range rewardsRecord; entries (role, (remaining, expected residue)) *)
Definition rec_bad (e : role * (Z * Z)) : bool := negb (fst (snd e) =? snd (snd e)).
Definition rec_loop (pools : per_role) (l : list (role * (Z * Z))) : outcome per_role :=
  if existsb rec_bad l then Crash
  else Done (fold_left (fun p e => pset p (fst e) (snd (snd e))) l pools).

Definition distribute (sc : sched) (counts onstake pools : per_role) (vals : list dval)
  : outcome (list Z * per_role) :=
  let recs0 := dist_records counts onstake pools in
  if existsb (fun e => snd (snd e) =? 0) recs0 then Crash   (* QuoRem by zero *)
  else
    let pers := map (fun e => (fst e, (fst (snd e), Z.quot (fst (snd e)) (snd (snd e))))) recs0 in
    let residues := map (fun e => (fst e, Z.rem (fst (snd e)) (snd (snd e)))) recs0 in
    match dist_vals pers vals with
    | Crash => Crash
    | Done (rews, recs') =>
      let final := map (fun e => (fst e, (fst (snd e),
                     match rec_lookup (map (fun x => (fst x, (snd x, 0))) residues) (fst e) with
                     | Some (r, _) => r | None => 0 end))) recs' in
      match rec_loop pools (s_rec sc final) with
      | Crash => Crash
      | Done pools' => Done (rews, pools')
      end
    end.

(* ===================================================================== *)
(* Part 3: evidences                                                      *)
(* ===================================================================== *)

Record evid := mkEvid {
  e_id : N;          (* identity of the evidence bytes *)
  e_known : bool;    (* Type = "doublesignv5" and the payload decodes *)
  e_nsigns : N;
  e_differ : bool;   (* some signature is for a hash different from the first one *)
  e_round : N
}.

Section Evidences.
  Variable St : Type.
  Variable lg : Type.
  (* signer resolution: index into the look-back validator set of the evidence
     round + BLS verification of every signature; a function of the evidence and
     of chain history that is the same on every node *)
  Variable resolve : evid -> option N.
  Variable val_exists : St -> N -> bool.
  (* doPenalize (takePenalty + expel): new state, total penalty, log *)
  Variable penalize : St -> N -> St * Z * lg.

  (* the per-evidence signer cache (Evidence.addr) *)
  Definition memo := N -> option N.
  Definition memo_valid (m : memo) : Prop :=
    forall e a, m (e_id e) = Some a -> resolve e = Some a.
  Definition signer_of (m : memo) (e : evid) : option N :=
    match m (e_id e) with Some a => Some a | None => resolve e end.

  Record eacc := mkEacc {
    a_st : St; a_seen : list N; a_conf : list evid; a_pend : list evid; a_logs : list lg
  }.

  (* processDoubleSignV5.  An evidence that reaches doPenalize is always
     confirmed (doPenalize changes the state even for a zero amount); only the
     log depends on the amount. *)
  Definition ev_step (m : memo) (parent max_expired : N) (a : eacc) (e : evid) : eacc :=
    if negb (e_known e) then a
    else if (e_nsigns e <? 2)%N then a
    else if negb (e_differ e) then a
    else if (e_round e =? parent)%N then
      match signer_of m e with
      | None => a
      | Some s =>
        if existsb (N.eqb s) (a_seen a) then a
        else if negb (val_exists (a_st a) s) then a
        else
          let '(st', total, l) := penalize (a_st a) s in
          mkEacc st' (s :: a_seen a) (a_conf a ++ [e]) (a_pend a)
                 (if 0 <? total then a_logs a ++ [l] else a_logs a)
      end
    else if (parent <? e_round e)%N then mkEacc (a_st a) (a_seen a) (a_conf a) (a_pend a ++ [e]) (a_logs a)
    else if (parent - e_round e <=? max_expired)%N
         then mkEacc (a_st a) (a_seen a) (a_conf a) (a_pend a ++ [e]) (a_logs a)
         else a.

  Definition process_evidences (m : memo) (parent max_expired : N) (st : St) (evs : list evid) : eacc :=
    fold_left (ev_step m parent max_expired) evs (mkEacc st [] [] [] []).

  (* builder: slashing() and validator: replaySlashing().  Both judge the
     evidences against the height of the block's own parent (header.Number - 1);
     the builder processes its pool and writes the confirmed evidences into the
     slash data, the validator processes the decoded slash data *)
  Definition slashing (m : memo) (number max_expired : N) (st : St) (pool : list evid) :=
    process_evidences m (number - 1)%N max_expired st pool.
  Definition replay_slashing (m : memo) (number max_expired : N) (st : St) (slash_data : list evid) :=
    process_evidences m (number - 1)%N max_expired st slash_data.
End Evidences.

(* ===================================================================== *)
(* Part 3b: the StateDB's object cache of staking records                 *)
(*          (core/state/statedb_staking.go, staking/delegation_handler.go) *)
(* ===================================================================== *)

(* trie content, live objects (stakingRecords), dirty keys (stakingRecordsDirty) *)
Record srdb := mkSr { sr_trie : gmap Z; sr_cache : gmap Z; sr_dirty : list N }.
(* state.New on a root: empty caches *)
Definition sr_fresh (trie : gmap Z) : srdb := mkSr trie gempty [].

(* getStakingRecord: prefer the live object, otherwise load it from the trie
   into the live set *)
Definition sr_load (s : srdb) (k : N) : srdb * option Z :=
  match sr_cache s k with
  | Some v => (s, Some v)
  | None =>
    match sr_trie s k with
    | Some v => (mkSr (sr_trie s) (upd (sr_cache s) k (Some v)) (sr_dirty s), Some v)
    | None => (s, None)
    end
  end.
(* GetStakingRecordValue: a COPY of the final value, 0 when there is no record *)
Definition sr_get (s : srdb) (k : N) : srdb * Z :=
  let '(s', o) := sr_load s k in (s', match o with Some v => v | None => 0 end).
(* AddStakingRecord with a new final value: write the live object, mark dirty *)
Definition sr_add (s : srdb) (k : N) (v : Z) : srdb :=
  let '(s', _) := sr_load s k in
  mkSr (sr_trie s') (upd (sr_cache s') k (Some v)) (k :: sr_dirty s').
(* updateStakingTrie (IntermediateRoot): write every dirty live object *)
Definition sr_flush (s : srdb) : srdb :=
  mkSr (fold_left (fun t k => upd t k (sr_cache s k)) (sr_dirty s) (sr_trie s)) (sr_cache s) [].
(* ResetStakingTrie (first block of a period) *)
Definition sr_reset (_ : srdb) : srdb := mkSr gempty gempty [].

(* checkAndUpdateTotalPendingStakesOfValidator: the arithmetic is done on the
   copy; nothing is written on the errStakesOverflow return *)
Definition sr_check (stake_unit max_stake : Z) (s : srdb) (k : N) (val_token delta : Z) : srdb * bool :=
  let '(s1, t0) := sr_get s k in
  let t1 := if t0 =? 0 then val_token else t0 in
  let t2 := t1 + delta in
  let t3 := if t2 <? 0 then 0 else t2 in
  if (0 <? delta) && (0 <? max_stake) && (max_stake <? t3 / stake_unit) then (s1, false)
  else (sr_add s1 k t3, true).

(* the variant a seeded change produced (GetStakingRecordValue returning the live
   big.Int): the arithmetic lands in the live object, which is not marked dirty
   on the overflow return.  Only used for the counter-example. *)
Definition sr_check_alias (stake_unit max_stake : Z) (s : srdb) (k : N) (val_token delta : Z) : srdb * bool :=
  let '(s1, o) := sr_load s k in
  let t0 := match o with Some v => v | None => 0 end in
  let t1 := if t0 =? 0 then val_token else t0 in
  let t2 := t1 + delta in
  let t3 := if t2 <? 0 then 0 else t2 in
  if (0 <? delta) && (0 <? max_stake) && (max_stake <? t3 / stake_unit)
  then (match o with
        | Some _ => mkSr (sr_trie s1) (upd (sr_cache s1) k (Some t3)) (sr_dirty s1)
        | None => s1 end, false)
  else (sr_add s1 k t3, true).

Inductive sr_op :=
| OpRead (k : N)                       (* GetStakingRecordValue *)
| OpCheck (k : N) (val_token delta : Z)(* a staking transaction touching the pending total *)
| OpSet (k : N) (v : Z)                (* AddStakingRecord *)
| OpFlush                              (* IntermediateRoot *)
| OpReset.                             (* new staking period *)

Definition sr_step (check : srdb -> N -> Z -> Z -> srdb * bool) (a : srdb * list Z) (o : sr_op) : srdb * list Z :=
  let '(s, out) := a in
  match o with
  | OpRead k => let '(s', v) := sr_get s k in (s', out ++ [v])
  | OpCheck k tok d => let '(s', b) := check s k tok d in (s', out ++ [if b then 1 else 0])
  | OpSet k v => (sr_add s k v, out)
  | OpFlush => (sr_flush s, out)
  | OpReset => (sr_reset s, out)
  end.
Definition sr_run check (s : srdb) (ops : list sr_op) : srdb * list Z :=
  fold_left (sr_step check) ops (s, []).

(* the object cache agrees with the trie on every key that is not dirty: what
   the harness checks on the real StateDB after every block *)
Definition sr_coherent (s : srdb) : Prop :=
  forall k v, sr_cache s k = Some v -> ~ In k (sr_dirty s) -> sr_trie s k = Some v.

(* ===================================================================== *)
(* Part 4: building and processing a block                                *)
(* ===================================================================== *)

Record receipt (lg : Type) := mkReceipt { r_failed : bool; r_cum : Z; r_logs : list lg }.
Arguments mkReceipt {lg} _ _ _.
Arguments r_failed {lg} _.
Arguments r_cum {lg} _.
Arguments r_logs {lg} _.

Record header (tx : Type) := mkHeader {
  h_number : N; h_coinbase : N;
  h_gas_used : Z; h_gas_rewards : Z; h_subsidy : Z;
  h_slash : list evid;
  h_roots : N; h_receipt_hash : N; h_bloom : N;
  h_txs : list tx
}.
Arguments mkHeader {tx} _ _ _ _ _ _ _ _ _ _.
Arguments h_number {tx} _.
Arguments h_coinbase {tx} _.
Arguments h_gas_used {tx} _.
Arguments h_gas_rewards {tx} _.
Arguments h_subsidy {tx} _.
Arguments h_slash {tx} _.
Arguments h_roots {tx} _.
Arguments h_receipt_hash {tx} _.
Arguments h_bloom {tx} _.
Arguments h_txs {tx} _.

Section Blocks.
  Variable St tx lg : Type.
  (* ApplyTransaction = ApplyMessageEntry + Finalise: None = the transaction
     cannot be applied (nonce, funds, gas pool ...); otherwise new state, gas
     used, failed flag, logs.  A function of (state, tx, coinbase). *)
  Variable exec : St -> N -> tx -> option (St * Z * bool * list lg).
  Variable price : tx -> Z.
  Variable resolve : evid -> option N.
  Variable val_exists : St -> N -> bool.
  Variable penalize : St -> N -> St * Z * lg.
  Variable max_expired : N.
  (* the reward view of the state (read) and its update (write) *)
  Record reward_view := mkView {
    w_pool_balance : Z; w_residue : Z; w_pools : per_role; w_counts : per_role;
    w_proposer : option role
  }.
  Variable view : St -> N -> reward_view.                 (* state, coinbase *)
  Variable apply_rewards : St -> N -> rtp_out -> St * list lg.  (* SubBalance(pool), stat updates, proposer update, log *)
  Variable v5 : bool.
  Variable threshold coeff : Z.
  Variable ratios : per_role.
  Variable freq : N.
  (* endStakingPeriod: inactivity slashing, distribution, withdraw queue, pending
     transactions - the same call on both paths *)
  Variable period_end : St -> N -> list tx -> St * list lg.
  (* commitments *)
  Variable commit : St -> N.                      (* the three roots *)
  Variable receipt_hash : list (receipt lg) -> N.
  Variable bloom : list (receipt lg) -> N.

  Record txacc := mkTxacc {
    t_st : St; t_used : Z; t_rew : Z; t_recs : list (receipt lg); t_txs : list tx
  }.

  (* worker.commitTransactions / commitTransaction: a failing candidate is
     skipped with the state reverted *)
  Definition build_step (coinbase : N) (a : txacc) (t : tx) : txacc :=
    match exec (t_st a) coinbase t with
    | None => a
    | Some (st', gas, failed, logs) =>
      mkTxacc st' (t_used a + gas) (t_rew a + price t * gas)
              (t_recs a ++ [mkReceipt failed (t_used a + gas) logs]) (t_txs a ++ [t])
    end.

  (* Process: every transaction of the block must apply *)
  Definition process_step (coinbase : N) (a : option txacc) (t : tx) : option txacc :=
    match a with
    | None => None
    | Some a =>
      match exec (t_st a) coinbase t with
      | None => None
      | Some (st', gas, failed, logs) =>
        Some (mkTxacc st' (t_used a + gas) (t_rew a + price t * gas)
                      (t_recs a ++ [mkReceipt failed (t_used a + gas) logs]) (t_txs a ++ [t]))
      end
    end.

  (* staking.EndBlock after the slashing step: rewardsToPool + endStakingPeriod.
     gas_rewards / coinbase / number are read from the header. *)
  Definition end_rest (sc : sched) (st : St) (number coinbase : N) (gas_rewards : Z) (txs : list tx)
    : outcome (St * list lg * Z) :=
    let w := view st coinbase in
    match rewards_to_pool sc v5 threshold coeff ratios (w_counts w) (w_pool_balance w) gas_rewards
                          (w_residue w) (w_pools w) (w_proposer w) with
    | Crash => Crash
    | Done o =>
      let '(st1, l1) := apply_rewards st coinbase o in
      if ((number + 1) mod freq =? 0)%N
      then let '(st2, l2) := period_end st1 number txs in Done (st2, l1 ++ l2, o_subsidy o)
      else Done (st1, l1, o_subsidy o)
    end.

  Record built := mkBuilt { b_header : header tx; b_state : St; b_receipts : list (receipt lg); b_pool : list evid }.

  (* miner/worker.go commitNewWork + commit (core/chain_makers.go genblock has
     the same shape): candidates, EndBlock(isSeal=true), FinalizeAndAssemble *)
  Definition build_block (sc : sched) (m : memo) (st0 : St) (number coinbase : N)
             (candidates : list tx) (pool : list evid) : outcome built :=
    let a := fold_left (build_step coinbase) candidates (mkTxacc st0 0 0 [] []) in
    let ea := slashing St lg resolve val_exists penalize m number max_expired (t_st a) pool in
    match end_rest sc (a_st _ _ ea) number coinbase (t_rew a) (t_txs a) with
    | Crash => Crash
    | Done (st3, endlogs, subsidy) =>
      let recs := t_recs a ++ [mkReceipt false (t_used a) (a_logs _ _ ea ++ endlogs)] in
      Done (mkBuilt (mkHeader number coinbase (t_used a) (t_rew a) subsidy (a_conf _ _ ea)
                              (commit st3) (receipt_hash recs) (bloom recs) (t_txs a))
                    st3 recs (a_pend _ _ ea))
    end.

  Inductive verdict := Accepted (st : St) (recs : list (receipt lg)) | Rejected | Crashed.

  (* StateProcessor.Process + BlockValidator.ValidateState (wherever the local
     chain head is: nothing on this path reads it) *)
  Definition process_block (sc : sched) (m : memo) (st0 : St) (h : header tx) : verdict :=
    match fold_left (process_step (h_coinbase h)) (h_txs h) (Some (mkTxacc st0 0 0 [] [])) with
    | None => Rejected
    | Some a =>
      if negb (t_rew a =? h_gas_rewards h) then Rejected
      else
        let ea := replay_slashing St lg resolve val_exists penalize m (h_number h) max_expired (t_st a) (h_slash h) in
        match end_rest sc (a_st _ _ ea) (h_number h) (h_coinbase h) (h_gas_rewards h) (h_txs h) with
        | Crash => Crashed
        | Done (st3, endlogs, _) =>
          (* the module receipt is created with header.GasUsed *)
          let recs := t_recs a ++ [mkReceipt false (h_gas_used h) (a_logs _ _ ea ++ endlogs)] in
          if negb (h_gas_used h =? t_used a) then Rejected
          else if negb (bloom recs =? h_bloom h)%N then Rejected
          else if negb (receipt_hash recs =? h_receipt_hash h)%N then Rejected
          else if negb (commit st3 =? h_roots h)%N then Rejected
          else Accepted st3 recs
        end
    end.
End Blocks.

(* ===================================================================== *)
(* Part 4c: the block gas pool                                            *)
(*   miner/worker.go commitTransactions / commitTransaction,               *)
(*   core/message_context.go buyGas / refundGas, core/state_processor.go   *)
(*   ApplyMessageEntry, versus the importer's pool in Process.             *)
(* ===================================================================== *)

(* what applying a candidate does, as far as the pool is concerned *)
Inductive gas_kind :=
| GOk          (* applied: buyGas takes the limit, refundGas returns limit - used *)
| GNonce       (* ErrNonceTooLow / ErrNonceTooHigh: refused before buyGas *)
| GFundsGas    (* errInsufficientBalanceForGas: refused inside buyGas BEFORE GP.SubGas *)
| GIntrinsic   (* intrinsic gas error / out of gas on it: after buyGas, no refundGas *)
| GValue.      (* vm.ErrInsufficientBalance: consensus error returned AFTER refundGas *)
(* g_used: what the pool loses for the transaction = limit - AvailableGas handed
   back by refundGas (gas used net of the refund counter) *)
Record gtx := mkGtx { g_limit : Z; g_kind : gas_kind; g_used : Z }.
Definition gtx_wf (t : gtx) : Prop := 0 <= g_used t <= g_limit t.

Definition tx_gas : Z := 21000.   (* params.TxGas *)

(* builder: pool, included transactions, per attempted candidate "refused by the pool" *)
Record gacc := mkGacc { ga_pool : Z; ga_incl : list gtx; ga_refused : list bool }.

(* one commitTransaction.  A failing candidate is dropped with the state
   reverted; the pool is NOT rolled back (it only ever gets smaller than the real
   remainder, never larger) *)
Definition worker_gas_step (a : gacc) (t : gtx) : gacc :=
  match g_kind t with
  | GNonce | GFundsGas => mkGacc (ga_pool a) (ga_incl a) (ga_refused a ++ [false])
  | k =>
    if ga_pool a <? g_limit t
    then mkGacc (ga_pool a) (ga_incl a) (ga_refused a ++ [true])       (* GP.SubGas: ErrGasLimitReached *)
    else match k with
         | GOk => mkGacc (ga_pool a - g_limit t + (g_limit t - g_used t)) (ga_incl a ++ [t]) (ga_refused a ++ [false])
         | GIntrinsic => mkGacc (ga_pool a - g_limit t) (ga_incl a) (ga_refused a ++ [false])
         | _ => mkGacc (ga_pool a - g_limit t + (g_limit t - g_used t)) (ga_incl a) (ga_refused a ++ [false])
         end
  end.

(* commitTransactions: stop as soon as the pool cannot hold a plain transfer *)
Fixpoint worker_gas_run (step : gacc -> gtx -> gacc) (a : gacc) (cands : list gtx) : gacc :=
  match cands with
  | [] => a
  | t :: r => if ga_pool a <? tx_gas then a else worker_gas_run step (step a t) r
  end.

(* the variant a seeded change produced: on any failure other than the pool /
   nonce refusals the worker "gives back" the gas limit.  Counter-example only. *)
Definition worker_gas_step_refunding (a : gacc) (t : gtx) : gacc :=
  match g_kind t with
  | GNonce => mkGacc (ga_pool a) (ga_incl a) (ga_refused a ++ [false])
  | GFundsGas => mkGacc (ga_pool a + g_limit t) (ga_incl a) (ga_refused a ++ [false])
  | k =>
    if ga_pool a <? g_limit t
    then mkGacc (ga_pool a) (ga_incl a) (ga_refused a ++ [true])
    else match k with
         | GOk => mkGacc (ga_pool a - g_used t) (ga_incl a ++ [t]) (ga_refused a ++ [false])
         | GIntrinsic => mkGacc (ga_pool a - g_limit t + g_limit t) (ga_incl a) (ga_refused a ++ [false])
         | _ => mkGacc (ga_pool a - g_used t + g_limit t) (ga_incl a) (ga_refused a ++ [false])
         end
  end.

(* importer (Process): the pool starts at the block gas limit; every included
   transaction must be able to buy its limit; None = "gas limit reached" *)
Definition importer_gas_step (p : option Z) (t : gtx) : option Z :=
  match p with
  | None => None
  | Some pool => if pool <? g_limit t then None else Some (pool - g_used t)
  end.
Definition importer_gas (gas_limit : Z) (incl : list gtx) : option Z :=
  fold_left importer_gas_step incl (Some gas_limit).

(* ===================================================================== *)
(* Part 4d: the block context                                             *)
(*   core/evm.go NewEVMContext / GetHashFn, core/vm opBlockhash: what a    *)
(*   transaction can read of the block it runs in.                         *)
(* ===================================================================== *)

(* BlockNumber, Coinbase, Time, GasLimit and the GetHash function behind BLOCKHASH *)
Record block_ctx := mkCtx { c_number : N; c_coinbase : N; c_time : N; c_gas_limit : N; c_hash : N -> N }.

(* the block's own ancestry: number -> hash of the ancestor with that number,
   followed from the header's parent hash (GetHashFn walks chain.GetHeader along
   ParentHash); it is a function of the parent CHAIN, not of the block number *)
Definition ancestry := N -> N.

(* GetHashFn keeps a number -> hash cache (per message in the code as it is) *)
Definition hash_memo := N -> option N.
Definition hash_memo_ok (anc : ancestry) (hm : hash_memo) : Prop :=
  forall n v, hm n = Some v -> anc n = v.

(* opBlockhash: only the 256 most recent ancestors, zero otherwise; GetHashFn:
   cache first, then the walk along the own parent chain *)
Definition get_hash (anc : ancestry) (hm : hash_memo) (number : N) (n : N) : N :=
  if (n <? number)%N && (number <=? n + 256)%N
  then match hm n with Some v => v | None => anc n end
  else 0%N.

Section BlockCtx.
  Variable St tx lg : Type.
  (* transaction execution reads the block through its context *)
  Variable exec_c : St -> block_ctx -> tx -> option (St * Z * bool * list lg).
  Variable price : tx -> Z.
  Variable resolve : evid -> option N.
  Variable val_exists : St -> N -> bool.
  Variable penalize : St -> N -> St * Z * lg.
  Variable max_expired : N.
  Variable view : St -> N -> reward_view.
  Variable apply_rewards : St -> N -> rtp_out -> St * list lg.
  Variable v5 : bool.
  Variable threshold coeff : Z.
  Variable ratios : per_role.
  Variable freq : N.
  Variable period_end : St -> N -> list tx -> St * list lg.
  Variable commit : St -> N.
  Variable receipt_hash : list (receipt lg) -> N.
  Variable bloom : list (receipt lg) -> N.
  (* header fields the rest of the model does not look at *)
  Variable time_of gas_limit_of : header tx -> N.

  Definition ctx_of (anc : ancestry) (hm : hash_memo) (h : header tx) : block_ctx :=
    mkCtx (h_number h) (h_coinbase h) (time_of h) (gas_limit_of h) (get_hash anc hm (h_number h)).

  (* Process with the context explicit: the ancestry of the block being executed
     and whatever the hash cache holds when execution starts *)
  Definition process_block_ctx (sc : sched) (m : memo) (anc : ancestry) (hm : hash_memo) (st0 : St) (h : header tx) :=
    process_block St tx lg (fun st _ t => exec_c st (ctx_of anc hm h) t) price resolve val_exists penalize
                  max_expired view apply_rewards v5 threshold coeff ratios freq period_end commit receipt_hash bloom
                  sc m st0 h.

  (* the builder, for a context given by its inputs *)
  Definition build_block_ctx (sc : sched) (m : memo) (c : block_ctx) (st0 : St) (cands : list tx) (pool : list evid) :=
    build_block St tx lg (fun st _ t => exec_c st c t) price resolve val_exists penalize
                max_expired view apply_rewards v5 threshold coeff ratios freq period_end commit receipt_hash bloom
                sc m st0 (c_number c) (c_coinbase c) cands pool.
End BlockCtx.

(* ===================================================================== *)
(* Part 4b: forks - the side-chain import path                            *)
(*   core/blockchain.go insertSidechain / verifyAllSideChainBlocks, the    *)
(*   re-import after it, and the ordinary import of a whole branch.        *)
(* ===================================================================== *)

(* What differs between the nodes that execute a block of a fork is not the
   parent state (opened from the parent's roots) but the node's DATABASE:
   staking/endblock.go processPendingTxs resolves the hashes kept in the staking
   records through the canonical transaction lookup (rawdb.ReadTransaction) and
   falls back to the transactions of the block being executed only.  The period
   end hook therefore takes the node's lookup index as an argument. *)
Section Forks.
  Variable St tx lg : Type.
  Variable exec : St -> N -> tx -> option (St * Z * bool * list lg).
  Variable price : tx -> Z.
  Variable resolve : evid -> option N.
  Variable val_exists : St -> N -> bool.
  Variable penalize : St -> N -> St * Z * lg.
  Variable max_expired : N.
  Variable view : St -> N -> reward_view.
  Variable apply_rewards : St -> N -> rtp_out -> St * list lg.
  Variable v5 : bool.
  Variable threshold coeff : Z.
  Variable ratios : per_role.
  Variable freq : N.
  Variable commit : St -> N.
  Variable receipt_hash : list (receipt lg) -> N.
  Variable bloom : list (receipt lg) -> N.
  Variable tx_hash : tx -> N.
  (* the transaction hashes recorded in the staking records of a state *)
  Variable pending : St -> list N.
  (* endStakingPeriod on a node whose transaction lookup is the given index *)
  Definition index := N -> option tx.
  Variable period_end_r : index -> St -> N -> list tx -> St * list lg.

  (* WriteTxLookupEntries of a block written with state *)
  Definition idx_add (ix : index) (txs : list tx) : index :=
    fun h => match find (fun t => N.eqb (tx_hash t) h) txs with Some t => Some t | None => ix h end.

  Definition build_on (ix : index) :=
    build_block St tx lg exec price resolve val_exists penalize max_expired view apply_rewards
                v5 threshold coeff ratios freq (period_end_r ix) commit receipt_hash bloom.
  Definition process_on (ix : index) :=
    process_block St tx lg exec price resolve val_exists penalize max_expired view apply_rewards
                  v5 threshold coeff ratios freq (period_end_r ix) commit receipt_hash bloom.

  (* the state handed to endStakingPeriod while header h is processed on st0
     (after the transactions, the slash-data replay and rewardsToPool) *)
  Definition period_input (sc : sched) (m : memo) (st0 : St) (h : header tx) : option St :=
    match fold_left (process_step St tx lg exec price (h_coinbase h)) (h_txs h)
                    (Some (mkTxacc St tx lg st0 0 0 [] [])) with
    | None => None
    | Some a =>
      let ea := replay_slashing St lg resolve val_exists penalize m (h_number h) max_expired
                                (t_st _ _ _ a) (h_slash h) in
      let w := view (a_st _ _ ea) (h_coinbase h) in
      match rewards_to_pool sc v5 threshold coeff ratios (w_counts w) (w_pool_balance w)
                            (h_gas_rewards h) (w_residue w) (w_pools w) (w_proposer w) with
      | Crash => None
      | Done o => Some (fst (apply_rewards (a_st _ _ ea) (h_coinbase h) o))
      end
    end.

  (* two lookup indexes cannot be told apart while h is processed on st0: h is
     not a period end, or they resolve every pending hash alike *)
  Definition index_agree (ix ix' : index) (sc : sched) (m : memo) (st0 : St) (h : header tx) : Prop :=
    ((h_number h + 1) mod freq <> 0)%N \/
    forall st1, period_input sc m st0 h = Some st1 -> forall x, In x (pending st1) -> ix x = ix' x.

  (* one block of a branch as the builder sees it *)
  Record fork_in := mkForkIn { fi_coinbase : N; fi_cands : list tx; fi_pool : list evid }.

  (* the builder extends its own head: every block it writes is indexed *)
  Fixpoint build_fork (ix : index) (sc : sched) (m : memo) (st : St) (number : N) (ins : list fork_in)
    : outcome (list (built St tx lg)) :=
    match ins with
    | [] => Done []
    | i :: r =>
      match build_on ix sc m st number (fi_coinbase i) (fi_cands i) (fi_pool i) with
      | Crash => Crash
      | Done b =>
        match build_fork (idx_add ix (h_txs (b_header _ _ _ b))) sc m (b_state _ _ _ b) (number + 1)%N r with
        | Crash => Crash
        | Done bs => Done (b :: bs)
        end
      end
    end.

  (* importing a branch block after block, each on the state its parent left.
     grow = true : insertChain - every accepted block is written with state and
                   indexed before the next one is executed (ordinary import, and
                   the re-import that follows a successful side-chain
                   verification when the fork is the longer chain);
     grow = false: verifyAllSideChainBlocks - the blocks are stored without
                   state, the lookup index stays the node's canonical one. *)
  Fixpoint import_chain (grow : bool) (ix : index) (sc : sched) (m : memo) (st : St) (hs : list (header tx))
    : option (list (St * list (receipt lg))) :=
    match hs with
    | [] => Some []
    | h :: r =>
      match process_on ix sc m st h with
      | Accepted _ _ st' recs =>
        match import_chain grow (if grow then idx_add ix (h_txs h) else ix) sc m st' r with
        | Some l => Some ((st', recs) :: l)
        | None => None
        end
      | _ => None
      end
    end.

  Definition fork_headers (bs : list (built St tx lg)) : list (header tx) := map (fun b => b_header _ _ _ b) bs.
  Definition fork_results (bs : list (built St tx lg)) : list (St * list (receipt lg)) :=
    map (fun b => (b_state _ _ _ b, b_receipts _ _ _ b)) bs.

  (* outside the open finding: at every block of the branch the importing node's
     index (ixn) and the builder's (ix) resolve the pending hashes alike *)
  Fixpoint fork_ok (grow : bool) (ixn ix : index) (sc : sched) (m : memo) (st : St) (bs : list (built St tx lg)) : Prop :=
    match bs with
    | [] => True
    | b :: r =>
      index_agree ixn ix sc m st (b_header _ _ _ b) /\
      fork_ok grow (if grow then idx_add ixn (h_txs (b_header _ _ _ b)) else ixn)
              (idx_add ix (h_txs (b_header _ _ _ b))) sc m (b_state _ _ _ b) r
    end.
End Forks.

(* ===================================================================== *)
(* Part 5: correspondence runner                                          *)
(* ===================================================================== *)

Definition role_of_N (n : N) : role :=
  match n with 1%N => Chancellor | 2%N => Senator | _ => House end.

(* observed evidence: descriptor + what the builder did with it *)
Record ev_case := mkEvCase {
  ec_known : bool; ec_nsigns : N; ec_differ : bool; ec_round : N;
  ec_signer : option N;        (* independent re-verification by the harness *)
  ec_exists : bool;            (* signer is a validator of the parent state *)
  ec_penalty_pos : bool;       (* floor(token * fraction / 100) > 0 in the parent state *)
  ec_confirmed : bool; ec_pending : bool   (* observed *)
}.

Inductive case :=
  (* rewardsToPool on one block: v5, threshold, coeff, ratios, counts, pool balance,
     gas rewards, residue, pools, proposer role (0 = none) ; observed subsidy,
     proposer reward, pools, residue *)
| CRewards (v5 : bool) (threshold coeff : Z) (ratios counts : per_role) (pool_balance gas residue : Z)
           (pools : per_role) (proposer : N)
           (obs_subsidy obs_proposer : Z) (obs_pools : per_role) (obs_residue : Z)
  (* a period end: rewardsToPool then distributeRewards on the pools it left:
     online stake per role, validators in index order (role, online, stake) ;
     observed subsidy, proposer reward, residue, reward of every validator from
     the distribution, final pools *)
| CPeriod (v5 : bool) (threshold coeff : Z) (ratios counts : per_role) (pool_balance gas residue : Z)
          (pools : per_role) (proposer : N)
          (obs_subsidy obs_proposer obs_residue : Z)
          (onstake : per_role) (vals : list (N * bool * Z))
          (obs_rewards : list Z) (obs_pools : per_role)
  (* the builder's evidence pool at one block: parent height, max expiry *)
| CEvid (parent max_expired : N) (evs : list ev_case)
  (* per-transaction results of one built block: (gas, price, failed) ; header gas
     used, gas rewards ; observed cumulative gas per receipt (module receipt last) ;
     accepted by the importer *)
| CBlock (txs : list (Z * Z * bool)) (h_used h_rew : Z) (obs_cum : list Z) (obs_status : list bool) (accepted : bool)
  (* the worker's gas pool over one block under construction: block gas limit, the
     candidates in the order the worker tried them (gas limit, observed outcome:
     0 applied, 1 nonce, 2 no money for the gas, 3 refused by the pool, 4 intrinsic
     gas, 5 value transfer impossible ; gas used) ; observed pool when the loop ended *)
| CGas (gas_limit : Z) (steps : list (Z * N * Z)) (obs_final_pool : Z).

Definition pr_eqb (a b : per_role) : bool :=
  (pr_ch a =? pr_ch b) && (pr_se a =? pr_se b) && (pr_ho a =? pr_ho b).
Fixpoint zlist_eqb (a b : list Z) : bool :=
  match a, b with
  | [], [] => true
  | x :: r, y :: s => (x =? y) && zlist_eqb r s
  | _, _ => false
  end.
Fixpoint blist_eqb (a b : list bool) : bool :=
  match a, b with
  | [], [] => true
  | x :: r, y :: s => Bool.eqb x y && blist_eqb r s
  | _, _ => false
  end.

(* evidence cases run the Part 3 model on a state that records, per signer id,
   "exists" and "penalty positive" of the parent state: St = unit, the tables are
   closed over by the oracles *)
Fixpoint evs_of (i : N) (l : list ev_case) : list evid :=
  match l with
  | [] => []
  | c :: r => mkEvid i (ec_known c) (ec_nsigns c) (ec_differ c) (ec_round c) :: evs_of (i + 1) r
  end.
Fixpoint nth_case (l : list ev_case) (i : N) : option ev_case :=
  match l with
  | [] => None
  | c :: r => if (i =? 0)%N then Some c else nth_case r (i - 1)
  end.
Fixpoint find_signer (l : list ev_case) (s : N) : option ev_case :=
  match l with
  | [] => None
  | c :: r => match ec_signer c with
              | Some s' => if (s' =? s)%N then Some c else find_signer r s
              | None => find_signer r s end
  end.
Definition ev_case_ok (parent max_expired : N) (l : list ev_case) : bool :=
  let resolve := fun e : evid => match nth_case l (e_id e) with Some c => ec_signer c | None => None end in
  let exists_ := fun (_ : unit) s => match find_signer l s with Some c => ec_exists c | None => false end in
  let penal := fun (_ : unit) s => (tt, (match find_signer l s with Some c => if ec_penalty_pos c then 1 else 0 | None => 0 end), tt) in
  let a := process_evidences unit unit resolve exists_ penal (fun _ => None) parent max_expired tt (evs_of 0 l) in
  let ids := fun es => map e_id es in
  let fix chk (i : N) (cs : list ev_case) : bool :=
      match cs with
      | [] => true
      | c :: r => Bool.eqb (ec_confirmed c) (existsb (N.eqb i) (ids (a_conf _ _ a)))
                  && Bool.eqb (ec_pending c) (existsb (N.eqb i) (ids (a_pend _ _ a)))
                  && chk (i + 1)%N r
      end in
  chk 0%N l.

(* block cases run the Part 4 accumulation with the observed per-transaction
   results as the execution oracle *)
Definition block_case_ok (txs : list (Z * Z * bool)) (h_used h_rew : Z) (obs_cum : list Z)
           (obs_status : list bool) (accepted : bool) : bool :=
  let exec := fun (_ : unit) (_ : N) (t : Z * Z * bool) => Some (tt, fst (fst t), snd t, @nil unit) in
  let price := fun t : Z * Z * bool => snd (fst t) in
  let a := fold_left (build_step unit (Z * Z * bool) unit exec price 0%N) txs (mkTxacc _ _ _ tt 0 0 [] []) in
  let recs := t_recs _ _ _ a ++ [mkReceipt false h_used []] in
  zlist_eqb (map r_cum recs) obs_cum
  && blist_eqb (map (fun r => negb (r_failed r)) recs) obs_status
  && Bool.eqb accepted ((t_rew _ _ _ a =? h_rew) && (t_used _ _ _ a =? h_used)).

(* gas cases: the model is run on the observed outcomes; a candidate observed as
   refused by the pool (3) stands for any kind that reaches GP.SubGas *)
Definition gas_kind_of (k : N) : gas_kind :=
  match k with 0%N => GOk | 1%N => GNonce | 2%N => GFundsGas | 4%N => GIntrinsic | 5%N => GValue | _ => GOk end.
Definition gas_case_ok (gas_limit : Z) (steps : list (Z * N * Z)) (obs_final_pool : Z) : bool :=
  let cands := map (fun s => mkGtx (fst (fst s)) (gas_kind_of (snd (fst s))) (snd s)) steps in
  let a := fold_left worker_gas_step cands (mkGacc gas_limit [] []) in
  (ga_pool a =? obs_final_pool)
  && blist_eqb (ga_refused a) (map (fun s => (snd (fst s) =? 3)%N) steps)
  && match importer_gas gas_limit (ga_incl a) with Some p => ga_pool a <=? p | None => false end.

Definition case_ok (c : case) : bool :=
  match c with
  | CRewards v5 thr coeff ratios counts pb gas res pools prop os op opools ores =>
    let proposer := if (prop =? 0)%N then None else Some (role_of_N prop) in
    match rewards_to_pool id_sched v5 thr coeff ratios counts pb gas res pools proposer,
          rewards_to_pool rev_sched v5 thr coeff ratios counts pb gas res pools proposer with
    | Done o, Done o' =>
      (o_subsidy o =? os) && (o_proposer o =? op) && pr_eqb (o_pools o) opools && (o_residue o =? ores)
      && (o_proposer o' =? op) && pr_eqb (o_pools o') opools
    | _, _ => false
    end
  | CPeriod v5 thr coeff ratios counts pb gas res pools prop os op ores onstake vals orews opools =>
    let proposer := if (prop =? 0)%N then None else Some (role_of_N prop) in
    let dv := map (fun v => mkDval (role_of_N (fst (fst v))) (snd (fst v)) (snd v)) vals in
    match rewards_to_pool id_sched v5 thr coeff ratios counts pb gas res pools proposer with
    | Done o =>
      (o_subsidy o =? os) && (o_proposer o =? op) && (o_residue o =? ores) &&
      match distribute id_sched counts onstake (o_pools o) dv, distribute rev_sched counts onstake (o_pools o) dv with
      | Done (rews, pools'), Done (rews', pools'') =>
        zlist_eqb rews orews && pr_eqb pools' opools && zlist_eqb rews' orews && pr_eqb pools'' opools
      | _, _ => false
      end
    | Crash => false
    end
  | CEvid parent maxe evs => ev_case_ok parent maxe evs
  | CBlock txs hu hr ocum ostat acc => block_case_ok txs hu hr ocum ostat acc
  | CGas gl steps ofinal => gas_case_ok gl steps ofinal
  end.

Fixpoint mismatches_from (i : N) (l : list case) : list N :=
  match l with
  | [] => []
  | c :: r => if case_ok c then mismatches_from (i + 1)%N r else i :: mismatches_from (i + 1)%N r
  end.
Definition mismatches := mismatches_from 0%N.
