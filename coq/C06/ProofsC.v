(* C06 - proofs, part C: evidences (cache independence, builder versus
   replay), block building versus block processing. *)
From Coq Require Import List ZArith NArith Bool Permutation Lia.
Require Import ZifyBool ZifyN ZifyNat.
From VF.C06 Require Import Model ProofsA ProofsB.
Import ListNotations.
Local Open Scope Z_scope.

(* ===================================================================== *)
Section EvidenceProofs.
  Variable St lg : Type.
  Variable resolve : evid -> option N.
  Variable val_exists : St -> N -> bool.
  Variable penalize : St -> N -> St * Z * lg.

  Notation memo_valid := (memo_valid resolve).
  Notation signer_of := (signer_of resolve).
  Notation ev_step := (ev_step St lg resolve val_exists penalize).
  Notation process_evidences := (process_evidences St lg resolve val_exists penalize).
  Notation eacc := (eacc St lg).

  Definition no_memo : memo := fun _ => None.

  Lemma signer_of_valid : forall m e, memo_valid m -> signer_of m e = resolve e.
  Proof.
    intros m e Hm. unfold Model.signer_of. destruct (m (e_id e)) as [a|] eqn:E; [|reflexivity].
    symmetry. apply Hm. exact E.
  Qed.

  Lemma ev_step_cache_free : forall m m' parent maxe a e, memo_valid m -> memo_valid m' ->
    ev_step m parent maxe a e = ev_step m' parent maxe a e.
  Proof.
    intros. unfold Model.ev_step. rewrite (signer_of_valid m), (signer_of_valid m'); auto.
  Qed.

  Lemma process_evidences_cache_free : forall m m' parent maxe st evs, memo_valid m -> memo_valid m' ->
    process_evidences m parent maxe st evs = process_evidences m' parent maxe st evs.
  Proof.
    intros m m' parent maxe st evs Hm Hm'. unfold Model.process_evidences.
    generalize (mkEacc St lg st [] [] [] []). induction evs as [|e r IH]; intro a; cbn; [reflexivity|].
    rewrite (ev_step_cache_free m m'); auto.
  Qed.

  (* the part of the accumulator the replay reproduces *)
  Definition core_eq (a b : eacc) : Prop :=
    a_st _ _ a = a_st _ _ b /\ a_seen _ _ a = a_seen _ _ b /\ a_conf _ _ a = a_conf _ _ b /\ a_logs _ _ a = a_logs _ _ b.

  (* one builder step, seen from the replay: replaying the confirmed list so far
     lands in the same state / seen set / confirmed list / logs *)
  Lemma replay_invariant :
    forall m parent maxe evs (a : eacc) (st0 : St),
      core_eq (fold_left (ev_step m parent maxe) (a_conf _ _ a) (mkEacc St lg st0 [] [] [] [])) a ->
      let a' := fold_left (ev_step m parent maxe) evs a in
      core_eq (fold_left (ev_step m parent maxe) (a_conf _ _ a') (mkEacc St lg st0 [] [] [] [])) a'.
  Proof.
    intros m parent maxe evs. induction evs as [|e r IH]; intros a st0 Hinv; cbn.
    - exact Hinv.
    - apply IH.
      unfold Model.ev_step at 2 3.
      destruct (e_known e) eqn:Ek; cbn [negb]; [|exact Hinv].
      destruct (e_nsigns e <? 2)%N eqn:En; [exact Hinv|].
      destruct (e_differ e) eqn:Ed; cbn [negb]; [|exact Hinv].
      destruct (e_round e =? parent)%N eqn:Er.
      + destruct (signer_of m e) as [s|] eqn:Es; [|exact Hinv].
        destruct (existsb (N.eqb s) (a_seen _ _ a)) eqn:Eseen; [exact Hinv|].
        destruct (val_exists (a_st _ _ a) s) eqn:Eex; cbn [negb]; [|exact Hinv].
        destruct (penalize (a_st _ _ a) s) as [[st' total] l] eqn:Ep.
        cbn [a_conf].
        rewrite fold_left_app. cbn [fold_left].
        destruct Hinv as (H1 & H2 & H3 & H4).
        set (b := fold_left (ev_step m parent maxe) (a_conf _ _ a) (mkEacc St lg st0 [] [] [] [])) in *.
        unfold Model.ev_step. rewrite Ek, En, Ed, Er, Es. cbn [negb].
        rewrite H2, Eseen, H1, Eex. cbn [negb]. rewrite Ep.
        repeat split; cbn; try congruence. destruct (0 <? total); congruence.
      + (* pending or dropped: state, seen, confirmed, logs unchanged *)
        destruct (parent <? e_round e)%N.
        * destruct Hinv as (H1 & H2 & H3 & H4). repeat split; assumption.
        * destruct (parent - e_round e <=? maxe)%N; [|exact Hinv].
          destruct Hinv as (H1 & H2 & H3 & H4). repeat split; assumption.
  Qed.

  (* the slash data replayed on the same state gives the builder's state and logs *)
  Lemma replay_agrees :
    forall m m' number maxe st pool, memo_valid m -> memo_valid m' ->
      let b := slashing St lg resolve val_exists penalize m number maxe st pool in
      let v := replay_slashing St lg resolve val_exists penalize m' number maxe st (a_conf _ _ b) in
      a_st _ _ v = a_st _ _ b /\ a_logs _ _ v = a_logs _ _ b /\ a_conf _ _ v = a_conf _ _ b.
  Proof.
    intros m m' number maxe st pool Hm Hm' b v.
    unfold v, Model.replay_slashing.
    rewrite (process_evidences_cache_free m' m); auto.
    unfold b, Model.slashing, Model.process_evidences.
    pose proof (replay_invariant m (number - 1)%N maxe pool (mkEacc St lg st [] [] [] []) st) as H.
    cbn in H. specialize (H (conj eq_refl (conj eq_refl (conj eq_refl eq_refl)))).
    destruct H as (H1 & H2 & H3 & H4). repeat split; assumption.
  Qed.
End EvidenceProofs.

(* ===================================================================== *)
Section BlockProofs.
  Variable St tx lg : Type.
  Variable exec : St -> N -> tx -> option (St * Z * bool * list lg).
  Variable price : tx -> Z.
  Variable resolve : evid -> option N.
  Variable val_exists : St -> N -> bool.
  Variable penalize : St -> N -> St * Z * lg.
  Variable max_expired : N.
  Variable view : St -> N -> reward_view.
  Variable apply_rewards : St -> N -> rtp_out -> St * list lg.
  Variable v5 : bool.
  Variable threshold coeff : Z.
  Variable ratios : per_role.
  Variable freq : N.
  Variable period_end : St -> N -> list tx -> St * list lg.
  Variable commit : St -> N.
  Variable receipt_hash : list (receipt lg) -> N.
  Variable bloom : list (receipt lg) -> N.

  Notation build_step := (build_step St tx lg exec price).
  Notation process_step := (process_step St tx lg exec price).
  Notation end_rest := (end_rest St tx lg view apply_rewards v5 threshold coeff ratios freq period_end).
  Notation build_block := (build_block St tx lg exec price resolve val_exists penalize max_expired view apply_rewards
                                       v5 threshold coeff ratios freq period_end commit receipt_hash bloom).
  Notation process_block := (process_block St tx lg exec price resolve val_exists penalize max_expired view apply_rewards
                                           v5 threshold coeff ratios freq period_end commit receipt_hash bloom).
  Notation txacc := (txacc St tx lg).
  Notation init_acc st := (mkTxacc St tx lg st 0 0 [] []).

  Lemma end_rest_sched_free : forall sc sc' st number coinbase gas txs, sched_valid sc -> sched_valid sc' ->
    end_rest sc st number coinbase gas txs = end_rest sc' st number coinbase gas txs.
  Proof.
    intros. unfold Model.end_rest. rewrite (rewards_to_pool_sched_free sc sc'); auto.
  Qed.

  (* determinism: neither the iteration orders nor the cache contents matter
     (and the position of the local chain head is not an input at all) *)
  Lemma process_block_deterministic :
    forall sc sc' m m' st h, sched_valid sc -> sched_valid sc' ->
      memo_valid resolve m -> memo_valid resolve m' ->
      process_block sc m st h = process_block sc' m' st h.
  Proof.
    intros sc sc' m m' st h Hs Hs' Hm Hm'. unfold Model.process_block.
    destruct (fold_left _ (h_txs h) _) as [a|]; [|reflexivity].
    destruct (negb (t_rew _ _ _ a =? h_gas_rewards h)); [reflexivity|].
    unfold Model.replay_slashing.
    rewrite (process_evidences_cache_free St lg resolve val_exists penalize m m'); auto.
    rewrite (end_rest_sched_free sc sc'); auto.
  Qed.

  Lemma build_block_deterministic :
    forall sc sc' m m' st number coinbase cands pool, sched_valid sc -> sched_valid sc' ->
      memo_valid resolve m -> memo_valid resolve m' ->
      build_block sc m st number coinbase cands pool = build_block sc' m' st number coinbase cands pool.
  Proof.
    intros sc sc' m m' st number coinbase cands pool Hs Hs' Hm Hm'. unfold Model.build_block.
    unfold Model.slashing.
    rewrite (process_evidences_cache_free St lg resolve val_exists penalize m m'); auto.
    rewrite (end_rest_sched_free sc sc'); auto.
  Qed.

  (* the validator re-derives the builder's transaction accumulator from the
     included transactions *)
  Lemma included_replay :
    forall coinbase cands (a0 : txacc) st0,
      fold_left (process_step coinbase) (t_txs _ _ _ a0) (Some (init_acc st0)) = Some a0 ->
      let a := fold_left (build_step coinbase) cands a0 in
      fold_left (process_step coinbase) (t_txs _ _ _ a) (Some (init_acc st0)) = Some a.
  Proof.
    intros coinbase cands. induction cands as [|t r IH]; intros a0 st0 H0; cbn.
    - exact H0.
    - apply IH. unfold Model.build_step.
      destruct (exec (t_st _ _ _ a0) coinbase t) as [[[[st' gas] failed] logs]|] eqn:E; [|exact H0].
      cbn [t_txs]. rewrite fold_left_app. rewrite H0. cbn [fold_left].
      unfold Model.process_step. rewrite E. reflexivity.
  Qed.

  (* every built block is accepted unchanged, with the builder's state and receipts *)
  Lemma builder_validator :
    forall sc sc' m m' st0 number coinbase cands pool b,
      sched_valid sc -> sched_valid sc' -> memo_valid resolve m -> memo_valid resolve m' ->
      build_block sc m st0 number coinbase cands pool = Done b ->
      process_block sc' m' st0 (b_header _ _ _ b) = Accepted _ _ (b_state _ _ _ b) (b_receipts _ _ _ b).
  Proof.
    intros sc sc' m m' st0 number coinbase cands pool b Hs Hs' Hm Hm' Hb.
    unfold Model.build_block in Hb.
    set (a := fold_left (build_step coinbase) cands (init_acc st0)) in *.
    set (ea := slashing St lg resolve val_exists penalize m number max_expired (t_st _ _ _ a) pool) in *.
    destruct (end_rest sc (a_st _ _ ea) number coinbase (t_rew _ _ _ a) (t_txs _ _ _ a)) as [[[st3 endlogs] subsidy]|] eqn:Eend;
      [|discriminate].
    inversion Hb; subst b; clear Hb.
    unfold Model.process_block. cbn [b_header h_txs h_coinbase h_gas_rewards h_slash h_number h_gas_used h_bloom h_receipt_hash h_roots b_state b_receipts].
    pose proof (included_replay coinbase cands (init_acc st0) st0 eq_refl) as Hinc. cbn in Hinc.
    fold a in Hinc. rewrite Hinc.
    rewrite Z.eqb_refl. cbn [negb].
    pose proof (replay_agrees St lg resolve val_exists penalize m m' number max_expired (t_st _ _ _ a) pool Hm Hm') as Hr.
    cbn in Hr. fold ea in Hr. destruct Hr as (Hr1 & Hr2 & Hr3).
    rewrite Hr1, Hr2.
    rewrite (end_rest_sched_free sc' sc); auto. rewrite Eend.
    rewrite Z.eqb_refl, !N.eqb_refl. cbn [negb]. reflexivity.
  Qed.
End BlockProofs.

(* ===================================================================== *)
(* A concrete instance for the non-vacuity examples.                        *)
(* State = "validator 7 is expelled".                                       *)

Module Witness.
  Definition St := bool.
  (* transactions are numbers: those below 10 apply (21000 gas, one log), the others do not *)
  Definition exec (s : St) (_ : N) (t : N) : option (St * Z * bool * list unit) :=
    if (t <? 10)%N then Some (s, 21000, N.even t, [tt]) else None.
  Definition price (t : N) : Z := Z.of_N t.
  Definition resolve (_ : evid) : option N := Some 7%N.
  Definition val_exists (_ : St) (_ : N) : bool := true.
  Definition view (_ : St) (_ : N) : reward_view := mkView 100 5 (mkPR 0 0 0) (mkPR 1 0 2) (Some Chancellor).
  Definition apply_rewards (s : St) (_ : N) (_ : rtp_out) : St * list unit := (s, [tt]).
  Definition period_end (s : St) (_ : N) (_ : list N) : St * list unit := (s, [tt; tt]).
  Definition commit (s : St) : N := if s then 1%N else 0%N.
  Definition rhash (l : list (receipt unit)) : N :=
    N.of_nat (length (concat (map r_logs l))) + 1000 * Z.to_N (fold_left (fun a r => a + r_cum r) l 0).
  Definition ev : evid := mkEvid 0 true 2 true 4.
  Definition ev_future : evid := mkEvid 1 true 2 true 6.
  Definition ev_same_hash : evid := mkEvid 2 true 2 false 4.

  (* doPenalize that expels but takes nothing (dust validator) *)
  Definition penalize0 (_ : St) (_ : N) : St * Z * unit := (true, 0, tt).
  (* doPenalize that takes a positive amount *)
  Definition penalize1 (_ : St) (_ : N) : St * Z * unit := (true, 1, tt).

  Definition memo0 : memo := fun i => if (i =? 0)%N then Some 7%N else None.
  Lemma memo0_valid : memo_valid resolve memo0.
  Proof. intros e a H. unfold memo0 in H. destruct (e_id e =? 0)%N; [exact H | discriminate]. Qed.

  Definition build pen :=
    build_block St N unit exec price resolve val_exists pen 5%N view apply_rewards true 9 5 (mkPR 3 3 4) 4%N
                period_end commit rhash rhash id_sched (fun _ => None) false 5%N 9%N [3; 12; 4]%N
                [ev_same_hash; ev; ev_future; ev].
  Definition process pen sc m h :=
    process_block St N unit exec price resolve val_exists pen 5%N view apply_rewards true 9 5 (mkPR 3 3 4) 4%N
                  period_end commit rhash rhash sc m false h.

  (* two included transactions (one candidate skipped), one confirmed evidence,
     one pending, one duplicate and one same-hash evidence dropped; built with one
     schedule and an empty cache, processed with the reversed schedule and a
     filled cache *)
  Lemma positive_penalty_block_accepted :
    exists b, build penalize1 = Done b /\
              length (h_txs (b_header _ _ _ b)) = 2%nat /\ h_slash (b_header _ _ _ b) = [ev] /\
              b_pool _ _ _ b = [ev_future] /\ b_state _ _ _ b = true /\
              process penalize1 rev_sched memo0 (b_header _ _ _ b) = Accepted _ _ (b_state _ _ _ b) (b_receipts _ _ _ b).
  Proof.
    eexists. split; [vm_compute; reflexivity|].
    split; [vm_compute; reflexivity|]. split; [vm_compute; reflexivity|].
    split; [vm_compute; reflexivity|]. split; [vm_compute; reflexivity|].
    vm_compute. reflexivity.
  Qed.

  (* the former finding class: a zero-amount penalty still reaches the slash data
     and the block is accepted *)
  Lemma zero_penalty_block_accepted :
    exists b, build penalize0 = Done b /\ h_slash (b_header _ _ _ b) = [ev] /\ b_state _ _ _ b = true /\
              process penalize0 id_sched (fun _ => None) (b_header _ _ _ b) = Accepted _ _ (b_state _ _ _ b) (b_receipts _ _ _ b).
  Proof.
    eexists. split; [vm_compute; reflexivity|].
    split; [vm_compute; reflexivity|]. split; [vm_compute; reflexivity|].
    vm_compute. reflexivity.
  Qed.
End Witness.
