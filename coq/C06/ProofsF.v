(* C06 - proofs, part F: the block gas pool.  Whatever candidates the worker is
   offered and however they fail, its pool never exceeds what an importer's pool
   holds at the same point: every transaction the worker admits can buy its gas
   limit on the importing side ("gas limit reached" cannot happen for a built
   block), and the gas used never exceeds the block gas limit at any prefix. *)
From Coq Require Import List ZArith NArith Bool Lia.
Require Import ZifyBool ZifyN ZifyNat.
From VF.C06 Require Import Model.
Import ListNotations.
Local Open Scope Z_scope.

(* the builder's pool is non-negative and at most the importer's pool after the
   same included transactions *)
Definition gas_inv (gas_limit : Z) (a : gacc) : Prop :=
  exists p, importer_gas gas_limit (ga_incl a) = Some p /\ 0 <= ga_pool a <= p.

Lemma importer_gas_app : forall gl l t,
  importer_gas gl (l ++ [t]) = importer_gas_step (importer_gas gl l) t.
Proof. intros. unfold importer_gas. rewrite fold_left_app. reflexivity. Qed.

Lemma worker_gas_step_inv : forall gl a t, gtx_wf t -> gas_inv gl a -> gas_inv gl (worker_gas_step a t).
Proof.
  intros gl a t [Hu Hl] (p & Hp & Hpool). unfold gas_inv, worker_gas_step.
  destruct (g_kind t) eqn:Ek.
  - (* applied *)
    destruct (ga_pool a <? g_limit t) eqn:E; cbn [ga_pool ga_incl].
    + exists p. split; [exact Hp | lia].
    + exists (p - g_used t). split; [|lia].
      rewrite importer_gas_app, Hp. cbn [importer_gas_step]. destruct (p <? g_limit t) eqn:E2; [lia | reflexivity].
  - exists p. cbn [ga_pool ga_incl]. split; [exact Hp | lia].
  - exists p. cbn [ga_pool ga_incl]. split; [exact Hp | lia].
  - destruct (ga_pool a <? g_limit t) eqn:E; cbn [ga_pool ga_incl]; exists p; (split; [exact Hp | lia]).
  - destruct (ga_pool a <? g_limit t) eqn:E; cbn [ga_pool ga_incl]; exists p; (split; [exact Hp | lia]).
Qed.

Lemma worker_gas_run_inv : forall gl cands a, Forall gtx_wf cands -> gas_inv gl a ->
  gas_inv gl (worker_gas_run worker_gas_step a cands).
Proof.
  intros gl cands. induction cands as [|t r IH]; intros a Hwf Hinv; cbn; [exact Hinv|].
  inversion Hwf; subst. destruct (ga_pool a <? tx_gas); [exact Hinv|].
  apply IH; [assumption|]. apply worker_gas_step_inv; assumption.
Qed.

(* for every candidate sequence the importer's pool never underflows on what the
   worker admitted, and it ends at least as full as the worker's *)
Lemma gas_pool_never_underflows : forall gl cands, 0 <= gl -> Forall gtx_wf cands ->
  let a := worker_gas_run worker_gas_step (mkGacc gl [] []) cands in
  exists p, importer_gas gl (ga_incl a) = Some p /\ 0 <= ga_pool a <= p.
Proof.
  intros gl cands Hgl Hwf. cbv zeta. change (gas_inv gl (worker_gas_run worker_gas_step (mkGacc gl [] []) cands)).
  apply worker_gas_run_inv; [exact Hwf|]. unfold gas_inv.
  exists gl. split; [reflexivity | cbn; lia].
Qed.

(* the importer's pool is the block gas limit minus the gas used so far *)
Lemma importer_gas_sum : forall l gl p, importer_gas gl l = Some p ->
  p = gl - fold_left (fun s t => s + g_used t) l 0.
Proof.
  intros l. induction l as [|t r IH] using rev_ind; intros gl p H.
  - cbn in H. inversion H. cbn. lia.
  - rewrite importer_gas_app in H. rewrite fold_left_app. cbn.
    destruct (importer_gas gl r) as [q|] eqn:E; [|discriminate]. cbn in H.
    destruct (q <? g_limit t); [discriminate|]. inversion H. rewrite (IH gl q E). lia.
Qed.

(* ... so the gas used by the admitted transactions stays within the block gas limit *)
Lemma gas_used_within_limit : forall gl cands, 0 <= gl -> Forall gtx_wf cands ->
  fold_left (fun s t => s + g_used t) (ga_incl (worker_gas_run worker_gas_step (mkGacc gl [] []) cands)) 0 <= gl.
Proof.
  intros gl cands Hgl Hwf. destruct (gas_pool_never_underflows gl cands Hgl Hwf) as (p & Hp & Hpool).
  apply importer_gas_sum in Hp. lia.
Qed.

Module GasWitness.
  (* block gas limit 1 500 000.  A transfer (21000) drains the sender; its second
     transaction can no longer pay for 1 000 000 gas (refused inside buyGas, pool
     untouched); a call with a gas limit of 1 490 000 does not fit the real
     remainder of 1 479 000 *)
  Definition cands := [mkGtx 21000 GOk 21000; mkGtx 1000000 GFundsGas 0; mkGtx 1490000 GOk 30000; mkGtx 100000 GOk 25000].
  Lemma wf : Forall gtx_wf cands.
  Proof. repeat constructor; cbn; lia. Qed.

  Lemma sound_worker :
    let a := worker_gas_run worker_gas_step (mkGacc 1500000 [] []) cands in
    ga_refused a = [false; false; true; false] /\ length (ga_incl a) = 2%nat /\ ga_pool a = 1454000 /\
    importer_gas 1500000 (ga_incl a) = Some 1454000.
  Proof. repeat split; vm_compute; reflexivity. Qed.

  (* with the gas limit "given back" the third candidate is admitted and every
     importer stops with "gas limit reached" *)
  Lemma refunding_worker_block_rejected :
    let a := worker_gas_run worker_gas_step_refunding (mkGacc 1500000 [] []) cands in
    ga_refused a = [false; false; false; false] /\ length (ga_incl a) = 3%nat /\
    importer_gas 1500000 (ga_incl a) = None.
  Proof. repeat split; vm_compute; reflexivity. Qed.
End GasWitness.
