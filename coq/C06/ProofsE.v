(* C06 - proofs, part E: forks.  A branch assembled by the builder is accepted
   block after block, with the builder's states and receipts, by the ordinary
   import, by the side-chain verification and by the re-import that follows it,
   as long as the importing node's transaction lookup resolves the pending
   staking transactions the way the builder's does (the open finding is exactly
   the case where it does not). *)
From Coq Require Import List ZArith NArith Bool Lia.
Require Import ZifyBool ZifyN ZifyNat.
From VF.C06 Require Import Model ProofsA ProofsB ProofsC.
Import ListNotations.
Local Open Scope Z_scope.

Section ForkProofs.
  Variable St tx lg : Type.
  Variable exec : St -> N -> tx -> option (St * Z * bool * list lg).
  Variable price : tx -> Z.
  Variable resolve : evid -> option N.
  Variable val_exists : St -> N -> bool.
  Variable penalize : St -> N -> St * Z * lg.
  Variable max_expired : N.
  Variable view : St -> N -> reward_view.
  Variable apply_rewards : St -> N -> rtp_out -> St * list lg.
  Variable v5 : bool.
  Variable threshold coeff : Z.
  Variable ratios : per_role.
  Variable freq : N.
  Variable commit : St -> N.
  Variable receipt_hash : list (receipt lg) -> N.
  Variable bloom : list (receipt lg) -> N.
  Variable tx_hash : tx -> N.
  Variable pending : St -> list N.
  Variable period_end_r : index tx -> St -> N -> list tx -> St * list lg.

  (* processPendingTxs looks up the hashes of the staking records and nothing else *)
  Definition period_end_framed : Prop :=
    forall ix ix' st n txs, (forall x, In x (pending st) -> ix x = ix' x) ->
      period_end_r ix st n txs = period_end_r ix' st n txs.

  Notation build_on := (build_on St tx lg exec price resolve val_exists penalize max_expired view apply_rewards
                                 v5 threshold coeff ratios freq commit receipt_hash bloom period_end_r).
  Notation process_on := (process_on St tx lg exec price resolve val_exists penalize max_expired view apply_rewards
                                     v5 threshold coeff ratios freq commit receipt_hash bloom period_end_r).
  Notation period_input := (period_input St tx lg exec price resolve val_exists penalize max_expired view apply_rewards
                                         v5 threshold coeff ratios).
  Notation index_agree := (index_agree St tx lg exec price resolve val_exists penalize max_expired view apply_rewards
                                       v5 threshold coeff ratios freq pending).
  Notation build_fork := (build_fork St tx lg exec price resolve val_exists penalize max_expired view apply_rewards
                                     v5 threshold coeff ratios freq commit receipt_hash bloom tx_hash period_end_r).
  Notation import_chain := (import_chain St tx lg exec price resolve val_exists penalize max_expired view apply_rewards
                                         v5 threshold coeff ratios freq commit receipt_hash bloom tx_hash period_end_r).
  Notation fork_ok := (fork_ok St tx lg exec price resolve val_exists penalize max_expired view apply_rewards
                               v5 threshold coeff ratios freq tx_hash pending).
  Notation idx_add := (idx_add tx tx_hash).

  Hypothesis frame : period_end_framed.

  (* the lookup index matters at a period end only, and there only through the
     pending hashes *)
  Lemma process_on_frame : forall ix ix' sc m st0 h,
    index_agree ix ix' sc m st0 h -> process_on ix sc m st0 h = process_on ix' sc m st0 h.
  Proof.
    intros ix ix' sc m st0 h Hag. unfold Model.process_on, Model.process_block.
    unfold Model.index_agree, Model.period_input in Hag.
    destruct (fold_left _ (h_txs h) _) as [a|]; [|reflexivity].
    destruct (negb (t_rew _ _ _ a =? h_gas_rewards h)); [reflexivity|].
    set (ea := replay_slashing St lg resolve val_exists penalize m (h_number h) max_expired (t_st _ _ _ a) (h_slash h)) in *.
    unfold Model.end_rest.
    destruct (rewards_to_pool sc v5 threshold coeff ratios _ _ _ _ _ _) as [o|]; [|reflexivity].
    destruct (apply_rewards (a_st _ _ ea) (h_coinbase h) o) as [st1 l1] eqn:Ear.
    destruct ((h_number h + 1) mod freq =? 0)%N eqn:Ep; [|reflexivity].
    destruct Hag as [Hn|Hag]; [apply N.eqb_eq in Ep; contradiction|].
    cbn [fst] in Hag.
    rewrite (frame ix ix' st1 (h_number h) (h_txs h)); [reflexivity|].
    apply (Hag st1 eq_refl).
  Qed.

  Lemma idx_add_ext : forall ix ix' txs, (forall x, ix x = ix' x) -> forall x, idx_add ix txs x = idx_add ix' txs x.
  Proof. intros ix ix' txs H x. unfold Model.idx_add. destruct (find _ txs); [reflexivity | apply H]. Qed.

  (* the general statement: any import mode, any index of the importing node *)
  Lemma fork_import :
    forall grow sc sc' m m' ins ix ixn st number bs,
      sched_valid sc -> sched_valid sc' -> memo_valid resolve m -> memo_valid resolve m' ->
      build_fork ix sc m st number ins = Done bs ->
      fork_ok grow ixn ix sc' m' st bs ->
      import_chain grow ixn sc' m' st (fork_headers St tx lg bs) = Some (fork_results St tx lg bs).
  Proof.
    intros grow sc sc' m m' ins. induction ins as [|i r IH]; intros ix ixn st number bs Hs Hs' Hm Hm' Hb Hok.
    - cbn in Hb. inversion Hb; subst. reflexivity.
    - cbn [Model.build_fork] in Hb.
      destruct (build_on ix sc m st number (fi_coinbase _ i) (fi_cands _ i) (fi_pool _ i)) as [b|] eqn:Eb; [|discriminate].
      destruct (build_fork (idx_add ix (h_txs (b_header _ _ _ b))) sc m (b_state _ _ _ b) (number + 1)%N r) as [bs'|] eqn:Er;
        [|discriminate].
      inversion Hb; subst bs; clear Hb.
      cbn [Model.fork_ok] in Hok. destruct Hok as [Hag Hok].
      cbn [Model.fork_headers Model.fork_results map Model.import_chain].
      rewrite (process_on_frame ixn ix sc' m' st (b_header _ _ _ b) Hag).
      unfold Model.build_on in Eb. unfold Model.process_on.
      rewrite (builder_validator St tx lg exec price resolve val_exists penalize max_expired view apply_rewards
                 v5 threshold coeff ratios freq (period_end_r ix) commit receipt_hash bloom
                 sc sc' m m' st number (fi_coinbase _ i) (fi_cands _ i) (fi_pool _ i) b Hs Hs' Hm Hm' Eb).
      fold (fork_headers St tx lg bs'). fold (fork_results St tx lg bs').
      rewrite (IH _ _ _ _ _ Hs Hs' Hm Hm' Er Hok). reflexivity.
  Qed.

  (* indexes that agree everywhere stay outside the finding whatever the branch *)
  Lemma fork_ok_of_equal : forall sc m bs ixn ix st, (forall x, ixn x = ix x) -> fork_ok true ixn ix sc m st bs.
  Proof.
    intros sc m bs. induction bs as [|b r IH]; intros ixn ix st Heq; cbn; [exact I|]. split.
    - right. intros st1 _ x _. apply Heq.
    - apply IH. apply idx_add_ext. exact Heq.
  Qed.

  (* ordinary import of a whole branch (also: the re-import after a side-chain
     verification) on a node whose lookup agrees with the builder's at the fork
     point: unconditional *)
  Lemma fork_canonical_import :
    forall sc sc' m m' ins ix ixn st number bs,
      sched_valid sc -> sched_valid sc' -> memo_valid resolve m -> memo_valid resolve m' ->
      (forall x, ixn x = ix x) ->
      build_fork ix sc m st number ins = Done bs ->
      import_chain true ixn sc' m' st (fork_headers St tx lg bs) = Some (fork_results St tx lg bs).
  Proof.
    intros sc sc' m m' ins ix ixn st number bs Hs Hs' Hm Hm' Heq Hb.
    apply (fork_import true sc sc' m m' ins ix ixn st number bs Hs Hs' Hm Hm' Hb).
    apply fork_ok_of_equal. exact Heq.
  Qed.
End ForkProofs.

(* ===================================================================== *)
(* A concrete instance: the state is the list of pending hashes plus a    *)
(* counter of transactions taken into effect.                             *)

Module ForkWitness.
  Definition St := (list N * N)%type.
  Definition tx := N.                       (* a transaction is its own hash *)
  Definition exec (s : St) (_ : N) (t : tx) : option (St * Z * bool * list unit) :=
    if (t <? 100)%N then Some ((t :: fst s, snd s), 21000, false, [tt]) else None.
  Definition price (t : tx) : Z := Z.of_N t.
  Definition resolve (_ : evid) : option N := Some 7%N.
  Definition val_exists (_ : St) (_ : N) : bool := true.
  Definition penalize (s : St) (_ : N) : St * Z * unit := ((fst s, snd s + 1000)%N, 1, tt).
  Definition view (_ : St) (_ : N) : reward_view := mkView 100 5 (mkPR 0 0 0) (mkPR 1 0 2) (Some Chancellor).
  Definition apply_rewards (s : St) (_ : N) (_ : rtp_out) : St * list unit := (s, [tt]).
  Definition commit (s : St) : N := (fold_left N.add (fst s) 0 * 100000 + snd s)%N.
  Definition rhash (l : list (receipt unit)) : N :=
    N.of_nat (length (concat (map r_logs l))) + 1000 * Z.to_N (fold_left (fun a r => a + r_cum r) l 0).
  Definition tx_hash (t : tx) : N := t.
  Definition pending (s : St) : list N := fst s.
  (* processPendingTxs: every pending hash must resolve (index first, then the
     block's own transactions); otherwise the error return leaves the state alone *)
  Definition period_end_r (ix : index tx) (s : St) (_ : N) (txs : list tx) : St * list unit :=
    if forallb (fun h => match ix h with Some _ => true | None => existsb (N.eqb h) txs end) (fst s)
    then (([], snd s + N.of_nat (length (fst s)))%N, [tt; tt]) else (s, []).

  Lemma framed : period_end_framed St tx unit pending period_end_r.
  Proof.
    intros ix ix' s n txs H. unfold period_end_r.
    replace (forallb (fun h => match ix h with Some _ => true | None => existsb (N.eqb h) txs end) (fst s))
      with (forallb (fun h => match ix' h with Some _ => true | None => existsb (N.eqb h) txs end) (fst s)); [reflexivity|].
    unfold pending in H. induction (fst s) as [|a r IH]; cbn; [reflexivity|].
    rewrite (H a (or_introl eq_refl)). rewrite IH; [reflexivity|]. intros x Hx. apply H. right. exact Hx.
  Qed.

  Definition ix0 : index tx := fun _ => None.
  Definition ev (r : N) : evid := mkEvid r true 2 true r.

  Definition build ins :=
    build_fork St tx unit exec price resolve val_exists penalize 5%N view apply_rewards true 9 5 (mkPR 3 3 4) 4%N
               commit rhash rhash tx_hash period_end_r ix0 id_sched (fun _ => None) ([], 0%N) 2%N ins.
  Definition import grow ix hs :=
    import_chain St tx unit exec price resolve val_exists penalize 5%N view apply_rewards true 9 5 (mkPR 3 3 4) 4%N
                 commit rhash rhash tx_hash period_end_r grow ix rev_sched (fun _ => None) ([], 0%N) hs.

  (* branch of two blocks: block 2 includes staking transaction 11 and confirms an
     evidence; block 3 is the period end (3+1 = 4) and includes transaction 12 *)
  Definition branch := [mkForkIn tx 9%N [11%N; 500%N] [ev 1]; mkForkIn tx 9%N [12%N] [ev 2]].
  (* the same with both transactions in the period-end block *)
  Definition branch_late := [mkForkIn tx 9%N [] [ev 1]; mkForkIn tx 9%N [11%N; 12%N] [ev 2]].

  Lemma branch_canonical_accepted :
    exists bs, build branch = Done bs /\ length bs = 2%nat /\
               map (fun b => length (h_slash (b_header _ _ _ b))) bs = [1%nat; 1%nat] /\
               import true ix0 (fork_headers _ _ _ bs) = Some (fork_results _ _ _ bs) /\
               map (fun b => snd (b_state _ _ _ b)) bs = [1000%N; 2002%N].
  Proof.
    eexists. split; [vm_compute; reflexivity|]. split; [vm_compute; reflexivity|].
    split; [vm_compute; reflexivity|]. split; [vm_compute; reflexivity|]. vm_compute. reflexivity.
  Qed.

  (* the open finding: side-chain verification of the same branch fails at the
     period end, transaction 11 of the earlier fork block is not in the lookup *)
  Lemma branch_side_chain_refused :
    exists bs, build branch = Done bs /\ import false ix0 (fork_headers _ _ _ bs) = None.
  Proof. eexists. split; [vm_compute; reflexivity|]. vm_compute. reflexivity. Qed.

  (* outside the finding the side-chain verification accepts *)
  Lemma branch_late_side_chain_accepted :
    exists bs, build branch_late = Done bs /\
               import false ix0 (fork_headers _ _ _ bs) = Some (fork_results _ _ _ bs) /\
               map (fun b => snd (b_state _ _ _ b)) bs = [1000%N; 2002%N].
  Proof. eexists. split; [vm_compute; reflexivity|]. split; [vm_compute; reflexivity|]. vm_compute. reflexivity. Qed.
End ForkWitness.
