(* C06 - block execution is deterministic; builder and validator agree.
   Property theorems only: each is closed by [exact] of a lemma of
   ProofsA/B/C or Bridge and followed by Print Assumptions. *)
From Coq Require Import String List ZArith NArith Bool Permutation.
From VF.C06 Require Import Model ProofsA ProofsB ProofsC ProofsD ProofsE ProofsF ProofsG Bridge.
From VF.gen Require Import C06MapRanges.
Import ListNotations.
Local Open Scope Z_scope.

(* ---------------------------------------------------------------------- *)
(* The statement at full strength, over every instantiation of the oracles
   (transaction execution, signer resolution, penalty, period end, hashes):

   determinism  processing a block on a parent state gives one result whatever
                the iteration order of every map on the path and whatever the
                cache contents (the position of the local chain head is not an
                input of process_block at all since fix ec9154c);
   agreement    every block the builder assembles from any candidate
                transactions and any evidence pool is accepted unchanged (same
                state, same receipts) by a node that processes it. *)

Definition C06_determinism_full : Prop :=
  forall (St tx lg : Type) exec price resolve val_exists penalize max_expired view apply_rewards
         v5 threshold coeff ratios freq period_end commit receipt_hash bloom,
  forall sc sc' m m' st h,
    sched_valid sc -> sched_valid sc' -> memo_valid resolve m -> memo_valid resolve m' ->
    process_block St tx lg exec price resolve val_exists penalize max_expired view apply_rewards
                  v5 threshold coeff ratios freq period_end commit receipt_hash bloom sc m st h =
    process_block St tx lg exec price resolve val_exists penalize max_expired view apply_rewards
                  v5 threshold coeff ratios freq period_end commit receipt_hash bloom sc' m' st h.

Definition C06_agreement_full : Prop :=
  forall (St tx lg : Type) exec price resolve val_exists penalize max_expired view apply_rewards
         v5 threshold coeff ratios freq period_end commit receipt_hash bloom,
  forall sc sc' m m' st0 number coinbase cands pool b,
    sched_valid sc -> sched_valid sc' -> memo_valid resolve m -> memo_valid resolve m' ->
    build_block St tx lg exec price resolve val_exists penalize max_expired view apply_rewards
                v5 threshold coeff ratios freq period_end commit receipt_hash bloom
                sc m st0 number coinbase cands pool = Done b ->
    process_block St tx lg exec price resolve val_exists penalize max_expired view apply_rewards
                  v5 threshold coeff ratios freq period_end commit receipt_hash bloom
                  sc' m' st0 (b_header _ _ _ b)
    = Accepted _ _ (b_state _ _ _ b) (b_receipts _ _ _ b).

Definition C06_full : Prop := C06_determinism_full /\ C06_agreement_full.

(* ---------------------------------------------------------------------- *)
(* 1. every inventoried map iteration on the execution path is independent of
      the iteration order (statement per site: Bridge.on_path) *)
Theorem C06_order_free : forall sl, In sl on_path -> sl_stmt sl.
Proof. exact on_path_sites_proved. Qed.
Print Assumptions C06_order_free.

(* 1a. rewardsToPool as a whole: any admissible choice of iteration orders for
       its three loops gives the same subsidy, proposer reward, pools, residue *)
Theorem C06_rewards_order_free :
  forall sc sc' v5 thr coeff ratios counts pb gas res pools proposer,
    sched_valid sc -> sched_valid sc' ->
    rewards_to_pool sc v5 thr coeff ratios counts pb gas res pools proposer =
    rewards_to_pool sc' v5 thr coeff ratios counts pb gas res pools proposer.
Proof. exact rewards_to_pool_sched_free. Qed.
Print Assumptions C06_rewards_order_free.

(* 1b. distributeRewards: same for the loop over rewardsRecord *)
Theorem C06_distribute_order_free :
  forall sc sc' counts onstake pools vals, sched_valid sc -> sched_valid sc' ->
    distribute sc counts onstake pools vals = distribute sc' counts onstake pools vals.
Proof. exact distribute_sched_free. Qed.
Print Assumptions C06_distribute_order_free.

(* 2. bridge: the inventory regenerated from the working tree is exactly the set
      of classified sites (on-path sites with a lemma + off-path sites) *)
Theorem C06_bridge : forall s, In s map_ranges <-> In s classified.
Proof. exact inventory_covered. Qed.
Print Assumptions C06_bridge.

(* 3. evidence processing does not depend on the contents of the signer cache *)
Theorem C06_cache_free :
  forall (St lg : Type) resolve val_exists penalize m m' parent maxe st evs,
    memo_valid resolve m -> memo_valid resolve m' ->
    process_evidences St lg resolve val_exists penalize m parent maxe st evs =
    process_evidences St lg resolve val_exists penalize m' parent maxe st evs.
Proof. exact process_evidences_cache_free. Qed.
Print Assumptions C06_cache_free.

(* 3a. the object cache of the StateDB (staking records): a StateDB carried over
       from previous blocks (side-chain verification executes a whole fork on one
       StateDB) whose cache is coherent with its trie gives, for EVERY sequence of
       record reads, pending-total checks (including the failing errStakesOverflow
       ones), writes, flushes and period resets, the outputs a fresh StateDB opened
       on the same trie gives, and leaves the same trie content behind *)
Theorem C06_object_cache_free :
  forall stake_unit max_stake s ops, sr_coherent s -> sr_dirty s = [] ->
    snd (sr_run (sr_check stake_unit max_stake) s ops) =
    snd (sr_run (sr_check stake_unit max_stake) (sr_fresh (sr_trie s)) ops) /\
    geq (sr_trie (sr_flush (fst (sr_run (sr_check stake_unit max_stake) s ops))))
        (sr_trie (sr_flush (fst (sr_run (sr_check stake_unit max_stake) (sr_fresh (sr_trie s)) ops)))).
Proof. exact object_cache_free. Qed.
Print Assumptions C06_object_cache_free.

(* 3b. the hypothesis of 3a is an invariant: a fresh StateDB is coherent and every
       operation keeps it so (the harness checks the same predicate on the real
       StateDB after every block) *)
Theorem C06_cache_coherence_invariant :
  (forall t, sr_coherent (sr_fresh t)) /\
  (forall stake_unit max_stake ops s, sr_coherent s ->
     sr_coherent (fst (sr_run (sr_check stake_unit max_stake) s ops))).
Proof. exact (conj fresh_coherent coherence_preserved). Qed.
Print Assumptions C06_cache_coherence_invariant.

(* 4. determinism: the result of processing a block is independent of iteration
      orders and cache contents *)
Theorem C06_deterministic : C06_determinism_full.
Proof. exact process_block_deterministic. Qed.
Print Assumptions C06_deterministic.

(* 4a. the builder is deterministic as well *)
Theorem C06_builder_deterministic :
  forall (St tx lg : Type) exec price resolve val_exists penalize max_expired view apply_rewards
         v5 threshold coeff ratios freq period_end commit receipt_hash bloom,
  forall sc sc' m m' st number coinbase cands pool,
    sched_valid sc -> sched_valid sc' -> memo_valid resolve m -> memo_valid resolve m' ->
    build_block St tx lg exec price resolve val_exists penalize max_expired view apply_rewards
                v5 threshold coeff ratios freq period_end commit receipt_hash bloom sc m st number coinbase cands pool =
    build_block St tx lg exec price resolve val_exists penalize max_expired view apply_rewards
                v5 threshold coeff ratios freq period_end commit receipt_hash bloom sc' m' st number coinbase cands pool.
Proof. exact build_block_deterministic. Qed.
Print Assumptions C06_builder_deterministic.

(* 5. agreement: the block built from ANY candidate transactions and ANY
      evidence pool is accepted, with the builder's state and receipts, under any
      admissible iteration orders and cache contents on either side *)
Theorem C06_builder_validator : C06_agreement_full.
Proof. exact builder_validator. Qed.
Print Assumptions C06_builder_validator.

(* 6. the full statement *)
Theorem C06_full_holds : C06_full.
Proof. exact (conj process_block_deterministic builder_validator). Qed.
Print Assumptions C06_full_holds.

(* ---------------------------------------------------------------------- *)
(* 6a. the block gas pool.  The block-level theorems above treat "the
       transaction can be applied" as one oracle on both sides; that is sound only
       if the builder's pool is never fuller than an importer's.  For EVERY
       candidate sequence (any gas limits, any mix of applied transactions and of
       the four ways a candidate fails at build time, 0 <= used <= limit) the
       importer's pool never underflows on what the worker admitted and ends at
       least as full as the worker's; the gas used stays within the block limit *)
Theorem C06_gas_pool_never_underflows :
  forall gas_limit cands, 0 <= gas_limit -> Forall gtx_wf cands ->
    let a := worker_gas_run worker_gas_step (mkGacc gas_limit [] []) cands in
    exists p, importer_gas gas_limit (ga_incl a) = Some p /\ 0 <= ga_pool a <= p.
Proof. exact gas_pool_never_underflows. Qed.
Print Assumptions C06_gas_pool_never_underflows.

Theorem C06_gas_used_within_limit :
  forall gas_limit cands, 0 <= gas_limit -> Forall gtx_wf cands ->
    fold_left (fun s t => s + g_used t)
              (ga_incl (worker_gas_run worker_gas_step (mkGacc gas_limit [] []) cands)) 0 <= gas_limit.
Proof. exact gas_used_within_limit. Qed.
Print Assumptions C06_gas_used_within_limit.

(* ---------------------------------------------------------------------- *)
(* 6b. the block context.  With the context a transaction can read (number,
       coinbase, time, gas limit, BLOCKHASH) an explicit input: the result of
       processing a block is a function of the parent state, the block and the
       block's OWN ancestry within the reach of BLOCKHASH.  It does not depend on
       iteration orders, the signer cache, nor on the contents of the ancestor-hash
       cache as long as that cache agrees with the own ancestry - so not on which
       other blocks (e.g. a sibling with the same number) the process executed
       before.  `exec_reads_hashes_pointwise`: the EVM only applies GetHash. *)
Theorem C06_execution_depends_only_on_own_ancestry :
  forall (St tx lg : Type) exec_c price resolve val_exists penalize max_expired view apply_rewards
         v5 threshold coeff ratios freq period_end commit receipt_hash bloom time_of gas_limit_of,
    exec_reads_hashes_pointwise St tx lg exec_c ->
  forall sc sc' m m' anc anc' hm hm' st h,
    sched_valid sc -> sched_valid sc' -> memo_valid resolve m -> memo_valid resolve m' ->
    hash_memo_ok anc hm -> hash_memo_ok anc' hm' ->
    (forall n, (n < h_number h)%N -> (h_number h <= n + 256)%N -> anc n = anc' n) ->
    process_block_ctx St tx lg exec_c price resolve val_exists penalize max_expired view apply_rewards
                      v5 threshold coeff ratios freq period_end commit receipt_hash bloom time_of gas_limit_of
                      sc m anc hm st h =
    process_block_ctx St tx lg exec_c price resolve val_exists penalize max_expired view apply_rewards
                      v5 threshold coeff ratios freq period_end commit receipt_hash bloom time_of gas_limit_of
                      sc' m' anc' hm' st h.
Proof. exact execution_depends_only_on_own_ancestry. Qed.
Print Assumptions C06_execution_depends_only_on_own_ancestry.

(* ---------------------------------------------------------------------- *)
(* 7. forks.  A branch of any length built block after block by the builder
      (every block on the state its parent left; the builder's own blocks are in
      its transaction lookup) and imported by another node
      - block after block with insertChain (ordinary import of the branch, and
        the re-import that follows a side-chain verification): grow = true;
      - by verifyAllSideChainBlocks (blocks stored without state, lookup index
        unchanged): grow = false.
      The executing node's database enters through the lookup index handed to
      the period-end hook; `period_end_framed` says the hook reads it at the
      pending hashes of the staking records only. *)

(* full statement for the side-chain verification: a node that shares the
   builder's lookup at the fork point accepts every built branch *)
Definition C06_fork_side_chain_full : Prop :=
  forall (St tx lg : Type) exec price resolve val_exists penalize max_expired view apply_rewards
         v5 threshold coeff ratios freq commit receipt_hash bloom tx_hash pending period_end_r,
    period_end_framed St tx lg pending period_end_r ->
  forall sc sc' m m' ins ix st number bs,
    sched_valid sc -> sched_valid sc' -> memo_valid resolve m -> memo_valid resolve m' ->
    build_fork St tx lg exec price resolve val_exists penalize max_expired view apply_rewards
               v5 threshold coeff ratios freq commit receipt_hash bloom tx_hash period_end_r
               ix sc m st number ins = Done bs ->
    import_chain St tx lg exec price resolve val_exists penalize max_expired view apply_rewards
                 v5 threshold coeff ratios freq commit receipt_hash bloom tx_hash period_end_r
                 false ix sc' m' st (fork_headers St tx lg bs) = Some (fork_results St tx lg bs).

(* 7a. outside the open finding (fork_ok: at every period-end block of the branch
       the importing node's index and the builder's resolve the pending hashes
       alike) every block of the branch is accepted with the builder's state and
       receipts, in either import mode, from any index of the importing node *)
Theorem C06_fork_import_holds_outside :
  forall (St tx lg : Type) exec price resolve val_exists penalize max_expired view apply_rewards
         v5 threshold coeff ratios freq commit receipt_hash bloom tx_hash pending period_end_r,
    period_end_framed St tx lg pending period_end_r ->
  forall grow sc sc' m m' ins ix ixn st number bs,
    sched_valid sc -> sched_valid sc' -> memo_valid resolve m -> memo_valid resolve m' ->
    build_fork St tx lg exec price resolve val_exists penalize max_expired view apply_rewards
               v5 threshold coeff ratios freq commit receipt_hash bloom tx_hash period_end_r
               ix sc m st number ins = Done bs ->
    fork_ok St tx lg exec price resolve val_exists penalize max_expired view apply_rewards
            v5 threshold coeff ratios freq tx_hash pending grow ixn ix sc' m' st bs ->
    import_chain St tx lg exec price resolve val_exists penalize max_expired view apply_rewards
                 v5 threshold coeff ratios freq commit receipt_hash bloom tx_hash period_end_r
                 grow ixn sc' m' st (fork_headers St tx lg bs) = Some (fork_results St tx lg bs).
Proof. exact fork_import. Qed.
Print Assumptions C06_fork_import_holds_outside.

(* 7b. the insertChain import of a whole branch (canonical directly, or the
       re-import after the verification) is unconditional when the lookups agree
       at the fork point *)
Theorem C06_fork_canonical_import :
  forall (St tx lg : Type) exec price resolve val_exists penalize max_expired view apply_rewards
         v5 threshold coeff ratios freq commit receipt_hash bloom tx_hash pending period_end_r,
    period_end_framed St tx lg pending period_end_r ->
  forall sc sc' m m' ins ix ixn st number bs,
    sched_valid sc -> sched_valid sc' -> memo_valid resolve m -> memo_valid resolve m' ->
    (forall x, ixn x = ix x) ->
    build_fork St tx lg exec price resolve val_exists penalize max_expired view apply_rewards
               v5 threshold coeff ratios freq commit receipt_hash bloom tx_hash period_end_r
               ix sc m st number ins = Done bs ->
    import_chain St tx lg exec price resolve val_exists penalize max_expired view apply_rewards
                 v5 threshold coeff ratios freq commit receipt_hash bloom tx_hash period_end_r
                 true ixn sc' m' st (fork_headers St tx lg bs) = Some (fork_results St tx lg bs).
Proof. exact fork_canonical_import. Qed.
Print Assumptions C06_fork_canonical_import.

(* 7c. the open finding: the side-chain verification refuses a branch whose
       period-end block needs a staking transaction of an earlier block of the same
       branch (witness ProofsE.ForkWitness; on the real code corpus/C06/w4) *)
Lemma fork_side_chain_refuted : ~ C06_fork_side_chain_full.
Proof.
  intro H. destruct ForkWitness.branch_side_chain_refused as (bs & Hb & Hr).
  assert (Hm : memo_valid ForkWitness.resolve (fun _ => None)) by (intros e a E; discriminate).
  unfold ForkWitness.build in Hb. unfold ForkWitness.import in Hr.
  rewrite (H _ _ _ _ _ _ _ _ _ _ _ _ _ _ _ _ _ _ _ _ _ _ ForkWitness.framed
             id_sched rev_sched (fun _ => None) (fun _ => None) _ _ _ _ bs
             id_sched_valid rev_sched_valid Hm Hm Hb) in Hr.
  discriminate.
Qed.
Theorem C06_fork_side_chain_refuted : ~ C06_fork_side_chain_full.
Proof. exact fork_side_chain_refuted. Qed.
Print Assumptions C06_fork_side_chain_refuted.

(* ---------------------------------------------------------------------- *)
(* non-vacuity *)

(* a reward computation with three online roles where both schedules are
   admissible and the proposer, the house pool and the residue all receive
   something *)
Example C06_nonvacuous_rewards :
  sched_valid id_sched /\ sched_valid rev_sched /\
  rewards_to_pool rev_sched true 9000 5 (mkPR 3 3 4) (mkPR 1 2 5) 100000 17 2 (mkPR 0 0 7) (Some Senator)
  = Done (mkRtp 4490 2700 (mkPR 0 0 1807) 9 true) /\
  distribute rev_sched (mkPR 1 0 2) (mkPR 20 0 11) (mkPR 103 0 1807)
             [mkDval Chancellor true 20; mkDval House false 5; mkDval House true 5; mkDval House true 6]
  = Done ([100; 0; 903; 903], mkPR 3 0 1).
Proof. split; [exact id_sched_valid|]. split; [exact rev_sched_valid|]. split; vm_compute; reflexivity. Qed.
Print Assumptions C06_nonvacuous_rewards.

(* the regenerated inventory is not empty and contains the reward loops *)
Example C06_nonvacuous_bridge :
  In "range|staking/endblock.go|rewardsToPool|roleRewards#2"%string map_ranges /\
  (17 <= length on_path)%nat /\ (30 <= length map_ranges)%nat.
Proof. split; [apply inventory_covered; vm_compute; tauto|]. split; vm_compute; repeat constructor. Qed.
Print Assumptions C06_nonvacuous_bridge.

(* a block with two included transactions (one candidate skipped), one
   confirmed evidence, one pending evidence, one duplicate and one same-hash
   evidence, built with one schedule and an empty cache, processed with the
   reversed schedule and a filled (valid) cache: accepted with the builder's
   state and receipts; and the former zero-amount class: confirmed and accepted *)
Example C06_nonvacuous_agreement :
  memo_valid Witness.resolve Witness.memo0 /\
  (exists b, Witness.build Witness.penalize1 = Done b /\
            length (h_txs (b_header _ _ _ b)) = 2%nat /\ h_slash (b_header _ _ _ b) = [Witness.ev] /\
            b_pool _ _ _ b = [Witness.ev_future] /\ b_state _ _ _ b = true /\
            Witness.process Witness.penalize1 rev_sched Witness.memo0 (b_header _ _ _ b)
            = Accepted _ _ (b_state _ _ _ b) (b_receipts _ _ _ b)) /\
  (exists b, Witness.build Witness.penalize0 = Done b /\ h_slash (b_header _ _ _ b) = [Witness.ev] /\
            b_state _ _ _ b = true /\
            Witness.process Witness.penalize0 id_sched (fun _ => None) (b_header _ _ _ b)
            = Accepted _ _ (b_state _ _ _ b) (b_receipts _ _ _ b)).
Proof.
  split; [exact Witness.memo0_valid|].
  split; [exact Witness.positive_penalty_block_accepted | exact Witness.zero_penalty_block_accepted].
Qed.
Print Assumptions C06_nonvacuous_agreement.

(* the object-cache theorem is about something: with the code as it is a carried
   and a fresh StateDB agree on a failed over-maximum delegation followed by a
   small one; with the live value handed out (the seeded variant) the carried
   StateDB refuses what the fresh one accepts and its cache is incoherent *)
Example C06_nonvacuous_object_cache :
  (let carried := fst (sr_run (sr_check AliasWitness.yu 100) (sr_fresh AliasWitness.trie0) AliasWitness.block1) in
   snd (sr_run (sr_check AliasWitness.yu 100) carried AliasWitness.block2) = [1] /\
   snd (sr_run (sr_check AliasWitness.yu 100) (sr_fresh (sr_trie carried)) AliasWitness.block2) = [1]) /\
  (let carried := fst (sr_run (sr_check_alias AliasWitness.yu 100) (sr_fresh AliasWitness.trie0) AliasWitness.block1) in
   snd (sr_run (sr_check_alias AliasWitness.yu 100) carried AliasWitness.block2) = [0] /\
   snd (sr_run (sr_check_alias AliasWitness.yu 100) (sr_fresh (sr_trie carried)) AliasWitness.block2) = [1] /\
   sr_cache carried 7%N = Some (223 * AliasWitness.yu) /\ sr_trie carried 7%N = Some (23 * AliasWitness.yu) /\
   sr_dirty carried = []).
Proof. exact (conj AliasWitness.sound_variant_agrees AliasWitness.alias_variant_depends_on_cache). Qed.
Print Assumptions C06_nonvacuous_object_cache.

(* a branch of two blocks from block 2 with a staking transaction and a confirmed
   evidence in its first block, a second transaction and evidence at the period end:
   built, accepted by the insertChain import with the builder's states; the same
   transactions placed in the period-end block: accepted by the side-chain
   verification as well *)
Example C06_nonvacuous_fork :
  period_end_framed ForkWitness.St ForkWitness.tx unit ForkWitness.pending ForkWitness.period_end_r /\
  (exists bs, ForkWitness.build ForkWitness.branch = Done bs /\ length bs = 2%nat /\
              map (fun b => length (h_slash (b_header _ _ _ b))) bs = [1%nat; 1%nat] /\
              ForkWitness.import true ForkWitness.ix0 (fork_headers _ _ _ bs) = Some (fork_results _ _ _ bs) /\
              map (fun b => snd (b_state _ _ _ b)) bs = [1000%N; 2002%N]) /\
  (exists bs, ForkWitness.build ForkWitness.branch_late = Done bs /\
              ForkWitness.import false ForkWitness.ix0 (fork_headers _ _ _ bs) = Some (fork_results _ _ _ bs) /\
              map (fun b => snd (b_state _ _ _ b)) bs = [1000%N; 2002%N]).
Proof.
  split; [exact ForkWitness.framed|].
  split; [exact ForkWitness.branch_canonical_accepted | exact ForkWitness.branch_late_side_chain_accepted].
Qed.
Print Assumptions C06_nonvacuous_fork.

(* a nearly full block: the drained sender's second transaction is refused inside
   buyGas, the call whose gas limit exceeds the real remainder is refused by the
   pool, the importer ends with the worker's pool; with the gas limit "given back"
   on failure (the seeded variant) the call is admitted and the importer stops with
   "gas limit reached" *)
Example C06_nonvacuous_gas_pool :
  Forall gtx_wf GasWitness.cands /\
  (let a := worker_gas_run worker_gas_step (mkGacc 1500000 [] []) GasWitness.cands in
   ga_refused a = [false; false; true; false] /\ length (ga_incl a) = 2%nat /\ ga_pool a = 1454000 /\
   importer_gas 1500000 (ga_incl a) = Some 1454000) /\
  (let a := worker_gas_run worker_gas_step_refunding (mkGacc 1500000 [] []) GasWitness.cands in
   ga_refused a = [false; false; false; false] /\ length (ga_incl a) = 3%nat /\
   importer_gas 1500000 (ga_incl a) = None).
Proof. exact (conj GasWitness.wf (conj GasWitness.sound_worker GasWitness.refunding_worker_block_rejected)). Qed.
Print Assumptions C06_nonvacuous_gas_pool.

(* block 7 of chain B (its transaction stores BLOCKHASH(6)) is accepted with an
   empty ancestor cache and refused when the cache still holds the hash of block 6
   of the sibling chain A (the seeded process-wide cache keyed by number); that
   cache is not a cache of B's own ancestry *)
Example C06_nonvacuous_block_ctx :
  (exists recs, CtxWitness.run (fun _ => None) = Accepted _ _ 9999%N recs) /\
  CtxWitness.run CtxWitness.stale = Rejected _ _ /\
  ~ hash_memo_ok CtxWitness.anc_b CtxWitness.stale /\ hash_memo_ok CtxWitness.anc_b (fun _ => None).
Proof.
  split; [exact CtxWitness.clean_accepts|]. split; [exact CtxWitness.stale_cache_rejects|].
  split; [exact CtxWitness.stale_is_not_own|]. intros n v H. discriminate.
Qed.
Print Assumptions C06_nonvacuous_block_ctx.
