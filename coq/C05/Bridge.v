(* C05 - facts about the constants regenerated from the working tree
   (coq/gen/C05Params.v, written by `c05 params` on every run). *)
From Coq Require Import ZArith NArith List Bool.
From VF.gen Require Export C05Params.
From VF.C05 Require Import Model.
Import ListNotations.

Definition listN_eqb (a b : list N) : bool := list_eqb N.eqb a b.

Definition params_ok : bool :=
  Z.ltb 0 real_stake_unit && N.ltb 0 real_rate_base && forallb (fun f => N.leb f 100) real_fractions.

Lemma params_ok_true : params_ok = true.
Proof. vm_compute. reflexivity. Qed.

Lemma real_params_ok :
  (0 < real_stake_unit)%Z /\ (0 < real_rate_base)%N /\
  forall f, In f real_fractions -> (f <= 100)%N.
Proof.
  pose proof params_ok_true as H. unfold params_ok in H.
  apply andb_prop in H as [H H3]. apply andb_prop in H as [H1 H2].
  apply Z.ltb_lt in H1. apply N.ltb_lt in H2.
  split; [assumption|split; [assumption|]].
  intros f Hin. rewrite forallb_forall in H3. apply N.leb_le. auto.
Qed.

(* the vote kinds are numbered alike by the consensus package (voters, detector)
   and by the staking package (evidence check), and as the model numbers them *)
Lemma real_kinds_agree :
  real_kinds_ucon = real_kinds_staking /\
  real_kinds_staking = [2%N; 3%N; 4%N; vote_certificate].
Proof. split; vm_compute; reflexivity. Qed.

(* the working tree contains both repairs: it is the setting [fx_now] of the main theorems *)
Lemma real_tree_is_repaired : mkFix real_fx_distinct real_fx_zero = fx_now.
Proof. vm_compute. reflexivity. Qed.
