(* C05 - the penalty arithmetic: takePenalty / doPenalize never take more than
   the amount asked for, take only from the validator's own sources, never
   drive a source negative, and account for every unit taken. *)
From Coq Require Import Lia ZArith NArith List Bool.
From Coq Require Import ZifyBool ZifyN ZifyNat.
From VF.C05 Require Import Model.
Local Open Scope Z_scope.

Definition max0 (z : Z) : Z := Z.max 0 z.

Fixpoint msum (m : list (addr * Z)) : Z :=
  match m with [] => 0 | (_, v) :: r => max0 v + msum r end.

Definition getd (m : list (addr * Z)) (k : addr) : Z :=
  match map_get m k with Some v => v | None => 0 end.

Fixpoint ksum (m : list (addr * Z)) (ks : list addr) : Z :=
  match ks with [] => 0 | k :: r => max0 (getd m k) + ksum m r end.

Definition qsum (q : list wrec) : Z := fold_right (fun r a => w_final r + a) 0 q.
Definition dsum (ds : list dlg) : Z := fold_right (fun d a => d_token d + a) 0 ds.
Definition ssum (ds : list dlg) : Z := fold_right (fun d a => d_stake d + a) 0 ds.

Lemma max0_nonneg z : 0 <= max0 z.
Proof. unfold max0. lia. Qed.

Lemma msum_nonneg m : 0 <= msum m.
Proof. induction m as [|[k v] r IH]; simpl; [lia|]. pose proof (max0_nonneg v). lia. Qed.

Lemma ksum_nonneg m ks : 0 <= ksum m ks.
Proof. induction ks as [|k r IH]; simpl; [lia|]. pose proof (max0_nonneg (getd m k)). lia. Qed.

Lemma msum_set m k v old :
  map_get m k = Some old -> msum (map_set m k v) = msum m - max0 old + max0 v.
Proof.
  induction m as [|[k' v'] r IH]; simpl; intros Hg; [discriminate|].
  destruct (N.eqb k' k) eqn:E.
  - injection Hg as <-. simpl. lia.
  - simpl. rewrite (IH Hg). lia.
Qed.

Lemma msum_set_le m k v : msum (map_set m k v) <= msum m + max0 v.
Proof.
  induction m as [|[k' v'] r IH]; simpl.
  - lia.
  - destruct (N.eqb k' k) eqn:E; simpl.
    + pose proof (max0_nonneg v'). lia.
    + lia.
Qed.

Lemma ksum_app m a b : ksum m (a ++ b) = ksum m a + ksum m b.
Proof. induction a as [|k r IH]; simpl; [reflexivity|]. rewrite IH. lia. Qed.

Lemma ksum_cons_notin k0 v0 r ks :
  ~ In k0 ks -> ksum ((k0, v0) :: r) ks = ksum r ks.
Proof.
  induction ks as [|k ks IH]; simpl; intros Hn; [reflexivity|].
  rewrite IH by tauto. unfold getd. simpl.
  destruct (N.eqb k0 k) eqn:E.
  - apply N.eqb_eq in E. subst. tauto.
  - reflexivity.
Qed.

Lemma ksum_nil ks : ksum [] ks = 0.
Proof. induction ks as [|k r IH]; simpl; [reflexivity|]. rewrite IH. reflexivity. Qed.

Lemma ksum_le_msum m : forall ks, NoDup ks -> ksum m ks <= msum m.
Proof.
  induction m as [|[k0 v0] r IH]; intros ks Hnd.
  - rewrite ksum_nil. simpl. lia.
  - destruct (in_dec N.eq_dec k0 ks) as [Hin|Hn].
    + apply in_split in Hin as (l1 & l2 & ->).
      pose proof (NoDup_remove_1 _ _ _ Hnd) as Hnd'.
      pose proof (NoDup_remove_2 _ _ _ Hnd) as Hni.
      rewrite ksum_app. simpl ksum.
      rewrite !ksum_cons_notin by (intro; apply Hni; apply in_or_app; tauto).
      unfold getd at 1. simpl. rewrite N.eqb_refl.
      specialize (IH _ Hnd'). rewrite ksum_app in IH. simpl. lia.
    + rewrite ksum_cons_notin by assumption. specialize (IH _ Hnd). simpl.
      pose proof (max0_nonneg v0). lia.
Qed.

(* ---- the loop over the withdraw queue -------------------------------------- *)
Definition potential (s : tp) : Z := max0 (t_self s) + msum (t_dmap s).

(* relation between a queue record before and after *)
Definition wrel (va : addr) (r r' : wrec) : Prop :=
  w_delegator r' = w_delegator r /\ w_validator r' = w_validator r /\ w_finished r' = w_finished r /\
  w_final r' <= w_final r /\ (0 <= w_final r -> 0 <= w_final r') /\
  ((w_validator r <> va \/ w_finished r <> 0%N) -> r' = r).

Lemma wrel_refl va r : wrel va r r.
Proof. unfold wrel. repeat split; auto; lia. Qed.

Lemma withdraw_step_inv va pos r s r' s' lg :
  withdraw_step va pos r s = (r', s', lg) ->
  wrel va r r' /\
  t_tot s' = t_tot s + (w_final r - w_final r') /\
  t_pa s' = t_pa s - (w_final r - w_final r') /\
  potential s' = potential s - (w_final r - w_final r').
Proof.
  unfold withdraw_step, potential.
  destruct (negb (N.eqb (w_validator r) va) || negb (N.eqb (w_finished r) 0%N)) eqn:Eg.
  { intros H; injection H as <- <- <-. split; [apply wrel_refl|lia]. }
  apply orb_false_elim in Eg as [Ev Ef].
  apply negb_false_iff in Ev, Ef. apply N.eqb_eq in Ev, Ef.
  destruct (N.eqb (w_delegator r) 0%N) eqn:Eo.
  - (* own withdrawal *)
    destruct (Z.leb (t_self s) 0) eqn:E1.
    { intros H; injection H as <- <- <-. split; [apply wrel_refl|lia]. }
    destruct (Z.ltb 0 (set_actual (w_final r) (t_self s))) eqn:E2; intros H; injection H as <- <- <-.
    + unfold set_actual in *. destruct (Z.leb (t_self s) (w_final r)) eqn:E3; simpl;
        (split; [unfold wrel; simpl; repeat split; try lia; intros [?|?]; congruence|]); unfold max0; lia.
    + simpl. split; [apply wrel_refl|lia].
  - destruct (map_get (t_dmap s) (w_delegator r)) as [ra|] eqn:Eg.
    2:{ intros H; injection H as <- <- <-. split; [apply wrel_refl|lia]. }
    destruct (Z.leb ra 0) eqn:E1.
    { intros H; injection H as <- <- <-. split; [apply wrel_refl|lia]. }
    destruct (Z.ltb 0 (set_actual (w_final r) ra)) eqn:E2; intros H; injection H as <- <- <-.
    + simpl. rewrite (msum_set _ _ _ _ Eg).
      unfold set_actual in *. destruct (Z.leb ra (w_final r)) eqn:E3; simpl;
        (split; [unfold wrel; simpl; repeat split; try lia; intros [?|?]; congruence|]); unfold max0; lia.
    + simpl. split; [apply wrel_refl|lia].
Qed.

Lemma withdraw_loop_inv va : forall q pos s q' s' l,
  withdraw_loop va pos q s = (q', s', l) ->
  Forall2 (wrel va) q q' /\
  0 <= qsum q - qsum q' /\
  t_tot s' = t_tot s + (qsum q - qsum q') /\
  t_pa s' = t_pa s - (qsum q - qsum q') /\
  potential s' = potential s - (qsum q - qsum q').
Proof.
  induction q as [|r rest IH]; intros pos s q' s' l H; simpl in H.
  - injection H as <- <- <-. simpl. split; [constructor|lia].
  - destruct (Z.leb (t_pa s) 0) eqn:Ep.
    + injection H as <- <- <-. split.
      * clear. induction (r :: rest); constructor; auto using wrel_refl.
      * lia.
    + destruct (withdraw_step va pos r s) as [[r1 s1] lg] eqn:Es.
      destruct (withdraw_loop va (pos + 1)%N rest s1) as [[q1 s2] l1] eqn:El.
      injection H as <- <- <-.
      apply withdraw_step_inv in Es as (Hr & Ht & Hp & Hpot).
      apply IH in El as (Hf & Hq & Ht2 & Hp2 & Hpot2).
      split; [constructor; assumption|].
      assert (Hle : w_final r1 <= w_final r) by (destruct Hr as (_ & _ & _ & ? & _); assumption).
      simpl. lia.
Qed.

(* ---- the loop over the delegations ------------------------------------------- *)
Definition otoken (o : option dlg) : Z := match o with Some d => d_token d | None => 0 end.

Lemma dlg_step_inv unit dmap d s od s' lg :
  dlg_step unit dmap d s = (od, s', lg) ->
  let f := d_token d - otoken od in
  0 <= f /\ f <= max0 (getd dmap (d_from d)) /\
  p_tot s' = p_tot s + f /\ p_pa s' = p_pa s - f /\ p_token s' = p_token s - f /\
  (0 <= d_token d -> 0 <= otoken od) /\
  match od with Some d' => d_from d' = d_from d | None => True end.
Proof.
  unfold dlg_step, getd. destruct (map_get dmap (d_from d)) as [ra|] eqn:Eg.
  2:{ intros H; injection H as <- <- <-. simpl. pose proof (max0_nonneg 0). repeat split; lia. }
  destruct (Z.leb ra 0) eqn:E1.
  { intros H; injection H as <- <- <-. simpl. pose proof (max0_nonneg ra). repeat split; lia. }
  destruct (Z.ltb 0 (set_actual (d_token d) ra)) eqn:E2.
  - unfold set_actual in *.
    destruct (Z.eqb ((d_token d - (if Z.leb ra (d_token d) then ra else d_token d)) / unit) 0
              && Z.eqb (d_token d - (if Z.leb ra (d_token d) then ra else d_token d)) 0) eqn:E3;
      intros H; injection H as <- <- <-; simpl; unfold max0;
      destruct (Z.leb ra (d_token d)) eqn:E4; repeat split; try lia.
  - intros H; injection H as <- <- <-. simpl. pose proof (max0_nonneg ra). repeat split; lia.
Qed.

Lemma dsum_opt_cons o l : dsum (opt_cons o l) = otoken o + dsum l.
Proof. destruct o; simpl; lia. Qed.

Lemma dlg_loop_inv unit dmap : forall ds s ds' s' l,
  dlg_loop unit dmap ds s = (ds', s', l) ->
  let f := dsum ds - dsum ds' in
  0 <= f /\ f <= ksum dmap (map d_from ds) /\
  p_tot s' = p_tot s + f /\ p_pa s' = p_pa s - f /\ p_token s' = p_token s - f /\
  ((forall d, In d ds -> 0 <= d_token d) -> forall d, In d ds' -> 0 <= d_token d) /\
  (forall d', In d' ds' -> In (d_from d') (map d_from ds)).
Proof.
  induction ds as [|d rest IH]; intros s ds' s' l H; simpl in H.
  - injection H as <- <- <-. simpl. repeat split; try lia; auto.
  - destruct (Z.leb (p_pa s) 0) eqn:Ep.
    + injection H as <- <- <-. simpl.
      pose proof (ksum_nonneg dmap (map d_from rest)). pose proof (max0_nonneg (getd dmap (d_from d))).
      repeat split; try lia; auto.
      intros d' [<-|Hin]; [left; reflexivity|right; apply in_map; assumption].
    + destruct (dlg_step unit dmap d s) as [[od s1] lg] eqn:Es.
      destruct (dlg_loop unit dmap rest s1) as [[ds1 s2] l1] eqn:El.
      injection H as <- <- <-.
      apply dlg_step_inv in Es as (H0 & H1 & H2 & H3 & H4 & H5 & H6).
      apply IH in El as (I0 & I1 & I2 & I3 & I4 & I5 & I6).
      rewrite dsum_opt_cons. simpl. repeat split; try lia.
      * intros Hall d' Hin. destruct od as [d0|]; simpl in Hin.
        -- destruct Hin as [<-|Hin].
           ++ simpl in H5. apply H5. apply Hall. left; reflexivity.
           ++ apply I5; [intros; apply Hall; right; assumption|assumption].
        -- apply I5; [intros; apply Hall; right; assumption|assumption].
      * intros d' Hin. destruct od as [d0|]; simpl in Hin.
        -- destruct Hin as [<-|Hin]; [left; symmetry; assumption|right; apply I6; assumption].
        -- right; apply I6; assumption.
Qed.

(* ---- the initial shares --------------------------------------------------------- *)
Lemma msum_fold_le per : forall ds m,
  msum (fold_left (fun m d => map_set m (d_from d) (per * d_stake d)) ds m)
  <= msum m + fold_right (fun d a => max0 (per * d_stake d) + a) 0 ds.
Proof.
  induction ds as [|d r IH]; intros m; simpl; [lia|].
  specialize (IH (map_set m (d_from d) (per * d_stake d))).
  pose proof (msum_set_le m (d_from d) (per * d_stake d)). lia.
Qed.

Lemma shares_nonneg per ds :
  0 <= per -> (forall d, In d ds -> 0 <= d_stake d) ->
  fold_right (fun d a => max0 (per * d_stake d) + a) 0 ds = per * ssum ds.
Proof.
  intros Hp. induction ds as [|d r IH]; intros Hall; simpl; [lia|].
  rewrite IH by (intros; apply Hall; right; assumption).
  assert (0 <= d_stake d) by (apply Hall; left; reflexivity).
  unfold max0. nia.
Qed.

(* ---- well-formed ledger entry (the part of the C08 invariant used here) ------ *)
Definition wf_val (v : validator) : Prop :=
  0 < v_stake v /\ 0 <= v_self_stake v /\
  (forall d, In d (v_dlgs v) -> 0 <= d_stake d) /\
  NoDup (map d_from (v_dlgs v)) /\
  v_self_stake v + ssum (v_dlgs v) <= v_stake v.

Lemma obligation_bounds amount risk base :
  0 <= amount -> (0 < risk)%N -> (risk <= base)%N ->
  0 <= amount * Z.of_N risk / Z.of_N base <= amount.
Proof.
  intros Ha Hr Hb. split.
  - apply Z.div_pos; nia.
  - apply Z.div_le_upper_bound; nia.
Qed.

(* ---- takePenalty ---------------------------------------------------------------- *)
Record penalty_facts (q : list wrec) (val : validator) (amount : Z) (po : penalty_out) : Prop := {
  pf_total_nonneg : 0 <= po_total po;
  pf_total_bound : po_total po <= amount;
  pf_accounting : po_total po = (v_token val - v_token (po_val po)) + (qsum q - qsum (po_queue po));
  pf_queue : Forall2 (wrel (v_addr val)) q (po_queue po);
  pf_queue_le : qsum (po_queue po) <= qsum q;
  pf_addr : v_addr (po_val po) = v_addr val;
  pf_token_le : v_token (po_val po) <= v_token val;
  pf_self_le : v_self_token (po_val po) <= v_self_token val;
  pf_self_nonneg : 0 <= v_self_token val -> 0 <= v_self_token (po_val po);
  pf_dlgs_nonneg : (forall d, In d (v_dlgs val) -> 0 <= d_token d) ->
                   forall d, In d (v_dlgs (po_val po)) -> 0 <= d_token d;
  pf_dlgs_keys : forall d, In d (v_dlgs (po_val po)) -> In (d_from d) (map d_from (v_dlgs val));
  pf_dlgs_sum : dsum (v_dlgs (po_val po)) <= dsum (v_dlgs val)
}.

Lemma forall2_wrel_refl va q : Forall2 (wrel va) q q.
Proof. induction q; constructor; auto using wrel_refl. Qed.

Theorem take_penalty_facts cfg q val amount po :
  wf_val val -> 0 < amount ->
  take_penalty cfg q val amount = Some po ->
  penalty_facts q val amount po.
Proof.
  intros (Hst & Hss & Hds & Hnd & Hsum) Ha.
  unfold take_penalty.
  set (obligation := if N.ltb 0 (v_risk val) && N.leb (v_risk val) (c_rate_base cfg)
                     then amount * Z.of_N (v_risk val) / Z.of_N (c_rate_base cfg) else 0).
  assert (Hob : 0 <= obligation <= amount).
  { unfold obligation. destruct (N.ltb 0 (v_risk val) && N.leb (v_risk val) (c_rate_base cfg)) eqn:E; [|lia].
    apply andb_prop in E as [E1 E2]. apply N.ltb_lt in E1. apply N.leb_le in E2.
    apply obligation_bounds; lia. }
  set (curr := amount - obligation).
  destruct (Z.eqb (v_stake val) 0) eqn:E0; [discriminate|].
  set (per := Z.quot curr (v_stake val)).
  set (rem := Z.rem curr (v_stake val)).
  assert (Hcurr : 0 <= curr) by (unfold curr; lia).
  assert (Hper : 0 <= per) by (apply Z.quot_pos; lia).
  assert (Hrem : 0 <= rem) by (apply Z.rem_nonneg; lia).
  assert (Hqr : curr = v_stake val * per + rem) by (apply Z.quot_rem'; lia).
  set (selfp := per * v_self_stake val + rem + obligation).
  set (dmap := fold_left (fun m d => map_set m (d_from d) (per * d_stake d)) (v_dlgs val) []).
  assert (HP0 : potential (mkTp amount 0 selfp dmap 0) <= amount).
  { unfold potential. simpl.
    pose proof (msum_fold_le per (v_dlgs val) []) as Hm. simpl in Hm. fold dmap in Hm.
    rewrite (shares_nonneg per _ Hper Hds) in Hm.
    assert (0 <= selfp) by (unfold selfp; nia).
    unfold max0. nia. }
  destruct (withdraw_loop (v_addr val) 0%N q (mkTp amount 0 selfp dmap 0)) as [[q' s] wl] eqn:Ew.
  apply withdraw_loop_inv in Ew as (Hq & Hqn & Htot & Hpa & Hpot). simpl in Htot, Hpa.
  pose proof (msum_nonneg (t_dmap s)) as Hmn.
  pose proof (max0_nonneg (t_self s)) as Hsn.
  unfold potential at 1 in Hpot.
  destruct (Z.ltb 0 (t_pa s)) eqn:Epa.
  2:{ intros H; injection H as <-. constructor; simpl; try lia; auto.
      - intros d Hin. apply in_map. assumption. }
  set (f0 := set_actual (v_self_token val) (t_self s)).
  set (take_self := Z.ltb 0 (t_self s) && Z.ltb 0 f0).
  match goal with |- context [dlg_loop ?u ?m ?ds ?s0] => destruct (dlg_loop u m ds s0) as [[ds' s1] pl] eqn:Ed end.
  apply dlg_loop_inv in Ed as (D0 & D1 & D2 & D3 & D4 & D5 & D6).
  pose proof (ksum_le_msum (t_dmap s) _ Hnd) as Hk.
  intros H; injection H as <-.
  destruct take_self eqn:Ets; simpl in *.
  - apply andb_prop in Ets as [T1 T2].
    assert (Hf0 : 0 < f0 <= t_self s).
    { unfold f0, set_actual in *. destruct (Z.leb (t_self s) (v_self_token val)) eqn:E; lia. }
    assert (Hf0' : f0 <= v_self_token val).
    { unfold f0, set_actual. destruct (Z.leb (t_self s) (v_self_token val)) eqn:E; lia. }
    unfold max0 in *. constructor; simpl; try lia; auto.
  - constructor; simpl; try lia; auto.
Qed.

(* ---- doPenalize ----------------------------------------------------------------------- *)
Lemma find_val_addr l a v : find_val l a = Some v -> v_addr v = a.
Proof.
  induction l as [|x r IH]; simpl; [discriminate|].
  destruct (N.eqb (v_addr x) a) eqn:E; [|auto].
  intros H; injection H as <-. apply N.eqb_eq. assumption.
Qed.

Lemma find_replace_same l nv old :
  find_val l (v_addr nv) = Some old -> find_val (replace_val l nv) (v_addr nv) = Some nv.
Proof.
  induction l as [|x r IH]; simpl; [discriminate|].
  destruct (N.eqb (v_addr x) (v_addr nv)) eqn:E; simpl.
  - rewrite N.eqb_refl. reflexivity.
  - rewrite E. auto.
Qed.

Lemma find_replace_other l nv a :
  a <> v_addr nv -> find_val (replace_val l nv) a = find_val l a.
Proof.
  intros Hne. induction l as [|x r IH]; simpl; [reflexivity|].
  destruct (N.eqb (v_addr x) (v_addr nv)) eqn:E; simpl.
  - apply N.eqb_eq in E. destruct (N.eqb (v_addr nv) a) eqn:E2.
    + apply N.eqb_eq in E2. congruence.
    + destruct (N.eqb (v_addr x) a) eqn:E3; [apply N.eqb_eq in E3; congruence|reflexivity].
  - destruct (N.eqb (v_addr x) a); auto.
Qed.

(* what doPenalize does to the ledger, for any amount *)
Record penalize_facts (cfg : config) (hnum : N) (st : state) (val : validator) (amount : Z)
       (st' : state) (po : penalty_out) : Prop := {
  zf_addr : v_addr (po_val po) = v_addr val;
  zf_status : v_status (po_val po) = 0%N;
  zf_expelled : v_expelled (po_val po) = true;
  zf_expire : (hnum + c_expel cfg <= v_expire (po_val po))%N /\ (v_expire val <= v_expire (po_val po))%N;
  zf_vals : s_vals st' = replace_val (s_vals st) (po_val po);
  zf_queue : s_queue st' = po_queue po;
  zf_penalty_to : s_penalty_to st' = s_penalty_to st + po_total po;
  zf_nonpositive : amount <= 0 -> po_total po = amount /\ po_queue po = s_queue st /\
                   v_token (po_val po) = v_token val /\ v_dlgs (po_val po) = v_dlgs val
}.

Lemma take_penalty_meta cfg q val amount po :
  take_penalty cfg q val amount = Some po ->
  v_addr (po_val po) = v_addr val /\ v_expire (po_val po) = v_expire val.
Proof.
  unfold take_penalty. destruct (Z.eqb (v_stake val) 0); [discriminate|].
  match goal with |- context [withdraw_loop ?a ?b ?c ?d] => destruct (withdraw_loop a b c d) as [[q' s] wl] end.
  destruct (Z.ltb 0 (t_pa s)).
  - match goal with |- context [dlg_loop ?u ?m ?ds ?s0] => destruct (dlg_loop u m ds s0) as [[ds' s1] pl] end.
    intros H; injection H as <-. simpl. auto.
  - intros H; injection H as <-. simpl. auto.
Qed.

Theorem do_penalize_facts cfg hnum st val amount st' po :
  do_penalize cfg hnum st val amount = Some (st', po) ->
  penalize_facts cfg hnum st val amount st' po.
Proof.
  unfold do_penalize. destruct (Z.ltb 0 amount) eqn:Ea.
  - destruct (take_penalty cfg (s_queue st) val amount) as [po0|] eqn:Et; [|discriminate].
    apply take_penalty_meta in Et as [Hadr Hexp].
    intros H; injection H as <- <-. constructor; simpl; auto; try lia.
    rewrite Hexp. destruct (N.ltb (v_expire val) (hnum + c_expel cfg)) eqn:E; lia.
  - intros H; injection H as <- <-. constructor; simpl; auto; try lia.
    destruct (N.ltb (v_expire val) (hnum + c_expel cfg)) eqn:E; lia.
Qed.
